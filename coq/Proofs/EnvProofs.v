(* C07 -- proofs about Model/Env.v: environments as sums over configurations, expectation = dense formula,
   independence of the cut, tabulated = plain, rank-3 as rank-4 with a trivial ancilla, 1-site RDM. *)
From Coq Require Import Ring List Arith Lia.
Import ListNotations.
From Coq Require Import ZArith.
From RV Require Import Base.CRing Base.BigSum Model.Chain Proofs.ChainProofs Model.FreqCache Model.Env Proofs.FreqCacheProofs.

Section EnvProofs.
Variable R : CRing.
Add Ring RR : (rth R).
Notation "0" := (r0 R).
Notation "1" := (r1 R).
Infix "+" := (radd R).
Infix "*" := (rmul R).
Notation E3 := (E3 R).
Notation site3 := (site3 R).
Notation site4 := (site4 R).

Definition dl (a b : nat) : R := if Nat.eqb a b then 1 else 0.

(* ------------------------------------------------------------------------------- sumn, extras *)
Lemma sumn_ext' n (f g : nat -> R) : (forall i, f i = g i) -> sumn n f = sumn n g.
Proof. intros H. apply sumn_ext. intros; apply H. Qed.

Lemma sumn_1 (f : nat -> R) : sumn 1 f = f 0%nat.
Proof. cbn [sumn]. ring. Qed.

Lemma sumn_delta_l n k (f : nat -> R) : (k < n)%nat -> sumn n (fun i => dl i k * f i) = f k.
Proof.
  intros Hk. rewrite <- (sumn_delta R n k f Hk). apply sumn_ext'. intros i. unfold dl.
  destruct (Nat.eqb i k); ring.
Qed.

Lemma sumn_delta_r n k (f : nat -> R) : (k < n)%nat -> sumn n (fun i => dl k i * f i) = f k.
Proof.
  intros Hk. rewrite <- (sumn_delta_l n k f Hk). apply sumn_ext'. intros i. unfold dl.
  rewrite (Nat.eqb_sym k i). reflexivity.
Qed.

Lemma sumn_mul n m (f g : nat -> R) :
  sumn n f * sumn m g = sumn n (fun i => sumn m (fun j => f i * g j)).
Proof.
  rewrite <- sumn_scale_r. apply sumn_ext'. intros i. rewrite sumn_scale_l. reflexivity.
Qed.

(* ------------------------------------------------------------------------------------- sum3 *)
Lemma sum3_ext da db dc (F G : nat -> nat -> nat -> R) :
  (forall a b c, (a < da)%nat -> (b < db)%nat -> (c < dc)%nat -> F a b c = G a b c) ->
  sum3 da db dc F = sum3 da db dc G.
Proof.
  intros H. unfold sum3. apply sumn_ext. intros a Ha. apply sumn_ext. intros b Hb.
  apply sumn_ext. intros c Hc. apply H; assumption.
Qed.

Lemma sum3_ext' da db dc (F G : nat -> nat -> nat -> R) :
  (forall a b c, F a b c = G a b c) -> sum3 da db dc F = sum3 da db dc G.
Proof. intros H. apply sum3_ext. intros; apply H. Qed.

Lemma sum3_scale_l da db dc x (F : nat -> nat -> nat -> R) :
  sum3 da db dc (fun a b c => x * F a b c) = x * sum3 da db dc F.
Proof.
  unfold sum3. rewrite <- sumn_scale_l. apply sumn_ext'. intros a.
  rewrite <- sumn_scale_l. apply sumn_ext'. intros b. rewrite <- sumn_scale_l. reflexivity.
Qed.

Lemma sum3_scale_r da db dc x (F : nat -> nat -> nat -> R) :
  sum3 da db dc (fun a b c => F a b c * x) = sum3 da db dc F * x.
Proof.
  unfold sum3. rewrite <- sumn_scale_r. apply sumn_ext'. intros a.
  rewrite <- sumn_scale_r. apply sumn_ext'. intros b. rewrite <- sumn_scale_r. reflexivity.
Qed.

Lemma sum3_sumn_exchange da db dc n (F : nat -> nat -> nat -> nat -> R) :
  sum3 da db dc (fun a b c => sumn n (fun i => F a b c i)) =
  sumn n (fun i => sum3 da db dc (fun a b c => F a b c i)).
Proof.
  unfold sum3.
  rewrite (sumn_exchange R n da (fun i a => sumn db (fun b => sumn dc (fun c => F a b c i)))).
  apply sumn_ext'. intros a.
  rewrite (sumn_exchange R n db (fun i b => sumn dc (fun c => F a b c i))).
  apply sumn_ext'. intros b.
  rewrite (sumn_exchange R n dc (fun i c => F a b c i)). reflexivity.
Qed.

Lemma sum3_sum3_exchange da db dc da' db' dc' (F : nat -> nat -> nat -> nat -> nat -> nat -> R) :
  sum3 da db dc (fun a b c => sum3 da' db' dc' (fun a' b' c' => F a b c a' b' c')) =
  sum3 da' db' dc' (fun a' b' c' => sum3 da db dc (fun a b c => F a b c a' b' c')).
Proof.
  unfold sum3 at 2 3.
  rewrite (sum3_sumn_exchange da db dc da' (fun a b c a' => sumn db' (fun b' => sumn dc' (fun c' => F a b c a' b' c')))).
  apply sumn_ext'. intros a'.
  rewrite (sum3_sumn_exchange da db dc db' (fun a b c b' => sumn dc' (fun c' => F a b c a' b' c'))).
  apply sumn_ext'. intros b'.
  rewrite (sum3_sumn_exchange da db dc dc' (fun a b c c' => F a b c a' b' c')). reflexivity.
Qed.

Lemma sum3_delta_l da db dc f g h (F : nat -> nat -> nat -> R) :
  (f < da)%nat -> (g < db)%nat -> (h < dc)%nat ->
  sum3 da db dc (fun a b c => F a b c * (dl a f * dl b g * dl c h)) = F f g h.
Proof.
  intros Hf Hg Hh. unfold sum3.
  rewrite <- (sumn_delta_l da f (fun a => F a g h) Hf). apply sumn_ext'. intros a.
  rewrite <- (sumn_delta_l db g (fun b => F a b h) Hg). rewrite <- sumn_scale_l. apply sumn_ext'. intros b.
  rewrite <- (sumn_delta_l dc h (fun c => F a b c) Hh). rewrite <- !sumn_scale_l. apply sumn_ext'. intros c.
  ring.
Qed.

Lemma sum3_delta_r da db dc f g h (F : nat -> nat -> nat -> R) :
  (f < da)%nat -> (g < db)%nat -> (h < dc)%nat ->
  sum3 da db dc (fun a b c => (dl f a * dl g b * dl h c) * F a b c) = F f g h.
Proof.
  intros Hf Hg Hh. rewrite <- (sum3_delta_l da db dc f g h F Hf Hg Hh). apply sum3_ext'. intros a b c.
  unfold dl. rewrite (Nat.eqb_sym f a), (Nat.eqb_sym g b), (Nat.eqb_sym h c). ring.
Qed.

(* a separable summand: the triple sum is the product of the three sums *)
Lemma sum3_sep da db dc (X Y Z : nat -> R) :
  sum3 da db dc (fun a b c => X a * Y b * Z c) = sumn da X * sumn db Y * sumn dc Z.
Proof.
  unfold sum3. rewrite <- !sumn_scale_r. apply sumn_ext'. intros a.
  rewrite <- (sumn_scale_l R db (X a) Y), <- sumn_scale_r. apply sumn_ext'. intros b.
  rewrite <- sumn_scale_l. reflexivity.
Qed.

Lemma sum3_111 (F : nat -> nat -> nat -> R) : sum3 1 1 1 F = F 0%nat 0%nat 0%nat.
Proof. unfold sum3. rewrite !sumn_1. reflexivity. Qed.

(* associativity of products over a composite (triple) index: the one rearrangement used by every
   "environment = row vector times transfer matrices" argument *)
Lemma sum3_assoc da db dc da' db' dc' (X : nat -> nat -> nat -> R)
      (Y : nat -> nat -> nat -> nat -> nat -> nat -> R) (Z : nat -> nat -> nat -> R) :
  sum3 da' db' dc' (fun a' b' c' => sum3 da db dc (fun a b c => X a b c * Y a b c a' b' c') * Z a' b' c') =
  sum3 da db dc (fun a b c => X a b c * sum3 da' db' dc' (fun a' b' c' => Y a b c a' b' c' * Z a' b' c')).
Proof.
  transitivity (sum3 da' db' dc' (fun a' b' c' => sum3 da db dc (fun a b c => X a b c * (Y a b c a' b' c' * Z a' b' c')))).
  - apply sum3_ext'. intros a' b' c'. rewrite <- sum3_scale_r. apply sum3_ext'. intros; ring.
  - rewrite sum3_sum3_exchange. apply sum3_ext'. intros a b c. rewrite sum3_scale_l. reflexivity.
Qed.

(* ------------------------------------------------------------------------------ tabulation *)
Lemma nth_map_seq {A} (f : nat -> A) n i d : (i < n)%nat -> nth i (map f (seq 0 n)) d = f i.
Proof.
  intros Hi. rewrite (nth_indep _ d (f 0%nat)) by (rewrite map_length, seq_length; exact Hi).
  rewrite (map_nth f (seq 0 n) 0%nat i). rewrite seq_nth by exact Hi. reflexivity.
Qed.

Lemma retab_in da db dc (E : E3) a b c :
  (a < da)%nat -> (b < db)%nat -> (c < dc)%nat -> retab da db dc E a b c = E a b c.
Proof.
  intros Ha Hb Hc. unfold retab, of3, tab3.
  rewrite (nth_map_seq (fun l => map (fun p => map (fun r => E l p r) (seq 0 dc)) (seq 0 db)) da a [] Ha).
  rewrite (nth_map_seq (fun p => map (fun r => E a p r) (seq 0 dc)) db b [] Hb).
  rewrite (nth_map_seq (fun r => E a b r) dc c 0 Hc). reflexivity.
Qed.

Lemma sentinel_000 : @sentinel R 0%nat 0%nat 0%nat = 1.
Proof. reflexivity. Qed.

(* ------------------------------------------------------- transfer "matrix" of one rank-4 site *)
Definition M4 (s : site4) (a b c a' b' c' : nat) : R :=
  sumn (p4 s) (fun d => sumn (p4 s) (fun e => sumn (q4 s) (fun l =>
    bra4 s a d l a' * op4 s b d e b' * ket4 s c e l c'))).

(* the sandwich of a list of sites: entry from the left bond triple (a,b,c) to the right triple (f,g,h) *)
Fixpoint sand4 (ss : list site4) (a b c f g h : nat) : R :=
  match ss with
  | [] => dl a f * dl b g * dl c h
  | s :: r => sum3 (a4 s) (b4 s) (c4 s) (fun a' b' c' => M4 s a b c a' b' c' * sand4 r a' b' c' f g h)
  end.

Lemma stepL4_M da db dc (E : E3) s f g h :
  stepL4 da db dc E s f g h = sum3 da db dc (fun a b c => E a b c * M4 s a b c f g h).
Proof.
  unfold stepL4, cos_L4, M4. apply sum3_ext'. intros a b c.
  rewrite <- sumn_scale_l. apply sumn_ext'. intros d.
  rewrite <- sumn_scale_l. apply sumn_ext'. intros e.
  rewrite <- sumn_scale_l. apply sumn_ext'. intros l. ring.
Qed.

Lemma stepR4_M (E : E3) s f g h :
  stepR4 s E f g h = sum3 (a4 s) (b4 s) (c4 s) (fun a b c => M4 s f g h a b c * E a b c).
Proof.
  unfold stepR4, cos_R4, M4. apply sum3_ext'. intros a b c.
  rewrite <- sumn_scale_r. apply sumn_ext'. intros d.
  rewrite <- sumn_scale_r. apply sumn_ext'. intros e.
  rewrite <- sumn_scale_r. apply sumn_ext'. intros l. ring.
Qed.

(* right bond dimensions after a list of sites *)
Definition lastA (da : nat) (ss : list site4) := lastdim da (bras4 ss).
Definition lastB (db : nat) (ss : list site4) := lastdim db (ops4 ss).
Definition lastC (dc : nat) (ss : list site4) := lastdim dc (kets4 ss).

Lemma lastA_cons da s r : lastA da (s :: r) = lastA (a4 s) r. Proof. reflexivity. Qed.
Lemma lastB_cons db s r : lastB db (s :: r) = lastB (b4 s) r. Proof. reflexivity. Qed.
Lemma lastC_cons dc s r : lastC dc (s :: r) = lastC (c4 s) r. Proof. reflexivity. Qed.
Lemma lastA_app da x y : lastA da (x ++ y) = lastA (lastA da x) y.
Proof. unfold lastA, bras4. rewrite map_app. apply lastdim_app. Qed.
Lemma lastB_app db x y : lastB db (x ++ y) = lastB (lastB db x) y.
Proof. unfold lastB, ops4. rewrite map_app. apply lastdim_app. Qed.
Lemma lastC_app dc x y : lastC dc (x ++ y) = lastC (lastC dc x) y.
Proof. unfold lastC, kets4. rewrite map_app. apply lastdim_app. Qed.

(* the environment depends on its start value only inside the index range *)
Lemma stepL4_ext da db dc (E E' : E3) s f g h :
  (forall a b c, (a < da)%nat -> (b < db)%nat -> (c < dc)%nat -> E a b c = E' a b c) ->
  stepL4 da db dc E s f g h = stepL4 da db dc E' s f g h.
Proof.
  intros H. rewrite !stepL4_M. apply sum3_ext. intros a b c Ha Hb Hc. rewrite (H a b c Ha Hb Hc). reflexivity.
Qed.

Lemma stepR4_ext (E E' : E3) s f g h :
  (forall a b c, (a < a4 s)%nat -> (b < b4 s)%nat -> (c < c4 s)%nat -> E a b c = E' a b c) ->
  stepR4 s E f g h = stepR4 s E' f g h.
Proof.
  intros H. rewrite !stepR4_M. apply sum3_ext. intros a b c Ha Hb Hc. rewrite (H a b c Ha Hb Hc). reflexivity.
Qed.

(* env_fold, L:  the L-environment after the sites ss  =  start environment times the sandwich *)
Lemma envL4_sand ss : forall da db dc (E : E3) f g h,
  (f < lastA da ss)%nat -> (g < lastB db ss)%nat -> (h < lastC dc ss)%nat ->
  envL4 da db dc E ss f g h = sum3 da db dc (fun a b c => E a b c * sand4 ss a b c f g h).
Proof.
  induction ss as [|s r IH]; intros da db dc E f g h Hf Hg Hh.
  - cbn [envL4 sand4]. symmetry. apply sum3_delta_l; assumption.
  - cbn [envL4 sand4]. rewrite lastA_cons in Hf. rewrite lastB_cons in Hg. rewrite lastC_cons in Hh.
    rewrite (IH _ _ _ _ f g h Hf Hg Hh).
    rewrite <- (sum3_assoc da db dc (a4 s) (b4 s) (c4 s) E (M4 s) (fun a' b' c' => sand4 r a' b' c' f g h)).
    apply sum3_ext'. intros a' b' c'. rewrite stepL4_M. reflexivity.
Qed.

(* env_fold, R (mirrored):  the R-environment of the sites ss  =  sandwich times end environment *)
Lemma envR4_sand ss : forall da db dc (E : E3) f g h,
  (f < da)%nat -> (g < db)%nat -> (h < dc)%nat ->
  envR4 ss E f g h =
  sum3 (lastA da ss) (lastB db ss) (lastC dc ss) (fun a b c => sand4 ss f g h a b c * E a b c).
Proof.
  induction ss as [|s r IH]; intros da db dc E f g h Hf Hg Hh.
  - cbn [envR4 sand4]. symmetry. apply sum3_delta_r; assumption.
  - cbn [envR4 sand4]. rewrite lastA_cons, lastB_cons, lastC_cons. rewrite stepR4_M.
    rewrite (sum3_assoc (a4 s) (b4 s) (c4 s) _ _ _ (M4 s f g h) (sand4 r) E).
    apply sum3_ext. intros a b c Ha Hb Hc. rewrite (IH (a4 s) (b4 s) (c4 s) E a b c Ha Hb Hc). reflexivity.
Qed.

(* splitting the sandwich at any cut *)
Lemma sand4_app xs ys : forall da db dc a b c f g h,
  (a < da)%nat -> (b < db)%nat -> (c < dc)%nat ->
  sand4 (xs ++ ys) a b c f g h =
  sum3 (lastA da xs) (lastB db xs) (lastC dc xs) (fun m1 m2 m3 => sand4 xs a b c m1 m2 m3 * sand4 ys m1 m2 m3 f g h).
Proof.
  induction xs as [|s r IH]; intros da db dc a b c f g h Ha Hb Hc.
  - cbn [app sand4]. symmetry. apply (sum3_delta_r da db dc a b c (fun m1 m2 m3 => sand4 ys m1 m2 m3 f g h)); assumption.
  - cbn [app sand4]. rewrite lastA_cons, lastB_cons, lastC_cons.
    rewrite (sum3_assoc (a4 s) (b4 s) (c4 s) _ _ _ (M4 s a b c) (sand4 r) (fun m1 m2 m3 => sand4 ys m1 m2 m3 f g h)).
    apply sum3_ext. intros a' b' c' Ha' Hb' Hc'.
    rewrite (IH (a4 s) (b4 s) (c4 s) a' b' c' f g h Ha' Hb' Hc'). reflexivity.
Qed.

(* --------------------------------------------------- joint sum over (bra, ket, ancilla) configurations *)
Fixpoint cfg3 (ss : list site4) (F : list nat -> list nat -> list nat -> R) : R :=
  match ss with
  | [] => F [] [] []
  | s :: r => sumn (p4 s) (fun d => sumn (p4 s) (fun e => sumn (q4 s) (fun l =>
                cfg3 r (fun s' s0 t => F (d :: s') (e :: s0) (l :: t)))))
  end.

Lemma cfg3_ext ss : forall (F G : list nat -> list nat -> list nat -> R),
  (forall s' s0 t, length s' = length ss -> length s0 = length ss -> length t = length ss -> F s' s0 t = G s' s0 t) ->
  cfg3 ss F = cfg3 ss G.
Proof.
  induction ss as [|s r IH]; intros F G H; cbn [cfg3].
  - apply H; reflexivity.
  - apply sumn_ext'. intros d. apply sumn_ext'. intros e. apply sumn_ext'. intros l.
    apply IH. intros s' s0 t H1 H2 H3. apply H; cbn [length]; congruence.
Qed.

Lemma cfg3_scale_l ss : forall x (F : list nat -> list nat -> list nat -> R),
  cfg3 ss (fun s' s0 t => x * F s' s0 t) = x * cfg3 ss F.
Proof.
  induction ss as [|s r IH]; intros x F; cbn [cfg3]; [reflexivity|].
  rewrite <- sumn_scale_l. apply sumn_ext'. intros d.
  rewrite <- sumn_scale_l. apply sumn_ext'. intros e.
  rewrite <- sumn_scale_l. apply sumn_ext'. intros l. apply IH.
Qed.

Lemma cfg3_sumn_exchange ss : forall n (F : nat -> list nat -> list nat -> list nat -> R),
  sumn n (fun i => cfg3 ss (F i)) = cfg3 ss (fun s' s0 t => sumn n (fun i => F i s' s0 t)).
Proof.
  induction ss as [|s r IH]; intros n F; cbn [cfg3]; [reflexivity|].
  rewrite (sumn_exchange R n (p4 s)). apply sumn_ext'. intros d.
  rewrite (sumn_exchange R n (p4 s)). apply sumn_ext'. intros e.
  rewrite (sumn_exchange R n (q4 s)). apply sumn_ext'. intros l.
  apply (IH n (fun i s' s0 t => F i (d :: s') (e :: s0) (l :: t))).
Qed.

Lemma cfg3_sum3_exchange ss da db dc (F : nat -> nat -> nat -> list nat -> list nat -> list nat -> R) :
  sum3 da db dc (fun a b c => cfg3 ss (F a b c)) =
  cfg3 ss (fun s' s0 t => sum3 da db dc (fun a b c => F a b c s' s0 t)).
Proof.
  unfold sum3.
  rewrite <- (cfg3_sumn_exchange ss da (fun a s' s0 t => sumn db (fun b => sumn dc (fun c => F a b c s' s0 t)))).
  apply sumn_ext'. intros a.
  rewrite <- (cfg3_sumn_exchange ss db (fun b s' s0 t => sumn dc (fun c => F a b c s' s0 t))).
  apply sumn_ext'. intros b.
  rewrite <- (cfg3_sumn_exchange ss dc (fun c s' s0 t => F a b c s' s0 t)). reflexivity.
Qed.

(* the sandwich is the sum over all configurations of  bra chain * operator chain * ket chain *)
Lemma sand4_chains ss : forall a b c f g h,
  sand4 ss a b c f g h =
  cfg3 ss (fun s' s0 t => chain4 (bras4 ss) s' t a f * chain4 (ops4 ss) s' s0 b g * chain4 (kets4 ss) s0 t c h).
Proof.
  induction ss as [|s r IH]; intros a b c f g h.
  - reflexivity.
  - cbn [sand4 cfg3].
    transitivity (sum3 (a4 s) (b4 s) (c4 s) (fun a' b' c' =>
        sumn (p4 s) (fun d => sumn (p4 s) (fun e => sumn (q4 s) (fun l =>
          cfg3 r (fun s' s0 t => (bra4 s a d l a' * op4 s b d e b' * ket4 s c e l c') *
             (chain4 (bras4 r) s' t a' f * chain4 (ops4 r) s' s0 b' g * chain4 (kets4 r) s0 t c' h))))))).
    { apply sum3_ext'. intros a' b' c'. rewrite IH. unfold M4.
      rewrite <- sumn_scale_r. apply sumn_ext'. intros d.
      rewrite <- sumn_scale_r. apply sumn_ext'. intros e.
      rewrite <- sumn_scale_r. apply sumn_ext'. intros l.
      rewrite cfg3_scale_l. reflexivity. }
    rewrite sum3_sumn_exchange. apply sumn_ext'. intros d.
    rewrite sum3_sumn_exchange. apply sumn_ext'. intros e.
    rewrite sum3_sumn_exchange. apply sumn_ext'. intros l.
    rewrite cfg3_sum3_exchange. apply cfg3_ext. intros s' s0 t _ _ _.
    cbn [bras4 ops4 kets4 map chain4].
    fold (bras4 r). fold (ops4 r). fold (kets4 r).
    rewrite <- (sum3_sep (a4 s) (b4 s) (c4 s)
                 (fun m => bra4 s a d l m * chain4 (bras4 r) s' t m f)
                 (fun m => op4 s b d e m * chain4 (ops4 r) s' s0 m g)
                 (fun m => ket4 s c e l m * chain4 (kets4 r) s0 t m h)).
    apply sum3_ext'. intros a' b' c'. ring.
Qed.

(* ------------------------------------------------------------------ sumcfg lemmas *)
Lemma sumcfg_ext' ds : forall (F G : list nat -> R), (forall s, F s = G s) -> sumcfg ds F = sumcfg ds G.
Proof.
  induction ds as [|d ds IH]; intros F G H; cbn [sumcfg]; [apply H|].
  apply sumn_ext'. intros p. apply IH. intros s. apply H.
Qed.

Lemma sumn_sumcfg_exchange ds : forall n (F : nat -> list nat -> R),
  sumn n (fun i => sumcfg ds (F i)) = sumcfg ds (fun s => sumn n (fun i => F i s)).
Proof.
  induction ds as [|d ds IH]; intros n F; cbn [sumcfg]; [reflexivity|].
  rewrite (sumn_exchange R n d). apply sumn_ext'. intros p.
  apply (IH n (fun i s => F i (p :: s))).
Qed.

Lemma cfg3_sumcfg ss : forall (F : list nat -> list nat -> list nat -> R),
  cfg3 ss F = sumcfg (map (@p4 R) ss) (fun s' => sumcfg (map (@p4 R) ss) (fun s0 => sumcfg (map (@q4 R) ss) (fun t => F s' s0 t))).
Proof.
  induction ss as [|s r IH]; intros F; cbn [cfg3 map sumcfg]; [reflexivity|].
  apply sumn_ext'. intros d.
  transitivity (sumn (p4 s) (fun e => sumcfg (map (@p4 R) r) (fun s' => sumcfg (map (@p4 R) r) (fun s0 =>
                  sumn (q4 s) (fun l => sumcfg (map (@q4 R) r) (fun t => F (d :: s') (e :: s0) (l :: t))))))).
  { apply sumn_ext'. intros e.
    transitivity (sumn (q4 s) (fun l => sumcfg (map (@p4 R) r) (fun s' => sumcfg (map (@p4 R) r) (fun s0 =>
                  sumcfg (map (@q4 R) r) (fun t => F (d :: s') (e :: s0) (l :: t)))))).
    { apply sumn_ext'. intros l. apply IH. }
    rewrite sumn_sumcfg_exchange. apply sumcfg_ext'. intros s'.
    rewrite sumn_sumcfg_exchange. reflexivity. }
  rewrite sumn_sumcfg_exchange. reflexivity.
Qed.

(* ------------------------------------------------------------------ the cut theorem and the expectation *)
(* for every cut xs | ys of a whole chain (outer bonds of dimension one): L-environment of xs dotted with the
   R-environment of ys  =  the full sandwich  -- independent of the cut *)
Lemma cut4 xs ys :
  lastA 1 (xs ++ ys) = 1%nat -> lastB 1 (xs ++ ys) = 1%nat -> lastC 1 (xs ++ ys) = 1%nat ->
  dot3 (lastA 1 xs) (lastB 1 xs) (lastC 1 xs) (envL4 1 1 1 sentinel xs) (envR4 ys sentinel) =
  sand4 (xs ++ ys) 0 0 0 0 0 0.
Proof.
  intros HA HB HC. rewrite lastA_app in HA. rewrite lastB_app in HB. rewrite lastC_app in HC.
  rewrite (sand4_app xs ys 1 1 1 0 0 0 0 0 0) by lia.
  unfold dot3. apply sum3_ext. intros a b c Ha Hb Hc.
  rewrite (envL4_sand xs 1 1 1 sentinel a b c Ha Hb Hc), sum3_111, sentinel_000.
  rewrite (envR4_sand ys (lastA 1 xs) (lastB 1 xs) (lastC 1 xs) sentinel a b c Ha Hb Hc).
  rewrite HA, HB, HC, sum3_111, sentinel_000. ring.
Qed.

Definition dense4 (ss : list site4) : R :=
  sumcfg (map (@p4 R) ss) (fun s' => sumcfg (map (@p4 R) ss) (fun s0 => sumcfg (map (@q4 R) ss) (fun t =>
    chain4 (bras4 ss) s' t 0 0 * chain4 (ops4 ss) s' s0 0 0 * chain4 (kets4 ss) s0 t 0 0))).

Lemma sand4_dense ss : sand4 ss 0 0 0 0 0 0 = dense4 ss.
Proof. rewrite sand4_chains, cfg3_sumcfg. reflexivity. Qed.

Lemma expectation4_cut s r :
  expectation4 (s :: r) = dot3 (lastA 1 [s]) (lastB 1 [s]) (lastC 1 [s]) (envL4 1 1 1 sentinel [s]) (envR4 r sentinel).
Proof. reflexivity. Qed.

Theorem expectation4_dense ss :
  ss <> [] -> lastA 1 ss = 1%nat -> lastB 1 ss = 1%nat -> lastC 1 ss = 1%nat ->
  expectation4 ss = dense4 ss.
Proof.
  destruct ss as [|s r]; [congruence|]. intros _ HA HB HC.
  rewrite expectation4_cut. rewrite (cut4 [s] r HA HB HC). apply sand4_dense.
Qed.

(* any cut gives the expectation value *)
Theorem cut4_expectation xs ys :
  xs ++ ys <> [] -> lastA 1 (xs ++ ys) = 1%nat -> lastB 1 (xs ++ ys) = 1%nat -> lastC 1 (xs ++ ys) = 1%nat ->
  dot3 (lastA 1 xs) (lastB 1 xs) (lastC 1 xs) (envL4 1 1 1 sentinel xs) (envR4 ys sentinel) = expectation4 (xs ++ ys).
Proof.
  intros Hne HA HB HC. rewrite (cut4 xs ys HA HB HC). rewrite (expectation4_dense _ Hne HA HB HC).
  apply sand4_dense.
Qed.

(* ------------------------------------------------------------------ sum over configurations: general form *)
Definition cfgsum4 (ss : list site4) (a b c f g h : nat) : R :=
  sumcfg (map (@p4 R) ss) (fun s' => sumcfg (map (@p4 R) ss) (fun s0 => sumcfg (map (@q4 R) ss) (fun t =>
    chain4 (bras4 ss) s' t a f * chain4 (ops4 ss) s' s0 b g * chain4 (kets4 ss) s0 t c h))).

Lemma sand4_cfgsum ss a b c f g h : sand4 ss a b c f g h = cfgsum4 ss a b c f g h.
Proof. rewrite sand4_chains, cfg3_sumcfg. reflexivity. Qed.

(* env_fold (rank-4 states): the L-environment after the sites ss / the R-environment of the sites ss *)
Theorem env_fold_L4 ss f g h :
  (f < lastA 1 ss)%nat -> (g < lastB 1 ss)%nat -> (h < lastC 1 ss)%nat ->
  envL4 1 1 1 sentinel ss f g h = cfgsum4 ss 0 0 0 f g h.
Proof.
  intros Hf Hg Hh. rewrite (envL4_sand ss 1 1 1 sentinel f g h Hf Hg Hh), sum3_111, sentinel_000.
  rewrite sand4_cfgsum. ring.
Qed.

Theorem env_fold_R4 ss da db dc f g h :
  (f < da)%nat -> (g < db)%nat -> (h < dc)%nat ->
  lastA da ss = 1%nat -> lastB db ss = 1%nat -> lastC dc ss = 1%nat ->
  envR4 ss sentinel f g h = cfgsum4 ss f g h 0 0 0.
Proof.
  intros Hf Hg Hh HA HB HC. rewrite (envR4_sand ss da db dc sentinel f g h Hf Hg Hh).
  rewrite HA, HB, HC, sum3_111, sentinel_000. rewrite sand4_cfgsum. ring.
Qed.

(* ------------------------------------------------------------------ tabulated = plain *)
Lemma envL4_ext ss : forall da db dc (E E' : E3) f g h,
  (forall a b c, (a < da)%nat -> (b < db)%nat -> (c < dc)%nat -> E a b c = E' a b c) ->
  (f < lastA da ss)%nat -> (g < lastB db ss)%nat -> (h < lastC dc ss)%nat ->
  envL4 da db dc E ss f g h = envL4 da db dc E' ss f g h.
Proof.
  induction ss as [|s r IH]; intros da db dc E E' f g h H Hf Hg Hh; cbn [envL4].
  - apply H; assumption.
  - apply IH; try assumption. intros a b c _ _ _. apply stepL4_ext. exact H.
Qed.

Lemma envL4t_eq ss : forall da db dc (E E' : E3) f g h,
  (forall a b c, (a < da)%nat -> (b < db)%nat -> (c < dc)%nat -> E a b c = E' a b c) ->
  (f < lastA da ss)%nat -> (g < lastB db ss)%nat -> (h < lastC dc ss)%nat ->
  envL4t da db dc E ss f g h = envL4 da db dc E' ss f g h.
Proof.
  induction ss as [|s r IH]; intros da db dc E E' f g h H Hf Hg Hh; cbn [envL4t envL4].
  - apply H; assumption.
  - apply IH; try assumption. intros a b c Ha Hb Hc. rewrite retab_in by assumption.
    apply stepL4_ext. exact H.
Qed.

Lemma envR4_ext ss : forall da db dc (E E' : E3) f g h,
  (forall a b c, (a < lastA da ss)%nat -> (b < lastB db ss)%nat -> (c < lastC dc ss)%nat -> E a b c = E' a b c) ->
  (f < da)%nat -> (g < db)%nat -> (h < dc)%nat ->
  envR4 ss E f g h = envR4 ss E' f g h.
Proof.
  induction ss as [|s r IH]; intros da db dc E E' f g h H Hf Hg Hh; cbn [envR4].
  - apply H; assumption.
  - apply stepR4_ext. intros a b c Ha Hb Hc. apply (IH (a4 s) (b4 s) (c4 s)); try assumption.
Qed.

Lemma envR4t_eq ss : forall da db dc (E E' : E3) f g h,
  (forall a b c, (a < lastA da ss)%nat -> (b < lastB db ss)%nat -> (c < lastC dc ss)%nat -> E a b c = E' a b c) ->
  (f < da)%nat -> (g < db)%nat -> (h < dc)%nat ->
  envR4t da db dc ss E f g h = envR4 ss E' f g h.
Proof.
  induction ss as [|s r IH]; intros da db dc E E' f g h H Hf Hg Hh; cbn [envR4t envR4].
  - apply H; assumption.
  - rewrite retab_in by assumption. apply stepR4_ext. intros a b c Ha Hb Hc.
    apply (IH (a4 s) (b4 s) (c4 s)); try assumption.
Qed.

Theorem expectation4t_eq (ss : list site4) : expectation4t ss = expectation4 ss.
Proof.
  destruct ss as [|s r]; [reflexivity|]. cbn [expectation4t expectation4]. unfold dot3.
  apply sum3_ext. intros a b c Ha Hb Hc. rewrite retab_in by assumption.
  rewrite (envR4t_eq r (a4 s) (b4 s) (c4 s) sentinel sentinel a b c); try assumption; reflexivity.
Qed.

(* ------------------------------------------------------------------ rank-3 states = rank-4 with a trivial ancilla *)
Lemma stepL3_lift da db dc (E : E3) (s : site3) f g h :
  stepL3 da db dc E s f g h = stepL4 da db dc E (lift3 s) f g h.
Proof.
  unfold stepL3, stepL4, cos_L3, cos_L4. cbn [lift3 p4 q4 bra4 op4 ket4].
  apply sum3_ext'. intros a b c. apply sumn_ext'. intros d. apply sumn_ext'. intros e.
  rewrite sumn_1. reflexivity.
Qed.

Lemma stepR3_lift (E : E3) (s : site3) f g h :
  stepR3 s E f g h = stepR4 (lift3 s) E f g h.
Proof.
  unfold stepR3, stepR4, cos_R3, cos_R4. cbn [lift3 p4 q4 a4 b4 c4 bra4 op4 ket4].
  apply sum3_ext'. intros a b c. apply sumn_ext'. intros d. apply sumn_ext'. intros e.
  rewrite sumn_1. reflexivity.
Qed.

Definition lastA3 (da : nat) (ss : list site3) := lastdim da (bras3 ss).
Definition lastB3 (db : nat) (ss : list site3) := lastdim db (ops3 ss).
Definition lastC3 (dc : nat) (ss : list site3) := lastdim dc (kets3 ss).

Lemma lastA_lift da ss : lastA da (map (@lift3 R) ss) = lastA3 da ss.
Proof. revert da. induction ss as [|s r IH]; intros da; [reflexivity|]. cbn [map]. rewrite lastA_cons. cbn [lift3 a4]. apply IH. Qed.
Lemma lastB_lift db ss : lastB db (map (@lift3 R) ss) = lastB3 db ss.
Proof. revert db. induction ss as [|s r IH]; intros db; [reflexivity|]. cbn [map]. rewrite lastB_cons. cbn [lift3 b4]. apply IH. Qed.
Lemma lastC_lift dc ss : lastC dc (map (@lift3 R) ss) = lastC3 dc ss.
Proof. revert dc. induction ss as [|s r IH]; intros dc; [reflexivity|]. cbn [map]. rewrite lastC_cons. cbn [lift3 c4]. apply IH. Qed.

Lemma envL3_lift ss : forall da db dc (E : E3) f g h,
  (f < lastA3 da ss)%nat -> (g < lastB3 db ss)%nat -> (h < lastC3 dc ss)%nat ->
  envL3 da db dc E ss f g h = envL4 da db dc E (map (@lift3 R) ss) f g h.
Proof.
  induction ss as [|s r IH]; intros da db dc E f g h Hf Hg Hh; [reflexivity|].
  cbn [envL3 map envL4]. cbn [lift3 a4 b4 c4]. rewrite (IH _ _ _ _ f g h Hf Hg Hh).
  apply envL4_ext.
  - intros a b c _ _ _. apply stepL3_lift.
  - rewrite lastA_lift. exact Hf.
  - rewrite lastB_lift. exact Hg.
  - rewrite lastC_lift. exact Hh.
Qed.

Lemma envR3_lift ss : forall (E : E3) f g h,
  envR3 ss E f g h = envR4 (map (@lift3 R) ss) E f g h.
Proof.
  induction ss as [|s r IH]; intros E f g h; [reflexivity|].
  cbn [envR3 map envR4]. rewrite stepR3_lift. apply stepR4_ext. intros a b c _ _ _. apply IH.
Qed.

Lemma expectation3_lift (ss : list site3) : expectation3 ss = expectation4 (map (@lift3 R) ss).
Proof.
  destruct ss as [|s r]; [reflexivity|]. cbn [expectation3 map expectation4]. cbn [lift3 a4 b4 c4].
  unfold dot3. apply sum3_ext'. intros a b c. rewrite stepL3_lift, envR3_lift. reflexivity.
Qed.

Lemma envL3t_eq ss : forall da db dc (E E' : E3) f g h,
  (forall a b c, (a < da)%nat -> (b < db)%nat -> (c < dc)%nat -> E a b c = E' a b c) ->
  (f < lastA3 da ss)%nat -> (g < lastB3 db ss)%nat -> (h < lastC3 dc ss)%nat ->
  envL3t da db dc E ss f g h = envL3 da db dc E' ss f g h.
Proof.
  induction ss as [|s r IH]; intros da db dc E E' f g h H Hf Hg Hh; cbn [envL3t envL3].
  - apply H; assumption.
  - apply IH; try assumption. intros a b c Ha Hb Hc. rewrite retab_in by assumption.
    rewrite !stepL3_lift. apply stepL4_ext. exact H.
Qed.

Lemma envR3t_eq ss : forall da db dc (E E' : E3) f g h,
  (forall a b c, (a < lastA3 da ss)%nat -> (b < lastB3 db ss)%nat -> (c < lastC3 dc ss)%nat -> E a b c = E' a b c) ->
  (f < da)%nat -> (g < db)%nat -> (h < dc)%nat ->
  envR3t da db dc ss E f g h = envR3 ss E' f g h.
Proof.
  induction ss as [|s r IH]; intros da db dc E E' f g h H Hf Hg Hh; cbn [envR3t envR3].
  - apply H; assumption.
  - rewrite retab_in by assumption. rewrite !stepR3_lift. apply stepR4_ext. cbn [lift3 a4 b4 c4].
    intros a b c Ha Hb Hc. apply (IH (a3 s) (b3 s) (c3 s)); try assumption.
Qed.

Theorem expectation3t_eq (ss : list site3) : expectation3t ss = expectation3 ss.
Proof.
  destruct ss as [|s r]; [reflexivity|]. cbn [expectation3t expectation3]. unfold dot3.
  apply sum3_ext. intros a b c Ha Hb Hc. rewrite retab_in by assumption.
  rewrite (envR3t_eq r (a3 s) (b3 s) (c3 s) sentinel sentinel a b c); try assumption; reflexivity.
Qed.

(* chains of lifted sites *)
Lemma sumcfg_ext_len ds : forall (F G : list nat -> R),
  (forall s, length s = length ds -> F s = G s) -> sumcfg ds F = sumcfg ds G.
Proof.
  induction ds as [|d ds IH]; intros F G H; cbn [sumcfg]; [apply H; reflexivity|].
  apply sumn_ext'. intros p. apply IH. intros s Hs. apply H. cbn [length]. congruence.
Qed.

Lemma map_p4_lift ss : map (@p4 R) (map (@lift3 R) ss) = map (@p3 R) ss.
Proof. rewrite map_map. reflexivity. Qed.

Lemma ops4_lift ss : ops4 (map (@lift3 R) ss) = ops3 ss.
Proof. unfold ops4, ops3. rewrite map_map. reflexivity. Qed.

Lemma sumcfg_ones ss : forall (H : list nat -> R),
  sumcfg (map (@q4 R) (map (@lift3 R) ss)) H = H (repeat 0%nat (length ss)).
Proof.
  induction ss as [|s r IH]; intros H; [reflexivity|].
  cbn [map sumcfg length repeat]. cbn [lift3 q4]. rewrite sumn_1. apply (IH (fun t => H (0%nat :: t))).
Qed.

Lemma chain4_bras_lift ss : forall s' a f, length s' = length ss ->
  chain4 (bras4 (map (@lift3 R) ss)) s' (repeat 0%nat (length ss)) a f = chain3 (bras3 ss) s' a f.
Proof.
  induction ss as [|s r IH]; intros s' a f Hl; destruct s' as [|p s']; try discriminate; [reflexivity|].
  cbn [map bras4 bras3 length repeat chain4 chain3]. fold (bras4 (map (@lift3 R) r)). fold (bras3 r).
  cbn [lift3 a4 bra4]. apply sumn_ext'. intros m. rewrite IH by (cbn in Hl; congruence). reflexivity.
Qed.

Lemma chain4_kets_lift ss : forall s0 c h, length s0 = length ss ->
  chain4 (kets4 (map (@lift3 R) ss)) s0 (repeat 0%nat (length ss)) c h = chain3 (kets3 ss) s0 c h.
Proof.
  induction ss as [|s r IH]; intros s0 c h Hl; destruct s0 as [|p s0]; try discriminate; [reflexivity|].
  cbn [map kets4 kets3 length repeat chain4 chain3]. fold (kets4 (map (@lift3 R) r)). fold (kets3 r).
  cbn [lift3 c4 ket4]. apply sumn_ext'. intros m. rewrite IH by (cbn in Hl; congruence). reflexivity.
Qed.

Definition cfgsum3 (ss : list site3) (a b c f g h : nat) : R :=
  sumcfg (map (@p3 R) ss) (fun s' => sumcfg (map (@p3 R) ss) (fun s0 =>
    chain3 (bras3 ss) s' a f * chain4 (ops3 ss) s' s0 b g * chain3 (kets3 ss) s0 c h)).

Lemma cfgsum4_lift ss a b c f g h : cfgsum4 (map (@lift3 R) ss) a b c f g h = cfgsum3 ss a b c f g h.
Proof.
  unfold cfgsum4, cfgsum3. rewrite map_p4_lift, ops4_lift.
  apply sumcfg_ext_len. intros s' Hs'. apply sumcfg_ext_len. intros s0 Hs0.
  rewrite map_length in Hs', Hs0.
  rewrite sumcfg_ones. rewrite chain4_bras_lift, chain4_kets_lift by assumption. reflexivity.
Qed.

(* env_fold for rank-3 states *)
Theorem env_fold_L3 ss f g h :
  (f < lastA3 1 ss)%nat -> (g < lastB3 1 ss)%nat -> (h < lastC3 1 ss)%nat ->
  envL3 1 1 1 sentinel ss f g h = cfgsum3 ss 0 0 0 f g h.
Proof.
  intros Hf Hg Hh. rewrite (envL3_lift ss 1 1 1 sentinel f g h Hf Hg Hh).
  rewrite env_fold_L4 by (rewrite ?lastA_lift, ?lastB_lift, ?lastC_lift; assumption).
  apply cfgsum4_lift.
Qed.

Theorem env_fold_R3 ss da db dc f g h :
  (f < da)%nat -> (g < db)%nat -> (h < dc)%nat ->
  lastA3 da ss = 1%nat -> lastB3 db ss = 1%nat -> lastC3 dc ss = 1%nat ->
  envR3 ss sentinel f g h = cfgsum3 ss f g h 0 0 0.
Proof.
  intros Hf Hg Hh HA HB HC. rewrite envR3_lift.
  rewrite (env_fold_R4 (map (@lift3 R) ss) da db dc f g h Hf Hg Hh)
    by (rewrite ?lastA_lift, ?lastB_lift, ?lastC_lift; assumption).
  apply cfgsum4_lift.
Qed.

(* expectation_dense for states:  x^T O psi  with the dense amplitudes of Model/Chain.v *)
Definition dense3 (ss : list site3) : R :=
  sumcfg (map (@p3 R) ss) (fun s' => sumcfg (map (@p3 R) ss) (fun s0 =>
    amp (bras3 ss) s' * opamp (ops3 ss) s' s0 * amp (kets3 ss) s0)).

Theorem expectation3_dense ss :
  ss <> [] -> lastA3 1 ss = 1%nat -> lastB3 1 ss = 1%nat -> lastC3 1 ss = 1%nat ->
  expectation3 ss = dense3 ss.
Proof.
  intros Hne HA HB HC. rewrite expectation3_lift.
  rewrite expectation4_dense; rewrite ?lastA_lift, ?lastB_lift, ?lastC_lift; try assumption.
  - change (dense4 (map (@lift3 R) ss)) with (cfgsum4 (map (@lift3 R) ss) 0 0 0 0 0 0). rewrite cfgsum4_lift. reflexivity.
  - destruct ss; [congruence|discriminate].
Qed.

Theorem cut3_expectation xs ys :
  xs ++ ys <> [] -> lastA3 1 (xs ++ ys) = 1%nat -> lastB3 1 (xs ++ ys) = 1%nat -> lastC3 1 (xs ++ ys) = 1%nat ->
  dot3 (lastA3 1 xs) (lastB3 1 xs) (lastC3 1 xs) (envL3 1 1 1 sentinel xs) (envR3 ys sentinel) = expectation3 (xs ++ ys).
Proof.
  intros Hne HA HB HC. rewrite expectation3_lift, map_app.
  rewrite <- cut4_expectation; rewrite <- ?map_app, ?lastA_lift, ?lastB_lift, ?lastC_lift; try assumption.
  - unfold dot3. apply sum3_ext. intros a b c Ha Hb Hc.
    rewrite (envL3_lift xs 1 1 1 sentinel a b c Ha Hb Hc), envR3_lift. reflexivity.
  - intros H. apply Hne. destruct xs; destruct ys; try discriminate H. reflexivity.
Qed.

End EnvProofs.

(* ============================================================== one-site reduced density matrix *)
Section Rdm.
Variable R : CRing.
Add Ring RR3 : (rth R).
Infix "+" := (radd R).
Infix "*" := (rmul R).
Notation cj := (rcj R).
Notation dl := (dl R).

Definition kchain (ks : list (nat * nat * T3 R)) : list (nat * T3 R) := map (fun x => (snd (fst x), snd x)) ks.
Definition cjchain (ks : list (nat * nat * T3 R)) : list (nat * T3 R) := map (fun x => (snd (fst x), cj3 (snd x))) ks.
Definition idchain (ks : list (nat * nat * T3 R)) : list (nat * T4 R) := map (fun _ => (1%nat, @id_op R)) ks.
Definition kdims (ks : list (nat * nat * T3 R)) : list nat := map (fun x => fst (fst x)) ks.

Lemma bras3_self ks : bras3 (self_sand ks) = cjchain ks.
Proof. unfold bras3, self_sand, cjchain. rewrite map_map. apply map_ext. intros [[p d] t]. reflexivity. Qed.
Lemma kets3_self ks : kets3 (self_sand ks) = kchain ks.
Proof. unfold kets3, self_sand, kchain. rewrite map_map. apply map_ext. intros [[p d] t]. reflexivity. Qed.
Lemma ops3_self ks : ops3 (self_sand ks) = idchain ks.
Proof. unfold ops3, self_sand, idchain. rewrite map_map. apply map_ext. intros [[p d] t]. reflexivity. Qed.
Lemma p3_self ks : map (@p3 R) (self_sand ks) = kdims ks.
Proof. unfold self_sand, kdims. rewrite map_map. apply map_ext. intros [[p d] t]. reflexivity. Qed.

Lemma lastdim_cj ks : forall d0, lastdim d0 (cjchain ks) = lastdim d0 (kchain ks).
Proof. induction ks as [|x ks IH]; intros d0; [reflexivity|]. cbn [cjchain kchain map]. rewrite !lastdim_cons. apply IH. Qed.
Lemma lastdim_id ks : lastdim 1 (idchain ks) = 1%nat.
Proof. induction ks as [|x ks IH]; [reflexivity|]. cbn [idchain map]. rewrite lastdim_cons. exact IH. Qed.

Lemma cj_dl a b : cj (dl a b) = dl a b.
Proof. unfold EnvProofs.dl. destruct (Nat.eqb a b); [apply rcj_1|apply rcj_0]. Qed.

Lemma chain3_cj ks : forall s l r, chain3 (cjchain ks) s l r = cj (chain3 (kchain ks) s l r).
Proof.
  induction ks as [|x ks IH]; intros s l r; destruct s as [|p s]; cbn [cjchain kchain map chain3].
  - symmetry. apply cj_dl.
  - symmetry. apply rcj_0.
  - symmetry. apply rcj_0.
  - fold (cjchain ks). fold (kchain ks). cbn [fst snd]. rewrite sumn_cj. apply sumn_ext'. intros m.
    rewrite rcj_mul, IH. reflexivity.
Qed.

Fixpoint deltas (s' s : list nat) : R :=
  match s', s with
  | [], [] => r1 R
  | p :: s', q :: s => dl p q * deltas s' s
  | _, _ => r0 R
  end.

Lemma chain4_id ks : forall s' s, length s' = length ks -> length s = length ks ->
  chain4 (idchain ks) s' s 0 0 = deltas s' s.
Proof.
  induction ks as [|x ks IH]; intros s' s H1 H2; destruct s' as [|p s']; destruct s as [|q s]; try discriminate; [reflexivity|].
  cbn [idchain map chain4 deltas]. fold (idchain ks). rewrite sumn_1. rewrite IH by (cbn in *; congruence).
  unfold id_op, EnvProofs.dl. reflexivity.
Qed.

Lemma sumcfg_scale_l ds : forall x (F : list nat -> R), sumcfg ds (fun s => x * F s) = x * sumcfg ds F.
Proof.
  induction ds as [|d ds IH]; intros x F; cbn [sumcfg]; [reflexivity|].
  rewrite <- sumn_scale_l. apply sumn_ext'. intros p. apply IH.
Qed.

Lemma sumcfg_scale_r ds : forall x (F : list nat -> R), sumcfg ds (fun s => F s * x) = sumcfg ds F * x.
Proof.
  induction ds as [|d ds IH]; intros x F; cbn [sumcfg]; [reflexivity|].
  rewrite <- sumn_scale_r. apply sumn_ext'. intros p. apply IH.
Qed.

Lemma sumcfg_ext_bound ds : forall (F G : list nat -> R),
  (forall s, Forall2 lt s ds -> F s = G s) -> sumcfg ds F = sumcfg ds G.
Proof.
  induction ds as [|d ds IH]; intros F G H; cbn [sumcfg]; [apply H; constructor|].
  apply sumn_ext. intros p Hp. apply IH. intros s Hs. apply H. constructor; assumption.
Qed.

Lemma sumcfg_deltas ds : forall s' (F : list nat -> R), Forall2 lt s' ds ->
  sumcfg ds (fun s => deltas s' s * F s) = F s'.
Proof.
  induction ds as [|d ds IH]; intros s' F Hs; inversion Hs as [|p ? s'' ? Hp Hs'']; subst; cbn [sumcfg deltas].
  - ring.
  - rewrite <- (sumn_delta_r R d p (fun q => F (q :: s'')) Hp). apply sumn_ext'. intros q.
    rewrite <- (IH s'' (fun s => F (q :: s)) Hs''). rewrite <- sumcfg_scale_l. apply sumcfg_ext'. intros s. ring.
Qed.

Lemma Forall2_lt_length (s ds : list nat) : Forall2 lt s ds -> length s = length ds.
Proof. induction 1; cbn [length]; congruence. Qed.

(* L / R environments of the sandwich  conj(state) | 1 | state  *)
Lemma selfL ks a c : (a < lastdim 1 (kchain ks))%nat -> (c < lastdim 1 (kchain ks))%nat ->
  envL3 1 1 1 sentinel (self_sand ks) a 0 c =
  sumcfg (kdims ks) (fun s => cj (chain3 (kchain ks) s 0 a) * chain3 (kchain ks) s 0 c).
Proof.
  intros Ha Hc. rewrite env_fold_L3.
  - unfold cfgsum3. rewrite bras3_self, kets3_self, ops3_self, p3_self.
    apply sumcfg_ext_bound. intros s' Hs'. rewrite chain3_cj.
    rewrite <- (sumcfg_deltas (kdims ks) s' (fun s => cj (chain3 (kchain ks) s' 0 a) * chain3 (kchain ks) s 0 c) Hs').
    apply sumcfg_ext_bound. intros s Hs.
    rewrite chain4_id by (rewrite (Forall2_lt_length _ _ Hs') || rewrite (Forall2_lt_length _ _ Hs); unfold kdims; apply map_length).
    ring.
  - unfold lastA3. rewrite bras3_self, lastdim_cj. exact Ha.
  - unfold lastB3. rewrite ops3_self, lastdim_id. lia.
  - unfold lastC3. rewrite kets3_self. exact Hc.
Qed.

Lemma selfR ks d r' r : (r' < d)%nat -> (r < d)%nat -> lastdim d (kchain ks) = 1%nat ->
  envR3 (self_sand ks) sentinel r' 0 r =
  sumcfg (kdims ks) (fun s => cj (chain3 (kchain ks) s r' 0) * chain3 (kchain ks) s r 0).
Proof.
  intros Hr' Hr Hl. rewrite (env_fold_R3 R (self_sand ks) d 1 d r' 0 r Hr' (Nat.lt_0_1) Hr).
  - unfold cfgsum3. rewrite bras3_self, kets3_self, ops3_self, p3_self.
    apply sumcfg_ext_bound. intros s' Hs'. rewrite chain3_cj.
    rewrite <- (sumcfg_deltas (kdims ks) s' (fun s => cj (chain3 (kchain ks) s' r' 0) * chain3 (kchain ks) s r 0) Hs').
    apply sumcfg_ext_bound. intros s Hs.
    rewrite chain4_id by (rewrite (Forall2_lt_length _ _ Hs') || rewrite (Forall2_lt_length _ _ Hs); unfold kdims; apply map_length).
    ring.
  - unfold lastA3. rewrite bras3_self, lastdim_cj. exact Hl.
  - unfold lastB3. rewrite ops3_self. apply lastdim_id.
  - unfold lastC3. rewrite kets3_self. exact Hl.
Qed.

(* dense amplitude of  left ++ [site] ++ right  split at the site *)
Lemma amp_split left p d (t : T3 R) right sl x sr : length sl = length left ->
  amp (kchain (left ++ (p, d, t) :: right)) (sl ++ x :: sr) =
  sumn (lastdim 1 (kchain left)) (fun c => sumn d (fun r =>
    chain3 (kchain left) sl 0 c * t c x r * chain3 (kchain right) sr r 0)).
Proof.
  intros Hl. unfold amp, kchain. rewrite map_app. cbn [map fst snd]. fold (kchain left). fold (kchain right).
  rewrite (chain3_app R (kchain left) ((d, t) :: kchain right) sl (x :: sr) 1 0 0)
    by (try (unfold kchain; rewrite map_length; exact Hl); lia).
  apply sumn_ext'. intros c. cbn [chain3]. rewrite <- sumn_scale_l. apply sumn_ext'. intros r. ring.
Qed.

Definition sum4 (n1 n2 n3 n4 : nat) (F : nat -> nat -> nat -> nat -> R) : R :=
  sumn n1 (fun a => sumn n2 (fun c => sumn n3 (fun r' => sumn n4 (fun r => F a c r' r)))).

Lemma sum4_ext n1 n2 n3 n4 (F G : nat -> nat -> nat -> nat -> R) :
  (forall a c r' r, (a < n1)%nat -> (c < n2)%nat -> (r' < n3)%nat -> (r < n4)%nat -> F a c r' r = G a c r' r) ->
  sum4 n1 n2 n3 n4 F = sum4 n1 n2 n3 n4 G.
Proof.
  intros H. unfold sum4. apply sumn_ext. intros a Ha. apply sumn_ext. intros c Hc.
  apply sumn_ext. intros r' Hr'. apply sumn_ext. intros r Hr. apply H; assumption.
Qed.

Lemma sum4_sumcfg_exchange ds n1 n2 n3 n4 (F : nat -> nat -> nat -> nat -> list nat -> R) :
  sum4 n1 n2 n3 n4 (fun a c r' r => sumcfg ds (F a c r' r)) =
  sumcfg ds (fun s => sum4 n1 n2 n3 n4 (fun a c r' r => F a c r' r s)).
Proof.
  unfold sum4.
  rewrite <- (sumn_sumcfg_exchange R ds n1 (fun a s => sumn n2 (fun c => sumn n3 (fun r' => sumn n4 (fun r => F a c r' r s))))).
  apply sumn_ext'. intros a.
  rewrite <- (sumn_sumcfg_exchange R ds n2 (fun c s => sumn n3 (fun r' => sumn n4 (fun r => F a c r' r s)))).
  apply sumn_ext'. intros c.
  rewrite <- (sumn_sumcfg_exchange R ds n3 (fun r' s => sumn n4 (fun r => F a c r' r s))).
  apply sumn_ext'. intros r'.
  rewrite <- (sumn_sumcfg_exchange R ds n4 (fun r s => F a c r' r s)). reflexivity.
Qed.

(* product of two double sums as one fourfold sum, indices in the order (a, c, r', r) *)
Lemma sum22_mul n1 n2 n3 n4 (U W : nat -> nat -> R) :
  sumn n2 (fun c => sumn n4 (fun r => U c r)) * sumn n1 (fun a => sumn n3 (fun r' => W a r')) =
  sum4 n1 n2 n3 n4 (fun a c r' r => U c r * W a r').
Proof.
  unfold sum4. rewrite <- sumn_scale_l. apply sumn_ext'. intros a.
  rewrite <- sumn_scale_r. apply sumn_ext'. intros c.
  rewrite <- sumn_scale_l. apply sumn_ext'. intros r'.
  rewrite <- sumn_scale_r. reflexivity.
Qed.

(* rdm1_dense: calc_1site_rdm (after fix 7924df4) is the partial trace of |Psi><Psi|:
   rho[x,y] = sum over the configurations of all other sites of  Psi[.. x ..] * conj(Psi[.. y ..]) *)
Theorem rdm1_dense left p d (t : T3 R) right x y :
  lastdim d (kchain right) = 1%nat ->
  rdm1 left (lastdim 1 (kchain left)) p d t right x y =
  sumcfg (kdims left) (fun sl => sumcfg (kdims right) (fun sr =>
    amp (kchain (left ++ (p, d, t) :: right)) (sl ++ x :: sr) *
    cj (amp (kchain (left ++ (p, d, t) :: right)) (sl ++ y :: sr)))).
Proof.
  intros Hl. set (dL := lastdim 1 (kchain left)).
  set (X := fun sl a => chain3 (kchain left) sl 0 a). set (Y := fun sr r => chain3 (kchain right) sr r 0).
  transitivity (sumcfg (kdims left) (fun sl => sumcfg (kdims right) (fun sr =>
     sum4 dL dL d d (fun a c r' r => (X sl c * t c x r * Y sr r) * (cj (X sl a) * cj (t a y r') * cj (Y sr r')))))).
  - unfold rdm1. fold dL.
    change (sumn dL (fun a => sumn dL (fun c => sumn d (fun r' => sumn d (fun r =>
             envL3 1 1 1 sentinel (self_sand left) a 0%nat c * cj (t a y r') * envR3 (self_sand right) sentinel r' 0%nat r * t c x r)))))
      with (sum4 dL dL d d (fun a c r' r =>
             envL3 1 1 1 sentinel (self_sand left) a 0%nat c * cj (t a y r') * envR3 (self_sand right) sentinel r' 0%nat r * t c x r)).
    transitivity (sum4 dL dL d d (fun a c r' r => sumcfg (kdims left) (fun sl => sumcfg (kdims right) (fun sr =>
        (X sl c * t c x r * Y sr r) * (cj (X sl a) * cj (t a y r') * cj (Y sr r')))))).
    + apply sum4_ext. intros a c r' r Ha Hc Hr' Hr.
      rewrite (selfL left a c Ha Hc), (selfR right d r' r Hr' Hr Hl).
      rewrite <- !sumcfg_scale_r. apply sumcfg_ext'. intros sl.
      rewrite <- sumcfg_scale_l, <- sumcfg_scale_r. apply sumcfg_ext'. intros sr. unfold X, Y. ring.
    + rewrite sum4_sumcfg_exchange. apply sumcfg_ext'. intros sl. rewrite sum4_sumcfg_exchange. reflexivity.
  - apply sumcfg_ext_bound. intros sl Hsl. apply sumcfg_ext'. intros sr.
    assert (Hlen : length sl = length left).
    { rewrite (Forall2_lt_length _ _ Hsl). unfold kdims. apply map_length. }
    rewrite !(amp_split left p d t right sl _ sr Hlen). fold dL.
    rewrite !sumn_cj.
    rewrite <- (sum22_mul dL dL d d (fun c r => X sl c * t c x r * Y sr r) (fun a r' => cj (X sl a) * cj (t a y r') * cj (Y sr r'))).
    f_equal. apply sumn_ext'. intros a. rewrite sumn_cj. apply sumn_ext'. intros r'. rewrite !rcj_mul. reflexivity.
Qed.

Lemma ldim_of_kchain left : ldim_of left = lastdim 1 (kchain left).
Proof. unfold ldim_of, lastdim, kchain. generalize 1%nat. induction left as [|x l IH]; intros n; [reflexivity|]. cbn [map fold_left fst]. apply IH. Qed.

Theorem rdm1t_eq left p d (t : T3 R) right x y :
  lastdim d (kchain right) = 1%nat ->
  rdm1t left (ldim_of left) p d t right x y = rdm1 left (lastdim 1 (kchain left)) p d t right x y.
Proof.
  intros Hl. unfold rdm1t, rdm1. rewrite ldim_of_kchain.
  apply sumn_ext. intros a Ha. apply sumn_ext. intros c Hc. apply sumn_ext. intros r' Hr'. apply sumn_ext. intros r Hr.
  rewrite (envL3t_eq R (self_sand left) 1 1 1 sentinel sentinel a 0%nat c).
  - rewrite (envR3t_eq R (self_sand right) d 1 d sentinel sentinel r' 0%nat r); try assumption; try lia; reflexivity.
  - reflexivity.
  - unfold lastA3. rewrite bras3_self, lastdim_cj. exact Ha.
  - unfold lastB3. rewrite ops3_self, lastdim_id. lia.
  - unfold lastC3. rewrite kets3_self. exact Hc.
Qed.

(* ------------------------------------------------------------------ two-site reduced density matrix *)
Notation ksite := (ksite R).
Definition unit_op (x' x : nat) : T4 R := fun _ d e _ => dl d x' * dl e x.
Definition usite (p d : nat) (t : T3 R) (x' x : nat) : site3 R := mk3 p d 1 d (cj3 t) (unit_op x' x) t.
Definition emb (T : nat -> nat -> R) : E3 R := fun a _ c => T a c.

Lemma stepL3_ext da db dc (E E' : E3 R) s f g h :
  (forall a b c, (a < da)%nat -> (b < db)%nat -> (c < dc)%nat -> E a b c = E' a b c) ->
  stepL3 da db dc E s f g h = stepL3 da db dc E' s f g h.
Proof. intros H. rewrite !stepL3_lift. apply stepL4_ext. exact H. Qed.

Lemma envL3_ext ss : forall da db dc (E E' : E3 R) f g h,
  (forall a b c, (a < da)%nat -> (b < db)%nat -> (c < dc)%nat -> E a b c = E' a b c) ->
  (f < lastA3 R da ss)%nat -> (g < lastB3 R db ss)%nat -> (h < lastC3 R dc ss)%nat ->
  envL3 da db dc E ss f g h = envL3 da db dc E' ss f g h.
Proof.
  induction ss as [|s r IH]; intros da db dc E E' f g h H Hf Hg Hh; cbn [envL3].
  - apply H; assumption.
  - apply IH; try assumption. intros a b c _ _ _. apply stepL3_ext. exact H.
Qed.

Lemma envL3_app xs : forall ys da db dc (E : E3 R),
  envL3 da db dc E (xs ++ ys) = envL3 (lastA3 R da xs) (lastB3 R db xs) (lastC3 R dc xs) (envL3 da db dc E xs) ys.
Proof.
  induction xs as [|s r IH]; intros ys da db dc E; [reflexivity|].
  cbn [app envL3]. rewrite IH. reflexivity.
Qed.

Lemma lcomp_step dL (L : E3 R) p d (t : T3 R) x' x r' r : (x' < p)%nat -> (x < p)%nat ->
  lcomp dL (fun a c => L a 0%nat c) t x' x r' r = stepL3 dL 1 dL L (usite p d t x' x) r' 0%nat r.
Proof.
  intros Hx' Hx. unfold lcomp, stepL3, cos_L3, sum3. cbn [usite p3 bra3 op3 ket3].
  apply sumn_ext'. intros a. rewrite sumn_1. apply sumn_ext'. intros c.
  rewrite <- (sumn_delta_l R p x' (fun d0 => L a 0%nat c * cj (t a d0 r') * t c x r) Hx').
  apply sumn_ext'. intros d0.
  rewrite <- (sumn_delta_l R p x (fun e => L a 0%nat c * cj (t a d0 r') * t c e r) Hx).
  rewrite <- sumn_scale_l. apply sumn_ext'. intros e. unfold unit_op, cj3. ring.
Qed.

Lemma transfer_step dprev (T : nat -> nat -> R) p d (t : T3 R) l' l :
  transfer dprev T (p, d, t) l' l = stepL3 dprev 1 dprev (emb T) (self_site (p, d, t)) l' 0%nat l.
Proof.
  unfold transfer, stepL3, cos_L3, sum3. cbn [self_site p3 bra3 op3 ket3].
  apply sumn_ext'. intros a. rewrite sumn_1. apply sumn_ext'. intros c.
  apply sumn_ext. intros d0 Hd0.
  rewrite <- (sumn_delta_r R p d0 (fun e => T a c * cj (t a d0 l') * t c e l) Hd0).
  apply sumn_ext'. intros e. unfold emb, id_op, cj3, EnvProofs.dl. destruct (Nat.eqb d0 e); ring.
Qed.

Lemma rcomp_step d (Rt : E3 R) p (t : T3 R) q' q l' l : (q' < p)%nat -> (q < p)%nat ->
  rcomp d (fun r' r => Rt r' 0%nat r) t q' q l' l = stepR3 (usite p d t q' q) Rt l' 0%nat l.
Proof.
  intros Hq' Hq. unfold rcomp, stepR3, cos_R3, sum3. cbn [usite p3 a3 b3 c3 bra3 op3 ket3].
  apply sumn_ext'. intros a. rewrite sumn_1. apply sumn_ext'. intros c.
  rewrite <- (sumn_delta_l R p q' (fun d0 => cj (t l' d0 a) * Rt a 0%nat c * t l q c) Hq').
  apply sumn_ext'. intros d0.
  rewrite <- (sumn_delta_l R p q (fun e => cj (t l' d0 a) * Rt a 0%nat c * t l e c) Hq).
  rewrite <- sumn_scale_l. apply sumn_ext'. intros e. unfold unit_op, cj3. ring.
Qed.

Lemma lastA3_self ks d0 : lastA3 R d0 (self_sand ks) = lastdim d0 (kchain ks).
Proof. unfold lastA3. rewrite bras3_self. apply lastdim_cj. Qed.
Lemma lastC3_self ks d0 : lastC3 R d0 (self_sand ks) = lastdim d0 (kchain ks).
Proof. unfold lastC3. rewrite kets3_self. reflexivity. Qed.
Lemma lastB3_self ks : lastB3 R 1 (self_sand ks) = 1%nat.
Proof. unfold lastB3. rewrite ops3_self. apply lastdim_id. Qed.

Lemma transfers_env (mid : list ksite) : forall dprev (T : nat -> nat -> R) (E : E3 R) l' l,
  (forall a c, (a < dprev)%nat -> (c < dprev)%nat -> E a 0%nat c = T a c) ->
  (l' < lastdim dprev (kchain mid))%nat -> (l < lastdim dprev (kchain mid))%nat ->
  transfers dprev T mid l' l = envL3 dprev 1 dprev E (self_sand mid) l' 0%nat l.
Proof.
  induction mid as [|[[p d] t] r IH]; intros dprev T E l' l H Hl' Hl.
  - cbn [transfers self_sand map envL3]. symmetry. apply H; assumption.
  - cbn [transfers self_sand map envL3 fst snd]. fold (self_sand r). cbn [self_site a3 b3 c3].
    change (mk3 p d 1 d (cj3 t) id_op t) with (self_site (p, d, t)).
    apply IH.
    + intros a c Ha Hc. rewrite transfer_step. apply stepL3_ext. intros a0 b0 c0 Ha0 Hb0 Hc0.
      replace b0 with 0%nat by lia. unfold emb. apply H; assumption.
    + exact Hl'.
    + exact Hl.
Qed.

Lemma lastA3_app da (x y : list (site3 R)) : lastA3 R da (x ++ y) = lastA3 R (lastA3 R da x) y.
Proof. unfold lastA3, bras3. rewrite map_app. apply lastdim_app. Qed.
Lemma lastB3_app db (x y : list (site3 R)) : lastB3 R db (x ++ y) = lastB3 R (lastB3 R db x) y.
Proof. unfold lastB3, ops3. rewrite map_app. apply lastdim_app. Qed.
Lemma lastC3_app dc (x y : list (site3 R)) : lastC3 R dc (x ++ y) = lastC3 R (lastC3 R dc x) y.
Proof. unfold lastC3, kets3. rewrite map_app. apply lastdim_app. Qed.
Lemma lastA3_cons da s (r : list (site3 R)) : lastA3 R da (s :: r) = lastA3 R (a3 s) r. Proof. reflexivity. Qed.
Lemma lastB3_cons db s (r : list (site3 R)) : lastB3 R db (s :: r) = lastB3 R (b3 s) r. Proof. reflexivity. Qed.
Lemma lastC3_cons dc s (r : list (site3 R)) : lastC3 R dc (s :: r) = lastC3 R (c3 s) r. Proof. reflexivity. Qed.

(* the sandwich  conj(Psi) | 1 .. 1 |y1><x1| 1 .. 1 |y2><x2| 1 .. 1 | Psi *)
Definition rdm2_sand (left : list ksite) p1 d1 (t1 : T3 R) (mid : list ksite) p2 d2 (t2 : T3 R) (right : list ksite)
           (x1 x2 y1 y2 : nat) : list (site3 R) :=
  (self_sand left ++ usite p1 d1 t1 y1 x1 :: self_sand mid) ++ usite p2 d2 t2 y2 x2 :: self_sand right.

Theorem rdm2_dense left p1 d1 (t1 : T3 R) mid p2 d2 (t2 : T3 R) right x1 x2 y1 y2 :
  lastdim d2 (kchain right) = 1%nat ->
  (x1 < p1)%nat -> (y1 < p1)%nat -> (x2 < p2)%nat -> (y2 < p2)%nat ->
  rdm2 left (lastdim 1 (kchain left)) p1 d1 t1 mid (lastdim d1 (kchain mid)) p2 d2 t2 right x1 x2 y1 y2 =
  dense3 R (rdm2_sand left p1 d1 t1 mid p2 d2 t2 right x1 x2 y1 y2).
Proof.
  intros Hr Hx1 Hy1 Hx2 Hy2. unfold rdm2_sand.
  set (xs := self_sand left ++ usite p1 d1 t1 y1 x1 :: self_sand mid).
  set (ys := usite p2 d2 t2 y2 x2 :: self_sand right).
  set (dL := lastdim 1 (kchain left)). set (dm := lastdim d1 (kchain mid)).
  assert (HA : lastA3 R 1 xs = dm).
  { unfold xs. rewrite lastA3_app, lastA3_cons. cbn [usite a3]. apply lastA3_self. }
  assert (HC : lastC3 R 1 xs = dm).
  { unfold xs. rewrite lastC3_app, lastC3_cons. cbn [usite c3]. apply lastC3_self. }
  assert (HB : lastB3 R 1 xs = 1%nat).
  { unfold xs. rewrite lastB3_app, lastB3_cons. cbn [usite b3]. apply lastB3_self. }
  assert (HwA : lastA3 R 1 (xs ++ ys) = 1%nat).
  { rewrite lastA3_app, HA. unfold ys. rewrite lastA3_cons. cbn [usite a3]. rewrite lastA3_self. exact Hr. }
  assert (HwC : lastC3 R 1 (xs ++ ys) = 1%nat).
  { rewrite lastC3_app, HC. unfold ys. rewrite lastC3_cons. cbn [usite c3]. rewrite lastC3_self. exact Hr. }
  assert (HwB : lastB3 R 1 (xs ++ ys) = 1%nat).
  { rewrite lastB3_app, HB. unfold ys. rewrite lastB3_cons. cbn [usite b3]. apply lastB3_self. }
  assert (Hne : xs ++ ys <> []) by (unfold ys; destruct xs; discriminate).
  rewrite <- (expectation3_dense R (xs ++ ys) Hne HwA HwB HwC).
  rewrite <- (cut3_expectation R xs ys Hne HwA HwB HwC). rewrite HA, HB, HC.
  unfold rdm2, dot3, sum3. fold dL. fold dm.
  apply sumn_ext. intros l' Hl'. rewrite sumn_1. apply sumn_ext. intros l Hl. f_equal.
  - unfold xs. rewrite envL3_app. cbn [envL3]. cbn [usite a3 b3 c3].
    change (mk3 p1 d1 1 d1 (cj3 t1) (unit_op y1 x1) t1) with (usite p1 d1 t1 y1 x1).
    rewrite lastA3_self, lastB3_self, lastC3_self. fold dL.
    apply transfers_env; try assumption.
    intros a c _ _. symmetry. apply lcomp_step; assumption.
  - unfold ys. cbn [envR3]. apply rcomp_step; assumption.
Qed.

(* operator chains of bond dimension one: the amplitude is the product of the site matrices' entries *)
Fixpoint prodop (ss : list (site3 R)) (s' s : list nat) : R :=
  match ss, s', s with
  | [], [], [] => r1 R
  | x :: r, a :: s', b :: s => op3 x 0%nat a b 0%nat * prodop r s' s
  | _, _, _ => r0 R
  end.

Lemma chain4_dim1 ss : (forall x, In x ss -> b3 x = 1%nat) -> forall s' s,
  chain4 (ops3 ss) s' s 0 0 = prodop ss s' s.
Proof.
  induction ss as [|x r IH]; intros H s' s; destruct s' as [|a s']; destruct s as [|b s]; try reflexivity.
  cbn [ops3 map chain4 prodop]. fold (ops3 r). rewrite (H x (or_introl eq_refl)), sumn_1.
  rewrite IH by (intros y Hy; apply H; right; exact Hy). reflexivity.
Qed.

Definition kall (left : list ksite) p1 d1 (t1 : T3 R) (mid : list ksite) p2 d2 (t2 : T3 R) (right : list ksite) : list ksite :=
  (left ++ (p1, d1, t1) :: mid) ++ (p2, d2, t2) :: right.

Lemma self_sand_b3 (ks : list ksite) (x : site3 R) : In x (self_sand ks) -> b3 x = 1%nat.
Proof. unfold self_sand. rewrite in_map_iff. intros [[[p d] t] [<- _]]. reflexivity. Qed.

Lemma rdm2_sand_b3 left p1 d1 t1 mid p2 d2 t2 right x1 x2 y1 y2 x :
  In x (rdm2_sand left p1 d1 t1 mid p2 d2 t2 right x1 x2 y1 y2) -> b3 x = 1%nat.
Proof.
  unfold rdm2_sand. rewrite !in_app_iff. cbn [In].
  intros [[H|[<-|H]]|[<-|H]]; try reflexivity; apply (self_sand_b3 _ _ H).
Qed.

Lemma bras3_rdm2 left p1 d1 t1 mid p2 d2 t2 right x1 x2 y1 y2 :
  bras3 (rdm2_sand left p1 d1 t1 mid p2 d2 t2 right x1 x2 y1 y2) = cjchain (kall left p1 d1 t1 mid p2 d2 t2 right).
Proof.
  unfold rdm2_sand, kall. pose proof (bras3_self left) as H1. pose proof (bras3_self mid) as H2. pose proof (bras3_self right) as H3.
  unfold bras3, cjchain in *. rewrite !map_app. cbn [map]. rewrite ?map_app. rewrite H1, H2, H3. reflexivity.
Qed.
Lemma kets3_rdm2 left p1 d1 t1 mid p2 d2 t2 right x1 x2 y1 y2 :
  kets3 (rdm2_sand left p1 d1 t1 mid p2 d2 t2 right x1 x2 y1 y2) = kchain (kall left p1 d1 t1 mid p2 d2 t2 right).
Proof.
  unfold rdm2_sand, kall. pose proof (kets3_self left) as H1. pose proof (kets3_self mid) as H2. pose proof (kets3_self right) as H3.
  unfold kets3, kchain in *. rewrite !map_app. cbn [map]. rewrite ?map_app. rewrite H1, H2, H3. reflexivity.
Qed.
Lemma p3_rdm2 left p1 d1 t1 mid p2 d2 t2 right x1 x2 y1 y2 :
  map (@p3 R) (rdm2_sand left p1 d1 t1 mid p2 d2 t2 right x1 x2 y1 y2) = kdims (kall left p1 d1 t1 mid p2 d2 t2 right).
Proof.
  unfold rdm2_sand, kall. pose proof (p3_self left) as H1. pose proof (p3_self mid) as H2. pose proof (p3_self right) as H3.
  unfold kdims in *. rewrite !map_app. cbn [map]. rewrite ?map_app. rewrite H1, H2, H3. reflexivity.
Qed.

(* rdm2_dense: calc_2site_rdm (after fix 7924df4), entry row (x1,x2), column (y1,y2), is the dense double sum
     sum_{s',s} conj(Psi[s']) * W[s',s] * Psi[s]
   where W is the product over the sites of  delta(s'_k, s_k)  (sites other than i, j),
   delta(s'_i,y1) delta(s_i,x1)  and  delta(s'_j,y2) delta(s_j,x2):  i.e.  <Psi| |y1 y2><x1 x2| |Psi>
   = sum over the other sites of Psi[..x1..x2..] conj(Psi[..y1..y2..]). *)
Theorem rdm2_dense_w left p1 d1 (t1 : T3 R) mid p2 d2 (t2 : T3 R) right x1 x2 y1 y2 :
  lastdim d2 (kchain right) = 1%nat ->
  (x1 < p1)%nat -> (y1 < p1)%nat -> (x2 < p2)%nat -> (y2 < p2)%nat ->
  rdm2 left (lastdim 1 (kchain left)) p1 d1 t1 mid (lastdim d1 (kchain mid)) p2 d2 t2 right x1 x2 y1 y2 =
  sumcfg (kdims (kall left p1 d1 t1 mid p2 d2 t2 right)) (fun s' =>
  sumcfg (kdims (kall left p1 d1 t1 mid p2 d2 t2 right)) (fun s =>
    cj (amp (kchain (kall left p1 d1 t1 mid p2 d2 t2 right)) s') *
    prodop (rdm2_sand left p1 d1 t1 mid p2 d2 t2 right x1 x2 y1 y2) s' s *
    amp (kchain (kall left p1 d1 t1 mid p2 d2 t2 right)) s)).
Proof.
  intros Hr Hx1 Hy1 Hx2 Hy2. rewrite (rdm2_dense left p1 d1 t1 mid p2 d2 t2 right x1 x2 y1 y2 Hr Hx1 Hy1 Hx2 Hy2).
  unfold dense3. rewrite p3_rdm2, bras3_rdm2, kets3_rdm2.
  apply sumcfg_ext'. intros s'. apply sumcfg_ext'. intros s. unfold amp, opamp.
  rewrite chain3_cj. rewrite (chain4_dim1 _ (rdm2_sand_b3 left p1 d1 t1 mid p2 d2 t2 right x1 x2 y1 y2)). reflexivity.
Qed.

Lemma tab2_in da dc (T : nat -> nat -> R) a c : (a < da)%nat -> (c < dc)%nat -> tab2 da dc T a c = T a c.
Proof. intros Ha Hc. unfold tab2. rewrite retab_in by (try assumption; lia). reflexivity. Qed.

Lemma transfer_ext dprev (T T' : nat -> nat -> R) k l' l :
  (forall a c, (a < dprev)%nat -> (c < dprev)%nat -> T a c = T' a c) -> transfer dprev T k l' l = transfer dprev T' k l' l.
Proof.
  intros H. destruct k as [[p d] t]. unfold transfer. apply sumn_ext. intros a Ha. apply sumn_ext. intros c Hc.
  apply sumn_ext'. intros s. rewrite (H a c Ha Hc). reflexivity.
Qed.

Lemma transfers_t_eq (mid : list ksite) : forall dprev (T T' : nat -> nat -> R) l' l,
  (forall a c, (a < dprev)%nat -> (c < dprev)%nat -> T a c = T' a c) ->
  (l' < lastdim dprev (kchain mid))%nat -> (l < lastdim dprev (kchain mid))%nat ->
  transfers_t dprev T mid l' l = transfers dprev T' mid l' l.
Proof.
  induction mid as [|k r IH]; intros dprev T T' l' l H Hl' Hl; cbn [transfers_t transfers].
  - apply H; assumption.
  - apply IH; try assumption. intros a c Ha Hc. rewrite tab2_in by assumption. apply transfer_ext. exact H.
Qed.

Theorem rdm2t_eq left p1 d1 (t1 : T3 R) mid p2 d2 (t2 : T3 R) right x1 x2 y1 y2 :
  lastdim d2 (kchain right) = 1%nat ->
  rdm2t left (ldim_of left) p1 d1 t1 mid (lastdim d1 (kchain mid)) p2 d2 t2 right x1 x2 y1 y2 =
  rdm2 left (lastdim 1 (kchain left)) p1 d1 t1 mid (lastdim d1 (kchain mid)) p2 d2 t2 right x1 x2 y1 y2.
Proof.
  intros Hr. unfold rdm2t, rdm2. rewrite ldim_of_kchain.
  apply sumn_ext. intros l' Hl'. apply sumn_ext. intros l Hl. f_equal.
  - apply transfers_t_eq; try assumption. intros a c Ha Hc. rewrite tab2_in by assumption.
    unfold lcomp. apply sumn_ext. intros a0 Ha0. apply sumn_ext. intros c0 Hc0.
    rewrite (envL3t_eq R (self_sand left) 1 1 1 sentinel sentinel a0 0%nat c0); try reflexivity.
    + rewrite lastA3_self. exact Ha0.
    + rewrite lastB3_self. lia.
    + rewrite lastC3_self. exact Hc0.
  - rewrite tab2_in by assumption. unfold rcomp. apply sumn_ext. intros r' Hr'. apply sumn_ext. intros r0 Hr0.
    rewrite (envR3t_eq R (self_sand right) d2 1 d2 sentinel sentinel r' 0%nat r0); try assumption; try lia; reflexivity.
Qed.


(* on a ring with trivial conjugation (real states) the matrix is symmetric, so the transposed matrix the
   code returned before fix 7924df4 was the same; over the Gaussian integers it was not (see Props/C07.v) *)

(* calc_edof_rdm: Hermitian completion of the upper triangle delivered by `expectations` *)
Theorem edof_rdm_spec n (es : list R) i j : (i <= j)%nat ->
  edof_rdm n es i j = nth (tri_index n i j) es (r0 R) /\
  edof_rdm n es j i = (if Nat.eqb i j then nth (tri_index n i j) es (r0 R) else cj (nth (tri_index n i j) es (r0 R))).
Proof.
  intros Hij. unfold edof_rdm. split.
  - destruct (Nat.leb_spec i j); [reflexivity|lia].
  - destruct (Nat.eqb_spec i j) as [->|Hne].
    + destruct (Nat.leb_spec j j); [reflexivity|lia].
    + destruct (Nat.leb_spec j i); [lia|reflexivity].
Qed.

(* entropies are functions of the reduced density matrix / of the singular values only: whatever the
   (external, unverified) spectral function is, equal inputs give equal entropies *)
Theorem entropy_of_rdm_partial (A : Type) (vn_entropy : (nat -> nat -> R) -> A) (rho rho' : nat -> nat -> R) :
  rho = rho' -> vn_entropy rho = vn_entropy rho'.
Proof. intros ->. reflexivity. Qed.

End Rdm.

(* ============================================================== the fast path with real environments *)
Section FastInstProofs.
Variable R : CRing.
Add Ring RR2 : (rth R).
Variable ps : list nat.
Variables bra ket : list (nat * T3 R).

Notation OpSite := (OpSite R).
Notation EnvD := (EnvD R).
Notation site_at := (site_at R ps bra ket).
Notation sites_from := (sites_from R ps bra ket).
Notation env_stepo := (env_stepo R ps bra ket).
Notation env_init := (env_init R).
Notation env_dot := (env_dot R).
Notation foldL' := (foldL EnvD OpSite env_stepo).
Notation foldR' := (foldR EnvD OpSite env_stepo).

(* bond dimensions of an operator chain are consistent: left dim of a site = right dim of the previous one,
   1 at both ends (array shapes; contract_one_site asserts them) *)
Fixpoint opchain (dl0 : nat) (objs : list OpSite) : Prop :=
  match objs with
  | [] => dl0 = 1%nat
  | o :: r => fst (fst o) = dl0 /\ opchain (snd (fst o)) r
  end.
Definition lastdr (d : nat) (objs : list OpSite) : nat := fold_left (fun _ o => snd (fst o)) objs d.

Definition wf_state (n : nat) : Prop := (1 <= n)%nat /\ rdim R bra (n - 1) = 1%nat /\ rdim R ket (n - 1) = 1%nat.
Definition wf_op (n : nat) (objs : list OpSite) : Prop := length objs = n /\ opchain 1 objs.

Lemma lastA3_sites objs : forall i da, lastA3 R da (sites_from i objs) =
  match length objs with 0%nat => da | S l => rdim R bra (i + l) end.
Proof.
  induction objs as [|o r IH]; intros i da; [reflexivity|].
  cbn [sites_from length]. unfold lastA3. cbn [bras3 map]. rewrite lastdim_cons. fold (bras3 (sites_from (S i) r)).
  fold (lastA3 R (a3 (site_at i o)) (sites_from (S i) r)). rewrite IH.
  destruct (length r) as [|l]; cbn [site_at a3]; [rewrite Nat.add_0_r; reflexivity|].
  f_equal. lia.
Qed.

Lemma lastC3_sites objs : forall i dc, lastC3 R dc (sites_from i objs) =
  match length objs with 0%nat => dc | S l => rdim R ket (i + l) end.
Proof.
  induction objs as [|o r IH]; intros i dc; [reflexivity|].
  cbn [sites_from length]. unfold lastC3. cbn [kets3 map]. rewrite lastdim_cons. fold (kets3 (sites_from (S i) r)).
  fold (lastC3 R (c3 (site_at i o)) (sites_from (S i) r)). rewrite IH.
  destruct (length r) as [|l]; cbn [site_at c3]; [rewrite Nat.add_0_r; reflexivity|].
  f_equal. lia.
Qed.

Lemma lastB3_sites objs : forall i db, lastB3 R db (sites_from i objs) = lastdr db objs.
Proof.
  induction objs as [|o r IH]; intros i db; [reflexivity|].
  cbn [sites_from]. unfold lastB3. cbn [ops3 map]. rewrite lastdim_cons. fold (ops3 (sites_from (S i) r)).
  fold (lastB3 R (b3 (site_at i o)) (sites_from (S i) r)). rewrite IH. reflexivity.
Qed.

Lemma sites_from_app x : forall i y, sites_from i (x ++ y) = sites_from i x ++ sites_from (i + length x) y.
Proof.
  induction x as [|o x IH]; intros i y; cbn [app sites_from length].
  - rewrite Nat.add_0_r. reflexivity.
  - rewrite IH. replace (S i + length x)%nat with (i + S (length x))%nat by lia. reflexivity.
Qed.

Lemma foldL_envL3t objs : forall i da db dc T,
  foldL' i objs (da, db, dc, T) =
  (lastA3 R da (sites_from i objs), lastB3 R db (sites_from i objs), lastC3 R dc (sites_from i objs),
   envL3t da db dc T (sites_from i objs)).
Proof.
  induction objs as [|o r IH]; intros i da db dc T; [reflexivity|].
  cbn [foldL sites_from envL3t]. cbn [env_stepo]. rewrite IH. reflexivity.
Qed.

Lemma opchain_split objs : forall d k, opchain d objs -> opchain (lastdr d (firstn k objs)) (skipn k objs).
Proof.
  induction objs as [|o r IH]; intros d k H.
  - destruct k; exact H.
  - destruct k as [|k]; [exact H|]. cbn [firstn skipn lastdr fold_left]. destruct H as [_ H]. apply (IH _ k H).
Qed.

Lemma opchain_last objs : forall d, opchain d objs -> lastdr d objs = 1%nat.
Proof.
  induction objs as [|o r IH]; intros d H; [exact H|]. destruct H as [_ H]. cbn [lastdr fold_left]. apply (IH _ H).
Qed.

Lemma foldR_envR3t objs : forall i D, opchain D objs -> objs <> [] ->
  foldR' i objs env_init =
  (ldim R bra i, D, ldim R ket i, envR3t (ldim R bra i) D (ldim R ket i) (sites_from i objs) sentinel).
Proof.
  induction objs as [|o r IH]; intros i D Hc Hne; [congruence|].
  destruct Hc as [HD Hc]. cbn [foldR sites_from envR3t].
  destruct r as [|o' r'].
  - cbn [foldR sites_from envR3t]. unfold env_init. cbn [env_stepo]. rewrite HD. reflexivity.
  - rewrite (IH (S i) (snd (fst o)) Hc) by discriminate. cbn [env_stepo]. rewrite HD. reflexivity.
Qed.

Lemma split_value_slow n objs k : wf_state n -> wf_op n objs -> (k <= n)%nat ->
  split_value EnvD OpSite R env_stepo env_init env_dot k objs = expectation3t (sites_from 0 objs).
Proof.
  intros [Hn [HA HC]] [Hlen Hch] Hk. unfold split_value. unfold env_init at 1. rewrite foldL_envL3t.
  set (xs := sites_from 0 (firstn k objs)).
  set (ys := sites_from k (skipn k objs)).
  assert (Hfl : length (firstn k objs) = k) by (apply firstn_length_le; lia).
  assert (Hall : sites_from 0 objs = xs ++ ys).
  { unfold xs, ys. rewrite <- (firstn_skipn k objs) at 1. rewrite sites_from_app, Hfl. reflexivity. }
  assert (HlA : lastA3 R 1 xs = ldim R bra k).
  { unfold xs. rewrite lastA3_sites, Hfl. destruct k; reflexivity. }
  assert (HlC : lastC3 R 1 xs = ldim R ket k).
  { unfold xs. rewrite lastC3_sites, Hfl. destruct k; reflexivity. }
  assert (HlB : lastB3 R 1 xs = lastdr 1 (firstn k objs)) by (unfold xs; apply lastB3_sites).
  pose proof (opchain_split objs 1 k Hch) as Hch2.
  assert (HwA : lastA3 R 1 (xs ++ ys) = 1%nat).
  { rewrite <- Hall, lastA3_sites, Hlen. destruct n; [lia|]. cbn [Nat.add]. replace (S n - 1)%nat with n in HA by lia. exact HA. }
  assert (HwC : lastC3 R 1 (xs ++ ys) = 1%nat).
  { rewrite <- Hall, lastC3_sites, Hlen. destruct n; [lia|]. cbn [Nat.add]. replace (S n - 1)%nat with n in HC by lia. exact HC. }
  assert (HwB : lastB3 R 1 (xs ++ ys) = 1%nat).
  { rewrite <- Hall, lastB3_sites. apply opchain_last. exact Hch. }
  assert (Hne : xs ++ ys <> []).
  { rewrite <- Hall. destruct objs; [cbn in Hlen; lia|discriminate]. }
  rewrite expectation3t_eq, Hall. rewrite <- (cut3_expectation R xs ys Hne HwA HwB HwC).
  destruct (skipn k objs) as [|o r] eqn:Esk.
  - (* everything was contracted from the left: the right environment is the sentinel *)
    cbn [foldR]. unfold env_init, env_dot. unfold ys. cbn [sites_from envR3].
    unfold dot3. apply sum3_ext. intros a b c Ha Hb Hc.
    rewrite (envL3t_eq R xs 1 1 1 sentinel sentinel a b c) by (try assumption; reflexivity). reflexivity.
  - rewrite (foldR_envR3t (o :: r) k _ Hch2) by discriminate. unfold env_dot.
    fold ys. unfold dot3. apply sum3_ext. intros a b c Ha Hb Hc.
    rewrite (envL3t_eq R xs 1 1 1 sentinel sentinel a b c) by (try assumption; reflexivity).
    rewrite <- HlA, <- HlC, <- HlB.
    rewrite (envR3t_eq R ys _ _ _ sentinel sentinel a b c) by (try assumption; reflexivity). reflexivity.
Qed.

Lemma Forall2_eq_map {A B} (P : B -> A -> Prop) (f : A -> B) vs ms :
  Forall2 P vs ms -> (forall v m, In m ms -> P v m -> v = f m) -> vs = map f ms.
Proof.
  induction 1 as [|v m vs ms Hp _ IH]; intros H; cbn [map]; [reflexivity|].
  rewrite (H v m (or_introl eq_refl) Hp). f_equal. apply IH. intros v' m' Hin. apply H. right. exact Hin.
Qed.

(* MAIN: the batched fast path returns exactly what the one-by-one path returns, for every operator list in
   every order, assuming hash injectivity on the site matrices present *)
Theorem expectations_fast3_eq_slow nmps (ms : list (hop OpSite)) :
  wf_state nmps ->
  (forall m, In m ms -> wf_op nmps (map snd m)) ->
  (forall h o o', In (h, o) (concat ms) -> In (h, o') (concat ms) -> o = o') ->
  expectations_fast3 R ps bra ket nmps ms = Some (expectations_slow3 R ps bra ket ms).
Proof.
  intros Hst Hops Hinj. unfold expectations_fast3, expectations_slow3.
  destruct (expectations_fast_split EnvD OpSite R env_stepo env_init (op_dflt R) env_dot nmps ms) as [vs [-> Hall]].
  - intros m Hm. destruct (Hops m Hm) as [Hl _]. rewrite map_length in Hl. exact Hl.
  - exact Hinj.
  - f_equal. apply (Forall2_eq_map _ _ _ _ Hall). intros v m Hm [k [Hk Hv]].
    rewrite Hv. apply (split_value_slow nmps (map snd m) k Hst); [apply Hops; exact Hm|exact Hk].
Qed.

(* ... and each of these values is the dense bilinear form  x^T O psi *)
Theorem expectations_slow3_dense nmps (ms : list (hop OpSite)) :
  wf_state nmps -> (forall m, In m ms -> wf_op nmps (map snd m)) ->
  expectations_slow3 R ps bra ket ms = map (fun m => dense3 R (sites_from 0 (map snd m))) ms.
Proof.
  intros [Hn [HA HC]] Hops. unfold expectations_slow3. apply map_ext_in. intros m Hm.
  destruct (Hops m Hm) as [Hlen Hch]. rewrite expectation3t_eq. apply expectation3_dense.
  - destruct (map snd m); [cbn in Hlen; lia|discriminate].
  - rewrite lastA3_sites, Hlen. destruct nmps as [|n']; [lia|]. cbn [Nat.add]. replace (S n' - 1)%nat with n' in HA by lia. exact HA.
  - rewrite lastB3_sites. apply opchain_last. exact Hch.
  - rewrite lastC3_sites, Hlen. destruct nmps as [|n']; [lia|]. cbn [Nat.add]. replace (S n' - 1)%nat with n' in HC by lia. exact HC.
Qed.

End FastInstProofs.

(* ============================================================== collapsing Kronecker-delta weights *)
(* A double sum over pairs of configurations weighted by a product of per-site weights that are either the
   identity delta(a',a) or a unit delta(a',y) delta(a,x) reduces to the sum over the configurations of the
   identity sites only.  Generic in the summand F, so that the rank-4 (ancilla) case can reuse it. *)
Section Collapse.
Variable R : CRing.
Add Ring RR5 : (rth R).
Infix "+" := (radd R).
Infix "*" := (rmul R).
Notation dl := (dl R).
Notation cj := (rcj R).

Fixpoint cfg2 (ds : list nat) (F : list nat -> list nat -> R) : R :=
  match ds with
  | [] => F [] []
  | d :: r => sumn d (fun a' => sumn d (fun a => cfg2 r (fun s' s => F (a' :: s') (a :: s))))
  end.

Lemma cfg2_ext' ds : forall (F G : list nat -> list nat -> R), (forall s' s, F s' s = G s' s) -> cfg2 ds F = cfg2 ds G.
Proof.
  induction ds as [|d r IH]; intros F G H; cbn [cfg2]; [apply H|].
  apply sumn_ext'. intros a'. apply sumn_ext'. intros a. apply IH. intros s' s. apply H.
Qed.

Lemma cfg2_scale_l ds : forall x (F : list nat -> list nat -> R), cfg2 ds (fun s' s => x * F s' s) = x * cfg2 ds F.
Proof.
  induction ds as [|d r IH]; intros x F; cbn [cfg2]; [reflexivity|].
  rewrite <- sumn_scale_l. apply sumn_ext'. intros a'. rewrite <- sumn_scale_l. apply sumn_ext'. intros a. apply IH.
Qed.

Lemma cfg2_sumcfg ds : forall (F : list nat -> list nat -> R),
  cfg2 ds F = sumcfg ds (fun s' => sumcfg ds (fun s => F s' s)).
Proof.
  induction ds as [|d r IH]; intros F; cbn [cfg2 sumcfg]; [reflexivity|].
  apply sumn_ext'. intros a'.
  transitivity (sumn d (fun a => sumcfg r (fun s' => sumcfg r (fun s => F (a' :: s') (a :: s))))).
  { apply sumn_ext'. intros a. apply IH. }
  rewrite sumn_sumcfg_exchange. reflexivity.
Qed.

Definition uw (y x : nat) : nat -> nat -> R := fun a b => dl a y * dl b x.
Fixpoint pw (ws : list (nat -> nat -> R)) (s' s : list nat) : R :=
  match ws, s', s with
  | [], [], [] => r1 R
  | w :: r, a :: s', b :: s => w a b * pw r s' s
  | _, _, _ => r0 R
  end.
Definition ids (D : list nat) : list (nat -> nat -> R) := map (fun _ => dl) D.

Lemma step_id p D ws (F : list nat -> list nat -> R) :
  cfg2 (p :: D) (fun s' s => pw (dl :: ws) s' s * F s' s) =
  sumn p (fun a => cfg2 D (fun s' s => pw ws s' s * F (a :: s') (a :: s))).
Proof.
  cbn [cfg2 pw]. apply sumn_ext. intros a' Ha'.
  rewrite <- (sumn_delta_r R p a' (fun a => cfg2 D (fun s' s => pw ws s' s * F (a' :: s') (a :: s))) Ha').
  apply sumn_ext'. intros a. rewrite <- cfg2_scale_l. apply cfg2_ext'. intros s' s. ring.
Qed.

Lemma step_unit p D ws (F : list nat -> list nat -> R) y x : (y < p)%nat -> (x < p)%nat ->
  cfg2 (p :: D) (fun s' s => pw (uw y x :: ws) s' s * F s' s) =
  cfg2 D (fun s' s => pw ws s' s * F (y :: s') (x :: s)).
Proof.
  intros Hy Hx. cbn [cfg2 pw].
  rewrite <- (sumn_delta_l R p y (fun a' => cfg2 D (fun s' s => pw ws s' s * F (a' :: s') (x :: s))) Hy).
  apply sumn_ext'. intros a'.
  rewrite <- (sumn_delta_l R p x (fun a => cfg2 D (fun s' s => pw ws s' s * F (a' :: s') (a :: s))) Hx).
  rewrite <- sumn_scale_l. apply sumn_ext'. intros a.
  rewrite <- !cfg2_scale_l. apply cfg2_ext'. intros s' s. unfold uw. ring.
Qed.

Lemma cfg2_ids Dr : forall (F : list nat -> list nat -> R),
  cfg2 Dr (fun s' s => pw (ids Dr) s' s * F s' s) = sumcfg Dr (fun sr => F sr sr).
Proof.
  induction Dr as [|p Dr IH]; intros F.
  - cbn [cfg2 ids map pw sumcfg]. ring.
  - cbn [ids map]. fold (ids Dr). rewrite step_id. cbn [sumcfg]. apply sumn_ext'. intros a.
    apply (IH (fun s' s => F (a :: s') (a :: s))).
Qed.

Lemma cfg2_one_unit Dl : forall p Dr y x (F : list nat -> list nat -> R), (y < p)%nat -> (x < p)%nat ->
  cfg2 (Dl ++ p :: Dr) (fun s' s => pw (ids Dl ++ uw y x :: ids Dr) s' s * F s' s) =
  sumcfg Dl (fun sl => sumcfg Dr (fun sr => F (sl ++ y :: sr) (sl ++ x :: sr))).
Proof.
  induction Dl as [|q Dl IH]; intros p Dr y x F Hy Hx.
  - cbn [app ids map sumcfg]. rewrite (step_unit p Dr (ids Dr) F y x Hy Hx).
    apply (cfg2_ids Dr (fun s' s => F (y :: s') (x :: s))).
  - cbn [app ids map]. fold (ids Dl). rewrite step_id. cbn [sumcfg]. apply sumn_ext'. intros a.
    apply (IH p Dr y x (fun s' s => F (a :: s') (a :: s)) Hy Hx).
Qed.

Lemma cfg2_two_units Dl : forall p1 Dm p2 Dr y1 x1 y2 x2 (F : list nat -> list nat -> R),
  (y1 < p1)%nat -> (x1 < p1)%nat -> (y2 < p2)%nat -> (x2 < p2)%nat ->
  cfg2 (Dl ++ p1 :: Dm ++ p2 :: Dr) (fun s' s => pw (ids Dl ++ uw y1 x1 :: ids Dm ++ uw y2 x2 :: ids Dr) s' s * F s' s) =
  sumcfg Dl (fun sl => sumcfg Dm (fun sm => sumcfg Dr (fun sr =>
    F (sl ++ y1 :: sm ++ y2 :: sr) (sl ++ x1 :: sm ++ x2 :: sr)))).
Proof.
  induction Dl as [|q Dl IH]; intros p1 Dm p2 Dr y1 x1 y2 x2 F Hy1 Hx1 Hy2 Hx2.
  - cbn [app ids map sumcfg]. fold (ids Dm). fold (ids Dr).
    rewrite (step_unit p1 (Dm ++ p2 :: Dr) (ids Dm ++ uw y2 x2 :: ids Dr) F y1 x1 Hy1 Hx1).
    apply (cfg2_one_unit Dm p2 Dr y2 x2 (fun s' s => F (y1 :: s') (x1 :: s)) Hy2 Hx2).
  - cbn [app ids map]. fold (ids Dl). rewrite step_id. cbn [sumcfg]. apply sumn_ext'. intros a.
    apply (IH p1 Dm p2 Dr y1 x1 y2 x2 (fun s' s => F (a :: s') (a :: s)) Hy1 Hx1 Hy2 Hx2).
Qed.

(* bond-dimension-one operator chains as weight lists *)
Definition wof (x : site3 R) : nat -> nat -> R := fun a b => op3 x 0%nat a b 0%nat.
Lemma prodop_pw ss : forall s' s, prodop R ss s' s = pw (map wof ss) s' s.
Proof.
  induction ss as [|x r IH]; intros s' s; destruct s' as [|a s']; destruct s as [|b s]; try reflexivity.
  cbn [prodop map pw]. rewrite IH. reflexivity.
Qed.
Lemma wof_self ks : map wof (self_sand ks) = ids (kdims R ks).
Proof. unfold self_sand, ids, kdims. rewrite !map_map. apply map_ext. intros [[p d] t]. reflexivity. Qed.

(* rdm2_dense, explicit partial-trace form: calc_2site_rdm (fixed), sites i < j, any chain, any gauge:
   rho[(x1,x2),(y1,y2)] = sum over the configurations of all other sites of
                          Psi[.. x1 .. x2 ..] * conj(Psi[.. y1 .. y2 ..]) *)
Theorem rdm2_ptrace left p1 d1 (t1 : T3 R) mid p2 d2 (t2 : T3 R) right x1 x2 y1 y2 :
  lastdim d2 (kchain R right) = 1%nat ->
  (x1 < p1)%nat -> (y1 < p1)%nat -> (x2 < p2)%nat -> (y2 < p2)%nat ->
  rdm2 left (lastdim 1 (kchain R left)) p1 d1 t1 mid (lastdim d1 (kchain R mid)) p2 d2 t2 right x1 x2 y1 y2 =
  sumcfg (kdims R left) (fun sl => sumcfg (kdims R mid) (fun sm => sumcfg (kdims R right) (fun sr =>
    amp (kchain R (left ++ (p1, d1, t1) :: mid ++ (p2, d2, t2) :: right)) (sl ++ x1 :: sm ++ x2 :: sr) *
    cj (amp (kchain R (left ++ (p1, d1, t1) :: mid ++ (p2, d2, t2) :: right)) (sl ++ y1 :: sm ++ y2 :: sr))))).
Proof.
  intros Hr Hx1 Hy1 Hx2 Hy2.
  rewrite (rdm2_dense_w R left p1 d1 t1 mid p2 d2 t2 right x1 x2 y1 y2 Hr Hx1 Hy1 Hx2 Hy2).
  assert (HK : kall R left p1 d1 t1 mid p2 d2 t2 right = left ++ (p1, d1, t1) :: mid ++ (p2, d2, t2) :: right).
  { unfold kall. rewrite <- app_assoc. reflexivity. }
  rewrite HK. set (K := kchain R (left ++ (p1, d1, t1) :: mid ++ (p2, d2, t2) :: right)).
  assert (HP : kdims R (left ++ (p1, d1, t1) :: mid ++ (p2, d2, t2) :: right) =
               kdims R left ++ p1 :: kdims R mid ++ p2 :: kdims R right).
  { unfold kdims. rewrite map_app. cbn [map fst]. rewrite map_app. reflexivity. }
  assert (HW : map wof (rdm2_sand R left p1 d1 t1 mid p2 d2 t2 right x1 x2 y1 y2) =
               ids (kdims R left) ++ uw y1 x1 :: ids (kdims R mid) ++ uw y2 x2 :: ids (kdims R right)).
  { unfold rdm2_sand. rewrite <- app_assoc. cbn [app]. rewrite map_app. cbn [map]. rewrite map_app. cbn [map].
    rewrite !wof_self. reflexivity. }
  rewrite HP, <- cfg2_sumcfg.
  rewrite (cfg2_ext' _ _ (fun s' s => pw (ids (kdims R left) ++ uw y1 x1 :: ids (kdims R mid) ++ uw y2 x2 :: ids (kdims R right)) s' s *
                                      (amp K s * cj (amp K s')))).
  - apply cfg2_two_units; assumption.
  - intros s' s. rewrite prodop_pw, HW. ring.
Qed.

End Collapse.

(* ============================================================== occupations *)
(* e_occupations / ph_occupations are `expectations` of the number-operator MPOs with the default bra conj(Psi).
   ASSUMPTION about such an MPO (tied by exact correspondence on the MPOs Renormalizer builds): its dense matrix
   is diagonal, opamp O s' s = delta(s',s) * n(s).  Then the expectation value is  sum_s n(s) |Psi(s)|^2. *)
Section Occupation.
Variable R : CRing.
Add Ring RR6 : (rth R).
Infix "*" := (rmul R).
Notation cj := (rcj R).
Notation ksite := (ksite R).

(* the sandwich  conj(Psi) | O | Psi  for a ket chain and an operator chain [(right bond dim, tensor)] *)
Fixpoint osand (ks : list ksite) (os : list (nat * T4 R)) : list (site3 R) :=
  match ks, os with
  | (p, d, t) :: ks', (b, o) :: os' => mk3 p d b d (cj3 t) o t :: osand ks' os'
  | _, _ => []
  end.

Lemma osand_chains ks : forall os, length os = length ks ->
  bras3 (osand ks os) = cjchain R ks /\ kets3 (osand ks os) = kchain R ks /\ ops3 (osand ks os) = os /\
  map (@p3 R) (osand ks os) = kdims R ks.
Proof.
  induction ks as [|[[p d] t] ks IH]; intros os Hl; destruct os as [|[b o] os]; try discriminate.
  - repeat split; reflexivity.
  - cbn in Hl. destruct (IH os) as [H1 [H2 [H3 H4]]]; [congruence|].
    cbn [osand bras3 kets3 ops3 map cjchain kchain kdims fst snd p3 a3 b3 c3 bra3 ket3 op3].
    fold (bras3 (osand ks os)). fold (kets3 (osand ks os)). fold (ops3 (osand ks os)).
    fold (cjchain R ks). fold (kchain R ks). fold (kdims R ks).
    rewrite H1, H2, H3, H4. repeat split; reflexivity.
Qed.

Theorem occupation_dense (ks : list ksite) (os : list (nat * T4 R)) (n : list nat -> R) :
  length os = length ks -> ks <> [] ->
  lastdim 1 (kchain R ks) = 1%nat -> lastdim 1 os = 1%nat ->
  (forall s' s, Forall2 lt s' (kdims R ks) -> Forall2 lt s (kdims R ks) -> opamp os s' s = deltas R s' s * n s) ->
  expectation3 (osand ks os) = sumcfg (kdims R ks) (fun s => n s * (cj (amp (kchain R ks) s) * amp (kchain R ks) s)).
Proof.
  intros Hl Hne HK HO Hdiag. destruct (osand_chains ks os Hl) as [H1 [H2 [H3 H4]]].
  rewrite expectation3_dense.
  - unfold dense3. rewrite H1, H2, H3, H4. apply sumcfg_ext_bound. intros s' Hs'.
    rewrite <- (sumcfg_deltas R (kdims R ks) s' (fun s => n s * (cj (amp (kchain R ks) s') * amp (kchain R ks) s)) Hs').
    apply sumcfg_ext_bound. intros s Hs. rewrite (Hdiag s' s Hs' Hs). unfold amp at 1. rewrite chain3_cj. unfold amp. ring.
  - destruct ks as [|[[p d] t] ks']; [congruence|]. destruct os as [|[b o] os']; discriminate.
  - unfold lastA3. rewrite H1, lastdim_cj. exact HK.
  - unfold lastB3. rewrite H3. exact HO.
  - unfold lastC3. rewrite H2. exact HK.
Qed.

End Occupation.

(* ============================================================== RDMs of rank-4 (MpDm / purified) states *)
Section Rdm4.
Variable R : CRing.
Add Ring RR7 : (rth R).
Infix "+" := (radd R).
Infix "*" := (rmul R).
Notation cj := (rcj R).
Notation dl := (dl R).
Notation ksite4 := (ksite4 R).

Definition kchain4 (ks : list ksite4) : list (nat * T4 R) := map (fun x => (rdim4 x, snd x)) ks.
Definition cjchain4 (ks : list ksite4) : list (nat * T4 R) := map (fun x => (rdim4 x, cj4 (snd x))) ks.
Definition idchain4 (ks : list ksite4) : list (nat * T4 R) := map (fun _ => (1%nat, @id_op R)) ks.
Definition kdims4 (ks : list ksite4) : list nat := map (fun x => fst (fst (fst x))) ks.
Definition qdims4 (ks : list ksite4) : list nat := map (fun x => snd (fst (fst x))) ks.

Lemma bras4_self ks : bras4 (self_sand4 ks) = cjchain4 ks.
Proof. unfold bras4, self_sand4, cjchain4. rewrite map_map. apply map_ext. intros [[[p q] d] t]. reflexivity. Qed.
Lemma kets4_self ks : kets4 (self_sand4 ks) = kchain4 ks.
Proof. unfold kets4, self_sand4, kchain4. rewrite map_map. apply map_ext. intros [[[p q] d] t]. reflexivity. Qed.
Lemma ops4_self ks : ops4 (self_sand4 ks) = idchain4 ks.
Proof. unfold ops4, self_sand4, idchain4. rewrite map_map. apply map_ext. intros [[[p q] d] t]. reflexivity. Qed.
Lemma p4_self ks : map (@p4 R) (self_sand4 ks) = kdims4 ks.
Proof. unfold self_sand4, kdims4. rewrite map_map. apply map_ext. intros [[[p q] d] t]. reflexivity. Qed.
Lemma q4_self ks : map (@q4 R) (self_sand4 ks) = qdims4 ks.
Proof. unfold self_sand4, qdims4. rewrite map_map. apply map_ext. intros [[[p q] d] t]. reflexivity. Qed.

Lemma lastdim_cj4 ks : forall d0, lastdim d0 (cjchain4 ks) = lastdim d0 (kchain4 ks).
Proof. induction ks as [|x ks IH]; intros d0; [reflexivity|]. cbn [cjchain4 kchain4 map]. rewrite !lastdim_cons. apply IH. Qed.
Lemma lastdim_id4 ks : lastdim 1 (idchain4 ks) = 1%nat.
Proof. induction ks as [|x ks IH]; [reflexivity|]. cbn [idchain4 map]. rewrite lastdim_cons. exact IH. Qed.

Lemma lastA_self4 ks d0 : lastA R d0 (self_sand4 ks) = lastdim d0 (kchain4 ks).
Proof. unfold lastA. rewrite bras4_self. apply lastdim_cj4. Qed.
Lemma lastC_self4 ks d0 : lastC R d0 (self_sand4 ks) = lastdim d0 (kchain4 ks).
Proof. unfold lastC. rewrite kets4_self. reflexivity. Qed.
Lemma lastB_self4 ks : lastB R 1 (self_sand4 ks) = 1%nat.
Proof. unfold lastB. rewrite ops4_self. apply lastdim_id4. Qed.

Lemma chain4_cj ks : forall su sd l r, chain4 (cjchain4 ks) su sd l r = cj (chain4 (kchain4 ks) su sd l r).
Proof.
  induction ks as [|x ks IH]; intros su sd l r; destruct su as [|pu su]; destruct sd as [|pd sd];
    cbn [cjchain4 kchain4 map chain4]; try (symmetry; apply rcj_0).
  - symmetry. apply cj_dl.
  - fold (cjchain4 ks). fold (kchain4 ks). rewrite sumn_cj. apply sumn_ext'. intros m.
    rewrite rcj_mul, IH. reflexivity.
Qed.

Definition usite4 (p q d : nat) (t : T4 R) (x' x : nat) : site4 R := mk4 p q d 1 d (cj4 t) (unit_op R x' x) t.

Lemma envL4_app xs : forall ys da db dc (E : E3 R),
  envL4 da db dc E (xs ++ ys) = envL4 (lastA R da xs) (lastB R db xs) (lastC R dc xs) (envL4 da db dc E xs) ys.
Proof.
  induction xs as [|s r IH]; intros ys da db dc E; [reflexivity|].
  cbn [app envL4]. rewrite IH. reflexivity.
Qed.

Lemma lcomp4_step dL (L : E3 R) p q d (t : T4 R) x' x r' r : (x' < p)%nat -> (x < p)%nat ->
  lcomp4 dL (fun a c => L a 0%nat c) q t x' x r' r = stepL4 dL 1 dL L (usite4 p q d t x' x) r' 0%nat r.
Proof.
  intros Hx' Hx. unfold lcomp4, stepL4, cos_L4, sum3. cbn [usite4 p4 q4 bra4 op4 ket4].
  apply sumn_ext'. intros a. rewrite sumn_1. apply sumn_ext'. intros c.
  rewrite <- (sumn_delta_l R p x' (fun d0 => sumn q (fun l => L a 0%nat c * cj (t a d0 l r') * t c x l r)) Hx').
  apply sumn_ext'. intros d0.
  rewrite <- (sumn_delta_l R p x (fun e => sumn q (fun l => L a 0%nat c * cj (t a d0 l r') * t c e l r)) Hx).
  rewrite <- sumn_scale_l. apply sumn_ext'. intros e. rewrite <- !sumn_scale_l. apply sumn_ext'. intros l.
  unfold unit_op, cj4. ring.
Qed.

Lemma transfer4_step dprev (T : nat -> nat -> R) p q d (t : T4 R) l' l :
  transfer4 dprev T (p, q, d, t) l' l = stepL4 dprev 1 dprev (emb R T) (self_site4 (p, q, d, t)) l' 0%nat l.
Proof.
  unfold transfer4, stepL4, cos_L4, sum3. cbn [self_site4 p4 q4 bra4 op4 ket4].
  apply sumn_ext'. intros a. rewrite sumn_1. apply sumn_ext'. intros c.
  apply sumn_ext. intros d0 Hd0.
  rewrite <- (sumn_delta_r R p d0 (fun e => sumn q (fun anc => T a c * cj (t a d0 anc l') * t c e anc l)) Hd0).
  apply sumn_ext'. intros e. rewrite <- sumn_scale_l. apply sumn_ext'. intros anc.
  unfold emb, id_op, cj4, EnvProofs.dl. destruct (Nat.eqb d0 e); ring.
Qed.

Lemma rcomp4_step d (Rt : E3 R) p q (t : T4 R) q' qq l' l : (q' < p)%nat -> (qq < p)%nat ->
  rcomp4 d (fun r' r => Rt r' 0%nat r) q t q' qq l' l = stepR4 (usite4 p q d t q' qq) Rt l' 0%nat l.
Proof.
  intros Hq' Hq. unfold rcomp4, stepR4, cos_R4, sum3. cbn [usite4 p4 q4 a4 b4 c4 bra4 op4 ket4].
  apply sumn_ext'. intros a. rewrite sumn_1. apply sumn_ext'. intros c.
  rewrite <- (sumn_delta_l R p q' (fun d0 => sumn q (fun anc => cj (t l' d0 anc a) * Rt a 0%nat c * t l qq anc c)) Hq').
  apply sumn_ext'. intros d0.
  rewrite <- (sumn_delta_l R p qq (fun e => sumn q (fun anc => cj (t l' d0 anc a) * Rt a 0%nat c * t l e anc c)) Hq).
  rewrite <- sumn_scale_l. apply sumn_ext'. intros e. rewrite <- !sumn_scale_l. apply sumn_ext'. intros anc.
  unfold unit_op, cj4. ring.
Qed.

Lemma transfers4_env (mid : list ksite4) : forall dprev (T : nat -> nat -> R) (E : E3 R) l' l,
  (forall a c, (a < dprev)%nat -> (c < dprev)%nat -> E a 0%nat c = T a c) ->
  (l' < lastdim dprev (kchain4 mid))%nat -> (l < lastdim dprev (kchain4 mid))%nat ->
  transfers4 dprev T mid l' l = envL4 dprev 1 dprev E (self_sand4 mid) l' 0%nat l.
Proof.
  induction mid as [|[[[p q] d] t] r IH]; intros dprev T E l' l H Hl' Hl.
  - cbn [transfers4 self_sand4 map envL4]. symmetry. apply H; assumption.
  - cbn [transfers4 self_sand4 map envL4 rdim4 fst snd]. fold (self_sand4 r). cbn [self_site4 a4 b4 c4].
    change (mk4 p q d 1 d (cj4 t) id_op t) with (self_site4 (p, q, d, t)).
    apply IH.
    + intros a c Ha Hc. rewrite transfer4_step. apply stepL4_ext. intros a0 b0 c0 Ha0 Hb0 Hc0.
      replace b0 with 0%nat by lia. unfold emb. apply H; assumption.
    + exact Hl'.
    + exact Hl.
Qed.

(* the sandwiches  conj(rho) | 1 .. |y><x| .. 1 | rho  *)
Definition rdm1_sand4 (left : list ksite4) p q d (t : T4 R) (right : list ksite4) (x y : nat) : list (site4 R) :=
  self_sand4 left ++ usite4 p q d t y x :: self_sand4 right.
Definition rdm2_sand4 (left : list ksite4) p1 q1 d1 (t1 : T4 R) (mid : list ksite4) p2 q2 d2 (t2 : T4 R)
           (right : list ksite4) (x1 x2 y1 y2 : nat) : list (site4 R) :=
  (self_sand4 left ++ usite4 p1 q1 d1 t1 y1 x1 :: self_sand4 mid) ++ usite4 p2 q2 d2 t2 y2 x2 :: self_sand4 right.

Lemma rdm1_4_dense left p q d (t : T4 R) right x y :
  lastdim d (kchain4 right) = 1%nat -> (x < p)%nat -> (y < p)%nat ->
  rdm1_4 left (lastdim 1 (kchain4 left)) p q d t right x y = dense4 R (rdm1_sand4 left p q d t right x y).
Proof.
  intros Hr Hx Hy. unfold rdm1_sand4.
  set (xs := self_sand4 left ++ [usite4 p q d t y x]). set (ys := self_sand4 right).
  replace (self_sand4 left ++ usite4 p q d t y x :: ys) with (xs ++ ys) by (unfold xs; rewrite <- app_assoc; reflexivity).
  set (dL := lastdim 1 (kchain4 left)).
  assert (HA : lastA R 1 xs = d). { unfold xs. rewrite lastA_app. reflexivity. }
  assert (HC : lastC R 1 xs = d). { unfold xs. rewrite lastC_app. reflexivity. }
  assert (HB : lastB R 1 xs = 1%nat). { unfold xs. rewrite lastB_app. reflexivity. }
  assert (HwA : lastA R 1 (xs ++ ys) = 1%nat). { rewrite lastA_app, HA. unfold ys. rewrite lastA_self4. exact Hr. }
  assert (HwC : lastC R 1 (xs ++ ys) = 1%nat). { rewrite lastC_app, HC. unfold ys. rewrite lastC_self4. exact Hr. }
  assert (HwB : lastB R 1 (xs ++ ys) = 1%nat). { rewrite lastB_app, HB. unfold ys. apply lastB_self4. }
  assert (Hne : xs ++ ys <> []) by (unfold xs; destruct (self_sand4 left); discriminate).
  rewrite <- (expectation4_dense R (xs ++ ys) Hne HwA HwB HwC).
  rewrite <- (cut4_expectation R xs ys Hne HwA HwB HwC). rewrite HA, HB, HC.
  unfold rdm1_4, rdm1_4g, dot3, sum3. fold dL.
  apply sumn_ext'. intros r'. rewrite sumn_1. apply sumn_ext'. intros r.
  unfold xs. rewrite envL4_app. cbn [envL4]. rewrite lastA_self4, lastB_self4, lastC_self4. fold dL.
  rewrite <- (lcomp4_step dL (envL4 1 1 1 sentinel (self_sand4 left)) p q d t y x r' r Hy Hx).
  unfold lcomp4. rewrite <- sumn_scale_r. apply sumn_ext'. intros a.
  rewrite <- sumn_scale_r. apply sumn_ext'. intros c. rewrite <- sumn_scale_r. reflexivity.
Qed.

Lemma rdm2_4_dense left p1 q1 d1 (t1 : T4 R) mid p2 q2 d2 (t2 : T4 R) right x1 x2 y1 y2 :
  lastdim d2 (kchain4 right) = 1%nat ->
  (x1 < p1)%nat -> (y1 < p1)%nat -> (x2 < p2)%nat -> (y2 < p2)%nat ->
  rdm2_4 left (lastdim 1 (kchain4 left)) p1 q1 d1 t1 mid (lastdim d1 (kchain4 mid)) p2 q2 d2 t2 right x1 x2 y1 y2 =
  dense4 R (rdm2_sand4 left p1 q1 d1 t1 mid p2 q2 d2 t2 right x1 x2 y1 y2).
Proof.
  intros Hr Hx1 Hy1 Hx2 Hy2. unfold rdm2_sand4.
  set (xs := self_sand4 left ++ usite4 p1 q1 d1 t1 y1 x1 :: self_sand4 mid).
  set (ys := usite4 p2 q2 d2 t2 y2 x2 :: self_sand4 right).
  set (dL := lastdim 1 (kchain4 left)). set (dm := lastdim d1 (kchain4 mid)).
  assert (HA : lastA R 1 xs = dm).
  { unfold xs. rewrite lastA_app, lastA_cons. cbn [usite4 a4]. apply lastA_self4. }
  assert (HC : lastC R 1 xs = dm).
  { unfold xs. rewrite lastC_app, lastC_cons. cbn [usite4 c4]. apply lastC_self4. }
  assert (HB : lastB R 1 xs = 1%nat).
  { unfold xs. rewrite lastB_app, lastB_cons. cbn [usite4 b4]. apply lastB_self4. }
  assert (HwA : lastA R 1 (xs ++ ys) = 1%nat).
  { rewrite lastA_app, HA. unfold ys. rewrite lastA_cons. cbn [usite4 a4]. rewrite lastA_self4. exact Hr. }
  assert (HwC : lastC R 1 (xs ++ ys) = 1%nat).
  { rewrite lastC_app, HC. unfold ys. rewrite lastC_cons. cbn [usite4 c4]. rewrite lastC_self4. exact Hr. }
  assert (HwB : lastB R 1 (xs ++ ys) = 1%nat).
  { rewrite lastB_app, HB. unfold ys. rewrite lastB_cons. cbn [usite4 b4]. apply lastB_self4. }
  assert (Hne : xs ++ ys <> []) by (unfold ys; destruct xs; discriminate).
  rewrite <- (expectation4_dense R (xs ++ ys) Hne HwA HwB HwC).
  rewrite <- (cut4_expectation R xs ys Hne HwA HwB HwC). rewrite HA, HB, HC.
  unfold rdm2_4, dot3, sum3. fold dL. fold dm.
  apply sumn_ext. intros l' Hl'. rewrite sumn_1. apply sumn_ext. intros l Hl. f_equal.
  - unfold xs. rewrite envL4_app. cbn [envL4]. cbn [usite4 a4 b4 c4].
    change (mk4 p1 q1 d1 1 d1 (cj4 t1) (unit_op R y1 x1) t1) with (usite4 p1 q1 d1 t1 y1 x1).
    rewrite lastA_self4, lastB_self4, lastC_self4. fold dL.
    apply transfers4_env; try assumption.
    intros a c _ _. symmetry. apply lcomp4_step; assumption.
  - unfold ys. cbn [envR4]. apply rcomp4_step; assumption.
Qed.

(* weights of bond-dimension-one operator chains *)
Definition wof4 (x : site4 R) : nat -> nat -> R := fun a b => op4 x 0%nat a b 0%nat.
Lemma chain4_dim1_4 ss : (forall x, In x ss -> b4 x = 1%nat) -> forall s' s,
  chain4 (ops4 ss) s' s 0 0 = pw R (map wof4 ss) s' s.
Proof.
  induction ss as [|x r IH]; intros H s' s; destruct s' as [|a s']; destruct s as [|b s]; try reflexivity.
  cbn [ops4 map chain4 pw]. fold (ops4 r). rewrite (H x (or_introl eq_refl)), sumn_1.
  rewrite IH by (intros y Hy; apply H; right; exact Hy). reflexivity.
Qed.
Lemma wof4_self ks : map wof4 (self_sand4 ks) = ids R (kdims4 ks).
Proof. unfold self_sand4, ids, kdims4. rewrite !map_map. apply map_ext. intros [[[p q] d] t]. reflexivity. Qed.
Lemma self_sand4_b4 (ks : list ksite4) (x : site4 R) : In x (self_sand4 ks) -> b4 x = 1%nat.
Proof. unfold self_sand4. rewrite in_map_iff. intros [[[[p q] d] t] [<- _]]. reflexivity. Qed.

(* dense4 of a sandwich conj(rho) | dim-one operators | rho as a weighted double sum *)
Lemma dense4_weights (ss : list (site4 R)) (ks : list ksite4) :
  bras4 ss = cjchain4 ks -> kets4 ss = kchain4 ks -> map (@p4 R) ss = kdims4 ks -> map (@q4 R) ss = qdims4 ks ->
  (forall x, In x ss -> b4 x = 1%nat) ->
  dense4 R ss = cfg2 R (kdims4 ks) (fun s' s => pw R (map wof4 ss) s' s *
      sumcfg (qdims4 ks) (fun t => chain4 (kchain4 ks) s t 0 0 * cj (chain4 (kchain4 ks) s' t 0 0))).
Proof.
  intros Hb Hk Hp Hq Hd. unfold dense4. rewrite Hb, Hk, Hp, Hq, cfg2_sumcfg.
  apply sumcfg_ext'. intros s'. apply sumcfg_ext'. intros s. rewrite <- sumcfg_scale_l.
  apply sumcfg_ext'. intros t. rewrite chain4_cj, (chain4_dim1_4 ss Hd). ring.
Qed.

(* rdm1 (rank 4): calc_1site_rdm of an MpDm = trace over the other sites AND over all ancillas *)
Theorem rdm1_4_ptrace left p q d (t : T4 R) right x y :
  lastdim d (kchain4 right) = 1%nat -> (x < p)%nat -> (y < p)%nat ->
  rdm1_4 left (lastdim 1 (kchain4 left)) p q d t right x y =
  sumcfg (kdims4 left) (fun sl => sumcfg (kdims4 right) (fun sr =>
    sumcfg (qdims4 (left ++ (p, q, d, t) :: right)) (fun anc =>
      chain4 (kchain4 (left ++ (p, q, d, t) :: right)) (sl ++ x :: sr) anc 0 0 *
      cj (chain4 (kchain4 (left ++ (p, q, d, t) :: right)) (sl ++ y :: sr) anc 0 0)))).
Proof.
  intros Hr Hx Hy. rewrite (rdm1_4_dense left p q d t right x y Hr Hx Hy).
  rewrite (dense4_weights _ (left ++ (p, q, d, t) :: right)).
  - assert (HP : kdims4 (left ++ (p, q, d, t) :: right) = kdims4 left ++ p :: kdims4 right).
    { unfold kdims4. rewrite map_app. reflexivity. }
    assert (HW : map wof4 (rdm1_sand4 left p q d t right x y) = ids R (kdims4 left) ++ uw R y x :: ids R (kdims4 right)).
    { unfold rdm1_sand4. rewrite map_app. cbn [map]. rewrite !wof4_self. reflexivity. }
    rewrite HP, HW. apply (cfg2_one_unit R (kdims4 left) p (kdims4 right) y x); assumption.
  - unfold rdm1_sand4, bras4, cjchain4. pose proof (bras4_self left) as H1. pose proof (bras4_self right) as H2.
    unfold bras4, cjchain4 in H1, H2. rewrite !map_app. cbn [map]. rewrite H1, H2. reflexivity.
  - unfold rdm1_sand4, kets4, kchain4. pose proof (kets4_self left) as H1. pose proof (kets4_self right) as H2.
    unfold kets4, kchain4 in H1, H2. rewrite !map_app. cbn [map]. rewrite H1, H2. reflexivity.
  - unfold rdm1_sand4, kdims4. pose proof (p4_self left) as H1. pose proof (p4_self right) as H2.
    unfold kdims4 in H1, H2. rewrite !map_app. cbn [map]. rewrite H1, H2. reflexivity.
  - unfold rdm1_sand4, qdims4. pose proof (q4_self left) as H1. pose proof (q4_self right) as H2.
    unfold qdims4 in H1, H2. rewrite !map_app. cbn [map]. rewrite H1, H2. reflexivity.
  - intros s. unfold rdm1_sand4. rewrite in_app_iff. cbn [In]. intros [H|[<-|H]]; try reflexivity; apply (self_sand4_b4 _ _ H).
Qed.

Theorem rdm2_4_ptrace left p1 q1 d1 (t1 : T4 R) mid p2 q2 d2 (t2 : T4 R) right x1 x2 y1 y2 :
  lastdim d2 (kchain4 right) = 1%nat ->
  (x1 < p1)%nat -> (y1 < p1)%nat -> (x2 < p2)%nat -> (y2 < p2)%nat ->
  rdm2_4 left (lastdim 1 (kchain4 left)) p1 q1 d1 t1 mid (lastdim d1 (kchain4 mid)) p2 q2 d2 t2 right x1 x2 y1 y2 =
  sumcfg (kdims4 left) (fun sl => sumcfg (kdims4 mid) (fun sm => sumcfg (kdims4 right) (fun sr =>
    sumcfg (qdims4 (left ++ (p1, q1, d1, t1) :: mid ++ (p2, q2, d2, t2) :: right)) (fun anc =>
      chain4 (kchain4 (left ++ (p1, q1, d1, t1) :: mid ++ (p2, q2, d2, t2) :: right)) (sl ++ x1 :: sm ++ x2 :: sr) anc 0 0 *
      cj (chain4 (kchain4 (left ++ (p1, q1, d1, t1) :: mid ++ (p2, q2, d2, t2) :: right)) (sl ++ y1 :: sm ++ y2 :: sr) anc 0 0))))).
Proof.
  intros Hr Hx1 Hy1 Hx2 Hy2. rewrite (rdm2_4_dense left p1 q1 d1 t1 mid p2 q2 d2 t2 right x1 x2 y1 y2 Hr Hx1 Hy1 Hx2 Hy2).
  assert (HS : rdm2_sand4 left p1 q1 d1 t1 mid p2 q2 d2 t2 right x1 x2 y1 y2 =
               self_sand4 left ++ usite4 p1 q1 d1 t1 y1 x1 :: self_sand4 mid ++ usite4 p2 q2 d2 t2 y2 x2 :: self_sand4 right).
  { unfold rdm2_sand4. rewrite <- app_assoc. reflexivity. }
  rewrite HS.
  rewrite (dense4_weights _ (left ++ (p1, q1, d1, t1) :: mid ++ (p2, q2, d2, t2) :: right)).
  - assert (HP : kdims4 (left ++ (p1, q1, d1, t1) :: mid ++ (p2, q2, d2, t2) :: right) =
                 kdims4 left ++ p1 :: kdims4 mid ++ p2 :: kdims4 right).
    { unfold kdims4. rewrite map_app. cbn [map]. rewrite map_app. reflexivity. }
    rewrite HP. rewrite map_app. cbn [map]. rewrite map_app. cbn [map]. rewrite !wof4_self.
    apply (cfg2_two_units R (kdims4 left) p1 (kdims4 mid) p2 (kdims4 right) y1 x1 y2 x2); assumption.
  - unfold bras4, cjchain4. pose proof (bras4_self left) as H1. pose proof (bras4_self mid) as H2. pose proof (bras4_self right) as H3.
    unfold bras4, cjchain4 in H1, H2, H3. rewrite !map_app. cbn [map]. rewrite !map_app. cbn [map]. rewrite H1, H2, H3. reflexivity.
  - unfold kets4, kchain4. pose proof (kets4_self left) as H1. pose proof (kets4_self mid) as H2. pose proof (kets4_self right) as H3.
    unfold kets4, kchain4 in H1, H2, H3. rewrite !map_app. cbn [map]. rewrite !map_app. cbn [map]. rewrite H1, H2, H3. reflexivity.
  - unfold kdims4. pose proof (p4_self left) as H1. pose proof (p4_self mid) as H2. pose proof (p4_self right) as H3.
    unfold kdims4 in H1, H2, H3. rewrite !map_app. cbn [map]. rewrite !map_app. cbn [map]. rewrite H1, H2, H3. reflexivity.
  - unfold qdims4. pose proof (q4_self left) as H1. pose proof (q4_self mid) as H2. pose proof (q4_self right) as H3.
    unfold qdims4 in H1, H2, H3. rewrite !map_app. cbn [map]. rewrite !map_app. cbn [map]. rewrite H1, H2, H3. reflexivity.
  - intros s. rewrite in_app_iff. cbn [In]. rewrite in_app_iff. cbn [In].
    intros [H|[<-|[H|[<-|H]]]]; try reflexivity; apply (self_sand4_b4 _ _ H).
Qed.

End Rdm4.

Section Rdm4Tab.
Variable R : CRing.
Add Ring RR8 : (rth R).
Infix "*" := (rmul R).
Notation ksite4 := (ksite4 R).

Lemma ldim_of4_kchain (lft : list ksite4) d0 : ldim_of4 lft d0 = lastdim d0 (kchain4 R lft).
Proof. unfold ldim_of4, lastdim, kchain4. revert d0. induction lft as [|x l IH]; intros d0; [reflexivity|]. cbn [map fold_left fst]. apply IH. Qed.

Lemma rdm1_4g_ext (L L' Rt Rt' : E3 R) dL q d (t : T4 R) x y :
  (forall a c, (a < dL)%nat -> (c < dL)%nat -> L a 0%nat c = L' a 0%nat c) ->
  (forall r' r, (r' < d)%nat -> (r < d)%nat -> Rt r' 0%nat r = Rt' r' 0%nat r) ->
  rdm1_4g L Rt dL q d t x y = rdm1_4g L' Rt' dL q d t x y.
Proof.
  intros HL HR. unfold rdm1_4g. apply sumn_ext. intros r' Hr'. apply sumn_ext. intros r Hr.
  apply sumn_ext. intros a Ha. apply sumn_ext. intros c Hc. apply sumn_ext'. intros l.
  rewrite (HL a c Ha Hc), (HR r' r Hr' Hr). reflexivity.
Qed.

Theorem rdm1t_4_eq left p q d (t : T4 R) right x y :
  lastdim d (kchain4 R right) = 1%nat ->
  rdm1t_4 left (ldim_of4 left 1) p q d t right x y = rdm1_4 left (lastdim 1 (kchain4 R left)) p q d t right x y.
Proof.
  intros Hr. unfold rdm1t_4, rdm1_4. rewrite ldim_of4_kchain. apply rdm1_4g_ext.
  - intros a c Ha Hc. apply (envL4t_eq R (self_sand4 left) 1 1 1 sentinel sentinel a 0%nat c); try reflexivity.
    + rewrite lastA_self4. exact Ha.
    + rewrite lastB_self4. lia.
    + rewrite lastC_self4. exact Hc.
  - intros r' r Hr' Hr0. apply (envR4t_eq R (self_sand4 right) d 1 d sentinel sentinel r' 0%nat r); try assumption; try lia; reflexivity.
Qed.

Lemma transfer4_ext dprev (T T' : nat -> nat -> R) k l' l :
  (forall a c, (a < dprev)%nat -> (c < dprev)%nat -> T a c = T' a c) -> transfer4 dprev T k l' l = transfer4 dprev T' k l' l.
Proof.
  intros H. destruct k as [[[p q] d] t]. unfold transfer4. apply sumn_ext. intros a Ha. apply sumn_ext. intros c Hc.
  apply sumn_ext'. intros s. apply sumn_ext'. intros anc. rewrite (H a c Ha Hc). reflexivity.
Qed.

Lemma transfers4_t_eq (mid : list ksite4) : forall dprev (T T' : nat -> nat -> R) l' l,
  (forall a c, (a < dprev)%nat -> (c < dprev)%nat -> T a c = T' a c) ->
  (l' < lastdim dprev (kchain4 R mid))%nat -> (l < lastdim dprev (kchain4 R mid))%nat ->
  transfers4_t dprev T mid l' l = transfers4 dprev T' mid l' l.
Proof.
  induction mid as [|k r IH]; intros dprev T T' l' l H Hl' Hl; cbn [transfers4_t transfers4].
  - apply H; assumption.
  - apply IH; try assumption. intros a c Ha Hc. rewrite tab2_in by assumption. apply transfer4_ext. exact H.
Qed.

Theorem rdm2t_4_eq left p1 q1 d1 (t1 : T4 R) mid p2 q2 d2 (t2 : T4 R) right x1 x2 y1 y2 :
  lastdim d2 (kchain4 R right) = 1%nat ->
  rdm2t_4 left (ldim_of4 left 1) p1 q1 d1 t1 mid (ldim_of4 mid d1) p2 q2 d2 t2 right x1 x2 y1 y2 =
  rdm2_4 left (lastdim 1 (kchain4 R left)) p1 q1 d1 t1 mid (lastdim d1 (kchain4 R mid)) p2 q2 d2 t2 right x1 x2 y1 y2.
Proof.
  intros Hr. unfold rdm2t_4, rdm2_4. rewrite !ldim_of4_kchain.
  apply sumn_ext. intros l' Hl'. apply sumn_ext. intros l Hl. f_equal.
  - apply transfers4_t_eq; try assumption. intros a c Ha Hc. rewrite tab2_in by assumption.
    unfold lcomp4. apply sumn_ext. intros a0 Ha0. apply sumn_ext. intros c0 Hc0. apply sumn_ext'. intros anc.
    rewrite (envL4t_eq R (self_sand4 left) 1 1 1 sentinel sentinel a0 0%nat c0); try reflexivity.
    + rewrite lastA_self4. exact Ha0.
    + rewrite lastB_self4. lia.
    + rewrite lastC_self4. exact Hc0.
  - rewrite tab2_in by assumption. unfold rcomp4. apply sumn_ext. intros r' Hr'. apply sumn_ext. intros r0 Hr0.
    apply sumn_ext'. intros anc.
    rewrite (envR4t_eq R (self_sand4 right) d2 1 d2 sentinel sentinel r' 0%nat r0); try assumption; try lia; reflexivity.
Qed.

End Rdm4Tab.

(* ============================================================== the fast path for MpDm (rank-4 sites) *)
Section FastInst4Proofs.
Variable R : CRing.
Add Ring RR9 : (rth R).
Variables ps qs : list nat.
Variables bra ket : list (nat * T4 R).
Notation opchain := (opchain R).
Notation lastdr := (lastdr R).
Notation wf_op := (wf_op R).

Notation OpSite := (OpSite R).
Notation EnvD := (EnvD R).
Notation site_at := (site_at4 R ps qs bra ket).
Notation sites_from := (sites_from4 R ps qs bra ket).
Notation env_stepo := (env_stepo4 R ps qs bra ket).
Notation env_init := (env_init R).
Notation env_dot := (env_dot R).
Notation foldL' := (foldL EnvD OpSite env_stepo).
Notation foldR' := (foldR EnvD OpSite env_stepo).

Definition wf_state4 (n : nat) : Prop := (1 <= n)%nat /\ rdimc4 R bra (n - 1) = 1%nat /\ rdimc4 R ket (n - 1) = 1%nat.

Lemma lastA4_sites objs : forall i da, lastA R da (sites_from i objs) =
  match length objs with 0%nat => da | S l => rdimc4 R bra (i + l) end.
Proof.
  induction objs as [|o r IH]; intros i da; [reflexivity|].
  cbn [sites_from4 length]. unfold lastA. cbn [bras4 map]. rewrite lastdim_cons. fold (bras4 (sites_from (S i) r)).
  fold (lastA R (a4 (site_at i o)) (sites_from (S i) r)). rewrite IH.
  destruct (length r) as [|l]; cbn [site_at4 a4]; [rewrite Nat.add_0_r; reflexivity|].
  f_equal. lia.
Qed.

Lemma lastC4_sites objs : forall i dc, lastC R dc (sites_from i objs) =
  match length objs with 0%nat => dc | S l => rdimc4 R ket (i + l) end.
Proof.
  induction objs as [|o r IH]; intros i dc; [reflexivity|].
  cbn [sites_from4 length]. unfold lastC. cbn [kets4 map]. rewrite lastdim_cons. fold (kets4 (sites_from (S i) r)).
  fold (lastC R (c4 (site_at i o)) (sites_from (S i) r)). rewrite IH.
  destruct (length r) as [|l]; cbn [site_at4 c4]; [rewrite Nat.add_0_r; reflexivity|].
  f_equal. lia.
Qed.

Lemma lastB4_sites objs : forall i db, lastB R db (sites_from i objs) = lastdr db objs.
Proof.
  induction objs as [|o r IH]; intros i db; [reflexivity|].
  cbn [sites_from4]. unfold lastB. cbn [ops4 map]. rewrite lastdim_cons. fold (ops4 (sites_from (S i) r)).
  fold (lastB R (b4 (site_at i o)) (sites_from (S i) r)). rewrite IH. reflexivity.
Qed.

Lemma sites_from4_app x : forall i y, sites_from i (x ++ y) = sites_from i x ++ sites_from (i + length x) y.
Proof.
  induction x as [|o x IH]; intros i y; cbn [app sites_from4 length].
  - rewrite Nat.add_0_r. reflexivity.
  - rewrite IH. replace (S i + length x)%nat with (i + S (length x))%nat by lia. reflexivity.
Qed.

Lemma foldL_envL4t objs : forall i da db dc T,
  foldL' i objs (da, db, dc, T) =
  (lastA R da (sites_from i objs), lastB R db (sites_from i objs), lastC R dc (sites_from i objs),
   envL4t da db dc T (sites_from i objs)).
Proof.
  induction objs as [|o r IH]; intros i da db dc T; [reflexivity|].
  cbn [foldL sites_from4 envL4t]. cbn [env_stepo4]. rewrite IH. reflexivity.
Qed.

Lemma foldR_envR4t objs : forall i D, opchain D objs -> objs <> [] ->
  foldR' i objs env_init =
  (ldimc4 R bra i, D, ldimc4 R ket i, envR4t (ldimc4 R bra i) D (ldimc4 R ket i) (sites_from i objs) sentinel).
Proof.
  induction objs as [|o r IH]; intros i D Hc Hne; [congruence|].
  destruct Hc as [HD Hc]. cbn [foldR sites_from4 envR4t].
  destruct r as [|o' r'].
  - cbn [foldR sites_from4 envR4t]. unfold env_init. cbn [env_stepo4]. rewrite HD. reflexivity.
  - rewrite (IH (S i) (snd (fst o)) Hc) by discriminate. cbn [env_stepo4]. rewrite HD. reflexivity.
Qed.

Lemma split_value_slow4 n objs k : wf_state4 n -> wf_op n objs -> (k <= n)%nat ->
  split_value EnvD OpSite R env_stepo env_init env_dot k objs = expectation4t (sites_from 0 objs).
Proof.
  intros [Hn [HA HC]] [Hlen Hch] Hk. unfold split_value. unfold env_init at 1. rewrite foldL_envL4t.
  set (xs := sites_from 0 (firstn k objs)).
  set (ys := sites_from k (skipn k objs)).
  assert (Hfl : length (firstn k objs) = k) by (apply firstn_length_le; lia).
  assert (Hall : sites_from 0 objs = xs ++ ys).
  { unfold xs, ys. rewrite <- (firstn_skipn k objs) at 1. rewrite sites_from4_app, Hfl. reflexivity. }
  assert (HlA : lastA R 1 xs = ldimc4 R bra k).
  { unfold xs. rewrite lastA4_sites, Hfl. destruct k; reflexivity. }
  assert (HlC : lastC R 1 xs = ldimc4 R ket k).
  { unfold xs. rewrite lastC4_sites, Hfl. destruct k; reflexivity. }
  assert (HlB : lastB R 1 xs = lastdr 1 (firstn k objs)) by (unfold xs; apply lastB4_sites).
  pose proof (opchain_split R objs 1 k Hch) as Hch2.
  assert (HwA : lastA R 1 (xs ++ ys) = 1%nat).
  { rewrite <- Hall, lastA4_sites, Hlen. destruct n; [lia|]. cbn [Nat.add]. replace (S n - 1)%nat with n in HA by lia. exact HA. }
  assert (HwC : lastC R 1 (xs ++ ys) = 1%nat).
  { rewrite <- Hall, lastC4_sites, Hlen. destruct n; [lia|]. cbn [Nat.add]. replace (S n - 1)%nat with n in HC by lia. exact HC. }
  assert (HwB : lastB R 1 (xs ++ ys) = 1%nat).
  { rewrite <- Hall, lastB4_sites. apply opchain_last. exact Hch. }
  assert (Hne : xs ++ ys <> []).
  { rewrite <- Hall. destruct objs; [cbn in Hlen; lia|discriminate]. }
  rewrite expectation4t_eq, Hall. rewrite <- (cut4_expectation R xs ys Hne HwA HwB HwC).
  destruct (skipn k objs) as [|o r] eqn:Esk.
  - (* everything was contracted from the left: the right environment is the sentinel *)
    cbn [foldR]. unfold env_init, env_dot. unfold ys. cbn [sites_from4 envR4].
    unfold dot3. apply sum3_ext. intros a b c Ha Hb Hc.
    rewrite (envL4t_eq R xs 1 1 1 sentinel sentinel a b c) by (try assumption; reflexivity). reflexivity.
  - rewrite (foldR_envR4t (o :: r) k _ Hch2) by discriminate. unfold env_dot.
    fold ys. unfold dot3. apply sum3_ext. intros a b c Ha Hb Hc.
    rewrite (envL4t_eq R xs 1 1 1 sentinel sentinel a b c) by (try assumption; reflexivity).
    rewrite <- HlA, <- HlC, <- HlB.
    rewrite (envR4t_eq R ys _ _ _ sentinel sentinel a b c) by (try assumption; reflexivity). reflexivity.
Qed.

(* MAIN: the batched fast path returns exactly what the one-by-one path returns, for every operator list in
   every order, assuming hash injectivity on the site matrices present *)
Theorem expectations_fast4_eq_slow nmps (ms : list (hop OpSite)) :
  wf_state4 nmps ->
  (forall m, In m ms -> wf_op nmps (map snd m)) ->
  (forall h o o', In (h, o) (concat ms) -> In (h, o') (concat ms) -> o = o') ->
  expectations_fast4 R ps qs bra ket nmps ms = Some (expectations_slow4 R ps qs bra ket ms).
Proof.
  intros Hst Hops Hinj. unfold expectations_fast4, expectations_slow4.
  destruct (expectations_fast_split EnvD OpSite R env_stepo env_init (op_dflt R) env_dot nmps ms) as [vs [-> Hall]].
  - intros m Hm. destruct (Hops m Hm) as [Hl _]. rewrite map_length in Hl. exact Hl.
  - exact Hinj.
  - f_equal. apply (Forall2_eq_map _ _ _ _ Hall). intros v m Hm [k [Hk Hv]].
    rewrite Hv. apply (split_value_slow4 nmps (map snd m) k Hst); [apply Hops; exact Hm|exact Hk].
Qed.

(* ... and each of these values is the dense bilinear form  x^T O psi *)
Theorem expectations_slow4_dense nmps (ms : list (hop OpSite)) :
  wf_state4 nmps -> (forall m, In m ms -> wf_op nmps (map snd m)) ->
  expectations_slow4 R ps qs bra ket ms = map (fun m => dense4 R (sites_from 0 (map snd m))) ms.
Proof.
  intros [Hn [HA HC]] Hops. unfold expectations_slow4. apply map_ext_in. intros m Hm.
  destruct (Hops m Hm) as [Hlen Hch]. rewrite expectation4t_eq. apply expectation4_dense.
  - destruct (map snd m); [cbn in Hlen; lia|discriminate].
  - rewrite lastA4_sites, Hlen. destruct nmps as [|n']; [lia|]. cbn [Nat.add]. replace (S n' - 1)%nat with n' in HA by lia. exact HA.
  - rewrite lastB4_sites. apply opchain_last. exact Hch.
  - rewrite lastC4_sites, Hlen. destruct nmps as [|n']; [lia|]. cbn [Nat.add]. replace (S n' - 1)%nat with n' in HC by lia. exact HC.
Qed.

End FastInst4Proofs.

(* ============================================================== bond singular values and the dense Gram matrix *)
(* Input of calc_bond_entropy: after the lossless canonical sweep the state at a cut reads
       Psi(sl, sr) = sum_a U(sl,a) * sigma_a * V(a,sr),   U^+ U = 1 (left-orthonormal sites),  V V^+ = 1,
   sigma = the singular values that `compress(ret_s=True)` records.  Then the dense Gram (reduced density) matrix
   of the left block  G(sl,sl') = sum_sr Psi(sl,sr) conj Psi(sl',sr)  -- a function of the dense state only, hence
   gauge independent -- has the spectral decomposition  G = U diag(sigma conj sigma) U^+ : every sigma_a conj sigma_a is an
   eigenvalue of G with eigenvector U(.,a), and G has no other non-zero part.  (That the spectrum of a matrix is
   unique -- so that the sigma_a are *determined* by G -- is linear algebra that is not formalised: PARTIAL.) *)
Section BondGram.
Variable R : CRing.
Add Ring RR10 : (rth R).
Infix "+" := (radd R).
Infix "*" := (rmul R).
Notation cj := (rcj R).
Notation dl := (dl R).

Variables Dl Dr : list nat.
Variable D : nat.
Variable U : list nat -> nat -> R.
Variable V : nat -> list nat -> R.
Variable sg : nat -> R.

Definition psi_cut (sl sr : list nat) : R := sumn D (fun a => U sl a * sg a * V a sr).
Definition gram (psi : list nat -> list nat -> R) (sl sl' : list nat) : R :=
  sumcfg Dr (fun sr => psi sl sr * cj (psi sl' sr)).

Hypothesis isoL : forall a a', (a < D)%nat -> (a' < D)%nat -> sumcfg Dl (fun sl => cj (U sl a) * U sl a') = dl a a'.
Hypothesis isoR : forall a a', (a < D)%nat -> (a' < D)%nat -> sumcfg Dr (fun sr => V a sr * cj (V a' sr)) = dl a a'.

Theorem gram_decomp sl sl' :
  gram psi_cut sl sl' = sumn D (fun a => U sl a * (sg a * cj (sg a)) * cj (U sl' a)).
Proof.
  unfold gram, psi_cut.
  transitivity (sumcfg Dr (fun sr => sumn D (fun a => sumn D (fun a' =>
     (U sl a * sg a * cj (U sl' a') * cj (sg a')) * (V a sr * cj (V a' sr)))))).
  { apply sumcfg_ext'. intros sr. rewrite sumn_cj, sumn_mul. apply sumn_ext'. intros a. apply sumn_ext'. intros a'.
    rewrite !rcj_mul. ring. }
  rewrite <- (sumn_sumcfg_exchange R Dr D (fun a sr => sumn D (fun a' =>
     (U sl a * sg a * cj (U sl' a') * cj (sg a')) * (V a sr * cj (V a' sr))))).
  apply sumn_ext. intros a Ha.
  rewrite <- (sumn_sumcfg_exchange R Dr D (fun a' sr => (U sl a * sg a * cj (U sl' a') * cj (sg a')) * (V a sr * cj (V a' sr)))).
  transitivity (U sl a * sg a * cj (U sl' a) * cj (sg a)); [|ring].
  rewrite <- (sumn_delta_r R D a (fun a' => U sl a * sg a * cj (U sl' a') * cj (sg a')) Ha).
  apply sumn_ext. intros a' Ha'. rewrite sumcfg_scale_l, (isoR a a' Ha Ha'). ring.
Qed.

Theorem gram_eigen sl a : (a < D)%nat ->
  sumcfg Dl (fun sl' => gram psi_cut sl sl' * U sl' a) = (sg a * cj (sg a)) * U sl a.
Proof.
  intros Ha.
  transitivity (sumcfg Dl (fun sl' => sumn D (fun a' => (U sl a' * (sg a' * cj (sg a'))) * (cj (U sl' a') * U sl' a)))).
  { apply sumcfg_ext'. intros sl'. rewrite gram_decomp, <- sumn_scale_r. apply sumn_ext'. intros a'. ring. }
  rewrite <- (sumn_sumcfg_exchange R Dl D (fun a' sl' => (U sl a' * (sg a' * cj (sg a'))) * (cj (U sl' a') * U sl' a))).
  transitivity ((sg a * cj (sg a)) * U sl a); [|reflexivity].
  rewrite <- (sumn_delta_l R D a (fun a' => (sg a' * cj (sg a')) * U sl a') Ha).
  apply sumn_ext. intros a' Ha'. rewrite sumcfg_scale_l, (isoL a' a Ha' Ha). ring.
Qed.

End BondGram.

(* the decomposition at a cut of a chain is what chain3_app provides: U = left block, sigma*V = right block *)
Section BondGramChain.
Variable R : CRing.
Add Ring RR11 : (rth R).
Infix "*" := (rmul R).
Notation cj := (rcj R).

Theorem bond_gram_chain (left right : list (nat * T3 R)) (Dl Dr : list nat) (V : nat -> list nat -> R) (sg : nat -> R) :
  length Dl = length left ->
  (forall a sr, (a < lastdim 1 left)%nat -> chain3 right sr a 0 = sg a * V a sr) ->
  (forall a a', (a < lastdim 1 left)%nat -> (a' < lastdim 1 left)%nat ->
      sumcfg Dl (fun sl => cj (chain3 left sl 0 a) * chain3 left sl 0 a') = dl R a a') ->
  (forall a a', (a < lastdim 1 left)%nat -> (a' < lastdim 1 left)%nat ->
      sumcfg Dr (fun sr => V a sr * cj (V a' sr)) = dl R a a') ->
  forall sl a, Forall2 lt sl Dl -> (a < lastdim 1 left)%nat ->
  sumcfg Dl (fun sl' => gram R Dr (fun x y => amp (left ++ right) (x ++ y)) sl sl' * chain3 left sl' 0 a) =
  (sg a * cj (sg a)) * chain3 left sl 0 a.
Proof.
  intros HlD Hright HisoL HisoR sl a Hsl Ha.
  rewrite <- (gram_eigen R Dl Dr (lastdim 1 left) (fun s m => chain3 left s 0 m) V sg HisoL HisoR sl a Ha).
  apply sumcfg_ext_bound. intros sl' Hsl'. f_equal. unfold gram. apply sumcfg_ext'. intros sr.
  assert (Hamp : forall s, Forall2 lt s Dl ->
            amp (left ++ right) (s ++ sr) = psi_cut R (lastdim 1 left) (fun s m => chain3 left s 0 m) V sg s sr).
  { intros s Hs. unfold amp, psi_cut.
    rewrite (chain3_app R left right s sr 1 0 0) by (try lia; rewrite (Forall2_lt_length _ _ Hs); exact HlD).
    apply sumn_ext. intros m Hm. rewrite (Hright m sr Hm). ring. }
  rewrite (Hamp sl Hsl), (Hamp sl' Hsl'). reflexivity.
Qed.

End BondGramChain.
