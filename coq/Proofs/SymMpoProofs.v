(* Proofs about Model/SymMpo.v: deduplication, one-site decomposition (graph: for every vertex cover
   and row order; QR: for every exact factorisation witness), the sweep over the sites, the
   constructed symbolic MPO, uniqueness of the table rows, compose_symbolic_mo, swap_site. *)
From Coq Require Import List Arith Bool Lia Ring ZArith.
From RV Require Import Base.CRing Model.SymMpo.
Import ListNotations.

(* ------------------------------------------------------------------ keys *)
Lemma keqb_spec a b : reflect (a = b) (keqb a b).
Proof. unfold keqb. destruct (key_eq_dec a b); constructor; assumption. Qed.
Lemma keqb_refl a : keqb a a = true.
Proof. destruct (keqb_spec a a); congruence. Qed.
Lemma keqb_sym a b : keqb a b = keqb b a.
Proof. destruct (keqb_spec a b), (keqb_spec b a); congruence. Qed.
Lemma memb_spec a l : reflect (In a l) (memb a l).
Proof.
  unfold memb. destruct (existsb (keqb a) l) eqn:E; constructor.
  - apply existsb_exists in E. destruct E as [x [Hx Hk]]. destruct (keqb_spec a x); [subst; auto|discriminate].
  - intro H. assert (existsb (keqb a) l = true); [|congruence]. apply existsb_exists. exists a. split; auto.
    apply keqb_refl.
Qed.
Lemma nodupb_sound l : nodupb l = true -> NoDup l.
Proof.
  induction l as [|x l IH]; cbn [nodupb]; intros H; [constructor|].
  apply andb_true_iff in H. destruct H as [H1 H2]. constructor; [|auto].
  destruct (memb_spec x l); [discriminate|assumption].
Qed.
Lemma subsetb_sound l1 l2 : subsetb l1 l2 = true -> incl l1 l2.
Proof.
  unfold subsetb. intros H x Hx. rewrite forallb_forall in H. specialize (H x Hx).
  destruct (memb_spec x l2); [assumption|discriminate].
Qed.

Lemma enum_from_snd {A} (l : list A) n : map snd (enum_from n l) = l.
Proof. revert n. induction l; intros; cbn [enum_from map snd]; [reflexivity|]. now rewrite IHl. Qed.
Lemma enum_from_fst {A} (l : list A) n : map fst (enum_from n l) = seq n (length l).
Proof. revert n. induction l; intros; cbn [enum_from map fst length seq]; [reflexivity|]. now rewrite IHl. Qed.
Lemma enum_from_length {A} (l : list A) n : length (enum_from n l) = length l.
Proof. revert n. induction l; intros; cbn [enum_from length]; [reflexivity|]. now rewrite IHl. Qed.
Lemma in_enum_from {A} (l : list A) n i x : In (i, x) (enum_from n l) -> n <= i < n + length l /\ In x l.
Proof.
  revert n. induction l as [|a l IH]; intros n H; cbn [enum_from] in H; [contradiction|].
  destruct H as [H|H].
  - inversion H; subst. cbn [length]. split; [lia|left; reflexivity].
  - apply IH in H. cbn [length]. split; [lia|right; tauto].
Qed.

Section Proofs.
Variable R : CRing.
Variable iszero : R -> bool.
Hypothesis iszero_sound : forall x, iszero x = true -> x = r0 R.
Add Ring RR : (rth R).

Local Notation rO := (r0 R).
Local Notation rI := (r1 R).
Local Infix "+!" := (radd R) (at level 50, left associativity).
Local Infix "*!" := (rmul R) (at level 40, left associativity).
Local Infix "-!" := (rsub R) (at level 50, left associativity).
Local Notation lsum := (@lsum R _).
Local Notation table := (table R).
Local Notation bond := (bond R).
Local Notation den := (den R).

(* ------------------------------------------------------------------ list sums in R *)
Lemma lsum_app {A} (l1 l2 : list A) f : lsum (l1 ++ l2) f = lsum l1 f +! lsum l2 f.
Proof. induction l1; cbn [SymMpo.lsum app]; [ring|]. rewrite IHl1. ring. Qed.
Lemma lsum_ext {A} (l : list A) f g : (forall x, In x l -> f x = g x) -> lsum l f = lsum l g.
Proof.
  induction l as [|a l IH]; cbn [SymMpo.lsum]; intros H; [reflexivity|].
  rewrite (H a (in_eq _ _)). rewrite IH; [reflexivity|]. intros; apply H; right; assumption.
Qed.
Lemma lsum_filter {A} (l : list A) p f : lsum (filter p l) f = lsum l (fun x => if p x then f x else rO).
Proof. induction l as [|a l IH]; cbn [SymMpo.lsum filter]; [reflexivity|]. destruct (p a); cbn [SymMpo.lsum]; rewrite IH; ring. Qed.
Lemma lsum_map {A B} (l : list A) (h : A -> B) f : lsum (map h l) f = lsum l (fun x => f (h x)).
Proof. induction l; cbn [SymMpo.lsum map]; [reflexivity|]. now rewrite IHl. Qed.
Lemma lsum_flat_map {A B} (l : list A) (h : A -> list B) f :
  lsum (flat_map h l) f = lsum l (fun x => lsum (h x) f).
Proof. induction l; cbn [SymMpo.lsum flat_map]; [reflexivity|]. now rewrite lsum_app, IHl. Qed.
Lemma lsum_zero {A} (l : list A) f : (forall x, In x l -> f x = rO) -> lsum l f = rO.
Proof.
  induction l as [|a l IH]; cbn [SymMpo.lsum]; intros H; [reflexivity|].
  rewrite (H a (in_eq _ _)). rewrite IH; [ring|]. intros; apply H; right; assumption.
Qed.
Lemma lsum_add {A} (l : list A) f g : lsum l (fun x => f x +! g x) = lsum l f +! lsum l g.
Proof. induction l; cbn [SymMpo.lsum]; [ring|]. rewrite IHl. ring. Qed.
Lemma lsum_scale {A} (l : list A) c f : lsum l (fun x => c *! f x) = c *! lsum l f.
Proof. induction l; cbn [SymMpo.lsum]; [ring|]. rewrite IHl. ring. Qed.
Lemma lsum_scale_r {A} (l : list A) c f : lsum l (fun x => f x *! c) = lsum l f *! c.
Proof. induction l; cbn [SymMpo.lsum]; [ring|]. rewrite IHl. ring. Qed.
Lemma lsum_swap {A B} (l1 : list A) (l2 : list B) f :
  lsum l1 (fun a => lsum l2 (fun b => f a b)) = lsum l2 (fun b => lsum l1 (fun a => f a b)).
Proof.
  induction l1 as [|a l1 IH]; cbn [SymMpo.lsum].
  - symmetry. apply lsum_zero. reflexivity.
  - rewrite IH. rewrite <- lsum_add. reflexivity.
Qed.
(* a sum over a duplicate-free selector of an indicator picks membership *)
Lemma lsum_indicator (sel : list key) (k : key) (v : R) :
  NoDup sel -> lsum sel (fun s => if keqb s k then v else rO) = if memb k sel then v else rO.
Proof.
  induction sel as [|s sel IH]; intros ND; cbn [SymMpo.lsum]; [reflexivity|].
  inversion ND as [|? ? Hn ND']; subst. rewrite IH by assumption.
  unfold memb at 2. cbn [existsb]. fold (memb k sel).
  destruct (keqb_spec s k) as [->|Hne].
  - rewrite keqb_refl. cbn [orb]. destruct (memb_spec k sel); [contradiction|ring].
  - destruct (keqb_spec k s); [congruence|]. cbn [orb]. ring.
Qed.
Lemma lsum_if_zero {A} (l : list A) (p : A -> bool) f :
  lsum l (fun x => if p x then f x else rO) = lsum (filter p l) f.
Proof. symmetry. apply lsum_filter. Qed.
(* sum over positions 0..n-1 of a delta picks one *)
Lemma lsum_seq_delta (n s a : nat) (g : nat -> R) :
  s <= a < s + n -> lsum (seq s n) (fun i => if Nat.eqb a i then g i else rO) = g a.
Proof.
  revert s. induction n as [|n IH]; intros s H; [lia|]. cbn [seq SymMpo.lsum].
  destruct (Nat.eqb_spec a s) as [->|Hne].
  - rewrite lsum_zero; [ring|]. intros i Hi. apply in_seq in Hi. destruct (Nat.eqb_spec s i); [lia|reflexivity].
  - rewrite IH by lia. ring.
Qed.
Lemma lsum_seq_delta_out (n s a : nat) (g : nat -> R) :
  ~ (s <= a < s + n) -> lsum (seq s n) (fun i => if Nat.eqb a i then g i else rO) = rO.
Proof.
  intros H. apply lsum_zero. intros i Hi. apply in_seq in Hi. destruct (Nat.eqb_spec a i); [lia|reflexivity].
Qed.

(* ================================================================== _deduplicate_table *)
(* every linear functional of the table (sum_rows factor * g(row)) is preserved *)
Lemma addrow_lin (g : key -> R) k f (t : table) :
  lsum (addrow R k f t) (fun x => snd x *! g (fst x)) = lsum t (fun x => snd x *! g (fst x)) +! f *! g k.
Proof.
  induction t as [|x t IH]; cbn [addrow SymMpo.lsum fst snd]; [ring|].
  destruct (keqb_spec k (fst x)) as [->|Hne]; cbn [SymMpo.lsum fst snd].
  - ring.
  - rewrite IH. ring.
Qed.
Lemma merge_rows_lin_acc (g : key -> R) (t acc : table) :
  lsum (fold_left (fun acc x => addrow R (fst x) (snd x) acc) t acc) (fun x => snd x *! g (fst x))
  = lsum acc (fun x => snd x *! g (fst x)) +! lsum t (fun x => snd x *! g (fst x)).
Proof.
  revert acc. induction t as [|x t IH]; intros acc; cbn [fold_left SymMpo.lsum]; [ring|].
  rewrite IH, addrow_lin. ring.
Qed.
Theorem dedup_lin (g : key -> R) (t : table) :
  lsum (dedup R iszero t) (fun x => snd x *! g (fst x)) = lsum t (fun x => snd x *! g (fst x)).
Proof.
  unfold dedup, merge_rows. rewrite lsum_filter.
  transitivity (lsum (fold_left (fun acc x => addrow R (fst x) (snd x) acc) t []) (fun x => snd x *! g (fst x))).
  - apply lsum_ext. intros x _. destruct (iszero (snd x)) eqn:E; cbn [negb]; [|reflexivity].
    rewrite (iszero_sound _ E). ring.
  - rewrite merge_rows_lin_acc. cbn [SymMpo.lsum]. ring.
Qed.
Lemma coeffT_lin (t : table) s :
  coeffT R t s = lsum t (fun x => snd x *! (if keqb (fst x) s then rI else rO)).
Proof. unfold coeffT. apply lsum_ext. intros x _. destruct (keqb (fst x) s); ring. Qed.
(* merging duplicate rows -- including exactly cancelling ones, which disappear -- preserves the
   coefficient of every operator string *)
Theorem dedup_den (t : table) s : coeffT R (dedup R iszero t) s = coeffT R t s.
Proof. rewrite !coeffT_lin. apply (dedup_lin (fun k => if keqb k s then rI else rO)). Qed.

Lemma addrow_keys k f (t : table) k' :
  In k' (map fst (addrow R k f t)) <-> k' = k \/ In k' (map fst t).
Proof.
  induction t as [|x t IH]; cbn [addrow map fst In].
  - intuition.
  - destruct (keqb_spec k (fst x)) as [->|Hne]; cbn [map fst In].
    + intuition.
    + rewrite IH. intuition.
Qed.
Lemma addrow_nodup k f (t : table) : NoDup (map fst t) -> NoDup (map fst (addrow R k f t)).
Proof.
  induction t as [|x t IH]; cbn [addrow map fst]; intros ND.
  - constructor; [intros []|constructor].
  - inversion ND as [|? ? Hn ND']; subst.
    destruct (keqb_spec k (fst x)) as [->|Hne]; cbn [map fst].
    + constructor; assumption.
    + constructor; [|auto]. rewrite addrow_keys. intros [E|H]; [congruence|contradiction].
Qed.
Lemma merge_rows_nodup_acc (t acc : table) :
  NoDup (map fst acc) -> NoDup (map fst (fold_left (fun acc x => addrow R (fst x) (snd x) acc) t acc)).
Proof. revert acc. induction t as [|x t IH]; intros acc H; cbn [fold_left]; [assumption|]. apply IH, addrow_nodup, H. Qed.
Lemma filter_map_nodup {A} (p : A -> bool) (f : A -> key) (l : list A) :
  NoDup (map f l) -> NoDup (map f (filter p l)).
Proof.
  induction l as [|x l IH]; cbn [filter map]; intros ND; [constructor|].
  inversion ND as [|? ? Hn ND']; subst. destruct (p x); cbn [map]; [|auto].
  constructor; [|auto]. intros H. apply Hn. apply in_map_iff in H. destruct H as [y [E Hy]].
  apply filter_In in Hy. apply in_map_iff. exists y. tauto.
Qed.
(* the rows of a deduplicated table are pairwise distinct: `assert len(np.unique(table)) == len(table)` *)
Theorem dedup_nodup (t : table) : NoDup (map fst (dedup R iszero t)).
Proof. unfold dedup, merge_rows. apply filter_map_nodup, merge_rows_nodup_acc. constructor. Qed.

(* ================================================================== one site, abstractly
   Drow : value of each row operator (key [a; o]) at a fixed point; the step must preserve, for every
   column key c0, the value  sum_{terms with column c0} factor * Drow(row key). *)
Definition Dout_of (Drow : key -> R) (ops : bond) (k : nat) : R :=
  lsum (nth k ops []) (fun p => snd p *! Drow (fst p)).
Definition den_old (Drow : key -> R) (t : table) (c0 : key) : R :=
  lsum t (fun x => if keqb (ck R x) c0 then fac R x *! Drow (rk R x) else rO).
Definition den_new (Dout : nat -> R) (t' : table) (c0 : key) : R :=
  lsum t' (fun y => match fst y with
                    | a :: rest => if keqb rest c0 then snd y *! Dout a else rO
                    | [] => rO
                    end).
Definition covers (t : table) (rsel csel : list key) : Prop :=
  forall x, In x t -> In (rk R x) rsel \/ In (ck R x) csel.

Lemma is_cover_sound t rsel csel : is_cover R t rsel csel = true -> covers t rsel csel.
Proof.
  unfold is_cover, covers. intros H x Hx. rewrite forallb_forall in H. specialize (H x Hx).
  apply orb_true_iff in H. destruct H as [H|H]; [left|right].
  - destruct (memb_spec (rk R x) rsel); [assumption|discriminate].
  - destruct (memb_spec (ck R x) csel); [assumption|discriminate].
Qed.

Lemma nth_enum_rows (pre post : bond) rsel Drow (g : key -> R -> R) :
  forall n, n = length pre ->
  lsum (enum_from n rsel) (fun ir => g (snd ir) (Dout_of Drow (pre ++ out_rows R rsel ++ post) (fst ir)))
  = lsum rsel (fun r => g r (Drow r)).
Proof.
  revert pre. induction rsel as [|r rsel IH]; intros pre n Hn; cbn [enum_from SymMpo.lsum]; [reflexivity|].
  f_equal.
  - cbn [fst snd]. unfold Dout_of. rewrite app_nth2 by lia. subst n. rewrite Nat.sub_diag. cbn [out_rows map app nth].
    cbn [SymMpo.lsum fst snd]. f_equal. ring.
  - specialize (IH (pre ++ [[(r, rI)]]) (S n)). rewrite app_length in IH. cbn [length] in IH.
    rewrite <- app_assoc in IH. cbn [app] in IH. cbn [out_rows map]. cbn [app]. apply IH. lia.
Qed.
Lemma nth_enum_cols (pre : bond) (cs : list key) (h : key -> outop R) Drow (g : key -> R -> R) :
  forall n, n = length pre ->
  lsum (enum_from n cs) (fun jc => g (snd jc) (Dout_of Drow (pre ++ map h cs) (fst jc)))
  = lsum cs (fun c => g c (lsum (h c) (fun p => snd p *! Drow (fst p)))).
Proof.
  revert pre. induction cs as [|c cs IH]; intros pre n Hn; cbn [enum_from SymMpo.lsum]; [reflexivity|].
  f_equal.
  - cbn [fst snd]. unfold Dout_of. rewrite app_nth2 by lia. subst n. rewrite Nat.sub_diag. reflexivity.
  - specialize (IH (pre ++ [h c]) (S n)). rewrite app_length in IH. cbn [length] in IH.
    rewrite <- app_assoc in IH. cbn [app] in IH. cbn [map]. apply IH. lia.
Qed.

(* _decompose_graph preserves the denotation for EVERY vertex cover (rsel, csel) of the incidence
   relation and every order of the selected rows / columns *)
Theorem graph_step_abs (t : table) (rsel csel : list key) (Drow : key -> R) (c0 : key) :
  NoDup rsel -> NoDup csel -> covers t rsel csel ->
  den_new (Dout_of Drow (fst (decompose_graph R t rsel csel))) (snd (decompose_graph R t rsel csel)) c0
  = den_old Drow t c0.
Proof.
  intros NDr NDc Hcov. unfold decompose_graph. cbn [fst snd]. unfold den_new. rewrite lsum_app.
  set (ops := out_rows R rsel ++ out_cols R t rsel csel).
  assert (P1 : lsum (new_rows R t rsel)
      (fun y => match fst y with a :: rest => if keqb rest c0 then snd y *! Dout_of Drow ops a else rO | [] => rO end)
    = lsum t (fun x => if keqb (ck R x) c0 then (if memb (rk R x) rsel then fac R x *! Drow (rk R x) else rO) else rO)).
  { unfold new_rows. rewrite lsum_flat_map.
    transitivity (lsum (enum_from 0 rsel) (fun ir => lsum t (fun x =>
        if keqb (rk R x) (snd ir) then (if keqb (ck R x) c0 then fac R x *! Dout_of Drow ops (fst ir) else rO) else rO))).
    { apply lsum_ext. intros ir _. rewrite lsum_map, lsum_filter. reflexivity. }
    transitivity (lsum rsel (fun r => lsum t (fun x =>
        if keqb (rk R x) r then (if keqb (ck R x) c0 then fac R x *! Drow r else rO) else rO))).
    { unfold ops.
      exact (nth_enum_rows [] (out_cols R t rsel csel) rsel Drow
        (fun r d => lsum t (fun x => if keqb (rk R x) r then (if keqb (ck R x) c0 then fac R x *! d else rO) else rO)) 0 eq_refl). }
    rewrite lsum_swap. apply lsum_ext. intros x _.
    transitivity (lsum rsel (fun s => if keqb s (rk R x) then (if keqb (ck R x) c0 then fac R x *! Drow (rk R x) else rO) else rO)).
    { apply lsum_ext. intros s _. rewrite (keqb_sym (rk R x) s). destruct (keqb_spec s (rk R x)) as [->|]; reflexivity. }
    rewrite lsum_indicator by assumption.
    destruct (keqb (ck R x) c0), (memb (rk R x) rsel); reflexivity. }
  assert (P2 : lsum (new_cols R rsel csel)
      (fun y => match fst y with a :: rest => if keqb rest c0 then snd y *! Dout_of Drow ops a else rO | [] => rO end)
    = lsum t (fun x => if keqb (ck R x) c0 then
                         (if memb (rk R x) rsel then rO else (if memb c0 csel then fac R x *! Drow (rk R x) else rO)) else rO)).
  { unfold new_cols. rewrite lsum_map. cbn [fst snd]. unfold ops, out_cols.
    transitivity (lsum csel (fun c => if keqb c c0 then rI *! lsum
         (map (fun x => (rk R x, fac R x)) (filter (fun x => keqb (ck R x) c && negb (memb (rk R x) rsel)) t))
         (fun p => snd p *! Drow (fst p)) else rO)).
    { refine (nth_enum_cols (out_rows R rsel) csel _ Drow (fun c d => if keqb c c0 then rI *! d else rO) (length rsel) _).
      unfold out_rows. now rewrite map_length. }
    transitivity (lsum csel (fun c => if keqb c c0 then
        lsum t (fun x => if keqb (ck R x) c0 then (if memb (rk R x) rsel then rO else fac R x *! Drow (rk R x)) else rO) else rO)).
    { apply lsum_ext. intros c _. destruct (keqb_spec c c0) as [->|]; [|reflexivity].
      rewrite lsum_map, lsum_filter. cbn [fst snd].
      transitivity (lsum t (fun x => if keqb (ck R x) c0 && negb (memb (rk R x) rsel) then fac R x *! Drow (rk R x) else rO)).
      { rewrite <- lsum_scale. apply lsum_ext. intros x _. destruct (keqb (ck R x) c0 && negb (memb (rk R x) rsel)); ring. }
      apply lsum_ext. intros x _. destruct (keqb (ck R x) c0), (memb (rk R x) rsel); reflexivity. }
    rewrite lsum_indicator by assumption.
    destruct (memb c0 csel).
    - apply lsum_ext. intros x _. destruct (keqb (ck R x) c0), (memb (rk R x) rsel); reflexivity.
    - symmetry. apply lsum_zero. intros x _. destruct (keqb (ck R x) c0), (memb (rk R x) rsel); reflexivity. }
  rewrite P1, P2. unfold den_old.
  rewrite <- lsum_add. apply lsum_ext. intros x Hx.
  destruct (keqb_spec (ck R x) c0) as [E|]; [|ring].
  destruct (memb_spec (rk R x) rsel); [ring|].
  destruct (memb_spec c0 csel); [ring|].
  destruct (Hcov x Hx); [contradiction|]. subst c0. contradiction.
Qed.

(* ================================================================== _decompose_qr, relative to an exact
   factorisation witness  Gamma = q . r2  (r2 = r[:rank, argsort(p)], i.e. Gamma.P = q.r) *)
Lemma nth_map_seq {A} (h : nat -> A) n l d : l < n -> nth l (map h (seq 0 n)) d = h l.
Proof.
  intros H. rewrite (nth_indep _ d (h 0)) by (rewrite map_length, seq_length; lia).
  rewrite map_nth. rewrite seq_nth by lia. reflexivity.
Qed.
Lemma lsum_enum {A} (l : list A) n (f : A -> R) : lsum (enum_from n l) (fun ik => f (snd ik)) = lsum l f.
Proof. rewrite <- (enum_from_snd l n) at 2. rewrite lsum_map. reflexivity. Qed.
Lemma lsum_pick (sel : list key) (k : key) (F : key -> R) :
  NoDup sel -> lsum sel (fun s => if keqb s k then F s else rO) = if memb k sel then F k else rO.
Proof.
  intros ND. rewrite <- lsum_indicator by assumption. apply lsum_ext. intros s _.
  destruct (keqb_spec s k) as [->|]; reflexivity.
Qed.

Definition qr_exact (t : table) (qrows qcols : list key) (q r2 : mat R) (rank : nat) : Prop :=
  forall i r j c, In (i, r) (enum_from 0 qrows) -> In (j, c) (enum_from 0 qcols) ->
                  gamma R t r c = qr_prod R q r2 rank i j.

Theorem qr_step_abs (t : table) (qrows qcols : list key) (q r2 : mat R) (rank : nat) (Drow : key -> R) (c0 : key) :
  NoDup qrows -> NoDup qcols -> incl (map (rk R) t) qrows -> incl (map (ck R) t) qcols ->
  qr_exact t qrows qcols q r2 rank ->
  den_new (Dout_of Drow (qr_out_ops R iszero qrows q rank)) (qr_new_table R iszero qcols r2 rank) c0
  = den_old Drow t c0.
Proof.
  intros NDr NDc Ir Ic Hqr.
  unfold den_new, qr_new_table. rewrite lsum_flat_map.
  transitivity (lsum (seq 0 rank) (fun l => lsum (enum_from 0 qcols) (fun jk =>
      if keqb (snd jk) c0
      then mget R r2 l (fst jk) *! lsum (enum_from 0 qrows) (fun ik => mget R q (fst ik) l *! Drow (snd ik))
      else rO))).
  { apply lsum_ext. intros l Hl. apply in_seq in Hl. rewrite lsum_flat_map. apply lsum_ext. intros [j c] _.
    cbn [fst snd].
    assert (HD : Dout_of Drow (qr_out_ops R iszero qrows q rank) l
                 = lsum (enum_from 0 qrows) (fun ik => mget R q (fst ik) l *! Drow (snd ik))).
    { unfold Dout_of, qr_out_ops. rewrite nth_map_seq by lia. rewrite lsum_flat_map. apply lsum_ext. intros [i r] _.
      cbn [fst snd].
      destruct (iszero (mget R q i l)) eqn:E; cbn [SymMpo.lsum fst snd].
      - rewrite (iszero_sound _ E). ring.
      - ring. }
    destruct (iszero (mget R r2 l j)) eqn:E; cbn [SymMpo.lsum fst snd].
    - rewrite (iszero_sound _ E). destruct (keqb c c0); ring.
    - rewrite HD. destruct (keqb c c0); ring. }
  rewrite lsum_swap.
  transitivity (lsum (enum_from 0 qcols) (fun jk =>
      if keqb (snd jk) c0 then lsum (enum_from 0 qrows) (fun ik => Drow (snd ik) *! gamma R t (snd ik) (snd jk)) else rO)).
  { apply lsum_ext. intros [j c] Hjc. cbn [fst snd]. destruct (keqb c c0).
    - transitivity (lsum (seq 0 rank) (fun l => lsum (enum_from 0 qrows)
                      (fun ik => Drow (snd ik) *! (mget R q (fst ik) l *! mget R r2 l j)))).
      { apply lsum_ext. intros l _. rewrite <- lsum_scale. apply lsum_ext. intros ik _. ring. }
      rewrite lsum_swap. apply lsum_ext. intros [i r] Hir. cbn [fst snd].
      rewrite lsum_scale. f_equal. symmetry. apply (Hqr i r j c Hir Hjc).
    - apply lsum_zero. reflexivity. }
  rewrite (lsum_enum qcols 0 (fun c => if keqb c c0 then lsum (enum_from 0 qrows)
                                      (fun ik => Drow (snd ik) *! gamma R t (snd ik) c) else rO)).
  rewrite lsum_pick by assumption.
  unfold den_old.
  destruct (memb_spec c0 qcols) as [Hin|Hnin].
  - rewrite (lsum_enum qrows 0 (fun r => Drow r *! gamma R t r c0)).
    unfold gamma.
    transitivity (lsum qrows (fun r => lsum t (fun x =>
        if keqb r (rk R x) then (if keqb (ck R x) c0 then fac R x *! Drow (rk R x) else rO) else rO))).
    { apply lsum_ext. intros r _. rewrite <- lsum_scale. apply lsum_ext. intros x _.
      rewrite (keqb_sym (rk R x) r). destruct (keqb_spec r (rk R x)) as [->|]; cbn [andb]; [|ring].
      destruct (keqb (ck R x) c0); ring. }
    rewrite lsum_swap. apply lsum_ext. intros x Hx.
    rewrite (lsum_indicator qrows (rk R x)) by assumption.
    destruct (memb_spec (rk R x) qrows) as [_|Hn]; [reflexivity|].
    exfalso. apply Hn, Ir, in_map, Hx.
  - symmetry. apply lsum_zero. intros x Hx. destruct (keqb_spec (ck R x) c0) as [E|]; [|reflexivity].
    exfalso. apply Hnin. rewrite <- E. apply Ic, in_map, Hx.
Qed.

(* ================================================================== one site, in terms of the denotation *)
Definition step_ok (t : table) (w : wit R) : Prop :=
  match w with
  | WG _ rsel csel => NoDup rsel /\ NoDup csel /\ covers t rsel csel
  | WQ _ qrows qcols q r2 rank =>
      NoDup qrows /\ NoDup qcols /\ incl (map (rk R) t) qrows /\ incl (map (ck R) t) qcols
      /\ qr_exact t qrows qcols q r2 rank
  end.

Lemma reqb_sound x y : reqb R iszero x y = true -> x = y.
Proof.
  unfold reqb. intros H. apply iszero_sound in H.
  transitivity ((x -! y) +! y); [ring|]. rewrite H. ring.
Qed.

Lemma wit_okb_sound t w : wit_okb R iszero t w = true -> step_ok t w.
Proof.
  destruct w as [rsel csel|qrows qcols q r2 rank]; cbn [wit_okb step_ok].
  - unfold graph_wit_ok. intros H. repeat (apply andb_true_iff in H; destruct H as [H ?]).
    repeat split; auto using nodupb_sound, is_cover_sound.
  - unfold qr_wit_ok. intros H. repeat (apply andb_true_iff in H; destruct H as [H ?]).
    repeat split; auto using nodupb_sound, subsetb_sound.
    intros i r j c Hi Hj. rewrite forallb_forall in H0. specialize (H0 _ Hi). cbn [fst snd] in H0.
    rewrite forallb_forall in H0. specialize (H0 _ Hj). cbn [fst snd] in H0. apply reqb_sound, H0.
Qed.

Lemma den_old_table (D : den) (t : table) l o r :
  den_old (drow R D l o) t r = den_table R D t l (o :: r).
Proof.
  unfold den_old, den_table. apply lsum_ext. intros [k f] _. unfold rk, ck, fac. cbn [fst snd].
  destruct k as [|a [|o' rest]]; cbn [firstn skipn drow].
  - destruct (keqb [] r); ring.
  - destruct (keqb_spec [] (o :: r)) as [E|_]; [discriminate|]. destruct (keqb [] r); ring.
  - destruct (Nat.eqb_spec o' o) as [->|Hne].
    + destruct (keqb_spec rest r) as [->|Hr].
      * rewrite keqb_refl. reflexivity.
      * destruct (keqb_spec (o :: rest) (o :: r)) as [E|_]; [inversion E; contradiction|reflexivity].
    + destruct (keqb_spec (o' :: rest) (o :: r)) as [E|_]; [inversion E; contradiction|].
      destruct (keqb rest r); ring.
Qed.

(* one_site_sound: for every admissible witness the pair (bond-so-far, remaining table) denotes the
   same operator before and after the step *)
Theorem step_den (t : table) (w : wit R) (D : den) l o r :
  step_ok t w ->
  den_table R (dnext R D (fst (step R iszero t w))) (snd (step R iszero t w)) (o :: l) r
  = den_table R D t l (o :: r).
Proof.
  intros Hok. rewrite <- den_old_table.
  change (den_new (Dout_of (drow R D l o) (fst (step R iszero t w))) (snd (step R iszero t w)) r
          = den_old (drow R D l o) t r).
  destruct w as [rsel csel|qrows qcols q r2 rank]; cbn [step step_ok] in *.
  - destruct Hok as (H1 & H2 & H3). apply graph_step_abs; assumption.
  - destruct Hok as (H1 & H2 & H3 & H4 & H5). cbn [fst snd]. apply qr_step_abs; assumption.
Qed.

(* ================================================================== the sweep over the sites *)
Fixpoint sweep_ok (ws : list (wit R)) (t : table) : Prop :=
  match ws with
  | [] => True
  | w :: r => step_ok t w /\ sweep_ok r (snd (step R iszero t w))
  end.
Lemma sweep_okb_sound ws : forall t, sweep_okb R iszero ws t = true -> sweep_ok ws t.
Proof.
  induction ws as [|w ws IH]; intros t H; cbn [sweep_okb sweep_ok] in *; [exact I|].
  apply andb_true_iff in H. destruct H as [H1 H2]. split; [apply wit_okb_sound, H1|apply IH, H2].
Qed.

Theorem sweep_sound ws : forall (t : table) (D : den) l s r,
  length s = length ws -> sweep_ok ws t ->
  den_table R (dchain R D (fst (sweep R iszero ws t))) (snd (sweep R iszero ws t)) (rev s ++ l) r
  = den_table R D t l (s ++ r).
Proof.
  induction ws as [|w ws IH]; intros t D l s r Hlen Hok.
  - destruct s; [|discriminate]. reflexivity.
  - destruct s as [|o s]; [discriminate|]. cbn [sweep fst snd dchain]. destruct Hok as [H1 H2].
    cbn [rev]. rewrite <- app_assoc. cbn [app].
    rewrite IH by (cbn [length] in Hlen; auto; lia).
    apply step_den, H1.
Qed.

(* ================================================================== lengths: a coefficient is non-zero
   only on strings with one operator per site *)
Definition supp (k : nat) (D : den) : Prop := forall a l, length l <> k -> D a l = rO.
Lemma supp_D0 : supp 0 (D0 R).
Proof. intros a l H. destruct a, l; cbn [D0 length] in *; try reflexivity. lia. Qed.
Lemma supp_dnext k D b : supp k D -> supp (S k) (dnext R D b).
Proof.
  intros H a l Hl. destruct l as [|o l]; cbn [dnext]; [reflexivity|].
  apply lsum_zero. intros [key f] _. cbn [fst snd]. unfold drow.
  destruct key as [|a' [|o' [|? ?]]]; try ring.
  destruct (Nat.eqb o' o); [|ring]. rewrite H by (cbn [length] in Hl; lia). ring.
Qed.
Lemma supp_dchain bs : forall k D, supp k D -> supp (k + length bs) (dchain R D bs).
Proof.
  induction bs as [|b bs IH]; intros k D H; cbn [dchain length].
  - rewrite Nat.add_0_r. assumption.
  - replace (k + S (length bs)) with (S k + length bs) by lia. apply IH, supp_dnext, H.
Qed.
Lemma sweep_length ws : forall t, length (fst (sweep R iszero ws t)) = length ws.
Proof. induction ws as [|w ws IH]; intros t; cbn [sweep fst length]; [reflexivity|]. now rewrite IH. Qed.

(* ================================================================== the single-row fast path *)
Lemma fast_path_length ops f : length (fast_path R ops f) = length ops.
Proof.
  induction ops as [|o ops IH]; [reflexivity|]. destruct ops as [|o2 ops]; [reflexivity|].
  change (fast_path R (o :: o2 :: ops) f) with ([[([0; o], rI)]] :: fast_path R (o2 :: ops) f).
  cbn [length] in *. now rewrite IH.
Qed.
Lemma fast_path_den ops f : forall (D : den) s l, ops <> [] -> length s = length ops ->
  dchain R D (fast_path R ops f) 0 (rev s ++ l) = (if keqb s ops then f else rO) *! D 0 l.
Proof.
  induction ops as [|o ops IH]; intros D s l Hne Hlen; [congruence|].
  destruct s as [|o1 s]; [discriminate|].
  destruct ops as [|o2 ops].
  - destruct s; [|discriminate]. cbn [fast_path dchain rev app dnext nth SymMpo.lsum fst snd drow].
    destruct (Nat.eqb_spec o o1) as [->|Hn].
    + rewrite keqb_refl. ring.
    + destruct (keqb_spec [o1] [o]) as [E|_]; [inversion E; congruence|]. ring.
  - change (fast_path R (o :: o2 :: ops) f) with ([[([0; o], rI)]] :: fast_path R (o2 :: ops) f).
    cbn [dchain rev]. rewrite <- app_assoc. cbn [app].
    rewrite IH by (try discriminate; cbn [length] in *; lia).
    cbn [dnext nth SymMpo.lsum fst snd drow].
    destruct (Nat.eqb_spec o o1) as [->|Hn].
    + destruct (keqb_spec s (o2 :: ops)) as [->|Hs].
      * rewrite keqb_refl. ring.
      * destruct (keqb_spec (o1 :: s) (o1 :: o2 :: ops)) as [E|_]; [inversion E; contradiction|]. ring.
    + destruct (keqb_spec (o1 :: s) (o :: o2 :: ops)) as [E|_]; [inversion E; congruence|]. ring.
Qed.

(* ================================================================== construct_symbolic_mpo *)
Lemma coeffT_app (t1 t2 : table) s : coeffT R (t1 ++ t2) s = coeffT R t1 s +! coeffT R t2 s.
Proof. unfold coeffT. apply lsum_app. Qed.
Lemma coeffT_raw terms const idstr s :
  coeffT R (raw_table R iszero terms const idstr) s = coeffT R terms s +! (if keqb s idstr then const else rO).
Proof.
  unfold raw_table. rewrite coeffT_app. f_equal.
  destruct (iszero const) eqn:E; unfold coeffT; cbn [SymMpo.lsum fst snd].
  - rewrite (iszero_sound _ E). destruct (keqb s idstr); ring.
  - rewrite (keqb_sym idstr s). destruct (keqb s idstr); ring.
Qed.
Lemma coeffT_len (t : table) n s :
  (forall x, In x t -> length (fst x) = n) -> length s <> n -> coeffT R t s = rO.
Proof.
  intros H Hs. unfold coeffT. apply lsum_zero. intros x Hx.
  destruct (keqb_spec (fst x) s) as [E|_]; [|reflexivity]. specialize (H x Hx). congruence.
Qed.
Lemma den_table_extend (t : table) s :
  den_table R (D0 R) (extend R t) [] (s ++ [0]) = coeffT R t s.
Proof.
  unfold den_table, extend, coeffT. rewrite lsum_map. apply lsum_ext. intros [k f] _. cbn [fst snd D0].
  destruct (keqb_spec k s) as [->|Hne].
  - rewrite keqb_refl. ring.
  - destruct (keqb_spec (k ++ [0]) (s ++ [0])) as [E|_]; [apply app_inv_tail in E; contradiction|reflexivity].
Qed.
Lemma final_okb_sound (tf : table) : final_okb R iszero tf = true -> tf = [([0; 0], rI)].
Proof.
  unfold final_okb. destruct tf as [|[k f] [|? ?]]; try discriminate.
  intros H. apply andb_true_iff in H. destruct H as [H1 H2].
  destruct (keqb_spec k [0; 0]); [|discriminate]. apply reqb_sound in H2. subst. reflexivity.
Qed.

(* The constructed symbolic MPO has the coefficient function of the term list plus `const` (= -offset)
   on the identity string, for every string s (strings of the wrong length included).
   Hypotheses: every term row has one entry per site (n sites, n > 0); when the general path is
   taken the witnesses are admissible at every site (graph: any vertex cover in any order, i.e. C20
   + the run-time witness check; QR: exact factorisation). *)
Theorem construct_sound (terms : table) (const : R) (idstr : key) (ws : list (wit R)) (bs : list bond) (n : nat) :
  0 < n -> (forall x, In x terms -> length (fst x) = n) -> length idstr = n ->
  (length (terms_to_table R iszero terms const idstr) <> 1 ->
     length ws = n /\ sweep_ok ws (extend R (terms_to_table R iszero terms const idstr))) ->
  construct R iszero terms const idstr ws = Some bs ->
  forall s, coeff R bs s = coeffT R terms s +! (if keqb s idstr then const else rO).
Proof.
  intros Hn Hlen Hid Hws Hc s.
  rewrite <- coeffT_raw. rewrite <- (dedup_den (raw_table R iszero terms const idstr) s).
  fold (terms_to_table R iszero terms const idstr).
  assert (Hraw : forall x, In x (terms_to_table R iszero terms const idstr) -> length (fst x) = n).
  { intros x Hx. destruct (keqb_spec (fst x) (fst x)) as [_|]; [|congruence].
    (* a row of the deduplicated table has the key of some raw row *)
    assert (Hk : In (fst x) (map fst (raw_table R iszero terms const idstr))).
    { unfold terms_to_table, dedup, merge_rows in Hx. apply filter_In in Hx. destruct Hx as [Hx _].
      assert (G : forall (t acc : table) k, In k (map fst (fold_left (fun acc x => addrow R (fst x) (snd x) acc) t acc)) ->
                  In k (map fst acc) \/ In k (map fst t)).
      { induction t as [|y t IHt]; intros acc k Hk; cbn [fold_left] in Hk; [left; assumption|].
        apply IHt in Hk. destruct Hk as [Hk|Hk]; [|right; right; assumption].
        apply addrow_keys in Hk. destruct Hk as [->|Hk]; [right; left; reflexivity|left; assumption]. }
      destruct (G _ _ (fst x) (in_map fst _ _ Hx)) as [[]|Hk]. exact Hk. }
    apply in_map_iff in Hk. destruct Hk as [y [Ey Hy]]. rewrite <- Ey.
    unfold raw_table in Hy. apply in_app_or in Hy. destruct Hy as [Hy|Hy]; [apply Hlen, Hy|].
    destruct (iszero const); [contradiction|]. destruct Hy as [<-|[]]. exact Hid. }
  unfold construct in Hc. fold (terms_to_table R iszero terms const idstr) in *.
  set (t0 := terms_to_table R iszero terms const idstr) in *.
  assert (Hgen : length t0 <> 1 ->
                 (if final_okb R iszero (snd (sweep R iszero ws (extend R t0)))
                  then Some (fst (sweep R iszero ws (extend R t0))) else None) = Some bs ->
                 coeff R bs s = coeffT R t0 s).
  { intros H1 Hc'. destruct (Hws H1) as [Hl Hok].
    destruct (final_okb R iszero (snd (sweep R iszero ws (extend R t0)))) eqn:Ef; [|discriminate].
    inversion Hc'; subst bs. apply final_okb_sound in Ef.
    destruct (Nat.eq_dec (length s) n) as [Es|Es].
    - pose proof (sweep_sound ws (extend R t0) (D0 R) [] s [0] (eq_trans Es (eq_sym Hl)) Hok) as HS.
      rewrite Ef in HS. rewrite den_table_extend in HS. rewrite <- HS.
      unfold den_table. cbn [SymMpo.lsum fst snd]. rewrite keqb_refl. rewrite app_nil_r. unfold coeff. ring.
    - rewrite (coeffT_len t0 n s Hraw Es). unfold coeff.
      apply (supp_dchain (fst (sweep R iszero ws (extend R t0))) 0 (D0 R) supp_D0).
      rewrite sweep_length, rev_length. cbn [Nat.add]. congruence. }
  destruct t0 as [|[ops f] [|y t1]] eqn:Et.
  - apply Hgen; [discriminate|exact Hc].
  - (* fast path *)
    inversion Hc; subst bs. clear Hgen.
    assert (Hops : length ops = n) by (apply (Hraw (ops, f)); left; reflexivity).
    unfold coeffT. cbn [SymMpo.lsum fst snd].
    destruct (Nat.eq_dec (length s) n) as [Es|Es].
    + unfold coeff. rewrite <- (app_nil_r (rev s)).
      assert (Hne : ops <> []) by (destruct ops; [cbn [length] in Hops; lia|discriminate]).
      rewrite (fast_path_den ops f (D0 R) s [] Hne (eq_trans Es (eq_sym Hops))).
      cbn [D0]. rewrite (keqb_sym ops s). destruct (keqb s ops); ring.
    + destruct (keqb_spec ops s) as [E|_]; [congruence|]. unfold coeff.
      rewrite (supp_dchain (fast_path R ops f) 0 (D0 R) supp_D0); [ring|].
      rewrite fast_path_length, rev_length. cbn [Nat.add]. congruence.
  - apply Hgen; [cbn [length]; lia|exact Hc].
Qed.

(* ================================================================== the rows of the new table stay
   pairwise distinct (so the sparse incidence matrix of the next site has no duplicate coordinates) *)
Lemma NoDup_app_intro {A} (l1 l2 : list A) :
  NoDup l1 -> NoDup l2 -> (forall x, In x l1 -> In x l2 -> False) -> NoDup (l1 ++ l2).
Proof.
  induction l1 as [|a l1 IH]; intros H1 H2 H; cbn [app]; [assumption|].
  inversion H1 as [|? ? Hn H1']; subst. constructor.
  - intros Hin. apply in_app_or in Hin. destruct Hin as [Hin|Hin]; [contradiction|]. apply (H a); [left; reflexivity|assumption].
  - apply IH; auto. intros x Hx. apply H. right. assumption.
Qed.
Lemma NoDup_map_cons (i : nat) (l : list key) : NoDup l -> NoDup (map (cons i) l).
Proof.
  induction l as [|k l IH]; intros H; cbn [map]; [constructor|]. inversion H as [|? ? Hn H']; subst.
  constructor; [|auto]. intros Hin. apply in_map_iff in Hin. destruct Hin as [y [E Hy]]. inversion E; subst. contradiction.
Qed.
Lemma key_split (k : key) : firstn 2 k ++ skipn 2 k = k.
Proof. apply firstn_skipn. Qed.
Lemma ck_filter_nodup (t : table) (r : key) :
  NoDup (map fst t) -> NoDup (map (ck R) (filter (fun x => keqb (rk R x) r) t)).
Proof.
  induction t as [|x t IH]; intros H; cbn [filter map]; [constructor|].
  inversion H as [|? ? Hn H']; subst.
  destruct (keqb_spec (rk R x) r) as [Er|]; [|auto]. cbn [map]. constructor; [|auto].
  intros Hin. apply in_map_iff in Hin. destruct Hin as [y [Ey Hy]]. apply filter_In in Hy. destruct Hy as [Hy Hr].
  destruct (keqb_spec (rk R y) r) as [Er'|]; [|discriminate].
  apply Hn. apply in_map_iff. exists y. split; [|assumption].
  rewrite <- (key_split (fst y)), <- (key_split (fst x)). unfold rk, ck in *. congruence.
Qed.

Theorem unique_rows_graph (t : table) (rsel csel : list key) :
  NoDup (map fst t) -> NoDup csel ->
  NoDup (map fst (snd (decompose_graph R t rsel csel))).
Proof.
  intros Ht Hc. unfold decompose_graph. cbn [snd]. rewrite map_app.
  assert (Hrows : forall l n, (forall k, In k (map fst (flat_map (fun ir => map (fun x => (fst ir :: ck R x, fac R x))
                      (filter (fun x => keqb (rk R x) (snd ir)) t)) (enum_from n l))) ->
                      exists i rest, k = i :: rest /\ n <= i < n + length l)
                   /\ NoDup (map fst (flat_map (fun ir => map (fun x => (fst ir :: ck R x, fac R x))
                      (filter (fun x => keqb (rk R x) (snd ir)) t)) (enum_from n l)))).
  { induction l as [|r l IHl]; intros n; cbn [enum_from flat_map map length].
    - split; [intros k []|constructor].
    - destruct (IHl (S n)) as [IH1 IH2]. rewrite map_app. split.
      + intros k Hk. apply in_app_or in Hk. destruct Hk as [Hk|Hk].
        * rewrite map_map in Hk. cbn [fst snd] in Hk. apply in_map_iff in Hk. destruct Hk as [x [<- _]].
          exists n, (ck R x). split; [reflexivity|lia].
        * destruct (IH1 k Hk) as (i & rest & E & Hi). exists i, rest. split; [assumption|lia].
      + apply NoDup_app_intro; [| exact IH2 |].
        * rewrite map_map. cbn [fst snd]. rewrite <- (map_map (ck R) (cons n)). apply NoDup_map_cons, ck_filter_nodup, Ht.
        * intros k Hk1 Hk2. rewrite map_map in Hk1. cbn [fst snd] in Hk1. apply in_map_iff in Hk1. destruct Hk1 as [x [<- _]].
          destruct (IH1 _ Hk2) as (i & rest & E & Hi). inversion E. lia. }
  destruct (Hrows rsel 0) as [H1 H2]. fold (new_rows R t rsel) in H1, H2.
  assert (Hcols : forall l n, NoDup l ->
            (forall k, In k (map fst (map (fun jc : nat * key => (fst jc :: snd jc, rI)) (enum_from n l))) ->
                       exists i rest, k = i :: rest /\ n <= i)
            /\ NoDup (map fst (map (fun jc : nat * key => (fst jc :: snd jc, rI)) (enum_from n l)))).
  { induction l as [|c l IHl]; intros n Hl; cbn [enum_from map fst snd].
    - split; [intros k []|constructor].
    - inversion Hl as [|? ? Hn Hl']; subst. destruct (IHl (S n) Hl') as [IH1 IH2]. split.
      + intros k [<-|Hk]; [exists n, c; split; [reflexivity|lia]|].
        destruct (IH1 k Hk) as (i & rest & E & Hi). exists i, rest. split; [assumption|lia].
      + constructor; [|exact IH2]. intros Hin. destruct (IH1 _ Hin) as (i & rest & E & Hi). inversion E. lia. }
  destruct (Hcols csel (length rsel) Hc) as [H3 H4]. fold (new_cols R rsel csel) in H3, H4.
  apply NoDup_app_intro; [assumption|assumption|].
  intros k Hk1 Hk2. destruct (H1 k Hk1) as (i & rest & E & Hi). destruct (H3 k Hk2) as (i' & rest' & E' & Hi').
  rewrite E in E'. inversion E'. lia.
Qed.

Theorem unique_rows_qr (qcols : list key) (r2 : mat R) (rank : nat) :
  NoDup qcols -> NoDup (map fst (qr_new_table R iszero qcols r2 rank)).
Proof.
  intros Hc. unfold qr_new_table.
  assert (Hin : forall l (cs : list key) n, forall k,
            In k (map fst (flat_map (fun jk : nat * key => let v := mget R r2 l (fst jk) in
                                       if iszero v then [] else [(l :: snd jk, v)]) (enum_from n cs))) ->
            exists c, k = l :: c /\ In c cs).
  { intros l cs. induction cs as [|c cs IH]; intros n k Hk; cbn [enum_from flat_map] in Hk; [destruct Hk|].
    rewrite map_app in Hk. apply in_app_or in Hk. destruct Hk as [Hk|Hk].
    - cbn [fst snd] in Hk. destruct (iszero (mget R r2 l n)); [destruct Hk|]. destruct Hk as [<-|[]].
      exists c. split; [reflexivity|left; reflexivity].
    - destruct (IH _ _ Hk) as (c' & E & Hc'). exists c'. split; [assumption|right; assumption]. }
  assert (Hnd : forall l (cs : list key) n, NoDup cs ->
            NoDup (map fst (flat_map (fun jk : nat * key => let v := mget R r2 l (fst jk) in
                                       if iszero v then [] else [(l :: snd jk, v)]) (enum_from n cs)))).
  { intros l cs. induction cs as [|c cs IH]; intros n Hcs; cbn [enum_from flat_map]; [constructor|].
    inversion Hcs as [|? ? Hn Hcs']; subst. rewrite map_app. apply NoDup_app_intro; [| apply IH, Hcs' |].
    - cbn [fst snd]. destruct (iszero (mget R r2 l n)); cbn [map fst]; [constructor|]. constructor; [intros []|constructor].
    - intros k Hk1 Hk2. cbn [fst snd] in Hk1. destruct (iszero (mget R r2 l n)); [destruct Hk1|]. destruct Hk1 as [<-|[]].
      destruct (Hin _ _ _ _ Hk2) as (c' & E & Hc'). inversion E; subst. contradiction. }
  assert (G : forall ls, NoDup ls -> NoDup (map fst (flat_map (fun l => flat_map (fun jk : nat * key =>
                 let v := mget R r2 l (fst jk) in if iszero v then [] else [(l :: snd jk, v)]) (enum_from 0 qcols)) ls))).
  { induction ls as [|l ls IH]; intros Hls; cbn [flat_map]; [constructor|].
    inversion Hls as [|? ? Hn Hls']; subst. rewrite map_app. apply NoDup_app_intro; [apply Hnd, Hc|apply IH, Hls'|].
    intros k Hk1 Hk2. destruct (Hin _ _ _ _ Hk1) as (c & E & _).
    rewrite flat_map_concat_map in Hk2. rewrite concat_map in Hk2. apply in_concat in Hk2.
    destruct Hk2 as [ks [Hks Hk]]. rewrite map_map in Hks. apply in_map_iff in Hks. destruct Hks as [l' [<- Hl']].
    destruct (Hin _ _ _ _ Hk) as (c' & E' & _). rewrite E in E'. inversion E'; subst. contradiction. }
  apply G, seq_NoDup.
Qed.

(* ================================================================== compose_symbolic_mo: the numeric
   MPO is the product of the symbolic matrices; its coefficient function is the chain denotation *)
Definition bond_wf (nin : nat) (b : bond) : Prop :=
  forall oo, In oo b -> forall p, In p oo -> exists a o, fst p = [a; o] /\ a < nin.

Lemma nth_map_nil {A B} (g : list A -> list B) (b : list (list A)) i : g [] = [] -> nth i (map g b) [] = g (nth i b []).
Proof. intros H. rewrite <- H at 1. apply map_nth. Qed.

Theorem compose_den (D : den) (nin : nat) (b : bond) i s :
  bond_wf nin b -> vnext R D nin (compose_mo R nin b) i s = dnext R D b i s.
Proof.
  intros Hwf. destruct s as [|o l]; [reflexivity|]. cbn [vnext dnext].
  assert (Hoo : forall p, In p (nth i b []) -> exists a o', fst p = [a; o'] /\ a < nin).
  { intros p Hp. destruct (Nat.lt_ge_cases i (length b)) as [Hi|Hi].
    - apply (Hwf (nth i b [])); [apply nth_In, Hi|assumption].
    - rewrite nth_overflow in Hp by assumption. destruct Hp. }
  transitivity (lsum (seq 0 nin) (fun a => lsum (nth i b []) (fun p =>
     match fst p with
     | [a'; o'] => if Nat.eqb a' a then (if Nat.eqb o' o then snd p *! D a l else rO) else rO
     | _ => rO
     end))).
  { apply lsum_ext. intros a Ha. apply in_seq in Ha. unfold mo_coeff, compose_mo.
    rewrite nth_map_seq by lia. cbv beta. rewrite nth_map_nil; [|reflexivity]. rewrite lsum_flat_map.
    rewrite <- lsum_scale. apply lsum_ext. intros [k f] _. cbn [fst snd].
    destruct k as [|a' [|o' [|? ?]]]; cbn [SymMpo.lsum]; try ring.
    destruct (Nat.eqb a' a); cbn [SymMpo.lsum snd fst]; [|ring]. destruct (Nat.eqb o' o); ring. }
  rewrite lsum_swap. apply lsum_ext. intros [k f] Hp. cbn [fst snd].
  destruct (Hoo _ Hp) as (a' & o' & E & Ha'). cbn [fst] in E. subst k. cbn [drow].
  rewrite (lsum_seq_delta nin 0 a' (fun a => if Nat.eqb o' o then f *! D a l else rO)) by lia.
  destruct (Nat.eqb o' o); ring.
Qed.

(* ================================================================== the executable expansion used by
   the tie computes the coefficient function *)
Lemma coeffT_flat_map {A} (l : list A) (h : A -> table) s :
  coeffT R (flat_map h l) s = lsum l (fun x => coeffT R (h x) s).
Proof. unfold coeffT. apply lsum_flat_map. Qed.
Lemma expand_step_den (st : list table) (D : den) (b : bond) :
  (forall i s, coeffT R (nth i st []) s = D i s) ->
  forall i s, coeffT R (nth i (expand_step R iszero st b) []) s = dnext R D b i s.
Proof.
  intros Hst i s. unfold expand_step. unfold SymMpo.table. rewrite nth_map_nil; [|reflexivity].
  rewrite dedup_den, coeffT_flat_map.
  destruct s as [|o l]; cbn [dnext].
  - apply lsum_zero. intros [k f] _. cbn [fst snd]. destruct k as [|a [|o' [|? ?]]]; try reflexivity.
    unfold coeffT. rewrite lsum_map. apply lsum_zero. intros x _. cbn [fst snd].
    destruct (keqb_spec (o' :: fst x) []); [discriminate|reflexivity].
  - apply lsum_ext. intros [k f] _. cbn [fst snd]. unfold drow.
    destruct k as [|a [|o' [|? ?]]]; try (unfold coeffT; cbn [SymMpo.lsum]; ring).
    rewrite <- Hst. unfold coeffT. rewrite lsum_map. cbn [fst snd].
    destruct (Nat.eqb_spec o' o) as [->|Hne].
    + rewrite <- lsum_scale. apply lsum_ext. intros [kx fx] _. cbn [fst snd].
      destruct (keqb_spec kx l) as [->|Hn].
      * rewrite !keqb_refl. reflexivity.
      * destruct (keqb_spec (o :: kx) (o :: l)) as [E|_]; [inversion E; contradiction|ring].
    + rewrite lsum_zero; [ring|]. intros [kx fx] _. cbn [fst snd].
      destruct (keqb_spec (o' :: kx) (o :: l)) as [E|_]; [inversion E; contradiction|reflexivity].
Qed.
Lemma expand_fold_den (bs : list bond) : forall (st : list table) (D : den),
  (forall i s, coeffT R (nth i st []) s = D i s) ->
  forall i s, coeffT R (nth i (fold_left (expand_step R iszero) bs st) []) s = dchain R D bs i s.
Proof.
  induction bs as [|b bs IH]; intros st D H i s; cbn [fold_left dchain]; [apply H|].
  apply IH. apply expand_step_den, H.
Qed.
Theorem expand_correct (bs : list bond) s : coeffT R (expand R iszero bs) s = dchain R (D0 R) bs 0 s.
Proof.
  unfold expand. apply expand_fold_den. intros i s'.
  destruct i as [|i]; cbn [nth D0].
  - unfold coeffT. cbn [SymMpo.lsum fst snd]. destruct s'; cbn; ring.
  - destruct i; reflexivity.
Qed.
(* what the tie's exact check establishes: an empty difference table means equal coefficient functions *)
Theorem coeff_diff_sound (bs : list bond) (scale : R) (terms : table) :
  coeff_diff R iszero bs scale terms = [] -> forall s, coeff R bs s = scale *! coeffT R terms s.
Proof.
  intros H s. pose proof (dedup_den (map (fun x => (rev (fst x), snd x)) (expand R iszero bs)
                                     ++ map (fun x => (fst x, ropp R (scale *! snd x))) terms) s) as E.
  unfold coeff_diff in H. rewrite H in E. rewrite coeffT_app in E. unfold coeff. rewrite <- expand_correct.
  assert (E1 : coeffT R (map (fun x => (rev (fst x), snd x)) (expand R iszero bs)) s = coeffT R (expand R iszero bs) (rev s)).
  { unfold coeffT. rewrite lsum_map. apply lsum_ext. intros [kx fx] _. cbn [fst snd].
    destruct (keqb_spec kx (rev s)) as [->|Hn].
    - rewrite rev_involutive, keqb_refl. reflexivity.
    - destruct (keqb_spec (rev kx) s) as [<-|_]; [rewrite rev_involutive in Hn; congruence|reflexivity]. }
  assert (E2 : coeffT R (map (fun x => (fst x, ropp R (scale *! snd x))) terms) s = ropp R (scale *! coeffT R terms s)).
  { unfold coeffT. rewrite lsum_map. cbn [fst snd]. rewrite <- lsum_scale.
    transitivity (lsum terms (fun x => ropp R rI *! (scale *! (if keqb (fst x) s then snd x else rO)))).
    - apply lsum_ext. intros x _. destruct (keqb (fst x) s); ring.
    - rewrite lsum_scale. ring. }
  rewrite E1, E2 in E. unfold coeffT at 1 in E. cbn [SymMpo.lsum] in E.
  transitivity ((coeffT R (expand R iszero bs) (rev s) +! ropp R (scale *! coeffT R terms s)) +! scale *! coeffT R terms s); [ring|].
  rewrite <- E. ring.
Qed.

(* ================================================================== swap_site *)
Lemma den_table_lin (D : den) (t : table) l r :
  den_table R D t l r
  = lsum t (fun x => snd x *! (match fst x with a :: rest => if keqb rest r then D a l else rO | [] => rO end)).
Proof.
  unfold den_table. apply lsum_ext. intros [k f] _. cbn [fst snd]. destruct k as [|a rest]; [ring|].
  destruct (keqb rest r); ring.
Qed.
Lemma den_table_dedup (D : den) (t : table) l r : den_table R D (dedup R iszero t) l r = den_table R D t l r.
Proof.
  rewrite !den_table_lin.
  apply (dedup_lin (fun k => match k with a :: rest => if keqb rest r then D a l else rO | [] => rO end)).
Qed.

Lemma keqb4 a b c a' b' c' :
  keqb [a; b; c; 0] [a'; b'; c'; 0] = Nat.eqb a a' && Nat.eqb b b' && Nat.eqb c c'.
Proof.
  destruct (Nat.eqb_spec a a') as [->|Ha]; cbn [andb].
  - destruct (Nat.eqb_spec b b') as [->|Hb]; cbn [andb].
    + destruct (Nat.eqb_spec c c') as [->|Hc].
      * apply keqb_refl.
      * destruct (keqb_spec [a'; b'; c; 0] [a'; b'; c'; 0]) as [E|_]; [inversion E; contradiction|reflexivity].
    + destruct (keqb_spec [a'; b; c; 0] [a'; b'; c'; 0]) as [E|_]; [inversion E; contradiction|reflexivity].
  - destruct (keqb_spec [a; b; c; 0] [a'; b'; c'; 0]) as [E|_]; [inversion E; contradiction|reflexivity].
Qed.
Lemma keqb_cons x y (k k' : key) : keqb (x :: k) (y :: k') = Nat.eqb x y && keqb k k'.
Proof.
  destruct (Nat.eqb_spec x y) as [->|Hne]; cbn [andb].
  - destruct (keqb_spec k k') as [->|Hk]; [apply keqb_refl|].
    destruct (keqb_spec (y :: k) (y :: k')) as [E|_]; [inversion E; contradiction|reflexivity].
  - destruct (keqb_spec (x :: k) (y :: k')) as [E|_]; [inversion E; contradiction|reflexivity].
Qed.
Lemma keqb4' a b c d a' b' c' d' :
  keqb [a; b; c; d] [a'; b'; c'; d'] = Nat.eqb a a' && Nat.eqb b b' && Nat.eqb c c' && Nat.eqb d d'.
Proof. rewrite !keqb_cons. rewrite (keqb_refl []). rewrite andb_true_r, !andb_assoc. reflexivity. Qed.
Lemma lsum_enum_pick {A} (G : A -> R) (d : A) (b : list A) : forall n i, i < length b ->
  lsum (enum_from n b) (fun io => if Nat.eqb (fst io) (n + i) then G (snd io) else rO) = G (nth i b d).
Proof.
  induction b as [|x b IH]; intros n i Hi; cbn [length] in Hi; [lia|]. cbn [enum_from SymMpo.lsum fst snd].
  destruct i as [|i].
  - rewrite Nat.add_0_r, Nat.eqb_refl. cbn [nth]. rewrite lsum_zero; [ring|].
    intros [j y] Hj. apply in_enum_from in Hj. cbn [fst snd]. destruct (Nat.eqb_spec j n); [lia|reflexivity].
  - destruct (Nat.eqb_spec n (n + S i)); [lia|]. cbn [nth].
    replace (n + S i) with (S n + i) by lia. rewrite IH by lia. ring.
Qed.

(* the expanded, column-exchanged, labelled two-site table denotes the old two-site operator *)
Lemma swap_table_den (nprim : nat) (b2 b3 : bond) (D1 : den) l o1 o2 i :
  i < length b3 ->
  den_table R D1 (swap_table R nprim b2 b3) l [o2; o1; nprim + i; 0]
  = dnext R (dnext R D1 b2) b3 i (o2 :: o1 :: l).
Proof.
  intros Hi. unfold den_table, swap_table. rewrite lsum_flat_map.
  change (dnext R (dnext R D1 b2) b3 i (o2 :: o1 :: l))
    with (lsum (nth i b3 []) (fun p => snd p *! drow R (dnext R D1 b2) (o1 :: l) o2 (fst p))).
  set (G := fun oo : outop R => lsum oo (fun p => snd p *! drow R (dnext R D1 b2) (o1 :: l) o2 (fst p))).
  change (lsum (nth i b3 []) (fun p => snd p *! drow R (dnext R D1 b2) (o1 :: l) o2 (fst p))) with (G (nth i b3 [])).
  rewrite <- (lsum_enum_pick G [] b3 0 i Hi). unfold G.
  apply lsum_ext. intros [i' oo] _. cbn [fst snd Nat.add]. rewrite lsum_flat_map.
  destruct (Nat.eqb_spec i' i) as [->|Hne].
  - apply lsum_ext. intros [k3 f3] _. cbn [fst snd].
    destruct k3 as [|a2 [|o2' [|? ?]]]; cbn [drow SymMpo.lsum]; try ring.
    rewrite lsum_flat_map.
    destruct (Nat.eqb_spec o2' o2) as [->|Hn2].
    + change (dnext R D1 b2 a2 (o1 :: l)) with (lsum (nth a2 b2 []) (fun p => snd p *! drow R D1 l o1 (fst p))).
      rewrite <- lsum_scale. apply lsum_ext. intros [k2 f2] _. cbn [fst snd].
      destruct k2 as [|a1 [|o1' [|? ?]]]; cbn [drow SymMpo.lsum fst snd]; try ring.
      rewrite keqb4, !Nat.eqb_refl. cbn [andb]. destruct (Nat.eqb o1' o1); cbn [andb]; ring.
    + rewrite lsum_zero; [ring|]. intros [k2 f2] _. cbn [fst snd].
      destruct k2 as [|a1 [|o1' [|? ?]]]; cbn [SymMpo.lsum fst snd]; try ring.
      rewrite keqb4. destruct (Nat.eqb_spec o2' o2); [contradiction|]. cbn [andb]. ring.
  - apply lsum_zero. intros [k3 f3] _. cbn [fst snd].
    destruct k3 as [|a2 [|o2' [|? ?]]]; cbn [SymMpo.lsum]; try reflexivity.
    rewrite lsum_flat_map. apply lsum_zero. intros [k2 f2] _. cbn [fst snd].
    destruct k2 as [|a1 [|o1' [|? ?]]]; cbn [SymMpo.lsum fst snd]; try reflexivity.
    rewrite keqb4. destruct (Nat.eqb_spec (nprim + i') (nprim + i)); [lia|]. rewrite !andb_false_r. ring.
Qed.

Lemma find_label_den (lab : nat) (last : outop R) i1 f (D : den) L :
  find_label R lab last = Some (i1, f) ->
  lsum last (fun p => snd p *! drow R D L lab (fst p)) = f *! D i1 L.
Proof.
  unfold find_label. intros H.
  match type of H with match filter ?P0 last with _ => _ end = _ => set (P := P0) in * end.
  transitivity (lsum (filter P last) (fun p => snd p *! drow R D L lab (fst p))).
  { rewrite lsum_filter. apply lsum_ext. intros [k g] _. unfold P. cbn [fst snd].
    destruct k as [|a [|o' [|? ?]]]; cbn [drow]; try ring. destruct (Nat.eqb o' lab); ring. }
  destruct (filter P last) as [|[k g] [|? ?]] eqn:Ef; try discriminate.
  assert (HP : P (k, g) = true).
  { assert (Hin : In (k, g) (filter P last)) by (rewrite Ef; left; reflexivity). apply filter_In in Hin. tauto. }
  unfold P in HP. cbn [fst snd] in *.
  destruct k as [|a [|o' [|? ?]]]; try discriminate. inversion H; subst.
  cbn [SymMpo.lsum fst snd drow]. rewrite HP. ring.
Qed.
Lemma resort_spec (nprim : nat) (unsorted : bond) (last : outop R) : forall n i0 nb3,
  resort R nprim n i0 unsorted last = Some nb3 ->
  forall j, j < n -> exists i1 f, find_label R (nprim + (i0 + j)) last = Some (i1, f)
                                  /\ nth j nb3 [] = scale_outop R f (nth i1 unsorted []).
Proof.
  induction n as [|n IH]; intros i0 nb3 H j Hj; [lia|]. cbn [resort] in H.
  destruct (find_label R (nprim + i0) last) as [[i1 f]|] eqn:Ef; [|discriminate].
  destruct (resort R nprim n (S i0) unsorted last) as [rest|] eqn:Er; [|discriminate].
  inversion H; subst nb3. destruct j as [|j].
  - exists i1, f. rewrite Nat.add_0_r. split; [assumption|reflexivity].
  - destruct (IH (S i0) rest Er j) as (i1' & f' & E1 & E2); [lia|].
    exists i1', f'. replace (i0 + S j) with (S i0 + j) by lia. split; assumption.
Qed.
Lemma scale_outop_den (f : R) (oo : outop R) (Drow : key -> R) :
  lsum (scale_outop R f oo) (fun p => snd p *! Drow (fst p)) = f *! lsum oo (fun p => snd p *! Drow (fst p)).
Proof. unfold scale_outop. rewrite lsum_map. cbn [fst snd]. rewrite <- lsum_scale. apply lsum_ext. intros; ring. Qed.

(* Exchanging two adjacent sites: for every denotation D1 of the left bond, every operator i of the
   right bond keeps its two-site coefficient function with the two site columns exchanged
   (new string: old site-2 operator first).  Relative to admissible witnesses of the three inner
   decomposition steps; `swap_site = Some _` contains the code's assertions (final table, every label
   present) plus uniqueness of the labels. *)
Theorem swap_sound (nprim : nat) (b2 b3 nb2 nb3 : bond) (ws : list (wit R)) :
  swap_site R iszero nprim b2 b3 ws = Some (nb2, nb3) ->
  sweep_ok ws (dedup R iszero (swap_table R nprim b2 b3)) ->
  forall (D1 : den) i o1 o2 l, i < length b3 ->
    dnext R (dnext R D1 nb2) nb3 i (o1 :: o2 :: l) = dnext R (dnext R D1 b2) b3 i (o2 :: o1 :: l).
Proof.
  intros Hs Hok D1 i o1 o2 l Hi. unfold swap_site in Hs.
  set (t := dedup R iszero (swap_table R nprim b2 b3)) in *.
  pose proof (sweep_length ws t) as Hlen.
  pose proof (fun s r Hl => sweep_sound ws t D1 l s r Hl Hok) as HS.
  destruct (sweep R iszero ws t) as [bsl tf]. cbn [fst snd] in *.
  destruct bsl as [|nb2' [|nb3u [|[|last [|? ?]] [|? ?]]]]; try discriminate.
  destruct (final_okb R iszero tf && Nat.eqb (length nb3u) (length b3)) eqn:Ef; [|discriminate].
  apply andb_true_iff in Ef. destruct Ef as [Ef _]. apply final_okb_sound in Ef.
  destruct (resort R nprim (length b3) 0 nb3u last) as [nb3'|] eqn:Er; [|discriminate].
  inversion Hs; subst nb2' nb3'. clear Hs.
  destruct (resort_spec nprim nb3u last _ _ _ Er i Hi) as (i1 & f & Efl & Enth). cbn [Nat.add] in Efl.
  specialize (HS [o2; o1; nprim + i] [0]). cbn [length] in HS, Hlen. specialize (HS Hlen).
  cbn [rev app] in HS. rewrite Ef in HS. unfold t in HS. rewrite den_table_dedup in HS.
  change ([o2; o1; nprim + i] ++ [0]) with [o2; o1; nprim + i; 0] in HS.
  rewrite swap_table_den in HS by assumption. rewrite <- HS.
  unfold den_table. cbn [SymMpo.lsum fst snd dchain]. rewrite keqb_refl.
  transitivity (f *! dnext R (dnext R D1 nb2) nb3u i1 (o1 :: o2 :: l)).
  - cbn [dnext]. rewrite Enth. rewrite scale_outop_den. reflexivity.
  - change (dnext R (dnext R (dnext R D1 nb2) nb3u) [last] 0 (nprim + i :: o1 :: o2 :: l))
      with (lsum last (fun p => snd p *! drow R (dnext R (dnext R D1 nb2) nb3u) (o1 :: o2 :: l) (nprim + i) (fst p))).
    rewrite (find_label_den _ _ _ _ _ _ Efl). ring.
Qed.

(* ================================================================== site exchange at the level of the whole operator *)
Lemma resort_length (nprim : nat) (unsorted : bond) (last : outop R) : forall n i0 nb3,
  resort R nprim n i0 unsorted last = Some nb3 -> length nb3 = n.
Proof.
  induction n as [|n IH]; intros i0 nb3 H; cbn [resort] in H; [inversion H; reflexivity|].
  destruct (find_label R (nprim + i0) last) as [[i1 f]|]; [|discriminate].
  destruct (resort R nprim n (S i0) unsorted last) as [rest|] eqn:Er; [|discriminate].
  inversion H; subst. cbn [length]. f_equal. apply (IH _ _ Er).
Qed.
Lemma dchain_app (D : den) (b1 b2 : list bond) : dchain R D (b1 ++ b2) = dchain R (dchain R D b1) b2.
Proof. revert D. induction b1 as [|b b1 IH]; intros D; cbn [app dchain]; [reflexivity|apply IH]. Qed.

Definition swapped_at (o1 o2 k : nat) (D D' : den) : Prop :=
  forall i w l, length w = k -> D' i (w ++ o1 :: o2 :: l) = D i (w ++ o2 :: o1 :: l).
Lemma swapped_dnext o1 o2 k D D' b : swapped_at o1 o2 k D D' -> swapped_at o1 o2 (S k) (dnext R D b) (dnext R D' b).
Proof.
  intros H i w l Hw. destruct w as [|x w]; [discriminate|]. cbn [app dnext].
  apply lsum_ext. intros [key f] _. cbn [fst snd]. unfold drow.
  destruct key as [|a [|o' [|? ?]]]; try reflexivity.
  destruct (Nat.eqb o' x); [|reflexivity]. rewrite H by (cbn [length] in Hw; lia). reflexivity.
Qed.
Lemma swapped_dchain o1 o2 post : forall k D D',
  swapped_at o1 o2 k D D' -> swapped_at o1 o2 (k + length post) (dchain R D post) (dchain R D' post).
Proof.
  induction post as [|b post IH]; intros k D D' H; cbn [dchain length].
  - rewrite Nat.add_0_r. assumption.
  - replace (k + S (length post)) with (S k + length post) by lia. apply IH, swapped_dnext, H.
Qed.

(* try_swap_site on bonds (j, j+1, j+2) of an operator: the whole operator keeps its coefficient
   function with the operators of the two exchanged sites in the new order *)
Theorem swap_mpo_sound (nprim : nat) (pre post : list bond) (b2 b3 nb2 nb3 : bond) (ws : list (wit R)) :
  swap_site R iszero nprim b2 b3 ws = Some (nb2, nb3) ->
  sweep_ok ws (dedup R iszero (swap_table R nprim b2 b3)) ->
  forall (spre spost : list nat) (o1 o2 : nat), length spost = length post ->
    coeff R (pre ++ nb2 :: nb3 :: post) (spre ++ o2 :: o1 :: spost)
    = coeff R (pre ++ b2 :: b3 :: post) (spre ++ o1 :: o2 :: spost).
Proof.
  intros Hs Hok spre spost o1 o2 Hlen. unfold coeff. rewrite !dchain_app. cbn [dchain].
  rewrite !rev_app_distr. cbn [rev]. rewrite <- !app_assoc. cbn [app].
  set (D1 := dchain R (D0 R) pre).
  assert (H0 : swapped_at o1 o2 0 (dnext R (dnext R D1 b2) b3) (dnext R (dnext R D1 nb2) nb3)).
  { intros i w l Hw. destruct w; [|discriminate]. cbn [app].
    destruct (Nat.lt_ge_cases i (length b3)) as [Hi|Hi].
    - apply (swap_sound nprim b2 b3 nb2 nb3 ws Hs Hok D1 i o1 o2 l Hi).
    - assert (Hl : length nb3 = length b3).
      { unfold swap_site in Hs. destruct (sweep R iszero ws (dedup R iszero (swap_table R nprim b2 b3))) as [bsl tf].
        destruct bsl as [|x1 [|x2 [|[|x3 [|? ?]] [|? ?]]]]; try discriminate.
        destruct (final_okb R iszero tf && Nat.eqb (length x2) (length b3)); [|discriminate].
        destruct (resort R nprim (length b3) 0 x2 x3) as [r|] eqn:Er; [|discriminate].
        inversion Hs; subst. apply (resort_length _ _ _ _ _ _ Er). }
      cbn [dnext]. rewrite !nth_overflow by lia. reflexivity. }
  pose proof (swapped_dchain o1 o2 post 0 _ _ H0) as H1. cbn [Nat.add] in H1.
  apply (H1 0 (rev spost) (rev spre)). rewrite rev_length. assumption.
Qed.

(* ================================================================== swap_site with the Jordan-Wigner rule (abstract) *)
Lemma swap_table_shape (nprim : nat) (b2 b3 : bond) x :
  In x (swap_table R nprim b2 b3) -> exists a1 p q i, fst x = [a1; p; q; nprim + i; 0].
Proof.
  unfold swap_table. intros H. apply in_flat_map in H. destruct H as [[i oo] [_ H]]. cbn [fst snd] in H.
  apply in_flat_map in H. destruct H as [[k3 f3] [_ H]]. cbn [fst snd] in H.
  destruct k3 as [|a2 [|o2 [|? ?]]]; try (destruct H; fail).
  apply in_flat_map in H. destruct H as [[k2 f2] [_ H]]. cbn [fst snd] in H.
  destruct k2 as [|a1 [|o1 [|? ?]]]; try (destruct H; fail). destruct H as [<-|[]]. cbn [fst]. eauto.
Qed.
(* pairs of (new-first, new-second) operators occurring in the two-site table *)
Definition pairs_in (t : table) (dom : list (nat * nat)) : Prop :=
  forall x a1 p q lab z, In x t -> fst x = [a1; p; q; lab; z] -> In (p, q) dom.
Definition pair_eqb (a b : nat * nat) : bool := Nat.eqb (fst a) (fst b) && Nat.eqb (snd a) (snd b).
Lemma pair_eqb_spec a b : reflect (a = b) (pair_eqb a b).
Proof.
  destruct a as [a1 a2], b as [b1 b2]. unfold pair_eqb. cbn [fst snd].
  destruct (Nat.eqb_spec a1 b1), (Nat.eqb_spec a2 b2); constructor; congruence.
Qed.
Lemma lsum_pick_pair (dom : list (nat * nat)) (k : nat * nat) (F : nat * nat -> R) :
  NoDup dom -> In k dom -> lsum dom (fun s => if pair_eqb s k then F s else rO) = F k.
Proof.
  induction dom as [|s dom IH]; intros ND Hin; [destruct Hin|]. cbn [SymMpo.lsum].
  inversion ND as [|? ? Hn ND']; subst. destruct (pair_eqb_spec s k) as [->|Hne].
  - rewrite lsum_zero; [ring|]. intros s' Hs'. destruct (pair_eqb_spec s' k) as [->|]; [contradiction|reflexivity].
  - destruct Hin as [E|Hin]; [congruence|]. rewrite IH by assumption. ring.
Qed.

(* Exchange with the JW rule.  New string (latest site first): q' on the new second site, p' on the new first
   site.  The coefficient is the sum, over the operator pairs (p, q) that the rule maps to (p', q'), of
   sign * old coefficient of (p on the old second site, q on the old first site).  `dom` is any duplicate-free
   list containing the pairs that occur. *)
Theorem swap_jw_sound (nprim nprim' : nat) (phi : nat * nat -> nat * nat * R) (b2 b3 nb2 nb3 : bond)
        (ws : list (wit R)) (dom : list (nat * nat)) :
  nprim <= nprim' ->
  swap_site_jw R iszero nprim nprim' phi b2 b3 ws = Some (nb2, nb3) ->
  sweep_ok ws (map (jw_row R phi (nprim' - nprim)) (dedup R iszero (swap_table R nprim b2 b3))) ->
  NoDup dom -> pairs_in (swap_table R nprim b2 b3) dom ->
  forall (D1 : den) i p' q' l, i < length b3 ->
    dnext R (dnext R D1 nb2) nb3 i (q' :: p' :: l)
    = lsum dom (fun pq => if pair_eqb (fst (phi pq)) (p', q')
                          then snd (phi pq) *! dnext R (dnext R D1 b2) b3 i (fst pq :: snd pq :: l) else rO).
Proof.
  intros Hle Hs Hok NDd Hdom D1 i p' q' l Hi. unfold swap_site_jw in Hs.
  set (T := swap_table R nprim b2 b3) in *.
  set (t := map (jw_row R phi (nprim' - nprim)) (dedup R iszero T)) in *.
  pose proof (sweep_length ws t) as Hlen.
  pose proof (fun s r Hl => sweep_sound ws t D1 l s r Hl Hok) as HS.
  destruct (sweep R iszero ws t) as [bsl tf]. cbn [fst snd] in *.
  destruct bsl as [|nb2' [|nb3u [|[|last [|? ?]] [|? ?]]]]; try discriminate.
  destruct (final_okb R iszero tf && Nat.eqb (length nb3u) (length b3)) eqn:Ef; [|discriminate].
  apply andb_true_iff in Ef. destruct Ef as [Ef _]. apply final_okb_sound in Ef.
  destruct (resort R nprim' (length b3) 0 nb3u last) as [nb3'|] eqn:Er; [|discriminate].
  inversion Hs; subst nb2' nb3'. clear Hs.
  destruct (resort_spec nprim' nb3u last _ _ _ Er i Hi) as (i1 & f & Efl & Enth). cbn [Nat.add] in Efl.
  specialize (HS [p'; q'; nprim' + i] [0]). cbn [length] in HS, Hlen. specialize (HS Hlen).
  cbn [rev app] in HS. rewrite Ef in HS.
  change ([p'; q'; nprim' + i] ++ [0]) with [p'; q'; nprim' + i; 0] in HS.
  (* left-hand side: as in swap_sound *)
  assert (HL : dnext R (dnext R D1 nb2) nb3 i (q' :: p' :: l) = den_table R D1 t l [p'; q'; nprim' + i; 0]).
  { rewrite <- HS. unfold den_table. cbn [SymMpo.lsum fst snd dchain]. rewrite keqb_refl.
    transitivity (f *! dnext R (dnext R D1 nb2) nb3u i1 (q' :: p' :: l)).
    - cbn [dnext]. rewrite Enth. rewrite scale_outop_den. reflexivity.
    - change (dnext R (dnext R (dnext R D1 nb2) nb3u) [last] 0 (nprim' + i :: q' :: p' :: l))
        with (lsum last (fun p => snd p *! drow R (dnext R (dnext R D1 nb2) nb3u) (q' :: p' :: l) (nprim' + i) (fst p))).
      rewrite (find_label_den _ _ _ _ _ _ Efl). ring. }
  rewrite HL. clear HL HS.
  (* right-hand side: a linear functional of the deduplicated two-site table *)
  set (G := fun k : key => match k with
                           | [a1; p; q; lab; z] =>
                               if pair_eqb (fst (phi (p, q))) (p', q') && Nat.eqb (lab + (nprim' - nprim)) (nprim' + i) && Nat.eqb z 0
                               then snd (phi (p, q)) *! D1 a1 l else rO
                           | a :: rest => if keqb rest [p'; q'; nprim' + i; 0] then D1 a l else rO
                           | [] => rO
                           end).
  assert (H1 : den_table R D1 t l [p'; q'; nprim' + i; 0] = lsum T (fun x => snd x *! G (fst x))).
  { rewrite <- (dedup_lin G T). unfold t, den_table. rewrite lsum_map. apply lsum_ext. intros [k fx] _.
    unfold jw_row, G. cbn [fst snd].
    destruct k as [|a1 [|p [|q [|lab [|z [|? ?]]]]]]; cbn [fst snd];
      try (match goal with |- context [keqb ?r ?s] => destruct (keqb r s) end; ring); try ring.
    destruct (phi (p, q)) as [[p2 q2] c] eqn:Ephi. cbn [fst snd].
    rewrite keqb4'. destruct (pair_eqb_spec (p2, q2) (p', q')) as [E|Hne].
    - inversion E; subst p2 q2. rewrite !Nat.eqb_refl. cbn [andb].
      destruct (Nat.eqb (lab + (nprim' - nprim)) (nprim' + i)), (Nat.eqb z 0); cbn [andb]; ring.
    - assert (Hf : Nat.eqb p2 p' && Nat.eqb q2 q' = false).
      { destruct (Nat.eqb_spec p2 p'), (Nat.eqb_spec q2 q'); try reflexivity. subst. contradiction. }
      rewrite Hf. cbn [andb]. ring. }
  rewrite H1. clear H1.
  (* exchange the sums *)
  transitivity (lsum T (fun x => lsum dom (fun pq =>
      if pair_eqb (fst (phi pq)) (p', q')
      then snd (phi pq) *! (match fst x with
                            | a :: rest => if keqb rest [fst pq; snd pq; nprim + i; 0] then snd x *! D1 a l else rO
                            | [] => rO
                            end) else rO))).
  - apply lsum_ext. intros x Hx. destruct (swap_table_shape nprim b2 b3 x Hx) as (a1 & p & q & i0 & Ex).
    rewrite Ex. unfold G.
    set (F := fun pq : nat * nat => if pair_eqb (fst (phi pq)) (p', q')
        then snd (phi pq) *! (if keqb [p; q; nprim + i0; 0] [fst pq; snd pq; nprim + i; 0] then snd x *! D1 a1 l else rO) else rO).
    transitivity (F (p, q)).
    + unfold F. cbn [fst snd]. rewrite keqb4', !Nat.eqb_refl. cbn [andb].
      assert (El : Nat.eqb (nprim + i0 + (nprim' - nprim)) (nprim' + i) = Nat.eqb (nprim + i0) (nprim + i)).
      { destruct (Nat.eqb_spec (nprim + i0 + (nprim' - nprim)) (nprim' + i)), (Nat.eqb_spec (nprim + i0) (nprim + i)); try reflexivity; lia. }
      rewrite El. destruct (pair_eqb (fst (phi (p, q))) (p', q')); cbn [andb]; [|ring].
      destruct (Nat.eqb (nprim + i0) (nprim + i)); cbn [andb]; ring.
    + rewrite <- (lsum_pick_pair dom (p, q) F NDd (Hdom x a1 p q _ _ Hx Ex)).
      apply lsum_ext. intros [p0 q0] _. unfold F. cbn [fst snd].
      destruct (pair_eqb_spec (p0, q0) (p, q)) as [E|Hne].
      * inversion E; subst p0 q0. reflexivity.
      * rewrite keqb4'. assert (Hf : Nat.eqb p p0 && Nat.eqb q q0 = false).
        { destruct (Nat.eqb_spec p p0), (Nat.eqb_spec q q0); try reflexivity. subst. contradiction. }
        rewrite Hf. cbn [andb]. destruct (pair_eqb (fst (phi (p0, q0))) (p', q')); ring.
  - rewrite lsum_swap. apply lsum_ext. intros [p q] _. cbn [fst snd].
    destruct (pair_eqb (fst (phi (p, q))) (p', q')); [|apply lsum_zero; reflexivity].
    rewrite lsum_scale. f_equal. rewrite <- (swap_table_den nprim b2 b3 D1 l q p i Hi). reflexivity.
Qed.

(* ================================================================== the pivoted form  Gamma.P = q.r  *)
Lemma index_of_nth k p : In k p -> nth (index_of k p) p 0 = k /\ index_of k p < length p.
Proof.
  induction p as [|x p IH]; intros H; [destruct H|]. cbn [index_of].
  destruct (Nat.eqb_spec x k) as [->|Hne]; cbn [nth length]; [split; [reflexivity|lia]|].
  destruct H as [H|H]; [contradiction|]. destruct (IH H) as [H1 H2]. split; [assumption|lia].
Qed.
Lemma in_enum_from_nth {A} (l : list A) (d : A) : forall n j c, In (j, c) (enum_from n l) -> n <= j < n + length l /\ c = nth (j - n) l d.
Proof.
  induction l as [|a l IH]; intros n j c H; cbn [enum_from] in H; [destruct H|].
  destruct H as [H|H].
  - inversion H; subst. rewrite Nat.sub_diag. cbn [length nth]. split; [lia|reflexivity].
  - destruct (IH _ _ _ H) as [H1 H2]. cbn [length]. split; [lia|].
    replace (j - n) with (S (j - S n)) by lia. cbn [nth]. assumption.
Qed.
Lemma mget_unpivot (r : mat R) (p : list nat) (n l j : nat) :
  j < n -> mget R (unpivot R r p n) l j = mget R r l (index_of j p).
Proof.
  intros Hj. unfold mget, unpivot.
  destruct (Nat.lt_ge_cases l (length r)) as [Hl|Hl].
  - rewrite (nth_indep _ [] (map (fun k => nth (index_of k p) (@nil R) rO) (seq 0 n))) by (rewrite map_length; assumption).
    rewrite (map_nth (fun rowl => map (fun k => nth (index_of k p) rowl rO) (seq 0 n)) r [] l).
    rewrite (nth_indep _ rO (nth (index_of 0 p) (nth l r []) rO)) by (rewrite map_length, seq_length; assumption).
    rewrite (map_nth (fun k => nth (index_of k p) (nth l r []) rO) (seq 0 n) 0 j).
    rewrite seq_nth by assumption. reflexivity.
  - rewrite (nth_overflow (map _ r)) by (rewrite map_length; assumption).
    rewrite (nth_overflow r) by assumption.
    transitivity (r0 R); [destruct j; reflexivity|destruct (index_of j p); reflexivity].
Qed.
(* Gamma[:, p] = q . r  with p onto the column positions  ==>  Gamma = q . r[:, argsort p] *)
Theorem qr_pivoted_exact (t : table) (qrows qcols : list key) (q r : mat R) (p : list nat) (rank : nat) :
  (forall k, k < length qcols -> In k p) ->
  (forall i rkey m, In (i, rkey) (enum_from 0 qrows) -> m < length p ->
     gamma R t rkey (nth (nth m p 0) qcols []) = lsum (seq 0 rank) (fun l => mget R q i l *! mget R r l m)) ->
  qr_exact t qrows qcols q (unpivot R r p (length qcols)) rank.
Proof.
  intros Hp H i rkey j c Hi Hj.
  destruct (in_enum_from_nth qcols [] _ _ _ Hj) as [Hjl Hc]. rewrite Nat.sub_0_r in Hc. cbn [Nat.add] in Hjl.
  destruct (index_of_nth j p (Hp j (proj2 Hjl))) as [Hn Hm].
  specialize (H i rkey (index_of j p) Hi Hm). rewrite Hn in H. rewrite Hc, H.
  unfold qr_prod. apply lsum_ext. intros l _. rewrite mget_unpivot by lia. reflexivity.
Qed.

(* ================================================================== named forms used by Props/C01.v *)
Theorem one_site_graph_sound (t : table) (rsel csel : list key) (D : den) l o r :
  NoDup rsel -> NoDup csel -> covers t rsel csel ->
  den_table R (dnext R D (fst (decompose_graph R t rsel csel))) (snd (decompose_graph R t rsel csel)) (o :: l) r
  = den_table R D t l (o :: r).
Proof. intros H1 H2 H3. apply (step_den t (WG R rsel csel) D l o r). cbn [step_ok]. auto. Qed.

Theorem one_site_qr_sound (t : table) (qrows qcols : list key) (q r2 : mat R) (rank : nat) (D : den) l o r :
  NoDup qrows -> NoDup qcols -> incl (map (rk R) t) qrows -> incl (map (ck R) t) qcols ->
  qr_exact t qrows qcols q r2 rank ->
  den_table R (dnext R D (qr_out_ops R iszero qrows q rank)) (qr_new_table R iszero qcols r2 rank) (o :: l) r
  = den_table R D t l (o :: r).
Proof. intros H1 H2 H3 H4 H5. apply (step_den t (WQ R qrows qcols q r2 rank) D l o r). cbn [step_ok]. auto. Qed.

Theorem construct_sound_offset (terms : table) (offset : R) (idstr : key) (ws : list (wit R)) (bs : list bond) (n : nat) :
  0 < n -> (forall x, In x terms -> length (fst x) = n) -> length idstr = n ->
  (length (terms_to_table R iszero terms (ropp R offset) idstr) <> 1 ->
     length ws = n /\ sweep_ok ws (extend R (terms_to_table R iszero terms (ropp R offset) idstr))) ->
  construct R iszero terms (ropp R offset) idstr ws = Some bs ->
  forall s, coeff R bs s = coeffT R terms s -! (if keqb s idstr then offset else rO).
Proof.
  intros H1 H2 H3 H4 H5 s. rewrite (construct_sound terms (ropp R offset) idstr ws bs n H1 H2 H3 H4 H5 s).
  destruct (keqb s idstr); ring.
Qed.

End Proofs.

(* ================================================================== the executed instances satisfy the
   contract of the exact-zero test *)
Lemma z_zero_sound : forall x : ZRing, z_zero x = true -> x = r0 ZRing.
Proof. intros x H. apply Z.eqb_eq in H. exact H. Qed.
Lemma gi_zero_sound : forall x : GiRing, gi_zero x = true -> x = r0 GiRing.
Proof.
  intros [a b] H. unfold gi_zero in H. cbn [fst snd] in H. apply andb_true_iff in H. destruct H as [H1 H2].
  apply Z.eqb_eq in H1, H2. subst. reflexivity.
Qed.

(* the graph step does not use the zero test *)
Theorem one_site_graph_sound_any (R : CRing) (t : table R) (rsel csel : list key) (D : den R) l o r :
  NoDup rsel -> NoDup csel -> covers R t rsel csel ->
  den_table R (dnext R D (fst (decompose_graph R t rsel csel))) (snd (decompose_graph R t rsel csel)) (o :: l) r
  = den_table R D t l (o :: r).
Proof.
  apply (one_site_graph_sound R (fun _ => false)). intros x H. discriminate H.
Qed.

(* ================================================================== second wave: bond dimensions *)
Lemma in_enum_nth {A} (l : list A) (d : A) : forall n i, i < length l -> In (n + i, nth i l d) (enum_from n l).
Proof.
  induction l as [|a l IH]; intros n i Hi; cbn [length] in Hi; [lia|]. cbn [enum_from].
  destruct i as [|i]; cbn [nth].
  - left. f_equal. lia.
  - right. replace (n + S i) with (S n + i) by lia. apply IH. lia.
Qed.

Section BondDims.
Variable R : CRing.
Variable iszero : R -> bool.
Local Notation table := (table R).
Local Notation bond := (bond R).

Lemma graph_bond_size (t : table) (rsel csel : list key) :
  length (fst (decompose_graph R t rsel csel)) = cover_size rsel csel.
Proof. unfold decompose_graph, out_rows, out_cols, cover_size. cbn [fst]. now rewrite app_length, !map_length. Qed.

Definition is_min_cover (t : table) (rsel csel : list key) : Prop :=
  forall rs cs, covers R t rs cs -> cover_size rsel csel <= cover_size rs cs.

(* one cut: with a minimum cover the new bond has at most as many operators as there are distinct row
   keys (previous bond index, operator on this site) and at most as many as distinct column keys *)
Lemma bond_le_rows_step (t : table) rsel csel (rs0 : list key) :
  is_min_cover t rsel csel -> (forall x, In x t -> In (rk R x) rs0) ->
  length (fst (decompose_graph R t rsel csel)) <= length rs0.
Proof.
  intros Hmin H. rewrite graph_bond_size. specialize (Hmin rs0 []). unfold cover_size in *. cbn [length] in Hmin.
  rewrite Nat.add_0_r in Hmin. apply Hmin. intros x Hx. left. apply H, Hx.
Qed.
Lemma bond_le_cols_step (t : table) rsel csel (cs0 : list key) :
  is_min_cover t rsel csel -> (forall x, In x t -> In (ck R x) cs0) ->
  length (fst (decompose_graph R t rsel csel)) <= length cs0.
Proof.
  intros Hmin H. rewrite graph_bond_size. specialize (Hmin [] cs0). unfold cover_size in *. cbn [length] in Hmin.
  apply Hmin. intros x Hx. right. apply H, Hx.
Qed.

(* the part of a row after the bond index *)
Definition tails (t : table) : list key := map (fun x => skipn 1 (fst x)) t.
Definition same_set (A B : list key) : Prop := forall c, In c A <-> In c B.

Lemma skipn_1_skipn {A} n (l : list A) : skipn 1 (skipn n l) = skipn (S n) l.
Proof. revert l. induction n as [|n IH]; intros l; [reflexivity|]. destruct l as [|a l]; [reflexivity|]. cbn [skipn]. apply IH. Qed.
Lemma ck_tails (t : table) : map (ck R) t = map (skipn 1) (tails t).
Proof. unfold tails. rewrite map_map. apply map_ext. intros x. unfold ck. symmetry. apply (skipn_1_skipn 1). Qed.

(* the remainders of the rows are exactly the old column keys: nothing is lost, nothing is invented *)
Lemma step_tails (t : table) rsel csel :
  covers R t rsel csel -> incl csel (map (ck R) t) ->
  same_set (tails (snd (decompose_graph R t rsel csel))) (map (ck R) t).
Proof.
  intros Hcov Hsub c. unfold decompose_graph, tails. cbn [snd]. rewrite map_app, in_app_iff. split.
  - intros [H|H].
    + unfold new_rows in H. rewrite in_map_iff in H. destruct H as [y [E Hy]]. apply in_flat_map in Hy.
      destruct Hy as [ir [_ Hy]]. apply in_map_iff in Hy. destruct Hy as [x [Ex Hx]]. apply filter_In in Hx.
      subst y. cbn [fst skipn] in E. subst c. apply in_map, Hx.
    + unfold new_cols in H. rewrite map_map in H. cbn [fst skipn] in H. apply in_map_iff in H. destruct H as [jc [E Hjc]].
      subst c. destruct jc as [j c']. apply in_enum_from in Hjc. apply Hsub. cbn [snd]. tauto.
  - intros H. apply in_map_iff in H. destruct H as [x [E Hx]]. subst c. destruct (Hcov x Hx) as [Hr|Hc].
    + left. apply In_nth with (d := []) in Hr. destruct Hr as [i [Hi Hn]].
      apply in_map_iff. exists (i :: ck R x, fac R x). split; [reflexivity|].
      unfold new_rows. apply in_flat_map. exists (i, rk R x). split.
      * rewrite <- Hn. apply (in_enum_nth rsel [] 0 i Hi).
      * cbn [fst snd]. apply in_map_iff. exists x. split; [reflexivity|]. apply filter_In. split; [assumption|apply keqb_refl].
    + right. apply In_nth with (d := []) in Hc. destruct Hc as [j [Hj Hn]].
      unfold new_cols. rewrite map_map. cbn [fst skipn]. apply in_map_iff. exists (length rsel + j, ck R x). split; [reflexivity|].
      rewrite <- Hn. apply (in_enum_nth csel [] (length rsel) j Hj).
Qed.

(* sweeps of graph steps whose witnesses are minimum covers inside the columns of their tables *)
Fixpoint min_sweep (ws : list (wit R)) (t : table) : Prop :=
  match ws with
  | [] => True
  | WG _ rs cs :: r => covers R t rs cs /\ incl cs (map (ck R) t) /\ is_min_cover t rs cs
                       /\ min_sweep r (snd (decompose_graph R t rs cs))
  | WQ _ _ _ _ _ _ :: _ => False
  end.

(* every cut: the bond after site i+j+1 has as many operators as its witness cover has vertices ... *)
Theorem sweep_bond_dims (ws : list (wit R)) : forall t, graph_sweep R ws = true ->
  bond_dims R (fst (sweep R iszero ws t))
  = map (fun w => match w with WG _ rs cs => cover_size rs cs | WQ _ _ _ _ _ _ => 0 end) ws.
Proof.
  induction ws as [|w ws IH]; intros t H; [reflexivity|]. destruct w as [rs cs|]; [|discriminate].
  cbn [sweep fst snd bond_dims map step]. f_equal; [apply graph_bond_size|]. apply IH, H.
Qed.

(* ... and at most as many as there are distinct right remainders (sites beyond the cut) in the ORIGINAL table:
   cs0 is any list containing the remainder of every original row *)
Theorem bond_le_cols (ws : list (wit R)) : forall (t t0 : table) (i : nat),
  same_set (tails t) (map (fun x => skipn (S i) (fst x)) t0) -> min_sweep ws t ->
  forall j (cs0 : list key), j < length ws ->
    (forall x, In x t0 -> In (skipn (S (S (i + j))) (fst x)) cs0) ->
    length (nth j (fst (sweep R iszero ws t)) []) <= length cs0.
Proof.
  induction ws as [|w ws IH]; intros t t0 i HJ Hm j cs0 Hj Hcs; cbn [length] in Hj; [lia|].
  destruct w as [rs cs|]; [|destruct Hm]. destruct Hm as (Hcov & Hsub & Hmin & Hrest).
  assert (Hck : forall c, In c (map (ck R) t) <-> In c (map (fun x => skipn (S (S i)) (fst x)) t0)).
  { intros c. rewrite ck_tails. split; intros H; apply in_map_iff in H; destruct H as [y [E Hy]]; subst c.
    - apply HJ in Hy. apply in_map_iff in Hy. destruct Hy as [x [E Hx]]. subst y. rewrite skipn_1_skipn.
      apply in_map_iff. exists x. tauto.
    - rewrite <- skipn_1_skipn. apply in_map. apply HJ. apply in_map_iff. exists y. tauto. }
  cbn [sweep fst snd step]. destruct j as [|j]; cbn [nth].
  - apply bond_le_cols_step; [assumption|]. intros x Hx. rewrite Nat.add_0_r in Hcs.
    assert (H : In (ck R x) (map (ck R) t)) by (apply in_map, Hx). apply Hck in H.
    apply in_map_iff in H. destruct H as [y [E Hy]]. rewrite <- E. apply Hcs, Hy.
  - apply (IH _ t0 (S i)); [| assumption | lia |].
    + intros c. rewrite (step_tails t rs cs Hcov Hsub c). apply Hck.
    + intros x Hx. replace (S i + j) with (i + S j) by lia. apply Hcs, Hx.
Qed.

(* rows: at every cut the bound is the number of distinct row keys of the CURRENT table, i.e. distinct pairs
   (operator of the previous bond, operator on this site).  For the first cut these are the distinct left
   parts of the original table.  The bound by the distinct left parts of the ORIGINAL table at later cuts
   needs Koenig's matching (each selected column matched to an unselected row) and is NOT proved here:
   bond_le_left_parts_partial. *)
Theorem bond_le_rows_current (ws : list (wit R)) : forall (t : table),
  min_sweep ws t -> forall j (rs0 : list key), j < length ws ->
    (forall x, In x (nth j (sweep_tables R iszero ws t) []) -> In (rk R x) rs0) ->
    length (nth j (fst (sweep R iszero ws t)) []) <= length rs0.
Proof.
  induction ws as [|w ws IH]; intros t Hm j rs0 Hj Hrs; cbn [length] in Hj; [lia|].
  destruct w as [rs cs|]; [|destruct Hm]. destruct Hm as (Hcov & Hsub & Hmin & Hrest).
  cbn [sweep fst snd step sweep_tables] in *. destruct j as [|j]; cbn [nth] in *.
  - apply bond_le_rows_step; assumption.
  - apply IH; [assumption|lia|assumption].
Qed.
Theorem bond_le_left_parts_partial (ws : list (wit R)) (t0 : table) (ls0 : list key) :
  min_sweep ws t0 -> 0 < length ws -> (forall x, In x t0 -> In (firstn 2 (fst x)) ls0) ->
  length (nth 0 (fst (sweep R iszero ws t0)) []) <= length ls0.
Proof.
  intros Hm Hl H. apply (bond_le_rows_current ws t0 Hm 0 ls0 Hl).
  destruct ws; [cbn [length] in Hl; lia|]. cbn [sweep_tables nth]. exact H.
Qed.

End BondDims.

(* ================================================================== second wave: quantum-number labels *)
Lemma nth_map_in {A B} (f : A -> B) (l : list A) i dA dB : i < length l -> nth i (map f l) dB = f (nth i l dA).
Proof. revert i. induction l as [|a l IH]; intros i Hi; cbn [length] in Hi; [lia|]. destruct i; cbn [map nth]; [reflexivity|]. apply IH. lia. Qed.

Section QnLabels.
Variable R : CRing.
Variable iszero : R -> bool.
Hypothesis iszero_sound : forall x, iszero x = true -> x = r0 R.
Variable pq : nat -> Z.
Local Open Scope Z_scope.
Local Notation table := (table R).
Local Notation bond := (bond R).

(* a row (a :: rest): label of bond operator a + charge of the remaining operators = total charge q *)
Definition row_inv (q : Z) (lab : list Z) (x : trow R) : Prop :=
  exists a rest, fst x = a :: rest /\ nth a lab 0 + charge pq rest = q.
Definition tab_inv (q : Z) (lab : list Z) (t : table) : Prop := forall x, In x t -> row_inv q lab x.
(* every summand of an out-op carries the label stored for the out-op (the label read off the first summand
   is the label of all of them): these are labels of the operator to the LEFT of the bond *)
Definition outop_uniform (lab : list Z) (oo : outop R) : Prop :=
  forall p, In p oo -> exists a o, fst p = [a; o] /\ nth a lab 0 + pq o = qn_outop R pq lab oo.
Fixpoint labels_ok (lab : list Z) (bs : list bond) : Prop :=
  match bs with
  | [] => True
  | b :: r => (forall oo, In oo b -> outop_uniform lab oo) /\ labels_ok (bond_labels R pq lab b) r
  end.
Fixpoint qn_sweep (ws : list (wit R)) (t : table) : Prop :=
  match ws with
  | [] => True
  | WG _ rs cs :: r => incl rs (map (rk R) t) /\ cols_nonempty R t rs cs = true
                       /\ qn_sweep r (snd (decompose_graph R t rs cs))
  | WQ _ _ _ _ _ _ :: _ => False
  end.

Lemma key_shape (k : key) : (2 <= length k)%nat -> exists a o, k = a :: o :: skipn 2 k /\ firstn 2 k = [a; o].
Proof. destruct k as [|a [|o k]]; cbn [length]; try lia. intros _. exists a, o. split; reflexivity. Qed.
Lemma charge_cons o k : charge pq (o :: k) = pq o + charge pq k.
Proof. reflexivity. Qed.
Lemma charge_app k1 k2 : charge pq (k1 ++ k2) = charge pq k1 + charge pq k2.
Proof. induction k1 as [|o k1 IH]; cbn [app]; [reflexivity|]. rewrite !charge_cons, IH. lia. Qed.
Lemma nth_bond_labels lab (b : bond) i : nth i (bond_labels R pq lab b) 0 = qn_outop R pq lab (nth i b []).
Proof. unfold bond_labels. change 0 with (qn_outop R pq lab []) at 1. apply map_nth. Qed.
Lemma row_inv_shape q lab (x : trow R) a o :
  row_inv q lab x -> fst x = a :: o :: skipn 2 (fst x) -> nth a lab 0 + pq o + charge pq (ck R x) = q.
Proof.
  intros (a' & rest & E & H) Es. rewrite Es in E. injection E as E1 E2. subst a' rest. rewrite charge_cons in H. unfold ck. cbn [skipn] in *. lia.
Qed.
Lemma cols_nonempty_sound (t : table) rs cs c :
  cols_nonempty R t rs cs = true -> In c cs ->
  exists x0 l, filter (fun x => keqb (ck R x) c && negb (memb (rk R x) rs)) t = x0 :: l.
Proof.
  unfold cols_nonempty. intros H Hc. rewrite forallb_forall in H. specialize (H c Hc). apply existsb_exists in H.
  destruct H as [x [Hx HP]].
  destruct (filter (fun x => keqb (ck R x) c && negb (memb (rk R x) rs)) t) as [|x0 l] eqn:Ef; [|eauto].
  assert (Hin : In x (filter (fun x => keqb (ck R x) c && negb (memb (rk R x) rs)) t)) by (apply filter_In; tauto).
  rewrite Ef in Hin. destruct Hin.
Qed.

Lemma graph_step_labels q lab (t : table) rs cs :
  (forall x, In x t -> (2 <= length (fst x))%nat) -> tab_inv q lab t ->
  incl rs (map (rk R) t) -> cols_nonempty R t rs cs = true ->
  (forall oo, In oo (fst (decompose_graph R t rs cs)) -> outop_uniform lab oo)
  /\ tab_inv q (bond_labels R pq lab (fst (decompose_graph R t rs cs))) (snd (decompose_graph R t rs cs)).
Proof.
  intros Hlen Hinv Hrs Hne. unfold decompose_graph. cbn [fst snd].
  (* label of the complementary operator of a selected column *)
  assert (Hcol : forall c, In c cs ->
            let oo := map (fun x => (rk R x, fac R x)) (filter (fun x => keqb (ck R x) c && negb (memb (rk R x) rs)) t) in
            qn_outop R pq lab oo + charge pq c = q /\ outop_uniform lab oo).
  { intros c Hc oo. destruct (cols_nonempty_sound t rs cs c Hne Hc) as (x0 & l & Ef).
    assert (Hall : forall x, In x (filter (fun x => keqb (ck R x) c && negb (memb (rk R x) rs)) t) ->
              exists a o, rk R x = [a; o] /\ nth a lab 0 + pq o + charge pq c = q).
    { intros x Hx. apply filter_In in Hx. destruct Hx as [Hx HP]. apply andb_true_iff in HP. destruct HP as [HP _].
      destruct (keqb_spec (ck R x) c) as [Ec|]; [|discriminate].
      destruct (key_shape (fst x) (Hlen x Hx)) as (a & o & Es & Ef2). exists a, o. split; [exact Ef2|].
      rewrite <- Ec. apply (row_inv_shape q lab x a o (Hinv x Hx) Es). }
    assert (Hq : qn_outop R pq lab oo + charge pq c = q).
    { unfold oo. rewrite Ef. cbn [map qn_outop fst].
      destruct (Hall x0) as (a & o & E1 & E2); [rewrite Ef; left; reflexivity|]. rewrite E1. exact E2. }
    split; [exact Hq|]. intros p Hp. unfold oo in Hp. apply in_map_iff in Hp. destruct Hp as [x [Ex Hx]]. subst p. cbn [fst].
    destruct (Hall x Hx) as (a & o & E1 & E2). exists a, o. split; [exact E1|]. fold oo. lia. }
  split.
  - intros oo Hoo. apply in_app_or in Hoo. destruct Hoo as [Hoo|Hoo].
    + unfold out_rows in Hoo. apply in_map_iff in Hoo. destruct Hoo as [r [E Hr]]. subst oo.
      apply Hrs in Hr. apply in_map_iff in Hr. destruct Hr as [x [Ex Hx]].
      destruct (key_shape (fst x) (Hlen x Hx)) as (a & o & Es & Ef). unfold rk in Ex. rewrite Ef in Ex. subst r.
      intros p [<-|[]]. exists a, o. split; reflexivity.
    + unfold out_cols in Hoo. apply in_map_iff in Hoo. destruct Hoo as [c [E Hc]]. subst oo. apply (Hcol c Hc).
  - intros y Hy. apply in_app_or in Hy. destruct Hy as [Hy|Hy].
    + unfold new_rows in Hy. apply in_flat_map in Hy. destruct Hy as [[i r] [Hir Hy]]. cbn [fst snd] in Hy.
      apply in_map_iff in Hy. destruct Hy as [x [Ey Hx]]. apply filter_In in Hx. destruct Hx as [Hx Hr].
      destruct (keqb_spec (rk R x) r) as [Er|]; [|discriminate]. subst y.
      destruct (in_enum_from_nth rs [] _ _ _ Hir) as [Hi En]. rewrite Nat.sub_0_r in En. cbn [Nat.add] in Hi.
      exists i, (ck R x). split; [reflexivity|]. rewrite nth_bond_labels.
      rewrite app_nth1 by (unfold out_rows; rewrite map_length; lia).
      unfold out_rows.
      match goal with |- context [@nth ?A i ?m ?d] => assert (Enth : @nth A i m d = [(r, r1 R)]) end.
      { etransitivity; [apply (nth_map_in (fun r0 : key => [(r0, r1 R)]) rs i [] []); lia|]. rewrite <- En. reflexivity. }
      rewrite Enth.
      destruct (key_shape (fst x) (Hlen x Hx)) as (a & o & Es & Ef). unfold rk in Er. rewrite Ef in Er. subst r.
      cbn [qn_outop fst]. apply (row_inv_shape q lab x a o (Hinv x Hx) Es).
    + unfold new_cols in Hy. apply in_map_iff in Hy. destruct Hy as [[j c] [Ey Hjc]]. cbn [fst snd] in Ey. subst y.
      destruct (in_enum_from_nth cs [] _ _ _ Hjc) as [Hj En].
      exists j, c. split; [reflexivity|]. rewrite nth_bond_labels.
      rewrite app_nth2 by (unfold out_rows; rewrite map_length; lia).
      unfold out_rows at 1. rewrite map_length. unfold out_cols.
      set (g := fun c0 : key => map (fun x => (rk R x, fac R x)) (filter (fun x => keqb (ck R x) c0 && negb (memb (rk R x) rs)) t)).
      match goal with |- context [@nth ?A (j - length rs) ?m ?d] => assert (Enth : @nth A (j - length rs) m d = g c) end.
      { etransitivity; [apply (nth_map_in g cs (j - length rs) [] []); lia|]. rewrite <- En. reflexivity. }
      rewrite Enth. assert (Hc : In c cs) by (rewrite En; apply nth_In; lia).
      apply (proj1 (Hcol c Hc)).
Qed.

Lemma last_cons {A} (l : list A) : forall (a d : A), last (a :: l) d = last l a.
Proof.
  induction l as [|b l IH]; intros a d; [reflexivity|].
  change (last (a :: b :: l) d) with (last (b :: l) d). rewrite (IH b d), (IH b a). reflexivity.
Qed.

(* all rows share the total charge q  ==>  along the whole graph sweep every bond label is well defined
   (all summands agree) and the remaining table stays consistent with the labels of the last bond *)
Theorem sweep_qn_labels (ws : list (wit R)) : forall (t : table) (lab : list Z) (q : Z),
  (forall x, In x t -> (length ws + 1 <= length (fst x))%nat) -> tab_inv q lab t -> qn_sweep ws t ->
  labels_ok lab (fst (sweep R iszero ws t))
  /\ tab_inv q (last (labels_chain R pq lab (fst (sweep R iszero ws t))) lab) (snd (sweep R iszero ws t)).
Proof.
  induction ws as [|w ws IH]; intros t lab q Hlen Hinv Hs; [split; [exact I|exact Hinv]|].
  destruct w as [rs cs|]; [|destruct Hs]. destruct Hs as (Hrs & Hne & Hrest).
  cbn [sweep fst snd step labels_chain labels_ok].
  assert (Hlen2 : forall x, In x t -> (2 <= length (fst x))%nat) by (intros x Hx; specialize (Hlen x Hx); cbn [length] in Hlen; lia).
  destruct (graph_step_labels q lab t rs cs Hlen2 Hinv Hrs Hne) as [Hu Hinv'].
  assert (Hlen' : forall y, In y (snd (decompose_graph R t rs cs)) -> (length ws + 1 <= length (fst y))%nat).
  { intros y Hy. unfold decompose_graph in Hy. cbn [snd] in Hy. apply in_app_or in Hy. destruct Hy as [Hy|Hy].
    - unfold new_rows in Hy. apply in_flat_map in Hy. destruct Hy as [ir [_ Hy]]. apply in_map_iff in Hy.
      destruct Hy as [x [Ey Hx]]. apply filter_In in Hx. destruct Hx as [Hx _]. subst y. cbn [fst length].
      unfold ck. rewrite skipn_length. specialize (Hlen x Hx). cbn [length] in Hlen. lia.
    - unfold new_cols in Hy. apply in_map_iff in Hy. destruct Hy as [[j c] [Ey Hjc]]. subst y. cbn [fst snd length].
      apply in_enum_from in Hjc. destruct Hjc as [_ Hc].
      destruct (cols_nonempty_sound t rs cs c Hne Hc) as (x0 & l & Ef).
      assert (Hx0 : In x0 (filter (fun x => keqb (ck R x) c && negb (memb (rk R x) rs)) t)) by (rewrite Ef; left; reflexivity).
      apply filter_In in Hx0. destruct Hx0 as [Hx0 HP]. apply andb_true_iff in HP. destruct HP as [HP _].
      destruct (keqb_spec (ck R x0) c) as [<-|]; [|discriminate].
      unfold ck. rewrite skipn_length. specialize (Hlen x0 Hx0). cbn [length] in Hlen. lia. }
  destruct (IH _ _ q Hlen' Hinv' Hrest) as [H1 H2]. split; [split; assumption|].
  rewrite last_cons. exact H2.
Qed.

Lemma fast_path_labels ops f : forall l0, ops <> [] ->
  labels_ok [l0] (fast_path R ops f)
  /\ nth 0 (last (labels_chain R pq [l0] (fast_path R ops f)) [l0]) 0 = l0 + charge pq ops.
Proof.
  induction ops as [|o ops IH]; intros l0 Hne; [congruence|]. destruct ops as [|o2 ops].
  - cbn [fast_path labels_ok labels_chain bond_labels map last qn_outop fst nth charge fold_right]. split; [|lia].
    split; [|exact I]. intros oo [<-|[]] p [<-|[]]. exists 0%nat, o. split; reflexivity.
  - change (fast_path R (o :: o2 :: ops) f) with ([[([0; o], r1 R)]] :: fast_path R (o2 :: ops) f)%nat.
    cbn [labels_ok labels_chain]. rewrite last_cons.
    assert (E : bond_labels R pq [l0] [[([0%nat; o], r1 R)]] = [l0 + pq o]) by reflexivity. rewrite E.
    destruct (IH (l0 + pq o)) as [H1 H2]; [discriminate|]. split.
    + split; [|exact H1]. intros oo [<-|[]] p [<-|[]]. exists 0%nat, o. split; reflexivity.
    + rewrite H2. rewrite (charge_cons o (o2 :: ops)). lia.
Qed.

(* mpo_qn_labels: all terms share the total charge q (identity index 0 uncharged) => the labels the
   construction assigns are labels of the left parts (every summand of every bond operator carries the
   stored label) and qntot = q.  Graph algorithms and the fast path. *)
Theorem mpo_qn_labels (terms : table) (const : R) (idstr : key) (ws : list (wit R)) (bs : list bond) (q : Z) :
  pq 0%nat = 0 -> (0 < length ws)%nat ->
  (forall x, In x (terms_to_table R iszero terms const idstr) -> length (fst x) = length ws /\ charge pq (fst x) = q) ->
  (length (terms_to_table R iszero terms const idstr) <> 1%nat ->
     qn_sweep ws (extend R (terms_to_table R iszero terms const idstr))) ->
  construct R iszero terms const idstr ws = Some bs ->
  labels_ok [0] bs /\ qntot_of R pq bs = q.
Proof.
  intros Hp0 Hn Hrows Hws Hc. unfold construct in Hc. set (t0 := terms_to_table R iszero terms const idstr) in *.
  assert (Hgen : length t0 <> 1%nat ->
            (if final_okb R iszero (snd (sweep R iszero ws (extend R t0))) then Some (fst (sweep R iszero ws (extend R t0))) else None) = Some bs ->
            labels_ok [0] bs /\ qntot_of R pq bs = q).
  { intros H1 Hc'. destruct (final_okb R iszero (snd (sweep R iszero ws (extend R t0)))) eqn:Ef; [|discriminate].
    inversion Hc'; subst bs. apply (final_okb_sound R iszero iszero_sound) in Ef.
    destruct (sweep_qn_labels ws (extend R t0) [0] q) as [H2 H3].
    - intros y Hy. unfold extend in Hy. apply in_map_iff in Hy. destruct Hy as [[k f] [<- Hx]].
      destruct (Hrows (k, f) Hx) as [Hl _]. cbn [fst length] in *.
      rewrite app_length. cbn [length]. lia.
    - intros y Hy. unfold extend in Hy. apply in_map_iff in Hy. destruct Hy as [[k f] [<- Hx]].
      destruct (Hrows (k, f) Hx) as [_ Hq]. cbn [fst] in *.
      exists 0%nat, (k ++ [0%nat]). split; [reflexivity|]. rewrite charge_app. cbn [nth charge fold_right]. lia.
    - apply Hws, H1.
    - split; [exact H2|]. rewrite Ef in H3. destruct (H3 _ (or_introl eq_refl)) as (a & rest & E & H4).
      cbn [fst] in E. inversion E; subst a rest. unfold qntot_of. cbn [charge fold_right] in H4. lia. }
  destruct t0 as [|[ops f] [|y t1]] eqn:Et.
  - apply Hgen; [discriminate|exact Hc].
  - inversion Hc; subst bs. destruct (Hrows (ops, f) (or_introl eq_refl)) as [Hl Hq]. cbn [fst] in Hl, Hq.
    assert (Hne : ops <> []) by (destruct ops; [cbn [length] in Hl; lia|discriminate]).
    destruct (fast_path_labels ops f 0 Hne) as [H1 H2]. split; [exact H1|]. unfold qntot_of. rewrite H2. lia.
  - apply Hgen; [cbn [length]; lia|exact Hc].
Qed.

Lemma qn_sweepb_sound (ws : list (wit R)) : forall t, qn_sweepb R ws t = true -> qn_sweep ws t.
Proof.
  induction ws as [|w ws IH]; intros t H; [exact I|]. destruct w as [rs cs|]; [|discriminate].
  cbn [qn_sweepb qn_sweep] in *. apply andb_true_iff in H. destruct H as [H H3]. apply andb_true_iff in H. destruct H as [H1 H2].
  repeat split; [apply subsetb_sound, H1|exact H2|apply IH, H3].
Qed.

End QnLabels.

(* ================================================================== third wave: bond dimension vs distinct LEFT parts *)
Section LeftParts.
Variable R : CRing.
Variable iszero : R -> bool.
Local Notation table := (table R).
Local Notation bond := (bond R).

(* Koenig certificate of a cover: a matching (edges of the incidence relation with pairwise distinct rows and
   pairwise distinct columns) with as many edges as the cover has vertices.  It exists iff the cover is minimum
   (Koenig's theorem, C20); the code's covers are built from exactly such a maximum matching. *)
Definition matching_cert (t : table) (rsel csel : list key) (mt : list (key * key)) : Prop :=
  (forall e, In e mt -> exists x, In x t /\ rk R x = fst e /\ ck R x = snd e) /\
  NoDup (map fst mt) /\ NoDup (map snd mt) /\ length mt = cover_size rsel csel.

Lemma filter_split_length {A} (p : A -> bool) (l : list A) :
  length (filter p l) + length (filter (fun x => negb (p x)) l) = length l.
Proof. induction l as [|a l IH]; [reflexivity|]. cbn [filter]. destruct (p a); cbn [negb length]; lia. Qed.
Lemma NoDup_map_inj {A} (f : A -> key) (l : list A) a b :
  NoDup (map f l) -> In a l -> In b l -> f a = f b -> a = b.
Proof.
  induction l as [|x l IH]; intros ND Ha Hb E; [destruct Ha|]. cbn [map] in ND. inversion ND as [|? ? Hn ND']; subst.
  destruct Ha as [<-|Ha], Hb as [<-|Hb]; auto.
  - exfalso. apply Hn. rewrite E. apply in_map, Hb.
  - exfalso. apply Hn. rewrite <- E. apply in_map, Ha.
Qed.
Lemma filter_map_nodup' {A} (p : A -> bool) (f : A -> key) (l : list A) : NoDup (map f l) -> NoDup (map f (filter p l)).
Proof.
  induction l as [|x l IH]; cbn [filter map]; intros ND; [constructor|].
  inversion ND as [|? ? Hn ND']; subst. destruct (p x); cbn [map]; [|auto].
  constructor; [|auto]. intros H. apply Hn. apply in_map_iff in H. destruct H as [y [E Hy]].
  apply filter_In in Hy. apply in_map_iff. exists y. tauto.
Qed.

(* in a cover with a certificate every selected column is matched to an UNSELECTED row, and every selected row to
   an unselected column *)
Lemma cert_partner_col (t : table) rsel csel mt :
  covers R t rsel csel -> NoDup rsel -> NoDup csel -> matching_cert t rsel csel mt ->
  forall c, In c csel -> exists r, In (r, c) mt /\ ~ In r rsel.
Proof.
  intros Hcov NDr NDc (Hedge & ND1 & ND2 & Hlen) c Hc.
  set (pA := fun e : key * key => memb (snd e) csel).
  set (A := filter pA mt). set (B := filter (fun e => negb (pA e)) mt).
  assert (HA : incl (map snd A) csel).
  { intros k Hk. apply in_map_iff in Hk. destruct Hk as [e [<- He]]. apply filter_In in He. destruct He as [_ He].
    unfold pA in He. destruct (memb_spec (snd e) csel); [assumption|discriminate]. }
  assert (HB : incl (map fst B) rsel).
  { intros k Hk. apply in_map_iff in Hk. destruct Hk as [e [<- He]]. apply filter_In in He. destruct He as [He Hn].
    unfold pA in Hn. destruct (memb_spec (snd e) csel) as [|Hnc]; [discriminate|].
    destruct (Hedge e He) as (x & Hx & E1 & E2). destruct (Hcov x Hx) as [H|H]; [rewrite <- E1; exact H|].
    rewrite E2 in H. contradiction. }
  assert (NA : NoDup (map snd A)) by (apply filter_map_nodup', ND2).
  assert (NB : NoDup (map fst B)) by (apply filter_map_nodup', ND1).
  pose proof (NoDup_incl_length NA HA) as LA. pose proof (NoDup_incl_length NB HB) as LB.
  pose proof (filter_split_length pA mt) as Hs. fold A B in Hs. rewrite !map_length in LA, LB.
  unfold cover_size in Hlen.
  assert (IA : incl csel (map snd A)) by (apply NoDup_length_incl; [assumption|rewrite map_length; lia|assumption]).
  assert (IB : incl rsel (map fst B)) by (apply NoDup_length_incl; [assumption|rewrite map_length; lia|assumption]).
  apply IA in Hc. apply in_map_iff in Hc. destruct Hc as [[r c'] [Ec He]]. cbn [snd] in Ec. subst c'.
  assert (Hmt : In (r, c) mt) by (apply filter_In in He; tauto).
  exists r. split; [assumption|]. intros Hr. apply IB in Hr. apply in_map_iff in Hr. destruct Hr as [e' [Er He']].
  assert (Hmt' : In e' mt) by (apply filter_In in He'; tauto).
  assert (Ee : e' = (r, c)) by (apply (NoDup_map_inj fst mt e' (r, c) ND1 Hmt' Hmt); exact Er).
  subst e'. apply filter_In in He'. destruct He' as [_ Hn]. unfold pA in Hn. cbn [snd] in Hn.
  destruct (memb_spec c csel) as [|Hnc]; [discriminate|].
  apply Hnc. apply filter_In in He. destruct He as [_ He]. unfold pA in He. cbn [snd] in He.
  destruct (memb_spec c csel); [assumption|discriminate].
Qed.

(* ---- the rows of the table at every later site in terms of the ORIGINAL table: phi maps each current row key
        (previous bond operator, operator on this site) injectively to a left part of an original term whose right
        remainder is the row's column key *)
Definition partner (mt : list (key * key)) (c : key) : key :=
  match find (fun e => keqb (snd e) c) mt with Some e => fst e | None => [] end.
Definition rep (rsel csel : list key) (mt : list (key * key)) (idx : nat) : key :=
  if Nat.ltb idx (length rsel) then nth idx rsel [] else partner mt (nth (idx - length rsel) csel []).
Definition phi_next (phi : key -> key) rsel csel mt (k' : key) : key :=
  match k' with idx :: tl => phi (rep rsel csel mt idx) ++ tl | [] => [] end.
Definition left_inv (i : nat) (t0 t : table) (phi : key -> key) : Prop :=
  (forall x, In x t -> exists x0, In x0 t0 /\ firstn (S (S i)) (fst x0) = phi (rk R x) /\ skipn (S (S i)) (fst x0) = ck R x)
  /\ (forall x y, In x t -> In y t -> phi (rk R x) = phi (rk R y) -> rk R x = rk R y).

Lemma partner_spec mt r c : NoDup (map snd mt) -> In (r, c) mt -> partner mt c = r.
Proof.
  unfold partner. induction mt as [|e mt IH]; intros ND Hin; [destruct Hin|]. cbn [find].
  cbn [map] in ND. inversion ND as [|? ? Hn ND']; subst.
  destruct (keqb_spec (snd e) c) as [E|Hne].
  - destruct Hin as [->|Hin]; [reflexivity|]. exfalso. apply Hn. rewrite E. change c with (snd (r, c)). apply in_map, Hin.
  - destruct Hin as [->|Hin]; [cbn [snd] in Hne; congruence|]. apply IH; assumption.
Qed.
Lemma firstn_S_app {A} n (l : list A) : firstn (S n) l = firstn n l ++ firstn 1 (skipn n l).
Proof.
  revert l. induction n as [|n IH]; intros l; [destruct l; reflexivity|].
  destruct l as [|a l]; [reflexivity|]. change (firstn (S (S n)) (a :: l)) with (a :: firstn (S n) l).
  rewrite IH. reflexivity.
Qed.
Lemma app_eq_len {A} (l1 l2 a b : list A) : l1 ++ a = l2 ++ b -> length l1 = length l2 -> l1 = l2 /\ a = b.
Proof.
  revert l2. induction l1 as [|x l1 IH]; intros l2 E Hl; destruct l2 as [|y l2]; cbn [length] in Hl; try lia.
  - split; [reflexivity|exact E].
  - cbn [app] in E. inversion E; subst. destruct (IH l2 H1) as [-> ->]; [lia|]. split; reflexivity.
Qed.

(* where a row of the new table comes from *)
Lemma new_table_origin (t : table) rs cs mt :
  covers R t rs cs -> NoDup rs -> NoDup cs -> matching_cert t rs cs mt ->
  forall y, In y (snd (decompose_graph R t rs cs)) ->
  exists idx x, In x t /\ fst y = idx :: ck R x /\ rep rs cs mt idx = rk R x /\
    ((idx < length rs /\ In (rk R x) rs)
     \/ (length rs <= idx /\ idx - length rs < length cs /\ ~ In (rk R x) rs /\ In (rk R x, nth (idx - length rs) cs []) mt)).
Proof.
  intros Hcov NDr NDc Hcert y Hy. unfold decompose_graph in Hy. cbn [snd] in Hy. apply in_app_or in Hy. destruct Hy as [Hy|Hy].
  - unfold new_rows in Hy. apply in_flat_map in Hy. destruct Hy as [[idx r] [Hir Hy]]. cbn [fst snd] in Hy.
    apply in_map_iff in Hy. destruct Hy as [x [Ey Hx]]. apply filter_In in Hx. destruct Hx as [Hx Hr].
    destruct (keqb_spec (rk R x) r) as [Er|]; [|discriminate]. subst y.
    destruct (in_enum_from_nth rs [] _ _ _ Hir) as [Hi En]. rewrite Nat.sub_0_r in En. cbn [Nat.add] in Hi.
    exists idx, x. split; [assumption|]. split; [reflexivity|]. split.
    + unfold rep. destruct (Nat.ltb_spec idx (length rs)); [|lia]. congruence.
    + left. split; [lia|]. rewrite Er, En. apply nth_In. lia.
  - unfold new_cols in Hy. apply in_map_iff in Hy. destruct Hy as [[idx c] [Ey Hjc]]. cbn [fst snd] in Ey. subst y.
    destruct (in_enum_from_nth cs [] _ _ _ Hjc) as [Hj En].
    assert (Hc : In c cs) by (rewrite En; apply nth_In; lia).
    destruct (cert_partner_col t rs cs mt Hcov NDr NDc Hcert c Hc) as (r & Hrc & Hnr).
    destruct Hcert as (Hedge & ND1 & ND2 & Hlen). destruct (Hedge _ Hrc) as (x & Hx & E1 & E2). cbn [fst snd] in E1, E2.
    exists idx, x. split; [assumption|]. split; [cbn [fst]; congruence|]. split.
    + unfold rep. destruct (Nat.ltb_spec idx (length rs)); [lia|]. rewrite <- En. rewrite (partner_spec mt r c ND2 Hrc). congruence.
    + right. split; [lia|]. split; [lia|]. split; [rewrite E1; exact Hnr|]. rewrite E1, <- En. exact Hrc.
Qed.

Lemma left_step (i : nat) (t0 t : table) phi rs cs mt :
  (forall x0, In x0 t0 -> S (S i) <= length (fst x0)) -> left_inv i t0 t phi ->
  covers R t rs cs -> NoDup rs -> NoDup cs -> matching_cert t rs cs mt ->
  left_inv (S i) t0 (snd (decompose_graph R t rs cs)) (phi_next phi rs cs mt).
Proof.
  intros Hlen [H1 H2] Hcov NDr NDc Hcert.
  assert (Horig := new_table_origin t rs cs mt Hcov NDr NDc Hcert).
  assert (Hrk : forall (y : trow R) idx (x : trow R), fst y = idx :: ck R x -> rk R y = idx :: firstn 1 (ck R x)).
  { intros [ky fy] idx x E. cbn [fst] in E. unfold rk at 1. cbn [fst]. rewrite E. destruct (ck R x); reflexivity. }
  assert (Hphi : forall (y : trow R) idx (x : trow R), fst y = idx :: ck R x -> rep rs cs mt idx = rk R x ->
                 phi_next phi rs cs mt (rk R y) = phi (rk R x) ++ firstn 1 (ck R x)).
  { intros y idx x E Er. rewrite (Hrk y idx x E). unfold phi_next. rewrite Er. reflexivity. }
  assert (Hplen : forall x, In x t -> length (phi (rk R x)) = S (S i)).
  { intros x Hx. destruct (H1 x Hx) as (x0 & Hx0 & E1 & _). rewrite <- E1. apply firstn_length_le, Hlen, Hx0. }
  split.
  - intros y Hy. destruct (Horig y Hy) as (idx & x & Hx & Ey & Er & _).
    destruct (H1 x Hx) as (x0 & Hx0 & E1 & E2). exists x0. split; [assumption|]. split.
    + rewrite (Hphi y idx x Ey Er). rewrite firstn_S_app, E1, E2. reflexivity.
    + assert (Eck : ck R y = skipn 1 (ck R x)).
      { destruct y as [ky fy]. cbn [fst] in Ey. unfold ck at 1. cbn [fst]. rewrite Ey. reflexivity. }
      rewrite Eck, <- E2. apply (eq_sym (skipn_1_skipn (S (S i)) (fst x0))).
  - intros y1 y2 Hy1 Hy2 E.
    destruct (Horig y1 Hy1) as (i1 & x1 & Hx1 & Ey1 & Er1 & C1).
    destruct (Horig y2 Hy2) as (i2 & x2 & Hx2 & Ey2 & Er2 & C2).
    rewrite (Hphi y1 i1 x1 Ey1 Er1), (Hphi y2 i2 x2 Ey2 Er2) in E.
    destruct (app_eq_len _ _ _ _ E) as [Ep Et]; [rewrite !Hplen by assumption; reflexivity|].
    pose proof (H2 x1 x2 Hx1 Hx2 Ep) as Erk.
    rewrite (Hrk y1 i1 x1 Ey1), (Hrk y2 i2 x2 Ey2), Et. f_equal.
    destruct Hcert as (Hedge & ND1 & ND2 & Hl).
    destruct C1 as [[Hi1 Hin1]|(Hi1 & Hj1 & Hn1 & Hm1)], C2 as [[Hi2 Hin2]|(Hi2 & Hj2 & Hn2 & Hm2)].
    + unfold rep in Er1, Er2. destruct (Nat.ltb_spec i1 (length rs)); [|lia]. destruct (Nat.ltb_spec i2 (length rs)); [|lia].
      apply (proj1 (NoDup_nth rs []) NDr i1 i2); [assumption|assumption|congruence].
    + exfalso. apply Hn2. rewrite <- Erk. exact Hin1.
    + exfalso. apply Hn1. rewrite Erk. exact Hin2.
    + rewrite Erk in Hm1.
      assert (Ee := NoDup_map_inj fst mt _ _ ND1 Hm1 Hm2 eq_refl). inversion Ee as [Ec].
      assert (Ej : i1 - length rs = i2 - length rs) by (apply (proj1 (NoDup_nth cs []) NDc); assumption).
      lia.
Qed.

Fixpoint cert_sweep (ws : list (wit R)) (t : table) : Prop :=
  match ws with
  | [] => True
  | WG _ rs cs :: r => covers R t rs cs /\ NoDup rs /\ NoDup cs /\ (exists mt, matching_cert t rs cs mt)
                       /\ cert_sweep r (snd (decompose_graph R t rs cs))
  | WQ _ _ _ _ _ _ :: _ => False
  end.

(* EVERY cut: the bond has at most as many operators as there are distinct left parts in the ORIGINAL table
   (ls0 = any list containing the left part of every original row) *)
Theorem bond_le_left_parts_gen (ws : list (wit R)) : forall (t t0 : table) (i : nat) phi,
  left_inv i t0 t phi -> (forall x0, In x0 t0 -> S (i + length ws) <= length (fst x0)) -> cert_sweep ws t ->
  forall j (ls0 : list key), j < length ws ->
    (forall x0, In x0 t0 -> In (firstn (S (S (i + j))) (fst x0)) ls0) ->
    length (nth j (fst (sweep R iszero ws t)) []) <= length ls0.
Proof.
  induction ws as [|w ws IH]; intros t t0 i phi Hinv Hlen Hs j ls0 Hj Hls; cbn [length] in Hj; [lia|].
  destruct w as [rs cs|]; [|destruct Hs]. destruct Hs as (Hcov & NDr & NDc & [mt Hcert] & Hrest).
  cbn [sweep fst snd step]. destruct j as [|j]; cbn [nth].
  - rewrite graph_bond_size. destruct Hcert as (Hedge & ND1 & ND2 & Hl). rewrite <- Hl.
    destruct Hinv as [H1 H2]. rewrite Nat.add_0_r in Hls.
    rewrite <- (map_length fst mt), <- (map_length phi (map fst mt)). apply NoDup_incl_length.
    + (* phi is injective on the row keys of the matching *)
      assert (G : forall l : list key, NoDup l -> (forall k, In k l -> exists x, In x t /\ rk R x = k) -> NoDup (map phi l)).
      { induction l as [|k l IHl]; intros NDl Hk; cbn [map]; [constructor|]. inversion NDl as [|? ? Hn NDl']; subst.
        constructor; [|apply IHl; [assumption|intros; apply Hk; right; assumption]].
        intros Hin. apply in_map_iff in Hin. destruct Hin as [k' [E Hk']].
        destruct (Hk k (or_introl eq_refl)) as (x & Hx & Ex). destruct (Hk k' (or_intror Hk')) as (x' & Hx' & Ex').
        subst k k'. rewrite (H2 x x' Hx Hx' (eq_sym E)) in Hn. contradiction. }
      apply G; [assumption|]. intros k Hk. apply in_map_iff in Hk. destruct Hk as [e [<- He]].
      destruct (Hedge e He) as (x & Hx & E1 & _). eauto.
    + intros k Hk. apply in_map_iff in Hk. destruct Hk as [k0 [<- Hk0]]. apply in_map_iff in Hk0. destruct Hk0 as [e [<- He]].
      destruct (Hedge e He) as (x & Hx & E1 & _). rewrite <- E1. destruct (H1 x Hx) as (x0 & Hx0 & E & _). rewrite <- E. apply Hls, Hx0.
  - apply (IH _ t0 (S i) (phi_next phi rs cs mt)); [| | assumption | lia |].
    + apply left_step; try assumption. intros x0 Hx0. specialize (Hlen x0 Hx0). cbn [length] in Hlen. lia.
    + intros x0 Hx0. specialize (Hlen x0 Hx0). cbn [length] in Hlen. lia.
    + intros x0 Hx0. replace (S i + j) with (i + S j) by lia. apply Hls, Hx0.
Qed.

Lemma left_inv_init (t0 : table) : left_inv 0 t0 t0 (fun k => k).
Proof. split; [intros x Hx; exists x; split; [assumption|split; reflexivity]|intros x y _ _ E; exact E]. Qed.

Theorem bond_le_left_parts (ws : list (wit R)) (t0 : table) :
  (forall x0, In x0 t0 -> S (length ws) <= length (fst x0)) -> cert_sweep ws t0 ->
  forall j (ls0 : list key), j < length ws ->
    (forall x0, In x0 t0 -> In (firstn (S (S j)) (fst x0)) ls0) ->
    length (nth j (fst (sweep R iszero ws t0)) []) <= length ls0.
Proof. intros Hlen Hs j ls0 Hj Hls. exact (bond_le_left_parts_gen ws t0 t0 0 (fun k => k) (left_inv_init t0) Hlen Hs j ls0 Hj Hls). Qed.

End LeftParts.

(* ================================================================== bridge to C20: a MINIMUM cover has a Koenig certificate *)
From RV Require Model.Cover Proofs.CoverProofs.

Section KonigBridge.
Variable R : CRing.
Local Notation table := (table R).

Lemma uniq_keys_spec (l : list key) : forall seen,
  NoDup (uniq_keys l seen) /\ (forall k, In k (uniq_keys l seen) <-> In k l /\ ~ In k seen).
Proof.
  induction l as [|x l IH]; intros seen; cbn [uniq_keys]; [split; [constructor|intros k; cbn [In]; tauto]|].
  destruct (memb_spec x seen) as [Hs|Hs].
  - destruct (IH seen) as [N H]. split; [exact N|]. intros k. rewrite H. cbn [In]. split; [tauto|].
    intros [[<-|Hk] Hn]; [contradiction|tauto].
  - destruct (IH (x :: seen)) as [N H]. split.
    + constructor; [|exact N]. rewrite H. cbn [In]. tauto.
    + intros k. cbn [In]. rewrite H. cbn [In]. split.
      * intros [<-|[Hk Hn]]; [tauto|]. split; [tauto|]. intros Hks. apply Hn. right. exact Hks.
      * intros [[<-|Hk] Hn]; [tauto|]. destruct (key_eq_dec x k) as [->|Hne]; [tauto|]. right. split; [assumption|].
        intros [E|Hks]; [contradiction|contradiction].
Qed.
Fixpoint kindex (k : key) (l : list key) : nat :=
  match l with [] => 0 | x :: r => if keqb x k then 0 else S (kindex k r) end.
Lemma kindex_nth k l : In k l -> nth (kindex k l) l [] = k /\ kindex k l < length l.
Proof.
  induction l as [|x l IH]; intros H; [destruct H|]. cbn [kindex].
  destruct (keqb_spec x k) as [->|Hne]; cbn [nth length]; [split; [reflexivity|lia]|].
  destruct H as [H|H]; [contradiction|]. destruct (IH H). split; [assumption|lia].
Qed.
Definition edgeb (t : table) (r c : key) : bool := existsb (fun x => keqb (rk R x) r && keqb (ck R x) c) t.
Lemma edgeb_spec t r c : edgeb t r c = true <-> exists x, In x t /\ rk R x = r /\ ck R x = c.
Proof.
  unfold edgeb. rewrite existsb_exists. split; intros [x [Hx H]]; exists x; split; try assumption.
  - apply andb_true_iff in H. destruct H as [H1 H2]. destruct (keqb_spec (rk R x) r), (keqb_spec (ck R x) c); try discriminate. tauto.
  - destruct H as [-> ->]. rewrite !keqb_refl. reflexivity.
Qed.
(* the incidence relation as an index graph over (distinct row keys, distinct column keys) *)
Definition igraph (t : table) : Cover.graph :=
  map (fun r => filter (fun v => edgeb t r (nth v (ucols R t) [])) (seq 0 (length (ucols R t)))) (urows R t).
Lemma nbrs_igraph t u v :
  In v (Cover.nbrs (igraph t) u) <->
  u < length (urows R t) /\ v < length (ucols R t) /\ edgeb t (nth u (urows R t) []) (nth v (ucols R t) []) = true.
Proof.
  unfold Cover.nbrs, igraph. destruct (Nat.lt_ge_cases u (length (urows R t))) as [Hu|Hu].
  - rewrite (nth_map_in _ (urows R t) u [] []) by assumption. rewrite filter_In, in_seq. split; [intros [H1 H2]|intros (H1 & H2 & H3)]; repeat split; auto; lia.
  - rewrite nth_overflow by (rewrite map_length; assumption). split; [intros []|lia].
Qed.
Lemma NoDup_map_inj_on' {A} (f : A -> key) (l : list A) :
  NoDup l -> (forall a b, In a l -> In b l -> f a = f b -> a = b) -> NoDup (map f l).
Proof.
  induction l as [|x l IH]; intros ND Hinj; cbn [map]; [constructor|]. inversion ND as [|? ? Hn ND']; subst.
  constructor; [|apply IH; [assumption|intros; apply Hinj; try right; assumption]].
  intros H. apply in_map_iff in H. destruct H as [y [E Hy]]. rewrite (Hinj y x (or_intror Hy) (or_introl eq_refl) E) in Hy. contradiction.
Qed.
Lemma nth_inj (l : list key) i j : NoDup l -> i < length l -> j < length l -> nth i l [] = nth j l [] -> i = j.
Proof. intros ND Hi Hj E. apply (proj1 (NoDup_nth l []) ND i j Hi Hj E). Qed.

(* weak duality for key graphs *)
Lemma key_weak_duality (t : table) rs cs (mt : list (key * key)) :
  covers R t rs cs -> NoDup rs -> NoDup cs ->
  (forall e, In e mt -> exists x, In x t /\ rk R x = fst e /\ ck R x = snd e) ->
  NoDup (map fst mt) -> NoDup (map snd mt) -> length mt <= cover_size rs cs.
Proof.
  intros Hcov NDr NDc Hedge ND1 ND2.
  set (pA := fun e : key * key => memb (snd e) cs).
  assert (HA : incl (map snd (filter pA mt)) cs).
  { intros k Hk. apply in_map_iff in Hk. destruct Hk as [e [<- He]]. apply filter_In in He. destruct He as [_ He].
    unfold pA in He. destruct (memb_spec (snd e) cs); [assumption|discriminate]. }
  assert (HB : incl (map fst (filter (fun e => negb (pA e)) mt)) rs).
  { intros k Hk. apply in_map_iff in Hk. destruct Hk as [e [<- He]]. apply filter_In in He. destruct He as [He Hn].
    unfold pA in Hn. destruct (memb_spec (snd e) cs) as [|Hnc]; [discriminate|].
    destruct (Hedge e He) as (x & Hx & E1 & E2). destruct (Hcov x Hx) as [H|H]; [rewrite <- E1; exact H|].
    rewrite E2 in H. contradiction. }
  pose proof (NoDup_incl_length (filter_map_nodup' pA snd mt ND2) HA) as LA.
  pose proof (NoDup_incl_length (filter_map_nodup' (fun e => negb (pA e)) fst mt ND1) HB) as LB.
  pose proof (filter_split_length pA mt) as Hs. rewrite !map_length in LA, LB. unfold cover_size. lia.
Qed.

Theorem min_cover_has_cert (t : table) (rs cs : list key) :
  covers R t rs cs -> NoDup rs -> NoDup cs -> is_min_cover R t rs cs ->
  exists mt, matching_cert R t rs cs mt.
Proof.
  intros Hcov NDr NDc Hmin.
  set (U := urows R t). set (V := ucols R t). set (bg := igraph t).
  destruct (uniq_keys_spec (map (rk R) t) []) as [NU HU]. destruct (uniq_keys_spec (map (ck R) t) []) as [NV HV].
  fold (urows R t) in NU, HU. fold (ucols R t) in NV, HV. fold U in NU, HU. fold V in NV, HV.
  destruct (CoverProofs.hungarian_konig_total Cover.no_rot bg CoverProofs.no_rot_is_rot) as (ml & cu & cv & _ & Hm & Hk).
  destruct (CoverProofs.cover_from_matching_is_cover Cover.no_rot CoverProofs.no_rot_is_rot bg (length bg) (Cover.nV_of bg)
              (CoverProofs.graph_shape bg) ml cu cv Hk) as (Hc & Ncu & Ncv).
  pose proof (CoverProofs.cover_from_matching_size Cover.no_rot CoverProofs.no_rot_is_rot bg (length bg) (Cover.nV_of bg)
              (CoverProofs.graph_shape bg) ml cu cv Hm Hk) as Hsz.
  (* the Koenig cover, translated back to keys, bounds the given minimum cover *)
  assert (Hcov' : covers R t (map (fun u => nth u U []) cu) (map (fun v => nth v V []) cv)).
  { intros x Hx.
    assert (Hr : In (rk R x) U) by (apply HU; split; [apply in_map, Hx|intros []]).
    assert (Hcx : In (ck R x) V) by (apply HV; split; [apply in_map, Hx|intros []]).
    destruct (kindex_nth _ _ Hr) as [Er Lr]. destruct (kindex_nth _ _ Hcx) as [Ec Lc].
    assert (He : In (kindex (ck R x) V) (Cover.nbrs bg (kindex (rk R x) U))).
    { apply nbrs_igraph. fold U V. repeat split; try assumption. rewrite Er, Ec. apply edgeb_spec. eauto. }
    destruct (Hc _ _ He) as [H|H]; [left|right]; apply in_map_iff; eexists; split; try exact H; assumption. }
  pose proof (Hmin _ _ Hcov') as Hle. unfold cover_size in Hle. rewrite !map_length in Hle.
  (* the matching, translated to keys *)
  destruct Hm as (Hl & Hedge & Hinj).
  set (uof := fun v => match Cover.mget ml v with Some u => u | None => 0 end).
  set (mv := Cover.matched_v (Cover.nV_of bg) (Cover.mget ml)).
  assert (Hmv : forall v, In v mv -> exists u, Cover.mget ml v = Some u /\ u < length U /\ v < length V /\
                                             edgeb t (nth u U []) (nth v V []) = true).
  { intros v Hv. unfold mv, Cover.matched_v in Hv. apply filter_In in Hv. destruct Hv as [_ Hs].
    destruct (Cover.mget ml v) as [u|] eqn:Eu; [|discriminate]. exists u. split; [reflexivity|].
    apply (proj1 (nbrs_igraph t u v)). apply Hedge, Eu. }
  assert (Nmv : NoDup mv) by (apply NoDup_filter, seq_NoDup).
  exists (map (fun v => (nth (uof v) U [], nth v V [])) mv).
  assert (Eedge : forall e, In e (map (fun v => (nth (uof v) U [], nth v V [])) mv) ->
                  exists x, In x t /\ rk R x = fst e /\ ck R x = snd e).
  { intros e He. apply in_map_iff in He. destruct He as [v [<- Hv]]. destruct (Hmv v Hv) as (u & Eu & _ & _ & Hb).
    unfold uof. rewrite Eu. cbn [fst snd]. apply edgeb_spec, Hb. }
  assert (N1 : NoDup (map fst (map (fun v => (nth (uof v) U [], nth v V [])) mv))).
  { rewrite map_map. cbn [fst]. apply NoDup_map_inj_on'; [assumption|]. intros a b Ha Hb E.
    destruct (Hmv a Ha) as (ua & Ea & La & _ & _). destruct (Hmv b Hb) as (ub & Eb & Lb & _ & _).
    unfold uof in E. rewrite Ea, Eb in E. pose proof (nth_inj U ua ub NU La Lb E) as Eu. subst ub.
    apply (Hinj a b ua Ea Eb). }
  assert (N2 : NoDup (map snd (map (fun v => (nth (uof v) U [], nth v V [])) mv))).
  { rewrite map_map. cbn [snd]. apply NoDup_map_inj_on'; [assumption|]. intros a b Ha Hb E.
    destruct (Hmv a Ha) as (_ & _ & _ & La & _). destruct (Hmv b Hb) as (_ & _ & _ & Lb & _).
    apply (nth_inj V a b NV La Lb E). }
  repeat split; try assumption.
  pose proof (key_weak_duality t rs cs _ Hcov NDr NDc Eedge N1 N2) as Hge.
  rewrite map_length in *. unfold Cover.msize in Hsz. fold mv in Hsz. unfold cover_size in *. lia.
Qed.

End KonigBridge.

Section LeftPartsMin.
Variable R : CRing.
Variable iszero : R -> bool.
(* graph sweeps whose witnesses are duplicate-free MINIMUM covers *)
Fixpoint min_sweep_nd (ws : list (wit R)) (t : table R) : Prop :=
  match ws with
  | [] => True
  | WG _ rs cs :: r => covers R t rs cs /\ NoDup rs /\ NoDup cs /\ is_min_cover R t rs cs
                       /\ min_sweep_nd r (snd (decompose_graph R t rs cs))
  | WQ _ _ _ _ _ _ :: _ => False
  end.
Lemma min_sweep_cert (ws : list (wit R)) : forall t, min_sweep_nd ws t -> cert_sweep R ws t.
Proof.
  induction ws as [|w ws IH]; intros t H; [exact I|]. destruct w as [rs cs|]; [|destruct H].
  destruct H as (H1 & H2 & H3 & H4 & H5). cbn [cert_sweep]. repeat split; try assumption.
  - apply min_cover_has_cert; assumption.
  - apply IH, H5.
Qed.
(* the consequence stated in property C20, left half: with minimum covers the bond at EVERY cut has at most as many
   operators as there are distinct left parts (operators on the sites up to the cut) in the ORIGINAL table *)
Theorem bond_le_left_parts_min (ws : list (wit R)) (t0 : table R) :
  (forall x0, In x0 t0 -> S (length ws) <= length (fst x0)) -> min_sweep_nd ws t0 ->
  forall j (ls0 : list key), j < length ws ->
    (forall x0, In x0 t0 -> In (firstn (S (S j)) (fst x0)) ls0) ->
    length (nth j (fst (sweep R iszero ws t0)) []) <= length ls0.
Proof. intros Hlen Hs. apply bond_le_left_parts; [assumption|apply min_sweep_cert, Hs]. Qed.
Lemma matching_certb_sound (t : table R) rs cs mt : matching_certb R t rs cs mt = true -> matching_cert R t rs cs mt.
Proof.
  unfold matching_certb. intros H. repeat (apply andb_true_iff in H; destruct H as [H ?]).
  repeat split; auto using nodupb_sound.
  - intros e He. rewrite forallb_forall in H. specialize (H e He). apply existsb_exists in H. destruct H as [x [Hx Hb]].
    apply andb_true_iff in Hb. destruct Hb as [B1 B2]. destruct (keqb_spec (rk R x) (fst e)), (keqb_spec (ck R x) (snd e)); try discriminate. eauto.
  - apply Nat.eqb_eq. assumption.
Qed.
Lemma cert_sweepb_sound (ws : list (wit R)) : forall mts t, cert_sweepb R ws mts t = true -> cert_sweep R ws t.
Proof.
  induction ws as [|w ws IH]; intros mts t H; [exact I|]. destruct w as [rs cs|]; [|destruct mts; discriminate].
  destruct mts as [|mt mr]; [discriminate|]. cbn [cert_sweepb cert_sweep] in *.
  repeat (apply andb_true_iff in H; destruct H as [H ?]).
  repeat split; auto using nodupb_sound, is_cover_sound.
  - exists mt. apply matching_certb_sound. assumption.
  - eapply IH; eassumption.
Qed.
End LeftPartsMin.

(* ================================================================== the table is a function of the term list as a
   MULTISET of values: order is irrelevant and k copies of a term contribute k times its factor *)
From Coq Require Import Permutation.
Section Multiset.
Variable R : CRing.
Variable iszero : R -> bool.
Hypothesis iszero_sound : forall x, iszero x = true -> x = r0 R.
Add Ring RRm : (rth R).

Lemma lsum_perm {A} (l1 l2 : list A) (f : A -> R) : Permutation l1 l2 -> SymMpo.lsum R l1 f = SymMpo.lsum R l2 f.
Proof. induction 1; cbn [SymMpo.lsum]; try congruence; ring. Qed.
Theorem coeffT_perm (t1 t2 : table R) s : Permutation t1 t2 -> coeffT R t1 s = coeffT R t2 s.
Proof. intros H. unfold coeffT. apply lsum_perm, H. Qed.
Theorem table_multiset (t1 t2 : table R) s :
  Permutation t1 t2 -> coeffT R (dedup R iszero t1) s = coeffT R (dedup R iszero t2) s.
Proof. intros H. rewrite !(dedup_den R iszero iszero_sound). apply coeffT_perm, H. Qed.
(* n-fold sum *)
Definition nmul (n : nat) (x : R) : R := SymMpo.lsum R (seq 0 n) (fun _ => x).
Theorem dedup_multiplicity (k : key) (f : R) (n : nat) (t : table R) s :
  coeffT R (dedup R iszero (repeat (k, f) n ++ t)) s
  = radd R (nmul n (if keqb k s then f else r0 R)) (coeffT R t s).
Proof.
  rewrite (dedup_den R iszero iszero_sound). unfold coeffT. rewrite (lsum_app R). f_equal.
  unfold nmul. generalize 0 as m. induction n as [|n IH]; intros m; cbn [repeat seq SymMpo.lsum fst snd]; [reflexivity|].
  rewrite (IH (S m)). reflexivity.
Qed.
End Multiset.
