(* C08 -- proofs about Model/Sweep.v over the generated schedule Gen/SweepSched.v:
   env_fresh (no stale environment is ever read or handed to the eigenproblem; all n >= 1, both
   methods, both starting gauges, any number of sweeps, any initial site versions) and sweep_coverage. *)
From Coq Require Import ZArith List Bool Lia Arith.
Import ListNotations.
From RV Require Import Gen.SweepSched Model.Sweep.
Local Open Scope Z_scope.

(* ------------------------------------------------------------------ ranges *)
Lemma seq_S_map a k : seq (S a) k = map S (seq a k).
Proof. symmetry. apply seq_shift. Qed.

Lemma zrange_nil a b : b <= a -> zrange a b = [].
Proof. intros H. unfold zrange. replace (Z.to_nat (b - a)) with O by lia. reflexivity. Qed.

Lemma zrange_cons a b : a < b -> zrange a b = a :: zrange (a + 1) b.
Proof.
  intros H. unfold zrange. replace (Z.to_nat (b - a)) with (S (Z.to_nat (b - (a + 1)))) by lia.
  cbn [seq map]. f_equal; [lia|]. rewrite seq_S_map, map_map. apply map_ext. intros k. lia.
Qed.

Lemma zrange_snoc a b : a <= b -> zrange a (b + 1) = zrange a b ++ [b].
Proof.
  intros H. unfold zrange. replace (Z.to_nat (b + 1 - a)) with (Z.to_nat (b - a) + 1)%nat by lia.
  rewrite seq_app, map_app. cbn [seq map plus]. do 2 f_equal. lia.
Qed.

Lemma In_zrange x a b : In x (zrange a b) <-> a <= x < b.
Proof.
  unfold zrange. rewrite in_map_iff. split.
  - intros [k [<- Hk]]. apply in_seq in Hk. lia.
  - intros H. exists (Z.to_nat (x - a)). split; [lia|]. apply in_seq. lia.
Qed.

Lemma py_range_up_cons i stop : i < stop -> py_range i stop 1 = i :: py_range (i + 1) stop 1.
Proof.
  intros H. unfold py_range. cbn [Z.ltb Z.compare]. rewrite !Z.div_1_r.
  replace (Z.to_nat (stop - i + 1 - 1)) with (S (Z.to_nat (stop - (i + 1) + 1 - 1))) by lia.
  cbn [seq map]. f_equal; [lia|]. rewrite seq_S_map, map_map. apply map_ext. intros k. lia.
Qed.

Lemma py_range_up_nil i stop : stop <= i -> py_range i stop 1 = [].
Proof.
  intros H. unfold py_range. cbn [Z.ltb Z.compare]. rewrite !Z.div_1_r.
  replace (Z.to_nat (stop - i + 1 - 1)) with O by lia. reflexivity.
Qed.

Lemma py_range_down_cons i stop : stop < i -> py_range i stop (-1) = i :: py_range (i - 1) stop (-1).
Proof.
  intros H. unfold py_range. cbn [Z.ltb Z.compare Z.opp]. rewrite !Z.div_1_r.
  replace (Z.to_nat (i - stop - -1 - 1)) with (S (Z.to_nat (i - 1 - stop - -1 - 1))) by lia.
  cbn [seq map]. f_equal; [lia|]. rewrite seq_S_map, map_map. apply map_ext. intros k. lia.
Qed.

Lemma py_range_down_nil i stop : i <= stop -> py_range i stop (-1) = [].
Proof.
  intros H. unfold py_range. cbn [Z.ltb Z.compare Z.opp]. rewrite !Z.div_1_r.
  replace (Z.to_nat (i - stop - -1 - 1)) with O by lia. reflexivity.
Qed.

Lemma py_range_up_zrange i stop : py_range i stop 1 = zrange i stop.
Proof.
  unfold py_range, zrange. cbn [Z.ltb Z.compare]. rewrite !Z.div_1_r.
  replace (stop - i + 1 - 1) with (stop - i) by lia. apply map_ext. intros k. lia.
Qed.

(* ------------------------------------------------------------------ the store *)
Section Fresh.
Variable n : Z.

Definition Fresh (s : store) (d : bool) (i : Z) : Prop := env_get s d i = Some (current n s d i).

Lemma current_env_set s d' i' v d i : current n (env_set s d' i' v) d i = current n s d i.
Proof. unfold current, env_set. destruct d'; reflexivity. Qed.

Lemma current_bump s j d i : ~ In j (deps n d i) -> current n (bump s j) d i = current n s d i.
Proof.
  intros H. unfold current. apply map_ext_in. intros a Ha. cbn [bump sver].
  destruct (Z.eqb_spec a j) as [->|]; [contradiction|reflexivity].
Qed.

Lemma env_get_bump s j d i : env_get (bump s j) d i = env_get s d i.
Proof. destruct d; reflexivity. Qed.

Lemma env_get_set_same s d i v : env_get (env_set s d i v) d i = Some v.
Proof. destruct d; cbn; rewrite Z.eqb_refl; reflexivity. Qed.

Lemma env_get_set_other s d' i' v d i : (d, i) <> (d', i') -> env_get (env_set s d' i' v) d i = env_get s d i.
Proof.
  intros H. destruct d, d'; cbn; try reflexivity;
    (destruct (Z.eqb_spec i i') as [->|]; [contradiction H; reflexivity | reflexivity]).
Qed.

Lemma fresh_bump s j d i : Fresh s d i -> ~ In j (deps n d i) -> Fresh (bump s j) d i.
Proof. unfold Fresh. intros H Hn. rewrite env_get_bump, current_bump by exact Hn. exact H. Qed.

Lemma fresh_set_other s d' i' v d i : Fresh s d i -> (d, i) <> (d', i') -> Fresh (env_set s d' i' v) d i.
Proof. unfold Fresh. intros H Hn. rewrite env_get_set_other, current_env_set by exact Hn. exact H. Qed.

Lemma fresh_set_same s d i : Fresh (env_set s d i (current n s d i)) d i.
Proof. unfold Fresh. rewrite env_get_set_same, current_env_set. reflexivity. Qed.

Lemma current_L_snoc s i : 0 <= i -> current n s true i = current n s true (i - 1) ++ [(i, sver s i)].
Proof.
  intros H. unfold current, deps. rewrite (zrange_snoc 0 i) by lia. rewrite map_app.
  replace (i - 1 + 1) with i by lia. reflexivity.
Qed.

Lemma current_R_cons s i : i < n -> current n s false i = (i, sver s i) :: current n s false (i + 1).
Proof. intros H. unfold current, deps. rewrite (zrange_cons i n) by lia. reflexivity. Qed.

Lemma current_L_empty s i : i <= -1 -> current n s true i = [].
Proof. intros H. unfold current, deps. rewrite zrange_nil by lia. reflexivity. Qed.

Lemma current_R_empty s i : n <= i -> current n s false i = [].
Proof. intros H. unfold current, deps. rewrite zrange_nil by lia. reflexivity. Qed.

Lemma notin_deps_L j i : i < j -> ~ In j (deps n true i).
Proof. unfold deps. rewrite In_zrange. lia. Qed.
Lemma notin_deps_R j i : j < i -> ~ In j (deps n false i).
Proof. unfold deps. rewrite In_zrange. lia. Qed.

(* ------------------------------------------------------------------ observations *)
Definition Good (m : mstate) : Prop := Forall obs_ok (obsl m).
(* centres of the local solves in a log (newest first) *)
Definition csol (lg : list event) : list (list Z) :=
  flat_map (fun e => match e with EvSolve c => [c] | _ => [] end) lg.

(* what a GetLR call leaves behind *)
Record getlr_post (m m' : mstate) (s' : store) : Prop := {
  gp_good : Good m';
  gp_sto : sto m' = s';
  gp_tr : to_right m' = to_right m;
  gp_q : qnidx m' = qnidx m;
  gp_sol : csol (log m') = csol (log m) }.

(* out of range: the sentinel, no disk access; its expected stamp is empty *)
Lemma getlr_sentinel d i sys m :
  getlr_inrange n i = false -> current n (sto m) d i = [] -> Good m ->
  getlr_post m (getlr n d i sys m) (sto m).
Proof.
  intros Hr Hc Hg. unfold getlr. rewrite Hr. split; cbn; try reflexivity.
  constructor; [|exact Hg]. unfold obs_ok. cbn. rewrite Hc. reflexivity.
Qed.

(* "Enviro": one read of (d, i) *)
Lemma getlr_enviro d i m :
  getlr_inrange n i = true -> Fresh (sto m) d i -> Good m ->
  getlr_post m (getlr n d i false m) (sto m).
Proof.
  intros Hr Hf Hg. unfold getlr. rewrite Hr. unfold getlr_ops. cbn [app run_ops fold_left run_op].
  red in Hf. split; cbn; try reflexivity.
  constructor; [unfold obs_ok; cbn; rewrite Hf; reflexivity|].
  constructor; [unfold obs_ok; cbn; exact Hf|exact Hg].
Qed.

(* "System": read the neighbour, contract site i, write (d, i) *)
Lemma getlr_system d i m :
  getlr_inrange n i = true -> 1 <= n -> Fresh (sto m) d (if d then i - 1 else i + 1) -> Good m ->
  getlr_post m (getlr n d i true m) (env_set (sto m) d i (current n (sto m) d i)).
Proof.
  intros Hr Hn Hf Hg. unfold getlr. rewrite Hr. unfold getlr_ops. cbn [app run_ops fold_left run_op].
  unfold getlr_inrange in Hr. apply andb_true_iff in Hr. destruct Hr as [H0 H1].
  apply Z.leb_le in H0. apply Z.ltb_lt in H1.
  red in Hf.
  assert (Hh : extend (sto m) d i (current n (sto m) d (if d then i - 1 else i + 1)) = current n (sto m) d i).
  { destruct d; cbn [extend].
    - rewrite (current_L_snoc (sto m) i) by lia. reflexivity.
    - rewrite (current_R_cons (sto m) i) by lia. reflexivity. }
  destruct d.
  - replace (i + -1) with (i - 1) by lia. cbn [sto hand add_ev add_obs set_hand set_sto].
    rewrite Hf. rewrite Hh. split; cbn; try reflexivity.
    repeat (constructor; [unfold obs_ok; cbn; reflexivity|]). exact Hg.
  - cbn [sto hand add_ev add_obs set_hand set_sto].
    rewrite Hf. rewrite Hh. split; cbn; try reflexivity.
    repeat (constructor; [unfold obs_ok; cbn; reflexivity|]). exact Hg.
Qed.

(* ------------------------------------------------------------------ GetLR, any position *)
Lemma inrange_iff j : getlr_inrange n j = true <-> 0 <= j < n.
Proof. unfold getlr_inrange. rewrite andb_true_iff, Z.leb_le, Z.ltb_lt. reflexivity. Qed.

Lemma inrange_false_iff j : getlr_inrange n j = false <-> ~ (0 <= j < n).
Proof. rewrite <- inrange_iff. destruct (getlr_inrange n j); split; congruence. Qed.

Definition nb (d : bool) (i : Z) : Z := if d then i - 1 else i + 1.

Lemma getlr_sys_any d i m : 1 <= n ->
  (getlr_inrange n i = true -> Fresh (sto m) d (nb d i)) ->
  (getlr_inrange n i = false -> current n (sto m) d i = []) -> Good m ->
  getlr_post m (getlr n d i true m)
             (if getlr_inrange n i then env_set (sto m) d i (current n (sto m) d i) else sto m).
Proof.
  intros Hn H1 H2 Hg. destruct (getlr_inrange n i) eqn:Hr.
  - apply getlr_system; auto.
  - apply getlr_sentinel; auto.
Qed.

Lemma getlr_env_any d i m :
  (getlr_inrange n i = true -> Fresh (sto m) d i) ->
  (getlr_inrange n i = false -> current n (sto m) d i = []) -> Good m ->
  getlr_post m (getlr n d i false m) (sto m).
Proof.
  intros H1 H2 Hg. destruct (getlr_inrange n i) eqn:Hr.
  - apply getlr_enviro; auto.
  - apply getlr_sentinel; auto.
Qed.

Lemma fresh_after s d k dW j (b : bool) w1 w2 :
  (Fresh s d k \/ (b = true /\ d = dW /\ k = j)) ->
  ~ In w1 (deps n d k) -> ~ In w2 (deps n d k) ->
  Fresh (bump (bump (if b then env_set s dW j (current n s dW j) else s) w1) w2) d k.
Proof.
  intros H Hw1 Hw2. apply fresh_bump; [|exact Hw2]. apply fresh_bump; [|exact Hw1].
  destruct b.
  - destruct (Bool.bool_dec d dW) as [->|Hd].
    + destruct (Z.eq_dec k j) as [->|Hk].
      * apply fresh_set_same.
      * destruct H as [H|[_ [_ H]]]; [|contradiction]. apply fresh_set_other; [exact H|]. intros E. inversion E. contradiction.
    + destruct H as [H|[_ [H _]]]; [|contradiction]. apply fresh_set_other; [exact H|]. intros E. inversion E. contradiction.
  - destruct H as [H|[H _]]; [exact H|discriminate].
Qed.

(* ------------------------------------------------------------------ the invariant *)
Definition dl (two tr : bool) : Z := if tr || two then 2 else 1.
Definition dr (two tr : bool) : Z := if negb tr || two then 2 else 1.

Record Inv (two tr : bool) (i : Z) (s : store) : Prop := {
  inv_Ls : Fresh s true (-1);
  inv_Rs : Fresh s false n;
  inv_L : forall k, -1 <= k <= i - dl two tr -> Fresh s true k;
  inv_R : forall k, i + dr two tr <= k <= n -> Fresh s false k }.

Lemma step_unfold two i m :
  step two n i m =
  let tr := to_right m in
  let c := sweep_cidx two tr n i in
  let m1 := getlr n false (sweep_ridx two tr n i) (sweep_rsystem two tr)
              (getlr n true (sweep_lidx two tr n i) (sweep_lsystem two tr) m) in
  let m3 := fold_left set_site (upd_writes tr n c) (add_ev m1 (EvSolve c)) in
  set_gauge m3 tr (upd_qnidx tr n (qnidx m3) c).
Proof. reflexivity. Qed.

Lemma upd_writes_1 tr i :
  upd_writes tr n [i] = if tr then (if negb (i =? n - 1) then [i; i + 1] else [i; i])
                        else (if negb (i =? 0) then [i; i - 1] else [i; i]).
Proof. reflexivity. Qed.

Lemma upd_writes_2 tr a b : upd_writes tr n [a; b] = if tr then [a; b] else [b; a].
Proof. reflexivity. Qed.

(* the part of a step after the two GetLR calls *)
Lemma finish_step (m1 : mstate) tr c w1 w2 q :
  upd_writes tr n c = [w1; w2] ->
  let m3 := fold_left set_site (upd_writes tr n c) (add_ev m1 (EvSolve c)) in
  let m' := set_gauge m3 tr q in
  sto m' = bump (bump (sto m1) w1) w2 /\ obsl m' = obsl m1 /\ to_right m' = tr /\
  csol (log m') = c :: csol (log m1).
Proof. intros ->. cbn. repeat split. Qed.

Hypothesis Hn : 1 <= n.

Ltac arith_side :=
  first [ apply notin_deps_L; lia | apply notin_deps_R; lia ].

(* one loop pass of a to_right sweep at imps = i *)
Lemma step_right (two : bool) i m :
  to_right m = true -> 0 <= i -> i <= (if two then n - 2 else n - 1) ->
  Inv two true i (sto m) -> Good m ->
  let m' := step two n i m in
  Good m' /\ to_right m' = true /\ Inv two true (i + 1) (sto m') /\
  csol (log m') = sweep_cidx two true n i :: csol (log m).
Proof.
  intros Htr H0 H1 HI Hg. rewrite step_unfold, Htr. cbn zeta.
  (* GetLR("L", lidx, "System") *)
  assert (Hlidx : sweep_lidx two true n i = i - 1) by (destruct two; reflexivity).
  assert (Hls : sweep_lsystem two true = true) by reflexivity.
  assert (Hrs : sweep_rsystem two true = false) by reflexivity.
  rewrite Hlidx, Hls, Hrs.
  set (rid := sweep_ridx two true n i).
  assert (Hrid : rid = i + dr two true) by (subst rid; destruct two; reflexivity).
  assert (Hdr : 1 <= dr two true <= 2) by (destruct two; cbn; lia).
  assert (Hdl : dl two true = 2) by (destruct two; reflexivity).
  assert (Hrn : rid <= n) by (rewrite Hrid; destruct two; cbn in *; lia).
  destruct (getlr_sys_any true (i - 1) m Hn) as [gA sA tA qA lA]; [ | | exact Hg | ].
  { intros Hr. apply inrange_iff in Hr. cbn [nb]. apply (inv_L _ _ _ _ HI). lia. }
  { intros Hr. apply inrange_false_iff in Hr. apply current_L_empty. lia. }
  set (mA := getlr n true (i - 1) true m) in *.
  set (b := getlr_inrange n (i - 1)) in *.
  set (s1 := if b then env_set (sto m) true (i - 1) (current n (sto m) true (i - 1)) else sto m) in *.
  (* GetLR("R", ridx, "Enviro") *)
  destruct (getlr_env_any false rid mA) as [gB sB tB qB lB]; [ | | exact gA | ].
  { intros Hr. apply inrange_iff in Hr. rewrite sA. subst s1. destruct b.
    - apply fresh_set_other; [|discriminate]. apply (inv_R _ _ _ _ HI). lia.
    - apply (inv_R _ _ _ _ HI). lia. }
  { intros Hr. apply inrange_false_iff in Hr. apply current_R_empty. lia. }
  set (mB := getlr n false rid false mA) in *.
  (* the two stores *)
  set (c := sweep_cidx two true n i).
  assert (Hw : exists w2, upd_writes true n c = [i; w2] /\ i <= w2 <= i + 1 /\ w2 < n).
  { subst c. destruct two.
    - exists (i + 1). change (sweep_cidx true true n i) with [i; i + 1]. rewrite upd_writes_2.
      cbn [dr dl negb orb] in *. repeat split; lia.
    - change (sweep_cidx false true n i) with [i]. rewrite upd_writes_1. cbn [negb].
      destruct (Z.eqb_spec i (n - 1)) as [E|E]; cbn [negb].
      + exists i. cbn [dr dl negb orb] in *. repeat split; lia.
      + exists (i + 1). cbn [dr dl negb orb] in *. repeat split; lia. }
  destruct Hw as [w2 [Hw [Hw2 Hw2n]]].
  destruct (finish_step mB true c i w2 (upd_qnidx true n (qnidx (fold_left set_site (upd_writes true n c) (add_ev mB (EvSolve c)))) c) Hw)
    as [Hs [Ho [Ht Hc]]].
  cbv zeta in Hs, Ho, Ht, Hc.
  split; [unfold Good; rewrite Ho; exact gB|]. split; [exact Ht|]. split.
  - rewrite Hs, sB, sA. subst s1. constructor.
    + apply fresh_after; [left; apply (inv_Ls _ _ _ _ HI)| arith_side | arith_side].
    + apply fresh_after; [left; apply (inv_Rs _ _ _ _ HI)| arith_side | arith_side].
    + intros k Hk. rewrite Hdl in Hk. apply fresh_after; [| arith_side | arith_side].
      destruct (Z.eq_dec k (i - 1)) as [->|Hne].
      * destruct (Z.eq_dec i 0) as [->|Hi0].
        -- left. apply (inv_Ls _ _ _ _ HI).
        -- right. split; [|split; reflexivity]. subst b. apply inrange_iff. lia.
      * left. apply (inv_L _ _ _ _ HI). rewrite Hdl. lia.
    + intros k Hk. apply fresh_after; [| arith_side | arith_side].
      left. apply (inv_R _ _ _ _ HI). lia.
  - rewrite Hc, lB, lA. reflexivity.
Qed.

(* one loop pass of a to_left sweep at imps = i *)
Lemma step_left (two : bool) i m :
  to_right m = false -> (if two then 1 else 0) <= i -> i <= n - 1 ->
  Inv two false i (sto m) -> Good m ->
  let m' := step two n i m in
  Good m' /\ to_right m' = false /\ Inv two false (i - 1) (sto m') /\
  csol (log m') = sweep_cidx two false n i :: csol (log m).
Proof.
  intros Htr H0 H1 HI Hg. rewrite step_unfold, Htr. cbn zeta.
  assert (Hridx : sweep_ridx two false n i = i + 1) by (destruct two; reflexivity).
  assert (Hls : sweep_lsystem two false = false) by reflexivity.
  assert (Hrs : sweep_rsystem two false = true) by reflexivity.
  rewrite Hridx, Hls, Hrs.
  set (lid := sweep_lidx two false n i).
  assert (Hlid : lid = i - dl two false) by (subst lid; destruct two; reflexivity).
  assert (Hdl : 1 <= dl two false <= 2) by (destruct two; cbn; lia).
  assert (Hdr : dr two false = 2) by (destruct two; reflexivity).
  assert (Hln : -1 <= lid) by (rewrite Hlid; destruct two; cbn in *; lia).
  (* GetLR("L", lidx, "Enviro") *)
  destruct (getlr_env_any true lid m) as [gA sA tA qA lA]; [ | | exact Hg | ].
  { intros Hr. apply inrange_iff in Hr. apply (inv_L _ _ _ _ HI). lia. }
  { intros Hr. apply inrange_false_iff in Hr. apply current_L_empty. lia. }
  set (mA := getlr n true lid false m) in *.
  (* GetLR("R", ridx, "System") *)
  destruct (getlr_sys_any false (i + 1) mA Hn) as [gB sB tB qB lB]; [ | | exact gA | ].
  { intros Hr. apply inrange_iff in Hr. cbn [nb]. rewrite sA. apply (inv_R _ _ _ _ HI). lia. }
  { intros Hr. apply inrange_false_iff in Hr. apply current_R_empty. lia. }
  set (mB := getlr n false (i + 1) true mA) in *.
  rewrite sA in sB.
  set (b := getlr_inrange n (i + 1)) in *.
  set (c := sweep_cidx two false n i).
  assert (Hw : exists w2, upd_writes false n c = [i; w2] /\ i - 1 <= w2 <= i /\ 0 <= w2).
  { subst c. destruct two.
    - exists (i - 1). change (sweep_cidx true false n i) with [i - 1; i]. rewrite upd_writes_2.
      cbn [dr dl negb orb] in *. repeat split; lia.
    - change (sweep_cidx false false n i) with [i]. rewrite upd_writes_1.
      destruct (Z.eqb_spec i 0) as [E|E]; cbn [negb].
      + exists i. cbn [dr dl negb orb] in *. repeat split; lia.
      + exists (i - 1). cbn [dr dl negb orb] in *. repeat split; lia. }
  destruct Hw as [w2 [Hw [Hw2 Hw20]]].
  destruct (finish_step mB false c i w2 (upd_qnidx false n (qnidx (fold_left set_site (upd_writes false n c) (add_ev mB (EvSolve c)))) c) Hw)
    as [Hs [Ho [Ht Hc]]].
  cbv zeta in Hs, Ho, Ht, Hc.
  split; [unfold Good; rewrite Ho; exact gB|]. split; [exact Ht|]. split.
  - rewrite Hs, sB. constructor.
    + apply fresh_after; [left; apply (inv_Ls _ _ _ _ HI)| arith_side | arith_side].
    + apply fresh_after; [left; apply (inv_Rs _ _ _ _ HI)| arith_side | arith_side].
    + intros k Hk. apply fresh_after; [| arith_side | arith_side].
      left. apply (inv_L _ _ _ _ HI). lia.
    + intros k Hk. rewrite Hdr in Hk. apply fresh_after; [| arith_side | arith_side].
      destruct (Z.eq_dec k (i + 1)) as [->|Hne].
      * destruct (Z.eq_dec i (n - 1)) as [->|Hi0].
        -- left. replace (n - 1 + 1) with n by lia. apply (inv_Rs _ _ _ _ HI).
        -- right. split; [|split; reflexivity]. subst b. apply inrange_iff. lia.
      * left. apply (inv_R _ _ _ _ HI). rewrite Hdr. lia.
  - rewrite Hc, lB, lA. reflexivity.
Qed.

(* ------------------------------------------------------------------ the loop *)
Lemma break_right two i : sweep_break two true n i = two && (i =? n - 1).
Proof. unfold sweep_break. destruct two; cbn [negb andb orb]; [rewrite orb_false_r|]; reflexivity. Qed.

Lemma break_left two i : sweep_break two false n i = two && (i =? 0).
Proof. unfold sweep_break. destruct two; cbn [negb andb orb]; reflexivity. Qed.

Definition end_right (two : bool) : Z := if two then n - 1 else n.
Definition end_left (two : bool) : Z := if two then 0 else -1.

Lemma loop_right (two : bool) : forall (cnt : nat) i m,
  Z.to_nat (n - i) = cnt -> 0 <= i -> i <= end_right two ->
  to_right m = true -> Inv two true i (sto m) -> Good m ->
  let m' := sweep_loop two n (py_range i n 1) m in
  Good m' /\ to_right m' = true /\ Inv two true (end_right two) (sto m') /\
  csol (log m') = rev (map (sweep_cidx two true n) (zrange i (end_right two))) ++ csol (log m).
Proof.
  induction cnt as [|cnt IH]; intros i m Hc H0 H1 Htr HI Hg.
  - assert (i = n) by (unfold end_right in H1; destruct two; lia). subst i.
    rewrite py_range_up_nil by lia. cbn [sweep_loop].
    assert (end_right two = n) by (unfold end_right in *; destruct two; lia).
    rewrite H. rewrite zrange_nil by lia. (split; [assumption|split; [assumption|split; [assumption|reflexivity]]]).
  - assert (Hin : i < n) by lia.
    rewrite py_range_up_cons by lia. cbn [sweep_loop]. rewrite Htr, break_right.
    destruct two.
    + cbn [andb]. unfold end_right in *. destruct (Z.eqb_spec i (n - 1)) as [E|E].
      * subst i. rewrite zrange_nil by lia. (split; [assumption|split; [assumption|split; [assumption|reflexivity]]]).
      * destruct (step_right true i m Htr H0) as [g1 [t1 [I1 c1]]]; [lia|exact HI|exact Hg|].
        cbv zeta in g1, t1, I1, c1.
        destruct (IH (i + 1) (step true n i m)) as [g2 [t2 [I2 c2]]]; try assumption; try lia.
        split; [assumption|split; [assumption|split; [assumption|]]].
        rewrite c2, c1. rewrite (zrange_cons i (n - 1)) by lia. cbn [map rev]. rewrite <- app_assoc. reflexivity.
    + cbn [andb]. unfold end_right in *.
      destruct (step_right false i m Htr H0) as [g1 [t1 [I1 c1]]]; [lia|exact HI|exact Hg|].
      cbv zeta in g1, t1, I1, c1.
      destruct (IH (i + 1) (step false n i m)) as [g2 [t2 [I2 c2]]]; try assumption; try lia.
      split; [assumption|split; [assumption|split; [assumption|]]].
      rewrite c2, c1. rewrite (zrange_cons i n) by lia. cbn [map rev]. rewrite <- app_assoc. reflexivity.
Qed.

Lemma loop_left (two : bool) : forall (cnt : nat) i m,
  Z.to_nat (i + 1) = cnt -> end_left two <= i -> i <= n - 1 ->
  to_right m = false -> Inv two false i (sto m) -> Good m ->
  let m' := sweep_loop two n (py_range i (-1) (-1)) m in
  Good m' /\ to_right m' = false /\ Inv two false (end_left two) (sto m') /\
  csol (log m') = map (sweep_cidx two false n) (zrange (end_left two + 1) (i + 1)) ++ csol (log m).
Proof.
  induction cnt as [|cnt IH]; intros i m Hc H0 H1 Htr HI Hg.
  - assert (i = -1) by (unfold end_left in H0; destruct two; lia). subst i.
    rewrite py_range_down_nil by lia. cbn [sweep_loop].
    assert (end_left two = -1) by (unfold end_left in *; destruct two; lia).
    rewrite H. rewrite zrange_nil by lia. (split; [assumption|split; [assumption|split; [assumption|reflexivity]]]).
  - assert (Hin : -1 < i) by lia.
    rewrite py_range_down_cons by lia. cbn [sweep_loop]. rewrite Htr, break_left.
    destruct two.
    + cbn [andb]. unfold end_left in *. destruct (Z.eqb_spec i 0) as [E|E].
      * subst i. rewrite zrange_nil by lia. (split; [assumption|split; [assumption|split; [assumption|reflexivity]]]).
      * destruct (step_left true i m Htr) as [g1 [t1 [I1 c1]]]; [lia|lia|exact HI|exact Hg|].
        cbv zeta in g1, t1, I1, c1.
        destruct (IH (i - 1) (step true n i m)) as [g2 [t2 [I2 c2]]]; try assumption; try lia.
        split; [assumption|split; [assumption|split; [assumption|]]].
        rewrite c2, c1. replace (i - 1 + 1) with i by lia. rewrite (zrange_snoc (0 + 1) i) by lia.
        rewrite map_app. cbn [map]. rewrite <- app_assoc. reflexivity.
    + cbn [andb]. unfold end_left in *.
      destruct (step_left false i m Htr) as [g1 [t1 [I1 c1]]]; [lia|lia|exact HI|exact Hg|].
      cbv zeta in g1, t1, I1, c1.
      destruct (IH (i - 1) (step false n i m)) as [g2 [t2 [I2 c2]]]; try assumption; try lia.
      split; [assumption|split; [assumption|split; [assumption|]]].
      rewrite c2, c1. replace (i - 1 + 1) with i by lia. rewrite (zrange_snoc (-1 + 1) i) by lia.
      rewrite map_app. cbn [map]. rewrite <- app_assoc. reflexivity.
Qed.

(* ------------------------------------------------------------------ whole sweeps *)
(* between sweeps: the gauge centre sits at the end the next sweep starts from *)
Definition GInv (two : bool) (m : mstate) : Prop :=
  Good m /\ qnidx m = (if to_right m then 0 else n - 1) /\
  Inv two (to_right m) (if to_right m then 0 else n - 1) (sto m).

(* solves of one sweep, newest first *)
Definition sweep_csol (two tr : bool) : list (list Z) :=
  if tr then rev (map (sweep_cidx two true n) (zrange 0 (end_right two)))
  else map (sweep_cidx two false n) (zrange (end_left two + 1) n).

Lemma sweep_ok two m :
  GInv two m ->
  GInv two (sweep two n m) /\ to_right (sweep two n m) = negb (to_right m) /\
  csol (log (sweep two n m)) = sweep_csol two (to_right m) ++ csol (log m).
Proof.
  intros [Hg [Hq HI]]. unfold sweep. destruct (to_right m) eqn:Htr.
  - change (iter_start true n (qnidx m)) with (qnidx m). change (iter_stop true n (qnidx m)) with n.
    change (iter_step true n (qnidx m)) with 1. rewrite Hq.
    destruct (loop_right two (Z.to_nat (n - 0)) 0 m) as [g [t [I c]]]; try assumption; try reflexivity; try lia.
    { unfold end_right. destruct two; lia. }
    cbv zeta in g, t, I, c. set (m' := sweep_loop two n (py_range 0 n 1) m) in *.
    unfold switch. rewrite t. cbn [to_right qnidx sto log obsl add_ev set_gauge switch_to_right switch_qnidx csol flat_map app].
    split; [|split; [reflexivity|exact c]].
    split; [exact g|]. split; [reflexivity|].
    cbn [to_right set_gauge add_ev].
    constructor.
    + apply (inv_Ls _ _ _ _ I).
    + apply (inv_Rs _ _ _ _ I).
    + intros k Hk. apply (inv_L _ _ _ _ I). unfold end_right, dl in *. destruct two; cbn [orb negb] in *; lia.
    + intros k Hk. unfold dr in Hk. cbn [negb orb] in Hk. lia.
  - change (iter_start false n (qnidx m)) with (qnidx m). change (iter_stop false n (qnidx m)) with (-1).
    change (iter_step false n (qnidx m)) with (-1). rewrite Hq.
    destruct (loop_left two (Z.to_nat (n - 1 + 1)) (n - 1) m) as [g [t [I c]]]; try assumption; try reflexivity; try lia.
    { unfold end_left. destruct two; lia. }
    cbv zeta in g, t, I, c. set (m' := sweep_loop two n (py_range (n - 1) (-1) (-1)) m) in *.
    unfold switch. rewrite t. cbn [to_right qnidx sto log obsl add_ev set_gauge switch_to_right switch_qnidx csol flat_map app].
    split; [|split; [reflexivity|]].
    2:{ etransitivity; [exact c|]. replace (n - 1 + 1) with n by lia. reflexivity. }
    split; [exact g|]. split; [reflexivity|].
    cbn [to_right set_gauge add_ev].
    constructor.
    + apply (inv_Ls _ _ _ _ I).
    + apply (inv_Rs _ _ _ _ I).
    + intros k Hk. unfold dl in Hk. cbn [orb] in Hk. lia.
    + intros k Hk. apply (inv_R _ _ _ _ I). unfold end_left, dr in *. destruct two; cbn [orb negb] in *; lia.
Qed.

Fixpoint run_csol (two : bool) (tr : bool) (k : nat) : list (list Z) :=
  match k with O => [] | S k' => run_csol two (negb tr) k' ++ sweep_csol two tr end.

Lemma run_ok two : forall k m,
  GInv two m ->
  GInv two (run two n k m) /\ csol (log (run two n k m)) = run_csol two (to_right m) k ++ csol (log m).
Proof.
  induction k as [|k IH]; intros m H.
  - split; [exact H|reflexivity].
  - cbn [run run_csol]. destruct (sweep_ok two m H) as [H1 [H2 H3]].
    destruct (IH _ H1) as [H4 H5]. split; [exact H4|].
    rewrite H5, H2, H3, app_assoc. reflexivity.
Qed.

(* ------------------------------------------------------------------ Environ(mps, mpo, domain) *)
Lemma cons_pre_eq isL : cons_pre isL n = [OpSentinel; OpWrite true (-1); OpSentinel; OpWrite false n; OpSentinel].
Proof. reflexivity. Qed.
Lemma cons_body_eq isL idx : cons_body isL n idx = [OpExtend isL idx; OpWrite isL idx].
Proof. reflexivity. Qed.

Record CInv (isL : bool) (j : Z) (m0 m : mstate) : Prop := {
  ci_hand : hand m = current n (sto m) isL (if isL then j - 1 else j + 1);
  ci_Ls : Fresh (sto m) true (-1);
  ci_Rs : Fresh (sto m) false n;
  ci_fr : forall k, (if isL then -1 <= k <= j - 1 else j + 1 <= k <= n) -> Fresh (sto m) isL k;
  ci_obs : obsl m = obsl m0;
  ci_tr : to_right m = to_right m0;
  ci_q : qnidx m = qnidx m0;
  ci_sol : csol (log m) = csol (log m0) }.

Lemma cons_body_step isL j m0 m :
  0 <= j < n -> CInv isL j m0 m ->
  CInv isL (if isL then j + 1 else j - 1) m0 (run_ops n m (cons_body isL n j)).
Proof.
  intros Hj [h ls rs fr ob tr q sl]. rewrite cons_body_eq. cbn [run_ops fold_left run_op].
  assert (Hh : extend (sto m) isL j (hand m) = current n (sto m) isL j).
  { rewrite h. destruct isL; cbn [extend].
    - rewrite (current_L_snoc (sto m) j) by lia. reflexivity.
    - rewrite (current_R_cons (sto m) j) by lia. reflexivity. }
  cbn [sto hand set_hand set_sto add_ev]. rewrite Hh.
  constructor; cbn [sto hand obsl to_right qnidx log set_hand set_sto add_ev csol flat_map app]; try assumption.
  - rewrite current_env_set. destruct isL; f_equal; lia.
  - destruct isL.
    + destruct (Z.eq_dec j (-1)); [lia|]. apply fresh_set_other; [exact ls|]. intros E; inversion E; lia.
    + apply fresh_set_other; [exact ls|discriminate].
  - destruct isL.
    + apply fresh_set_other; [exact rs|discriminate].
    + apply fresh_set_other; [exact rs|]. intros E; inversion E; lia.
  - intros k Hk. destruct (Z.eq_dec k j) as [->|Hne].
    + apply fresh_set_same.
    + apply fresh_set_other; [|intros E; inversion E; contradiction]. apply fr. destruct isL; lia.
Qed.

Lemma cons_loop_up m0 : forall (cnt : nat) j m,
  Z.to_nat (n - 1 - j) = cnt -> 0 <= j <= n - 1 -> CInv true j m0 m ->
  CInv true (n - 1) m0 (fold_left (fun m idx => run_ops n m (cons_body true n idx)) (py_range j (n - 1) 1) m).
Proof.
  induction cnt as [|cnt IH]; intros j m Hc Hj HI.
  - assert (j = n - 1) by lia. subst j. rewrite py_range_up_nil by lia. exact HI.
  - rewrite py_range_up_cons by lia. cbn [fold_left]. apply (IH (j + 1)); try lia.
    apply (cons_body_step true j m0 m); [lia|exact HI].
Qed.

Lemma cons_loop_down m0 : forall (cnt : nat) j m,
  Z.to_nat j = cnt -> 0 <= j <= n - 1 -> CInv false j m0 m ->
  CInv false 0 m0 (fold_left (fun m idx => run_ops n m (cons_body false n idx)) (py_range j 0 (-1)) m).
Proof.
  induction cnt as [|cnt IH]; intros j m Hc Hj HI.
  - assert (j = 0) by lia. subst j. rewrite py_range_down_nil by lia. exact HI.
  - rewrite py_range_down_cons by lia. cbn [fold_left]. apply (IH (j - 1)); try lia.
    apply (cons_body_step false j m0 m); [lia|exact HI].
Qed.

Lemma init_ok two isL sv : GInv two (init n isL sv) /\ csol (log (init n isL sv)) = [] /\ to_right (init n isL sv) = negb isL.
Proof.
  unfold init, construct. rewrite cons_pre_eq.
  set (m00 := mkM (negb isL) (if isL then n - 1 else 0) (empty_store sv) [] [] []).
  set (m0 := run_ops n (add_ev m00 (EvConstruct isL)) _).
  assert (H0 : CInv isL (if isL then 0 else n - 1) m00 m0).
  { subst m0 m00. cbn [run_ops fold_left run_op add_ev set_hand set_sto sto hand log].
    constructor; cbn [sto hand obsl to_right qnidx log set_hand set_sto add_ev csol flat_map app]; try reflexivity.
    - destruct isL.
      + rewrite current_L_empty by lia. reflexivity.
      + rewrite current_R_empty by lia. reflexivity.
    - red. cbn. rewrite Z.eqb_refl. rewrite zrange_nil by lia. reflexivity.
    - intros k Hk. destruct isL.
      + assert (k = -1) by lia. subst k. reflexivity.
      + assert (k = n) by lia. subst k. red. cbn. rewrite Z.eqb_refl. rewrite zrange_nil by lia. reflexivity. }
  destruct isL.
  - change (cons_start true n) with 0. change (cons_stop true n) with (n - 1). change (cons_step true n) with 1.
    pose proof (cons_loop_up m00 (Z.to_nat (n - 1 - 0)) 0 m0 eq_refl ltac:(lia) H0) as [h ls rs fr ob tr q sl].
    split; [|split; [exact sl|exact tr]].
    split; [unfold Good; rewrite ob; constructor|]. rewrite tr, q. subst m00. cbn [to_right qnidx negb].
    split; [reflexivity|]. constructor; try assumption.
    + intros k Hk. apply fr. unfold dl in Hk. destruct two; cbn [orb negb] in Hk; lia.
    + intros k Hk. unfold dr in Hk. cbn [negb orb] in Hk. lia.
  - change (cons_start false n) with (n - 1). change (cons_stop false n) with 0. change (cons_step false n) with (-1).
    pose proof (cons_loop_down m00 (Z.to_nat (n - 1)) (n - 1) m0 eq_refl ltac:(lia) H0) as [h ls rs fr ob tr q sl].
    split; [|split; [exact sl|exact tr]].
    split; [unfold Good; rewrite ob; constructor|]. rewrite tr, q. subst m00. cbn [to_right qnidx negb].
    split; [reflexivity|]. constructor; try assumption.
    + intros k Hk. unfold dl in Hk. cbn [orb negb] in Hk. lia.
    + intros k Hk. apply fr. unfold dr in Hk. destruct two; cbn [negb orb] in Hk; lia.
Qed.

End Fresh.

(* ------------------------------------------------------------------ the theorems *)
Theorem env_fresh_all : forall (n : Z) (two input_left_canonical : bool) (sweeps : nat) (sv : Z -> nat),
  1 <= n -> Forall obs_ok (obsl (optimize two n input_left_canonical sweeps sv)).
Proof.
  intros n two il k sv Hn. unfold optimize.
  destruct (init_ok n Hn two (init_env_isL il) sv) as [H _].
  destruct (run_ok n Hn two k _ H) as [[Hg _] _]. exact Hg.
Qed.

(* ------------------------------------------------------------------ coverage *)
Lemma centres_csol m : centres m = rev (csol (log m)).
Proof.
  unfold centres, csol. induction (log m) as [|e l IH]; [reflexivity|].
  cbn [rev flat_map]. rewrite flat_map_app, IH. cbn [flat_map]. rewrite app_nil_r.
  destruct e; cbn [app rev]; rewrite ?app_nil_r; reflexivity.
Qed.

Lemma zrange_shift a b : zrange (a + 1) (b + 1) = map (fun x => x + 1) (zrange a b).
Proof.
  unfold zrange. rewrite map_map. replace (b + 1 - (a + 1)) with (b - a) by lia.
  apply map_ext. intros k. lia.
Qed.

Lemma sweep_csol_centres n two tr : rev (sweep_csol n two tr) = sweep_centres two n tr.
Proof.
  unfold sweep_csol, sweep_centres, sweep_centres_right, end_right, end_left. destruct tr.
  - rewrite rev_involutive. apply map_ext. intros i. destruct two; reflexivity.
  - f_equal. destruct two.
    + cbn [Z.add]. change 1 with (0 + 1) at 1. replace (zrange (0 + 1) n) with (zrange (0 + 1) (n - 1 + 1)) by (f_equal; lia).
      rewrite (zrange_shift 0 (n - 1)), map_map.
      apply map_ext. intros i. cbn. f_equal. lia.
    + replace (-1 + 1) with 0 by lia. apply map_ext. intros i. reflexivity.
Qed.

Lemma dir_of_S tr j : dir_of tr (S j) = dir_of (negb tr) j.
Proof.
  unfold dir_of. rewrite Nat.even_succ, <- Nat.negb_even. destruct (Nat.even j), tr; reflexivity.
Qed.

Lemma run_csol_centres n two : forall k tr,
  rev (run_csol n two tr k) = concat (map (fun j => sweep_centres two n (dir_of tr j)) (seq 0 k)).
Proof.
  induction k as [|k IH]; intros tr; [reflexivity|].
  cbn [run_csol]. rewrite rev_app_distr, sweep_csol_centres, IH.
  cbn [seq map concat]. f_equal. rewrite <- seq_shift, map_map. f_equal. apply map_ext.
  intros j. rewrite dir_of_S. reflexivity.
Qed.

Theorem sweep_coverage_all : forall (n : Z) (two input_left_canonical : bool) (sweeps : nat) (sv : Z -> nat),
  1 <= n ->
  centres (optimize two n input_left_canonical sweeps sv) =
  concat (map (fun j => sweep_centres two n (dir_of (negb (init_env_isL input_left_canonical)) j)) (seq 0 sweeps)).
Proof.
  intros n two il k sv Hn. unfold optimize.
  destruct (init_ok n Hn two (init_env_isL il) sv) as [H [Hc Ht]].
  destruct (run_ok n Hn two k _ H) as [_ Hr].
  rewrite centres_csol, Hr, Hc, app_nil_r, Ht. apply run_csol_centres.
Qed.

(* the centres of one sweep are what the property says: every site once (1-site), every adjacent pair once (2-site), in order *)
Lemma sweep_centres_right_1site n : sweep_centres_right false n = map (fun i => [i]) (zrange 0 n).
Proof. reflexivity. Qed.
Lemma sweep_centres_right_2site n : sweep_centres_right true n = map (fun i => [i; i + 1]) (zrange 0 (n - 1)).
Proof. reflexivity. Qed.

(* each read is a cached environment: the version-stamp discipline also yields that no read ever misses *)
Corollary env_never_missing : forall n two il k sv, 1 <= n ->
  Forall (fun o => o_found o <> None) (obsl (optimize two n il k sv)).
Proof.
  intros. eapply Forall_impl; [|apply env_fresh_all; assumption].
  intros o Ho. unfold obs_ok in Ho. rewrite Ho. discriminate.
Qed.

(* ------------------------------------------------------------------ the bond whose limit _update_mps reads *)
(* bond k lies to the left of site k.  Two sites: the bond between the two active sites, in both directions and in both the
   single-state and the state-averaged branch; one site: the bond the centre moves across. *)
Definition active_bond (two to_right : bool) (cidx : list Z) : Z :=
  if two then nth 1 cidx dead else if to_right then nth 0 cidx dead + 1 else nth 0 cidx dead.

Theorem trunc_bond_is_active_bond_all : forall (two to_right : bool) (n imps : Z),
  fixed_bond to_right (mtrunc_idx_single to_right (sweep_cidx two to_right n imps)) = active_bond two to_right (sweep_cidx two to_right n imps) /\
  fixed_bond to_right (mtrunc_idx_averaged to_right (sweep_cidx two to_right n imps)) = active_bond two to_right (sweep_cidx two to_right n imps).
Proof. intros two tr n imps. destruct two, tr; cbn; split; lia. Qed.

(* every local operator handed to an eigen-solver is inverse * H_eff: the dense matrix, the diagonal used by the preconditioner
   and the matrix-vector product all carry the factor *)
Theorem inverse_applied_everywhere_all : inverse_on_dense = true /\ inverse_on_diagonal = true /\ inverse_on_matvec = true.
Proof. repeat split. Qed.

(* ------------------------------------------------------------------ the operator of the omega branch *)
(* dense meaning of an operator expression over ANY module of operators (M, add, scale, one) with scalars K:
   `given` is the operator handed to optimize_mps, `modelH` the Hamiltonian of its model (offset o: modelH - o) *)
Section OmegaOperator.
Variables (M K : Type) (madd : M -> M -> M) (mscale : K -> M -> M) (mone : M) (kopp : K -> K) (kzero : K).
Variable omega : K.
Variables given modelH : M.
Definition coef_den (c : ocoef) : K := match c with CNegOmega => kopp omega | COmega => omega | CZero => kzero end.
Fixpoint op_den (e : opexpr) : M :=
  match e with
  | OGiven => given
  | OIdentity => mone
  | OScale c e' => mscale (coef_den c) (op_den e')
  | OAdd a b => madd (op_den a) (op_den b)
  | OModel o => madd modelH (mscale (kopp (coef_den o)) mone)
  end.
End OmegaOperator.

(* for EVERY given operator (whatever the model's own Hamiltonian is) the operator whose square is minimised is  given - omega * 1 *)
Theorem omega_operator_is_given_minus_omega_all :
  forall (M K : Type) (madd : M -> M -> M) (mscale : K -> M -> M) (mone : M) (kopp : K -> K) (kzero omega : K) (given modelH : M),
  op_den M K madd mscale mone kopp kzero omega given modelH omega_shifted_operator = madd given (mscale (kopp omega) mone).
Proof. intros. reflexivity. Qed.

(* ------------------------------------------------------------------ eigen-solver dispatch *)
From Coq Require Import String.
(* a branch asks for the algebraically smallest eigenpair(s) *)
Definition requests_smallest (s : selector) : bool :=
  match s with
  | SelDavidson => true                               (* lowest Ritz values of the subspace matrix (translator checks `e = w[:nroots]`, no `pick`) *)
  | SelWhich w => String.eqb w "SA"%string            (* ARPACK / PRIMME: Smallest Algebraic *)
  | SelEighIndex i => Nat.eqb i 0                     (* dense eigh returns the spectrum ascending *)
  end.

Theorem solvers_request_smallest_all :
  Forall (fun x => requests_smallest (snd x) = true) tree_solvers /\
  Forall (fun x => requests_smallest (snd x) = true) chain_iter_solvers /\
  requests_smallest chain_direct_solver = true.
Proof. repeat split; repeat constructor. Qed.
