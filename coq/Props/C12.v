(* C12 -- Tree tensor network time evolution matches the exact propagator.
   Only statements, closed by [exact], with Print Assumptions beneath.  The model (Model/TreeSweep.v) is
   hand-written from renormalizer/tn/time_evolution.py and tied to it by exact event-trace correspondence
   (harness/c12.py); the accuracy of the schemes themselves is not a theorem here (see notes/C12.md).
   All statements hold for every tree (any shape, any number of nodes >= 1, in particular >= 2); where
   events are counted per node the node ids must be distinct ([NoDup (ids t)]), as node_idx is in the code. *)
From Coq Require Import List ZArith Arith Bool Permutation.
Import ListNotations.
From RV Require Import Model.TreeSweep Proofs.TreeSweepProofs.
Local Open Scope Z_scope.

(* --- the `while stack:` loop of _tdvp_ps_forward: terminates within the fuel 2|nodes|+|edges| (it needs
   exactly |nodes|+|edges| iterations), never underflows / trips the assert (error flag false, final stack []),
   produces the recursive schedule [fwd]; one-site steps: every node exactly once with +h (h = tau/2), in
   post-order; bond steps: every non-root node's parent bond exactly once with -h; the orthogonality centre is
   on the evolved tensor / bond at every event and returns to the root *)
Theorem C12_ps_forward_coverage : forall t h fuel,
  NoDup (ids t) -> (fuel_bound t <= fuel)%nat ->
  exists evs,
    ps_forward fuel h t = Some (mkS [] evs false)
    /\ evs = fwd h None t
    /\ ev1_of evs = tag h (postorder t)
    /\ ev0_of evs = tag (- h) (flat_map postorder (tch t))
    /\ covered (ev1_of evs) (ids t) h
    /\ covered (ev0_of evs) (edge_ids t) (- h)
    /\ centre_run (AtNode (tid t)) evs = Some (AtNode (tid t)).
Proof. exact ps_forward_coverage_all. Qed.
Print Assumptions C12_ps_forward_coverage.

(* --- the same for _tdvp_ps_backward (children visited in DEcreasing index since fix 036c1e3): one-site steps
   and bond steps in the exact reverse of the forward order *)
Theorem C12_ps_backward_coverage : forall t h fuel,
  NoDup (ids t) -> (fuel_bound t <= fuel)%nat ->
  exists evs,
    ps_backward fuel h t = Some (mkS [] evs false)
    /\ evs = bwd h None t
    /\ ev1_of evs = tag h (rev (postorder t))
    /\ ev0_of evs = tag (- h) (rev (flat_map postorder (tch t)))
    /\ covered (ev1_of evs) (ids t) h
    /\ covered (ev0_of evs) (edge_ids t) (- h)
    /\ centre_run (AtNode (tid t)) evs = Some (AtNode (tid t)).
Proof. exact ps_backward_coverage_all. Qed.
Print Assumptions C12_ps_backward_coverage.

(* --- fuel: any fuel >= |nodes| + |edges| gives the recursive schedule of the whole step, no error *)
Theorem C12_ps_machine_is_recursive : forall h t fuel, (iters t <= fuel)%nat ->
  ps_step_machine fuel h t = Some (ps_step h t, false).
Proof. exact ps_step_machine_run. Qed.
Print Assumptions C12_ps_machine_is_recursive.

(* --- over the full step (forward then backward, both with h = tau/2): every node is propagated forward for
   tau in total, every bond backward for tau in total, nothing else is propagated *)
Theorem C12_ps_step_times : forall t h, NoDup (ids t) ->
  (forall n, In n (ids t) -> time_at n (ev1_of (ps_step h t)) = 2 * h)
  /\ (forall c, In c (edge_ids t) -> time_at c (ev0_of (ps_step h t)) = - (2 * h))
  /\ (forall n, ~ In n (ids t) -> time_at n (ev1_of (ps_step h t)) = 0)
  /\ (forall c, ~ In c (edge_ids t) -> time_at c (ev0_of (ps_step h t)) = 0).
Proof. exact ps_step_times_all. Qed.
Print Assumptions C12_ps_step_times.

(* --- the backward sweep is the exact time reverse of the forward sweep on EVERY tree (physical events =
   propagations and moves of the centre): the step is a symmetric (Strang) composition, hence second order.
   This became true with fix 036c1e3; before it both sweeps visited the children in increasing index. *)
Theorem C12_ps_symmetric : forall h t,
  phys (bwd h None t) = map mirror (rev (phys (fwd h None t))).
Proof. exact ps_symmetric_all. Qed.
Print Assumptions C12_ps_symmetric.

(* --- documentation of the repaired defect: the old backward order (bwd_inc) was not symmetric on a branching tree *)
Theorem C12_ps_old_order_not_symmetric_refuted :
  exists t h, NoDup (ids t) /\ phys (bwd_inc h None t) <> map mirror (rev (phys (fwd h None t))).
Proof.
  exists (Node 0 [Node 1 []; Node 2 []]), 1. split.
  - repeat constructor; cbn; intuition discriminate.
  - exact ps_old_order_not_symmetric_example.
Qed.
Print Assumptions C12_ps_old_order_not_symmetric_refuted.

(* --- on BasisTree.linear (n sites) the one-site and bond propagations of the whole step, under the site map
   of tree.from_mps (node k = site n-1-k, bond of child c = chain bond n-1-c), are exactly the sequence of
   Mps._evolve_tdvp_ps started with its centre at site 0 (qnidx = 0, to_right = True) *)
Theorem C12_linear_tree_matches_chain : forall h n, (1 <= n)%nat ->
  flat_map (to_chain n) (ps_step h (linear n)) = chain_ps n 0 true h.
Proof. exact linear_matches_chain. Qed.
Print Assumptions C12_linear_tree_matches_chain.

(* --- propagate-and-compress (any tree: the scheme does not look at the topology): the stage combination of
   evolve_prop_and_compress_tdrk4 equals sum_{k<=4} w_k (tau c H)^k y over any module with K-homogeneous H;
   with w_k = 1/k! this is the 4th-order Taylor polynomial of exp(tau c H) *)
Theorem C12_tdrk4_poly :
  forall (K V : Type) (kmul : K -> K -> K) (k1 : K) (vadd : V -> V -> V) (v0 : V) (smul : K -> V -> V)
         (H : V -> V) (w : nat -> K),
    (forall a b, kmul a b = kmul b a) ->
    (forall a b v, smul a (smul b v) = smul (kmul a b) v) ->
    (forall v, smul k1 v = v) ->
    (forall a v, H (smul a v) = smul a (H v)) ->
    forall c tau y,
      tdrk4 K V kmul k1 vadd v0 smul H w c tau y = taylor4 K V vadd v0 smul H w c tau y.
Proof. exact tdrk4_is_taylor4. Qed.
Print Assumptions C12_tdrk4_poly.

(* --- norm conservation of the one-site scheme at ANY bond dimension, given the contract of the local kernels:
   an event applied at the orthogonality centre (cstep_loc accepts it) does not change the norm *)
Theorem C12_tree_ps_norm_conserved :
  forall (S N : Type) (nrm : S -> N) (act : event -> S -> S),
    (forall l e l' s, cstep_loc l e = Some l' -> nrm (act e s) = nrm s) ->
    forall h t s, nrm (apply_events S act (ps_step h t) s) = nrm s.
Proof. exact ps_norm_conserved. Qed.
Print Assumptions C12_tree_ps_norm_conserved.

(* --- two-site scheme: every bond gets exactly one two-site step per sweep (forward: post-order of the child
   ends), and the step is time-symmetric on EVERY tree (its backward recursion iterates reversed(children)) *)
Theorem C12_ps2_coverage : forall h t r, ev2_of (fwd2 h r t) = tag h (flat_map postorder (tch t)).
Proof. exact fwd2_ev2. Qed.
Print Assumptions C12_ps2_coverage.

Theorem C12_ps2_symmetric : forall h t r, evolves (bwd2 h r t) = rev (evolves (fwd2 h r t)).
Proof. exact ps2_symmetric_all. Qed.
Print Assumptions C12_ps2_symmetric.

(* --- every environment read is up to date, the centre is on every evolved object (full replay checker) *)
Theorem C12_tree_env_fresh : forall h T, NoDup (ids T) -> replay_ok T (ps_step h T) = true.
Proof. exact tree_env_fresh_all. Qed.
Print Assumptions C12_tree_env_fresh.

(* the same for the two-site scheme (evolve_2site reads the environments of the children of c, of the other children of
   its parent and the parent's own; update_2site / update_1site / update_1bond rebuild what the next read needs) *)
Theorem C12_ps2_env_fresh : forall h T, NoDup (ids T) -> replay_ok T (ps2_step h T) = true.
Proof. exact ps2_env_fresh_all. Qed.
Print Assumptions C12_ps2_env_fresh.

(* energy: the same argument with the full checker (a local propagation with up-to-date environments acts with
   the true projected Hamiltonian and conserves <H>) *)
Theorem C12_tree_ps_energy_conserved :
  forall (S E : Type) (en : S -> E) (act : event -> S -> S) (T : tree),
    (forall st e st' s, cstep T st e = Some st' -> en (act e s) = en s) ->
    NoDup (ids T) -> forall h s, en (apply_events S act (ps_step h T) s) = en s.
Proof. exact ps_energy_conserved. Qed.
Print Assumptions C12_tree_ps_energy_conserved.

(* --- non-vacuity *)
Example C12_ex_tree : let t := Node 0 [Node 1 [Node 2 []; Node 3 []]; Node 4 []] in
  NoDup (ids t) /\ size t = 5%nat /\ iters t = 9%nat /\ fuel_bound t = 14%nat
  /\ ps_forward 9 1 t <> None /\ ps_forward 8 1 t = None
  /\ ev1_of (fwd 1 None t) = [(2%nat, 1); (3%nat, 1); (1%nat, 1); (4%nat, 1); (0%nat, 1)]
  /\ ev0_of (bwd 1 None t) = [(4%nat, -1); (1%nat, -1); (3%nat, -1); (2%nat, -1)].
Proof.
  cbv zeta. split; [repeat constructor; cbn; intuition discriminate|].
  vm_compute. repeat split; discriminate.
Qed.
Example C12_ex_linear : is_linear (linear 4) = true /\ chain_ps 3 0 true 1 =
  [CE1 0 1; CE0 0 (-1); CE1 1 1; CE0 1 (-1); CE1 2 1; CE1 2 1; CE0 1 (-1); CE1 1 1; CE0 0 (-1); CE1 0 1].
Proof. vm_compute. split; reflexivity. Qed.
(* the module hypotheses of C12_tdrk4_poly hold for K = Z, V = Z * Z, H (x,y) = (y,-x) *)
Example C12_ex_module :
  let smul := fun (a : Z) (v : Z * Z) => (a * fst v, a * snd v) in
  let H := fun v : Z * Z => (snd v, - fst v) in
  (forall a b v, smul a (smul b v) = smul (a * b) v) /\ (forall v, smul 1 v = v)
  /\ (forall a v, H (smul a v) = smul a (H v))
  /\ tdrk4 Z (Z * Z) Z.mul 1 (fun u v => (fst u + fst v, snd u + snd v)) (0, 0) smul H (fun k => Z.of_nat k + 1) 2 3 (1, 0)
     = (6373, 852).
Proof.
  cbv zeta. repeat split.
  - intros a b [x y]. cbn. f_equal; ring.
  - intros [x y]. cbn. destruct x, y; reflexivity.
  - intros a [x y]. cbn. f_equal. ring.
Qed.
