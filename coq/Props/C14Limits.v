(* C14 -- what is NOT guaranteed (limitation lemmas about the generated objects; NOT obligations of the
   property: if the source improves, these stop compiling and harness/c14.py reports that as a note). *)
From Coq Require Import List Arith String Bool ZArith.
Import ListNotations.
From RV Require Import Model.DumpProto Gen.DumpProto Gen.DumpKeys Proofs.DumpProtoProofs.

(* dump_mps = "one": <job>_mps.npz is overwritten in place by latest_mps.dump (np.savez onto the file).
   There is a history in which a dump has returned (so a complete state file existed) and a later crash
   leaves NO complete state file: the side file is Partial and has no backup.  The result file
   <job>.npz is unaffected (C14_restart_safe). *)
Theorem C14_side_file_refuted :
  forall name proto ps, In (name, proto, ps) side_files -> name = "one"%string ->
  exists h, ~ safe ps (run_history proto h (init_state npaths)).
Proof.
  intros name proto ps Hin Hn.
  assert (H : forallb (fun s => negb (String.eqb (fst (fst s)) "one") ||
                       match find_unsafe 3 (snd (fst s)) (snd s) (init_state npaths) with Some _ => true | None => false end)
                      side_files = true) by (vm_compute; reflexivity).
  rewrite forallb_forall in H. specialize (H _ Hin). cbn [fst snd] in H. subst name. cbn [String.eqb Ascii.eqb Bool.eqb negb orb] in H.
  destruct (find_unsafe 3 proto ps (init_state npaths)) as [h|] eqn:E; [|discriminate].
  exists h. apply safe_b_false. exact (find_unsafe_sound 3 proto ps _ h E).
Qed.
Print Assumptions C14_side_file_refuted.

Example C14_side_file_witness :
  exists proto ps, In ("one"%string, proto, ps) side_files /\
    safe_b ps (run_history proto [None; Some 7] (init_state npaths)) = false /\
    map cell_code (h_fs (run_history proto [None; Some 7] (init_state npaths))) = [2; -1; -1; -2; -1]%Z.
Proof. eexists. eexists. split; [left; reflexivity|]. vm_compute. split; reflexivity. Qed.

(* chain OPERATORS (Mpo: MatrixProduct.dump -> MatrixProduct.load) are not an object kind of the
   property.  The generated maps do not pass the round-trip check: the loader converts every label
   array with .astype(int).tolist(), which does not give back the stored value (nested python lists
   instead of an ndarray -- the reloaded operator's apply / conj_trans raise). *)
Theorem C14_mpo_fields_not_established :
  maps_ok dmap_mpo lmap_mpo 1 = false /\
  existsb (fun e => match e with LLabelFam _ _ CAstypeIntTolist => true | _ => false end) lmap_mpo = true.
Proof. vm_compute. split; reflexivity. Qed.
Print Assumptions C14_mpo_fields_not_established.

(* Container kinds the loaders leave behind (generated from the conversions in the load maps).
   Asymmetry: Mps.load converts the prefactor with .item(0) (immutable python scalar), TTNS.load stores
   npload["coeff"] as read: a 0-d ndarray, which TTNS.copy()/metacopy()/to_complex() hand on by reference to
   every derived state.  Mps.load keeps `qn` as the object ndarray read from the file (in-memory states have
   a list).  No operation of HEAD writes through either (the round-trip sequences check that derived
   operations leave the reloaded object unchanged), but any in-place update of coeff / slice-copy of qn would. *)
Theorem C14_loaded_containers :
  In ("coeff"%string, KPyScalar) (loaded_containers lmap_mps) /\
  In ("coeff"%string, KNdArray) (loaded_containers lmap_ttns) /\
  In ("<labels>"%string, KObjArray) (loaded_containers lmap_mps).
Proof. vm_compute. repeat split; auto 10. Qed.
Print Assumptions C14_loaded_containers.
