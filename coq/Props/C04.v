(* C04 -- Canonicalisation and lossless compression preserve the represented object.
   Only statements closed by [exact], with Print Assumptions beneath, and Examples of non-vacuity.
   Gen/CanoSched.v is regenerated from /repo/renormalizer/mps/mp.py on every run (tx/canosched.py);
   the model of a push step / sweep is Model/Cano.v, the proofs are in Proofs/CanoProofs.v.
   R is any commutative ring with involution rcj; [dec] is any decomposition kernel (blockwise QR / RQ /
   SVD of svd_qn) -- each theorem names the part of its contract it uses. *)
From Coq Require Import List Arith ZArith Bool Lia.
Import ListNotations.
From RV Require Import Base.CRing Base.BigSum Model.Chain Gen.CanoSched Model.Cano Proofs.CanoProofs Model.CanoGS Proofs.CanoGSProofs Proofs.CanoScaleProofs.
From RV Require Model.Trunc Gen.Trunc.
Close Scope Q_scope.

(* ------------------------------------------------------------------------------------------------ *)
(* the generated bookkeeping code                                                                   *)
(* ------------------------------------------------------------------------------------------------ *)

(* iter_idx_list(full=False, stop_idx): exactly the sites from the centre (inclusive) to the target
   (exclusive; the target is stop_idx or the far end), in sweep order; any centre *)
Theorem C04_iter_idx_list_spec : forall s stop,
  (0 <= qnidx s <= site_num s - 1)%Z -> stop_ok s stop ->
  (if to_right s then (qnidx s <= target s stop)%Z else (target s stop <= qnidx s)%Z) ->
  iter_idx_list s false stop = sites_between (to_right s) (qnidx s) (target s stop).
Proof. exact iter_idx_list_spec. Qed.
Print Assumptions C04_iter_idx_list_spec.

Theorem C04_iter_idx_list_full_spec : forall s,
  (0 <= qnidx s <= site_num s - 1)%Z ->
  iter_idx_list s true None =
    if to_right s then map Z.of_nat (seq (Z.to_nat (qnidx s)) (Z.to_nat (site_num s - qnidx s)))
    else rev (map Z.of_nat (seq 0 (Z.to_nat (qnidx s + 1)))).
Proof. exact iter_idx_list_full_spec. Qed.
Print Assumptions C04_iter_idx_list_full_spec.

(* canonicalise terminates without raising for EVERY site_num >= 1, both directions, every stop index in
   range including the current centre and one-site chains; it hands exactly iter_idx_list's sites to
   _push_cano (each at the current centre: the assert of _get_big_qn holds), and ends with the centre at
   the target and the direction switched iff [flips].  An unbound read of the loop variable evaluates to
   None in the generated term, so this theorem fails to compile on the code before 699bc0f. *)
Theorem C04_canonicalise_never_errors : forall s stop, entry_ok s -> stop_ok s stop ->
  canonicalise s stop =
    Some (iter_idx_list s false stop,
          {| site_num := site_num s; qnidx := target s stop;
             to_right := if flips s stop then negb (to_right s) else to_right s |}).
Proof. exact canonicalise_sched_spec. Qed.
Print Assumptions C04_canonicalise_never_errors.

Theorem C04_compress_schedule : forall s, entry_ok s ->
  compress s = Some (iter_idx_list s false None,
                     {| site_num := site_num s; qnidx := far_end s; to_right := negb (to_right s) |}).
Proof. exact compress_sched_spec. Qed.
Print Assumptions C04_compress_schedule.

(* ensure_left/right_canonical end in the advertised centre and direction from ANY state *)
Theorem C04_ensure_left : forall s chk, (1 <= site_num s)%Z ->
  ensure_left_canonical s chk =
    Some ((if to_right s || negb (qnidx s =? site_num s - 1)%Z || negb chk
           then sites_between true 0 (site_num s - 1) else []),
          {| site_num := site_num s; qnidx := (site_num s - 1)%Z; to_right := false |}).
Proof. exact ensure_left_spec. Qed.
Print Assumptions C04_ensure_left.

Theorem C04_ensure_right : forall s chk, (1 <= site_num s)%Z ->
  ensure_right_canonical s chk =
    Some ((if negb (to_right s) || negb (qnidx s =? 0)%Z || negb chk
           then sites_between false (site_num s - 1) 0 else []),
          {| site_num := site_num s; qnidx := 0%Z; to_right := true |}).
Proof. exact ensure_right_spec. Qed.
Print Assumptions C04_ensure_right.

(* the numerical guards of ensure_*: check_right_canonical demands check_rortho of EVERY site except the centre 0
   (the centre ensure_right_canonical pairs it with), check_left_canonical check_lortho of every site except the
   last -- so "returned untouched" implies every non-centre site passed its one-site isometry test *)
Theorem C04_check_right_covers : forall s i,
  In i (check_right_sites s) <-> ((0 <= i <= site_num s - 1)%Z /\ i <> 0%Z).
Proof. exact check_right_covers. Qed.
Print Assumptions C04_check_right_covers.
Theorem C04_check_left_covers : forall s i,
  In i (check_left_sites s) <-> ((0 <= i <= site_num s - 1)%Z /\ i <> (site_num s - 1)%Z).
Proof. exact check_left_covers. Qed.
Print Assumptions C04_check_left_covers.

(* the one-site tests behind check_left/right_canonical: Matrix.check_lortho and Matrix.check_rortho hand their
   relative tolerance to allclose's rtol and their absolute tolerance to allclose's atol -- both, identically
   (generated from the call, positional or keyword; defaults canonical_rtol / canonical_atol checked structurally) *)
Theorem C04_ortho_tolerances_symmetric : forall (A : Type) (rtol atol : A),
  lortho_tol rtol atol = (rtol, atol) /\ rortho_tol rtol atol = (rtol, atol).
Proof. exact ortho_tolerances_symmetric. Qed.
Print Assumptions C04_ortho_tolerances_symmetric.

(* ------------------------------------------------------------------------------------------------ *)
(* one push step and the sweep                                                                      *)
(* ------------------------------------------------------------------------------------------------ *)

(* uses only M = U.V *)
Theorem C04_push_preserves_amp : forall (R : CRing) (dec : kernel R), dec_factor R dec ->
  forall dir ds ts i s, cfg_ok ds s -> amp (push R dec dir ds ts i) s = amp ts s.
Proof. exact push_preserves_amp. Qed.
Print Assumptions C04_push_preserves_amp.

(* all chain lengths >= 1, all stop indices: never raises, prefactor untouched, every amplitude unchanged *)
Theorem C04_cano_dense : forall (R : CRing) (dec : kernel R), dec_factor R dec ->
  forall ds (m : mp R) stop, entry_ok (m_st m) -> stop_ok (m_st m) stop ->
  exists m', canonicalise_mp R dec ds m stop = Some m' /\
             m_coeff m' = m_coeff m /\
             (forall s, cfg_ok ds s -> amp (m_chain m') s = amp (m_chain m) s) /\
             m_st m' = final_st (m_st m) stop.
Proof. exact cano_dense. Qed.
Print Assumptions C04_cano_dense.

(* every site strictly before (right-moving) / after (left-moving) the final centre is an isometry:
   sum_{l,p} rcj(T l p r) T l p r' = delta r r'   resp.   sum_{p,r} rcj(T l p r) T l' p r = delta l l' *)
Theorem C04_cano_isometry : forall (R : CRing) (dec : kernel R), dec_iso R dec ->
  forall ds (m m' : mp R) stop, wf R ds m -> entry_ok (m_st m) -> stop_ok (m_st m) stop ->
  canonicalise_mp R dec ds m stop = Some m' ->
  if to_right (m_st m)
  then prefixP R (left_iso R (r1 R)) (Z.to_nat (target (m_st m) stop)) 1 ds (m_chain m')
  else afterP R (right_iso R (r1 R)) (Z.to_nat (target (m_st m) stop)) 1 ds (m_chain m').
Proof. exact cano_isometry. Qed.
Print Assumptions C04_cano_isometry.

(* prefixP / afterP spelled out site by site *)
Theorem C04_prefix_sites : forall (R : CRing) (P : nat -> nat -> nat -> T3 R -> Prop) dflt c dl ds (ts : chain R),
  prefixP R P c dl ds ts -> forall j, j < c ->
  P (lastdim dl (firstn j ts)) (nth j ds 0) (fst (nth j ts dflt)) (snd (nth j ts dflt)).
Proof. exact prefixP_nth. Qed.
Print Assumptions C04_prefix_sites.
Theorem C04_after_sites : forall (R : CRing) (Q : nat -> nat -> nat -> T3 R -> Prop) dflt c dl ds (ts : chain R),
  afterP R Q c dl ds ts -> forall j, c < j -> j < length ts ->
  Q (lastdim dl (firstn j ts)) (nth j ds 0) (fst (nth j ts dflt)) (snd (nth j ts dflt)).
Proof. exact afterP_nth. Qed.
Print Assumptions C04_after_sites.

(* operators (Mpo): _update_ms multiplies the kept factor by a norm and divides the other one; the
   rescaled kernel still factorises and is bounded, and is an isometry up to a per-call weight ... *)
Theorem C04_operator_kernel : forall (R : CRing) sc (dec : kernel R), scale_ok R sc -> dec_ok R dec ->
  dec_factor R (rescale R sc dec) /\ dec_bound R (rescale R sc dec) /\ dec_iso_scaled R (rescale R sc dec).
Proof. exact cano_operator. Qed.
Print Assumptions C04_operator_kernel.
(* ... hence the sites away from the centre are isometries up to a weight (and C04_cano_dense applies) *)
Theorem C04_cano_isometry_operator : forall (R : CRing) (dec : kernel R), dec_iso_scaled R dec ->
  forall ds (m m' : mp R) stop, wf R ds m -> entry_ok (m_st m) -> stop_ok (m_st m) stop ->
  canonicalise_mp R dec ds m stop = Some m' ->
  if to_right (m_st m)
  then prefixP R (left_iso_w R) (Z.to_nat (target (m_st m) stop)) 1 ds (m_chain m')
  else afterP R (right_iso_w R) (Z.to_nat (target (m_st m) stop)) 1 ds (m_chain m').
Proof. exact cano_isometry_scaled. Qed.
Print Assumptions C04_cano_isometry_operator.

(* operator amplitudes are the amplitudes of the chain with fused physical indices *)
Theorem C04_chain4_fuse : forall (R : CRing) (ts : list (nat * T4 R)) dds su sd l r,
  length dds = length ts -> length su = length ts -> Forall2 lt sd dds ->
  chain4 ts su sd l r = chain3 (fuse_chain R dds ts) (fuse_cfg dds su sd) l r.
Proof. exact chain4_fuse. Qed.
Print Assumptions C04_chain4_fuse.

(* no bond dimension grows (any stop index; also when the entry asserts fail there is no result at all) *)
Theorem C04_dims_monotone : forall (R : CRing) (dec : kernel R), dec_bound R dec ->
  forall ds (m m' : mp R) stop, canonicalise_mp R dec ds m stop = Some m' ->
  Forall2 le (dims R (m_chain m')) (dims R (m_chain m)).
Proof. exact dims_monotone. Qed.
Print Assumptions C04_dims_monotone.

(* two opposite full sweeps (either order): the bond between sites j and j+1 is bounded by the products
   of the physical dimensions on both sides (ds holds the squared dimensions for operators) *)
Theorem C04_two_sweeps_exact : forall (R : CRing) (dec : kernel R), dec_bound R dec ->
  forall ds (m m1 m2 : mp R), wf R ds m -> lastdim 1 (m_chain m) = 1 -> entry_ok (m_st m) ->
  canonicalise_mp R dec ds m None = Some m1 -> canonicalise_mp R dec ds m1 None = Some m2 ->
  forall j, S j < length ds ->
    nth j (dims R (m_chain m2)) 0 <= Nat.min (prod (firstn (S j) ds)) (prod (skipn (S j) ds)).
Proof. exact two_sweeps_exact. Qed.
Print Assumptions C04_two_sweeps_exact.

(* compress keeping m_trunc columns when every dropped column of U / row of V vanishes *)
Theorem C04_compress_lossless_dense : forall (R : CRing) (dec : kernel R) mt, dec_factor R dec -> lossless R mt dec ->
  forall ds (m : mp R), entry_ok (m_st m) ->
  exists m', compress_mp R dec mt ds m = Some m' /\
             m_coeff m' = m_coeff m /\
             (forall s, cfg_ok ds s -> amp (m_chain m') s = amp (m_chain m) s) /\
             m_st m' = final_st (m_st m) None.
Proof. exact compress_lossless_dense. Qed.
Print Assumptions C04_compress_lossless_dense.

Theorem C04_compress_isometry : forall (R : CRing) (dec : kernel R) mt, dec_iso R dec ->
  forall ds (m m' : mp R), wf R ds m -> entry_ok (m_st m) -> compress_mp R dec mt ds m = Some m' ->
  if to_right (m_st m)
  then prefixP R (left_iso R (r1 R)) (Z.to_nat (far_end (m_st m))) 1 ds (m_chain m')
  else afterP R (right_iso R (r1 R)) (Z.to_nat (far_end (m_st m))) 1 ds (m_chain m').
Proof. exact compress_isometry. Qed.
Print Assumptions C04_compress_isometry.

Theorem C04_compress_dims : forall (R : CRing) (dec : kernel R) mt, dec_bound R dec ->
  forall ds (m m' : mp R), entry_ok (m_st m) -> compress_mp R dec mt ds m = Some m' ->
  Forall2 le (dims R (m_chain m')) (dims R (m_chain m)).
Proof. exact compress_dims. Qed.
Print Assumptions C04_compress_dims.

(* variational compression -- PARTIAL.  Full statement (NOT proved): for mpo, mps and a bond limit not
   below the Schmidt ranks of mpo@mps, variational_compress(mpo) converges to mpo@mps.  Proved here: only
   the sweep header of the generated code -- each variational sweep visits every site exactly once from
   the centre to the far end and then switches direction.  Convergence is observed by the dense oracle
   (thorough tier), not proved. *)
Theorem C04_variational_partial : forall s, entry_ok s ->
  variational_sweep s =
    Some ((if to_right s then map Z.of_nat (seq 0 (Z.to_nat (site_num s)))
           else rev (map Z.of_nat (seq 0 (Z.to_nat (site_num s))))),
          {| site_num := site_num s; qnidx := far_end s; to_right := negb (to_right s) |}).
Proof. exact variational_sweep_spec. Qed.
Print Assumptions C04_variational_partial.

(* also part of the partial clause: the convergence test `mps.distance(mps_old)` of the generated skeleton
   compares the current object with the state at the end of the PREVIOUS sweep (mps_old is a copy, not an
   alias of the object the sweep updates in place); with an alias the test is vacuous: *)
Theorem C04_variational_snapshot : forall (A : Type) (prev cur : A), variational_old prev cur = prev.
Proof. exact variational_old_is_snapshot. Qed.
Print Assumptions C04_variational_snapshot.
Theorem C04_variational_alias_vacuous : forall (A D : Type) (dist : A -> A -> D) (z : D),
  (forall x, dist x x = z) -> forall prev cur : A, dist cur (if false then prev else cur) = z.
Proof. exact alias_test_vacuous. Qed.
Print Assumptions C04_variational_alias_vacuous.

(* ------------------------------------------------------------------------------------------------ *)
(* scale invariance of the kept count                                                               *)
(* ------------------------------------------------------------------------------------------------ *)
(* compress() hands _update_ms the value of CompressConfig.compute_m_trunc unmodified (generated
   compress_m_trunc_config; the translator aborts if compress() post-processes m_trunc), and under the `fixed`
   criterion that value (Gen/Trunc.v, generated from utils/configs.py) depends only on the limit of the bond and
   on HOW MANY singular values there are: multiplying the object by any scalar cannot change what is kept *)
Theorem C04_fixed_kept_depends_on_length : forall (cfg : Gen.Trunc.config) (sigma sigma' : list QArith_base.Q) idx left,
  Gen.Trunc.cfg_criteria cfg = Gen.Trunc.Fixed -> length sigma = length sigma' ->
  compress_m_trunc_config (Gen.Trunc.compute_m_trunc cfg sigma idx left) =
  compress_m_trunc_config (Gen.Trunc.compute_m_trunc cfg sigma' idx left).
Proof. exact fixed_kept_depends_on_length. Qed.
Print Assumptions C04_fixed_kept_depends_on_length.
Theorem C04_fixed_kept_scale_invariant : forall (cfg : Gen.Trunc.config) (sigma : list QArith_base.Q) (c : QArith_base.Q) idx left,
  Gen.Trunc.cfg_criteria cfg = Gen.Trunc.Fixed ->
  compress_m_trunc_config (Gen.Trunc.compute_m_trunc cfg (map (QArith_base.Qmult c) sigma) idx left) =
  compress_m_trunc_config (Gen.Trunc.compute_m_trunc cfg sigma idx left).
Proof. exact fixed_kept_scale_invariant. Qed.
Print Assumptions C04_fixed_kept_scale_invariant.
Theorem C04_fixed_large_limit_keeps_all : forall (cfg : Gen.Trunc.config) (sigma : list QArith_base.Q) (idx : Z) (left : bool),
  Gen.Trunc.cfg_criteria cfg = Gen.Trunc.Fixed ->
  (Model.Trunc.py_len sigma <= Model.Trunc.py_index (Gen.Trunc.cfg_max_dims cfg) (if left then (idx + 1)%Z else idx))%Z ->
  compress_m_trunc_config (Gen.Trunc.compute_m_trunc cfg sigma idx left) = Model.Trunc.py_len sigma.
Proof. exact fixed_large_limit_keeps_all. Qed.
Print Assumptions C04_fixed_large_limit_keeps_all.
Theorem C04_temp_kept_depends_on_length : forall (limit : Z) (sigma sigma' : list QArith_base.Q), length sigma = length sigma' ->
  compress_m_trunc_temp limit (Model.Trunc.py_len sigma) = compress_m_trunc_temp limit (Model.Trunc.py_len sigma').
Proof. exact temp_kept_depends_on_length. Qed.
Print Assumptions C04_temp_kept_depends_on_length.

(* ------------------------------------------------------------------------------------------------ *)
(* square-root-free formulation and an executable kernel: Gram-Schmidt without normalisation          *)
(* ------------------------------------------------------------------------------------------------ *)
(* "isometry" without square roots: the Gram matrix of the kept factor is DIAGONAL (dec_orth); the weight-1
   contract dec_iso is the special case D = 1 (it needs square roots: no kernel over Q satisfies it on every
   matrix, e.g. the column (1,1)) *)
Theorem C04_iso_is_diag_special_case : forall (R : CRing) (dec : kernel R), dec_iso R dec -> dec_orth R dec.
Proof. exact dec_iso_orth. Qed.
Print Assumptions C04_iso_is_diag_special_case.

Theorem C04_cano_isometry_diag : forall (R : CRing) (dec : kernel R), dec_orth R dec ->
  forall ds (m m' : mp R) stop, wf R ds m -> entry_ok (m_st m) -> stop_ok (m_st m) stop ->
  canonicalise_mp R dec ds m stop = Some m' ->
  if to_right (m_st m)
  then prefixP R (left_iso_D R) (Z.to_nat (target (m_st m) stop)) 1 ds (m_chain m')
  else afterP R (right_iso_D R) (Z.to_nat (target (m_st m) stop)) 1 ds (m_chain m').
Proof. exact cano_isometry_diag. Qed.
Print Assumptions C04_cano_isometry_diag.

(* Gram-Schmidt without roots over ANY field with involution and definite Hermitian form (CField: Q, Q[i], R, C)
   is a decomposition kernel: M = U.V, k <= min(rows, cols), U^dagger U diagonal (right-moving) resp.
   V V^dagger diagonal (left-moving) -- for EVERY matrix, nothing assumed *)
Theorem C04_gs_kernel_contract : forall F : CField,
  dec_factor F (gs_kernel F) /\ dec_bound F (gs_kernel F) /\ dec_orth F (gs_kernel F).
Proof. exact (fun F => conj (gs_kernel_factor F) (conj (gs_kernel_bound F) (gs_kernel_orth F))). Qed.
Print Assumptions C04_gs_kernel_contract.
(* the weights are the squared norms of the Gram-Schmidt vectors; one vanishes exactly when its vector does
   (a linearly dependent input column) *)
Theorem C04_gs_weight_zero : forall (F : CField) rows A b,
  dn F rows A b = r0 F <-> (forall i, i < rows -> Qn F rows A b i = r0 F).
Proof. exact gs_weight_zero. Qed.
Print Assumptions C04_gs_weight_zero.

(* unconditional versions: canonicalisation with this executable kernel *)
Theorem C04_gs_cano_dense : forall (F : CField) ds (m : mp F) stop, entry_ok (m_st m) -> stop_ok (m_st m) stop ->
  exists m', canonicalise_mp F (gs_kernel F) ds m stop = Some m' /\ m_coeff m' = m_coeff m /\
             (forall s, cfg_ok ds s -> amp (m_chain m') s = amp (m_chain m) s) /\
             m_st m' = final_st (m_st m) stop.
Proof. exact gs_cano_dense. Qed.
Print Assumptions C04_gs_cano_dense.
Theorem C04_gs_cano_isometry_diag : forall (F : CField) ds (m m' : mp F) stop,
  wf F ds m -> entry_ok (m_st m) -> stop_ok (m_st m) stop ->
  canonicalise_mp F (gs_kernel F) ds m stop = Some m' ->
  if to_right (m_st m)
  then prefixP F (left_iso_D F) (Z.to_nat (target (m_st m) stop)) 1 ds (m_chain m')
  else afterP F (right_iso_D F) (Z.to_nat (target (m_st m) stop)) 1 ds (m_chain m').
Proof. exact gs_cano_isometry_diag. Qed.
Print Assumptions C04_gs_cano_isometry_diag.
Theorem C04_gs_dims_monotone : forall (F : CField) ds (m m' : mp F) stop,
  canonicalise_mp F (gs_kernel F) ds m stop = Some m' -> Forall2 le (dims F (m_chain m')) (dims F (m_chain m)).
Proof. exact gs_dims_monotone. Qed.
Print Assumptions C04_gs_dims_monotone.
Theorem C04_gs_two_sweeps_exact : forall (F : CField) ds (m m1 m2 : mp F),
  wf F ds m -> lastdim 1 (m_chain m) = 1 -> entry_ok (m_st m) ->
  canonicalise_mp F (gs_kernel F) ds m None = Some m1 -> canonicalise_mp F (gs_kernel F) ds m1 None = Some m2 ->
  forall j, S j < length ds ->
    nth j (dims F (m_chain m2)) 0 <= Nat.min (prod (firstn (S j) ds)) (prod (skipn (S j) ds)).
Proof. exact gs_two_sweeps_exact. Qed.
Print Assumptions C04_gs_two_sweeps_exact.

(* ------------------------------------------------------------------------------------------------ *)
(* quantum-number labels                                                                            *)
(* ------------------------------------------------------------------------------------------------ *)
(* labels in any type with an associative addition and decidable equality (Z, Z^k); [ldec] any labelled kernel
   meeting the block contract of svd_qn (ldec_ok): the push step stores the reported labels on the moved bond
   (self.qn[idx+1] = qnlset / self.qn[idx] = qnrset).  If the labels are valid for the chain with the centre at
   qnidx before canonicalise (left sites: ql+sigma = qr; centre: ql+sigma+qr = qntot; right sites: sigma+qr = ql;
   "label mismatch => entry is zero"), they are valid with the centre where the generated code leaves qnidx. *)
Theorem C04_cano_preserves_qn_valid : forall (R : CRing) (L : Type) (ladd : L -> L -> L),
  (forall x y z, ladd (ladd x y) z = ladd x (ladd y z)) -> (forall x y : L, x = y \/ x <> y) ->
  forall (tot : L) (ldec : lkernel R L), ldec_ok R L ladd tot ldec ->
  forall s stop ql ds sgs lts tr s',
  length ds = length lts -> length sgs = length lts -> Z.of_nat (length lts) = site_num s ->
  entry_ok s -> stop_ok s stop ->
  canonicalise s stop = Some (tr, s') ->
  qn_valid R L ladd (Z.to_nat (qnidx s)) tot 1 ql ds sgs lts ->
  qn_valid R L ladd (Z.to_nat (qnidx s')) tot 1 ql ds sgs (lsweep R L ladd ldec (to_right s) ql ds sgs tr lts).
Proof. exact cano_preserves_qn_valid. Qed.
Print Assumptions C04_cano_preserves_qn_valid.
(* compress: keeping fewer columns (and their labels) keeps the block contract *)
Theorem C04_trunc_keeps_block_contract : forall (R : CRing) (L : Type) ladd tot mt (ldec : lkernel R L),
  ldec_ok R L ladd tot ldec -> ldec_ok R L ladd tot (ltrunc R L mt ldec).
Proof. exact ltrunc_ok. Qed.
Print Assumptions C04_trunc_keeps_block_contract.

(* also partial clause: the stopping test of variational_compress (generated expression variational_error_expr in
   D = mps.distance(mps_old), S = <mps|mps>) is homogeneous of degree 0 in the scale of the object ... *)
Theorem C04_variational_error_degree_zero : hdeg2 variational_error_expr = Some 0%Z.
Proof. exact variational_error_degree_zero. Qed.
Print Assumptions C04_variational_error_degree_zero.
(* ... and, in every structure whose multiplication / division / square root obey sqrt(c*c*x) = c*sqrt x and
   (c*a)/(c*b) = a/b (the positive reals), its value is unchanged when the object is multiplied by c.  (The two
   laws are hypotheses: there is no executable real-number instance in this development; the degree statement above
   is hypothesis-free.) *)
Theorem C04_variational_error_scale_invariant : forall (K : Type) (kmul kdiv : K -> K -> K) (ksqrt : K -> K),
  (forall c x, ksqrt (kmul (kmul c c) x) = kmul c (ksqrt x)) ->
  (forall c a b, kdiv (kmul c a) (kmul c b) = kdiv a b) ->
  forall c dist normsq,
    heval kdiv ksqrt (kmul c dist) (kmul (kmul c c) normsq) variational_error_expr =
    heval kdiv ksqrt dist normsq variational_error_expr.
Proof. exact variational_error_scale_invariant. Qed.
Print Assumptions C04_variational_error_scale_invariant.

(* ------------------------------------------------------------------------------------------------ *)
(* non-vacuity                                                                                      *)
(* ------------------------------------------------------------------------------------------------ *)
(* A concrete kernel over Z: M = I.M when rows <= cols, M = M.I otherwise.  It meets dec_factor and
   dec_bound for every input.  (dec_iso asks for an orthonormal factor of EVERY matrix, i.e. the QR
   theorem over R or C; it has no inhabitant over the two executable rings Z and Z[i], which lack square
   roots -- see notes/C04.md.  The isometry contract is checked numerically on every logged call.) *)
Example C04_kernel_contract_inhabited : dec_factor ZRing idk /\ dec_bound ZRing idk.
Proof. exact idk_contract. Qed.

Example C04_lossless_inhabited : lossless ZRing (fun _ k => k) idk.
Proof. intros gi dir rows cols M a H1 H2. lia. Qed.

Example C04_scale_inhabited : scale_ok ZRing (fun _ _ _ _ _ => ((-1)%Z, (-1)%Z)).
Proof. intros gi dir rows cols M. reflexivity. Qed.

(* a concrete three-site state over Z with an over-complete middle bond (dims 1-3-2-1, physical 2,2,2),
   centre on the last site, direction "to the left": all hypotheses of the theorems above hold, the
   model runs, and the amplitude of a sample configuration is unchanged while two opposite sweeps
   shrink the bond 3 to 2 *)
Definition ex_t (k : Z) : T3 ZRing := fun l p r => (k + Z.of_nat l * 3 - Z.of_nat p + 2 * Z.of_nat r * Z.of_nat (l + p))%Z.
Definition ex_mp : mp ZRing :=
  {| m_chain := [(3, ex_t 1); (2, ex_t (-2)); (1, ex_t 3)]; m_coeff := 5%Z;
     m_st := {| site_num := 3; qnidx := 2; to_right := false |} |}.
Definition ex_ds := [2; 2; 2].
Example C04_example_hyps :
  wf ZRing ex_ds ex_mp /\ entry_ok (m_st ex_mp) /\ stop_ok (m_st ex_mp) (Some 1%Z) /\ stop_ok (m_st ex_mp) (Some 2%Z) /\
  lastdim 1 (m_chain ex_mp) = 1 /\ cfg_ok ex_ds [1; 0; 1].
Proof.
  repeat split; cbn; try lia; repeat constructor.
Qed.
Example C04_example_runs :
  match canonicalise_mp ZRing idk ex_ds ex_mp None with
  | Some m1 =>
    match canonicalise_mp ZRing idk ex_ds m1 None with
    | Some m2 => (dims ZRing (m_chain m1), qnidx (m_st m1), to_right (m_st m1),
                  dims ZRing (m_chain m2), qnidx (m_st m2), to_right (m_st m2), m_coeff m2,
                  amp (m_chain m1) [1; 0; 1], amp (m_chain m2) [1; 0; 1])
    | None => ([], 0%Z, false, [], 0%Z, false, 0%Z, 0%Z, 0%Z)
    end
  | None => ([], 0%Z, false, [], 0%Z, false, 0%Z, 0%Z, 0%Z)
  end = ([3; 2; 1], 0%Z, true, [2; 2; 1], 2%Z, false, 5%Z, 226%Z, 226%Z)
  /\ amp (m_chain ex_mp) [1; 0; 1] = 226%Z.
Proof. vm_compute. split; reflexivity. Qed.
(* the empty sweep (stop index = current centre) and a one-site chain run without error *)
Example C04_example_empty_sweep :
  canonicalise {| site_num := 3; qnidx := 2; to_right := false |} (Some 2%Z)
    = Some ([], {| site_num := 3; qnidx := 2; to_right := false |}) /\
  canonicalise {| site_num := 1; qnidx := 0; to_right := true |} None
    = Some ([], {| site_num := 1; qnidx := 0; to_right := false |}).
Proof. split; reflexivity. Qed.

(* ---- second part: executable field, executable kernel ---- *)
(* the rationals are a CField; Gram-Schmidt over Q run on the same three-site state (left-moving sweep):
   bond dimensions, Gram matrices (T T^dagger, entries as numerator/denominator) of the two sites right of the
   centre -- diagonal, the rank-deficient bond of dimension 3 shows one zero weight -- and the unchanged amplitude *)
Definition qt (k : Z) : T3 QcRing := fun l p r => qz (k + Z.of_nat l * 3 - Z.of_nat p + 2 * Z.of_nat r * Z.of_nat (l + p))%Z.
Definition q_mp : mp QcRing :=
  {| m_chain := [(3, qt 1); (2, qt (-2)); (1, qt 3)]; m_coeff := qz 5;
     m_st := {| site_num := 3; qnidx := 2; to_right := false |} |}.
Example C04_gs_example_runs :
  match canonicalise_mp QcRing (gs_kernel QcField) [2; 2; 2] q_mp None with
  | Some m' => (dims QcRing (m_chain m'),
                match m_chain m' with [_; (_, t1); (_, t2)] => (gram_right 3 2 2 t1, gram_right 2 2 1 t2) | _ => ([], []) end,
                qpair (amp (m_chain m') [1; 0; 1]), qpair (amp (m_chain q_mp) [1; 0; 1]))
  | None => ([], ([], []), (0, 0), (0, 0))%Z
  end =
  ([3; 2; 1]%nat,
   ([[(12058, 169); (0, 1); (0, 1)]; [(0, 1); (10800210, 1018901); (0, 1)]; [(0, 1); (0, 1); (0, 1)]],
    [[(13, 1); (0, 1)]; [(0, 1); (9, 13)]])%Z,
   (226, 1)%Z, (226, 1)%Z).
Proof. vm_compute. reflexivity. Qed.
Example C04_gs_example_hyps : wf QcRing [2; 2; 2] q_mp /\ entry_ok (m_st q_mp) /\ stop_ok (m_st q_mp) None.
Proof. repeat split; cbn; lia. Qed.
(* the block contract is inhabited (integer labels, masked identity kernel) *)
Example C04_label_contract_inhabited : forall tot, ldec_ok ZRing Z Z.add tot (mask_kernel tot).
Proof. exact mask_kernel_ok. Qed.
