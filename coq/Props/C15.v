(* C15 -- Symbolic operator algebra (renormalizer/model/op.py) is a faithful homomorphism.
   Only statements, closed by [exact], with Print Assumptions beneath.

   Reading guide.  [ra : ralg] is the scalar structure of the factors (nothing is assumed about it
   beyond what a theorem names), [ma : malg ra] is ANY interpretation of scalars and of single letters
   (symbol acting on one dof) in an algebra M, and [malg_ok ra ma] is its contract: M is a unital ring,
   scalars are embedded as a unital ring homomorphism into the centre, the symbol "I" is the unit.
   Tensor-product matrices of every Model satisfy it, so "for all ma" = "for every model".
   [ralg_ok ra] says that [reqb] decides equality of factors and [rinv c = Some d -> c*d = 1].
   den / dens / denv = the operator denoted by an Op / a list of Op / a Python value. *)
From Coq Require Import ZArith List Bool Sorted.
Import ListNotations.
From RV Require Import Model.OpAlg Gen.CheckTerms Proofs.OpAlgProofs.

(* ---------------- Op level ---------------- *)
Theorem C15_den_mul_op_op : forall ra ma, malg_ok ra ma -> forall a b : op ra,
  den ra ma (op_mul ra a b) = mmul ma (den ra ma a) (den ra ma b).
Proof. exact den_op_mul. Qed.
Print Assumptions C15_den_mul_op_op.

Theorem C15_den_scalar_mul_right : forall ra ma, malg_ok ra ma -> forall (a : op ra) c,
  den ra ma (op_scal ra a c) = mmul ma (den ra ma a) (emb ma c).
Proof. exact den_op_scal_r. Qed.
Print Assumptions C15_den_scalar_mul_right.

Theorem C15_den_scalar_mul_left : forall ra ma, malg_ok ra ma -> forall (a : op ra) c,
  den ra ma (op_scal ra a c) = mmul ma (emb ma c) (den ra ma a).
Proof. exact den_op_scal_l. Qed.
Print Assumptions C15_den_scalar_mul_left.

Theorem C15_den_neg_op : forall ra ma, malg_ok ra ma -> forall a : op ra,
  den ra ma (op_neg ra a) = mopp ma (den ra ma a).
Proof. exact den_op_neg. Qed.
Print Assumptions C15_den_neg_op.

(* Op.product([o1; ...; on]) *)
Theorem C15_den_op_product : forall ra ma, malg_ok ra ma -> forall (l : list (op ra)) o,
  op_product ra l = Some o -> den ra ma o = mprod ra ma (map (den ra ma) l).
Proof. exact op_product_den. Qed.
Print Assumptions C15_den_op_product.

(* ---------------- OpSum level ---------------- *)
Theorem C15_den_sum_concat : forall ra ma, malg_ok ra ma -> forall s t : list (op ra),
  dens ra ma (s ++ t) = madd ma (dens ra ma s) (dens ra ma t).
Proof. exact dens_app. Qed.
Print Assumptions C15_den_sum_concat.

Theorem C15_den_neg_sum : forall ra ma, malg_ok ra ma -> forall s : list (op ra),
  dens ra ma (sum_neg ra s) = mopp ma (dens ra ma s).
Proof. exact dens_neg. Qed.
Print Assumptions C15_den_neg_sum.

Theorem C15_den_mul_op_sum : forall ra ma, malg_ok ra ma -> forall (a : op ra) s,
  dens ra ma (op_mul_sum ra a s) = mmul ma (den ra ma a) (dens ra ma s).
Proof. exact dens_op_mul_sum. Qed.
Print Assumptions C15_den_mul_op_sum.

Theorem C15_den_mul_sum_op : forall ra ma, malg_ok ra ma -> forall s (b : op ra),
  dens ra ma (sum_mul_op ra s b) = mmul ma (dens ra ma s) (den ra ma b).
Proof. exact dens_sum_mul_op. Qed.
Print Assumptions C15_den_mul_sum_op.

Theorem C15_den_mul_sum_sum : forall ra ma, malg_ok ra ma -> forall s t : list (op ra),
  dens ra ma (sum_mul_sum ra s t) = mmul ma (dens ra ma s) (dens ra ma t).
Proof. exact dens_sum_mul_sum. Qed.
Print Assumptions C15_den_mul_sum_sum.

Theorem C15_den_scalar_mul_sum_right : forall ra ma, malg_ok ra ma -> forall (s : list (op ra)) c,
  dens ra ma (sum_scal ra s c) = mmul ma (dens ra ma s) (emb ma c).
Proof. exact dens_scal_r. Qed.
Print Assumptions C15_den_scalar_mul_sum_right.

Theorem C15_den_scalar_mul_sum_left : forall ra ma, malg_ok ra ma -> forall (s : list (op ra)) c,
  dens ra ma (sum_scal ra s c) = mmul ma (emb ma c) (dens ra ma s).
Proof. exact dens_scal_l. Qed.
Print Assumptions C15_den_scalar_mul_sum_left.

(* s / c is s * (1/c), and multiplying back by c gives s *)
Theorem C15_den_div_cancel : forall ra ma, malg_ok ra ma -> ralg_ok ra ->
  forall (s : list (op ra)) c d, rinv ra c = Some d ->
  mmul ma (emb ma c) (dens ra ma (sum_scal ra s d)) = dens ra ma s.
Proof. exact den_div_cancel. Qed.
Print Assumptions C15_den_div_cancel.

(* ---------------- Python operator dispatch: every accepted operand combination ---------------- *)
(* a + b, for every combination of scalar-zero / Op / list / OpSum operands that op.py accepts *)
Theorem C15_den_add : forall ra ma, malg_ok ra ma -> ralg_ok ra -> forall a b v : val ra,
  v_add ra a b = Some v -> denv ra ma v = madd ma (denv ra ma a) (denv ra ma b).
Proof. exact v_add_den. Qed.
Print Assumptions C15_den_add.

Theorem C15_den_sub : forall ra ma, malg_ok ra ma -> ralg_ok ra -> forall a b v : val ra,
  v_sub ra a b = Some v -> denv ra ma v = madd ma (denv ra ma a) (mopp ma (denv ra ma b)).
Proof. exact v_sub_den. Qed.
Print Assumptions C15_den_sub.

Theorem C15_den_neg : forall ra ma, malg_ok ra ma -> forall a v : val ra,
  v_neg ra a = Some v -> denv ra ma v = mopp ma (denv ra ma a).
Proof. exact v_neg_den. Qed.
Print Assumptions C15_den_neg.

(* a * b : Op*Op, Op*scalar, scalar*Op, Op*list, Op*OpSum, list*Op, OpSum*Op, OpSum*list,
   OpSum*OpSum, OpSum*scalar, scalar*OpSum *)
Theorem C15_den_mul : forall ra ma, malg_ok ra ma -> forall a b v : val ra,
  v_mul ra a b = Some v -> denv ra ma v = mmul ma (denv ra ma a) (denv ra ma b).
Proof. exact v_mul_den. Qed.
Print Assumptions C15_den_mul.

Theorem C15_den_div : forall ra ma, malg_ok ra ma -> forall a b v : val ra,
  v_div ra a b = Some v -> denv ra ma v = mmul ma (denv ra ma a) (sem_inv ra ma (Some b)).
Proof. exact v_div_den. Qed.
Print Assumptions C15_den_div.

(* a += b *)
Theorem C15_den_iadd : forall ra ma, malg_ok ra ma -> ralg_ok ra -> forall a b v : val ra,
  v_iadd ra a b = Some v -> denv ra ma v = madd ma (denv ra ma a) (denv ra ma b).
Proof. exact v_iadd_den. Qed.
Print Assumptions C15_den_iadd.

(* OpSum.product on a non-empty list *)
Theorem C15_den_sum_product : forall ra ma, malg_ok ra ma -> forall (t : list (val ra)) a v,
  v_sum_product ra (a :: t) = Some v ->
  denv ra ma v = fold_left (mmul ma) (map (denv ra ma) t) (denv ra ma a).
Proof. exact v_sum_product_den. Qed.
Print Assumptions C15_den_sum_product.

(* THE PROGRAM THEOREM: every expression tree over + - * / unary- += simplify squeeze_identity
   OpSum() list() copy() that the implementation accepts denotes the matrix expression it stands for
   (tolerances restricted to exact ones, e.g. atol = 0; arbitrary tolerances: C15_simplify_atol) *)
Theorem C15_eval_sound : forall ra ma, malg_ok ra ma -> ralg_ok ra -> forall (e : expr ra) (v : val ra),
  tols_exact ra e -> eval ra e = Some v -> denv ra ma v = sem ra ma e.
Proof. exact eval_sound. Qed.
Print Assumptions C15_eval_sound.

(* ---------------- squeeze_identity / simplify ---------------- *)
Theorem C15_squeeze_den : forall ra ma, malg_ok ra ma -> forall o o' : op ra,
  squeeze ra o = Some o' -> den ra ma o' = den ra ma o.
Proof. exact squeeze_den. Qed.
Print Assumptions C15_squeeze_den.

(* squeeze_identity never raises when identity letters carry zero quantum numbers (any number of
   components) -- this is the statement the pinned snapshot violated for 2-component labels *)
Theorem C15_squeeze_total : forall ra (o : op ra), word o <> [] ->
  (forall l, In l (word o) -> is_I l = true -> qn_zero (l_qn l) = true) ->
  exists o', squeeze ra o = Some o'.
Proof. exact squeeze_total. Qed.
Print Assumptions C15_squeeze_total.

Theorem C15_simplify_total : forall ra (t : tol ra) (s : list (op ra)),
  (forall o, In o s -> exists o', squeeze ra o = Some o') -> exists r, simplify ra t s = Some r.
Proof. exact simplify_total. Qed.
Print Assumptions C15_simplify_total.

(* atol = 0: merging equal terms (including exactly cancelling ones) and dropping zero terms never
   changes the denoted operator *)
Theorem C15_simplify_den : forall ra ma, malg_ok ra ma -> forall (t : tol ra) (s r : list (op ra)),
  tol_exact ra t -> simplify ra t s = Some r -> dens ra ma r = dens ra ma s.
Proof. exact simplify_den. Qed.
Print Assumptions C15_simplify_den.

(* any atol: input = output + dropped terms, and every dropped term failed |factor| > atol *)
Theorem C15_simplify_split : forall ra ma, malg_ok ra ma -> forall (t : tol ra) (s r : list (op ra)),
  simplify ra t s = Some r ->
  exists d, dropped ra t s = Some d
    /\ dens ra ma s = madd ma (dens ra ma r) (dens ra ma d)
    /\ Forall (fun o => keep ra t (factor o) = false) d.
Proof. exact simplify_split. Qed.
Print Assumptions C15_simplify_split.

(* any atol, any seminorm [nrm] with values in an ordered structure W (triangle inequality,
   |c x| <= |c| |x|): the change is bounded by  sum over dropped terms of atol * |word matrix| *)
Theorem C15_simplify_atol : forall ra ma, malg_ok ra ma ->
  forall (W : Type) (wle : W -> W -> Prop) (wadd wmul : W -> W -> W) (w0 : W)
         (nrm : M ma -> W) (absf : R ra -> W),
  (forall x y z, wle x y -> wle y z -> wle x z) ->
  (forall a b c d, wle a b -> wle c d -> wle (wadd a c) (wadd b d)) ->
  (forall a b c, wle a b -> wle (wmul a c) (wmul b c)) ->
  wle (nrm (m0 ma)) w0 ->
  (forall x y, wle (nrm (madd ma x y)) (wadd (nrm x) (nrm y))) ->
  (forall c x, wle (nrm (mmul ma (emb ma c) x)) (wmul (absf c) (nrm x))) ->
  forall (t : tol ra) (atol : W),
  (forall c, keep ra t c = false -> wle (absf c) atol) ->
  forall s r, simplify ra t s = Some r ->
  exists d, dropped ra t s = Some d
    /\ dens ra ma s = madd ma (dens ra ma r) (dens ra ma d)
    /\ wle (nrm (dens ra ma d))
           (wsum W wadd w0 (map (fun o => wmul atol (nrm (denw ra ma (word o)))) d)).
Proof. exact simplify_atol_bound. Qed.
Print Assumptions C15_simplify_atol.

(* the result of simplify has pairwise different (symbol, dofs) *)
Theorem C15_simplify_nodup : forall ra (t : tol ra) (s r : list (op ra)),
  simplify ra t s = Some r -> NoDup (map (fun o => key (word o)) r).
Proof. exact simplify_nodup. Qed.
Print Assumptions C15_simplify_nodup.

(* Model.check_operator_terms drops zero-factor terms *)
Theorem C15_zero_filter_den : forall ra ma, malg_ok ra ma -> ralg_ok ra -> forall s : list (op ra),
  dens ra ma (zero_filter ra s) = dens ra ma s.
Proof. exact zero_filter_den. Qed.
Print Assumptions C15_zero_filter_den.

(* ---------------- Model.check_operator_terms, translated from the source on every run (Gen/CheckTerms.v) -------- *)
(* the discard test found in the source is the exact comparison of the factor with zero (no tolerance) *)
Theorem C15_check_terms_test_exact : forall ra (o : op ra), ct_discard ra o = reqb ra (factor o) (r0 ra).
Proof. exact ct_discard_exact. Qed.
Print Assumptions C15_check_terms_test_exact.

(* the translated validate-and-filter loop raises iff some dof is unknown and otherwise is the model's zero filter *)
Theorem C15_check_terms_is_zero_filter : forall ra known (s r : list (op ra)),
  ct_filter ra known s = Some r <-> (forallb (ct_dofs_known ra known) s = true /\ r = zero_filter ra s).
Proof. exact ct_filter_spec. Qed.
Print Assumptions C15_check_terms_is_zero_filter.

(* a term survives iff its factor is non-zero -- however small it is *)
Theorem C15_check_terms_keeps_iff_nonzero : forall ra, ralg_ok ra -> forall known (s r : list (op ra)) o,
  ct_filter ra known s = Some r -> (In o r <-> In o s /\ factor o <> r0 ra).
Proof. exact ct_filter_keeps_iff_nonzero. Qed.
Print Assumptions C15_check_terms_keeps_iff_nonzero.

(* scale equivariance: for every scalar c that is not a zero divisor, filter (terms * c) = (filter terms) * c *)
Theorem C15_check_terms_scale_equivariant : forall ra, ralg_ok ra -> forall known c,
  (forall a, rmul ra a c = r0 ra -> a = r0 ra) -> rmul ra (r0 ra) c = r0 ra ->
  forall s : list (op ra),
  ct_filter ra known (sum_scal ra s c) = option_map (fun r => sum_scal ra r c) (ct_filter ra known s).
Proof. exact ct_filter_scale. Qed.
Print Assumptions C15_check_terms_scale_equivariant.

(* the cleaned term list of a Model denotes the sum of the operators / operator sums handed to it *)
Theorem C15_check_terms_den : forall ra, ralg_ok ra -> forall ma, malg_ok ra ma ->
  forall known (l : list (val ra)) r, check_operator_terms ra known l = Some r ->
  dens ra ma r = fold_right (fun v acc => madd ma (denv ra ma v) acc) (m0 ma) l.
Proof. exact check_operator_terms_den. Qed.
Print Assumptions C15_check_terms_den.

(* ---------------- split_elementary ---------------- *)
Theorem C15_split_elementary_den : forall ra ma, malg_ok ra ma ->
  forall site : dof -> Z, sites_commute ra ma site -> forall o : op ra,
  mmul ma (emb ma (snd (split_elementary ra site o)))
          (mprod ra ma (map (den ra ma) (fst (split_elementary ra site o)))) = den ra ma o.
Proof. exact split_elementary_den. Qed.
Print Assumptions C15_split_elementary_den.

Theorem C15_split_elementary_normal_form : forall ra (site : dof -> Z) (o : op ra),
  let ss := sorted_sites site (word o) in
  map word (fst (split_elementary ra site o)) = map (fun s => filter (on_site site s) (word o)) ss
  /\ StronglySorted Z.lt ss
  /\ (forall s, In s ss -> filter (on_site site s) (word o) <> []
                          /\ Forall (fun l => site (l_dof l) = s) (filter (on_site site s) (word o)))
  /\ Forall (fun g => factor g = r1 ra) (fst (split_elementary ra site o))
  /\ snd (split_elementary ra site o) = factor o.
Proof. exact split_elementary_normal_form. Qed.
Print Assumptions C15_split_elementary_normal_form.

(* ---------------- object identity (round 5) ---------------- *)
(* adding / subtracting an empty sum gives an equal value; values of the model are immutable, so a faithful
   implementation has to return a NEW list here -- checked on every run by the aliasing audit of the harness *)
Theorem C15_add_empty : forall ra (s : list (op ra)),
  v_add ra (VSum s) (VSum []) = Some (VSum s) /\ v_add ra (VSum s) (VL []) = Some (VSum s)
  /\ v_sub ra (VSum s) (VSum []) = Some (VSum s) /\ v_add ra (VSum []) (VSum s) = Some (VSum s).
Proof. exact v_add_empty_r. Qed.
Print Assumptions C15_add_empty.

(* `a += b` on an OpSum computes what `a + b` computes: in-place mutation is the only difference *)
Theorem C15_iadd_is_add : forall ra (s : list (op ra)) b, v_iadd ra (VSum s) b = v_add ra (VSum s) b.
Proof. exact v_iadd_is_add. Qed.
Print Assumptions C15_iadd_is_add.

(* split_elementary depends on the operator and on dof_to_siteidx restricted to the operator's dofs, on nothing else
   (no history): equal site maps on these dofs give equal splits *)
Theorem C15_split_elementary_ext : forall ra (site1 site2 : dof -> Z) (o : op ra),
  (forall l, In l (word o) -> site1 (l_dof l) = site2 (l_dof l)) ->
  split_elementary ra site1 o = split_elementary ra site2 o.
Proof. exact split_elementary_ext. Qed.
Print Assumptions C15_split_elementary_ext.

(* ---------------- == and hash ---------------- *)
Theorem C15_eq_hash : forall ra, ralg_ok ra -> forall a b : op ra, op_eqb ra a b = true ->
  forall (H : Type) (h : tuple_t ra -> H), op_hash ra h a = op_hash ra h b.
Proof. exact eq_hash. Qed.
Print Assumptions C15_eq_hash.

Theorem C15_eq_iff_fields : forall ra, ralg_ok ra -> forall a b : op ra,
  op_eqb ra a b = true <-> to_tuple ra a = to_tuple ra b.
Proof. exact op_eqb_tuple. Qed.
Print Assumptions C15_eq_iff_fields.

Theorem C15_eq_iff_same : forall ra, ralg_ok ra -> forall a b : op ra, op_eqb ra a b = true <-> a = b.
Proof. exact op_eqb_eq. Qed.
Print Assumptions C15_eq_iff_same.

(* ---------------- non-vacuity ---------------- *)
(* the contracts are satisfiable by a non-commutative interpretation: scalars Z, 2x2 integer matrices *)
Example C15_contract_scalars_satisfiable : ralg_ok ZR.
Proof. exact ZR_ok. Qed.
Example C15_contract_interp_satisfiable : malg_ok ZR MA2.
Proof. exact MA2_ok. Qed.
Example C15_contract_commute_satisfiable : sites_commute ZR MA2 (fun d => d).
Proof. exact MA2_commute. Qed.

Local Open Scope Z_scope.
Definition exA : op ZR := @mkOp ZR [(1, 0, [-1]); (0, 7, [0])] 3.        (* 3 * "a I" on dofs [0, 7] *)
Definition exB : op ZR := @mkOp ZR [(2, 0, [1])] 5.                       (* 5 * "a^\dagger" on dof 0 *)
(* the interpretation is not commutative: A*B and B*A denote different matrices *)
Example C15_noncommutative :
  den ZR MA2 (op_mul ZR exA exB) = (15, 0, 0, 0) /\ den ZR MA2 (op_mul ZR exB exA) = (0, 0, 0, 15).
Proof. split; reflexivity. Qed.
(* a program that is accepted, uses +, *, unary -, scalar, simplify with atol 0 and cancels exactly *)
Definition exProg : expr ZR :=
  ESimp ZR 0 (ESub ZR (EMul ZR (EAdd ZR (EVal ZR (VO exA)) (EVal ZR (VO exB))) (EVal ZR (@VS ZR KInt 2)))
                      (EMul ZR (EVal ZR (VO exB)) (EVal ZR (@VS ZR KNpI 2)))).
Example C15_program_accepted :
  eval ZR exProg = Some (@VSum ZR [@mkOp ZR [(1, 0, [-1])] 6]) /\ tols_exact ZR exProg.
Proof.
  split; [reflexivity|]. simpl. repeat split; auto.
  intros c H. simpl in H. destruct c; simpl in *; try reflexivity; discriminate.
Qed.
(* the dyadic-Gaussian instance used by the correspondence: (0.5 X0) * ((1+i) Y1) / 2 *)
Example C15_dg_runs :
  v_div DG (@VSum DG [op_mul DG (@mkOp DG [(3, 0, [0])] (1, 0, -1)) (@mkOp DG [(4, 1, [0])] (1, 1, 0))]) (@VS DG KFloat (1, 0, 1))
  = Some (@VSum DG [@mkOp DG [(3, 0, [0]); (4, 1, [0])] (1, 1, -2)]).
Proof. reflexivity. Qed.
(* squeeze_identity raises (assert) on an identity letter with a non-zero label, accepts a 2-component zero one *)
Example C15_squeeze_examples :
  squeeze ZR (@mkOp ZR [(3, 0, [0; 0]); (0, 1, [0; 1])] 1) = None
  /\ squeeze ZR (@mkOp ZR [(3, 0, [1; 0]); (0, 1, [0; 0])] 1) = Some (@mkOp ZR [(3, 0, [1; 0])] 1)
  /\ squeeze ZR (@mkOp ZR [(0, 4, [1; 0]); (0, 1, [0; 1])] 2) = Some (@mkOp ZR [(0, 4, [0; 0])] 2).
Proof. repeat split; reflexivity. Qed.
(* check_operator_terms: an Op and an OpSum are ravelled, the exactly-zero term is dropped, a factor of
   2^-100 is kept (dyadic instance); an unknown dof or a plain list raises; c = 2^-100 is not a zero divisor *)
Example C15_check_terms_examples :
  check_operator_terms DG (fun d => d <? 2)
    [@VO DG (@mkOp DG [(3, 0, [0])] (1, 0, -100)); @VSum DG [@mkOp DG [(4, 1, [0])] (0, 0, 0); @mkOp DG [(5, 1, [0])] (0, 3, 0)]]
  = Some [@mkOp DG [(3, 0, [0])] (1, 0, -100); @mkOp DG [(5, 1, [0])] (0, 3, 0)]
  /\ check_operator_terms DG (fun d => d <? 2) [@VO DG (@mkOp DG [(3, 2, [0])] (1, 0, 0))] = None
  /\ check_operator_terms DG (fun d => d <? 2) [@VL DG [@mkOp DG [(3, 0, [0])] (1, 0, 0)]] = None.
Proof. repeat split; reflexivity. Qed.
Example C15_scale_hypotheses_satisfiable :
  (forall a, rmul ZR a 7 = r0 ZR -> a = r0 ZR) /\ rmul ZR (r0 ZR) 7 = r0 ZR.
Proof. simpl. split; [intros a H; destruct a; simpl in *; try reflexivity; discriminate|reflexivity]. Qed.
(* the same operator in two models that group its dofs differently: one site per dof / dofs 0 and 1 on one site *)
Example C15_split_depends_on_site_map :
  let o := @mkOp ZR [(2, 0, [1]); (7, 5, [0]); (1, 1, [-1])] 3 in
  fst (split_elementary ZR (fun d => d) o)
    = [@mkOp ZR [(2, 0, [1])] 1; @mkOp ZR [(1, 1, [-1])] 1; @mkOp ZR [(7, 5, [0])] 1]
  /\ fst (split_elementary ZR (fun d => if d <? 2 then 0 else 1) o)
    = [@mkOp ZR [(2, 0, [1]); (1, 1, [-1])] 1; @mkOp ZR [(7, 5, [0])] 1].
Proof. split; reflexivity. Qed.
(* OpSum.product([]) is the empty sum, i.e. it denotes 0 (not the unit): the product theorem is
   stated for non-empty lists *)
Example C15_empty_product_is_zero : forall ma : malg ZR,
  v_sum_product ZR [] = Some (@VSum ZR []) /\ denv ZR ma (@VSum ZR []) = m0 ma.
Proof. intros. split; reflexivity. Qed.
