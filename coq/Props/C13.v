(* C13 -- Operations return new objects and never disturb the state of their inputs.
   Only statements, closed by [exact], with Print Assumptions beneath.  Gen/EvolveEntry.v is regenerated from
   /repo (mps/mps.py, mps/mpdm.py, mps/lib.py, tn/tree.py, tn/time_evolution.py) on every run.

   Model (Model/Heap.v): objects are layouts of (field, location) slots; the denotation (tensors x prefactor)
   is [interp] of the contents of the object's own locations; a step is ANY successor state respecting the
   effect signature [sig_of] of the instruction: contents change only in the writable fields of the declared
   in-place target and in the rewritable fields of other operands (which must then denote the same), results
   consist of fresh buffers except for declared shared fields, declared-shared buffers are never written,
   a fresh buffer belongs to one object. *)
From Coq Require Import List Arith Bool ZArith.
Import ListNotations.
From RV Require Import Base.CRing Base.BigSum Model.Chain Gen.EvolveEntry Model.Heap Proofs.HeapProofs.

(* frame: ALL programs (any length, any interleaving of derive / mutate / observe), all contents types V, all
   denotation types D with any reflexive transitive equality, all interpretations: an object that is never
   named as the in-place target denotes at the end what it denoted at the start *)
Theorem C13_frame :
  forall (V D : Type) (interp : list (field * V) -> D) (Deq : D -> D -> Prop),
  (forall x, Deq x x) -> (forall x y z, Deq x y -> Deq y z -> Deq x z) ->
  forall (p : list instr) (s s' : state V),
  wf s -> exec interp Deq p s s' ->
  forall n lay, st_obj s n = Some lay -> ~ In n (targets p) ->
  exists lay', st_obj s' n = Some lay' /\ Deq (den interp lay' (st_heap s')) (den interp lay (st_heap s)).
Proof. exact frame. Qed.
Print Assumptions C13_frame.

(* ... "the same value as when it was created": for every split p1 ++ p2 of a program started in a well-formed
   state (e.g. the empty one), every object live after p1 -- in particular the result of the last instruction
   of p1 -- that is never an in-place target in p2 *)
Theorem C13_frame_from_creation :
  forall (V D : Type) (interp : list (field * V) -> D) (Deq : D -> D -> Prop),
  (forall x, Deq x x) -> (forall x y z, Deq x y -> Deq y z -> Deq x z) ->
  forall (p1 p2 : list instr) (s0 s2 : state V),
  wf s0 -> exec interp Deq (p1 ++ p2) s0 s2 ->
  exists s1, exec interp Deq p1 s0 s1 /\ wf s1 /\
    forall n lay, st_obj s1 n = Some lay -> ~ In n (targets p2) ->
    exists lay', st_obj s2 n = Some lay' /\ Deq (den interp lay' (st_heap s2)) (den interp lay (st_heap s1)).
Proof. exact frame_from_creation. Qed.
Print Assumptions C13_frame_from_creation.

(* derive b from a, run anything that does not target a, mutate b in place: a is unchanged *)
Theorem C13_mutate_result_keeps_input :
  forall (V D : Type) (interp : list (field * V) -> D) (Deq : D -> D -> Prop),
  (forall x, Deq x x) -> (forall x y z, Deq x y -> Deq y z -> Deq x z) ->
  forall d p m (s s' : state V) a b lay,
  wf s -> i_res d = Some b -> In a (i_args d) -> i_target d = None ->
  i_target m = Some b -> a <> b -> ~ In a (targets p) ->
  exec interp Deq (d :: p ++ [m]) s s' -> st_obj s a = Some lay ->
  exists lay', st_obj s' a = Some lay' /\ Deq (den interp lay' (st_heap s')) (den interp lay (st_heap s)).
Proof. exact mutate_result_keeps_input. Qed.
Print Assumptions C13_mutate_result_keeps_input.

(* ... and vice versa: mutate the input a in place, the result b derived from it is unchanged *)
Theorem C13_mutate_input_keeps_result :
  forall (V D : Type) (interp : list (field * V) -> D) (Deq : D -> D -> Prop),
  (forall x, Deq x x) -> (forall x y z, Deq x y -> Deq y z -> Deq x z) ->
  forall d p m (s s' : state V) a b,
  wf s -> i_res d = Some b -> In a (i_args d) ->
  i_target m = Some a -> a <> b -> ~ In b (targets p) ->
  exec interp Deq (d :: p ++ [m]) s s' ->
  exists s1, step interp Deq d s s1 /\
    forall layb, st_obj s1 b = Some layb ->
    exists lay', st_obj s' b = Some lay' /\ Deq (den interp lay' (st_heap s')) (den interp layb (st_heap s1)).
Proof. exact mutate_input_keeps_result. Qed.
Print Assumptions C13_mutate_input_keeps_result.

(* separation is an invariant of every execution (this is what makes the frame rule compose) *)
Theorem C13_exec_preserves_separation :
  forall (V D : Type) (interp : list (field * V) -> D) (Deq : D -> D -> Prop)
         (p : list instr) (s s' : state V), wf s -> exec interp Deq p s s' -> wf s'.
Proof. exact exec_wf. Qed.
Print Assumptions C13_exec_preserves_separation.

(* Mps.add / Mps.distance prefactor folding, over any commutative ring, any chain length, any fold site:
   the tensors are rewritten (site k multiplied by the prefactor), the prefactor is reset to 1, the product
   prefactor x amplitude is unchanged for every configuration s -- states and (density) operators *)
Theorem C13_fold_preserves_denotation :
  forall (R : CRing) k (coeff : R) (ts : list (nat * T3 R)) (s : list nat), k < length ts ->
  den_state (fst (fold_state k coeff ts)) (snd (fold_state k coeff ts)) s = den_state coeff ts s.
Proof. exact fold_preserves_denotation. Qed.
Print Assumptions C13_fold_preserves_denotation.

Theorem C13_fold_preserves_denotation_oper :
  forall (R : CRing) k (coeff : R) (ts : list (nat * T4 R)) (su sd : list nat), k < length ts ->
  den_oper (fst (fold_oper k coeff ts)) (snd (fold_oper k coeff ts)) su sd = den_oper coeff ts su sd.
Proof. exact fold_preserves_denotation_oper. Qed.
Print Assumptions C13_fold_preserves_denotation_oper.

(* the GENERATED entry table: every evolution entry point (every _evolve_*, evolve, evolve_exact of Mps / MpDm,
   the adaptive wrapper, TTNS.evolve, compressed_sum) returns a state that is never the input, has no store to
   the input and calls no in-place method on it or on a name that may alias it, apart from configuration stores
   and the denotation-preserving rewrites its signature declares; helpers work on the (fresh) argument they are
   given; every compressed_sum call uses a batch size >= 2 *)
Theorem C13_sig_ok_all : forall e, In e entries -> sig_ok e = true.
Proof. exact sig_ok_each. Qed.
Print Assumptions C13_sig_ok_all.

Theorem C13_public_entries_sound : forall e, In e entries -> e_role e = Public ->
  ~ In OIn (e_ret e) /\ e_ret e <> [] /\ forall w, In w (e_writes e) -> benign (w_kind w).
Proof. exact public_entries_sound. Qed.
Print Assumptions C13_public_entries_sound.

(* the table has a row for every evolution scheme of the model and for every other scanned function *)
Theorem C13_table_complete : table_complete = true.
Proof. exact table_complete_ok. Qed.
Print Assumptions C13_table_complete.

(* compressed_sum, queue branch (matched literally by the translator): with >= 2 terms and batch size >= 2 the
   loop terminates with a single element that is a sum made by _sum -- never an element of the argument list --
   and every _sum call receives >= 2 terms (so its reduce() never returns its argument) *)
Theorem C13_csum_queue_fresh : forall batch (q : list bool), 2 <= batch -> 2 <= length q ->
  exists ks, csum_loop (length q) batch q = Some ([false], ks) /\ Forall (fun k => 2 <= k) ks.
Proof. exact csum_queue_fresh. Qed.
Print Assumptions C13_csum_queue_fresh.

(* ---------------------------------------------------------------- non-vacuity *)
(* a concrete execution meets the hypotheses of the frame theorem: a := new; b := a.copy(); b.scale(7, inplace);
   c := a.add(b) with a's prefactor folded into its buffers in place.  b really changes (30 -> 210), the contents
   of a's buffers really change, a still denotes 30. *)
Example C13_frame_nonvacuous :
  wf Example.s0 /\ exec Example.zinterp eq Example.prog Example.s0 Example.s4 /\
  targets Example.prog = [1] /\
  den Example.zinterp Example.la (st_heap Example.s1) = 30%Z /\
  den Example.zinterp Example.la (st_heap Example.s4) = 30%Z /\
  st_heap Example.s4 0 <> st_heap Example.s1 0 /\
  den Example.zinterp Example.lb (st_heap Example.s2) = 30%Z /\
  den Example.zinterp Example.lb' (st_heap Example.s4) = 210%Z.
Proof. exact Example.nonvacuous. Qed.

(* the step relation is not trivially true: a "copy" that keeps the operand's site buffer is rejected *)
Example C13_aliasing_copy_is_no_step : ~ step Example.zinterp eq Example.i2 Example.s1 Example.s2_alias.
Proof. exact Example.aliasing_copy_is_no_step. Qed.

(* folding on concrete data: Gaussian-integer prefactor 2+3i, two sites *)
Example C13_fold_example :
  let c : GiRing := (2%Z, 3%Z) in
  let t1 : T3 GiRing := fun _ p _ => ((Z.of_nat p + 1)%Z, 1%Z) in
  let t2 : T3 GiRing := fun _ p _ => (2%Z, (Z.of_nat p)%Z) in
  let ts : list (nat * T3 GiRing) := [(1, t1); (1, t2)] in
  den_state (fst (fold_state 1 c ts)) (snd (fold_state 1 c ts)) [1; 1] = den_state c ts [1; 1]
  /\ den_state c ts [1; 1] = ((-6)%Z, 17%Z)
  /\ snd (fold_state 1 c ts) <> ts.
Proof.
  cbv zeta. split; [vm_compute; reflexivity|]. split; [vm_compute; reflexivity|].
  intros H. apply (f_equal (fun l : list (nat * T3 GiRing) => match l with [_; (_, t)] => t 0 0 0 | _ => (0, 0)%Z end)) in H.
  vm_compute in H. discriminate.
Qed.

(* the generated table and the queue model are not empty *)
Example C13_table_nonvacuous :
  length entries = 18 /\ length (filter (fun e => match e_role e with Public => true | _ => false end) entries) = 13 /\
  csum_loop 7 5 [true; true; true; true; true; true; true] = Some ([false], [5; 3]).
Proof. vm_compute. repeat split; reflexivity. Qed.

(* ================================================================== second wave *)
From RV Require Import Model.HeapGauge Proofs.HeapGaugeProofs.

(* ---- signatures generated from the source (Gen/OpEntries.v, tx/opentries.py): one row per (method, variant,
   tracked parameter) of copy / metacopy / to_complex / conj / conj_trans / scale / add / distance / canonicalise /
   ensure_*_canonical / compress / normalize / expectation(s) / calc_*rdm / entropies / apply / contract / from_mps
   of chains and the corresponding tree methods.  For every covered operation: all rows exist, an operand is written
   only by configuration stores, gauge changes and the matched prefactor fold, a result-producing operation never
   returns its operand, nothing was left un-understood by the scanner ... *)
Theorem C13_op_table_ok : forall w o, In (w, o) covered_ops -> gen_ok w o = true.
Proof. exact op_table_ok_each. Qed.
Print Assumptions C13_op_table_ok.

(* ... and the signature computed from the rows (rewritten fields of operands, written fields of the in-place
   target, fields in which a built object receives a buffer of an operand) is, as sets of fields, the hand-declared
   one; [gsig_of] -- the table [within_sig] checks the observations against (generated, intersected with the hand
   table) -- therefore is the generated one *)
Theorem C13_sig_tables_agree : forall w o, In (w, o) covered_ops ->
  exists g, gen_sig w o = Some g /\ sig_agree g (sig_of w o) = true /\
            s_rewrite (gsig_of w o) = s_rewrite g /\ s_write (gsig_of w o) = s_write g /\ s_share (gsig_of w o) = s_share g.
Proof. exact sig_tables_agree_each. Qed.
Print Assumptions C13_sig_tables_agree.

(* the generated counterpart of the frame theorem's clause "declared-shared buffers are never written": the fields whose
   existing container an in-place method updates (x.f op= e) are disjoint from the fields any operation of the same world
   hands on to its result (chains: site buffers of a real conj, qntot of from_mps, the prefactor object; trees: the prefactor
   object, a 0-d ndarray after load) *)
Theorem C13_inplace_writes_avoid_shared : inplace_ok Chain = true /\ inplace_ok Tree = true.
Proof. exact inplace_writes_avoid_shared. Qed.
Print Assumptions C13_inplace_writes_avoid_shared.

Theorem C13_gen_ok_operand_sound : forall w o fn v p r, gen_ok w o = true -> In (fn, v, p, Operand) (op_rows w o) ->
  find_row (fn, v, p, Operand) = Some r ->
  (forall x, In x (o_writes r) -> benign (pw_kind x)) /\
  (s_cat (sig_of w o) = Derive -> o_ret_is_param r = false).
Proof. exact gen_ok_operand_sound. Qed.
Print Assumptions C13_gen_ok_operand_sound.

(* ---- gauge rewrites (write class WGauge): one push step of the canonical centre (MatrixProduct._push_cano +
   _update_ms) with ANY decomposition kernel satisfying M = U.V leaves every amplitude unchanged -- the
   schedule-independent algebraic lemma of C04 (C04_push_preserves_amp), re-proved here so that C13 does not depend
   on C04's generated schedule -- hence so does any schedule of push steps (canonicalise, ensure_left_canonical,
   ensure_right_canonical, the two sweeps of _trim_overcomplete_bonds) *)
Theorem C13_gauge_push_preserves_amp : forall (R : CRing) (dec : gkernel R), gdec_factor dec ->
  forall dir ds ts i s, gcfg_ok ds s -> amp (gpush dec dir ds ts i) s = amp ts s.
Proof. exact gpush_preserves_amp. Qed.
Print Assumptions C13_gauge_push_preserves_amp.

Theorem C13_gauge_sweep_preserves_amp : forall (R : CRing) (dec : gkernel R), gdec_factor dec ->
  forall ds tr ts s, gcfg_ok ds s -> amp (gsweep dec ds tr ts) s = amp ts s.
Proof. exact gsweep_preserves_amp. Qed.
Print Assumptions C13_gauge_sweep_preserves_amp.

(* connection to the heap model (chain instance: cells hold site tensors / the prefactor, an object denotes
   prefactor x amplitude on every basis configuration): a WGauge write puts the swept chain into the operand's site
   locations (old or fresh ones) and leaves the prefactor cell alone -- the operand denotes the same.  This is the
   Deq clause [step] demands of a rewritten operand. *)
Theorem C13_gauge_write_preserves_den : forall (R : CRing) (dec : gkernel R), gdec_factor dec ->
  forall ds tr (lay lay' : layout) (h h' : loc -> cell R),
  cell_sites (slots_of lay' h') = gsweep dec ds tr (cell_sites (slots_of lay h)) ->
  cell_coeff (slots_of lay' h') = cell_coeff (slots_of lay h) ->
  Deq_cfg ds (den chain_interp lay' h') (den chain_interp lay h).
Proof. exact gauge_write_preserves_den. Qed.
Print Assumptions C13_gauge_write_preserves_den.

(* the same for the WFold class: site k scaled by the prefactor, prefactor cell reset to 1 *)
Theorem C13_fold_write_preserves_den : forall (R : CRing) ds k (lay lay' : layout) (h h' : loc -> cell R),
  k < length (cell_sites (slots_of lay h)) ->
  cell_sites (slots_of lay' h') = scale_at (scale3 R (cell_coeff (slots_of lay h))) k (cell_sites (slots_of lay h)) ->
  cell_coeff (slots_of lay' h') = r1 R ->
  Deq_cfg ds (den chain_interp lay' h') (den chain_interp lay h).
Proof. exact fold_write_preserves_den. Qed.
Print Assumptions C13_fold_write_preserves_den.

(* the frame theorem instantiated with the chain semantics: prefactor x amplitude of every basis configuration *)
Theorem C13_frame_chain : forall (R : CRing) ds (p : list instr) (s s' : state (cell R)),
  wf s -> exec chain_interp (Deq_cfg ds) p s s' ->
  forall n lay, st_obj s n = Some lay -> ~ In n (targets p) ->
  exists lay', st_obj s' n = Some lay' /\
    forall cfg, gcfg_ok ds cfg -> den chain_interp lay' (st_heap s') cfg = den chain_interp lay (st_heap s) cfg.
Proof. exact frame_chain. Qed.
Print Assumptions C13_frame_chain.

(* non-vacuity: a kernel meeting the contract exists over every ring (M = 1.M); the generated table is not empty *)
Example C13_gauge_kernel_exists : forall R : CRing, gdec_factor (triv_dec R).
Proof. exact triv_dec_factor. Qed.
Example C13_op_table_nonvacuous :
  length oprows = 75 /\ length covered_ops = 41 /\
  fset_eqb (s_rewrite (gsig_of Chain Add)) [FSite; FCoeff; FMeta] = true /\
  fset_eqb (s_share (gsig_of Chain Conj)) [FSite; FCoeff] = true /\ s_share (gsig_of Tree ToComplex) = [FCoeff].
Proof. vm_compute. repeat split; reflexivity. Qed.
