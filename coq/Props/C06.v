(* C06 -- Conserved quantum numbers are never violated by any operation.
   Only statements, closed by [exact], with Print Assumptions beneath.  Model/Qn.v, Proofs/QnProofs.v.

   qn_valid3 sig m ts  :=  the label lists have the bond dimensions of the chain, the boundary bonds have dimension
   1 with left-block labels 0 / qntot, and every entry T_i[l,p,r] whose labels do NOT satisfy
   Llab i l + sigma_i p = Llab (i+1) r  is zero  (C06_valid_nonzero_entry is the positive form).
   Chains of any length, any bond dimensions, any commutative ring with involution.

   Trees (second half of the file): labels live on the parent bond of every node (Model/TtnsQn.v on top of C11's
   Model/Ttns.v); sector containment, preservation by TTNS.add (with prefactor folding) / scale / TTNO.apply and the
   checker are proved for one-component labels and, for the checker, per component of vector labels.
   Third wave: label part of the tree gauge moves (push_cano_to_parent / push_cano_to_child = compress_node's split),
   of update_2site (fixed a4feae3, both cano_parent cases) and of masked one-site updates, each relative to the svd_qn
   block contract and lifted from the sub-tree where the move happens to the whole tree; tree masks (get_qnmat one- and
   two-site) and multi-component corollaries.
   PARTIAL: eigh_qn (state-averaged algorithms) is not modelled; the dense part of the factorisations (M = Q R etc.) is
   C04 / C11's; truncation inside compress_node only selects columns, which the block contract covers.          *)
From Coq Require Import ZArith List Arith Bool.
Import ListNotations.
From RV Require Import Base.CRing Base.BigSum Model.Chain Model.Mp Model.Qn Proofs.MpProofs Proofs.QnProofs
  Model.QnMask Proofs.QnMaskProofs Model.Ttns Model.TtnsQn Proofs.TtnsQnProofs Proofs.TtnsQnMoves.
Local Open Scope Z_scope.

(* the semantic core: valid labels => no amplitude outside the sector *)
Theorem C06_valid_in_sector : forall (R : CRing) sig (m : metaZ) (ts : list (nat * T3 R)),
  qn_valid3 sig m ts -> forall s, amp ts s <> r0 R -> charge sig 0 s = qntot m.
Proof. exact valid_in_sector. Qed.
Print Assumptions C06_valid_in_sector.

Theorem C06_valid_in_sector_zero : forall (R : CRing) sig (m : metaZ) (ts : list (nat * T3 R)) s,
  qn_valid3 sig m ts -> charge sig 0 s <> qntot m -> amp ts s = r0 R.
Proof. exact valid_in_sector_zero. Qed.
Print Assumptions C06_valid_in_sector_zero.

(* interior form: any block of sites, any bond indices *)
Theorem C06_valid_block : forall (R : CRing) (ts : list (nat * T3 R)) sig Lf i dl s l r,
  valid_from3 sig Lf i dl ts -> (l < dl)%nat -> (r < lastdim dl ts)%nat ->
  Lf i l + charge sig i s <> Lf (i + length ts)%nat r -> chain3 ts s l r = r0 R.
Proof. exact valid_from3_chain. Qed.
Print Assumptions C06_valid_block.

Theorem C06_valid_nonzero_entry : forall (R : CRing) sig Lf i dl d (t : T3 R) ts l p r,
  valid_from3 sig Lf i dl ((d, t) :: ts) -> (l < dl)%nat -> (r < d)%nat -> t l p r <> r0 R ->
  Lf i l + sig i p = Lf (S i) r.
Proof. exact valid_from3_nonzero. Qed.
Print Assumptions C06_valid_nonzero_entry.

(* several quantum numbers: each component *)
Theorem C06_valid_in_sector_multi : forall (R : CRing) nc sigV (m : meta VLab) (ts : list (nat * T3 R)),
  qn_valid3V nc sigV m ts -> forall s, amp ts s <> r0 R ->
  forall k, (k < nc)%nat -> charge (fun i p => comp k (sigV i p)) 0 s = comp k (qntot m).
Proof. exact valid_in_sectorV. Qed.
Print Assumptions C06_valid_in_sector_multi.

(* ---------------------------------------------------------------- preservation by the exact operations *)
Theorem C06_add_preserves : forall (R : CRing) sig (ma mb : metaZ) (A B : list (nat * T3 R)),
  qn_valid3 sig ma A -> qn_valid3 sig mb B -> qntot ma = qntot mb ->
  (2 <= length A)%nat -> length A = length B ->
  qn_valid3 sig (add_meta (length A) ma mb) (add3 A B).
Proof. exact add_valid3. Qed.
Print Assumptions C06_add_preserves.

Theorem C06_add_stays_in_sector : forall (R : CRing) sig (ma mb : metaZ) (A B : list (nat * T3 R)),
  qn_valid3 sig ma A -> qn_valid3 sig mb B -> qntot ma = qntot mb ->
  (2 <= length A)%nat -> length A = length B ->
  forall s, amp (add3 A B) s <> r0 R -> charge sig 0 s = qntot ma.
Proof. exact add_stays_in_sector. Qed.
Print Assumptions C06_add_stays_in_sector.

Theorem C06_scale_preserves : forall (R : CRing) sig (m : metaZ) (ts : list (nat * T3 R)) k c,
  qn_valid3 sig m ts -> qn_valid3 sig m (scale_at3 k c ts).
Proof. exact scale_valid3. Qed.
Print Assumptions C06_scale_preserves.

Theorem C06_conj_preserves : forall (R : CRing) sig (m : metaZ) (ts : list (nat * T3 R)),
  qn_valid3 sig m ts -> qn_valid3 sig m (conj3 ts).
Proof. exact conj_valid3. Qed.
Print Assumptions C06_conj_preserves.

(* moving the centre (between the sites of every sweep) *)
Theorem C06_move_preserves : forall (R : CRing) sig (m : metaZ) (ts : list (nat * T3 R)) d,
  qn_valid3 sig m ts -> (d < length ts)%nat -> qn_valid3 sig (move_qnidx (length ts) m d) ts.
Proof. exact move_valid3. Qed.
Print Assumptions C06_move_preserves.

(* an operator that changes the quantum number by q = qntot mo moves the state exactly to the shifted sector *)
Theorem C06_apply_moves_sector : forall (R : CRing) sigW sig sigc (mo ma : metaZ)
    (W : list (nat * T4 R)) (a : list (nat * T3 R)) dqs,
  qn_valid4 sigW mo W -> qn_valid3 sig ma a ->
  (forall j pu q, sigc j pu = sigW j pu q + sig j q) ->
  length W = length a -> length dqs = length a ->
  forall s, amp (apply3 1 dqs W a) s <> r0 R -> charge sigc 0 s = qntot ma + qntot mo.
Proof. exact apply_moves_sector. Qed.
Print Assumptions C06_apply_moves_sector.

Theorem C06_apply_preserves : forall (R : CRing) sigW sig sigc (mo ma : metaZ)
    (W : list (nat * T4 R)) (a : list (nat * T3 R)) dqs,
  qn_valid4 sigW mo W -> qn_valid3 sig ma a ->
  (forall j pu q, sigc j pu = sigW j pu q + sig j q) ->
  length W = length a -> length dqs = length a ->
  qn_valid3 sigc (apply_meta (length a) mo ma) (apply3 1 dqs W a) /\
  qntot (apply_meta (length a) mo ma) = qntot ma + qntot mo.
Proof. exact apply_valid3. Qed.
Print Assumptions C06_apply_preserves.

(* ---------------------------------------------------------------- numerical operations: proved-sound checking.
   For ANY tensors that vanish outside the exported support pattern and have the exported dimensions, a
   successful run of the boolean checker establishes qn_valid3 -- hence, by C06_valid_in_sector, sector containment
   of that very output of compress / canonicalise / optimize_mps / evolve. *)
Theorem C06_qn_validb_sound : forall (R : CRing) sigs (m : metaZ) pats (ts : list (nat * T3 R)),
  qn_validb sigs m pats = true -> has_support pats ts -> map fst ts = tl (map (@length Z) (qn m)) ->
  qn_valid3 (sig_of sigs) m ts.
Proof. exact qn_validb_sound. Qed.
Print Assumptions C06_qn_validb_sound.

Theorem C06_qn_validb_sound_multi : forall (R : CRing) nc sigsV (m : meta VLab) pats (ts : list (nat * T3 R)),
  qn_validbV nc sigsV m pats = true -> has_support pats ts -> map fst ts = tl (map (@length (list Z)) (qn m)) ->
  forall k, (k < nc)%nat -> qn_valid3 (sig_of (map (map (comp k)) sigsV)) (proj_meta k m) ts.
Proof. exact qn_validbV_sound. Qed.
Print Assumptions C06_qn_validb_sound_multi.

(* ---------------------------------------------------------------- masks and sweep steps (chains)
   mask1 / mask2 are the code's get_qn_mask(qnmat, qntot) for cidx = [i] / [i, i+1] (Model/QnMask.v); the code asserts
   qnidx in cidx. *)
Theorem C06_mask1_meaning : forall (sg : list Z) (m : metaZ) i l p r, qnidx m = i ->
  @mask1 ZLab sg m i l p r = true <-> Llab m i l + nth p sg 0 = Llab m (S i) r.
Proof. exact mask1_meaning. Qed.
Print Assumptions C06_mask1_meaning.

Theorem C06_mask2_meaning : forall (sg1 sg2 : list Z) (m : metaZ) i l p1 p2 r, (qnidx m = i \/ qnidx m = S i) ->
  @mask2 ZLab sg1 sg2 m i l p1 p2 r = true <-> Llab m i l + nth p1 sg1 0 + nth p2 sg2 0 = Llab m (S (S i)) r.
Proof. exact mask2_meaning. Qed.
Print Assumptions C06_mask2_meaning.

Theorem C06_mask1_components : forall k (sg : list (list Z)) (m : meta VLab) i l p r,
  @mask1 VLab sg m i l p r = true -> @mask1 ZLab (map (comp k) sg) (proj_meta k m) i l p r = true.
Proof. exact mask1_comp. Qed.
Print Assumptions C06_mask1_components.

Theorem C06_mask2_components : forall k (sg1 sg2 : list (list Z)) (m : meta VLab) i l p1 p2 r,
  @mask2 VLab sg1 sg2 m i l p1 p2 r = true ->
  @mask2 ZLab (map (comp k) sg1) (map (comp k) sg2) (proj_meta k m) i l p1 p2 r = true.
Proof. exact mask2_comp. Qed.
Print Assumptions C06_mask2_components.

(* for vector-valued labels (several conserved species) the mask is the CONJUNCTION of the component masks -- all
   components must match, as get_qn_mask's np.all(..., axis=-1) -- not "some component matches" *)
Theorem C06_mask1_vector_conjunction : forall (sg : list (list Z)) (m : meta VLab) i l p r,
  @mask1 VLab sg m i l p r = true <-> forall k, @mask1 ZLab (map (comp k) sg) (proj_meta k m) i l p r = true.
Proof. exact mask1_vector_conjunction. Qed.
Print Assumptions C06_mask1_vector_conjunction.

Theorem C06_mask2_vector_conjunction : forall (sg1 sg2 : list (list Z)) (m : meta VLab) i l p1 p2 r,
  @mask2 VLab sg1 sg2 m i l p1 p2 r = true <->
  forall k, @mask2 ZLab (map (comp k) sg1) (map (comp k) sg2) (proj_meta k m) i l p1 p2 r = true.
Proof. exact mask2_vector_conjunction. Qed.
Print Assumptions C06_mask2_vector_conjunction.

(* two species (n_alpha, n_beta): left label (1,0), site charge (0,0), right-block label (0,1), total (1,1) is allowed;
   with right-block label (0,0) the first component matches and the second does not: the mask is false although the
   "any component" reading (component 0 alone) would accept the entry *)
Example C06_ex_mask_all_components :
  let m := @Build_meta VLab [[[1; 0]]; [[0; 1]; [0; 0]]] 0%nat [1; 1] true in
  (@mask1 VLab [[0; 0]] m 0%nat 0%nat 0%nat 0%nat = true) /\
  (@mask1 VLab [[0; 0]] m 0%nat 0%nat 0%nat 1%nat = false) /\
  (@mask1 ZLab (map (comp 0%nat) [[0; 0]]) (proj_meta 0%nat m) 0%nat 0%nat 0%nat 1%nat = true).
Proof. cbv zeta. repeat split; vm_compute; reflexivity. Qed.

(* writing ANY tensor that vanishes outside the mask at the centre keeps the labels valid: the statement that makes the
   1-site DMRG update and the VMF / CMF parameter packing (cvec2cmat with the mask) sector preserving *)
Theorem C06_mask_update_valid : forall (R : CRing) sig (sg : list Z) (m : metaZ) (ts : list (nat * T3 R)) i (t' : T3 R),
  qn_valid3 sig m ts -> qnidx m = i -> (forall p, sig i p = nth p sg 0) ->
  (forall l p r, @mask1 ZLab sg m i l p r = false -> t' l p r = r0 R) ->
  qn_valid3 sig m (set_site i (nth (S i) (bdims 1 ts) O, t') ts).
Proof. exact mask_update_valid. Qed.
Print Assumptions C06_mask_update_valid.

(* two adjacent sites replaced by factors obeying the svd_qn block contract w.r.t. the re-labelled bond (2-site DMRG
   update, compress step, _update_ms): labels stay valid *)
Theorem C06_two_site_update_valid : forall (R : CRing) sig (m : metaZ) (ts : list (nat * T3 R)) i newq newidx (U V : T3 R),
  qn_valid3 sig m ts -> (S i < length ts)%nat ->
  (qnidx m = i \/ qnidx m = S i) -> (newidx = i \/ newidx = S i) ->
  let m' := set_bond m (S i) newq newidx in
  (forall l p a, (l < nth i (bdims 1 ts) O)%nat -> (a < length newq)%nat ->
     Llab m i l + sig i p <> Llab m' (S i) a -> U l p a = r0 R) ->
  (forall a p r, (a < length newq)%nat -> (r < nth (S (S i)) (bdims 1 ts) O)%nat ->
     Llab m' (S i) a + sig (S i) p <> Llab m (S (S i)) r -> V a p r = r0 R) ->
  qn_valid3 sig m' (set_site2 i (length newq, U) (nth (S (S i)) (bdims 1 ts) O, V) ts).
Proof. exact two_site_update_valid. Qed.
Print Assumptions C06_two_site_update_valid.

(* one QR push step of canonicalise (label part), sweeping right: the labels given to the new bond are those of the block
   each column of Q lives in, the remainder Rm only connects equal labels and is absorbed by the next site *)
Theorem C06_push_right_valid : forall (R : CRing) sig (m : metaZ) (ts : list (nat * T3 R)) i (qnew : list Z)
    (Q : T3 R) (Rm : nat -> nat -> R) d2 (T2 : T3 R),
  qn_valid3 sig m ts -> qnidx m = i -> nth_error ts (S i) = Some (d2, T2) ->
  (forall l p a, (l < nth i (bdims 1 ts) O)%nat -> (a < length qnew)%nat ->
     Llab m i l + sig i p <> nth a qnew 0 -> Q l p a = r0 R) ->
  (forall a b, (a < length qnew)%nat -> (b < nth (S i) (bdims 1 ts) O)%nat ->
     nth a qnew 0 <> Llab m (S i) b -> Rm a b = r0 R) ->
  qn_valid3 sig (set_bond m (S i) qnew (S i))
    (set_site2 i (length qnew, Q) (d2, absorb_left (nth (S i) (bdims 1 ts) O) Rm T2) ts).
Proof. exact push_right_valid. Qed.
Print Assumptions C06_push_right_valid.

(* ... and sweeping left (system "R": the new bond carries RIGHT-block labels, the centre moves to site i) *)
Theorem C06_push_left_valid : forall (R : CRing) sig (m : metaZ) (ts : list (nat * T3 R)) i (qnr : list Z)
    (Vt : T3 R) (Um : nat -> nat -> R) d1 (T1 : T3 R),
  qn_valid3 sig m ts -> qnidx m = S i -> (S i < length ts)%nat -> nth_error ts i = Some (d1, T1) ->
  (forall a p r, (a < length qnr)%nat -> (r < nth (S (S i)) (bdims 1 ts) O)%nat ->
     (qntot m - nth a qnr 0) + sig (S i) p <> Llab m (S (S i)) r -> Vt a p r = r0 R) ->
  (forall b a, (b < d1)%nat -> (a < length qnr)%nat ->
     Llab m (S i) b <> qntot m - nth a qnr 0 -> Um b a = r0 R) ->
  qn_valid3 sig (set_bond m (S i) qnr i)
    (set_site2 i (length qnr, absorb_right d1 T1 Um) (nth (S (S i)) (bdims 1 ts) O, Vt) ts).
Proof. exact push_left_valid. Qed.
Print Assumptions C06_push_left_valid.

(* ---------------------------------------------------------------- trees *)
Theorem C06_ttns_valid_in_sector : forall (R : CRing) (t : ttree R) st g qtot,
  ttns_qn_valid st t g qtot -> forall s, tamp R t s O <> r0 R -> tcharge st t s = qtot.
Proof. exact ttns_valid_in_sector. Qed.
Print Assumptions C06_ttns_valid_in_sector.

(* any sub-tree, any index of its parent bond *)
Theorem C06_ttns_valid_subtree : forall (R : CRing) (t : ttree R) st g, tvalid st t g -> forall s p, (p < tdim R t)%nat ->
  tcharge st t s <> nth p (qlab g) 0 -> tamp R t s p = r0 R.
Proof. exact tvalid_in_sector. Qed.
Print Assumptions C06_ttns_valid_subtree.

Theorem C06_ttns_add_valid : forall (R : CRing) ca cb (a b : ttree R) st ga gb qtot,
  ttns_qn_valid st a ga qtot -> ttns_qn_valid st b gb qtot -> tshape R a = tshape R b ->
  ttns_qn_valid st (tadd_coeff R ca cb a b) (@qadd ZLab ga gb) qtot.
Proof. exact tadd_coeff_valid. Qed.
Print Assumptions C06_ttns_add_valid.

Theorem C06_ttns_scale_valid : forall (R : CRing) c (t : ttree R) st g, tvalid st t g -> tvalid st (tscale R c t) g.
Proof. exact tscale_valid. Qed.
Print Assumptions C06_ttns_scale_valid.

Theorem C06_ttno_apply_moves_sector : forall (R : CRing) (t : ttree R) (o : otree R) st g go qtot qop,
  ttns_qn_valid st t g qtot -> ovalid st o go -> odim R o = 1%nat -> qlab go = [qop] -> tshape R t = oshape R o ->
  ttns_qn_valid st (tapply R o t) (@qapply ZLab g go) (qtot + qop).
Proof. exact tapply_moves_sector. Qed.
Print Assumptions C06_ttno_apply_moves_sector.

Theorem C06_ttns_validb_sound : forall (R : CRing) (t : ttree R) st g pt qtot,
  ttns_validb st g pt qtot = true -> has_tsupport pt t -> dims_agree t g -> tdim R t = 1%nat ->
  ttns_qn_valid st t g qtot.
Proof. exact ttns_validb_sound. Qed.
Print Assumptions C06_ttns_validb_sound.

Theorem C06_ttns_validb_sound_multi : forall (R : CRing) (t : ttree R) nc (st : stree (list Z)) (g : qtree (list Z)) pt qtot,
  ttns_validbV nc st g pt qtot = true -> has_tsupport pt t -> tdim R t = 1%nat ->
  forall k, (k < nc)%nat -> dims_agree t (qmap (comp k) g) ->
  ttns_qn_valid (smap (comp k) st) t (qmap (comp k) g) (comp k qtot).
Proof. exact ttns_validbV_sound. Qed.
Print Assumptions C06_ttns_validb_sound_multi.

(* ---------------------------------------------------------------- trees, third wave: gauge moves, 2-site update, masks.
   A move acts on the sub-tree u reached by [path] (Ttns.at_path, as C11's run_step); i = position of the child whose
   parent bond is re-labelled; (lc pdc dc Tc ccs) / (qc gcs) / (sgc ssc) = that child's node, labels, charges. *)
Theorem C06_ttns_push_parent_valid : forall (R : CRing) path i m (Q : tens R) V qnew (t : ttree R) g st qtot u gu su
    lc pdc dc Tc ccs qc gcs sgc ssc,
  ttns_qn_valid st t g qtot ->
  subtree R path t = Some u -> qsubtree path g = Some gu -> ssubtree path st = Some su ->
  nth_error (tch R u) i = Some (TNode lc pdc dc Tc ccs) -> nth_error (qch gu) i = Some (QNode qc gcs) ->
  nth_error (sch su) i = Some (SNode sgc ssc) -> length qnew = m ->
  (* column j of Q lives in the block whose label (children + physical of the child) is qnew[j] *)
  (forall ks ph j, all_lt (map (tdim R) ccs) ks = true -> (j < m)%nat ->
     sumlab gcs ks + sigsum sgc ph <> nth j qnew 0 -> Q ks ph j = r0 R) ->
  (* the remainder only connects an old bond index with the same label *)
  (forall a j, (a < dc)%nat -> (j < m)%nat -> nth a qc 0 <> nth j qnew 0 -> V a j = r0 R) ->
  ttns_qn_valid st (at_path R path (push_parent R i m Q V) t) (qat_path path (qset_child i qnew) g) qtot.
Proof. exact ttns_push_parent_valid. Qed.
Print Assumptions C06_ttns_push_parent_valid.

Theorem C06_ttns_push_child_valid : forall (R : CRing) path i m (U : list nat -> R) V qnew (t : ttree R) g st qtot u gu su
    lc pdc dc Tc ccs qc gcs sgc ssc,
  ttns_qn_valid st t g qtot ->
  subtree R path t = Some u -> qsubtree path g = Some gu -> ssubtree path st = Some su ->
  nth_error (tch R u) i = Some (TNode lc pdc dc Tc ccs) -> nth_error (qch gu) i = Some (QNode qc gcs) ->
  nth_error (sch su) i = Some (SNode sgc ssc) -> length qnew = m ->
  (* svd_qn block contract: (row label: other children + physical + (qntot - node label)) + (column label qnew) = qntot *)
  (forall ks ph p, all_lt (map (tdim R) (replace_nth i (TNode lc pdc m Tc ccs) (tch R u))) ks = true -> (p < tdim R u)%nat ->
     (sumlab (replace_nth i (QNode qnew gcs) (qch gu)) ks - nth (nth i ks O) qnew 0)
       + sigsum (match su with SNode sg _ => sg end) ph + (qtot - nth p (qlab gu) 0) <> qtot - nth (nth i ks O) qnew 0 ->
     U (move_to_end i (ks ++ ph ++ [p])) = r0 R) ->
  (forall a j, (a < dc)%nat -> (j < m)%nat -> nth a qc 0 <> nth j qnew 0 -> V a j = r0 R) ->
  ttns_qn_valid st (at_path R path (push_child R i m U V) t) (qat_path path (qset_child i qnew) g) qtot.
Proof. exact ttns_push_child_valid. Qed.
Print Assumptions C06_ttns_push_child_valid.

(* TTNS.update_2site: node.qn = msqn (cano_parent) or qntot - msqn *)
Theorem C06_ttns_two_site_update_valid : forall (R : CRing) path i m (Nn Pn : tens R) (cano : bool) (msqn : list Z) qnew
    (t : ttree R) g st qtot u gu su lc pdc dc Tc ccs qc gcs sgc ssc,
  ttns_qn_valid st t g qtot ->
  subtree R path t = Some u -> qsubtree path g = Some gu -> ssubtree path st = Some su ->
  nth_error (tch R u) i = Some (TNode lc pdc dc Tc ccs) -> nth_error (qch gu) i = Some (QNode qc gcs) ->
  nth_error (sch su) i = Some (SNode sgc ssc) -> length msqn = m ->
  qnew = (if cano then msqn else map (fun x => qtot - x) msqn) ->
  (forall ks ph j, all_lt (map (tdim R) ccs) ks = true -> (j < m)%nat ->
     sumlab gcs ks + sigsum sgc ph <> (if cano then nth j msqn 0 else qtot - nth j msqn 0) -> Nn ks ph j = r0 R) ->
  (forall ks ph p, all_lt (map (tdim R) (replace_nth i (TNode lc pdc m Nn ccs) (tch R u))) ks = true -> (p < tdim R u)%nat ->
     (sumlab (replace_nth i (QNode qnew gcs) (qch gu)) ks - nth (nth i ks O) qnew 0)
       + sigsum (match su with SNode sg _ => sg end) ph + (qtot - nth p (qlab gu) 0)
     <> (if cano then qtot - nth (nth i ks O) msqn 0 else nth (nth i ks O) msqn 0) ->
     Pn ks ph p = r0 R) ->
  ttns_qn_valid st (at_path R path (update_2site i m Nn Pn) t) (qat_path path (qset_child i qnew) g) qtot.
Proof. exact ttns_two_site_update_valid. Qed.
Print Assumptions C06_ttns_two_site_update_valid.

(* tree masks: get_qnmask(node, include_parent=False / True) *)
Theorem C06_ttns_mask1_meaning : forall (qtot : Z) sg (q : list Z) gs ks ph p,
  @tmask1 ZLab qtot sg q gs ks ph p = true <-> sumlab gs ks + sigsum sg ph = nth p q 0.
Proof. exact tmask1_meaning. Qed.
Print Assumptions C06_ttns_mask1_meaning.

Theorem C06_ttns_mask2_meaning : forall (qtot : Z) sgn gsn sgp (qp : list Z) gso ksn phn kso php pp,
  @tmask2 ZLab qtot sgn gsn sgp qp gso ksn phn kso php pp = true <->
  (sumlab gsn ksn + sigsum sgn phn) + (sumlab gso kso + sigsum sgp php) = nth pp qp 0.
Proof. exact tmask2_meaning. Qed.
Print Assumptions C06_ttns_mask2_meaning.

Theorem C06_ttns_mask1_components : forall k (qtot : list Z) sg q gs ks ph p,
  @tmask1 VLab qtot sg q gs ks ph p = true ->
  @tmask1 ZLab (comp k qtot) (map (map (comp k)) sg) (map (comp k) q) (map (qmap (comp k)) gs) ks ph p = true.
Proof. exact tmask1_comp. Qed.
Print Assumptions C06_ttns_mask1_components.

(* writing ANY tensor that vanishes outside the one-site mask at any node keeps the tree's labels valid: this is what
   makes tree DMRG (one-site) and the VMF parameter packing sector preserving *)
Theorem C06_ttns_mask_update_valid : forall (R : CRing) path (T' : tens R) (t : ttree R) g st qtot u gu su,
  ttns_qn_valid st t g qtot ->
  subtree R path t = Some u -> qsubtree path g = Some gu -> ssubtree path st = Some su ->
  (forall ks ph p, @tmask1 ZLab qtot (match su with SNode sg _ => sg end) (qlab gu) (qch gu) ks ph p = false -> T' ks ph p = r0 R) ->
  ttns_qn_valid st (at_path R path (set_tensor T') t) (qat_path path (fun x => x) g) qtot.
Proof. exact ttns_mask_update_valid. Qed.
Print Assumptions C06_ttns_mask_update_valid.

(* multi-component labels on trees: corollaries per component *)
Theorem C06_ttns_add_valid_multi : forall (R : CRing) nc ca cb (a b : ttree R) st ga gb qtot,
  ttns_qn_validV nc st a ga qtot -> ttns_qn_validV nc st b gb qtot -> tshape R a = tshape R b ->
  ttns_qn_validV nc st (tadd_coeff R ca cb a b) (@qadd VLab ga gb) qtot.
Proof. exact tadd_validV. Qed.
Print Assumptions C06_ttns_add_valid_multi.

Theorem C06_ttns_scale_valid_multi : forall (R : CRing) nc c (t : ttree R) st g qtot,
  ttns_qn_validV nc st t g qtot -> ttns_qn_validV nc st (tscale R c t) g qtot.
Proof. exact tscale_validV. Qed.
Print Assumptions C06_ttns_scale_valid_multi.

Theorem C06_ttno_apply_moves_sector_multi : forall (R : CRing) nc (t : ttree R) (o : otree R) st g go qtot qop,
  ttns_qn_validV nc st t g qtot -> ovalidV nc st o go -> odim R o = 1%nat -> qlab go = [qop] -> tshape R t = oshape R o ->
  ttns_qn_validV nc st (tapply R o t) (@qapply VLab g go) (zipz Z.add qtot qop).
Proof. exact tapply_moves_sectorV. Qed.
Print Assumptions C06_ttno_apply_moves_sector_multi.

(* ---------------------------------------------------------------- non-vacuity *)
Definition ex6_sigs : list (list Z) := [[0; 1]; [0; 1]; [0; 1]].
(* three sites, all occupied (the empty-adjacent sector 3): a product state, bond dimension 1 *)
Definition ex6_full : list (nat * T3 ZRing) :=
  [(1%nat, @of3 ZRing [[[0]; [1]]]); (1%nat, @of3 ZRing [[[0]; [1]]]); (1%nat, @of3 ZRing [[[0]; [1]]])].
Definition ex6_pats : list pat3 := [[[[false]; [true]]]; [[[false]; [true]]]; [[[false]; [true]]]].
Definition ex6_m : metaZ := @Build_meta ZLab [[0]; [1]; [2]; [0]] 2%nat 3 false.

Example ex6_support : has_support ex6_pats ex6_full.
Proof.
  cbn [has_support ex6_pats ex6_full]. repeat split; intros l p r;
    destruct l as [|[|l]]; destruct p as [|[|[|p]]]; destruct r as [|[|r]]; cbn; intros H; try reflexivity; discriminate H.
Qed.

Example C06_ex_full_sector :
  qn_valid3 (sig_of ex6_sigs) ex6_m ex6_full /\ amp ex6_full [1%nat; 1%nat; 1%nat] = 1 /\
  charge (sig_of ex6_sigs) 0 [1%nat; 1%nat; 1%nat] = 3.
Proof.
  split; [|split].
  - apply (qn_validb_sound ZRing ex6_sigs ex6_m ex6_pats); [vm_compute; reflexivity | exact ex6_support | reflexivity].
  - vm_compute. reflexivity.
  - vm_compute. reflexivity.
Qed.

(* the checker rejects labels that do not describe the blocks (stale labels of bond 2) *)
Example C06_ex_checker_rejects :
  qn_validb ex6_sigs (@Build_meta ZLab [[0]; [1]; [1]; [0]] 2%nat 3 false) ex6_pats = false.
Proof. vm_compute. reflexivity. Qed.

(* a tree: root (one spin) with two leaf children (one spin each), sector 2; bond dimension 2 on the first child bond *)
Definition ex6_st : stree Z := SNode [[0; 1]] [SNode [[0; 1]] []; SNode [[0; 1]] []].
Definition ex6_g : qtree Z := QNode [2] [QNode [0; 1] []; QNode [1] []].
Definition ex6_tree : ttree ZRing :=
  TNode 0%nat [2%nat] 1%nat
    (fun ks ph p => match ks, ph, p return car ZRing with
                    | [1%nat; 0%nat], [0%nat], 0%nat => 3      (* child labels 1 + 1, own state 0 *)
                    | [0%nat; 0%nat], [1%nat], 0%nat => 5      (* child labels 0 + 1, own state 1 *)
                    | _, _, _ => 0 end)
    [TNode 1%nat [2%nat] 2%nat (fun ks ph p => match ks, ph, p return car ZRing with
                                       | [], [0%nat], 0%nat => 1 | [], [1%nat], 1%nat => 1 | _, _, _ => 0 end) [];
     TNode 2%nat [2%nat] 1%nat (fun ks ph p => match ks, ph, p return car ZRing with [], [1%nat], 0%nat => 1 | _, _, _ => 0 end) []].
Definition ex6_pt : ptree :=
  PNode [[1%nat; 0%nat; 0%nat; 0%nat]; [0%nat; 0%nat; 1%nat; 0%nat]]
    [PNode [[0%nat; 0%nat]; [1%nat; 1%nat]] []; PNode [[1%nat; 0%nat]] []].

Example C06_ex_tree :
  ttns_validb ex6_st ex6_g ex6_pt 2 = true /\
  tamp ZRing ex6_tree [[0%nat]; [1%nat]; [1%nat]] 0 = 3 /\ tcharge ex6_st ex6_tree [[0%nat]; [1%nat]; [1%nat]] = 2 /\
  tamp ZRing ex6_tree [[1%nat]; [0%nat]; [1%nat]] 0 = 5.
Proof. repeat split; vm_compute; reflexivity. Qed.
