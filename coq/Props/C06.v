(* C06 -- Conserved quantum numbers are never violated by any operation.
   Only statements, closed by [exact], with Print Assumptions beneath.  Model/Qn.v, Proofs/QnProofs.v.

   qn_valid3 sig m ts  :=  the label lists have the bond dimensions of the chain, the boundary bonds have dimension
   1 with left-block labels 0 / qntot, and every entry T_i[l,p,r] whose labels do NOT satisfy
   Llab i l + sigma_i p = Llab (i+1) r  is zero  (C06_valid_nonzero_entry is the positive form).
   Chains of any length, any bond dimensions, any commutative ring with involution.

   PARTIAL: chains only.  The tree analogue (ttns_valid_in_sector, validity under TTNS add / apply / push_cano) is
   not proved here; for trees this property is checked by the dense oracle only (see notes/C06.md).          *)
From Coq Require Import ZArith List Arith Bool.
Import ListNotations.
From RV Require Import Base.CRing Base.BigSum Model.Chain Model.Mp Model.Qn Proofs.MpProofs Proofs.QnProofs.
Local Open Scope Z_scope.

(* the semantic core: valid labels => no amplitude outside the sector *)
Theorem C06_valid_in_sector : forall (R : CRing) sig (m : metaZ) (ts : list (nat * T3 R)),
  qn_valid3 sig m ts -> forall s, amp ts s <> r0 R -> charge sig 0 s = qntot m.
Proof. exact valid_in_sector. Qed.
Print Assumptions C06_valid_in_sector.

Theorem C06_valid_in_sector_zero : forall (R : CRing) sig (m : metaZ) (ts : list (nat * T3 R)) s,
  qn_valid3 sig m ts -> charge sig 0 s <> qntot m -> amp ts s = r0 R.
Proof. exact valid_in_sector_zero. Qed.
Print Assumptions C06_valid_in_sector_zero.

(* interior form: any block of sites, any bond indices *)
Theorem C06_valid_block : forall (R : CRing) (ts : list (nat * T3 R)) sig Lf i dl s l r,
  valid_from3 sig Lf i dl ts -> (l < dl)%nat -> (r < lastdim dl ts)%nat ->
  Lf i l + charge sig i s <> Lf (i + length ts)%nat r -> chain3 ts s l r = r0 R.
Proof. exact valid_from3_chain. Qed.
Print Assumptions C06_valid_block.

Theorem C06_valid_nonzero_entry : forall (R : CRing) sig Lf i dl d (t : T3 R) ts l p r,
  valid_from3 sig Lf i dl ((d, t) :: ts) -> (l < dl)%nat -> (r < d)%nat -> t l p r <> r0 R ->
  Lf i l + sig i p = Lf (S i) r.
Proof. exact valid_from3_nonzero. Qed.
Print Assumptions C06_valid_nonzero_entry.

(* several quantum numbers: each component *)
Theorem C06_valid_in_sector_multi : forall (R : CRing) nc sigV (m : meta VLab) (ts : list (nat * T3 R)),
  qn_valid3V nc sigV m ts -> forall s, amp ts s <> r0 R ->
  forall k, (k < nc)%nat -> charge (fun i p => comp k (sigV i p)) 0 s = comp k (qntot m).
Proof. exact valid_in_sectorV. Qed.
Print Assumptions C06_valid_in_sector_multi.

(* ---------------------------------------------------------------- preservation by the exact operations *)
Theorem C06_add_preserves : forall (R : CRing) sig (ma mb : metaZ) (A B : list (nat * T3 R)),
  qn_valid3 sig ma A -> qn_valid3 sig mb B -> qntot ma = qntot mb ->
  (2 <= length A)%nat -> length A = length B ->
  qn_valid3 sig (add_meta (length A) ma mb) (add3 A B).
Proof. exact add_valid3. Qed.
Print Assumptions C06_add_preserves.

Theorem C06_add_stays_in_sector : forall (R : CRing) sig (ma mb : metaZ) (A B : list (nat * T3 R)),
  qn_valid3 sig ma A -> qn_valid3 sig mb B -> qntot ma = qntot mb ->
  (2 <= length A)%nat -> length A = length B ->
  forall s, amp (add3 A B) s <> r0 R -> charge sig 0 s = qntot ma.
Proof. exact add_stays_in_sector. Qed.
Print Assumptions C06_add_stays_in_sector.

Theorem C06_scale_preserves : forall (R : CRing) sig (m : metaZ) (ts : list (nat * T3 R)) k c,
  qn_valid3 sig m ts -> qn_valid3 sig m (scale_at3 k c ts).
Proof. exact scale_valid3. Qed.
Print Assumptions C06_scale_preserves.

Theorem C06_conj_preserves : forall (R : CRing) sig (m : metaZ) (ts : list (nat * T3 R)),
  qn_valid3 sig m ts -> qn_valid3 sig m (conj3 ts).
Proof. exact conj_valid3. Qed.
Print Assumptions C06_conj_preserves.

(* moving the centre (between the sites of every sweep) *)
Theorem C06_move_preserves : forall (R : CRing) sig (m : metaZ) (ts : list (nat * T3 R)) d,
  qn_valid3 sig m ts -> (d < length ts)%nat -> qn_valid3 sig (move_qnidx (length ts) m d) ts.
Proof. exact move_valid3. Qed.
Print Assumptions C06_move_preserves.

(* an operator that changes the quantum number by q = qntot mo moves the state exactly to the shifted sector *)
Theorem C06_apply_moves_sector : forall (R : CRing) sigW sig sigc (mo ma : metaZ)
    (W : list (nat * T4 R)) (a : list (nat * T3 R)) dqs,
  qn_valid4 sigW mo W -> qn_valid3 sig ma a ->
  (forall j pu q, sigc j pu = sigW j pu q + sig j q) ->
  length W = length a -> length dqs = length a ->
  forall s, amp (apply3 1 dqs W a) s <> r0 R -> charge sigc 0 s = qntot ma + qntot mo.
Proof. exact apply_moves_sector. Qed.
Print Assumptions C06_apply_moves_sector.

Theorem C06_apply_preserves : forall (R : CRing) sigW sig sigc (mo ma : metaZ)
    (W : list (nat * T4 R)) (a : list (nat * T3 R)) dqs,
  qn_valid4 sigW mo W -> qn_valid3 sig ma a ->
  (forall j pu q, sigc j pu = sigW j pu q + sig j q) ->
  length W = length a -> length dqs = length a ->
  qn_valid3 sigc (apply_meta (length a) mo ma) (apply3 1 dqs W a) /\
  qntot (apply_meta (length a) mo ma) = qntot ma + qntot mo.
Proof. exact apply_valid3. Qed.
Print Assumptions C06_apply_preserves.

(* ---------------------------------------------------------------- numerical operations: proved-sound checking.
   For ANY tensors that vanish outside the exported support pattern and have the exported dimensions, a
   successful run of the boolean checker establishes qn_valid3 -- hence, by C06_valid_in_sector, sector containment
   of that very output of compress / canonicalise / optimize_mps / evolve. *)
Theorem C06_qn_validb_sound : forall (R : CRing) sigs (m : metaZ) pats (ts : list (nat * T3 R)),
  qn_validb sigs m pats = true -> has_support pats ts -> map fst ts = tl (map (@length Z) (qn m)) ->
  qn_valid3 (sig_of sigs) m ts.
Proof. exact qn_validb_sound. Qed.
Print Assumptions C06_qn_validb_sound.

Theorem C06_qn_validb_sound_multi : forall (R : CRing) nc sigsV (m : meta VLab) pats (ts : list (nat * T3 R)),
  qn_validbV nc sigsV m pats = true -> has_support pats ts -> map fst ts = tl (map (@length (list Z)) (qn m)) ->
  forall k, (k < nc)%nat -> qn_valid3 (sig_of (map (map (comp k)) sigsV)) (proj_meta k m) ts.
Proof. exact qn_validbV_sound. Qed.
Print Assumptions C06_qn_validb_sound_multi.

(* ---------------------------------------------------------------- non-vacuity *)
Definition ex6_sigs : list (list Z) := [[0; 1]; [0; 1]; [0; 1]].
(* three sites, all occupied (the empty-adjacent sector 3): a product state, bond dimension 1 *)
Definition ex6_full : list (nat * T3 ZRing) :=
  [(1%nat, @of3 ZRing [[[0]; [1]]]); (1%nat, @of3 ZRing [[[0]; [1]]]); (1%nat, @of3 ZRing [[[0]; [1]]])].
Definition ex6_pats : list pat3 := [[[[false]; [true]]]; [[[false]; [true]]]; [[[false]; [true]]]].
Definition ex6_m : metaZ := @Build_meta ZLab [[0]; [1]; [2]; [0]] 2%nat 3 false.

Example ex6_support : has_support ex6_pats ex6_full.
Proof.
  cbn [has_support ex6_pats ex6_full]. repeat split; intros l p r;
    destruct l as [|[|l]]; destruct p as [|[|[|p]]]; destruct r as [|[|r]]; cbn; intros H; try reflexivity; discriminate H.
Qed.

Example C06_ex_full_sector :
  qn_valid3 (sig_of ex6_sigs) ex6_m ex6_full /\ amp ex6_full [1%nat; 1%nat; 1%nat] = 1 /\
  charge (sig_of ex6_sigs) 0 [1%nat; 1%nat; 1%nat] = 3.
Proof.
  split; [|split].
  - apply (qn_validb_sound ZRing ex6_sigs ex6_m ex6_pats); [vm_compute; reflexivity | exact ex6_support | reflexivity].
  - vm_compute. reflexivity.
  - vm_compute. reflexivity.
Qed.

(* the checker rejects labels that do not describe the blocks (stale labels of bond 2) *)
Example C06_ex_checker_rejects :
  qn_validb ex6_sigs (@Build_meta ZLab [[0]; [1]; [1]; [0]] 2%nat 3 false) ex6_pats = false.
Proof. vm_compute. reflexivity. Qed.
