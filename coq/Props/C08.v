(* C08 -- Ground- and excited-state searches are variational and consistent.
   Only statements, closed by [exact], with Print Assumptions beneath, and Examples showing that the
   hypotheses are satisfiable.  Gen/SweepSched.v is regenerated from renormalizer/mps/{gs,mp,lib}.py on
   every run (tx/sweepsched.py); the sweep theorems are about those generated definitions.

   Reading guide.  [optimize two n il k sv] is the model of optimize_mps: n sites, two = (method = "2site"),
   il = the input state is left-canonical (so the "R" environments are built and the first sweep runs to
   the right), k sweeps, sv the initial version of every site tensor.  Every Environ.read and every tensor
   returned by GetLR is an observation (found stamp, expected stamp); [obs_ok] says they coincide, where the
   expected stamp of L[i] (R[i]) lists exactly the sites 0..i (i..n-1) with their CURRENT versions.         *)
From Coq Require Import ZArith List Bool Lia QArith Lqa.
From Coq.micromega Require Import OrderedRing ZMicromega QMicromega.
Import ListNotations.
From RV Require Import Gen.SweepSched Model.Sweep Proofs.SweepProofs Base.Rayleigh Proofs.RayleighProofs.
Close Scope Q_scope.
Local Open Scope Z_scope.

(* ---------------------------------------------------------------------------------------------- sweeps *)

(* env_fresh: no stale (and no missing) environment is ever read from the cache or handed to the local
   eigenproblem -- all n >= 1, both methods, both starting gauges, any number of sweeps, any initial versions *)
Theorem C08_env_fresh :
  forall (n : Z) (two input_left_canonical : bool) (sweeps : nat) (sv : Z -> nat),
  1 <= n -> Forall obs_ok (obsl (optimize two n input_left_canonical sweeps sv)).
Proof. exact env_fresh_all. Qed.
Print Assumptions C08_env_fresh.

(* sweep_coverage: the centres of the local problems, in order, are: per sweep every site once (1-site) /
   every adjacent pair once (2-site), left-to-right in a to_right sweep and right-to-left otherwise, the
   direction alternating from sweep to sweep *)
Theorem C08_sweep_coverage :
  forall (n : Z) (two input_left_canonical : bool) (sweeps : nat) (sv : Z -> nat),
  1 <= n ->
  centres (optimize two n input_left_canonical sweeps sv) =
  concat (map (fun j => sweep_centres two n (dir_of (negb (init_env_isL input_left_canonical)) j)) (seq 0 sweeps)).
Proof. exact sweep_coverage_all. Qed.
Print Assumptions C08_sweep_coverage.

Theorem C08_sweep_centres_1site : forall n, sweep_centres_right false n = map (fun i => [i]) (zrange 0 n).
Proof. exact sweep_centres_right_1site. Qed.
Print Assumptions C08_sweep_centres_1site.

Theorem C08_sweep_centres_2site : forall n, sweep_centres_right true n = map (fun i => [i; i + 1]) (zrange 0 (n - 1)).
Proof. exact sweep_centres_right_2site. Qed.
Print Assumptions C08_sweep_centres_2site.

(* non-vacuity: a 5-site 2-site run of three sweeps makes 42 observations, 18 of them disk reads; a 1-site one 54 *)
Example C08_sweeps_nonvacuous :
  length (obsl (optimize true 5 true 3 (fun _ => O))) = 42%nat /\
  length (filter (fun o => match o_kind o with KRead => true | KUse => false end) (obsl (optimize true 5 true 3 (fun _ => O)))) = 18%nat /\
  length (obsl (optimize false 5 false 3 (fun _ => O))) = 54%nat /\
  centres (optimize true 4 true 2 (fun _ => O)) = [[0; 1]; [1; 2]; [2; 3]; [2; 3]; [1; 2]; [0; 1]].
Proof. vm_compute. repeat split. Qed.

(* the model can tell stale from fresh: bumping a site after the environments were built makes the reads that depend on it stale *)
Example C08_stale_is_detected :
  let m := init 4 false (fun _ => O) in
  let m' := mkM (to_right m) (qnidx m) (bump (sto m) 3) (hand m) (log m) (obsl m) in
  stale_count (run true 4 1 m') = 4.
Proof. vm_compute. reflexivity. Qed.

(* ---------------------------------------------------------------------------------------- variational bound *)

(* variational_bound: lam below every Rayleigh quotient of H on the sector, P an isometry with adjoint Pd
   (both expressed through the inner products) ==> every Rayleigh quotient e of P†HP is >= lam.
   So every reported energy that IS such a quotient (witness-checked per local solve by the harness) is an
   upper bound of the exact sector minimum. *)
Theorem C08_variational_bound :
  forall (R : Type) (rO rI : R) (rplus rtimes rminus : R -> R -> R) (ropp : R -> R) (req rle rlt : R -> R -> Prop),
  SOR rO rI rplus rtimes rminus ropp req rle rlt ->
  forall (V W : Type) (ipV : V -> V -> R) (ipW : W -> W -> R) (H : V -> V) (P : W -> V) (Pd : V -> W),
  (forall (c : W) (x : V), req (ipW c (Pd x)) (ipV (P c) x)) ->
  (forall c c' : W, req (ipW c (Pd (P c'))) (ipW c c')) ->
  forall lam : R,
  (forall x : V, rle (rtimes lam (ipV x x)) (ipV x (H x))) ->
  forall (c : W) (e : R),
  is_rayleigh R rO rtimes req rlt e (ipW c c) (ipW c (Heff V W H P Pd c)) -> rle lam e.
Proof. exact variational_bound. Qed.
Print Assumptions C08_variational_bound.

(* the same for "all c <> 0" with an actual quotient, in rings that have a division *)
Theorem C08_variational_bound_quotient :
  forall (R : Type) (rO rI : R) (rplus rtimes rminus : R -> R -> R) (ropp : R -> R) (req rle rlt : R -> R -> Prop),
  SOR rO rI rplus rtimes rminus ropp req rle rlt ->
  forall (V W : Type) (ipV : V -> V -> R) (ipW : W -> W -> R) (H : V -> V) (P : W -> V) (Pd : V -> W),
  (forall (c : W) (x : V), req (ipW c (Pd x)) (ipV (P c) x)) ->
  (forall c c' : W, req (ipW c (Pd (P c'))) (ipW c c')) ->
  forall lam : R,
  (forall x : V, rle (rtimes lam (ipV x x)) (ipV x (H x))) ->
  forall zeroW : W, (forall c : W, c <> zeroW -> rlt rO (ipW c c)) ->
  forall rdiv : R -> R -> R, (forall a b : R, ~ req b rO -> req (rtimes (rdiv a b) b) a) ->
  forall c : W, c <> zeroW -> rle lam (rdiv (ipW c (Heff V W H P Pd c)) (ipW c c)).
Proof. exact variational_bound_quotient. Qed.
Print Assumptions C08_variational_bound_quotient.

(* the reported number is also the energy of the state P c that is written back *)
Theorem C08_reported_is_state_energy :
  forall (R : Type) (rO rI : R) (rplus rtimes rminus : R -> R -> R) (ropp : R -> R) (req rle rlt : R -> R -> Prop),
  SOR rO rI rplus rtimes rminus ropp req rle rlt ->
  forall (V W : Type) (ipV : V -> V -> R) (ipW : W -> W -> R) (H : V -> V) (P : W -> V) (Pd : V -> W),
  (forall (c : W) (x : V), req (ipW c (Pd x)) (ipV (P c) x)) ->
  (forall c c' : W, req (ipW c (Pd (P c'))) (ipW c c')) ->
  forall (c : W) (e : R),
  is_rayleigh R rO rtimes req rlt e (ipW c c) (ipW c (Heff V W H P Pd c)) ->
  is_rayleigh R rO rtimes req rlt e (ipV (P c) (P c)) (ipV (P c) (H (P c))).
Proof. exact reported_is_state_energy. Qed.
Print Assumptions C08_reported_is_state_energy.

(* shifted target: the two-layer effective operator is P†(H-omega)^2 P; its Rayleigh quotients are >= 0 and
   >= mu for every lower bound mu of the form of (H-omega)^2 on the sector (mu = min_j (lambda_j-omega)^2) *)
Theorem C08_shifted_target :
  forall (R : Type) (rO rI : R) (rplus rtimes rminus : R -> R -> R) (ropp : R -> R) (req rle rlt : R -> R -> Prop),
  SOR rO rI rplus rtimes rminus ropp req rle rlt ->
  forall (V W : Type) (ipV : V -> V -> R) (ipW : W -> W -> R) (H : V -> V) (vsub : V -> V -> V) (vscale : R -> V -> V)
    (P : W -> V) (Pd : V -> W),
  (forall (c : W) (x : V), req (ipW c (Pd x)) (ipV (P c) x)) ->
  (forall c c' : W, req (ipW c (Pd (P c'))) (ipW c c')) ->
  (forall x y : V, req (ipV x y) (ipV y x)) ->
  (forall x y z : V, req (ipV x (vsub y z)) (rminus (ipV x y) (ipV x z))) ->
  (forall (x : V) (a : R) (y : V), req (ipV x (vscale a y)) (rtimes a (ipV x y))) ->
  (forall x y : V, req (ipV x (H y)) (ipV (H x) y)) ->
  forall omega mu : R,
  (forall x : V, rle (rtimes mu (ipV x x)) (ipV (Hs R V H vsub vscale omega x) (Hs R V H vsub vscale omega x))) ->
  forall (c : W) (e : R),
  is_rayleigh R rO rtimes req rlt e (ipW c c) (ipW c (Heff2 R V W H vsub vscale P Pd omega c)) -> rle mu e.
Proof. exact shifted_bound. Qed.
Print Assumptions C08_shifted_target.

Theorem C08_shifted_nonneg :
  forall (R : Type) (rO rI : R) (rplus rtimes rminus : R -> R -> R) (ropp : R -> R) (req rle rlt : R -> R -> Prop),
  SOR rO rI rplus rtimes rminus ropp req rle rlt ->
  forall (V W : Type) (ipV : V -> V -> R) (ipW : W -> W -> R) (H : V -> V) (vsub : V -> V -> V) (vscale : R -> V -> V)
    (P : W -> V) (Pd : V -> W),
  (forall (c : W) (x : V), req (ipW c (Pd x)) (ipV (P c) x)) ->
  (forall x y : V, req (ipV x y) (ipV y x)) ->
  (forall x y z : V, req (ipV x (vsub y z)) (rminus (ipV x y) (ipV x z))) ->
  (forall (x : V) (a : R) (y : V), req (ipV x (vscale a y)) (rtimes a (ipV x y))) ->
  (forall x : V, rle rO (ipV x x)) ->
  (forall x y : V, req (ipV x (H y)) (ipV (H x) y)) ->
  forall (omega : R) (c : W) (e : R),
  is_rayleigh R rO rtimes req rlt e (ipW c c) (ipW c (Heff2 R V W H vsub vscale P Pd omega c)) -> rle rO e.
Proof. exact shifted_nonneg. Qed.
Print Assumptions C08_shifted_nonneg.

(* at an exact eigenvector the quotient of (H-omega)^2 is (lambda-omega)^2: the minimum over the sector is min_j (lambda_j-omega)^2 *)
Theorem C08_shifted_at_eigenvector :
  forall (R : Type) (rO rI : R) (rplus rtimes rminus : R -> R -> R) (ropp : R -> R) (req rle rlt : R -> R -> Prop),
  SOR rO rI rplus rtimes rminus ropp req rle rlt ->
  forall (V : Type) (ipV : V -> V -> R) (H : V -> V) (vsub : V -> V -> V) (vscale : R -> V -> V),
  (forall x y : V, req (ipV x y) (ipV y x)) ->
  (forall x y z : V, req (ipV x (vsub y z)) (rminus (ipV x y) (ipV x z))) ->
  (forall (x : V) (a : R) (y : V), req (ipV x (vscale a y)) (rtimes a (ipV x y))) ->
  forall (omega : R) (v : V) (lam : R),
  (forall y : V, req (ipV y (H v)) (rtimes lam (ipV y v))) ->
  req (ipV (Hs R V H vsub vscale omega v) (Hs R V H vsub vscale omega v))
      (rtimes (rtimes (rminus lam omega) (rminus lam omega)) (ipV v v)).
Proof. exact shifted_at_eigenvector. Qed.
Print Assumptions C08_shifted_at_eigenvector.

(* several roots.  FULL statement (k-th reported energy >= k-th exact eigenvalue, for every k) needs, beyond
   what is proved here, (i) the form of H on the span of k Ritz vectors is bounded by the k-th Ritz value and
   (ii) that span contains a non-zero vector orthogonal to the k-1 lowest exact eigenvectors (k-1 homogeneous
   equations in k unknowns).  C08_roots_partial is the min-max step with (i),(ii) as hypotheses;
   C08_second_root derives (i),(ii) and hence the bound completely for k = 2.
   (* full:  forall k (y : fin k -> V) (theta : fin k -> R) (v : fin (k-1) -> V), orthonormal y ->
             (forall i j, ipV (y i) (H (y j)) == if i = j then theta i else 0) -> monotone theta ->
             (forall x, (forall j, ipV (v j) x == 0) -> lam_k * ipV x x <= ipV x (H x)) -> lam_k <= theta (k-1) *) *)
Theorem C08_roots_partial :
  forall (R : Type) (rO rI : R) (rplus rtimes rminus : R -> R -> R) (ropp : R -> R) (req rle rlt : R -> R -> Prop),
  SOR rO rI rplus rtimes rminus ropp req rle rlt ->
  forall (V : Type) (ipV : V -> V -> R) (H : V -> V) (S Orth : V -> Prop) (theta lamk : R),
  (forall x : V, S x -> rle (ipV x (H x)) (rtimes theta (ipV x x))) ->
  (exists x : V, S x /\ Orth x /\ rlt rO (ipV x x)) ->
  (forall x : V, Orth x -> rle (rtimes lamk (ipV x x)) (ipV x (H x))) ->
  rle lamk theta.
Proof. exact roots_minmax_partial. Qed.
Print Assumptions C08_roots_partial.

Theorem C08_second_root :
  forall (R : Type) (rO rI : R) (rplus rtimes rminus : R -> R -> R) (ropp : R -> R) (req rle rlt : R -> R -> Prop),
  SOR rO rI rplus rtimes rminus ropp req rle rlt ->
  forall (V : Type) (ipV : V -> V -> R) (H : V -> V) (vadd : V -> V -> V) (vscale : R -> V -> V),
  (forall x y : V, req (ipV x y) (ipV y x)) ->
  (forall x y z : V, req (ipV x (vadd y z)) (rplus (ipV x y) (ipV x z))) ->
  (forall (x : V) (a : R) (y : V), req (ipV x (vscale a y)) (rtimes a (ipV x y))) ->
  (forall x y : V, req (ipV x (H y)) (ipV (H x) y)) ->
  (forall z x y : V, req (ipV z (H (vadd x y))) (rplus (ipV z (H x)) (ipV z (H y)))) ->
  (forall (z : V) (a : R) (x : V), req (ipV z (H (vscale a x))) (rtimes a (ipV z (H x)))) ->
  forall (y1 y2 v1 : V) (th1 th2 lam2 : R),
  req (ipV y1 y1) rI -> req (ipV y2 y2) rI -> req (ipV y1 y2) rO ->
  req (ipV y1 (H y1)) th1 -> req (ipV y2 (H y2)) th2 -> req (ipV y1 (H y2)) rO ->
  rle th1 th2 ->
  (forall x : V, req (ipV v1 x) rO -> rle (rtimes lam2 (ipV x x)) (ipV x (H x))) ->
  rle lam2 th2.
Proof. exact second_root_bound. Qed.
Print Assumptions C08_second_root.

(* ------------------------------------------------------------------------------------------ instances *)
(* Z^2 with H = [[2,1],[1,2]] (eigenvalues 1, 3), W = Z embedded as the first axis: the projected operator is
   the 1x1 matrix (2); lam = 1 satisfies the hypothesis, and the theorem yields 1 <= 2. *)
Definition ex_ip2 (x y : Z * Z) : Z := fst x * fst y + snd x * snd y.
Definition ex_H2 (x : Z * Z) : Z * Z := (2 * fst x + snd x, fst x + 2 * snd x).
Definition ex_P (c : Z) : Z * Z := (c, 0).
Definition ex_Pd (x : Z * Z) : Z := fst x.

Example C08_variational_instance :
  (forall c x, Z.mul c (ex_Pd x) = ex_ip2 (ex_P c) x) /\
  (forall c c', Z.mul c (ex_Pd (ex_P c')) = Z.mul c c') /\
  (forall x, 1 * ex_ip2 x x <= ex_ip2 x (ex_H2 x)) /\
  is_rayleigh Z 0 Z.mul eq Z.lt 2 (Z.mul 3 3) (Z.mul 3 (Heff (Z * Z) Z ex_H2 ex_P ex_Pd 3)) /\
  1 <= 2.
Proof.
  assert (A : forall c x, Z.mul c (ex_Pd x) = ex_ip2 (ex_P c) x) by (intros c [a b]; unfold ex_ip2, ex_P, ex_Pd; cbn; lia).
  assert (I : forall c c', Z.mul c (ex_Pd (ex_P c')) = Z.mul c c') by reflexivity.
  assert (L : forall x, 1 * ex_ip2 x x <= ex_ip2 x (ex_H2 x)) by (intros [a b]; unfold ex_ip2, ex_H2; cbn [fst snd]; pose proof (Z.square_nonneg (a + b)); lia).
  assert (Rq : is_rayleigh Z 0 Z.mul eq Z.lt 2 (Z.mul 3 3) (Z.mul 3 (Heff (Z * Z) Z ex_H2 ex_P ex_Pd 3))) by (split; reflexivity).
  repeat split; try assumption.
  exact (C08_variational_bound Z 0 1 Z.add Z.mul Z.sub Z.opp eq Z.le Z.lt Zsor (Z * Z)%type Z ex_ip2 Z.mul ex_H2 ex_P ex_Pd A I 1 L 3 2 Rq).
Qed.

(* shifted target on the same space, omega = 2: (H-2)^2 = identity, mu = 1 = min((1-2)^2, (3-2)^2) *)
Definition ex_sub (x y : Z * Z) : Z * Z := (fst x - fst y, snd x - snd y).
Definition ex_scale (a : Z) (x : Z * Z) : Z * Z := (a * fst x, a * snd x).

Example C08_shifted_instance :
  (forall x, 1 * ex_ip2 x x <= ex_ip2 (Hs Z (Z * Z) ex_H2 ex_sub ex_scale 2 x) (Hs Z (Z * Z) ex_H2 ex_sub ex_scale 2 x)) /\
  is_rayleigh Z 0 Z.mul eq Z.lt 1 (Z.mul 5 5) (Z.mul 5 (Heff2 Z (Z * Z) Z ex_H2 ex_sub ex_scale ex_P ex_Pd 2 5)).
Proof.
  split.
  - intros [a b]. unfold Hs, ex_ip2, ex_H2, ex_sub, ex_scale. cbn [fst snd]. lia.
  - split; reflexivity.
Qed.

(* second root on Z^3, H = [[2,1,0],[1,2,0],[0,0,5]] (eigenvalues 1,3,5; ground state (1,-1,0)),
   Ritz vectors e1, e3 with Ritz values 2 <= 5: the theorem yields lam2 = 3 <= 5 *)
Definition ex_ip3 (x y : Z * Z * Z) : Z := fst (fst x) * fst (fst y) + snd (fst x) * snd (fst y) + snd x * snd y.
Definition ex_H3 (x : Z * Z * Z) : Z * Z * Z := (2 * fst (fst x) + snd (fst x), fst (fst x) + 2 * snd (fst x), 5 * snd x).
Definition ex_add3 (x y : Z * Z * Z) : Z * Z * Z := (fst (fst x) + fst (fst y), snd (fst x) + snd (fst y), snd x + snd y).
Definition ex_scale3 (a : Z) (x : Z * Z * Z) : Z * Z * Z := (a * fst (fst x), a * snd (fst x), a * snd x).

Example C08_second_root_instance : 3 <= 5.
Proof.
  apply (C08_second_root Z 0 1 Z.add Z.mul Z.sub Z.opp eq Z.le Z.lt Zsor (Z * Z * Z)%type ex_ip3 ex_H3 ex_add3 ex_scale3)
    with (y1 := (1, 0, 0)) (y2 := (0, 0, 1)) (v1 := (1, -1, 0)) (th1 := 2); try reflexivity; try lia.
  - intros [[a b] c] [[a' b'] c']. unfold ex_ip3. cbn [fst snd]. lia.
  - intros [[a b] c] [[a' b'] c'] [[a2 b2] c2]. unfold ex_ip3, ex_add3. cbn [fst snd]. lia.
  - intros [[a b] c] k [[a' b'] c']. unfold ex_ip3, ex_scale3. cbn [fst snd]. lia.
  - intros [[a b] c] [[a' b'] c']. unfold ex_ip3, ex_H3. cbn [fst snd]. lia.
  - intros [[a b] c] [[a' b'] c'] [[a2 b2] c2]. unfold ex_ip3, ex_H3, ex_add3. cbn [fst snd]. lia.
  - intros [[a b] c] k [[a' b'] c']. unfold ex_ip3, ex_H3, ex_scale3. cbn [fst snd]. lia.
  - intros [[a b] c]. unfold ex_ip3, ex_H3. cbn [fst snd]. intros E. assert (b = a) by lia. subst b.
    pose proof (Z.square_nonneg a). pose proof (Z.square_nonneg c). lia.
Qed.

(* an instance over Q with a genuinely rotated isometry P c = (3/5 c, 4/5 c) *)
Definition exq_ip2 (x y : Q * Q) : Q := (fst x * fst y + snd x * snd y)%Q.
Definition exq_H2 (x : Q * Q) : Q * Q := ((2 # 1) * fst x + snd x, fst x + (2 # 1) * snd x)%Q.
Definition exq_P (c : Q) : Q * Q := ((3 # 5) * c, (4 # 5) * c)%Q.
Definition exq_Pd (x : Q * Q) : Q := ((3 # 5) * fst x + (4 # 5) * snd x)%Q.

Example C08_variational_instance_Q :
  forall c e : Q, (0 < c * c)%Q -> (e * (c * c) == c * Heff (Q * Q) Q exq_H2 exq_P exq_Pd c)%Q -> (1 <= e)%Q.
Proof.
  intros c e Hc He.
  apply (C08_variational_bound Q 0%Q 1%Q Qplus Qmult Qminus Qopp Qeq Qle Qlt Qsor (Q * Q)%type Q exq_ip2 Qmult exq_H2 exq_P exq_Pd)
    with (c := c).
  - intros a [x y]. unfold exq_ip2, exq_P, exq_Pd. cbn [fst snd]. ring.
  - intros a b. unfold exq_P, exq_Pd. cbn [fst snd]. ring.
  - intros [x y]. unfold exq_ip2, exq_H2. cbn [fst snd]. pose proof (Rtimes_square_nonneg Qsor (x + y)%Q) as Hsq. cbv beta in Hsq. lra.
  - split; assumption.
Qed.
