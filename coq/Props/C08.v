(* C08 -- Ground- and excited-state searches are variational and consistent.
   Only statements, closed by [exact], with Print Assumptions beneath, and Examples showing that the
   hypotheses are satisfiable.  Gen/SweepSched.v is regenerated from renormalizer/mps/{gs,mp,lib}.py on
   every run (tx/sweepsched.py); the sweep theorems are about those generated definitions.

   Reading guide.  [optimize two n il k sv] is the model of optimize_mps: n sites, two = (method = "2site"),
   il = the input state is left-canonical (so the "R" environments are built and the first sweep runs to
   the right), k sweeps, sv the initial version of every site tensor.  Every Environ.read and every tensor
   returned by GetLR is an observation (found stamp, expected stamp); [obs_ok] says they coincide, where the
   expected stamp of L[i] (R[i]) lists exactly the sites 0..i (i..n-1) with their CURRENT versions.         *)
From Coq Require Import ZArith List Bool Lia QArith Lqa.
From Coq.micromega Require Import OrderedRing ZMicromega QMicromega.
Import ListNotations.
From RV Require Import Gen.SweepSched Model.Sweep Proofs.SweepProofs Base.Rayleigh Proofs.RayleighProofs.
From RV Require Import Base.CRing Model.Chain Model.Env Proofs.EnvProofs Model.Cano Model.Heff Proofs.HeffProofs.
From RV Require Model.TreeOpt Proofs.TreeOptProofs.
Close Scope Q_scope.
Local Open Scope Z_scope.

(* ---------------------------------------------------------------------------------------------- sweeps *)

(* env_fresh: no stale (and no missing) environment is ever read from the cache or handed to the local
   eigenproblem -- all n >= 1, both methods, both starting gauges, any number of sweeps, any initial versions *)
Theorem C08_env_fresh :
  forall (n : Z) (two input_left_canonical : bool) (sweeps : nat) (sv : Z -> nat),
  1 <= n -> Forall obs_ok (obsl (optimize two n input_left_canonical sweeps sv)).
Proof. exact env_fresh_all. Qed.
Print Assumptions C08_env_fresh.

(* sweep_coverage: the centres of the local problems, in order, are: per sweep every site once (1-site) /
   every adjacent pair once (2-site), left-to-right in a to_right sweep and right-to-left otherwise, the
   direction alternating from sweep to sweep *)
Theorem C08_sweep_coverage :
  forall (n : Z) (two input_left_canonical : bool) (sweeps : nat) (sv : Z -> nat),
  1 <= n ->
  centres (optimize two n input_left_canonical sweeps sv) =
  concat (map (fun j => sweep_centres two n (dir_of (negb (init_env_isL input_left_canonical)) j)) (seq 0 sweeps)).
Proof. exact sweep_coverage_all. Qed.
Print Assumptions C08_sweep_coverage.

Theorem C08_sweep_centres_1site : forall n, sweep_centres_right false n = map (fun i => [i]) (zrange 0 n).
Proof. exact sweep_centres_right_1site. Qed.
Print Assumptions C08_sweep_centres_1site.

Theorem C08_sweep_centres_2site : forall n, sweep_centres_right true n = map (fun i => [i; i + 1]) (zrange 0 (n - 1)).
Proof. exact sweep_centres_right_2site. Qed.
Print Assumptions C08_sweep_centres_2site.

(* every eigen-solver branch of both optimisers (table regenerated from tn/gs.py eigh_iterative, mps/gs.py eigh_iterative /
   eigh_direct and lib/davidson) asks for the algebraically smallest eigenpair(s): which = "SA", index 0 of an ascending
   dense spectrum, or the package's Davidson with its default (lowest Ritz values) selection *)
Theorem C08_solvers_request_smallest :
  Forall (fun x => requests_smallest (snd x) = true) tree_solvers /\
  Forall (fun x => requests_smallest (snd x) = true) chain_iter_solvers /\
  requests_smallest chain_direct_solver = true.
Proof. exact solvers_request_smallest_all. Qed.
Print Assumptions C08_solvers_request_smallest.

(* the bond limit _update_mps looks up (compute_m_trunc -> _fixed_m_trunc: max_dims[bond]) is the limit of the bond between the two
   active sites (two-site) / of the bond the centre moves across (one-site), in both sweep directions, single-state and state-averaged *)
Theorem C08_trunc_bond_is_active_bond : forall (two to_right : bool) (n imps : Z),
  fixed_bond to_right (mtrunc_idx_single to_right (sweep_cidx two to_right n imps)) = active_bond two to_right (sweep_cidx two to_right n imps) /\
  fixed_bond to_right (mtrunc_idx_averaged to_right (sweep_cidx two to_right n imps)) = active_bond two to_right (sweep_cidx two to_right n imps).
Proof. exact trunc_bond_is_active_bond_all. Qed.
Print Assumptions C08_trunc_bond_is_active_bond.

(* optimize_config.inverse: every local operator handed to a solver (dense matrix, preconditioner diagonal, matrix-vector product)
   is inverse * H_eff, so that inverse = -1 runs the same variational search on -H *)
Theorem C08_inverse_applied_everywhere : inverse_on_dense = true /\ inverse_on_diagonal = true /\ inverse_on_matvec = true.
Proof. exact inverse_applied_everywhere_all. Qed.
Print Assumptions C08_inverse_applied_everywhere.

(* omega targeting: the operator whose two layers optimize_mps contracts (expression regenerated from the omega branch of gs.py) means
   H_given - omega * 1  for EVERY operator handed in, independently of the Hamiltonian of the model that operator was built on *)
Theorem C08_omega_operator_is_given_minus_omega :
  forall (M K : Type) (madd : M -> M -> M) (mscale : K -> M -> M) (mone : M) (kopp : K -> K) (kzero omega : K) (given modelH : M),
  op_den M K madd mscale mone kopp kzero omega given modelH omega_shifted_operator = madd given (mscale (kopp omega) mone).
Proof. exact omega_operator_is_given_minus_omega_all. Qed.
Print Assumptions C08_omega_operator_is_given_minus_omega.

(* non-vacuity: a 5-site 2-site run of three sweeps makes 42 observations, 18 of them disk reads; a 1-site one 54 *)
Example C08_sweeps_nonvacuous :
  length (obsl (optimize true 5 true 3 (fun _ => O))) = 42%nat /\
  length (filter (fun o => match o_kind o with KRead => true | KUse => false end) (obsl (optimize true 5 true 3 (fun _ => O)))) = 18%nat /\
  length (obsl (optimize false 5 false 3 (fun _ => O))) = 54%nat /\
  centres (optimize true 4 true 2 (fun _ => O)) = [[0; 1]; [1; 2]; [2; 3]; [2; 3]; [1; 2]; [0; 1]].
Proof. vm_compute. repeat split. Qed.

(* the model can tell stale from fresh: bumping a site after the environments were built makes the reads that depend on it stale *)
Example C08_stale_is_detected :
  let m := Sweep.init 4 false (fun _ => O) in
  let m' := mkM (to_right m) (qnidx m) (bump (sto m) 3) (hand m) (log m) (obsl m) in
  Sweep.stale_count (Sweep.run true 4 1 m') = 4.
Proof. vm_compute. reflexivity. Qed.

(* ---------------------------------------------------------------------------------------- variational bound *)

(* variational_bound: lam below every Rayleigh quotient of H on the sector, P an isometry with adjoint Pd
   (both expressed through the inner products) ==> every Rayleigh quotient e of P†HP is >= lam.
   So every reported energy that IS such a quotient (witness-checked per local solve by the harness) is an
   upper bound of the exact sector minimum. *)
Theorem C08_variational_bound :
  forall (R : Type) (rO rI : R) (rplus rtimes rminus : R -> R -> R) (ropp : R -> R) (req rle rlt : R -> R -> Prop),
  SOR rO rI rplus rtimes rminus ropp req rle rlt ->
  forall (V W : Type) (ipV : V -> V -> R) (ipW : W -> W -> R) (H : V -> V) (P : W -> V) (Pd : V -> W),
  (forall (c : W) (x : V), req (ipW c (Pd x)) (ipV (P c) x)) ->
  (forall c c' : W, req (ipW c (Pd (P c'))) (ipW c c')) ->
  forall lam : R,
  (forall x : V, rle (rtimes lam (ipV x x)) (ipV x (H x))) ->
  forall (c : W) (e : R),
  is_rayleigh R rO rtimes req rlt e (ipW c c) (ipW c (Heff V W H P Pd c)) -> rle lam e.
Proof. exact variational_bound. Qed.
Print Assumptions C08_variational_bound.

(* the same for "all c <> 0" with an actual quotient, in rings that have a division *)
Theorem C08_variational_bound_quotient :
  forall (R : Type) (rO rI : R) (rplus rtimes rminus : R -> R -> R) (ropp : R -> R) (req rle rlt : R -> R -> Prop),
  SOR rO rI rplus rtimes rminus ropp req rle rlt ->
  forall (V W : Type) (ipV : V -> V -> R) (ipW : W -> W -> R) (H : V -> V) (P : W -> V) (Pd : V -> W),
  (forall (c : W) (x : V), req (ipW c (Pd x)) (ipV (P c) x)) ->
  (forall c c' : W, req (ipW c (Pd (P c'))) (ipW c c')) ->
  forall lam : R,
  (forall x : V, rle (rtimes lam (ipV x x)) (ipV x (H x))) ->
  forall zeroW : W, (forall c : W, c <> zeroW -> rlt rO (ipW c c)) ->
  forall rdiv : R -> R -> R, (forall a b : R, ~ req b rO -> req (rtimes (rdiv a b) b) a) ->
  forall c : W, c <> zeroW -> rle lam (rdiv (ipW c (Heff V W H P Pd c)) (ipW c c)).
Proof. exact variational_bound_quotient. Qed.
Print Assumptions C08_variational_bound_quotient.

(* the reported number is also the energy of the state P c that is written back *)
Theorem C08_reported_is_state_energy :
  forall (R : Type) (rO rI : R) (rplus rtimes rminus : R -> R -> R) (ropp : R -> R) (req rle rlt : R -> R -> Prop),
  SOR rO rI rplus rtimes rminus ropp req rle rlt ->
  forall (V W : Type) (ipV : V -> V -> R) (ipW : W -> W -> R) (H : V -> V) (P : W -> V) (Pd : V -> W),
  (forall (c : W) (x : V), req (ipW c (Pd x)) (ipV (P c) x)) ->
  (forall c c' : W, req (ipW c (Pd (P c'))) (ipW c c')) ->
  forall (c : W) (e : R),
  is_rayleigh R rO rtimes req rlt e (ipW c c) (ipW c (Heff V W H P Pd c)) ->
  is_rayleigh R rO rtimes req rlt e (ipV (P c) (P c)) (ipV (P c) (H (P c))).
Proof. exact reported_is_state_energy. Qed.
Print Assumptions C08_reported_is_state_energy.

(* shifted target: the two-layer effective operator is P†(H-omega)^2 P; its Rayleigh quotients are >= 0 and
   >= mu for every lower bound mu of the form of (H-omega)^2 on the sector (mu = min_j (lambda_j-omega)^2) *)
Theorem C08_shifted_target :
  forall (R : Type) (rO rI : R) (rplus rtimes rminus : R -> R -> R) (ropp : R -> R) (req rle rlt : R -> R -> Prop),
  SOR rO rI rplus rtimes rminus ropp req rle rlt ->
  forall (V W : Type) (ipV : V -> V -> R) (ipW : W -> W -> R) (H : V -> V) (vsub : V -> V -> V) (vscale : R -> V -> V)
    (P : W -> V) (Pd : V -> W),
  (forall (c : W) (x : V), req (ipW c (Pd x)) (ipV (P c) x)) ->
  (forall c c' : W, req (ipW c (Pd (P c'))) (ipW c c')) ->
  (forall x y : V, req (ipV x y) (ipV y x)) ->
  (forall x y z : V, req (ipV x (vsub y z)) (rminus (ipV x y) (ipV x z))) ->
  (forall (x : V) (a : R) (y : V), req (ipV x (vscale a y)) (rtimes a (ipV x y))) ->
  (forall x y : V, req (ipV x (H y)) (ipV (H x) y)) ->
  forall omega mu : R,
  (forall x : V, rle (rtimes mu (ipV x x)) (ipV (Hs R V H vsub vscale omega x) (Hs R V H vsub vscale omega x))) ->
  forall (c : W) (e : R),
  is_rayleigh R rO rtimes req rlt e (ipW c c) (ipW c (Heff2 R V W H vsub vscale P Pd omega c)) -> rle mu e.
Proof. exact shifted_bound. Qed.
Print Assumptions C08_shifted_target.

Theorem C08_shifted_nonneg :
  forall (R : Type) (rO rI : R) (rplus rtimes rminus : R -> R -> R) (ropp : R -> R) (req rle rlt : R -> R -> Prop),
  SOR rO rI rplus rtimes rminus ropp req rle rlt ->
  forall (V W : Type) (ipV : V -> V -> R) (ipW : W -> W -> R) (H : V -> V) (vsub : V -> V -> V) (vscale : R -> V -> V)
    (P : W -> V) (Pd : V -> W),
  (forall (c : W) (x : V), req (ipW c (Pd x)) (ipV (P c) x)) ->
  (forall x y : V, req (ipV x y) (ipV y x)) ->
  (forall x y z : V, req (ipV x (vsub y z)) (rminus (ipV x y) (ipV x z))) ->
  (forall (x : V) (a : R) (y : V), req (ipV x (vscale a y)) (rtimes a (ipV x y))) ->
  (forall x : V, rle rO (ipV x x)) ->
  (forall x y : V, req (ipV x (H y)) (ipV (H x) y)) ->
  forall (omega : R) (c : W) (e : R),
  is_rayleigh R rO rtimes req rlt e (ipW c c) (ipW c (Heff2 R V W H vsub vscale P Pd omega c)) -> rle rO e.
Proof. exact shifted_nonneg. Qed.
Print Assumptions C08_shifted_nonneg.

(* at an exact eigenvector the quotient of (H-omega)^2 is (lambda-omega)^2: the minimum over the sector is min_j (lambda_j-omega)^2 *)
Theorem C08_shifted_at_eigenvector :
  forall (R : Type) (rO rI : R) (rplus rtimes rminus : R -> R -> R) (ropp : R -> R) (req rle rlt : R -> R -> Prop),
  SOR rO rI rplus rtimes rminus ropp req rle rlt ->
  forall (V : Type) (ipV : V -> V -> R) (H : V -> V) (vsub : V -> V -> V) (vscale : R -> V -> V),
  (forall x y : V, req (ipV x y) (ipV y x)) ->
  (forall x y z : V, req (ipV x (vsub y z)) (rminus (ipV x y) (ipV x z))) ->
  (forall (x : V) (a : R) (y : V), req (ipV x (vscale a y)) (rtimes a (ipV x y))) ->
  forall (omega : R) (v : V) (lam : R),
  (forall y : V, req (ipV y (H v)) (rtimes lam (ipV y v))) ->
  req (ipV (Hs R V H vsub vscale omega v) (Hs R V H vsub vscale omega v))
      (rtimes (rtimes (rminus lam omega) (rminus lam omega)) (ipV v v)).
Proof. exact shifted_at_eigenvector. Qed.
Print Assumptions C08_shifted_at_eigenvector.

(* several roots.  C08_roots_partial is the abstract min-max step (hypotheses: (i) the form of H on the Ritz span is
   bounded by the top Ritz value, (ii) the span contains a non-zero vector orthogonal to the k-1 lowest exact
   eigenvectors); C08_second_root derives (i),(ii) for k = 2; C08_roots_minmax (below) derives them for EVERY k,
   so the k-th reported energy >= k-th exact eigenvalue is complete. *)
Theorem C08_roots_partial :
  forall (R : Type) (rO rI : R) (rplus rtimes rminus : R -> R -> R) (ropp : R -> R) (req rle rlt : R -> R -> Prop),
  SOR rO rI rplus rtimes rminus ropp req rle rlt ->
  forall (V : Type) (ipV : V -> V -> R) (H : V -> V) (S Orth : V -> Prop) (theta lamk : R),
  (forall x : V, S x -> rle (ipV x (H x)) (rtimes theta (ipV x x))) ->
  (exists x : V, S x /\ Orth x /\ rlt rO (ipV x x)) ->
  (forall x : V, Orth x -> rle (rtimes lamk (ipV x x)) (ipV x (H x))) ->
  rle lamk theta.
Proof. exact roots_minmax_partial. Qed.
Print Assumptions C08_roots_partial.

Theorem C08_second_root :
  forall (R : Type) (rO rI : R) (rplus rtimes rminus : R -> R -> R) (ropp : R -> R) (req rle rlt : R -> R -> Prop),
  SOR rO rI rplus rtimes rminus ropp req rle rlt ->
  forall (V : Type) (ipV : V -> V -> R) (H : V -> V) (vadd : V -> V -> V) (vscale : R -> V -> V),
  (forall x y : V, req (ipV x y) (ipV y x)) ->
  (forall x y z : V, req (ipV x (vadd y z)) (rplus (ipV x y) (ipV x z))) ->
  (forall (x : V) (a : R) (y : V), req (ipV x (vscale a y)) (rtimes a (ipV x y))) ->
  (forall x y : V, req (ipV x (H y)) (ipV (H x) y)) ->
  (forall z x y : V, req (ipV z (H (vadd x y))) (rplus (ipV z (H x)) (ipV z (H y)))) ->
  (forall (z : V) (a : R) (x : V), req (ipV z (H (vscale a x))) (rtimes a (ipV z (H x)))) ->
  forall (y1 y2 v1 : V) (th1 th2 lam2 : R),
  req (ipV y1 y1) rI -> req (ipV y2 y2) rI -> req (ipV y1 y2) rO ->
  req (ipV y1 (H y1)) th1 -> req (ipV y2 (H y2)) th2 -> req (ipV y1 (H y2)) rO ->
  rle th1 th2 ->
  (forall x : V, req (ipV v1 x) rO -> rle (rtimes lam2 (ipV x x)) (ipV x (H x))) ->
  rle lam2 th2.
Proof. exact second_root_bound. Qed.
Print Assumptions C08_second_root.

(* k-th root for every k (min-max, complete): k orthonormal Ritz vectors with Ritz values theta_i <= top, v_0..v_{k-2}
   the lowest exact eigenvectors (only "H >= lamk on their orthogonal complement" is used)  ==>  lamk <= top.
   The dimension count (k-1 homogeneous equations in k unknowns have a non-trivial solution) is proved for every
   ordered ring by fraction-free elimination (Proofs/RayleighProofs.v: homogeneous_solution). *)
Theorem C08_roots_minmax :
  forall (R : Type) (rO rI : R) (rplus rtimes rminus : R -> R -> R) (ropp : R -> R) (req rle rlt : R -> R -> Prop),
  SOR rO rI rplus rtimes rminus ropp req rle rlt ->
  forall (V : Type) (ipV : V -> V -> R) (H : V -> V) (vzero : V) (vadd : V -> V -> V) (vscale : R -> V -> V),
  (forall x y : V, req (ipV x y) (ipV y x)) ->
  (forall x : V, req (ipV x vzero) rO) ->
  (forall x y z : V, req (ipV x (vadd y z)) (rplus (ipV x y) (ipV x z))) ->
  (forall (x : V) (a : R) (y : V), req (ipV x (vscale a y)) (rtimes a (ipV x y))) ->
  (forall x y : V, req (ipV x (H y)) (ipV (H x) y)) ->
  (forall z : V, req (ipV z (H vzero)) rO) ->
  (forall z x y : V, req (ipV z (H (vadd x y))) (rplus (ipV z (H x)) (ipV z (H y)))) ->
  (forall (z : V) (a : R) (x : V), req (ipV z (H (vscale a x))) (rtimes a (ipV z (H x)))) ->
  forall (k : nat) (y : nat -> V) (theta : nat -> R) (top : R),
  (forall i j : nat, (i < k)%nat -> (j < k)%nat -> req (ipV (y i) (y j)) (kd R rO rI i j)) ->
  (forall i j : nat, (i < k)%nat -> (j < k)%nat -> req (ipV (y i) (H (y j))) (rtimes (theta i) (kd R rO rI i j))) ->
  (forall i : nat, (i < k)%nat -> rle (theta i) top) ->
  forall (v : nat -> V) (lamk : R),
  (forall x : V, (forall j : nat, (S j < k)%nat -> req (ipV (v j) x) rO) -> rle (rtimes lamk (ipV x x)) (ipV x (H x))) ->
  (0 < k)%nat -> rle lamk top.
Proof. exact roots_minmax. Qed.
Print Assumptions C08_roots_minmax.

(* ---------------------------------------------------------------------------------- H_eff = P^dagger H P *)
(* heff_is_projection (one site).  left / right: the ket chain before / after the centre in C07's format
   (physical dim, right bond dim, tensor); lo / ro: the operator chain there; the centre has physical dimension p,
   right bond dr, operator tensor W (right bond bo).  L and R are the environments Environ builds (Model/Env.v).
   For ALL centre tensors X, Y:  <X, H_eff Y>  (hop_expr's contraction "abc, bdef, lfk, cek -> adl")  equals
   <P X, H P Y>  with P X the dense vector of the chain  left ++ [X] ++ right  and H the dense operator of the MPO. *)
Theorem C08_heff_is_projection :
  forall (R : CRing) (left : list (nat * nat * T3 R)) (lo : list (nat * T4 R)) (p dr bo : nat) (W : T4 R)
         (right : list (nat * nat * T3 R)) (ro : list (nat * T4 R)) (X Y : T3 R),
  length lo = length left -> length ro = length right ->
  lastdim dr (kchain R right) = 1%nat -> lastdim bo ro = 1%nat ->
  let da := lastdim 1 (kchain R left) in
  let db := lastdim 1 lo in
  let L := envL3 1 1 1 sentinel (hsand left lo) in
  let Rt := envR3 (hsand right ro) sentinel in
  let ds := (kdims R left ++ p :: kdims R right)%list in
  ipW3 da p dr X (heff1_apply da db p dr bo L Rt W Y) =
  ipV ds (Pvec left dr right X) (Hdense (lo ++ (bo, W) :: ro) ds (Pvec left dr right Y)).
Proof. exact heff1_is_projection. Qed.
Print Assumptions C08_heff_is_projection.

(* get_ham_direct's matrix "abc,bdef,lfk->adlcek" applied to a tensor is the same contraction *)
Theorem C08_heff_matrix_is_hop :
  forall (R : CRing) (da db p dr bo : nat) (L Rt : E3 R) (W : T4 R) (C : T3 R) (a d f : nat),
  matvec1 da p dr (heff1_mat db bo L Rt W) C a d f = heff1_apply da db p dr bo L Rt W C a d f.
Proof. exact heff1_mat_apply. Qed.
Print Assumptions C08_heff_matrix_is_hop.

(* P^dagger P = I when every site before the centre is a left isometry and every site after it a right isometry
   (the predicates of C04: Model/Cano.v left_iso / right_iso with weight 1) *)
Theorem C08_P_isometry :
  forall (R : CRing) (left : list (nat * nat * T3 R)) (p dr : nat) (right : list (nat * nat * T3 R)) (X Y : T3 R),
  allP R (left_iso R (r1 R)) 1 (kdims R left) (kchain R left) ->
  allP R (right_iso R (r1 R)) dr (kdims R right) (kchain R right) ->
  lastdim dr (kchain R right) = 1%nat ->
  let da := lastdim 1 (kchain R left) in
  let ds := (kdims R left ++ p :: kdims R right)%list in
  ipV ds (Pvec left dr right X) (Pvec left dr right Y) = ipW3 da p dr X Y.
Proof. exact P1_isometry. Qed.
Print Assumptions C08_P_isometry.

(* the hypotheses exactly as C04_cano_isometry provides them (prefixP left_iso / afterP right_iso on the whole chain
   with the centre at index length left) give the two block hypotheses above *)
Theorem C08_canonical_blocks :
  forall (R : CRing) (left : list (nat * nat * T3 R)) (p dr : nat) (C : T3 R) (right : list (nat * nat * T3 R)),
  canonical_around R left p dr C right ->
  allP R (left_iso R (r1 R)) 1 (kdims R left) (kchain R left) /\
  allP R (right_iso R (r1 R)) dr (kdims R right) (kchain R right).
Proof. exact canonical_blocks. Qed.
Print Assumptions C08_canonical_blocks.

(* two sites: hop_expr's "abc, bdef, fghj, ljk, cehk -> adgl" is the one-site contraction of the chain in which the two
   centre sites are merged (physical index d1*p2+d2 as NumPy's reshape, operator tensor sum_f W1 W2); the merged chain
   has the same dense amplitudes (C08_chain_merge), so all one-site theorems apply to the two-site problem *)
Theorem C08_heff2_is_merged_heff1 :
  forall (R : CRing) (da db p1 p2 dr b1 bo : nat) (L Rt : E3 R) (W1 W2 : T4 R) (C2 : nat -> nat -> nat -> nat -> R) (a d g l : nat),
  (g < p2)%nat ->
  heff2_apply da db p1 p2 dr b1 bo L Rt W1 W2 C2 a d g l =
  heff1_apply da db (p1 * p2) dr bo L Rt (merge_op p2 b1 W1 W2) (merge_c2 p2 C2) a (d * p2 + g)%nat l.
Proof. exact heff2_merge. Qed.
Print Assumptions C08_heff2_is_merged_heff1.

Theorem C08_chain_merge :
  forall (R : CRing) (p2 d1 d2 : nat) (t1 t2 : T3 R) (ts : list (nat * T3 R)) (x1 x2 : nat) (s : list nat) (l r : nat),
  (x2 < p2)%nat ->
  chain3 ((d1, t1) :: (d2, t2) :: ts) (x1 :: x2 :: s) l r =
  chain3 ((d2, merge_ket p2 d1 t1 t2) :: ts) ((x1 * p2 + x2)%nat :: s) l r.
Proof. exact chain3_merge. Qed.
Print Assumptions C08_chain_merge.

Theorem C08_operator_merge :
  forall (R : CRing) (p2 b1 b2 : nat) (W1 W2 : T4 R) (ts : list (nat * T4 R)) (u1 u2 : nat) (su : list nat) (v1 v2 : nat) (sd : list nat) (l r : nat),
  (u2 < p2)%nat -> (v2 < p2)%nat ->
  chain4 ((b1, W1) :: (b2, W2) :: ts) (u1 :: u2 :: su) (v1 :: v2 :: sd) l r =
  chain4 ((b2, merge_op p2 b1 W1 W2) :: ts) ((u1 * p2 + u2)%nat :: su) ((v1 * p2 + v2)%nat :: sd) l r.
Proof. exact chain4_merge. Qed.
Print Assumptions C08_operator_merge.

(* the bound, unconditionally for the chain (real ordered scalars: a CRing whose carrier carries an SOR with Leibniz
   equality, e.g. Z): every Rayleigh quotient e of the MASKED one-site effective Hamiltonian of a chain that is
   canonical around the centre is >= every lower bound lam of the form of the dense H on the sector S0, provided the
   mask keeps P c inside the sector (what the quantum-number mask is for; C06). *)
Theorem C08_chain_energy_bound :
  forall (R : CRing) (rle rlt : R -> R -> Prop),
  SOR (r0 R) (r1 R) (radd R) (rmul R) (rsub R) (ropp R) eq rle rlt ->
  forall (m : nat -> nat -> nat -> bool) (left : list (nat * nat * T3 R)) (lo : list (nat * T4 R)) (p dr bo : nat) (W : T4 R)
         (right : list (nat * nat * T3 R)) (ro : list (nat * T4 R)) (C0 : T3 R) (S0 : vec R -> Prop) (lam : R),
  length lo = length left -> length ro = length right ->
  lastdim dr (kchain R right) = 1%nat -> lastdim bo ro = 1%nat ->
  canonical_around R left p dr C0 right ->
  let da := lastdim 1 (kchain R left) in
  let db := lastdim 1 lo in
  let L := envL3 1 1 1 sentinel (hsand left lo) in
  let Rt := envR3 (hsand right ro) sentinel in
  let ds := (kdims R left ++ p :: kdims R right)%list in
  let ops := (lo ++ (bo, W) :: ro)%list in
  (forall C : T3 R, S0 (Pvec left dr right (maskT m C))) ->
  (forall x : vec R, S0 x -> rle (rmul R lam (ipV ds x x)) (ipV ds x (Hdense ops ds x))) ->
  forall (C : T3 R) (e : R),
  is_rayleigh R (r0 R) (rmul R) eq rlt e
    (ipW3 da p dr (maskT m C) (maskT m C))
    (ipW3 da p dr (maskT m C) (heff1_masked m da db p dr bo L Rt W C)) ->
  rle lam e.
Proof. exact chain_energy_bound. Qed.
Print Assumptions C08_chain_energy_bound.

(* non-vacuity of C08_chain_energy_bound over Z: two spins, H = 1 (x) sigma_z (MPO bond 1), first site the left
   isometry delta(p,r), centre on the second site: the hypotheses hold with lam = -1 and the Rayleigh quotient -1
   of the centre tensor delta(d,1) is attained (the bound is tight) *)
Definition exc_t0 : T3 ZRing := fun l p r => if (l =? 0)%nat && (p =? r)%nat then 1 else 0.
Definition exc_id : T4 ZRing := fun _ d e _ => if (d =? e)%nat then 1 else 0.
Definition exc_W : T4 ZRing := fun _ d e _ => if (d =? e)%nat then (if (d =? 0)%nat then 1 else -1) else 0.
Definition exc_left : list (nat * nat * T3 ZRing) := [(2%nat, 2%nat, exc_t0)].
Definition exc_lo : list (nat * T4 ZRing) := [(1%nat, exc_id)].
Definition exc_C : T3 ZRing := fun _ d _ => if (d =? 1)%nat then 1 else 0.

Example C08_chain_bound_instance :
  canonical_around ZRing exc_left 2 1 (fun _ _ _ => 0) [] /\
  (forall x : vec ZRing, -1 * ipV (R:=ZRing) [2; 2]%nat x x <= ipV (R:=ZRing) [2; 2]%nat x (Hdense (exc_lo ++ [(1%nat, exc_W)]) [2; 2]%nat x)) /\
  is_rayleigh Z 0 Z.mul eq Z.lt (-1)
    (ipW3 (R:=ZRing) 2 2 1 exc_C exc_C)
    (ipW3 (R:=ZRing) 2 2 1 exc_C (heff1_apply (R:=ZRing) 2 1 2 1 1 (envL3 1 1 1 sentinel (hsand exc_left exc_lo)) (envR3 (hsand [] []) sentinel) exc_W exc_C)).
Proof.
  split; [|split].
  - unfold canonical_around. cbn. split; [|exact I]. split; [|exact I].
    intros a b Ha Hb. destruct a as [|[|a]]; [| |exfalso; lia]; (destruct b as [|[|b]]; [| |exfalso; lia]); reflexivity.
  - intros x. cbv - [Z.mul Z.add Z.opp Z.le Z.sub].
    set (x00 := x [0;0]%nat). set (x01 := x [0;1]%nat). set (x10 := x [1;0]%nat). set (x11 := x [1;1]%nat).
    pose proof (Z.square_nonneg x00). pose proof (Z.square_nonneg x10). nia.
  - split; vm_compute; reflexivity.
Qed.

(* ------------------------------------------------------------------------------------------------- trees *)
(* tree_env_fresh: optimize_ttns on ANY tree whose root has a child (the code asserts it), any number of sweeps, any
   initial versions: every environment read -- by hop_expr2 for a two-site problem, or by TTNEnviron's build_* functions
   to make another environment, including the initial construction -- carries the current versions of exactly the nodes
   it depends on (subtree of the child for environ_children, complement of the own subtree for environ_parent). *)
Theorem C08_tree_env_fresh :
  forall (T : TreeOpt.tree) (k : nat) (vr : TreeOpt.path -> nat),
  (0 < TreeOpt.nch T)%nat -> Forall TreeOpt.obs_ok (TreeOpt.obsl (TreeOpt.optimize T k vr)).
Proof. exact TreeOptProofs.tree_env_fresh_all. Qed.
Print Assumptions C08_tree_env_fresh.

(* non-vacuity: a ten-node tree, three sweeps: 496 environment reads *)
Example C08_tree_nonvacuous :
  let T := TreeOpt.of_shape [3; 2; 0; 0; 1; 1; 0; 2; 0; 0]%nat in
  length (TreeOpt.all_paths_t T []) = 10%nat /\ length (TreeOpt.obsl (TreeOpt.optimize T 3 (fun _ => O))) = 496%nat.
Proof. vm_compute. split; reflexivity. Qed.
(* the tree model can tell stale from fresh: bumping a node after the cache was built makes reads stale *)
Example C08_tree_stale_is_detected :
  let T := TreeOpt.of_shape [2; 1; 0; 0]%nat in
  let s := TreeOpt.init T (fun _ => O) in
  (0 < TreeOpt.stale_count T (TreeOpt.sweeps T 1 (TreeOpt.bump [0; 0]%nat s)))%nat.
Proof. vm_compute. lia. Qed.

(* ------------------------------------------------------------------------------------------ instances *)
(* Z^2 with H = [[2,1],[1,2]] (eigenvalues 1, 3), W = Z embedded as the first axis: the projected operator is
   the 1x1 matrix (2); lam = 1 satisfies the hypothesis, and the theorem yields 1 <= 2. *)
Definition ex_ip2 (x y : Z * Z) : Z := fst x * fst y + snd x * snd y.
Definition ex_H2 (x : Z * Z) : Z * Z := (2 * fst x + snd x, fst x + 2 * snd x).
Definition ex_P (c : Z) : Z * Z := (c, 0).
Definition ex_Pd (x : Z * Z) : Z := fst x.

Example C08_variational_instance :
  (forall c x, Z.mul c (ex_Pd x) = ex_ip2 (ex_P c) x) /\
  (forall c c', Z.mul c (ex_Pd (ex_P c')) = Z.mul c c') /\
  (forall x, 1 * ex_ip2 x x <= ex_ip2 x (ex_H2 x)) /\
  is_rayleigh Z 0 Z.mul eq Z.lt 2 (Z.mul 3 3) (Z.mul 3 (Heff (Z * Z) Z ex_H2 ex_P ex_Pd 3)) /\
  1 <= 2.
Proof.
  assert (A : forall c x, Z.mul c (ex_Pd x) = ex_ip2 (ex_P c) x) by (intros c [a b]; unfold ex_ip2, ex_P, ex_Pd; cbn; lia).
  assert (I : forall c c', Z.mul c (ex_Pd (ex_P c')) = Z.mul c c') by reflexivity.
  assert (L : forall x, 1 * ex_ip2 x x <= ex_ip2 x (ex_H2 x)) by (intros [a b]; unfold ex_ip2, ex_H2; cbn [fst snd]; pose proof (Z.square_nonneg (a + b)); lia).
  assert (Rq : is_rayleigh Z 0 Z.mul eq Z.lt 2 (Z.mul 3 3) (Z.mul 3 (Heff (Z * Z) Z ex_H2 ex_P ex_Pd 3))) by (split; reflexivity).
  repeat split; try assumption.
  exact (C08_variational_bound Z 0 1 Z.add Z.mul Z.sub Z.opp eq Z.le Z.lt Zsor (Z * Z)%type Z ex_ip2 Z.mul ex_H2 ex_P ex_Pd A I 1 L 3 2 Rq).
Qed.

(* shifted target on the same space, omega = 2: (H-2)^2 = identity, mu = 1 = min((1-2)^2, (3-2)^2) *)
Definition ex_sub (x y : Z * Z) : Z * Z := (fst x - fst y, snd x - snd y).
Definition ex_scale (a : Z) (x : Z * Z) : Z * Z := (a * fst x, a * snd x).

Example C08_shifted_instance :
  (forall x, 1 * ex_ip2 x x <= ex_ip2 (Hs Z (Z * Z) ex_H2 ex_sub ex_scale 2 x) (Hs Z (Z * Z) ex_H2 ex_sub ex_scale 2 x)) /\
  is_rayleigh Z 0 Z.mul eq Z.lt 1 (Z.mul 5 5) (Z.mul 5 (Heff2 Z (Z * Z) Z ex_H2 ex_sub ex_scale ex_P ex_Pd 2 5)).
Proof.
  split.
  - intros [a b]. unfold Hs, ex_ip2, ex_H2, ex_sub, ex_scale. cbn [fst snd]. lia.
  - split; reflexivity.
Qed.

(* second root on Z^3, H = [[2,1,0],[1,2,0],[0,0,5]] (eigenvalues 1,3,5; ground state (1,-1,0)),
   Ritz vectors e1, e3 with Ritz values 2 <= 5: the theorem yields lam2 = 3 <= 5 *)
Definition ex_ip3 (x y : Z * Z * Z) : Z := fst (fst x) * fst (fst y) + snd (fst x) * snd (fst y) + snd x * snd y.
Definition ex_H3 (x : Z * Z * Z) : Z * Z * Z := (2 * fst (fst x) + snd (fst x), fst (fst x) + 2 * snd (fst x), 5 * snd x).
Definition ex_add3 (x y : Z * Z * Z) : Z * Z * Z := (fst (fst x) + fst (fst y), snd (fst x) + snd (fst y), snd x + snd y).
Definition ex_scale3 (a : Z) (x : Z * Z * Z) : Z * Z * Z := (a * fst (fst x), a * snd (fst x), a * snd x).

Example C08_second_root_instance : 3 <= 5.
Proof.
  apply (C08_second_root Z 0 1 Z.add Z.mul Z.sub Z.opp eq Z.le Z.lt Zsor (Z * Z * Z)%type ex_ip3 ex_H3 ex_add3 ex_scale3)
    with (y1 := (1, 0, 0)) (y2 := (0, 0, 1)) (v1 := (1, -1, 0)) (th1 := 2); try reflexivity; try lia.
  - intros [[a b] c] [[a' b'] c']. unfold ex_ip3. cbn [fst snd]. lia.
  - intros [[a b] c] [[a' b'] c'] [[a2 b2] c2]. unfold ex_ip3, ex_add3. cbn [fst snd]. lia.
  - intros [[a b] c] k [[a' b'] c']. unfold ex_ip3, ex_scale3. cbn [fst snd]. lia.
  - intros [[a b] c] [[a' b'] c']. unfold ex_ip3, ex_H3. cbn [fst snd]. lia.
  - intros [[a b] c] [[a' b'] c'] [[a2 b2] c2]. unfold ex_ip3, ex_H3, ex_add3. cbn [fst snd]. lia.
  - intros [[a b] c] k [[a' b'] c']. unfold ex_ip3, ex_H3, ex_scale3. cbn [fst snd]. lia.
  - intros [[a b] c]. unfold ex_ip3, ex_H3. cbn [fst snd]. intros E. assert (b = a) by lia. subst b.
    pose proof (Z.square_nonneg a). pose proof (Z.square_nonneg c). lia.
Qed.

(* an instance over Q with a genuinely rotated isometry P c = (3/5 c, 4/5 c) *)
Definition exq_ip2 (x y : Q * Q) : Q := (fst x * fst y + snd x * snd y)%Q.
Definition exq_H2 (x : Q * Q) : Q * Q := ((2 # 1) * fst x + snd x, fst x + (2 # 1) * snd x)%Q.
Definition exq_P (c : Q) : Q * Q := ((3 # 5) * c, (4 # 5) * c)%Q.
Definition exq_Pd (x : Q * Q) : Q := ((3 # 5) * fst x + (4 # 5) * snd x)%Q.

Example C08_variational_instance_Q :
  forall c e : Q, (0 < c * c)%Q -> (e * (c * c) == c * Heff (Q * Q) Q exq_H2 exq_P exq_Pd c)%Q -> (1 <= e)%Q.
Proof.
  intros c e Hc He.
  apply (C08_variational_bound Q 0%Q 1%Q Qplus Qmult Qminus Qopp Qeq Qle Qlt Qsor (Q * Q)%type Q exq_ip2 Qmult exq_H2 exq_P exq_Pd)
    with (c := c).
  - intros a [x y]. unfold exq_ip2, exq_P, exq_Pd. cbn [fst snd]. ring.
  - intros a b. unfold exq_P, exq_Pd. cbn [fst snd]. ring.
  - intros [x y]. unfold exq_ip2, exq_H2. cbn [fst snd]. pose proof (Rtimes_square_nonneg Qsor (x + y)%Q) as Hsq. cbv beta in Hsq. lra.
  - split; assumption.
Qed.
