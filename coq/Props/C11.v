(* C11 -- Tree tensor network states behave as dense vectors for every topology.
   Only statements, closed by [exact], with Print Assumptions beneath; Examples show that the hypotheses
   are met by a concrete 4-node tree with a binary branching, a node with two physical indices and a
   dummy node.  Model: Model/Ttns.v (renormalizer/tn/tree.py); R ranges over all commutative rings with
   involution (instances Z and the Gaussian integers).

   Second part (Model/TtnsEnv.v): the environment recursion of TTNS.expectation (incl. partial operators),
   calc_1site_rdm / calc_1dof_rdm / calc_2site_rdm and Tree.find_path.
   PARTIAL (oracle only, no theorem): calc_2dof_rdm, entropies, and the numerical kernels (QR/SVD) inside
   canonicalise/compress, which enter the theorems as factorisation witnesses with an explicit contract.
   rdm2_dense is proved for the contraction organised along the two branches below the longest common
   prefix of the two positions (all pairs of sites); that the library's find_path returns exactly that
   turning point and a parent/child chain is find_path_common / find_path_is_path.                       *)
From Coq Require Import List Arith ZArith Lia Permutation.
Import ListNotations.
From RV Require Import Base.CRing Base.BigSum Model.Chain Model.Ttns Proofs.TtnsProofs Model.TtnsEnv Proofs.TtnsEnvProofs.

(* TTNS.add: direct sum on every virtual axis, the root's parent axis shared  ==  sum of dense vectors.
   (all trees incl. the one-node tree, all arities, any number of physical indices per node) *)
Theorem ttns_add_dense : forall (R : CRing) (a b : ttree R),
  tshape R a = tshape R b ->
  forall s p, tamp R (tadd R a b) s p = radd R (tamp R a s p) (tamp R b s p).
Proof. exact TtnsProofs.ttns_add_dense. Qed.
Print Assumptions ttns_add_dense.

(* different prefactors (coeff): folded into the root tensor, the represented vector is ca*A + cb*B *)
Theorem ttns_add_coeff_dense : forall (R : CRing) (ca cb : R) (a b : ttree R),
  tshape R a = tshape R b ->
  forall s p, tamp R (tadd_coeff R ca cb a b) s p = radd R (rmul R ca (tamp R a s p)) (rmul R cb (tamp R b s p)).
Proof. exact TtnsProofs.ttns_add_coeff_dense. Qed.
Print Assumptions ttns_add_coeff_dense.

(* TTNS.add on states with prefactors, both branches (common prefactor kept / different prefactors folded into the
   root): coeff' * psi' = ca * A + cb * B;  ceq is any sound equality test of the prefactors *)
Theorem ttns_add_state_dense : forall (R : CRing) (ceq : R -> R -> bool) (ca cb : R) (a b : ttree R),
  (ceq ca cb = true -> ca = cb) -> tshape R a = tshape R b ->
  forall s p,
  rmul R (fst (tadd_state R ceq ca cb a b)) (tamp R (snd (tadd_state R ceq ca cb a b)) s p) =
  radd R (rmul R ca (tamp R a s p)) (rmul R cb (tamp R b s p)).
Proof. exact TtnsProofs.ttns_add_state_dense. Qed.
Print Assumptions ttns_add_state_dense.

Theorem ttns_scale_dense : forall (R : CRing) (c : R) (t : ttree R) s p,
  tamp R (tscale R c t) s p = rmul R c (tamp R t s p).
Proof. exact TtnsProofs.ttns_scale_dense. Qed.
Print Assumptions ttns_scale_dense.

(* TTNO.apply with the combined bond index K = k_state * d_op + k_op produced by the reshape *)
Theorem ttno_apply_dense : forall (R : CRing) (t : ttree R) (o : otree R),
  tshape R t = oshape R o -> forall su P,
  tamp R (tapply R o t) su P =
  sumcfgs R (tpdims R t) (fun sd => rmul R (oamp R o su sd (P mod odim R o)) (tamp R t sd (P / odim R o))).
Proof. exact TtnsProofs.ttno_apply_dense. Qed.
Print Assumptions ttno_apply_dense.

Theorem ttno_apply_dense_whole : forall (R : CRing) (t : ttree R) (o : otree R),
  tshape R t = oshape R o -> odim R o = 1 -> forall su,
  tamp R (tapply R o t) su 0 = sumcfgs R (tpdims R t) (fun sd => rmul R (oamp R o su sd 0) (tamp R t sd 0)).
Proof. exact TtnsProofs.ttno_apply_dense_whole. Qed.
Print Assumptions ttno_apply_dense_whole.

(* one push_cano_to_parent step anywhere in the tree, for ANY factorisation M = Q . V^T of the node *)
Theorem ttns_push_preserves : forall (R : CRing) path i m Q V (t : ttree R),
  step_ok R (GParent R path i m Q V) t ->
  forall s p, tamp R (run_step R (GParent R path i m Q V) t) s p = tamp R t s p.
Proof. exact TtnsProofs.ttns_push_preserves. Qed.
Print Assumptions ttns_push_preserves.

(* one push_cano_to_child / lossless compress_node step, with the moveaxis index map *)
Theorem ttns_push_child_preserves : forall (R : CRing) path i m U V (t : ttree R),
  step_ok R (GChild R path i m U V) t ->
  forall s p, tamp R (run_step R (GChild R path i m U V) t) s p = tamp R t s p.
Proof. exact TtnsProofs.ttns_push_child_preserves. Qed.
Print Assumptions ttns_push_child_preserves.

Theorem moveaxis_roundtrip : forall i (l : list nat), i < length l -> move_from_end i (move_to_end i l) = l.
Proof. exact TtnsProofs.move_from_to_end. Qed.
Print Assumptions moveaxis_roundtrip.

(* canonicalise(): the post-order schedule of pushes; compress() without truncation: any sequence of
   valid child / parent pushes *)
Theorem ttns_cano_dense : forall (R : CRing) sts (t : ttree R),
  map (step_pos R) sts = cano_sched R t -> forallb (is_parent_step R) sts = true -> steps_ok R sts t ->
  forall s p, tamp R (run_steps R sts t) s p = tamp R t s p.
Proof. exact TtnsProofs.ttns_cano_dense. Qed.
Print Assumptions ttns_cano_dense.

Theorem ttns_lossless_compress_dense : forall (R : CRing) sts (t : ttree R),
  steps_ok R sts t -> forall s p, tamp R (run_steps R sts t) s p = tamp R t s p.
Proof. exact TtnsProofs.ttns_gauge_seq_dense. Qed.
Print Assumptions ttns_lossless_compress_dense.

(* re-listing the children of any nodes (tensor axes following) leaves the amplitude of every
   configuration of the degrees of freedom unchanged; sg assigns physical indices to node labels *)
Theorem child_order_irrelevant : forall (R : CRing) (t t' : ttree R), tperm R t t' ->
  forall sg p, tamp R t (cfg_of R t sg) p = tamp R t' (cfg_of R t' sg) p.
Proof. exact TtnsProofs.child_order_irrelevant. Qed.
Print Assumptions child_order_irrelevant.

Theorem child_order_irrelevant_perm : forall (R : CRing) l pd d T (cs cs' : list (ttree R)), Permutation cs cs' ->
  exists T', tperm R (TNode l pd d T cs) (TNode l pd d T' cs') /\
    forall sg p, tamp R (TNode l pd d T cs) (cfg_of R (TNode l pd d T cs) sg) p
               = tamp R (TNode l pd d T' cs') (cfg_of R (TNode l pd d T' cs') sg) p.
Proof. exact TtnsProofs.child_order_irrelevant_perm. Qed.
Print Assumptions child_order_irrelevant_perm.

(* from_mps: the chain amplitude equals the amplitude of the converted linear tree *)
Theorem from_mps_dense : forall (R : CRing) pds ts (tr : ttree R) s r,
  from_mps R pds ts = Some tr -> length s = length ts -> length pds = length ts -> r < lastdim 1 ts ->
  tamp R tr (map (fun x => [x]) (rev s)) r = chain3 ts s 0 r.
Proof. exact TtnsProofs.from_mps_dense. Qed.
Print Assumptions from_mps_dense.

(* einsum index names of get_node_indices: both ends of a bond carry the same name, distinct bonds
   carry distinct names, physical names never collide with bond names *)
Theorem names_bond_ends : forall (R : CRing) par l pd d T (cs : list (ttree R)) i c, nth_error cs i = Some c ->
  nth_error (node_names R par (TNode l pd d T cs)) i = Some (NBond (Some l) (tlbl R c)) /\
  last (node_names R (Some l) c) (NPhys 0 0) = NBond (Some l) (tlbl R c).
Proof. exact TtnsProofs.names_bond_ends. Qed.
Print Assumptions names_bond_ends.

Theorem names_child_axes_are_parent_axes : forall (R : CRing) (t : ttree R) par,
  child_names R t = tl (parent_names R par t).
Proof. exact TtnsProofs.child_names_parent_names. Qed.
Print Assumptions names_child_axes_are_parent_axes.

Theorem names_injective : forall (R : CRing) (t : ttree R) par,
  NoDup (tlabels R t) -> NoDup (parent_names R par t).
Proof. exact TtnsProofs.names_injective. Qed.
Print Assumptions names_injective.

Theorem names_phys_bond_disjoint : forall (R : CRing) (t : ttree R) par x,
  In x (phys_names R t) -> In x (parent_names R par t) -> False.
Proof. exact TtnsProofs.names_phys_bond_disjoint. Qed.
Print Assumptions names_phys_bond_disjoint.


(* ------------------------------------------------------------------ second part: environments *)
(* TTNS.expectation: the bottom-up environment recursion (bra = conj(ket) exactly as the code conjugates,
   operator possibly acting on a subset of the DoFs of every node, the others contracted bra-ket directly)
   equals  sum_{s',s} conj(psi s') . O(s',s) . psi(s)  with O extended by the identity (pfull) *)
Theorem ttns_expectation_dense : forall (R : CRing) (t : ttree R) (o : ptree R), compat R t o ->
  forall pb po pk,
  cenv R t o pb po pk =
  sumcfgs R (tpdims R t) (fun su => sumcfgs R (tpdims R t) (fun sd =>
    rmul R (rmul R (rcj R (tamp R t su pb)) (oamp R (pfull R o) su sd po)) (tamp R t sd pk))).
Proof. exact TtnsEnvProofs.ttns_expectation_dense. Qed.
Print Assumptions ttns_expectation_dense.

(* children environment . parent environment = closed value, at every node (what TTNEnviron is used for) *)
Theorem ttns_env_split : forall (R : CRing) path (t : ttree R) (o : ptree R) Pe u ou,
  subtree R path t = Some u -> psub R path o = Some ou ->
  sumP R t o (fun pb po pk => rmul R (Pe pb po pk) (cenv R t o pb po pk)) =
  sumP R u ou (fun kb ko kk => rmul R (penv_at R t o path Pe kb ko kk) (cenv R u ou kb ko kk)).
Proof. exact TtnsEnvProofs.env_split. Qed.
Print Assumptions ttns_env_split.

(* calc_1site_rdm entry (ket, bra) = <psi| (|bra><ket| on the node (x) identity) |psi> = Tr_rest |psi><psi| *)
Theorem rdm1_dense : forall (R : CRing) (t : ttree R) (o : ptree R) path ket bra u,
  compat R t o -> tdim R t = 1 -> pdim R o = 1 ->
  subtree R path t = Some u -> (exists ou, psub R path o = Some ou) ->
  all_lt (tpd R u) ket = true -> all_lt (tpd R u) bra = true ->
  rdm1_site R t o path ket bra =
  sumcfgs R (tpdims R t) (fun su => sumcfgs R (tpdims R t) (fun sd =>
    rmul R (rmul R (rcj R (tamp R t su 0))
                   (oamp R (pfull R (set_unit R path (length (tpd R u)) ket bra o)) su sd 0))
           (tamp R t sd 0))).
Proof. exact TtnsEnvProofs.rdm1_dense. Qed.
Print Assumptions rdm1_dense.

(* calc_1dof_rdm: the other DoFs of the node traced out of the site RDM *)
Theorem rdm1dof_dense : forall (R : CRing) (t : ttree R) (o : ptree R) path j a b u,
  compat R t o -> tdim R t = 1 -> pdim R o = 1 ->
  subtree R path t = Some u -> (exists ou, psub R path o = Some ou) ->
  (forall x, all_lt (put_nth j 1 (tpd R u)) x = true ->
             all_lt (tpd R u) (put_nth j a x) = true /\ all_lt (tpd R u) (put_nth j b x) = true) ->
  rdm1_dof R t o path j a b =
  sumcfg (put_nth j 1 (tpd R u)) (fun x =>
    sumcfgs R (tpdims R t) (fun su => sumcfgs R (tpdims R t) (fun sd =>
      rmul R (rmul R (rcj R (tamp R t su 0))
                     (oamp R (pfull R (set_unit R path (length (tpd R u)) (put_nth j a x) (put_nth j b x) o)) su sd 0))
             (tamp R t sd 0)))).
Proof. exact TtnsEnvProofs.rdm1dof_dense. Qed.
Print Assumptions rdm1dof_dense.

(* calc_2site_rdm, every pair of sites: tensors of the nodes on the two branches below the turning point w,
   environments of the children off the path, parent environment of w *)
Theorem rdm2_dense : forall (R : CRing) k1 b1 k2 b2 (t : ttree R) (o : ptree R) p1 p2 u ou,
  let w := lcp p1 p2 in
  compat R t o -> tdim R t = 1 -> pdim R o = 1 ->
  subtree R w t = Some u -> psub R w o = Some ou -> compat R u ou ->
  okD R k1 b1 k2 b2 u (Some (skipn (length w) p1)) (Some (skipn (length w) p2)) ->
  rdm2_site R t o p1 p2 k1 k2 b1 b2 =
  sumcfgs R (tpdims R t) (fun su => sumcfgs R (tpdims R t) (fun sd =>
    rmul R (rmul R (rcj R (tamp R t su 0))
                   (oamp R (pfull R (set_sub R w (units R k1 b1 k2 b2 u ou (Some (skipn (length w) p1)) (Some (skipn (length w) p2))) o)) su sd 0))
           (tamp R t sd 0))).
Proof. exact TtnsEnvProofs.rdm2_dense. Qed.
Print Assumptions rdm2_dense.

(* get_skip_pidx is a function of (state basis node, operator basis node); no function of the operator node alone
   reproduces it (one operator used with states on different basis trees), and it is empty for equal DoF lists *)
Theorem skip_pidx_needs_state_node : ~ exists f : list nat -> list nat, forall sd od, skip_pidx sd od = f od.
Proof. exact TtnsEnvProofs.skip_pidx_needs_state_node. Qed.
Print Assumptions skip_pidx_needs_state_node.

Theorem skip_pidx_same : forall sd, skip_pidx sd sd = [].
Proof. exact TtnsEnvProofs.skip_pidx_same. Qed.
Print Assumptions skip_pidx_same.

Theorem find_path_is_path : forall p1 p2, is_chain (find_path p1 p2).
Proof. exact TtnsEnvProofs.find_path_is_path. Qed.
Print Assumptions find_path_is_path.

Theorem find_path_common : forall p1 p2, exists rest,
  filter (fun x => existsb (lnat_eqb x) (anc p2)) (anc p1) = lcp p1 p2 :: rest.
Proof. exact TtnsEnvProofs.find_path_common. Qed.
Print Assumptions find_path_common.

(* ------------------------------------------------------------------ non-vacuity *)
Local Open Scope Z_scope.
Definition zsum (l : list nat) : Z := fold_right (fun x a => Z.of_nat x + a) 0 l.
Definition zt (c : Z) : tens ZRing := fun ks ph p => c + 2 * zsum ks + 3 * zsum ph + 5 * Z.of_nat p - Z.of_nat (length ks).
(*          0 [2]
           /      \
     1 [2;2]      2 [1]  (dummy)
        |
      3 [2]                                                     *)
Definition ex_n3 (c : Z) := TNode 3%nat [2%nat] 2%nat (zt c) [].
Definition ex_n2 (c : Z) := TNode 2%nat [1%nat] 2%nat (zt (c + 1)) [].
Definition ex_n1 (c : Z) := TNode 1%nat [2%nat; 2%nat] 2%nat (zt (c + 2)) [ex_n3 c].
Definition ex_t (c : Z) : ttree ZRing := TNode 0%nat [2%nat] 1%nat (zt (c + 3)) [ex_n1 c; ex_n2 c].
Definition ex_cfg : list (list nat) := [[1%nat]; [0%nat; 1%nat]; [1%nat]; [0%nat]].

Example ex_add_hyp : tshape ZRing (ex_t 1) = tshape ZRing (ex_t (-2)).
Proof. reflexivity. Qed.
(* the one-node tree: both slices of TTNS.add cover the whole root tensor and the entries add *)
Example ex_add_single_node :
  tamp ZRing (tadd ZRing (@TNode ZRing 0%nat [2%nat] 1%nat (fun _ ph _ => 3 + zsum ph) []) (@TNode ZRing 0%nat [2%nat] 1%nat (fun _ ph _ => 10 - zsum ph) [])) [[1%nat]] 0 = 4 + 9.
Proof. vm_compute. reflexivity. Qed.
Example ex_add_value :
  tamp ZRing (tadd ZRing (ex_t 1) (ex_t (-2))) ex_cfg 0 = 16293 + 1584 /\
  tamp ZRing (ex_t 1) ex_cfg 0 = 16293 /\ tamp ZRing (ex_t (-2)) ex_cfg 0 = 1584.
Proof. vm_compute. repeat split. Qed.

(* an operator tree of the same topology with bond dimension 2 below the root *)
Definition zo (c : Z) : otens ZRing := fun ks pu pdn p => c + zsum ks + 2 * zsum pu - zsum pdn + Z.of_nat p.
Definition ex_o : otree ZRing :=
  ONode [2%nat] 1%nat (zo 1) [ONode [2%nat; 2%nat] 2%nat (zo 0) [ONode [2%nat] 2%nat (zo 2) []]; ONode [1%nat] 2%nat (zo 1) []].
Example ex_apply_hyp : tshape ZRing (ex_t 1) = oshape ZRing ex_o /\ odim ZRing ex_o = 1%nat.
Proof. split; reflexivity. Qed.
Example ex_apply_value :
  tamp ZRing (tapply ZRing ex_o (ex_t 1)) ex_cfg 0 =
  sumcfgs ZRing (tpdims ZRing (ex_t 1)) (fun sd => oamp ZRing ex_o ex_cfg sd 0 * tamp ZRing (ex_t 1) sd 0)
  /\ tamp ZRing (tapply ZRing ex_o (ex_t 1)) ex_cfg 0 <> 0.
Proof. vm_compute. split; [reflexivity|discriminate]. Qed.

(* a valid push_cano_to_parent witness for node 3 (child 0 of node 1, which is child 0 of the root):
   V = [[1,1],[0,1]],  Q[.,0] = M[.,0] - M[.,1],  Q[.,1] = M[.,1]  *)
Definition ex_V (a j : nat) : Z := match a, j with 0%nat, _ => 1 | 1%nat, 1%nat => 1 | _, _ => 0 end.
Definition ex_Q : tens ZRing := fun ks ph j => match j with 0%nat => zt 1 ks ph 0%nat - zt 1 ks ph 1%nat | _ => zt 1 ks ph 1%nat end.
Definition ex_step := GParent ZRing [0%nat] 0 2 ex_Q ex_V.
Example ex_push_hyp : step_ok ZRing ex_step (ex_t 1).
Proof.
  cbn. intros ks ph a _ Ha. destruct a as [|[|a]]; [| |lia]; unfold ex_Q, ex_V, zt; cbn; lia.
Qed.
Example ex_push_value : tamp ZRing (run_step ZRing ex_step (ex_t 1)) ex_cfg 0 = 16293.
Proof. vm_compute. reflexivity. Qed.

(* the three children orders of a ternary node are related *)
Example ex_perm : forall T (x y z : ttree ZRing), exists T',
  tperm ZRing (TNode 0%nat [2%nat] 1%nat T [x; y; z]) (TNode 0%nat [2%nat] 1%nat T' [z; x; y]).
Proof.
  intros T x y z. destruct (TtnsProofs.child_order_irrelevant_perm ZRing 0%nat [2%nat] 1%nat T [x; y; z] [z; x; y]) as [T' [H _]].
  - apply Permutation_sym. apply (Permutation_cons_append [x; y] z).
  - exists T'. exact H.
Qed.
Example ex_swap_value :
  let t' := TNode 0%nat [2%nat] 1%nat (fun ks ph p => zt 4 (swap_at 0 ks) ph p) [ex_n2 1; ex_n1 1] in
  tperm ZRing (ex_t 1) t' /\
  tamp ZRing t' (cfg_of ZRing t' (fun l => nth l [[1%nat]; [0%nat; 1%nat]; [0%nat]; [1%nat]] [])) 0 = 16293.
Proof. split; [apply (tp_swap ZRing 0%nat [2%nat] 1%nat (zt 4) [] (ex_n1 1) (ex_n2 1) [])|vm_compute; reflexivity]. Qed.

(* a three-site chain and its linear tree *)
Definition ex_site (c : Z) : T3 ZRing := fun l p r => c + Z.of_nat l + 2 * Z.of_nat p - 3 * Z.of_nat r.
Definition ex_chain : list (nat * T3 ZRing) := [(2%nat, ex_site 1); (3%nat, ex_site 2); (1%nat, ex_site (-1))].
Example ex_from_mps : exists tr, from_mps ZRing [2%nat; 2%nat; 2%nat] ex_chain = Some tr /\
  tamp ZRing tr (map (fun x => [x]) (rev [1%nat; 0%nat; 1%nat])) 0 = chain3 ex_chain [1%nat; 0%nat; 1%nat] 0 0
  /\ chain3 ex_chain [1%nat; 0%nat; 1%nat] 0 0 = -36.
Proof. eexists. split; [reflexivity|]. vm_compute. split; reflexivity. Qed.

Example ex_names : NoDup (tlabels ZRing (ex_t 1)) /\
  parent_names ZRing None (ex_t 1) = [NBond None 0%nat; NBond (Some 0%nat) 1%nat; NBond (Some 1%nat) 3%nat; NBond (Some 0%nat) 2%nat].
Proof. split; [|reflexivity]. repeat constructor; cbn; intuition discriminate. Qed.

(* second part: the dummy operator fits the example tree; norm^2, a site RDM entry and a two-site RDM entry
   (sites 3 = [0;0] and 2 = [1]) computed by the environment model equal the brute-force sums *)
Example ex_compat : compat ZRing (ex_t 1) (pdummy_of ZRing (ex_t 1)).
Proof. cbn. tauto. Qed.
Example ex_okD : okD ZRing [1%nat] [0%nat] [0%nat] [0%nat] (ex_t 1) (Some [0%nat; 0%nat]) (Some [1%nat]).
Proof. cbn. tauto. Qed.
Example ex_norm_value :
  texpect ZRing (ex_t 1) (pdummy_of ZRing (ex_t 1)) =
  sumcfgs ZRing (tpdims ZRing (ex_t 1)) (fun s => tamp ZRing (ex_t 1) s 0 * tamp ZRing (ex_t 1) s 0)
  /\ texpect ZRing (ex_t 1) (pdummy_of ZRing (ex_t 1)) <> 0.
Proof. vm_compute. split; [reflexivity|discriminate]. Qed.
Example ex_rdm1_value :
  rdm1_site ZRing (ex_t 1) (pdummy_of ZRing (ex_t 1)) [0%nat] [0%nat; 1%nat] [1%nat; 1%nat] =
  @sumcfg ZRing [2%nat] (fun r => @sumcfg ZRing [2%nat] (fun x => @sumcfg ZRing [1%nat] (fun y =>
    tamp ZRing (ex_t 1) [r; [0%nat; 1%nat]; x; y] 0 * tamp ZRing (ex_t 1) [r; [1%nat; 1%nat]; x; y] 0))).
Proof. vm_compute. reflexivity. Qed.
Example ex_rdm2_value :
  rdm2_site ZRing (ex_t 1) (pdummy_of ZRing (ex_t 1)) [0%nat; 0%nat] [1%nat] [1%nat] [0%nat] [0%nat] [0%nat] =
  @sumcfg ZRing [2%nat] (fun r => @sumcfg ZRing [2%nat; 2%nat] (fun x =>
    tamp ZRing (ex_t 1) [r; x; [1%nat]; [0%nat]] 0 * tamp ZRing (ex_t 1) [r; x; [0%nat]; [0%nat]] 0))
  /\ find_path [0%nat; 0%nat] [1%nat] = [[0%nat; 0%nat]; [0%nat]; []; [1%nat]].
Proof. vm_compute. split; reflexivity. Qed.
(* one operator node (DoF 1), two state nodes: own tree -> nothing skipped; P+Q tree (DoFs 1 and 7) -> index 1 skipped *)
Example ex_skip_pidx : skip_pidx [1%nat] [1%nat] = [] /\ skip_pidx [1%nat; 7%nat] [1%nat] = [1%nat]
  /\ keep_mask [1%nat; 7%nat] [1%nat] = [true; false].
Proof. repeat split. Qed.
