(* C07 -- Observables computed from the network equal their dense definitions; the batched fast path of
   Mps.expectations returns exactly what the one-by-one path returns.
   Only statements, closed by [exact], with Print Assumptions beneath.  Models: Model/Env.v (contract_one_site,
   Environ, expectation, RDM), Model/FreqCache.v (_construct_freq_environ, _get_freq_environ, expectations).
   Every theorem holds over an arbitrary commutative ring with involution (CRing): all chain lengths, all bond
   and physical dimensions.  The tensors given as `self_conj` enter BILINEARLY (no conjugation in the code);
   the default argument conj(m) turns the bilinear form into <m|O|m>.                                          *)
From Coq Require Import List Arith ZArith Lia.
Import ListNotations.
From RV Require Import Base.CRing Base.BigSum Model.Chain Model.FreqCache Model.Env
                       Proofs.FreqCacheProofs Proofs.EnvProofs.

(* ---------------------------------------------------------------- environments as sums over configurations *)
(* env_fold (states): the L-environment after the sites ss, entry (f,g,h) =
     sum over bra configurations s' and ket configurations s of
     (bra chain)[s'](0,f) * (operator chain)[s',s](0,g) * (ket chain)[s](0,h)                                 *)
Theorem C07_env_fold_L : forall (R : CRing) (ss : list (site3 R)) f g h,
  f < lastA3 R 1 ss -> g < lastB3 R 1 ss -> h < lastC3 R 1 ss ->
  envL3 1 1 1 sentinel ss f g h =
  sumcfg (map (@p3 R) ss) (fun s' => sumcfg (map (@p3 R) ss) (fun s =>
    rmul R (rmul R (chain3 (bras3 ss) s' 0 f) (chain4 (ops3 ss) s' s 0 g)) (chain3 (kets3 ss) s 0 h))).
Proof. exact env_fold_L3. Qed.
Print Assumptions C07_env_fold_L.

(* mirrored: the R-environment of the sites ss (whose right ends have dimension one) *)
Theorem C07_env_fold_R : forall (R : CRing) (ss : list (site3 R)) da db dc f g h,
  f < da -> g < db -> h < dc ->
  lastA3 R da ss = 1 -> lastB3 R db ss = 1 -> lastC3 R dc ss = 1 ->
  envR3 ss sentinel f g h =
  sumcfg (map (@p3 R) ss) (fun s' => sumcfg (map (@p3 R) ss) (fun s =>
    rmul R (rmul R (chain3 (bras3 ss) s' f 0) (chain4 (ops3 ss) s' s g 0)) (chain3 (kets3 ss) s h 0))).
Proof. exact env_fold_R3. Qed.
Print Assumptions C07_env_fold_R.

(* the same for density-operator (rank-4) sites: the ancilla configuration t is shared by bra and ket *)
Theorem C07_env_fold_L_dm : forall (R : CRing) (ss : list (site4 R)) f g h,
  f < lastA R 1 ss -> g < lastB R 1 ss -> h < lastC R 1 ss ->
  envL4 1 1 1 sentinel ss f g h =
  sumcfg (map (@p4 R) ss) (fun s' => sumcfg (map (@p4 R) ss) (fun s => sumcfg (map (@q4 R) ss) (fun t =>
    rmul R (rmul R (chain4 (bras4 ss) s' t 0 f) (chain4 (ops4 ss) s' s 0 g)) (chain4 (kets4 ss) s t 0 h)))).
Proof. exact env_fold_L4. Qed.
Print Assumptions C07_env_fold_L_dm.

Theorem C07_env_fold_R_dm : forall (R : CRing) (ss : list (site4 R)) da db dc f g h,
  f < da -> g < db -> h < dc ->
  lastA R da ss = 1 -> lastB R db ss = 1 -> lastC R dc ss = 1 ->
  envR4 ss sentinel f g h =
  sumcfg (map (@p4 R) ss) (fun s' => sumcfg (map (@p4 R) ss) (fun s => sumcfg (map (@q4 R) ss) (fun t =>
    rmul R (rmul R (chain4 (bras4 ss) s' t f 0) (chain4 (ops4 ss) s' s g 0)) (chain4 (kets4 ss) s t h 0)))).
Proof. exact env_fold_R4. Qed.
Print Assumptions C07_env_fold_R_dm.

(* ---------------------------------------------------------------- expectation = dense bilinear form *)
(* expectation m O x = sum_{s',s} amp x s' * opamp O s' s * amp m s   (x = the tensors passed as self_conj) *)
Theorem C07_expectation_dense : forall (R : CRing) (ss : list (site3 R)),
  ss <> [] -> lastA3 R 1 ss = 1 -> lastB3 R 1 ss = 1 -> lastC3 R 1 ss = 1 ->
  expectation3 ss =
  sumcfg (map (@p3 R) ss) (fun s' => sumcfg (map (@p3 R) ss) (fun s =>
    rmul R (rmul R (amp (bras3 ss) s') (opamp (ops3 ss) s' s)) (amp (kets3 ss) s))).
Proof. exact expectation3_dense. Qed.
Print Assumptions C07_expectation_dense.

(* density-operator path (MpDm._expectation_path): sum_{s',s,t} x[s',t] * O[s',s] * rho[s,t] *)
Theorem C07_expectation_dense_dm : forall (R : CRing) (ss : list (site4 R)),
  ss <> [] -> lastA R 1 ss = 1 -> lastB R 1 ss = 1 -> lastC R 1 ss = 1 ->
  expectation4 ss =
  sumcfg (map (@p4 R) ss) (fun s' => sumcfg (map (@p4 R) ss) (fun s => sumcfg (map (@q4 R) ss) (fun t =>
    rmul R (rmul R (chain4 (bras4 ss) s' t 0 0) (chain4 (ops4 ss) s' s 0 0)) (chain4 (kets4 ss) s t 0 0)))).
Proof. exact expectation4_dense. Qed.
Print Assumptions C07_expectation_dense_dm.

(* any cut: L-environment of xs dotted with the R-environment of ys is the expectation value of xs ++ ys *)
Theorem C07_expectation_any_cut : forall (R : CRing) (xs ys : list (site3 R)),
  xs ++ ys <> [] -> lastA3 R 1 (xs ++ ys) = 1 -> lastB3 R 1 (xs ++ ys) = 1 -> lastC3 R 1 (xs ++ ys) = 1 ->
  dot3 (lastA3 R 1 xs) (lastB3 R 1 xs) (lastC3 R 1 xs) (envL3 1 1 1 sentinel xs) (envR3 ys sentinel) =
  expectation3 (xs ++ ys).
Proof. exact cut3_expectation. Qed.
Print Assumptions C07_expectation_any_cut.

Theorem C07_expectation_any_cut_dm : forall (R : CRing) (xs ys : list (site4 R)),
  xs ++ ys <> [] -> lastA R 1 (xs ++ ys) = 1 -> lastB R 1 (xs ++ ys) = 1 -> lastC R 1 (xs ++ ys) = 1 ->
  dot3 (lastA R 1 xs) (lastB R 1 xs) (lastC R 1 xs) (envL4 1 1 1 sentinel xs) (envR4 ys sentinel) =
  expectation4 (xs ++ ys).
Proof. exact cut4_expectation. Qed.
Print Assumptions C07_expectation_any_cut_dm.

(* the executed (tabulating) models are the plain ones *)
Theorem C07_tabulated : forall (R : CRing) (ss : list (site3 R)), expectation3t ss = expectation3 ss.
Proof. exact expectation3t_eq. Qed.
Print Assumptions C07_tabulated.
Theorem C07_tabulated_dm : forall (R : CRing) (ss : list (site4 R)), expectation4t ss = expectation4 ss.
Proof. exact expectation4t_eq. Qed.
Print Assumptions C07_tabulated_dm.

(* ---------------------------------------------------------------- the cache plan, for ALL hash lists *)
(* every key of the frequency-sorted list is non-empty and all its proper prefixes occur strictly before it *)
Theorem C07_sorted_keys_prefix_closed : forall d (ms : list key),
  prefix_closed (map fst (sort (counter d ms))).
Proof. exact sorted_keys_prefix_closed. Qed.
Print Assumptions C07_sorted_keys_prefix_closed.

(* any truncation of a prefix-closed list is prefix closed; the plan (two `break`s) is a truncation *)
Theorem C07_truncation_prefix_closed : forall l m, prefix_closed l -> prefix_closed (firstn m l).
Proof. exact prefix_closed_firstn. Qed.
Print Assumptions C07_truncation_prefix_closed.

Theorem C07_plan_is_truncation : forall d ms nmps,
  exists m, plan d ms nmps = firstn m (map fst (sort (counter d ms))).
Proof. exact plan_is_truncation. Qed.
Print Assumptions C07_plan_is_truncation.

Theorem C07_freq_plan_prefix_closed : forall d ms nmps, prefix_closed (plan d ms nmps).
Proof. exact freq_plan_prefix_closed. Qed.
Print Assumptions C07_freq_plan_prefix_closed.

(* what is cached: at most len(mps)+1 keys, each a prefix (suffix for R) shared by at least two operators *)
Theorem C07_plan_length : forall d ms nmps, length (plan d ms nmps) <= S nmps.
Proof. exact plan_length. Qed.
Print Assumptions C07_plan_length.
Theorem C07_plan_keys : forall d ms nmps k, In k (plan d ms nmps) ->
  (exists m, In m ms /\ 1 <= length k <= length m /\ k = firstn (length k) (dir d m)) /\
  2 <= count_occ kdec (flat_map (seqs d) ms) k.
Proof. exact plan_keys_count. Qed.
Print Assumptions C07_plan_keys.

(* the dictionary construction never misses (`result[m_hashes[:-1]]` is always present) and the value stored
   under a key is the fold of the one-site contraction along the key *)
Theorem C07_dict_never_misses : forall (E : Type) stepc (init : E) d ms nmps,
  construct E stepc init d ms nmps =
  Some (([], init) :: map (fun k => (k, envkey E stepc init d nmps k)) (plan d ms nmps)).
Proof. exact construct_ok. Qed.
Print Assumptions C07_dict_never_misses.

(* for EVERY operator and ANY two dictionaries: cached-left length + middle + cached-right length = n, disjoint *)
Theorem C07_freq_split_partition : forall (E : Type) (lres rres : list (key * E)) (m : key),
  let n := length m in
  let lk := get_key E lres DL m None in
  let l_idx := get_idx DL n lk in
  let rk := get_key E rres DR m (Some (Z.to_nat (Z.of_nat n - l_idx - 1))) in
  let r_idx := get_idx DR n rk in
  (0 <= l_idx + 1 <= r_idx)%Z /\ (r_idx <= Z.of_nat n)%Z /\
  length lk + Z.to_nat (r_idx - (l_idx + 1)) + length rk = n /\
  lk = firstn (length lk) m /\ rk = firstn (length rk) (rev m).
Proof. exact freq_split_partition. Qed.
Print Assumptions C07_freq_split_partition.

(* abstract fast path: every returned value is "left fold up to a cut k, right fold from k" of that operator *)
Theorem C07_fast_abstract : forall (E Ob V : Type) stepo (init : E) (dflt : Ob) (dot : E -> E -> V) nmps (ms : list (hop Ob)),
  (forall m, In m ms -> length m = nmps) ->
  (forall h o o', In (h, o) (concat ms) -> In (h, o') (concat ms) -> o = o') ->
  exists vs, expectations_fast E Ob V stepo init dflt dot nmps ms = Some vs /\
    Forall2 (fun v m => exists k, k <= nmps /\ v = split_value E Ob V stepo init dot k (map snd m)) vs ms.
Proof. exact expectations_fast_split. Qed.
Print Assumptions C07_fast_abstract.

(* ---------------------------------------------------------------- fast = slow *)
(* expectations(mpos) = [expectation(mpo) for mpo in mpos] for EVERY operator list in EVERY order (the list is
   arbitrary), with shape-consistent operators and hash injectivity on the site matrices present *)
Theorem C07_fast_eq_slow : forall (R : CRing) ps (bra ket : list (nat * T3 R)) nmps (ms : list (hop (OpSite R))),
  wf_state R bra ket nmps ->
  (forall m, In m ms -> wf_op R nmps (map snd m)) ->
  (forall h o o', In (h, o) (concat ms) -> In (h, o') (concat ms) -> o = o') ->
  expectations_fast3 R ps bra ket nmps ms = Some (expectations_slow3 R ps bra ket ms).
Proof. exact expectations_fast3_eq_slow. Qed.
Print Assumptions C07_fast_eq_slow.

Theorem C07_slow_dense : forall (R : CRing) ps (bra ket : list (nat * T3 R)) nmps (ms : list (hop (OpSite R))),
  wf_state R bra ket nmps -> (forall m, In m ms -> wf_op R nmps (map snd m)) ->
  expectations_slow3 R ps bra ket ms = map (fun m => dense3 R (sites_from R ps bra ket 0 (map snd m))) ms.
Proof. exact expectations_slow3_dense. Qed.
Print Assumptions C07_slow_dense.

(* ---------------------------------------------------------------- reduced density matrices *)
(* rdm1_dense: calc_1site_rdm (as fixed by commit 7924df4 of /repo: `tensor.T`) is the partial trace
   rho[x,y] = sum over the configurations of all other sites of Psi[..x..] * conj(Psi[..y..]),
   for the site (p,d,t) between `left` and `right`, any bond dimensions, any gauge, unnormalised. *)
Theorem C07_rdm1_dense : forall (R : CRing) left p d (t : T3 R) right x y,
  lastdim d (kchain R right) = 1 ->
  rdm1 left (lastdim 1 (kchain R left)) p d t right x y =
  sumcfg (kdims R left) (fun sl => sumcfg (kdims R right) (fun sr =>
    rmul R (amp (kchain R (left ++ (p, d, t) :: right)) (sl ++ x :: sr))
           (rcj R (amp (kchain R (left ++ (p, d, t) :: right)) (sl ++ y :: sr))))).
Proof. exact rdm1_dense. Qed.
Print Assumptions C07_rdm1_dense.

Theorem C07_rdm1_tabulated : forall (R : CRing) left p d (t : T3 R) right x y,
  lastdim d (kchain R right) = 1 ->
  rdm1t left (ldim_of left) p d t right x y = rdm1 left (lastdim 1 (kchain R left)) p d t right x y.
Proof. exact rdm1t_eq. Qed.
Print Assumptions C07_rdm1_tabulated.

(* rdm2_dense: calc_2site_rdm (as fixed by 7924df4: `.T`), sites i < j with `mid` between them, entry
   row (x1,x2), column (y1,y2), is the dense double sum
       sum_{s',s} conj(Psi[s']) * W[s',s] * Psi[s],
   W = product over the sites of the entries of bond-dimension-one matrices: delta(s'_k,s_k) off the two sites,
   delta(s'_i,y1) delta(s_i,x1) at i, delta(s'_j,y2) delta(s_j,x2) at j  (`prodop` of `rdm2_sand`), i.e.
   <Psi| |y1 y2><x1 x2| |Psi> = the (x1 x2, y1 y2) entry of Tr_rest |Psi><Psi|.  (The collapse of the deltas into
   the explicit sum over the remaining sites is carried out in Coq for the one-site matrix only.) *)
Theorem C07_rdm2_dense : forall (R : CRing) left p1 d1 (t1 : T3 R) mid p2 d2 (t2 : T3 R) right x1 x2 y1 y2,
  lastdim d2 (kchain R right) = 1 ->
  x1 < p1 -> y1 < p1 -> x2 < p2 -> y2 < p2 ->
  rdm2 left (lastdim 1 (kchain R left)) p1 d1 t1 mid (lastdim d1 (kchain R mid)) p2 d2 t2 right x1 x2 y1 y2 =
  sumcfg (kdims R (kall R left p1 d1 t1 mid p2 d2 t2 right)) (fun s' =>
  sumcfg (kdims R (kall R left p1 d1 t1 mid p2 d2 t2 right)) (fun s =>
    rmul R (rmul R (rcj R (amp (kchain R (kall R left p1 d1 t1 mid p2 d2 t2 right)) s'))
                   (prodop R (rdm2_sand R left p1 d1 t1 mid p2 d2 t2 right x1 x2 y1 y2) s' s))
           (amp (kchain R (kall R left p1 d1 t1 mid p2 d2 t2 right)) s))).
Proof. exact rdm2_dense_w. Qed.
Print Assumptions C07_rdm2_dense.

(* the same value as an expectation value of the sandwich conj(Psi) | unit operators | Psi *)
Theorem C07_rdm2_as_expectation : forall (R : CRing) left p1 d1 (t1 : T3 R) mid p2 d2 (t2 : T3 R) right x1 x2 y1 y2,
  lastdim d2 (kchain R right) = 1 ->
  x1 < p1 -> y1 < p1 -> x2 < p2 -> y2 < p2 ->
  rdm2 left (lastdim 1 (kchain R left)) p1 d1 t1 mid (lastdim d1 (kchain R mid)) p2 d2 t2 right x1 x2 y1 y2 =
  dense3 R (rdm2_sand R left p1 d1 t1 mid p2 d2 t2 right x1 x2 y1 y2).
Proof. exact rdm2_dense. Qed.
Print Assumptions C07_rdm2_as_expectation.

Theorem C07_rdm2_tabulated : forall (R : CRing) left p1 d1 (t1 : T3 R) mid p2 d2 (t2 : T3 R) right x1 x2 y1 y2,
  lastdim d2 (kchain R right) = 1 ->
  rdm2t left (ldim_of left) p1 d1 t1 mid (lastdim d1 (kchain R mid)) p2 d2 t2 right x1 x2 y1 y2 =
  rdm2 left (lastdim 1 (kchain R left)) p1 d1 t1 mid (lastdim d1 (kchain R mid)) p2 d2 t2 right x1 x2 y1 y2.
Proof. exact rdm2t_eq. Qed.
Print Assumptions C07_rdm2_tabulated.

(* calc_edof_rdm: entry (i,j), i <= j, is the value delivered by `expectations` for a_i^+ a_j; the lower
   triangle is its conjugate (Hermitian completion) *)
Theorem C07_edof_rdm_spec : forall (R : CRing) n (es : list R) i j, i <= j ->
  edof_rdm n es i j = nth (tri_index n i j) es (r0 R) /\
  edof_rdm n es j i = (if Nat.eqb i j then nth (tri_index n i j) es (r0 R) else rcj R (nth (tri_index n i j) es (r0 R))).
Proof. exact edof_rdm_spec. Qed.
Print Assumptions C07_edof_rdm_spec.

(* entropies -- PARTIAL: only "a function of the reduced density matrix": equal RDMs give equal entropies,
   for every spectral function vn_entropy (eigh / log are external and not modelled).
   Full statement (not proved): calc_entropy("1site")[i] = -Tr rho_i ln rho_i with rho_i normalised, same for
   2-site; mutual = (S_i + S_j - S_ij)/2; bond entropy = -sum s^2 ln s^2 over the Schmidt values of the cut. *)
Theorem C07_entropy_function_of_rdm_partial :
  forall (R : CRing) (A : Type) (vn_entropy : (nat -> nat -> R) -> A) (rho rho' : nat -> nat -> R),
  rho = rho' -> vn_entropy rho = vn_entropy rho'.
Proof. exact entropy_of_rdm_partial. Qed.
Print Assumptions C07_entropy_function_of_rdm_partial.

(* ================================================================= second wave *)
(* rdm2_dense in explicit partial-trace form (the delta weights collapsed), any pair i < j, any chain length:
   rho[(x1,x2),(y1,y2)] = sum over the configurations of ALL OTHER sites of Psi[..x1..x2..] * conj(Psi[..y1..y2..]) *)
Theorem C07_rdm2_ptrace : forall (R : CRing) left p1 d1 (t1 : T3 R) mid p2 d2 (t2 : T3 R) right x1 x2 y1 y2,
  lastdim d2 (kchain R right) = 1 ->
  x1 < p1 -> y1 < p1 -> x2 < p2 -> y2 < p2 ->
  rdm2 left (lastdim 1 (kchain R left)) p1 d1 t1 mid (lastdim d1 (kchain R mid)) p2 d2 t2 right x1 x2 y1 y2 =
  sumcfg (kdims R left) (fun sl => sumcfg (kdims R mid) (fun sm => sumcfg (kdims R right) (fun sr =>
    rmul R (amp (kchain R (left ++ (p1, d1, t1) :: mid ++ (p2, d2, t2) :: right)) (sl ++ x1 :: sm ++ x2 :: sr))
           (rcj R (amp (kchain R (left ++ (p1, d1, t1) :: mid ++ (p2, d2, t2) :: right)) (sl ++ y1 :: sm ++ y2 :: sr)))))).
Proof. exact rdm2_ptrace. Qed.
Print Assumptions C07_rdm2_ptrace.

(* rank-4 (MpDm / purified) sites: the ndim == 4 branches.  rho[x,y] = trace over the other sites AND all ancillas *)
Theorem C07_rdm1_dm_ptrace : forall (R : CRing) left p q d (t : T4 R) right x y,
  lastdim d (kchain4 R right) = 1 -> x < p -> y < p ->
  rdm1_4 left (lastdim 1 (kchain4 R left)) p q d t right x y =
  sumcfg (kdims4 R left) (fun sl => sumcfg (kdims4 R right) (fun sr =>
    sumcfg (qdims4 R (left ++ (p, q, d, t) :: right)) (fun anc =>
      rmul R (chain4 (kchain4 R (left ++ (p, q, d, t) :: right)) (sl ++ x :: sr) anc 0 0)
             (rcj R (chain4 (kchain4 R (left ++ (p, q, d, t) :: right)) (sl ++ y :: sr) anc 0 0))))).
Proof. exact rdm1_4_ptrace. Qed.
Print Assumptions C07_rdm1_dm_ptrace.

Theorem C07_rdm2_dm_ptrace : forall (R : CRing) left p1 q1 d1 (t1 : T4 R) mid p2 q2 d2 (t2 : T4 R) right x1 x2 y1 y2,
  lastdim d2 (kchain4 R right) = 1 ->
  x1 < p1 -> y1 < p1 -> x2 < p2 -> y2 < p2 ->
  rdm2_4 left (lastdim 1 (kchain4 R left)) p1 q1 d1 t1 mid (lastdim d1 (kchain4 R mid)) p2 q2 d2 t2 right x1 x2 y1 y2 =
  sumcfg (kdims4 R left) (fun sl => sumcfg (kdims4 R mid) (fun sm => sumcfg (kdims4 R right) (fun sr =>
    sumcfg (qdims4 R (left ++ (p1, q1, d1, t1) :: mid ++ (p2, q2, d2, t2) :: right)) (fun anc =>
      rmul R (chain4 (kchain4 R (left ++ (p1, q1, d1, t1) :: mid ++ (p2, q2, d2, t2) :: right)) (sl ++ x1 :: sm ++ x2 :: sr) anc 0 0)
             (rcj R (chain4 (kchain4 R (left ++ (p1, q1, d1, t1) :: mid ++ (p2, q2, d2, t2) :: right)) (sl ++ y1 :: sm ++ y2 :: sr) anc 0 0)))))).
Proof. exact rdm2_4_ptrace. Qed.
Print Assumptions C07_rdm2_dm_ptrace.

Theorem C07_rdm1_dm_tabulated : forall (R : CRing) left p q d (t : T4 R) right x y,
  lastdim d (kchain4 R right) = 1 ->
  rdm1t_4 left (ldim_of4 left 1) p q d t right x y = rdm1_4 left (lastdim 1 (kchain4 R left)) p q d t right x y.
Proof. exact rdm1t_4_eq. Qed.
Print Assumptions C07_rdm1_dm_tabulated.

Theorem C07_rdm2_dm_tabulated : forall (R : CRing) left p1 q1 d1 (t1 : T4 R) mid p2 q2 d2 (t2 : T4 R) right x1 x2 y1 y2,
  lastdim d2 (kchain4 R right) = 1 ->
  rdm2t_4 left (ldim_of4 left 1) p1 q1 d1 t1 mid (ldim_of4 mid d1) p2 q2 d2 t2 right x1 x2 y1 y2 =
  rdm2_4 left (lastdim 1 (kchain4 R left)) p1 q1 d1 t1 mid (lastdim d1 (kchain4 R mid)) p2 q2 d2 t2 right x1 x2 y1 y2.
Proof. exact rdm2t_4_eq. Qed.
Print Assumptions C07_rdm2_dm_tabulated.

(* fast = slow composed for the MpDm expectation path (contract_one_site with ms.ndim == 4) *)
Theorem C07_fast_eq_slow_dm : forall (R : CRing) ps qs (bra ket : list (nat * T4 R)) nmps (ms : list (hop (OpSite R))),
  wf_state4 R bra ket nmps ->
  (forall m, In m ms -> wf_op R nmps (map snd m)) ->
  (forall h o o', In (h, o) (concat ms) -> In (h, o') (concat ms) -> o = o') ->
  expectations_fast4 R ps qs bra ket nmps ms = Some (expectations_slow4 R ps qs bra ket ms).
Proof. exact expectations_fast4_eq_slow. Qed.
Print Assumptions C07_fast_eq_slow_dm.

Theorem C07_slow_dense_dm : forall (R : CRing) ps qs (bra ket : list (nat * T4 R)) nmps (ms : list (hop (OpSite R))),
  wf_state4 R bra ket nmps -> (forall m, In m ms -> wf_op R nmps (map snd m)) ->
  expectations_slow4 R ps qs bra ket ms = map (fun m => dense4 R (sites_from4 R ps qs bra ket 0 (map snd m))) ms.
Proof. exact expectations_slow4_dense. Qed.
Print Assumptions C07_slow_dense_dm.

(* occupations: e_occupations / ph_occupations are expectations (default bra conj(Psi)) of number-operator MPOs.
   ASSUMED about such an MPO `os` (checked by exact correspondence on the MPOs Renormalizer builds, see harness):
   its dense matrix is diagonal with entries n(s).  Then the value is sum_s n(s) |Psi(s)|^2. *)
Theorem C07_occupation_dense : forall (R : CRing) (ks : list (ksite R)) (os : list (nat * T4 R)) (n : list nat -> R),
  length os = length ks -> ks <> [] ->
  lastdim 1 (kchain R ks) = 1 -> lastdim 1 os = 1 ->
  (forall s' s, Forall2 lt s' (kdims R ks) -> Forall2 lt s (kdims R ks) -> opamp os s' s = rmul R (deltas R s' s) (n s)) ->
  expectation3 (osand R ks os) =
  sumcfg (kdims R ks) (fun s => rmul R (n s) (rmul R (rcj R (amp (kchain R ks) s)) (amp (kchain R ks) s))).
Proof. exact occupation_dense. Qed.
Print Assumptions C07_occupation_dense.

(* bond entropy input -- PARTIAL.  With Psi(sl,sr) = sum_a U(sl,a) sigma_a V(a,sr), U^+U = 1, V V^+ = 1 (the form the
   lossless canonical sweep produces; sigma = the recorded singular values), the dense Gram matrix of the left block
   G(sl,sl') = sum_sr Psi(sl,sr) conj Psi(sl',sr) is  U diag(sigma conj sigma) U^+  and every sigma_a conj sigma_a is an
   eigenvalue of G with eigenvector U(.,a).  G depends on the dense state only.  Not formalised: uniqueness of the
   spectrum (so that sigma is *determined* by G), and the entropy formula itself. *)
Theorem C07_bond_gram_decomp_partial : forall (R : CRing) (Dr : list nat) (D : nat) (U : list nat -> nat -> R)
    (V : nat -> list nat -> R) (sg : nat -> R),
  (forall a a', a < D -> a' < D -> sumcfg Dr (fun sr => rmul R (V a sr) (rcj R (V a' sr))) = dl R a a') ->
  forall sl sl', gram R Dr (psi_cut R D U V sg) sl sl' =
    sumn D (fun a => rmul R (rmul R (U sl a) (rmul R (sg a) (rcj R (sg a)))) (rcj R (U sl' a))).
Proof. exact gram_decomp. Qed.
Print Assumptions C07_bond_gram_decomp_partial.

Theorem C07_bond_gram_eigen_partial : forall (R : CRing) (Dl Dr : list nat) (D : nat) (U : list nat -> nat -> R)
    (V : nat -> list nat -> R) (sg : nat -> R),
  (forall a a', a < D -> a' < D -> sumcfg Dl (fun sl => rmul R (rcj R (U sl a)) (U sl a')) = dl R a a') ->
  (forall a a', a < D -> a' < D -> sumcfg Dr (fun sr => rmul R (V a sr) (rcj R (V a' sr))) = dl R a a') ->
  forall sl a, a < D ->
  sumcfg Dl (fun sl' => rmul R (gram R Dr (psi_cut R D U V sg) sl sl') (U sl' a)) =
  rmul R (rmul R (sg a) (rcj R (sg a))) (U sl a).
Proof. exact gram_eigen. Qed.
Print Assumptions C07_bond_gram_eigen_partial.

(* the same for a chain cut by chain3_app: U = amplitudes of the left block, sigma * V = amplitudes of the right block *)
Theorem C07_bond_gram_chain_partial : forall (R : CRing) (left right : list (nat * T3 R)) (Dl Dr : list nat)
    (V : nat -> list nat -> R) (sg : nat -> R),
  length Dl = length left ->
  (forall a sr, a < lastdim 1 left -> chain3 right sr a 0 = rmul R (sg a) (V a sr)) ->
  (forall a a', a < lastdim 1 left -> a' < lastdim 1 left ->
      sumcfg Dl (fun sl => rmul R (rcj R (chain3 left sl 0 a)) (chain3 left sl 0 a')) = dl R a a') ->
  (forall a a', a < lastdim 1 left -> a' < lastdim 1 left ->
      sumcfg Dr (fun sr => rmul R (V a sr) (rcj R (V a' sr))) = dl R a a') ->
  forall sl a, Forall2 lt sl Dl -> a < lastdim 1 left ->
  sumcfg Dl (fun sl' => rmul R (gram R Dr (fun x y => amp (left ++ right) (x ++ y)) sl sl') (chain3 left sl' 0 a)) =
  rmul R (rmul R (sg a) (rcj R (sg a))) (chain3 left sl 0 a).
Proof. exact bond_gram_chain. Qed.
Print Assumptions C07_bond_gram_chain_partial.

(* ================================================================= the observable list is an input only *)
(* Mps.expectations converts Op / OpSum entries into a fresh list; the caller's list (second component of the modelled
   call) is returned unchanged, a second call with the same list behaves like a call with a fresh copy, and every
   value is the cut value of the operator built for THE CURRENT model from that entry: it depends on
   (state, model, entry) only.  The correspondence (oracle stream `shared-list`) checks on the real code that the list
   holds the same objects after the call and that the values on several models equal the dense kron references. *)
Theorem C07_call_leaves_list : forall (E Ob V Sym Mdl St : Type) build stepo (init : E) (dflt : Ob) (dot : E -> E -> V)
    (mdl : Mdl) (st : St) nmps (lst : list (entry Ob Sym)),
  snd (expectations_call E Ob V Sym Mdl St build stepo init dflt dot mdl st nmps lst) = lst.
Proof. exact call_frame. Qed.
Print Assumptions C07_call_leaves_list.

Theorem C07_two_calls_independent : forall (E Ob V Sym Mdl St : Type) build stepo (init : E) (dflt : Ob) (dot : E -> E -> V)
    (mA : Mdl) (sA : St) nA (mB : Mdl) (sB : St) nB (lst : list (entry Ob Sym)),
  two_calls E Ob V Sym Mdl St build stepo init dflt dot mA sA nA mB sB nB lst =
  (fst (expectations_call E Ob V Sym Mdl St build stepo init dflt dot mA sA nA lst),
   fst (expectations_call E Ob V Sym Mdl St build stepo init dflt dot mB sB nB lst), lst).
Proof. exact two_calls_independent. Qed.
Print Assumptions C07_two_calls_independent.

Theorem C07_call_values : forall (E Ob V Sym Mdl St : Type) build stepo (init : E) (dflt : Ob) (dot : E -> E -> V)
    (mdl : Mdl) (st : St) nmps (lst : list (entry Ob Sym)),
  (forall x, In x lst -> length (convert Ob Sym Mdl build mdl x) = nmps) ->
  (forall h o o', In (h, o) (concat (map (convert Ob Sym Mdl build mdl) lst)) ->
                  In (h, o') (concat (map (convert Ob Sym Mdl build mdl) lst)) -> o = o') ->
  exists vs, fst (expectations_call E Ob V Sym Mdl St build stepo init dflt dot mdl st nmps lst) = Some vs /\
    Forall2 (fun v x => exists k, k <= nmps /\
               v = split_value E Ob V (stepo st) init dot k (map snd (convert Ob Sym Mdl build mdl x))) vs lst.
Proof. exact call_values. Qed.
Print Assumptions C07_call_values.

(* ---------------------------------------------------------------- non-vacuity *)
Local Open Scope Z_scope.
(* a two-site integer state, bond dimension two, and four operators Z1, Z2, Z1 Z2, Z2 (one repeated) *)
Definition ex_ps : list nat := [2; 2]%nat.
Definition ex_ket : list (nat * T3 ZRing) :=
  [(2%nat, @of3 ZRing [[[1; 2]; [0; 1]]]); (1%nat, @of3 ZRing [[[1]; [0]]; [[2]; [1]]])].
Definition ex_Z : OpSite ZRing := (1%nat, 1%nat, @of4 ZRing [[[[1]; [0]]; [[0]; [-1]]]]).
Definition ex_I : OpSite ZRing := (1%nat, 1%nat, @of4 ZRing [[[[1]; [0]]; [[0]; [1]]]]).
Definition ex_ms : list (hop (OpSite ZRing)) :=
  [[(11, ex_Z); (10, ex_I)]; [(10, ex_I); (11, ex_Z)]; [(11, ex_Z); (11, ex_Z)]; [(10, ex_I); (11, ex_Z)]].

Example C07_ex_hypotheses :
  wf_state ZRing ex_ket ex_ket 2 /\ (forall m, In m ex_ms -> wf_op ZRing 2 (map snd m)) /\
  (forall h o o', In (h, o) (concat ex_ms) -> In (h, o') (concat ex_ms) -> o = o').
Proof.
  split; [split; [lia|split; reflexivity]|]. split.
  - intros m Hm. cbn in Hm. repeat (destruct Hm as [<-|Hm]; [repeat split; reflexivity|]). destruct Hm.
  - intros h o o' H1 H2. cbn in H1, H2.
    repeat (destruct H1 as [H1|H1]; [inversion H1; subst; clear H1;
      repeat (destruct H2 as [H2|H2]; [inversion H2; subst; reflexivity || discriminate|]); destruct H2|]).
    destruct H1.
Qed.

(* the fast path caches ([11]), ([10]), ([10;11]) on the left and ([11]), ([11;10]) on the right; values are non-trivial *)
Example C07_ex_values :
  expectations_fast3 ZRing ex_ps ex_ket ex_ket 2 ex_ms = Some (expectations_slow3 ZRing ex_ps ex_ket ex_ket ex_ms) /\
  expectations_slow3 ZRing ex_ps ex_ket ex_ket ex_ms = [24; 24; 18; 24] /\
  plan DL (map (hashes_of (OpSite ZRing)) ex_ms) 2 = [[11]; [10]; [10; 11]] /\
  plan DR (map (hashes_of (OpSite ZRing)) ex_ms) 2 = [[11]; [11; 10]].
Proof. vm_compute. repeat split; reflexivity. Qed.

(* the transposition repaired by commit 7924df4 is visible over the Gaussian integers: for the one-site
   state (1, i) the (0,1) and (1,0) entries of the partial trace differ, so returning the transpose was wrong *)
Example C07_rdm1_transpose_differs :
  let t : T3 GiRing := @of3 GiRing [[[(1, 0)]; [(0, 1)]]] in
  rdm1 (R := GiRing) [] 1 2 1 t [] 0 1 = (0, -1) /\ rdm1 (R := GiRing) [] 1 2 1 t [] 1 0 = (0, 1).
Proof. vm_compute. split; reflexivity. Qed.

(* ---- non-vacuity of the second-wave hypotheses *)
Definition ex_ket4 : list (nat * T4 ZRing) :=
  [(2%nat, @of4 ZRing [[[[1; 2]; [0; 1]]; [[1; 0]; [2; 1]]]]); (1%nat, @of4 ZRing [[[[1]; [0]]; [[2]; [1]]]; [[[0]; [1]]; [[1]; [1]]]])].
Example C07_ex_dm :
  wf_state4 ZRing ex_ket4 ex_ket4 2 /\
  expectations_fast4 ZRing ex_ps ex_ps ex_ket4 ex_ket4 2 ex_ms = Some (expectations_slow4 ZRing ex_ps ex_ps ex_ket4 ex_ket4 ex_ms) /\
  expectations_slow4 ZRing ex_ps ex_ps ex_ket4 ex_ket4 ex_ms = [-12; -54; 12; -54].
Proof. split; [split; [lia|split; reflexivity]|]. vm_compute. split; reflexivity. Qed.

(* a number operator diag(0,1) on a one-site state (3,2): the diagonality assumption holds, occupation = 2*2 = 4 *)
Definition ex_k1 : list (ksite ZRing) := [(2%nat, 1%nat, @of3 ZRing [[[3]; [2]]])].
Definition ex_N : list (nat * T4 ZRing) := [(1%nat, @of4 ZRing [[[[0]; [0]]; [[0]; [1]]]])].
Example C07_ex_occupation :
  (forall s' s, Forall2 lt s' (kdims ZRing ex_k1) -> Forall2 lt s (kdims ZRing ex_k1) ->
     opamp ex_N s' s = rmul ZRing (deltas ZRing s' s) (Z.of_nat (nth 0 s 0%nat))) /\
  expectation3 (osand ZRing ex_k1 ex_N) = 4.
Proof.
  split; [|vm_compute; reflexivity].
  intros s' s H1 H2. cbn in H1, H2.
  inversion H1 as [|a ? s1 ? Ha Hs1]; subst. inversion Hs1; subst.
  inversion H2 as [|b ? s2 ? Hb Hs2]; subst. inversion Hs2; subst.
  destruct a as [|[|a]]; [| |lia]; (destruct b as [|[|b]]; [| |lia]); vm_compute; reflexivity.
Qed.

(* isometries for the bond statement: U(sl,a) = delta(sl_0,a), V(a,sr) = delta(a,sr_0), sigma = (2,3) *)
Example C07_ex_bond :
  let U := fun (sl : list nat) (a : nat) => dl ZRing (nth 0 sl 0%nat) a in
  let V := fun (a : nat) (sr : list nat) => dl ZRing a (nth 0 sr 0%nat) in
  (forall a a', (a < 2)%nat -> (a' < 2)%nat -> sumcfg [2%nat] (fun sl => rmul ZRing (rcj ZRing (U sl a)) (U sl a')) = dl ZRing a a') /\
  (forall a a', (a < 2)%nat -> (a' < 2)%nat -> sumcfg [2%nat] (fun sr => rmul ZRing (V a sr) (rcj ZRing (V a' sr))) = dl ZRing a a') /\
  gram ZRing [2%nat] (psi_cut ZRing 2 U V (fun a => if Nat.eqb a 0 then 2 else 3)) [1%nat] [1%nat] = 9.
Proof.
  cbn zeta. repeat split.
  - intros a a' Ha Ha'. destruct a as [|[|a]]; [| |lia]; (destruct a' as [|[|a']]; [| |lia]); vm_compute; reflexivity.
  - intros a a' Ha Ha'. destruct a as [|[|a]]; [| |lia]; (destruct a' as [|[|a']]; [| |lia]); vm_compute; reflexivity.
Qed.
