(* C01 -- Automatic MPO construction is exact for every sum-of-products operator; site exchange.
   Only statements, closed by [exact], with Print Assumptions beneath, and Examples showing that the
   hypotheses are satisfiable.  R ranges over all commutative rings (Base/CRing.v), `iszero` over all
   exact-zero tests (contract: iszero x = true -> x = 0), tables / witnesses / numbers of sites over
   everything.  Coefficient functions (`coeff`, `coeffT`, `den_table`) give the coefficient of every
   string of primary operators, so equal coefficient functions mean equal operators for EVERY
   assignment of local matrices (any model, any basis sets). *)
From Coq Require Import List Arith Bool ZArith Lia.
From RV Require Import Base.CRing Model.SymMpo Proofs.SymMpoProofs.
Import ListNotations.

(* ---- _deduplicate_table: merging duplicate rows (exactly cancelling ones disappear) preserves the
        coefficient of every operator string; the resulting rows are pairwise distinct *)
Theorem C01_dedup_den :
  forall (R : CRing) (iszero : R -> bool), (forall x, iszero x = true -> x = r0 R) ->
  forall (t : table R) (s : key), coeffT R (dedup R iszero t) s = coeffT R t s.
Proof. exact dedup_den. Qed.
Print Assumptions C01_dedup_den.

Theorem C01_dedup_rows_distinct :
  forall (R : CRing) (iszero : R -> bool) (t : table R), NoDup (map fst (dedup R iszero t)).
Proof. exact dedup_nodup. Qed.
Print Assumptions C01_dedup_rows_distinct.

(* the table built from a term list is a function of the list as a MULTISET of values: the order of the terms is
   irrelevant, and n copies of a term (equal values -- object identity cannot matter) contribute n times its factor *)
Theorem C01_table_multiset :
  forall (R : CRing) (iszero : R -> bool), (forall x, iszero x = true -> x = r0 R) ->
  forall (t1 t2 : table R) (s : key), Permutation.Permutation t1 t2 ->
  coeffT R (dedup R iszero t1) s = coeffT R (dedup R iszero t2) s.
Proof. exact table_multiset. Qed.
Print Assumptions C01_table_multiset.

Theorem C01_dedup_multiplicity :
  forall (R : CRing) (iszero : R -> bool), (forall x, iszero x = true -> x = r0 R) ->
  forall (k : key) (f : R) (n : nat) (t : table R) (s : key),
  coeffT R (dedup R iszero (repeat (k, f) n ++ t)) s
  = radd R (nmul R n (if keqb k s then f else r0 R)) (coeffT R t s).
Proof. exact dedup_multiplicity. Qed.
Print Assumptions C01_dedup_multiplicity.

(* ---- _decompose_graph: for EVERY vertex cover (rsel, csel) of the incidence relation of the table
        and EVERY order of the selected rows / columns, the pair (bond-so-far D, remaining table)
        denotes the same operator before and after the site is split off *)
Theorem C01_one_site_graph_sound :
  forall (R : CRing) (t : table R) (rsel csel : list key) (D : den R) (l : list nat) (o : nat) (r : key),
  NoDup rsel -> NoDup csel -> covers R t rsel csel ->
  den_table R (dnext R D (fst (decompose_graph R t rsel csel))) (snd (decompose_graph R t rsel csel)) (o :: l) r
  = den_table R D t l (o :: r).
Proof. exact one_site_graph_sound_any. Qed.
Print Assumptions C01_one_site_graph_sound.

(* ---- _decompose_qr, relative to an exact factorisation witness Gamma = q . r2 over the ring
        (r2 = r[:rank, argsort p], i.e. Gamma.P = q.r); zero entries of q / r2 are dropped *)
Theorem C01_one_site_qr_sound :
  forall (R : CRing) (iszero : R -> bool), (forall x, iszero x = true -> x = r0 R) ->
  forall (t : table R) (qrows qcols : list key) (q r2 : mat R) (rank : nat) (D : den R) (l : list nat) (o : nat) (r : key),
  NoDup qrows -> NoDup qcols -> incl (map (rk R) t) qrows -> incl (map (ck R) t) qcols ->
  qr_exact R t qrows qcols q r2 rank ->
  den_table R (dnext R D (qr_out_ops R iszero qrows q rank)) (qr_new_table R iszero qcols r2 rank) (o :: l) r
  = den_table R D t l (o :: r).
Proof. exact one_site_qr_sound. Qed.
Print Assumptions C01_one_site_qr_sound.

(* ---- the sweep over the sites (any mixture of graph / QR steps, any number of sites) *)
Theorem C01_sweep_sound :
  forall (R : CRing) (iszero : R -> bool), (forall x, iszero x = true -> x = r0 R) ->
  forall (ws : list (wit R)) (t : table R) (D : den R) (l s : list nat) (r : key),
  length s = length ws -> sweep_ok R iszero ws t ->
  den_table R (dchain R D (fst (sweep R iszero ws t))) (snd (sweep R iszero ws t)) (rev s ++ l) r
  = den_table R D t l (s ++ r).
Proof. exact sweep_sound. Qed.
Print Assumptions C01_sweep_sound.

(* ---- construct_symbolic_mpo (deduplication, single-row fast path or the sweep, final assertion):
        the coefficient function of the constructed symbolic MPO is that of the term list minus the
        offset on the identity string -- for every string, strings of the wrong length included.
        Graph algorithms: relative to cover validity (C20 + the run-time witness check);
        QR: relative to exact factorisations. *)
Theorem C01_construct_sound :
  forall (R : CRing) (iszero : R -> bool), (forall x, iszero x = true -> x = r0 R) ->
  forall (terms : table R) (offset : R) (idstr : key) (ws : list (wit R)) (bs : list (bond R)) (n : nat),
  0 < n -> (forall x, In x terms -> length (fst x) = n) -> length idstr = n ->
  (length (terms_to_table R iszero terms (ropp R offset) idstr) <> 1 ->
     length ws = n /\ sweep_ok R iszero ws (extend R (terms_to_table R iszero terms (ropp R offset) idstr))) ->
  construct R iszero terms (ropp R offset) idstr ws = Some bs ->
  forall s, coeff R bs s = rsub R (coeffT R terms s) (if keqb s idstr then offset else r0 R).
Proof. exact construct_sound_offset. Qed.
Print Assumptions C01_construct_sound.

(* the boolean witness check evaluated by the tie implies the hypothesis `sweep_ok` *)
Theorem C01_witness_check_sound :
  forall (R : CRing) (iszero : R -> bool), (forall x, iszero x = true -> x = r0 R) ->
  forall (ws : list (wit R)) (t : table R), sweep_okb R iszero ws t = true -> sweep_ok R iszero ws t.
Proof. exact sweep_okb_sound. Qed.
Print Assumptions C01_witness_check_sound.

(* ---- unique_rows_invariant: the rows of the new table stay pairwise distinct, for both
        decompositions (this is what makes the code's sparse incidence matrix well defined:
        coo_matrix(...).tocsr() would SUM duplicate coordinates, whose data are term indices) *)
Theorem C01_unique_rows_graph :
  forall (R : CRing) (t : table R) (rsel csel : list key),
  NoDup (map fst t) -> NoDup csel -> NoDup (map fst (snd (decompose_graph R t rsel csel))).
Proof. exact unique_rows_graph. Qed.
Print Assumptions C01_unique_rows_graph.

Theorem C01_unique_rows_qr :
  forall (R : CRing) (iszero : R -> bool) (qcols : list key) (r2 : mat R) (rank : nat),
  NoDup qcols -> NoDup (map fst (qr_new_table R iszero qcols r2 rank)).
Proof. exact unique_rows_qr. Qed.
Print Assumptions C01_unique_rows_qr.

(* ---- compose_symbolic_mo: multiplying the row vector of the previous bond into the symbolic matrix
        of a site is the chain denotation of the out-op list *)
Theorem C01_compose_den :
  forall (R : CRing) (D : den R) (nin : nat) (b : bond R) (i : nat) (s : list nat),
  bond_wf R nin b -> vnext R D nin (compose_mo R nin b) i s = dnext R D b i s.
Proof. exact compose_den. Qed.
Print Assumptions C01_compose_den.

(* ---- what the tie's exact check of the implementation's exported MPO establishes *)
Theorem C01_coeff_diff_sound :
  forall (R : CRing) (iszero : R -> bool), (forall x, iszero x = true -> x = r0 R) ->
  forall (bs : list (bond R)) (scale : R) (terms : table R),
  coeff_diff R iszero bs scale terms = [] -> forall s, coeff R bs s = rmul R scale (coeffT R terms s).
Proof. exact coeff_diff_sound. Qed.
Print Assumptions C01_coeff_diff_sound.

(* ---- swap_site: every operator of the right bond keeps its two-site coefficient function with the
        two site columns exchanged, for every denotation D1 of the left bond *)
Theorem C01_swap_sound :
  forall (R : CRing) (iszero : R -> bool), (forall x, iszero x = true -> x = r0 R) ->
  forall (nprim : nat) (b2 b3 nb2 nb3 : bond R) (ws : list (wit R)),
  swap_site R iszero nprim b2 b3 ws = Some (nb2, nb3) ->
  sweep_ok R iszero ws (dedup R iszero (swap_table R nprim b2 b3)) ->
  forall (D1 : den R) (i o1 o2 : nat) (l : list nat), i < length b3 ->
    dnext R (dnext R D1 nb2) nb3 i (o1 :: o2 :: l) = dnext R (dnext R D1 b2) b3 i (o2 :: o1 :: l).
Proof. exact swap_sound. Qed.
Print Assumptions C01_swap_sound.

(* ---- try_swap_site at the level of the whole operator: bonds pre ++ [b2; b3] ++ post become
        pre ++ [nb2; nb3] ++ post and every string keeps its coefficient with the operators of the two
        exchanged sites written in the new site order *)
Theorem C01_swap_mpo_sound :
  forall (R : CRing) (iszero : R -> bool), (forall x, iszero x = true -> x = r0 R) ->
  forall (nprim : nat) (pre post : list (bond R)) (b2 b3 nb2 nb3 : bond R) (ws : list (wit R)),
  swap_site R iszero nprim b2 b3 ws = Some (nb2, nb3) ->
  sweep_ok R iszero ws (dedup R iszero (swap_table R nprim b2 b3)) ->
  forall (spre spost : list nat) (o1 o2 : nat), length spost = length post ->
    coeff R (pre ++ nb2 :: nb3 :: post) (spre ++ o2 :: o1 :: spost)
    = coeff R (pre ++ b2 :: b3 :: post) (spre ++ o1 :: o2 :: spost).
Proof. exact swap_mpo_sound. Qed.
Print Assumptions C01_swap_mpo_sound.

(* ---- the QR hypothesis in the form the code documents, Gamma[:, p] = q . r  (p onto the columns):
        it implies the un-pivoted form used by C01_one_site_qr_sound with r2 = r[:, argsort p] *)
Theorem C01_qr_pivoted_exact :
  forall (R : CRing) (t : table R) (qrows qcols : list key) (q r : mat R) (p : list nat) (rank : nat),
  (forall k, k < length qcols -> In k p) ->
  (forall i rkey m, In (i, rkey) (enum_from 0 qrows) -> m < length p ->
     gamma R t rkey (nth (nth m p 0) qcols [])
     = SymMpo.lsum R (seq 0 rank) (fun l => rmul R (mget R q i l) (mget R r l m))) ->
  qr_exact R t qrows qcols q (unpivot R r p (length qcols)) rank.
Proof. exact qr_pivoted_exact. Qed.
Print Assumptions C01_qr_pivoted_exact.

(* ================================================================== second wave: bond dimensions (feeds C20) *)
(* every cut of a graph-built operator: number of bond operators = #selected rows + #selected columns
   = size of the witness cover *)
Theorem C01_sweep_bond_dims :
  forall (R : CRing) (iszero : R -> bool) (ws : list (wit R)) (t : table R), graph_sweep R ws = true ->
  bond_dims R (fst (sweep R iszero ws t))
  = map (fun w => match w with WG _ rs cs => cover_size rs cs | WQ _ _ _ _ _ _ => 0 end) ws.
Proof. exact sweep_bond_dims. Qed.
Print Assumptions C01_sweep_bond_dims.

(* every cut j, by induction over the sites: when the witnesses are minimum covers, the bond after site
   i+j+1 has at most as many operators as there are distinct right remainders (operators on the sites
   beyond the cut) in the ORIGINAL table t0 -- cs0 is any list containing every remainder.  The
   invariant `same_set (tails t) (remainders of t0)` (holds trivially for t = t0, i = 0) is the
   characterisation of the columns of every later table in terms of the original one. *)
Theorem C01_bond_le_cols :
  forall (R : CRing) (iszero : R -> bool) (ws : list (wit R)) (t t0 : table R) (i : nat),
  same_set (tails R t) (map (fun x => skipn (S i) (fst x)) t0) -> min_sweep R ws t ->
  forall (j : nat) (cs0 : list key), j < length ws ->
    (forall x, In x t0 -> In (skipn (S (S (i + j))) (fst x)) cs0) ->
    length (nth j (fst (sweep R iszero ws t)) []) <= length cs0.
Proof. exact bond_le_cols. Qed.
Print Assumptions C01_bond_le_cols.

Theorem C01_step_tails :
  forall (R : CRing) (t : table R) (rsel csel : list key),
  covers R t rsel csel -> incl csel (map (ck R) t) ->
  same_set (tails R (snd (decompose_graph R t rsel csel))) (map (ck R) t).
Proof. exact step_tails. Qed.
Print Assumptions C01_step_tails.

(* rows, every cut: bounded by the distinct row keys of the CURRENT table = distinct pairs
   (operator of the previous bond, operator on this site) *)
Theorem C01_bond_le_rows_current :
  forall (R : CRing) (iszero : R -> bool) (ws : list (wit R)) (t : table R),
  min_sweep R ws t -> forall (j : nat) (rs0 : list key), j < length ws ->
    (forall x, In x (nth j (sweep_tables R iszero ws t) []) -> In (rk R x) rs0) ->
    length (nth j (fst (sweep R iszero ws t)) []) <= length rs0.
Proof. exact bond_le_rows_current. Qed.
Print Assumptions C01_bond_le_rows_current.

(* left parts of the ORIGINAL table, EVERY cut (third wave; replaces the earlier `_partial` first-cut statement).
   (a) relative to a Koenig certificate at every step (a matching of the incidence relation with as many edges as
       the cover has vertices -- what bipartite_vertex_cover computes internally); invariant `left_inv`: the row keys
       of the table at site i map injectively to left parts of original terms whose right remainder is the row's
       column key;
   (b) for MINIMUM covers, the certificate being obtained from C20's Koenig theory (Proofs/CoverProofs.v) through the
       index graph of the incidence relation (`min_cover_has_cert`). *)
Theorem C01_bond_le_left_parts_cert :
  forall (R : CRing) (iszero : R -> bool) (ws : list (wit R)) (t0 : table R),
  (forall x0, In x0 t0 -> S (length ws) <= length (fst x0)) -> cert_sweep R ws t0 ->
  forall (j : nat) (ls0 : list key), j < length ws ->
    (forall x0, In x0 t0 -> In (firstn (S (S j)) (fst x0)) ls0) ->
    length (nth j (fst (sweep R iszero ws t0)) []) <= length ls0.
Proof. exact bond_le_left_parts. Qed.
Print Assumptions C01_bond_le_left_parts_cert.

Theorem C01_min_cover_has_cert :
  forall (R : CRing) (t : table R) (rs cs : list key),
  covers R t rs cs -> NoDup rs -> NoDup cs -> is_min_cover R t rs cs -> exists mt, matching_cert R t rs cs mt.
Proof. exact min_cover_has_cert. Qed.
Print Assumptions C01_min_cover_has_cert.

Theorem C01_bond_le_left_parts :
  forall (R : CRing) (iszero : R -> bool) (ws : list (wit R)) (t0 : table R),
  (forall x0, In x0 t0 -> S (length ws) <= length (fst x0)) -> min_sweep_nd R ws t0 ->
  forall (j : nat) (ls0 : list key), j < length ws ->
    (forall x0, In x0 t0 -> In (firstn (S (S j)) (fst x0)) ls0) ->
    length (nth j (fst (sweep R iszero ws t0)) []) <= length ls0.
Proof. exact bond_le_left_parts_min. Qed.
Print Assumptions C01_bond_le_left_parts.

(* the boolean certificate check evaluated by the tie (matchings computed by the harness for every logged cover) *)
Theorem C01_cert_check_sound :
  forall (R : CRing) (ws : list (wit R)) (mts : list (list (key * key))) (t : table R),
  cert_sweepb R ws mts t = true -> cert_sweep R ws t.
Proof. exact cert_sweepb_sound. Qed.
Print Assumptions C01_cert_check_sound.

(* in a cover with a certificate every selected column is matched to an unselected row *)
Theorem C01_cert_partner_col :
  forall (R : CRing) (t : table R) (rsel csel : list key) (mt : list (key * key)),
  covers R t rsel csel -> NoDup rsel -> NoDup csel -> matching_cert R t rsel csel mt ->
  forall c, In c csel -> exists r, In (r, c) mt /\ ~ In r rsel.
Proof. exact cert_partner_col. Qed.
Print Assumptions C01_cert_partner_col.

(* ================================================================== second wave: quantum-number labels (feeds C06) *)
(* all rows of the (deduplicated) term table have one entry per site and the same total charge q, the
   identity index 0 is uncharged  ==>  every summand of every bond operator carries the label stored for
   that operator (labels of the left parts) and qntot = q.  Graph algorithms and the fast path; one
   charge component (the code treats every component alike). *)
Theorem C01_mpo_qn_labels :
  forall (R : CRing) (iszero : R -> bool), (forall x, iszero x = true -> x = r0 R) ->
  forall (pq : nat -> Z) (terms : table R) (const : R) (idstr : key) (ws : list (wit R)) (bs : list (bond R)) (q : Z),
  pq 0 = 0%Z -> 0 < length ws ->
  (forall x, In x (terms_to_table R iszero terms const idstr) -> length (fst x) = length ws /\ charge pq (fst x) = q) ->
  (length (terms_to_table R iszero terms const idstr) <> 1 ->
     qn_sweep R ws (extend R (terms_to_table R iszero terms const idstr))) ->
  construct R iszero terms const idstr ws = Some bs ->
  labels_ok R pq [0%Z] bs /\ qntot_of R pq bs = q.
Proof. exact mpo_qn_labels. Qed.
Print Assumptions C01_mpo_qn_labels.

Theorem C01_qn_check_sound :
  forall (R : CRing) (ws : list (wit R)) (t : table R), qn_sweepb R ws t = true -> qn_sweep R ws t.
Proof. exact qn_sweepb_sound. Qed.
Print Assumptions C01_qn_check_sound.

(* ================================================================== third wave: swap_site with swap_jw = True (for C17) *)
(* The Jordan-Wigner rule is ABSTRACT: phi (p, q) = (p', q', c) for p = operator index on the old SECOND site
   (new first site), q = operator index on the old FIRST site; p', q' the indices under which the produced words
   are interned, c the sign.  nprim' >= nprim is the number of primary operators after interning (labels of the
   right bond are nprim' + i).  Strings are written latest site first, so the new two-site string is q' :: p' :: l
   and the old one p :: q :: l.  `dom` = any duplicate-free list containing the pairs (p, q) that occur in the
   expanded two-site table. *)
Theorem C01_swap_jw_sound :
  forall (R : CRing) (iszero : R -> bool), (forall x, iszero x = true -> x = r0 R) ->
  forall (nprim nprim' : nat) (phi : nat * nat -> nat * nat * R) (b2 b3 nb2 nb3 : bond R)
         (ws : list (wit R)) (dom : list (nat * nat)),
  nprim <= nprim' ->
  swap_site_jw R iszero nprim nprim' phi b2 b3 ws = Some (nb2, nb3) ->
  sweep_ok R iszero ws (map (jw_row R phi (nprim' - nprim)) (dedup R iszero (swap_table R nprim b2 b3))) ->
  NoDup dom -> pairs_in R (swap_table R nprim b2 b3) dom ->
  forall (D1 : den R) (i p' q' : nat) (l : list nat), i < length b3 ->
    dnext R (dnext R D1 nb2) nb3 i (q' :: p' :: l)
    = SymMpo.lsum R dom (fun pq => if pair_eqb (fst (phi pq)) (p', q')
                                   then rmul R (snd (phi pq)) (dnext R (dnext R D1 b2) b3 i (fst pq :: snd pq :: l))
                                   else r0 R).
Proof. exact swap_jw_sound. Qed.
Print Assumptions C01_swap_jw_sound.

(* ---- the instances the tie executes satisfy the contract of the zero test *)
Theorem C01_instances_ok :
  (forall x : ZRing, z_zero x = true -> x = r0 ZRing) /\ (forall x : GiRing, gi_zero x = true -> x = r0 GiRing).
Proof. exact (conj z_zero_sound gi_zero_sound). Qed.
Print Assumptions C01_instances_ok.

(* ================================================================== Examples (hypotheses satisfiable) *)
(* 1. the docstring table  2 a_1 a_2^+  +  3 a_2^+ a_3  +  4 a_1^+ a_3  (0 = I, 1 = a, 2 = a^+) with the
      covers of the docstring: all rows; row (0',2) and column (1,0); the last column *)
Definition ex1_terms : table ZRing := [([1; 2; 0], 2%Z); ([0; 2; 1], 3%Z); ([2; 0; 1], 4%Z)].
Definition ex1_ws : list (wit ZRing) :=
  [WG ZRing [[0; 1]; [0; 0]; [0; 2]] []; WG ZRing [[0; 2]] [[1; 0]]; WG ZRing [] [[0]]].
Example C01_ex_docstring :
  sweep_okb ZRing z_zero ex1_ws (extend ZRing (terms_to_table ZRing z_zero ex1_terms 0%Z [0; 0; 0])) = true
  /\ construct ZRing z_zero ex1_terms 0%Z [0; 0; 0] ex1_ws
     = Some [[[([0; 1], 1%Z)]; [([0; 0], 1%Z)]; [([0; 2], 1%Z)]];
             [[([0; 2], 1%Z)]; [([1; 2], 3%Z); ([2; 0], 4%Z)]];
             [[([0; 0], 2%Z); ([1; 1], 1%Z)]]]
  /\ map (fun s => coeff ZRing [[[([0; 1], 1%Z)]; [([0; 0], 1%Z)]; [([0; 2], 1%Z)]];
                                [[([0; 2], 1%Z)]; [([1; 2], 3%Z); ([2; 0], 4%Z)]];
                                [[([0; 0], 2%Z); ([1; 1], 1%Z)]]] s)
         [[1; 2; 0]; [0; 2; 1]; [2; 0; 1]; [0; 0; 0]; [1; 2; 1]] = [2; 3; 4; 0; 0]%Z.
Proof. vm_compute. repeat split; reflexivity. Qed.

(* 2. shared prefixes and a complementary operator, non-zero offset 5 (constant row -5):
      7 X_0 Y_1 + 11 X_0 Z_1 + 13 W_0 Z_1 - 5;  site 0: cover = row (0,X) + column (Z,0) + column (I,0) *)
Definition ex2_terms : table ZRing := [([2; 3], 7%Z); ([2; 4], 11%Z); ([5; 4], 13%Z)].
Definition ex2_ws : list (wit ZRing) := [WG ZRing [[0; 2]] [[4; 0]; [1; 0]]; WG ZRing [] [[0]]].
Example C01_ex_complementary :
  sweep_okb ZRing z_zero ex2_ws (extend ZRing (terms_to_table ZRing z_zero ex2_terms (-5)%Z [0; 1])) = true
  /\ construct ZRing z_zero ex2_terms (-5)%Z [0; 1] ex2_ws
     = Some [[[([0; 2], 1%Z)]; [([0; 5], 13%Z)]; [([0; 0], (-5)%Z)]];
             [[([0; 3], 7%Z); ([0; 4], 11%Z); ([1; 4], 1%Z); ([2; 1], 1%Z)]]]
  /\ coeff_diff ZRing z_zero [[[([0; 2], 1%Z)]; [([0; 5], 13%Z)]; [([0; 0], (-5)%Z)]];
                              [[([0; 3], 7%Z); ([0; 4], 11%Z); ([1; 4], 1%Z); ([2; 1], 1%Z)]]]
                1%Z (ex2_terms ++ [([0; 1], (-5)%Z)]) = [].
Proof. vm_compute. repeat split; reflexivity. Qed.

(* 3. a fully cancelling pair disappears, a partially cancelling one is merged; Gaussian factors *)
Example C01_ex_cancelling :
  dedup GiRing gi_zero [([1; 2], (2, 1)%Z); ([3; 0], (0, 4)%Z); ([1; 2], (-2, -1)%Z); ([3; 0], (1, -1)%Z)]
  = [([3; 0], (1, 3)%Z)].
Proof. vm_compute. reflexivity. Qed.

(* 4. an exact QR-type witness over Z:  Gamma = [[2,4],[1,2]] (rank 1) = q . r2 with q = [[2],[1]], r2 = [[1,2]] *)
Definition ex4_table : table ZRing := [([0; 1; 7; 0], 2%Z); ([0; 1; 8; 0], 4%Z); ([0; 2; 7; 0], 1%Z); ([0; 2; 8; 0], 2%Z)].
Example C01_ex_qr_witness :
  wit_okb ZRing z_zero ex4_table (WQ ZRing [[0; 1]; [0; 2]] [[7; 0]; [8; 0]] [[2%Z]; [1%Z]] [[1%Z; 2%Z]] 1) = true
  /\ step ZRing z_zero ex4_table (WQ ZRing [[0; 1]; [0; 2]] [[7; 0]; [8; 0]] [[2%Z]; [1%Z]] [[1%Z; 2%Z]] 1)
     = ([[([0; 1], 2%Z); ([0; 2], 1%Z)]], [([0; 7; 0], 1%Z); ([0; 8; 0], 2%Z)]).
Proof. vm_compute. split; reflexivity. Qed.

(* 5. swap_site on the last two sites of example 1 (labels 3.. for the single right-bond operator) *)
Example C01_ex_swap :
  exists ws nb2 nb3,
    swap_site ZRing z_zero 3 [[([0; 2], 1%Z)]; [([1; 2], 3%Z); ([2; 0], 4%Z)]] [[([0; 0], 2%Z); ([1; 1], 1%Z)]] ws = Some (nb2, nb3)
    /\ sweep_okb ZRing z_zero ws (dedup ZRing z_zero (swap_table ZRing 3 [[([0; 2], 1%Z)]; [([1; 2], 3%Z); ([2; 0], 4%Z)]]
                                                                      [[([0; 0], 2%Z); ([1; 1], 1%Z)]])) = true.
Proof.
  exists [WG ZRing [] [[0; 3; 0]; [2; 3; 0]]; WG ZRing [] [[3; 0]]; WG ZRing [] [[0]]].
  eexists. eexists. vm_compute. split; reflexivity.
Qed.

(* 6. hypotheses satisfiable: example 1 with charges I:0, a:-1, a^+:+1 -- all three terms have total charge 0 *)
Example C01_ex_qn :
  qn_sweepb ZRing ex1_ws (extend ZRing (terms_to_table ZRing z_zero ex1_terms 0%Z [0; 0; 0])) = true
  /\ graph_sweep ZRing ex1_ws = true
  /\ labels_chain ZRing (fun o => nth o [0; -1; 1]%Z 0%Z) [0%Z]
       [[[([0; 1], 1%Z)]; [([0; 0], 1%Z)]; [([0; 2], 1%Z)]];
        [[([0; 2], 1%Z)]; [([1; 2], 3%Z); ([2; 0], 4%Z)]];
        [[([0; 0], 2%Z); ([1; 1], 1%Z)]]] = [[-1; 0; 1]; [0; 1]; [0]]%Z.
Proof. vm_compute. repeat split; reflexivity. Qed.


(* 7. a minimum cover: two rows sharing one column -- the column alone; no cover of a non-empty table is smaller *)
Example C01_ex_min_sweep :
  min_sweep ZRing [WG ZRing [] [[5; 0]]] [([0; 1; 5; 0], 2%Z); ([0; 2; 5; 0], 3%Z)].
Proof.
  cbn [min_sweep]. repeat split.
  - intros x [<-|[<-|[]]]; right; left; reflexivity.
  - intros c [<-|[]]. left. reflexivity.
  - intros rs cs H. specialize (H _ (or_introl eq_refl)). unfold cover_size. cbn [length].
    destruct H as [H|H]; [destruct rs as [|r0 rs]|destruct cs as [|c0 cs]]; try (destruct H; fail); cbn [length]; lia.
Qed.

(* 8. swap_site_jw with the trivial rule (identity, sign 1) coincides with swap_site on example 5's data,
      and with a rule that maps (0,2) -> (2,0) with sign -1 it still returns *)
Example C01_ex_swap_jw :
  swap_site_jw ZRing z_zero 3 3 (fun pq => (fst pq, snd pq, 1%Z))
     [[([0; 2], 1%Z)]; [([1; 2], 3%Z); ([2; 0], 4%Z)]] [[([0; 0], 2%Z); ([1; 1], 1%Z)]]
     [WG ZRing [] [[0; 3; 0]; [2; 3; 0]]; WG ZRing [] [[3; 0]]; WG ZRing [] [[0]]]
  = swap_site ZRing z_zero 3 [[([0; 2], 1%Z)]; [([1; 2], 3%Z); ([2; 0], 4%Z)]] [[([0; 0], 2%Z); ([1; 1], 1%Z)]]
     [WG ZRing [] [[0; 3; 0]; [2; 3; 0]]; WG ZRing [] [[3; 0]]; WG ZRing [] [[0]]]
  /\ exists r, swap_site_jw ZRing z_zero 3 5 (phi_of_table ZRing [((0, 2), (4, 3, (-1)%Z))])
     [[([0; 2], 1%Z)]; [([1; 2], 3%Z); ([2; 0], 4%Z)]] [[([0; 0], 2%Z); ([1; 1], 1%Z)]]
     [WG ZRing [] [[3; 5; 0]; [2; 5; 0]; [0; 5; 0]]; WG ZRing [] [[5; 0]]; WG ZRing [] [[0]]] = Some r.
Proof. split; [vm_compute; reflexivity|]. eexists. vm_compute. reflexivity. Qed.

(* 9. Koenig certificates for the covers of example 1 (docstring table): site 0 three rows matched to three columns,
      site 1 one row + one column matched to two edges, site 2 the column matched to one edge *)
Example C01_ex_cert :
  cert_sweepb ZRing ex1_ws
    [[([0; 1], [2; 0; 0]); ([0; 0], [2; 1; 0]); ([0; 2], [0; 1; 0])];
     [([0; 2], [0; 0]); ([1; 2], [1; 0])];
     [([0; 0], [0])]]
    (extend ZRing (terms_to_table ZRing z_zero ex1_terms 0%Z [0; 0; 0])) = true.
Proof. vm_compute. reflexivity. Qed.

(* 10. three copies of one term next to another one: factor 3 * 2 = 6 *)
Example C01_ex_multiplicity :
  dedup ZRing z_zero (repeat ([1; 2], 2%Z) 3 ++ [([3; 0], 5%Z)]) = [([1; 2], 6%Z); ([3; 0], 5%Z)].
Proof. vm_compute. reflexivity. Qed.
