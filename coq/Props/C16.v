(* C16 -- Built-in basis sets and model builders realise their documented physics.
   Only statements, closed by [exact], with Print Assumptions beneath.

   Gen/ShoTable.v is regenerated from /repo/renormalizer/model/basis.py (BasisSHO.op_mat) on every run: each
   literal-named branch is  prefactor * (rational combination of ladder monomials),  prefactor =
   q * sqrt(omega)^sw * sqrt(2)^s2 * i^si.  Matrices live in the rational similarity picture (Model/Ladder.v):
   physical entry [m,n] = rational entry * sqrt(m!/n!) * prefactor.   [rmat e] is the rational matrix of a table
   entry (rational part of the prefactor included), [sc_key] the irrational part (sw, s2 mod 2, si mod 2) of its
   prefactor, [rprod K a b] the product of two entries summed over the first K levels.

   NOT proved here (see notes/C16.md): equality of the sine-DVR closed forms with the integrals over the analytic
   basis functions (only algebraic consequences: C16_sinedvr_integrals_partial), the general power formula beyond
   k <= 8, m,n <= 12 (C16_x_power_partial), the term lists of the model builders (dense oracle only). *)
From Coq Require Import QArith ZArith List String Bool Arith.
Import ListNotations.
From RV Require Import Model.Ladder Model.Pauli Model.SineDvr Model.Builders Model.BasisCopy Gen.ShoTable Gen.Builders Gen.BasisCopy
                       Proofs.LadderProofs Proofs.PauliProofs Proofs.SineDvrProofs Proofs.BuildersProofs Proofs.BasisCopyProofs.
Close Scope Q_scope.

(* ---- 1. a symbol written as a product denotes the matrix product in the written order -----------------------
   for every product symbol "A B" of the generated table (b b, b+ b+, b+ b, b b+, n, x^2, p^2, x p, p x, x dx,
   dx x, dx^2, dx dx), every truncation size N and all levels m, n < N:
     (a) the branch equals the product of the UNTRUNCATED factors (summed over any K >= N+1 levels), restricted
         to N levels;
     (b) the product of the factors TRUNCATED to N levels equals it except in the single entry (N-1, N-1), where
         it lacks  corner * N  (corner = prefactor * coefficient of b in A * coefficient of b+ in B). *)
Theorem C16_sho_product_symbols :
  forall sab sa sb, In (sab, sa, sb) product_symbols ->
  exists eab ea eb,
    lookup sab sho_table = Some eab /\ lookup sa sho_table = Some ea /\ lookup sb sho_table = Some eb /\
    sc_key (fst eab) = sc_key (sc_mul (fst ea) (fst eb)) /\
    (forall N K m n, m < N -> n < N -> N + 1 <= K -> (rmat eab m n == rprod K ea eb m n)%Q) /\
    (forall N m n, m < N -> n < N ->
       (rmat eab m n == rprod N ea eb m n
                        + (if (m + 1 =? N) && (n + 1 =? N) then corner ea eb * qn N else 0))%Q).
Proof. exact (fun sab sa sb H => sho_product_symbols (sab, sa, sb) H). Qed.
Print Assumptions C16_sho_product_symbols.

(* the four quadratic monomials of the table are the products of the untruncated ladder operators *)
Theorem C16_ladder_monomials :
  forall N K m n, m < N -> n < N -> N + 1 <= K ->
    (mmul K (mono_inf Mb) (mono_inf Mb) m n == mono_inf Mbb m n)%Q /\
    (mmul K (mono_inf Mbd) (mono_inf Mbd) m n == mono_inf Mbdbd m n)%Q /\
    (mmul K (mono_inf Mbd) (mono_inf Mb) m n == mono_inf Mbdb m n)%Q /\
    (mmul K (mono_inf Mb) (mono_inf Mbd) m n == mono_inf Mbbd m n)%Q.
Proof. exact ladder_monomials. Qed.
Print Assumptions C16_ladder_monomials.

(* sums: "b^\dagger+b", "b^\dagger-b" *)
Theorem C16_sho_sum_symbols :
  forall ss sg sa sb, In (ss, sg, sa, sb) sum_symbols ->
  exists es ea eb,
    lookup ss sho_table = Some es /\ lookup sa sho_table = Some ea /\ lookup sb sho_table = Some eb /\
    sc_key (fst es) = sc_key (fst ea) /\ sc_key (fst es) = sc_key (fst eb) /\
    forall m n, (rmat es m n == rmat ea m n + sg * rmat eb m n)%Q.
Proof. exact (fun ss sg sa sb H => sho_sum_symbols (ss, sg, sa, sb) H). Qed.
Print Assumptions C16_sho_sum_symbols.

(* scalar relations:  x = (b+ + b)/sqrt(2 omega),  p = i sqrt(omega/2) (b+ - b),  p = -i d/dx,  p^2 = -dx^2,
   "x p" = -i "x dx",  "p x" = -i "dx x",  n = b+ b,  "dx dx" = dx^2 *)
Theorem C16_sho_scalar_symbols :
  forall sa c sb, In (sa, c, sb) scalar_symbols ->
  exists ea eb,
    lookup sa sho_table = Some ea /\ lookup sb sho_table = Some eb /\
    sc_key (fst ea) = sc_key (sc_mul c (fst eb)) /\
    forall m n, (rmat ea m n == sc_rat (sc_mul c (fst eb)) * comb_inf (snd eb) m n)%Q.
Proof. exact (fun sa c sb H => sho_scalar_symbols (sa, c, sb) H). Qed.
Print Assumptions C16_sho_scalar_symbols.

(* ---- 1b. the prefactor algebra: the normal form (sc_rat, sc_key) and the product sc_mul agree with the arithmetic
   of the concrete field Q(sqrt 2, i) (4-tuples, k4_mul) -- PARTIAL: bounded sweep over the exponents
   sw in [-4,4], s2 in [-5,5], si in [-6,6] at sqrt(omega) = 2/3 and 5; sqrt2^2 = 2, i^2 = -1 in that field *)
Theorem C16_scalar_normal_form_partial :
  scal_nf_ok (2 # 3) = true /\ scal_nf_ok 5 = true /\
  k4_mul k4_t k4_t = k4_of 2 /\ k4_mul k4_i k4_i = k4_of (- (1)).
Proof. exact (conj (proj1 scal_normal_form_partial) (conj (proj2 scal_normal_form_partial) (conj (proj1 k4_units) (proj1 (proj2 k4_units))))). Qed.
Print Assumptions C16_scalar_normal_form_partial.

(* ---- 2. canonical commutator ---------------------------------------------------------------------------------
   the prefactors of "x p", "p x" and of x times p are  i * rational;  "x p" - "p x" = i 1 on ALL levels < N;
   for the factors truncated to N levels  x p - p x = i 1 on levels < N-1  and  i (1 - N)  at level N-1. *)
Theorem C16_sho_commutator :
  exists exp epx ex ep,
    lookup "x p"%string sho_table = Some exp /\ lookup "p x"%string sho_table = Some epx /\
    lookup "x"%string sho_table = Some ex /\ lookup "p"%string sho_table = Some ep /\
    sc_key (fst exp) = sc_key sc_i /\ sc_key (fst epx) = sc_key sc_i /\
    sc_key (sc_mul (fst ex) (fst ep)) = sc_key sc_i /\
    (forall m n, (rmat exp m n - rmat epx m n == if m =? n then 1 else 0)%Q) /\
    (forall N m n, m < N -> n < N ->
       (rprod N ex ep m n - rprod N ep ex m n ==
          if m =? n then (if m + 1 =? N then 1 - qn N else 1) else 0)%Q).
Proof. exact sho_commutator. Qed.
Print Assumptions C16_sho_commutator.

(* ---- 3. shifted origin: x(x0) = x(0) + x0, x^2(x0) = x^2(0) + 2 x0 x(0) + x0^2, p, p^2, dx, dx^2 unchanged,
   "x p"(x0) = "x p"(0) + x0 p, "p x"(x0) = "p x"(0) + x0 p, "x dx"(x0) = "x dx"(0) + x0 dx, "dx x" likewise
   (generated table with symbolic x0 against Ladder.shift_spec; term_stmt: same power of x0, same irrational
   prefactor, rational matrices equal entrywise for all m n) *)
Theorem C16_sho_shifted_origin :
  forall sym, In sym shift_symbols ->
  exists tms sps, lookup sym sho_table_x0 = Some tms /\ lookup sym shift_spec = Some sps /\
                  Forall2 (term_stmt sho_table) tms sps.
Proof. exact sho_shifted_origin. Qed.
Print Assumptions C16_sho_shifted_origin.

(* ---- 3b. DVR variant: each position / momentum symbol (incl. the mixed products) is returned in the DVR frame:
   the branch either ends with the rotation dvr_v^T . mat . dvr_v or is diag(dvr_x^k) (a statement about the
   structure of the generated branches; the numerical rotation itself is checked by the dense oracle) *)
Theorem C16_sho_dvr_frame : forall s, In s dvr_frame_symbols ->
  exists k, lookup s sho_dvr = Some k /\ dvr_in_frame k = true.
Proof. exact sho_dvr_frame. Qed.
Print Assumptions C16_sho_dvr_frame.

(* ---- 4. powers: closed formula of x_power_k / p_power_k = k-th power of the untruncated operator (bounded) ---
   PARTIAL: full statement  forall k m n, xpow_rat k m n == ((b~ + b~+)^k)[m,n]  is not proved *)
Theorem C16_x_power_partial : forall k m n, k <= 8 -> m <= 12 -> n <= 12 ->
  (xpow_rat k m n == mpow 24 Xr k m n)%Q.
Proof. exact x_power_partial. Qed.
Print Assumptions C16_x_power_partial.

Theorem C16_p_power_partial : forall k m n, k <= 8 -> m <= 12 -> n <= 12 ->
  (mpow 24 Dr k m n == sign_pow ((k + n - m) / 2) * xpow_rat k m n)%Q.
Proof. exact p_power_partial. Qed.
Print Assumptions C16_p_power_partial.

(* ---- 5. Pauli algebra (finite, complete) ----------------------------------------------------------------------- *)
Theorem C16_pauli_algebra : forall a b,
  m2_mul (sigma a) (sigma b) = m2_add (if ax_eqb a b then m2_id else m2_zero) (m2_scale gi_i (eps_sigma a b)).
Proof. exact pauli_algebra. Qed.
Print Assumptions C16_pauli_algebra.

Theorem C16_pauli_hermitian_traceless : forall a, m2_dagger (sigma a) = sigma a /\ m2_trace (sigma a) = (0, 0)%Z.
Proof. exact pauli_hermitian_traceless. Qed.
Print Assumptions C16_pauli_hermitian_traceless.

Theorem C16_pauli_ladder :
  m2_scale (gi_of 2) sP = m2_add sX (m2_scale gi_i sY) /\
  m2_scale (gi_of 2) sM = m2_sub sX (m2_scale gi_i sY) /\
  m2_dagger sP = sM /\
  m2_add (m2_mul sP sM) (m2_mul sM sP) = m2_id /\
  m2_sub (m2_mul sP sM) (m2_mul sM sP) = sZ /\
  m2_sub (m2_mul sZ sP) (m2_mul sP sZ) = m2_scale (gi_of 2) sP /\
  m2_sub (m2_mul sZ sM) (m2_mul sM sZ) = m2_scale (gi_of (-2)) sM /\
  m2_mul sP sP = m2_zero /\ m2_mul sM sM = m2_zero /\
  siY = m2_scale gi_i sY /\ m2_mul siY siY = m2_scale (gi_of (-1)) m2_id.
Proof. exact pauli_ladder. Qed.
Print Assumptions C16_pauli_ladder.

(* ---- 6. electron bases: unit matrices (all sizes) ----------------------------------------------------------------- *)
Theorem C16_unit_matrix_product : forall n i j k l a b, j < n -> k < n ->
  (mmul n (unit_mat i j) (unit_mat k l) a b == if j =? k then unit_mat i l a b else 0)%Q.
Proof. exact unit_mul. Qed.
Print Assumptions C16_unit_matrix_product.

Theorem C16_multi_vac_restriction : forall n i j a b,
  (mmul (n + 1) (mev_create i) (mev_annih j) a b == mev_hop i j a b)%Q /\
  (mev_hop i j (a + 1)%nat (b + 1)%nat == me_hop i j a b)%Q /\ (mev_hop i j 0%nat b == 0)%Q /\ (mev_hop i j a 0%nat == 0)%Q.
Proof. exact (fun n i j a b => conj (vac_product n i j a b) (vac_restriction i j a b)). Qed.
Print Assumptions C16_multi_vac_restriction.

Theorem C16_simple_electron : forall a b, a < 2 -> b < 2 ->
  (mmul 2 se_create se_annih a b == se_number a b)%Q /\
  (mmul 2 se_annih se_create a b == mono_inf MI a b - se_number a b)%Q.
Proof. exact simple_electron. Qed.
Print Assumptions C16_simple_electron.

(* ---- 7. HOPS boson: b~+ b~ = n on all levels, [b~, b~+] = 1 on levels < N-1 (1 - N at the top) ------------------- *)
Theorem C16_hops_boson : forall N m n, m < N -> n < N ->
  (mmul N hops_bd hops_b m n == if m =? n then qn n else 0)%Q /\
  (mmul N hops_b hops_bd m n - mmul N hops_bd hops_b m n ==
     if m =? n then (if m + 1 =? N then 1 - qn N else 1) else 0)%Q.
Proof. exact (fun N m n Hm Hn => conj (hops_number N m n Hm Hn) (hops_commutator N m n Hm Hn)). Qed.
Print Assumptions C16_hops_boson.

(* ---- 8. sine-DVR closed forms: algebraic consequences only ----------------------------------------------------------
   PARTIAL: the statement "closed form = integral over sqrt(2/L) sin(j pi u/L)" is not proved (oracle: quad).
   d/du antisymmetric; u, u^2 symmetric; integration by parts  <j|u d|k> + <k|u d|j> = -delta_jk,
   <j|u^2 d|k> + <k|u^2 d|j> = -2 <j|u|k>;  p^2 diagonal *)
Theorem C16_sinedvr_integrals_partial : forall j k, 1 <= j -> 1 <= k ->
  (du_c j k == - du_c k j)%Q /\
  (u_a j k == u_a k j)%Q /\ (u_b j k == u_b k j)%Q /\
  (uu_a j k == uu_a k j)%Q /\ (uu_b j k == uu_b k j)%Q /\
  (udu_c j k + udu_c k j == if j =? k then - (1) else 0)%Q /\
  (uudu_a j k + uudu_a k j == - (2) * u_a j k)%Q /\ (uudu_b j k + uudu_b k j == - (2) * u_b j k)%Q /\
  (j <> k -> p2_c j k == 0)%Q.
Proof. exact sinedvr_partial. Qed.
Print Assumptions C16_sinedvr_integrals_partial.

(* ==== 9. model builders ======================================================================================
   Gen/Builders.v is regenerated from model.py / mol.py / phonon.py on every run (tx/builders.py): the term loops of
   TI1DModel, HolsteinModel, SpinBosonModel, heisenberg_ops, construct_j_matrix and the site lists, as Gallina
   functions of the sizes and of named parameters (omega_g, omega_e, dis_e, elocalex, jmat ...).  Theorems hold for
   ALL sizes and ALL rational parameter values. *)

(* TI1DModel: the generated term list is, cell by cell, one copy of every local term with its dofs in that cell and
   one copy of every non-local term with each dof in cell (i + offset) mod ncell (offsets of either sign);
   every cell index is in range; ncell * (|local| + |nonlocal|) terms; cell i = cell 0 shifted by i (mod ncell) *)
Theorem C16_ti1d_wrap : forall ncell local nonlocal,
  ti1d_terms ncell local nonlocal = ti1d_spec ncell local nonlocal /\
  (0 < ncell -> forall t, In t (ti1d_terms ncell local nonlocal) -> forall c d, In (c, d) (snd t) -> 0 <= c < ncell)%Z /\
  List.length (ti1d_terms ncell local nonlocal) = Z.to_nat ncell * (List.length local + List.length nonlocal) /\
  (forall i, (0 <= i < ncell)%Z -> ti1d_cell ncell i local nonlocal = map (shift_gop ncell i) (ti1d_cell ncell 0 local nonlocal)).
Proof.
  exact (fun n l nl => conj (ti1d_terms_spec n l nl) (conj (ti1d_in_range n l nl) (conj (ti1d_count n l nl) (fun i H => ti1d_translation n i l nl H)))).
Qed.
Print Assumptions C16_ti1d_wrap.

(* construct_j_matrix for every size n >= 1 (incl. 1 and 2): equals the documented pattern; symmetric; zero diagonal
   except for the single periodic site (the source writes J at (0,0) there; HolsteinModel never reads the diagonal);
   off the diagonal: J exactly for |i-j| = 1, and for |i-j| = n-1 when periodic *)
Theorem C16_j_matrix_spec : forall n J periodic i j, (1 <= n)%Z -> (0 <= i < n)%Z -> (0 <= j < n)%Z ->
  (construct_j_matrix n J periodic i j == j_matrix_spec_fn n periodic J i j)%Q /\
  (j_matrix_spec_fn n periodic J i j == j_matrix_spec_fn n periodic J j i)%Q /\
  (j_matrix_spec_fn n periodic J i i == (if periodic && (n =? 1)%Z then J else 0))%Q /\
  (i <> j -> j_matrix_spec_fn n periodic J i j ==
     (if ((i - j =? 1) || (j - i =? 1) || (periodic && ((i - j =? n - 1) || (j - i =? n - 1))))%Z then J else 0))%Q.
Proof.
  exact (fun n J p i j Hn Hi Hj => conj (j_matrix_spec n J p i j Hn Hi Hj) (conj (j_matrix_symmetric n J p i j)
          (conj (j_matrix_diagonal n J p i Hi) (j_matrix_pattern n J p i j Hi Hj)))).
Qed.
Print Assumptions C16_j_matrix_spec.

(* HolsteinModel: the generated terms (with mol.e0 expanded through Mol.__init__ and Phonon.reorganization_energy)
   equal, term by term, the documented displaced-oscillator Hamiltonian [holstein_spec]: site energy
   elocalex + sum_l 1/2 omega_e^2 d^2 (EXCITED-state frequency), couplings J_ij, 1/2 p^2 + 1/2 omega_g^2 x^2,
   a+a [1/2 (omega_e^2 - omega_g^2) x^2 - omega_e^2 d x]; ground-state displacement dis[0] = 0 as documented *)
Theorem C16_holstein_terms_spec : forall P, (forall i l, dis_g P i l == 0)%Q ->
  Forall2 term_eqv (holstein_ham P) (holstein_spec P).
Proof. exact holstein_terms_spec. Qed.
Print Assumptions C16_holstein_terms_spec.

Theorem C16_displaced_oscillator : forall we wg d x : Q,
  ((1 # 2) * (we * we) * ((x - d) * (x - d)) - (1 # 2) * (wg * wg) * (x * x) ==
   (1 # 2) * (we * we - wg * wg) * (x * x) + - (we * we * d) * x + (1 # 2) * (we * we) * (d * d))%Q /\
  (wg == we -> (1 # 2) * (we * we - wg * wg) == 0)%Q.
Proof. exact (fun we wg d x => conj (displaced_oscillator_expansion we wg d x) (holstein_same_freq_term wg we)). Qed.
Print Assumptions C16_displaced_oscillator.

(* site orders of schemes 1-4 as documented, and: in every scheme each electronic and each vibrational dof has exactly
   one site (same lists for all schemes) *)
Theorem C16_holstein_site_order : forall scheme P,
  holstein_basis scheme P = holstein_sites_spec scheme P /\
  ((scheme <= 4)%Z -> flat_map site_elecs (holstein_basis scheme P) = zrange0 (nmol P) /\
                      flat_map site_vibs (holstein_basis scheme P) = all_vibs P (zrange0 (nmol P))).
Proof. exact (fun s P => conj (holstein_sites s P) (holstein_sites_dofs s P)). Qed.
Print Assumptions C16_holstein_site_order.

(* PARTIAL (scheme independence): the term list does not depend on the scheme (holstein_ham has no scheme argument:
   the translator requires the term loops to lie outside the scheme switch), all schemes carry the same dofs
   (C16_holstein_site_order), and the multi-electron site restricted to one electron is the product-basis hopping
   (C16_multi_vac_restriction).  Equality of the DENSE operators on the 0/1-excitation sector is not proved: oracle. *)
Theorem C16_holstein_scheme_independent_partial : forall s1 s2 P, (s1 <= 4)%Z -> (s2 <= 4)%Z ->
  flat_map site_elecs (holstein_basis s1 P) = flat_map site_elecs (holstein_basis s2 P) /\
  flat_map site_vibs (holstein_basis s1 P) = flat_map site_vibs (holstein_basis s2 P).
Proof.
  intros s1 s2 P H1 H2. destruct (holstein_sites_dofs s1 P H1) as [A1 B1], (holstein_sites_dofs s2 P H2) as [A2 B2].
  split; congruence.
Qed.
Print Assumptions C16_holstein_scheme_independent_partial.

Theorem C16_spinboson_terms_spec : forall S,
  Forall2 term_eqv (spinboson_ham S) (spinboson_spec S) /\ spinboson_basis S = spinboson_sites_spec S.
Proof. exact (fun S => conj (spinboson_terms_spec S) (spinboson_sites S)). Qed.
Print Assumptions C16_spinboson_terms_spec.

Theorem C16_heisenberg_terms_spec :
  (forall nspin, heisenberg_terms nspin = heisenberg_spec nspin) /\
  gl_add (kron2 sX sX) (kron2 sY sY) = gl_scale (gi_of 2) (gl_add (kron2 sP sM) (kron2 sM sP)).
Proof. exact (conj heisenberg_terms_spec heisenberg_exchange). Qed.
Print Assumptions C16_heisenberg_terms_spec.

(* non-vacuity of the builder theorems: a 3-cell model with a negative offset; a Holstein parameter set with
   different frequencies satisfies the hypothesis and produces the x^2 coupling term *)
Example C16_builders_nonvacuous :
  ti1d_terms 3 [(0, [0])] [(1, [(0%Z, 0); ((-1)%Z, 0)])] =
    [(0, [(0%Z, 0)]); (1, [(0%Z, 0); (2%Z, 0)]); (0, [(1%Z, 0)]); (1, [(1%Z, 0); (0%Z, 0)]); (0, [(2%Z, 0)]); (1, [(2%Z, 0); (1%Z, 0)])] /\
  (let P := mk_hpar 2 (fun _ => 1%Z) (fun _ => 1%Q) (fun _ _ => 1%Q) (fun _ _ => 2%Q) (fun _ _ => 0%Q) (fun _ _ => (1 # 2)%Q)
                    (fun _ _ => 3%Z) (fun _ _ => false) (fun _ _ => (1 # 4)%Q) in
   (forall i l, dis_g P i l == 0)%Q /\ List.length (holstein_ham P) = 12).
Proof. split; [reflexivity|]. split; [intros; reflexivity|reflexivity]. Qed.

(* ==== 10. copy(new_dof) returns the same basis (used by TI1DModel for the per-cell bases and by
   BasisTree.add_auxiliary_space for the auxiliary space) ==========================================================
   Structural obligation on the facts regenerated from basis.py (Gen/BasisCopy.v): for every claimed class, each
   argument of copy is the attribute that stores the parameter it is handed to, and every constructor parameter that
   op_mat depends on (through any attribute computed from it) -- and `sigmaqn` (identity_param) whenever it is a
   constructor parameter, since the quantum numbers belong to the identity of the basis -- is forwarded, or absorbed (occurs only as the guard of
   a block adjusting other, forwarded parameters and defaults to false: BasisSineDVR `endpoint`).
   All eight BasisSet subclasses of the source are claimed (copy_reported_classes is empty); every subclass found in
   the source is in the list.  That the copy's MATRICES equal the original's is the dense oracle. *)
Theorem C16_copy_forwards : forall n, In n copy_checked_classes ->
  exists c, find_class n basis_classes = Some c /\ args_faithful c = true /\
            forall q, In q (bc_params c) -> relevant c (fst (fst q)) = true \/ identity_param (fst (fst q)) = true ->
                      forwarded c (fst (fst q)) = true \/ absorbed c (fst (fst q)) = true.
Proof. exact copy_forwards. Qed.
Print Assumptions C16_copy_forwards.

Theorem C16_copy_classes_complete : forall c, In c basis_classes -> In (bc_name c) all_basis_classes.
Proof. exact copy_classes_complete. Qed.
Print Assumptions C16_copy_classes_complete.

(* ---- non-vacuity: the generated table has the 21 literal branches; x, p are genuinely of degree one with both
   ladder components, so the corner term of (1b) and the top-level defect of the commutator are non-zero ------------ *)
Example C16_nonvacuous :
  List.length sho_table = 21 /\ List.length product_symbols = 13 /\
  (exists ex ep, lookup "x"%string sho_table = Some ex /\ lookup "p"%string sho_table = Some ep /\
                 ~ (corner ex ep == 0)%Q /\ ~ (rmat ex 2%nat 3%nat == 0)%Q /\ ~ (rmat ep 3%nat 2%nat == 0)%Q).
Proof.
  split; [reflexivity|]. split; [reflexivity|].
  eexists. eexists. split; [reflexivity|]. split; [reflexivity|].
  repeat split; vm_compute; discriminate.
Qed.
