(* C17 -- Fermionic Hamiltonians and site reordering keep the physics unchanged.
   Only statements, closed by [exact], with Print Assumptions beneath.  Gen/SimplifyOp.v and Gen/JwSwapRule.v are
   regenerated from /repo (h_qc.py, basis.py, symbolic_mpo.py, mp.py) on every run.

   Conventions: level |1> of a site is "occupied"; sigma_+ = |0><1| (Sp) annihilates, sigma_- (Sm) creates;
   a_i = Z (x)..(x) Z (x) Sp (x) I (x)..(x) I.  [entry fs r c] is the matrix element <r| f1 (x) f2 (x) .. |c>. *)
From Coq Require Import ZArith List Bool String Arith.
Import ListNotations.
From Coq Require Import Permutation.
From RV Require Import Gen.SimplifyOp Gen.JwSwapRule Gen.QcLoops Model.Jw Proofs.JwProofs.
From RV Require Base.CRing Model.SymMpo Proofs.SymMpoProofs.
Local Open Scope Z_scope.

(* ---- 1. the Jordan-Wigner strings are fermions: for ANY number of sites n and all i, j < n, all matrix elements *)
Theorem C17_jw_car : forall n i j r c, (i < n)%nat -> (j < n)%nat -> List.length r = n -> List.length c = n ->
  acomm (a_op n i) (a_dag n j) r c = (if Nat.eqb i j then delta r c else 0)
  /\ acomm (a_op n i) (a_op n j) r c = 0
  /\ acomm (a_dag n i) (a_dag n j) r c = 0.
Proof. exact jw_car_proof. Qed.
Print Assumptions C17_jw_car.

(* the site-wise product of pure tensors used above is the operator (matrix) product *)
Theorem C17_pt_mul_is_operator_product : forall p q r c,
  List.length (pt_facs p) = List.length r -> List.length (pt_facs q) = List.length r -> List.length c = List.length r ->
  pt_entry (pt_mul p q) r c = sumZ (map (fun m => pt_entry p r m * pt_entry q m c) (all_bits (List.length r))).
Proof. exact pt_mul_is_operator_product. Qed.
Print Assumptions C17_pt_mul_is_operator_product.

Theorem C17_a_dag_is_adjoint : forall n i, pt_adj (a_op n i) = a_dag n i.
Proof. exact jw_adj. Qed.
Print Assumptions C17_a_dag_is_adjoint.

(* ---- 2. simplify_op: for ALL words over the symbols qc_model can put on one site, the generated reduced word
        with the generated sign (-1)^n_permute is the ordered matrix product of the word *)
Theorem C17_simplify_op_den : forall w, Forall (fun s => In s qc_alphabet) w ->
  den_word w = scale2 (sgn (simp_sign_minus w)) (den_word (simp_new_symbol w)).
Proof. exact simplify_op_den_proof. Qed.
Print Assumptions C17_simplify_op_den.

(* ... hence every term of qc_model (generated ladder words, generated simplification, dropped identity sites) is
   the ordered product of the Jordan-Wigner strings of its ladder operators: all n, all operator lists, all entries *)
Theorem C17_qc_model_is_fermionic : forall n ops r c,
  pt_entry (term_pt n ops) r c = pt_entry (ops_product n ops) r c.
Proof. exact qc_term_is_jw_product_proof. Qed.
Print Assumptions C17_qc_model_is_fermionic.

(* ---- 3. every term class that int_to_h's index predicates let through carries zero (N_alpha, N_beta) charge with
        the labels simplify_op attaches; all numbers of spin orbitals n *)
Theorem C17_qc_conserves : forall n,
  (forall p q, (p < n)%nat -> (q < n)%nat -> one_body_support p q = true -> term_qn n (one_body_ops p q) = (0, 0)) /\
  (forall p q r s, (p < n)%nat -> (q < n)%nat -> (r < n)%nat -> (s < n)%nat -> two_body_support p q r s = true ->
     term_qn n (two_body_ops p q r s) = (0, 0)).
Proof. exact qc_conserves_proof. Qed.
Print Assumptions C17_qc_conserves.

Theorem C17_charge_is_basis_label : forall j, charge (true, j) = occ_qn j.
Proof. exact charge_is_basis_label. Qed.
Print Assumptions C17_charge_is_basis_label.

(* ---- 4. operator-side swap rule = conjugation with F = SWAP . diag(1,1,1,-1), sites exchanged.
        w1 = word of the operator of the old second site, w2 = of the old first site (layout extracted from swap_site).
        (a) finite form, independent of how the rule is written: all pairs of words of <= 3 symbols the asserts admit *)
Theorem C17_jw_swap_rule_conj : forall w1 w2, In (w1, w2) (admitted_pairs 3) ->
  exists x, rule_new_op w1 w2 = Some x /\ x = conjF (rule_old_op w1 w2).
Proof. exact jw_swap_rule_conj_proof. Qed.
Print Assumptions C17_jw_swap_rule_conj.

(*      (b) all words of any length over the names the rule recognises *)
Theorem C17_jw_swap_rule_conj_all_words : rule_layout_ok = true /\
  forall w1 w2, rule_word w1 -> rule_word w2 -> rule_asserts w1 w2 = true ->
  exists n1 n2 mn, jw_rule w1 w2 = Some (n1, n2, mn)
    /\ scale4 (sgn mn) (kron (den_word n1) (den_word n2)) = conjF (kron (den_word w2) (den_word w1)).
Proof. exact jw_swap_rule_conj_all_words. Qed.
Print Assumptions C17_jw_swap_rule_conj_all_words.

(*      (c) the state side (_update_mps: transposition + sign of the |11> block) applies the same F *)
Theorem C17_state_rule_is_F : state_axes_ok = true /\
  forall v0 v1 v2 v3, state_rule [v0; v1; v2; v3] = apply4 F4 [v0; v1; v2; v3].
Proof. exact state_rule_is_F. Qed.
Print Assumptions C17_state_rule_is_F.

Theorem C17_F_orthogonal : mmul4 (tr4 F4) F4 = id4 /\ mmul4 F4 (tr4 F4) = id4.
Proof. exact F4_orthogonal. Qed.
Print Assumptions C17_F_orthogonal.

(* ---- 5. do the symbols qc_model emits fall under the rule ?  Both directions are proved for whatever the two
        translators extract; the check evaluates [qc_counterexample] on the current tree and instantiates the
        matching direction as an unconditional theorem (Corr/run_C17/cover_now.v). *)
Theorem C17_jw_rule_covers_qc_symbols : qc_counterexample = None ->
  forall s1 s2, In s1 qc_alphabet -> In s2 qc_alphabet -> pair_ok [s1] [s2] = true.
Proof. exact qc_no_counterexample_complete. Qed.
Print Assumptions C17_jw_rule_covers_qc_symbols.

Theorem C17_jw_rule_covers_qc_symbols_refuted : forall w1 w2, qc_counterexample = Some (w1, w2) ->
  (exists s1 s2, In s1 qc_alphabet /\ In s2 qc_alphabet /\ w1 = [s1] /\ w2 = [s2]) /\
  (rule_new_op w1 w2 = None \/ exists x, rule_new_op w1 w2 = Some x /\ x <> conjF (rule_old_op w1 w2)).
Proof. exact qc_counterexample_sound. Qed.
Print Assumptions C17_jw_rule_covers_qc_symbols_refuted.

Theorem C17_qc_covered_spec : qc_covered = true <-> forall s, In s qc_alphabet -> rule_classifies s = true.
Proof. exact qc_covered_spec. Qed.
Print Assumptions C17_qc_covered_spec.

(* ---- 6. hermiticity: for symmetric integrals (h_pq = h_qp; (ab|cd) = (ba|cd) = (ab|dc) = (cd|ab), which is what the
        antisymmetrisation of int_to_h relies on) the adjoint index class tadj t -- (p,q) -> (q,p), (p,q,r,s) -> (r,s,p,q),
        the normal-ordered form of the reversed daggered product -- carries the same coefficient (so it is in the term
        list iff t is), and its generated operator is the transpose of the operator of t: all norb, all matrix elements *)
Theorem C17_qc_hermitian_coeff : forall h eri, h_symmetric h -> eri_symmetric eri ->
  forall t, tcoef h eri (tadj t) = tcoef h eri t /\ tadj (tadj t) = t.
Proof. exact qc_hermitian_coeff. Qed.
Print Assumptions C17_qc_hermitian_coeff.

Theorem C17_qc_hermitian : forall n h eri, h_symmetric h -> eri_symmetric eri ->
  forall t r c, (match t with T1 p q => p < n /\ q < n | T2 p q r' s => p < n /\ q < n /\ r' < n /\ s < n end)%nat ->
  List.length r = n -> List.length c = n ->
  tcoef h eri (tadj t) * pt_entry (term_pt n (t_ops (tadj t))) r c = tcoef h eri t * pt_entry (term_pt n (t_ops t)) c r.
Proof. exact qc_hermitian_proof. Qed.
Print Assumptions C17_qc_hermitian.

(* the adjoint of any product of ladder operators is the reversed product of the daggered ones *)
Theorem C17_ops_product_adj : forall n ops r c,
  pt_entry (ops_product n (ops_adj ops)) r c = pt_entry (ops_product n ops) c r.
Proof. exact ops_product_adj. Qed.
Print Assumptions C17_ops_product_adj.

(* ---- 7. stacked = flat: for EVERY support pattern of the integral arrays and every enumeration order of the set of
        visited first indices (generated from the loop skeleton of qc_model: domain, `continue` guards, inner guards),
        the concatenated stacked sub-lists are a permutation of the flat term list *)
Theorem C17_stacked_is_flat : forall norbs S1 S2 ps,
  (forall x, In x S1 -> (fst x < norbs)%nat) -> (forall x, In x S2 -> (qfirst x < norbs)%nat) ->
  Permutation ps (stacked_visits norbs S1 S2) ->
  Permutation (stacked_terms_over ps S1 S2) (flat_terms S1 S2).
Proof. exact stacked_is_flat_proof. Qed.
Print Assumptions C17_stacked_is_flat.

(* ---- 8. sequences of exchanges, operator side.  (a) swap_jw = False, on top of C01's swap_mpo_sound: after ANY history
        of successful try_swap_site calls (any ring, any witnesses accepted by C01's checks) the coefficient of every
        string of primary operators is the original coefficient of the string with the exchanges undone *)
Theorem C17_ofs_operator_invariant_plain :
  forall (R : CRing.CRing) (iszero : CRing.car R -> bool), (forall x, iszero x = true -> x = CRing.r0 R) ->
  forall bs ks bs', swap_history R iszero bs ks bs' ->
  forall s, List.length s = List.length bs -> SymMpo.coeff R bs' s = SymMpo.coeff R bs (perm_str ks s).
Proof. exact ofs_operator_invariant_plain_proof. Qed.
Print Assumptions C17_ofs_operator_invariant_plain.

(* (b) with the Jordan-Wigner rule, on top of C01's swap_jw_sound (abstract rule phi (p, q) = (p', q', c), p = operator of
   the old second site).  One exchange on the whole operator: *)
Theorem C17_swap_jw_mpo_sound :
  forall (R : CRing.CRing) (iszero : CRing.car R -> bool), (forall x, iszero x = true -> x = CRing.r0 R) ->
  forall nprim nprim' phi pre post b2 b3 nb2 nb3 ws dom,
  (nprim <= nprim')%nat ->
  SymMpo.swap_site_jw R iszero nprim nprim' phi b2 b3 ws = Some (nb2, nb3) ->
  SymMpoProofs.sweep_ok R iszero ws (map (SymMpo.jw_row R phi (nprim' - nprim)) (SymMpo.dedup R iszero (SymMpo.swap_table R nprim b2 b3))) ->
  NoDup dom -> SymMpoProofs.pairs_in R (SymMpo.swap_table R nprim b2 b3) dom ->
  forall spre spost p' q', List.length spost = List.length post ->
    SymMpo.coeff R (pre ++ nb2 :: nb3 :: post) (spre ++ p' :: q' :: spost)
    = SymMpo.lsum R dom (fun pq => if SymMpoProofs.pair_eqb (fst (phi pq)) (p', q')
                                   then CRing.rmul R (snd (phi pq)) (SymMpo.coeff R (pre ++ b2 :: b3 :: post) (spre ++ snd pq :: fst pq :: spost))
                                   else CRing.r0 R).
Proof. exact swap_jw_mpo_sound. Qed.
Print Assumptions C17_swap_jw_mpo_sound.

(*     ANY history of successful exchanges, each with or without the rule (constructors jh_plain / jh_jw): the final
       coefficient function is the accumulated action T (compositions of plain_step_fun k = site permutation of the
       string and jw_step_fun k phi dom = signed re-labelling of the two exchanged operators) on the original one *)
Theorem C17_ofs_operator_invariant :
  forall (R : CRing.CRing) (iszero : CRing.car R -> bool), (forall x, iszero x = true -> x = CRing.r0 R) ->
  forall bs T bs', ofs_history R iszero bs T bs' ->
  forall s, List.length s = List.length bs -> SymMpo.coeff R bs' s = T (SymMpo.coeff R bs) s.
Proof. exact ofs_operator_invariant_proof. Qed.
Print Assumptions C17_ofs_operator_invariant.

(*     the GENERATED rule is such a phi (words interned as primary-operator indices: prim before, prim' after the rule
       appended its new words) and does on every admitted pair what phi_conj_at demands ... *)
Theorem C17_phi_jw_conj : forall prim prim' intern pq,
  rule_word (prim (fst pq)) -> rule_word (prim (snd pq)) -> rule_asserts (prim (fst pq)) (prim (snd pq)) = true ->
  (forall n1 n2 mn, jw_rule (prim (fst pq)) (prim (snd pq)) = Some (n1, n2, mn) -> prim' (intern n1) = n1 /\ prim' (intern n2) = n2) ->
  phi_conj_at prim prim' (phi_jw prim intern) pq.
Proof. exact phi_jw_conj. Qed.
Print Assumptions C17_phi_jw_conj.

(*     ... hence ONE jw_step_fun is an F conjugation: for every environment (spre, t) the two-site block
       sum_(p',q') cnew (spre ++ p' :: q' :: t) . prim' p' (x) prim' q'  equals  F ( sum_(p,q) cold (spre ++ q :: p :: t) . prim q (x) prim p ) F^T
       entry by entry  ((F X F^T)_ij = fsgn i . fsgn j . X_(sw4 i)(sw4 j), C17_conjF_kron_entry) *)
Theorem C17_jw_step_block_conj : forall (prim prim' : nat -> jw_word) phi dom dom' k (c : list nat -> Z) spre t,
  List.length spre = k -> NoDup dom' -> (forall pq, In pq dom -> In (fst (phi pq)) dom') ->
  (forall pq, In pq dom -> phi_conj_at prim prim' phi pq) ->
  forall i j, (i < 4)%nat -> (j < 4)%nat ->
  sumZ (map (fun x' => jw_step_fun CRing.ZRing k phi dom c (spre ++ fst x' :: snd x' :: t)
                       * get4 (kron (den_word (prim' (fst x'))) (den_word (prim' (snd x')))) i j) dom')
  = fsgn i * fsgn j * sumZ (map (fun pq => c (spre ++ snd pq :: fst pq :: t)
                                           * get4 (kron (den_word (prim (snd pq))) (den_word (prim (fst pq)))) (sw4 i) (sw4 j)) dom).
Proof. exact jw_step_block_conj_proof. Qed.
Print Assumptions C17_jw_step_block_conj.

Theorem C17_conjF_kron_entry : forall A B i j, (i < 4)%nat -> (j < 4)%nat ->
  get4 (conjF (kron A B)) i j = fsgn i * fsgn j * get4 (kron A B) (sw4 i) (sw4 j).
Proof. exact conjF_kron_entry. Qed.
Print Assumptions C17_conjF_kron_entry.

(* The single remaining gap, `ofs_dense_bridge_partial` (NOT proved): the map from coefficient functions to matrices,
     dense n prim c r col := sum over strings s in (seq 0 nprim)^n of c s * entry (map (den_word o prim) s) r col,
   with  dense (plain_step_fun k c) = P_k (dense c) P_k^T  and  dense' (jw_step_fun k phi dom c) = F_k (dense c) F_k^T
   (F_k = F on sites k, k+1 tensored with identities; follows from C17_jw_step_block_conj by tensoring the fixed environment
   matrices and summing over spre, t -- a re-indexing of the finite string sum).  With it C17_ofs_operator_invariant reads
   dense(final) = G (P H P^T) G^T.  Until then that last step is covered by the dense oracle (every step of every sequence). *)

(* ---- non-vacuity *)
Example C17_car_instance : acomm (a_op 3 1) (a_dag 3 1) [true; false; true] [true; false; true] = 1
  /\ acomm (a_op 3 0) (a_dag 3 2) [true; false; false] [false; false; true] = 0
  /\ pt_entry (pt_mul (a_op 3 0) (a_dag 3 2)) [false; false; true] [true; false; false] = -1.
Proof. vm_compute. repeat split. Qed.

Example C17_support_nonempty : two_body_support 0 3 1 2 = true /\ one_body_support 1 3 = true
  /\ List.length (all_two_body 6) = 99%nat /\ List.length (all_one_body 6) = 18%nat
  /\ term_pt 4 (two_body_ops 0 3 1 2) = mkPT 1 [mk2 0 0 (-1) 0; Sp; Sp; Sm].
Proof. vm_compute. repeat split. Qed.

Example C17_rule_domain : Nat.leb 960 (List.length (admitted_pairs 3)) = true
  /\ rule_word ["sigma_z"; "sigma_+"]%string /\ rule_word ["I"]%string
  /\ rule_asserts ["sigma_z"; "sigma_+"]%string ["sigma_-"]%string = true
  /\ jw_rule ["sigma_+"]%string ["sigma_-"]%string = Some (["sigma_z"; "sigma_+"]%string, ["sigma_z"; "sigma_-"]%string, true).
Proof.
  split; [vm_compute; reflexivity|]. split; [right; split; [discriminate|repeat (constructor; [cbn; tauto|]); constructor]|].
  split; [left; reflexivity|]. split; vm_compute; reflexivity.
Qed.

Example C17_simplify_instance : simp_new_symbol ["-"; "Z"; "Z"; "Z"]%string = ["Z"; "-"]%string
  /\ simp_sign_minus ["-"; "Z"; "Z"; "Z"]%string = true
  /\ Forall (fun s => In s qc_alphabet) ["-"; "Z"; "Z"; "Z"]%string.
Proof. split; [reflexivity|]. split; [reflexivity|]. repeat (constructor; [cbn; tauto|]); constructor. Qed.

Example C17_hermitian_instance :
  let h : h_t := fun a b => Z.of_nat (a + b) in
  let eri : eri_t := fun a b c d => Z.of_nat ((a + b) * (c + d) + 1) in
  h_symmetric h /\ eri_symmetric eri /\ tcoef h eri (T2 0 3 1 2) = 2 /\ tcoef h eri (T1 1 3) = 1 /\ tadj (T2 0 3 1 2) = T2 1 2 0 3.
Proof.
  cbn zeta. split; [intros a b; f_equal; ring|].
  split; [repeat split; intros a b c d; f_equal; ring|].
  vm_compute. repeat split.
Qed.

Example C17_stacked_instance :
  let S1 := [(0, 0); (2, 0); (0, 2)]%nat in let S2 := [(1, 3, 1, 3); (0, 1, 0, 1)]%nat in
  stacked_visits 4 S1 S2 = [2; 1; 0]%nat /\
  stacked_terms_over [1; 0; 2]%nat S1 S2 = [T2 1 3 1 3; T1 0 0; T1 0 2; T2 0 1 0 1; T1 2 0].
Proof. vm_compute. split; reflexivity. Qed.

(* a one-step history exists (the data of C01_ex_swap) *)
Example C17_history_instance : exists nb2 nb3,
  swap_history CRing.ZRing SymMpo.z_zero
    ([] ++ [[([0; 2], 1%Z)]; [([1; 2], 3%Z); ([2; 0], 4%Z)]] :: [[([0; 0], 2%Z); ([1; 1], 1%Z)]] :: [])%nat [0%nat]
    ([] ++ nb2 :: nb3 :: []).
Proof.
  eexists. eexists.
  eapply (sh_step CRing.ZRing SymMpo.z_zero 3 [] [] _ _ _ _
            [SymMpo.WG CRing.ZRing [] [[0; 3; 0]; [2; 3; 0]]; SymMpo.WG CRing.ZRing [] [[3; 0]]; SymMpo.WG CRing.ZRing [] [[0]]]%nat [] _).
  - vm_compute. reflexivity.
  - apply SymMpoProofs.sweep_okb_sound; first [ (intros x Hx; apply Z.eqb_eq in Hx; exact Hx) | (vm_compute; reflexivity) ].
  - apply sh_nil.
Qed.

(* the generated rule as an abstract rule on an interned table: 0 = I, 1 = sigma_z, 2 = sigma_+, 3 = sigma_-, 4 = sigma_z sigma_+, 5 = sigma_z sigma_- *)
Example C17_phi_instance :
  let prim := fun k => nth k [["I"]; ["sigma_z"]; ["sigma_+"]; ["sigma_-"]; ["sigma_z"; "sigma_+"]; ["sigma_z"; "sigma_-"]]%string ["I"%string] in
  let intern := fun w => if list_eq_dec string_dec w ["sigma_z"; "sigma_+"]%string then 4%nat
                         else if list_eq_dec string_dec w ["sigma_z"; "sigma_-"]%string then 5%nat else 0%nat in
  phi_jw prim intern (2, 3)%nat = (4%nat, 5%nat, (-1)%Z) /\ phi_conj_at prim prim (phi_jw prim intern) (2, 3)%nat.
Proof. cbn zeta. split; vm_compute; reflexivity. Qed.

(* histories with a JW step exist: the data of C01_ex_swap_jw (identity rule on example 1) *)
Example C17_jw_history_instance : exists T bs',
  ofs_history CRing.ZRing SymMpo.z_zero
    ([] ++ [[([0; 2], 1%Z)]; [([1; 2], 3%Z); ([2; 0], 4%Z)]] :: [[([0; 0], 2%Z); ([1; 1], 1%Z)]] :: [])%nat T bs'.
Proof.
  eexists. eexists.
  eapply (jh_jw CRing.ZRing SymMpo.z_zero _ _ 3 3 (fun pq => (fst pq, snd pq, 1%Z)) [(0, 2); (2, 1); (0, 0); (1, 1); (2, 0); (0, 1); (1, 2); (2, 2); (1, 0)]%nat [] [] _ _ _ _
            [SymMpo.WG CRing.ZRing [] [[0; 3; 0]; [2; 3; 0]]; SymMpo.WG CRing.ZRing [] [[3; 0]]; SymMpo.WG CRing.ZRing [] [[0]]]%nat).
  - apply jh_nil.
  - apply le_n.
  - vm_compute. reflexivity.
  - apply SymMpoProofs.sweep_okb_sound; first [ (intros x Hx; apply Z.eqb_eq in Hx; exact Hx) | (vm_compute; reflexivity) ].
  - repeat constructor; cbn; intuition discriminate.
  - intros x a1 p q lab z Hin Hx. vm_compute in Hin.
    repeat (destruct Hin as [<-|Hin]; [cbn in Hx; injection Hx as <- <- <- <- <-; cbn; tauto|]). destruct Hin.
Qed.
