(* C03 -- State and operator arithmetic agrees with dense linear algebra in any gauge.
   Only statements, closed by [exact], with Print Assumptions beneath.  Models: Model/Mp.v (tensors), Model/Qn.v
   (labels); proofs: Proofs/MpProofs.v, Proofs/QnProofs.v.

   Conventions.  R is ANY commutative ring with an involution rcj (Z, Gaussian integers, ... ; real and complex
   data are one case).  A state chain is a list of (right bond dimension, tensor l p r); an operator / density
   operator chain is a list of (right bond dimension, tensor l pu pd r).  [amp a s] / [opamp O su sd] are the dense
   entries.  All chain lengths >= 2 for add (the code does not support a one-site add, see C03_add_one_site), all
   lengths >= 0 for everything else; all bond dimensions.

   GAUGE INDEPENDENCE: none of the dense statements below has a hypothesis about qnidx, to_right or a canonical
   form -- the tensor part of every operation is defined and proved without reference to them (scale is the only
   operation that reads qnidx, and C03_scale_gauge_independent says the result does not depend on it). *)
From Coq Require Import ZArith List Arith Bool.
Import ListNotations.
From RV Require Import Base.CRing Base.BigSum Model.Chain Model.Mp Model.Qn Proofs.MpProofs Proofs.QnProofs.

(* ---------------------------------------------------------------- dense algebra *)
Theorem C03_add_state : forall (R : CRing) (a b : list (nat * T3 R)) s,
  2 <= length a -> length a = length b -> lastdim 1 a = lastdim 1 b ->
  amp (add3 a b) s = radd R (amp a s) (amp b s).
Proof. exact add3_amp. Qed.
Print Assumptions C03_add_state.

Theorem C03_add_operator : forall (R : CRing) (a b : list (nat * T4 R)) su sd,
  2 <= length a -> length a = length b -> lastdim 1 a = lastdim 1 b -> length sd = length a ->
  opamp (add4 a b) su sd = radd R (opamp a su sd) (opamp b su sd).
Proof. exact add4_opamp. Qed.
Print Assumptions C03_add_operator.

(* faithful model of site_num = 1: the vstack assignment overwrites the dstack one; the "sum" is the first operand
   stacked on the second with left dimension 2 -- not a sum (the code's todense() raises on it) *)
Theorem C03_add_one_site : forall (R : CRing) da ta db tb s,
  amp (@add3 R [(da, ta)] [(db, tb)]) s = amp [(da, ta)] s.
Proof. exact add3_one_site. Qed.
Print Assumptions C03_add_one_site.

Theorem C03_scale_state : forall (R : CRing) (ts : list (nat * T3 R)) k c s, k < length ts ->
  amp (scale_at3 k c ts) s = rmul R c (amp ts s).
Proof. exact scale3_amp. Qed.
Print Assumptions C03_scale_state.

Theorem C03_scale_operator : forall (R : CRing) (ts : list (nat * T4 R)) k c su sd, k < length ts ->
  opamp (scale_at4 k c ts) su sd = rmul R c (opamp ts su sd).
Proof. exact scale4_opamp. Qed.
Print Assumptions C03_scale_operator.

Theorem C03_scale_gauge_independent : forall (R : CRing) (ts : list (nat * T3 R)) k k' c s,
  k < length ts -> k' < length ts -> amp (scale_at3 k c ts) s = amp (scale_at3 k' c ts) s.
Proof. exact scale3_gauge_independent. Qed.
Print Assumptions C03_scale_gauge_independent.

(* exactness of scale over the ring: for EVERY scalar c -- real, purely imaginary, of any magnitude -- the dense result is
   c times the dense operand; the model has no threshold and no branch on c (the code's only branch, np.iscomplex(val), selects
   the dtype, not the value).  Composition and homogeneity of the operator-state product follow. *)
Theorem C03_scale_compose : forall (R : CRing) (ts : list (nat * T3 R)) k k' c c' s,
  k < length ts -> k' < length ts ->
  amp (scale_at3 k' c' (scale_at3 k c ts)) s = rmul R (rmul R c' c) (amp ts s).
Proof. exact scale3_compose. Qed.
Print Assumptions C03_scale_compose.

Theorem C03_apply_homogeneous : forall (R : CRing) (W : list (nat * T4 R)) (a : list (nat * T3 R)) dqs k c s',
  length W = length a -> length dqs = length a -> 0 < lastdim 1 a -> k < length a ->
  amp (apply3 1 dqs W (scale_at3 k c a)) s' = rmul R c (amp (apply3 1 dqs W a) s').
Proof. exact apply3_homogeneous. Qed.
Print Assumptions C03_apply_homogeneous.

Theorem C03_conj_state : forall (R : CRing) (ts : list (nat * T3 R)) s, amp (conj3 ts) s = rcj R (amp ts s).
Proof. exact conj3_amp. Qed.
Print Assumptions C03_conj_state.

Theorem C03_conj_operator : forall (R : CRing) (ts : list (nat * T4 R)) su sd,
  opamp (conj4 ts) su sd = rcj R (opamp ts su sd).
Proof. exact conj4_opamp. Qed.
Print Assumptions C03_conj_operator.

Theorem C03_conj_trans : forall (R : CRing) (ts : list (nat * T4 R)) su sd,
  opamp (conj_trans4 ts) su sd = rcj R (opamp ts sd su).
Proof. exact conj_trans4_opamp. Qed.
Print Assumptions C03_conj_trans.

(* MpDm.from_mps: the density operator built from a state is the diagonal matrix of its amplitudes, over ANY ring -- in
   particular the imaginary part of a complex state is kept (fix 6697df3) *)
Theorem C03_mpdm_from_mps : forall (R : CRing) (ts : list (nat * T3 R)) su sd,
  opamp (from_mps4 ts) su sd = if eqbl su sd then amp ts su else r0 R.
Proof. exact from_mps4_opamp. Qed.
Print Assumptions C03_mpdm_from_mps.

(* Mpo.apply on a state; dqs = physical dimensions of the contracted index *)
Theorem C03_apply_state : forall (R : CRing) (W : list (nat * T4 R)) (a : list (nat * T3 R)) dqs s',
  length W = length a -> length dqs = length a -> 0 < lastdim 1 a ->
  amp (apply3 1 dqs W a) s' = sumcfg dqs (fun s => rmul R (opamp W s' s) (amp a s)).
Proof. exact apply3_amp. Qed.
Print Assumptions C03_apply_state.

(* Mpo.apply on an Mpo / MpDm, and MpDm.apply: the same tensor operation (first factor = self) *)
Theorem C03_apply_operator : forall (R : CRing) (W b : list (nat * T4 R)) dqs su sd,
  length W = length b -> length dqs = length b -> length sd = length b -> 0 < lastdim 1 b ->
  opamp (apply4 1 dqs W b) su sd = sumcfg dqs (fun s => rmul R (opamp W su s) (opamp b s sd)).
Proof. exact apply4_opamp. Qed.
Print Assumptions C03_apply_operator.

(* general (interior) form with the row-major combined bond index  l_self * D_mp + l_mp *)
Theorem C03_apply_state_bonds : forall (R : CRing) (W : list (nat * T4 R)) (a : list (nat * T3 R)) dqs dla s' lO la rO ra,
  length W = length a -> length dqs = length a -> la < dla -> ra < lastdim dla a ->
  chain3 (apply3 dla dqs W a) s' (lO * dla + la) (rO * lastdim dla a + ra) =
  sumcfg dqs (fun s => rmul R (chain4 W s' s lO rO) (chain3 a s la ra)).
Proof. exact apply3_chain. Qed.
Print Assumptions C03_apply_state_bonds.

Theorem C03_dot_state : forall (R : CRing) (a b : list (nat * T3 R)) dps,
  length a = length b -> length dps = length a -> 0 < lastdim 1 a -> 0 < lastdim 1 b ->
  dot3 dps a b = sumcfg dps (fun s => rmul R (amp a s) (amp b s)).
Proof. exact dot3_spec. Qed.
Print Assumptions C03_dot_state.

Theorem C03_dot_operator : forall (R : CRing) (a b : list (nat * T4 R)) dus dds,
  length a = length b -> length dus = length a -> length dds = length a -> 0 < lastdim 1 a -> 0 < lastdim 1 b ->
  dot4 dus dds a b = sumcfg dus (fun su => sumcfg dds (fun sd => rmul R (opamp a su sd) (opamp b su sd))).
Proof. exact dot4_spec. Qed.
Print Assumptions C03_dot_operator.

(* distance^2 (the quantity under the code's square root) = sum_s conj(a_s - b_s) (a_s - b_s); norm^2 is the case b = 0,
   and mp_norm^2 = conj(a).dot(a) is C03_dot_state with C03_conj_state *)
Theorem C03_distance_state : forall (R : CRing) (a b : list (nat * T3 R)) dps,
  length a = length b -> length dps = length a -> 0 < lastdim 1 a -> 0 < lastdim 1 b ->
  dist2_3 dps a b = sumcfg dps (fun s => rmul R (rcj R (rsub R (amp a s) (amp b s))) (rsub R (amp a s) (amp b s))).
Proof. exact dist2_3_spec. Qed.
Print Assumptions C03_distance_state.

Theorem C03_distance_real : forall (R : CRing) (a b : list (nat * T3 R)) dps,
  length a = length b -> length dps = length a -> 0 < lastdim 1 a -> 0 < lastdim 1 b ->
  rcj R (dist2_3 dps a b) = dist2_3 dps a b.
Proof. exact dist2_3_real. Qed.
Print Assumptions C03_distance_real.

Theorem C03_distance_operator : forall (R : CRing) (a b : list (nat * T4 R)) dus dds,
  length a = length b -> length dus = length a -> length dds = length a -> 0 < lastdim 1 a -> 0 < lastdim 1 b ->
  dist2_4 dus dds a b =
  sumcfg dus (fun su => sumcfg dds (fun sd =>
    rmul R (rcj R (rsub R (opamp a su sd) (opamp b su sd))) (rsub R (opamp a su sd) (opamp b su sd)))).
Proof. exact dist2_4_spec. Qed.
Print Assumptions C03_distance_operator.

(* ---------------------------------------------------------------- scalar prefactor of Mps / MpDm
   [same] = outcome of np.allclose(self.coeff, other.coeff); the hypothesis same = true -> ca = cb is the exact-
   arithmetic reading of that test (floating-point near-equality is the known finding add:nearly-equal-prefactors) *)
Theorem C03_mps_fold : forall (R : CRing) (ts : list (nat * T3 R)) k c s, k < length ts ->
  rmul R (snd (mps_fold3 k c ts)) (amp (fst (mps_fold3 k c ts)) s) = rmul R c (amp ts s).
Proof. exact mps_fold3_spec. Qed.
Print Assumptions C03_mps_fold.

Theorem C03_mps_add : forall (R : CRing) same ka kb ca cb (a b : list (nat * T3 R)) s,
  (same = true -> ca = cb) ->
  2 <= length a -> length a = length b -> lastdim 1 a = lastdim 1 b -> ka < length a -> kb < length b ->
  rmul R (snd (mps_add3 same ka kb ca cb a b)) (amp (fst (mps_add3 same ka kb ca cb a b)) s)
  = radd R (rmul R ca (amp a s)) (rmul R cb (amp b s)).
Proof. exact mps_add3_spec. Qed.
Print Assumptions C03_mps_add.

Theorem C03_mpdm_add : forall (R : CRing) same ka kb ca cb (a b : list (nat * T4 R)) su sd,
  (same = true -> ca = cb) ->
  2 <= length a -> length a = length b -> lastdim 1 a = lastdim 1 b -> length sd = length a ->
  ka < length a -> kb < length b ->
  rmul R (snd (mps_add4 same ka kb ca cb a b)) (opamp (fst (mps_add4 same ka kb ca cb a b)) su sd)
  = radd R (rmul R ca (opamp a su sd)) (rmul R cb (opamp b su sd)).
Proof. exact mps_add4_spec. Qed.
Print Assumptions C03_mpdm_add.

(* Mps.distance (after fix dd82a4f: |coeff| * tensor distance when the prefactors agree) *)
Theorem C03_mps_distance : forall (R : CRing) same dps ka kb ca cb (a b : list (nat * T3 R)),
  (same = true -> ca = cb) ->
  length a = length b -> length dps = length a -> 0 < lastdim 1 a -> 0 < lastdim 1 b ->
  ka < length a -> kb < length b ->
  mps_dist2_3 same dps ka kb ca cb a b =
  sumcfg dps (fun s => rmul R (rcj R (rsub R (rmul R ca (amp a s)) (rmul R cb (amp b s))))
                              (rsub R (rmul R ca (amp a s)) (rmul R cb (amp b s)))).
Proof. exact mps_dist2_3_spec. Qed.
Print Assumptions C03_mps_distance.

(* ---------------------------------------------------------------- labels (one component; vector labels below) *)
Local Open Scope Z_scope.

Theorem C03_move_qnidx_meaning : forall n (m : metaZ) d,
  qnidx (move_qnidx n m d) = d /\ qntot (move_qnidx n m d) = qntot m /\ to_right (move_qnidx n m d) = to_right m /\
  map (@length Z) (qn (move_qnidx n m d)) = map (@length Z) (qn m) /\
  forall i a, (i <= n)%nat -> (a < length (nth i (qn m) []))%nat -> Llab (move_qnidx n m d) i a = Llab m i a.
Proof. exact move_qnidx_meaning. Qed.
Print Assumptions C03_move_qnidx_meaning.

(* both operands valid (ANY centres qnidx, any to_right) and the same total => the sum is valid *)
Theorem C03_add_valid : forall (R : CRing) sig (ma mb : metaZ) (A B : list (nat * T3 R)),
  qn_valid3 sig ma A -> qn_valid3 sig mb B -> qntot ma = qntot mb ->
  (2 <= length A)%nat -> length A = length B ->
  qn_valid3 sig (add_meta (length A) ma mb) (add3 A B).
Proof. exact add_valid3. Qed.
Print Assumptions C03_add_valid.

Theorem C03_add_valid_operator : forall (R : CRing) sig (ma mb : metaZ) (A B : list (nat * T4 R)),
  qn_valid4 sig ma A -> qn_valid4 sig mb B -> qntot ma = qntot mb ->
  (2 <= length A)%nat -> length A = length B ->
  qn_valid4 sig (add_meta (length A) ma mb) (add4 A B).
Proof. exact add_valid4. Qed.
Print Assumptions C03_add_valid_operator.

(* operator charge sigW j pu q (= sigma_j pu - sigma_j q for an Mpo): the product is valid and its total is
   shifted by the operator's total *)
Theorem C03_apply_valid : forall (R : CRing) sigW sig sigc (mo ma : metaZ) (W : list (nat * T4 R)) (a : list (nat * T3 R)) dqs,
  qn_valid4 sigW mo W -> qn_valid3 sig ma a ->
  (forall j pu q, sigc j pu = sigW j pu q + sig j q) ->
  length W = length a -> length dqs = length a ->
  qn_valid3 sigc (apply_meta (length a) mo ma) (apply3 1 dqs W a) /\
  qntot (apply_meta (length a) mo ma) = qntot ma + qntot mo.
Proof. exact apply_valid3. Qed.
Print Assumptions C03_apply_valid.

Theorem C03_apply_valid_operator : forall (R : CRing) sigW sigB sigC (mo mb : metaZ) (W B : list (nat * T4 R)) dqs,
  qn_valid4 sigW mo W -> qn_valid4 sigB mb B ->
  (forall j pu q pd, sigC j pu pd = sigW j pu q + sigB j q pd) ->
  length W = length B -> length dqs = length B ->
  qn_valid4 sigC (apply_meta (length B) mo mb) (apply4 1 dqs W B) /\
  qntot (apply_meta (length B) mo mb) = qntot mb + qntot mo.
Proof. exact apply_valid4. Qed.
Print Assumptions C03_apply_valid_operator.

(* MpDm.apply(mp) with mp.dummy_qn: valid for every mp because an MpDm's labels live on the upper index only *)
Theorem C03_mpdm_apply_valid : forall (R : CRing) sig (mr : metaZ) (Rho Op : list (nat * T4 R)) dqs,
  qn_valid4 sig mr Rho -> (forall j pu q q', sig j pu q = sig j pu q') ->
  length Rho = length Op -> length dqs = length Op -> lastdim 1 Op = 1%nat ->
  qn_valid4 sig (mpdm_apply_meta mr (bdims 1 Op)) (apply4 1 dqs Rho Op).
Proof. exact mpdm_apply_valid. Qed.
Print Assumptions C03_mpdm_apply_valid.

Theorem C03_conj_valid : forall (R : CRing) sig (m : metaZ) (ts : list (nat * T3 R)),
  qn_valid3 sig m ts -> qn_valid3 sig m (conj3 ts).
Proof. exact conj_valid3. Qed.
Print Assumptions C03_conj_valid.

Theorem C03_conj_valid_operator : forall (R : CRing) sig (m : metaZ) (ts : list (nat * T4 R)),
  qn_valid4 sig m ts -> qn_valid4 sig m (conj4 ts).
Proof. exact conj_valid4. Qed.
Print Assumptions C03_conj_valid_operator.

Theorem C03_scale_valid : forall (R : CRing) sig (m : metaZ) (ts : list (nat * T3 R)) k c,
  qn_valid3 sig m ts -> qn_valid3 sig m (scale_at3 k c ts).
Proof. exact scale_valid3. Qed.
Print Assumptions C03_scale_valid.

Theorem C03_scale_valid_operator : forall (R : CRing) sig (m : metaZ) (ts : list (nat * T4 R)) k c,
  qn_valid4 sig m ts -> qn_valid4 sig m (scale_at4 k c ts).
Proof. exact scale_valid4. Qed.
Print Assumptions C03_scale_valid_operator.

(* the adjoint of an operator of charge q has charge -q: bond labels AND qntot are negated (fix 6897b48) *)
Theorem C03_conj_trans_valid : forall (R : CRing) sig (m : metaZ) (ts : list (nat * T4 R)),
  (forall j pu pd, sig j pu pd = - sig j pd pu) ->
  qn_valid4 sig m ts -> qn_valid4 sig (conj_trans_meta m) (conj_trans4 ts).
Proof. exact conj_trans_valid. Qed.
Print Assumptions C03_conj_trans_valid.

(* vector labels (several quantum numbers): component-wise *)
Theorem C03_add_valid_multi : forall (R : CRing) nc sigV (ma mb : meta VLab) (A B : list (nat * T3 R)),
  qn_valid3V nc sigV ma A -> qn_valid3V nc sigV mb B -> qntot ma = qntot mb ->
  (2 <= length A)%nat -> length A = length B ->
  qn_valid3V nc sigV (add_meta (length A) ma mb) (add3 A B).
Proof. exact add_valid3V. Qed.
Print Assumptions C03_add_valid_multi.

Theorem C03_apply_valid_multi : forall (R : CRing) nc sigWV sigV sigcV (mo ma : meta VLab)
    (W : list (nat * T4 R)) (a : list (nat * T3 R)) dqs,
  qn_valid4V nc sigWV mo W -> qn_valid3V nc sigV ma a ->
  (forall k j pu q, (k < nc)%nat -> comp k (sigcV j pu) = comp k (sigWV j pu q) + comp k (sigV j q)) ->
  length W = length a -> length dqs = length a ->
  qn_valid3V nc sigcV (apply_meta (length a) mo ma) (apply3 1 dqs W a).
Proof. exact apply_valid3V. Qed.
Print Assumptions C03_apply_valid_multi.

Theorem C03_conj_trans_valid_multi : forall (R : CRing) nc sigV (m : meta VLab) (ts : list (nat * T4 R)),
  (forall k j pu pd, (k < nc)%nat -> comp k (sigV j pu pd) = - comp k (sigV j pd pu)) ->
  qn_valid4V nc sigV m ts -> qn_valid4V nc sigV (conj_trans_meta m) (conj_trans4 ts).
Proof. exact conj_trans_validV. Qed.
Print Assumptions C03_conj_trans_valid_multi.

(* ---------------------------------------------------------------- the hypotheses are satisfiable: a concrete state *)
(* two spin-1/2 sites with charges [0,1], sector 1:  2|0,1> ... a genuinely entangled integer state *)
Definition ex_sigs : list (list Z) := [[0; 1]; [0; 1]].
Definition ex_ts : list (nat * T3 ZRing) :=
  [(2%nat, @of3 ZRing [[[2; 0]; [0; 3]]]); (1%nat, @of3 ZRing [[[0]; [5]]; [[7]; [0]]])].
Definition ex_pats : list pat3 :=
  [[[[true; false]; [false; true]]]; [[[false]; [true]]; [[true]; [false]]]].
Definition ex_m : metaZ := @Build_meta ZLab [[0]; [0; 1]; [0]] 1%nat 1 false.
Definition ex_m0 : metaZ := move_qnidx 2 ex_m 0.        (* the same labels centred at site 0 *)

Example ex_support : has_support ex_pats ex_ts.
Proof.
  cbn [has_support ex_pats ex_ts]. repeat split; intros l p r;
    destruct l as [|[|[|l]]]; destruct p as [|[|[|p]]]; destruct r as [|[|[|r]]]; cbn; intros H; try reflexivity; discriminate H.
Qed.

Example C03_ex_valid : qn_valid3 (sig_of ex_sigs) ex_m ex_ts /\ qn_valid3 (sig_of ex_sigs) ex_m0 ex_ts
                       /\ qnidx ex_m <> qnidx ex_m0 /\ amp ex_ts [0%nat; 1%nat] = 10.
Proof.
  split; [|split; [|split]].
  - apply (qn_validb_sound ZRing ex_sigs ex_m ex_pats); [vm_compute; reflexivity | exact ex_support | reflexivity].
  - apply (qn_validb_sound ZRing ex_sigs ex_m0 ex_pats); [vm_compute; reflexivity | exact ex_support | reflexivity].
  - vm_compute. discriminate.
  - vm_compute. reflexivity.
Qed.

(* operands with DIFFERENT centres: the model of the current code gives valid labels for the sum, the model of the
   code before commit 8f85435 does not (so C03_add_valid is false of that model) *)
Definition ex_sum_pats : list pat3 :=
  [[[[true; false; true; false]; [false; true; false; true]]];
   [[[false]; [true]]; [[true]; [false]]; [[false]; [true]]; [[true]; [false]]]].
Example C03_ex_add_labels :
  qn_validb ex_sigs (add_meta 2 ex_m ex_m0) ex_sum_pats = true /\
  qn_validb ex_sigs (add_meta_prefix 2 ex_m ex_m0) ex_sum_pats = false.
Proof. split; vm_compute; reflexivity. Qed.

(* an operator of charge +1 on two sites (sigma^- on site 0 in the [0,1] convention raises index 0 -> 1):
   conj_trans with and without the qntot sign *)
Example C03_ex_conj_trans_labels :
  let m := @Build_meta ZLab [[0]; [1]; [0]] 1%nat 1 false in
  qntot (conj_trans_meta m) = -1 /\ Llab (conj_trans_meta m) 2 0 = qntot (conj_trans_meta m) /\
  Llab (conj_trans_meta_prefix m) 2 0 <> - Llab m 2 0.
Proof. cbv zeta. split; [|split]; vm_compute; [reflexivity|reflexivity|discriminate]. Qed.

(* a purely imaginary scalar is not "almost real": scaling the Gaussian-integer image of the example state by i multiplies
   every amplitude by i (the amplitude 10 becomes 10 i), it does not annihilate or truncate it *)
Example C03_ex_scale_imaginary :
  let ts : list (nat * T3 GiRing) :=
    [(2%nat, @of3 GiRing (zr3 [[[2; 0]; [0; 3]]])); (1%nat, @of3 GiRing (zr3 [[[0]; [5]]; [[7]; [0]]]))] in
  amp (@scale_at3 GiRing 1%nat (0, 1) ts) [0%nat; 1%nat] = (0, 10).
Proof. cbv zeta. vm_compute. reflexivity. Qed.
