(* C14 -- Saved states reload identically; result dumps survive a crash.
   Only statements, closed by [exact], with Print Assumptions beneath.
   Gen/DumpProto.v (the op list of TdMpsJob.dump_dict, one per dump_mps setting) and Gen/DumpKeys.v
   (key sets of the state serialisers) are regenerated from /repo on every run; the theorems below
   are about those generated objects.  Vocabulary (Model/DumpProto.v):
     run_history proto h st : directory + counters after the attempts h (None = the dump_dict call is
        not killed; Some c = the process dies when c atomic actions of the call are done -- a write is
        two actions, so a death INSIDE np.savez is a crash point) started from st;
     safe watched st : no dump has returned yet, or some watched file (<job>.npz, <job>.npz.bak) holds
        Complete k with  last-returned-dump <= k < next-dump. *)
From Coq Require Import List Arith String ZArith.
Import ListNotations.
From RV Require Import Model.DumpProto Gen.DumpProto Gen.DumpKeys Proofs.DumpProtoProofs.

(* ANY history: any number of dumps, any crash point in each, any number of restarts into the
   left-behind directory, starting from an empty directory.  (A "clean" directory left by a job that
   terminated normally is the end state of such a history, so it is covered.) *)
Theorem C14_restart_safe :
  forall name proto, In (name, proto) protocols ->
  forall h : list attempt, safe watched (run_history proto h (init_state npaths)).
Proof. exact restart_safe_gen. Qed.
Print Assumptions C14_restart_safe.

(* One job, never restarted: dumps 1..j returned, the process dies at crash point c of dump j+1
   (every c; c beyond the last action = death between two dumps).  A watched file then holds the
   complete result of the previous (j) or of the current (j+1) dump. *)
Theorem C14_single_run_safe :
  forall name proto, In (name, proto) protocols ->
  forall j c, 0 < j ->
    exists p k, In p watched /\
      get Absent (h_fs (run_history proto (repeat None j ++ [Some c]) (init_state npaths))) p = Complete k /\
      (k = j \/ k = S j).
Proof. exact single_run_safe_gen. Qed.
Print Assumptions C14_single_run_safe.

(* In no directory reachable by any history does an operation of dump_dict raise (os.remove /
   os.rename / os.replace of a missing file), so no dump is skipped by evolve's `except IOError`. *)
Theorem C14_dump_never_raises :
  forall name proto, In (name, proto) protocols ->
  forall h : list attempt, no_raise proto h (init_state npaths) = true.
Proof. exact never_raises_gen. Qed.
Print Assumptions C14_dump_never_raises.

(* For every object kind (chain operator, chain state, density operator, tree state) the loader
   accepts the format version the library writes and reads only keys that the dumper writes, for
   every number n of sites / nodes. *)
Theorem C14_keys_cover :
  forall kind ver ws rs, In (kind, ver, ws, rs) kinds ->
  exists rs', rs = Some rs' /\ forall n k, In k (keys n rs') -> In k (keys n ws).
Proof. exact keys_cover_gen. Qed.
Print Assumptions C14_keys_cover.

(* The model separates the repaired protocol from the one of the snapshot (np.savez directly onto the
   result file; hand-transcribed in Proofs/DumpProtoProofs.v, NOT generated): that one is refuted
   by a 3-attempt history -- dump 1 returns, dump 2 dies inside the write, the restarted dump 3 dies
   right after deleting the backup -- although every single run of it is safe. *)
Theorem C14_inplace_restart_refuted :
  exists h, ~ safe [0; 1] (run_history proto_inplace h (init_state 2)).
Proof. exact inplace_restart_refuted. Qed.
Print Assumptions C14_inplace_restart_refuted.

(* ---- non-vacuity ---- *)

(* three protocols are generated (dump_mps = None / "one" / "all"), four object kinds *)
Example C14_nonvacuous_counts : List.length protocols = 3 /\ List.length kinds = 4 /\ In ("None", proto_none) protocols.
Proof. vm_compute. repeat split; try reflexivity. left. reflexivity. Qed.

(* a concrete 4-attempt history with two crashes: dump 1 returns; dump 2 dies inside the write of
   the temporary file (3 actions done: makedirs, rename-to-backup, truncating open); the restarted
   job's dump 3 dies inside its write as well (2 actions: makedirs, truncating open -- the result file
   is absent, so nothing is renamed); dump 4 dies after its os.replace / returns.  Cells are printed as
   -1 = Absent, -2 = Partial, k = Complete k; columns: <job>.npz, .npz.bak, .tmp.npz, _mps.npz, _mps_<step>.npz *)
Example C14_history_states :
  let run h := map cell_code (h_fs (run_history proto_none h (init_state npaths))) in
  run [None]                         = [1; -1; -1; -1; -1]%Z /\   (* result = dump 1                          *)
  run [None; Some 3]                 = [-1; 1; -2; -1; -1]%Z /\   (* backup = dump 1, tmp partial              *)
  run [None; Some 3; Some 2]         = [-1; 1; -2; -1; -1]%Z /\   (* restarted: still backup = dump 1          *)
  run [None; Some 3; Some 2; Some 4] = [4; 1; -1; -1; -1]%Z /\    (* dump 4 replaced, backup not yet deleted   *)
  run [None; Some 3; Some 2; None]   = [4; -1; -1; -1; -1]%Z /\
  h_fin (run_history proto_none [None; Some 3; Some 2; Some 4] (init_state npaths)) = 1.
Proof. vm_compute. repeat split; reflexivity. Qed.

(* the same history on the in-place protocol loses everything at the third attempt *)
Example C14_inplace_history_states :
  map cell_code (h_fs (run_history proto_inplace [None; Some 3; Some 2] (init_state 2))) = [-2; -1]%Z.
Proof. vm_compute. reflexivity. Qed.

(* a key that is written and read: "mt_2" of a 3-site chain state; and one that is written only *)
Example C14_keys_example :
  In (KIdx "mt_" 2) (keys 3 written_mps) /\ In (KIdx "subqn_" 3) (keys 3 written_mps) /\
  read_mps <> None.
Proof. vm_compute. repeat split; auto 20. discriminate. Qed.
