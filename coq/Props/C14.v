(* C14 -- Saved states reload identically; result dumps survive a crash.
   Only statements, closed by [exact], with Print Assumptions beneath.
   Gen/DumpProto.v (the op list of TdMpsJob.dump_dict, one per dump_mps setting) and Gen/DumpKeys.v
   (key sets of the state serialisers) are regenerated from /repo on every run; the theorems below
   are about those generated objects.  Vocabulary (Model/DumpProto.v):
     run_history proto h st : directory + counters after the attempts h (None = the dump_dict call is
        not killed; Some c = the process dies when c atomic actions of the call are done -- a write is
        two actions, so a death INSIDE np.savez is a crash point) started from st;
     safe watched st : no dump has returned yet, or some watched file (<job>.npz, <job>.npz.bak) holds
        Complete k with  last-returned-dump <= k < next-dump. *)
From Coq Require Import List Arith String ZArith.
Import ListNotations.
From RV Require Import Model.DumpProto Gen.DumpProto Gen.DumpKeys Proofs.DumpProtoProofs.

(* ANY history: any number of dumps, any crash point in each, any number of restarts into the
   left-behind directory, starting from an empty directory.  (A "clean" directory left by a job that
   terminated normally is the end state of such a history, so it is covered.) *)
Theorem C14_restart_safe :
  forall name proto, In (name, proto) protocols ->
  forall h : list attempt, safe watched (run_history proto h (init_state npaths)).
Proof. exact restart_safe_gen. Qed.
Print Assumptions C14_restart_safe.

(* One job, never restarted: dumps 1..j returned, the process dies at crash point c of dump j+1
   (every c; c beyond the last action = death between two dumps).  A watched file then holds the
   complete result of the previous (j) or of the current (j+1) dump. *)
Theorem C14_single_run_safe :
  forall name proto, In (name, proto) protocols ->
  forall j c, 0 < j ->
    exists p k, In p watched /\
      get Absent (h_fs (run_history proto (repeat None j ++ [Some c]) (init_state npaths))) p = Complete k /\
      (k = j \/ k = S j).
Proof. exact single_run_safe_gen. Qed.
Print Assumptions C14_single_run_safe.

(* In no directory reachable by any history does an operation of dump_dict raise (os.remove /
   os.rename / os.replace of a missing file), so no dump is skipped by evolve's `except IOError`. *)
Theorem C14_dump_never_raises :
  forall name proto, In (name, proto) protocols ->
  forall h : list attempt, no_raise proto h (init_state npaths) = true.
Proof. exact never_raises_gen. Qed.
Print Assumptions C14_dump_never_raises.

(* For every object kind (chain operator, chain state, density operator, tree state) the loader
   accepts the format version the library writes and reads only keys that the dumper writes, for
   every number n of sites / nodes. *)
Theorem C14_keys_cover :
  forall kind ver ws rs, In (kind, ver, ws, rs) kinds ->
  exists rs', rs = Some rs' /\ forall n k, In k (keys n rs') -> In k (keys n ws).
Proof. exact keys_cover_gen. Qed.
Print Assumptions C14_keys_cover.

(* The model separates the repaired protocol from the one of the snapshot (np.savez directly onto the
   result file; hand-transcribed in Proofs/DumpProtoProofs.v, NOT generated): that one is refuted
   by a 3-attempt history -- dump 1 returns, dump 2 dies inside the write, the restarted dump 3 dies
   right after deleting the backup -- although every single run of it is safe. *)
Theorem C14_inplace_restart_refuted :
  exists h, ~ safe [0; 1] (run_history proto_inplace h (init_state 2)).
Proof. exact inplace_restart_refuted. Qed.
Print Assumptions C14_inplace_restart_refuted.

(* Field-level round trip, about the FIELD MAPS generated from the dump / load functions (Gen/DumpKeys.v:
   which attribute is stored under which key, which key is read into which attribute through which
   conversion, version dispatch followed for the written version).  For every object kind of the property
   (chain state, density operator, tree state), every payload type P (tensors, label arrays, qntot and
   the prefactor are opaque), every number of sites: load (dump m) succeeds and returns the same
   tensors, the same label array per bond / node, and the same value of every attribute the loader
   sets (Mps/MpDm: qnidx, qntot, to_right, coeff; TTNS: coeff).  [wf] = the object has one label array
   per bond (n+1) resp. per node (n), and each attribute has the type its conversion expects
   (conv_apply c v = Some v: int() of an int, bool() of a bool, astype(int) of an integer array, ...). *)
Theorem C14_fields_roundtrip :
  forall kind dm lm loff, In (kind, dm, lm, loff) field_kinds ->
  forall (P : Type) (dflt : string -> value P) (m : obj P), wf P lm loff m ->
  exists m', load lm dflt (dump dm m) = Some m' /\
    o_tensors m' = o_tensors m /\ o_labels m' = o_labels m /\
    forall a, In a (scalar_attrs lm) -> o_scalar m' a = o_scalar m a.
Proof. exact fields_roundtrip_gen. Qed.
Print Assumptions C14_fields_roundtrip.

(* Side files (<job>_mps.npz with dump_mps="one", <job>_mps_<step>.npz with "all"): what IS guaranteed.
   After ANY history, a dump that is not killed leaves the side file holding the state of that very dump.
   Nothing more: C14_restart_safe / C14_single_run_safe speak about <job>.npz / <job>.npz.bak only, and
   Props/C14Limits.v shows that a crash can leave the side file unloadable with no older copy. *)
Theorem C14_side_file_current_after_return :
  forall name proto ps, In (name, proto, ps) side_files ->
  forall (h : list attempt) p, In p ps ->
    let st := run_history proto h (init_state npaths) in
    cell_at Absent (h_fs (step_attempt proto st None)) p = Complete (h_next st).
Proof. exact side_file_current_after_return_gen. Qed.
Print Assumptions C14_side_file_current_after_return.

(* Spill of large site tensors to disk (hand-written model of _array2mt / __setitem__ / __getitem__ in
   Model/DumpProto.v, tied by correspondence): what was stored is what is read back, spilled or not;
   the other sites are untouched; the bookkeeping invariant (a slot that is a file name names its own
   existing file, every file belongs to the slot of its number) is preserved; a store that ends in
   memory leaves no file of that site behind. *)
Theorem C14_spill_roundtrip :
  forall (P : Type) (nbytes : P -> nat) limit key a (st : sstate P),
  key < List.length (s_slots st) -> getitem key (setitem nbytes limit key a st) = Some a.
Proof. exact spill_roundtrip_gen. Qed.
Print Assumptions C14_spill_roundtrip.

Theorem C14_spill_other_sites :
  forall (P : Type) (nbytes : P -> nat) limit key a (st : sstate P) j,
  spill_inv st -> j <> key -> getitem j (setitem nbytes limit key a st) = getitem j st.
Proof. exact spill_other_sites_gen. Qed.
Print Assumptions C14_spill_other_sites.

Theorem C14_spill_inv_preserved :
  forall (P : Type) (nbytes : P -> nat) limit key a (st : sstate P),
  key < List.length (s_slots st) -> spill_inv st -> spill_inv (setitem nbytes limit key a st).
Proof. exact spill_inv_preserved. Qed.
Print Assumptions C14_spill_inv_preserved.

Theorem C14_spill_no_orphan :
  forall (P : Type) (nbytes : P -> nat) limit key a (st : sstate P),
  key < List.length (s_slots st) -> spill_inv st -> nbytes a <= limit ->
  s_disk (setitem nbytes limit key a st) key = None.
Proof. exact spill_no_orphan_gen. Qed.
Print Assumptions C14_spill_no_orphan.

(* ---- non-vacuity ---- *)

(* three protocols are generated (dump_mps = None / "one" / "all"), four object kinds *)
Example C14_nonvacuous_counts : List.length protocols = 3 /\ List.length kinds = 4 /\ In ("None", proto_none) protocols.
Proof. vm_compute. repeat split; try reflexivity. left. reflexivity. Qed.

(* a concrete 4-attempt history with two crashes: dump 1 returns; dump 2 dies inside the write of
   the temporary file (3 actions done: makedirs, rename-to-backup, truncating open); the restarted
   job's dump 3 dies inside its write as well (2 actions: makedirs, truncating open -- the result file
   is absent, so nothing is renamed); dump 4 dies after its os.replace / returns.  Cells are printed as
   -1 = Absent, -2 = Partial, k = Complete k; columns: <job>.npz, .npz.bak, .tmp.npz, _mps.npz, _mps_<step>.npz *)
Example C14_history_states :
  let run h := map cell_code (h_fs (run_history proto_none h (init_state npaths))) in
  run [None]                         = [1; -1; -1; -1; -1]%Z /\   (* result = dump 1                          *)
  run [None; Some 3]                 = [-1; 1; -2; -1; -1]%Z /\   (* backup = dump 1, tmp partial              *)
  run [None; Some 3; Some 2]         = [-1; 1; -2; -1; -1]%Z /\   (* restarted: still backup = dump 1          *)
  run [None; Some 3; Some 2; Some 4] = [4; 1; -1; -1; -1]%Z /\    (* dump 4 replaced, backup not yet deleted   *)
  run [None; Some 3; Some 2; None]   = [4; -1; -1; -1; -1]%Z /\
  h_fin (run_history proto_none [None; Some 3; Some 2; Some 4] (init_state npaths)) = 1.
Proof. vm_compute. repeat split; reflexivity. Qed.

(* the same history on the in-place protocol loses everything at the third attempt *)
Example C14_inplace_history_states :
  map cell_code (h_fs (run_history proto_inplace [None; Some 3; Some 2] (init_state 2))) = [-2; -1]%Z.
Proof. vm_compute. reflexivity. Qed.

(* a key that is written and read: "mt_2" of a 3-site chain state; and one that is written only *)
Example C14_keys_example :
  In (KIdx "mt_" 2) (keys 3 written_mps) /\ In (KIdx "subqn_" 3) (keys 3 written_mps) /\
  read_mps <> None.
Proof. vm_compute. repeat split; auto 20. discriminate. Qed.

(* the field theorem speaks about exactly these attributes; and a concrete well-formed 2-site chain state
   (payloads = numbers) really comes back *)
Example C14_fields_nonvacuous :
  scalar_attrs lmap_mps = ["qnidx"; "qntot"; "to_right"; "coeff"]%string /\
  scalar_attrs lmap_ttns = ["coeff"]%string /\
  let m := mk_obj [10; 11] [20; 21; 22]
             (fun a => if String.eqb a "qnidx" then VNat 1 else if String.eqb a "to_right" then VBool true
                       else if String.eqb a "qntot" then VPay 7 else VPay 9) in
  match load lmap_mps (fun _ => VStr "") (dump dmap_mps m) with
  | Some m' => o_tensors m' = [10; 11] /\ o_labels m' = [20; 21; 22] /\ o_scalar m' "qnidx"%string = VNat 1
               /\ o_scalar m' "to_right"%string = VBool true /\ o_scalar m' "coeff"%string = VPay 9
  | None => False
  end.
Proof. vm_compute. repeat split; reflexivity. Qed.

(* spill: the all-in-memory state satisfies the invariant; a 3-store program on 2 sites with limit 100 *)
Example C14_spill_nonvacuous :
  let st0 := mk_sstate [InMem 5; InMem 6] (fun _ => None) in
  let st := setitem (fun p => p) 100 0 7 (setitem (fun p => p) 100 1 300 (setitem (fun p => p) 100 0 200 st0)) in
  files_on_disk st = [1] /\ getitem 0 st = Some 7 /\ getitem 1 st = Some 300.
Proof. vm_compute. repeat split; reflexivity. Qed.
