(* C20 -- Bipartite vertex cover is valid and minimum, so operator bonds are minimal.
   Only statements, closed by [exact], with Print Assumptions beneath.  Definitions: Model/Cover.v
   (model of renormalizer/lib/bipartite_matching/bipartite_matching.py and of the orientation
   choice in symbolic_mpo._decompose_graph); proofs: Proofs/CoverProofs.v.

     bg : graph            adjacency list, index = vertex of U, value = neighbours in V
     ml : mtab             the table matchV  (index = vertex of V, value = Some u | None)
     rot                   the pop order of new_konig's wait set (ANY order: is_rot rot)
     cover_from_matching   new_konig; None exactly when one of its two asserts fires
     is_cover bg cu cv     every edge (u,v) has u in cu or v in cv
     minimum_cover         is_cover, duplicate-free, and no duplicate-free cover is smaller
     maximum_matching      is_matching and no matching table (of any length) is larger  *)
From Coq Require Import List Arith Permutation.
Import ListNotations.
From RV Require Import Model.Cover Gen.CoverAdj Proofs.CoverProofs.

(* (1) the Koenig construction from ANY table that passes the code's own assertions is a cover
       (no hypothesis on ml at all; nU, nV only have to enclose the edges) *)
Theorem C20_konig_is_cover :
  forall rot, is_rot rot ->
  forall bg nU nV, (forall u v, In v (nbrs bg u) -> u < nU /\ v < nV) ->
  forall ml cu cv, cover_from_matching rot bg nU nV ml = Some (cu, cv) ->
    is_cover bg cu cv /\ NoDup cu /\ NoDup cv.
Proof. exact cover_from_matching_is_cover. Qed.
Print Assumptions C20_konig_is_cover.

(* (2) its size equals the size of the matching *)
Theorem C20_konig_size :
  forall rot, is_rot rot ->
  forall bg nU nV, (forall u v, In v (nbrs bg u) -> u < nU /\ v < nV) ->
  forall ml cu cv, is_matching bg nV ml -> cover_from_matching rot bg nU nV ml = Some (cu, cv) ->
    length cu + length cv = msize nV ml.
Proof. exact cover_from_matching_size. Qed.
Print Assumptions C20_konig_size.

(* (3) weak duality: any matching is at most as large as any cover *)
Theorem C20_weak_duality :
  forall bg nV ml cu cv, is_matching bg nV ml -> NoDup cu -> NoDup cv -> is_cover bg cu cv ->
    msize nV ml <= length cu + length cv.
Proof. exact weak_duality. Qed.
Print Assumptions C20_weak_duality.

(* (4) hence the cover is minimum and the matching maximum *)
Theorem C20_konig_minimum_and_maximum :
  forall rot bg nU nV ml cu cv, is_rot rot ->
  (forall u v, In v (nbrs bg u) -> u < nU /\ v < nV) ->
  is_matching bg nV ml -> cover_from_matching rot bg nU nV ml = Some (cu, cv) ->
    minimum_cover bg cu cv /\ length cu + length cv = msize nV ml /\ maximum_matching bg nV ml.
Proof. exact konig_correct. Qed.
Print Assumptions C20_konig_minimum_and_maximum.

(* (5) the augmenting-path matching: never out of fuel, always a matching *)
Theorem C20_hungarian_is_matching :
  forall bg, exists ml, hungarian bg = Some ml /\ is_matching bg (nV_of bg) ml.
Proof. exact hungarian_is_matching. Qed.
Print Assumptions C20_hungarian_is_matching.

(* (5') and Koenig never hits an assert on its output, whatever the pop order *)
Theorem C20_hungarian_konig_total :
  forall rot bg, is_rot rot ->
  exists ml cu cv, hungarian bg = Some ml /\ is_matching bg (nV_of bg) ml /\
    cover_from_matching rot bg (length bg) (nV_of bg) ml = Some (cu, cv).
Proof. exact hungarian_konig_total. Qed.
Print Assumptions C20_hungarian_konig_total.

(* bipartite_vertex_cover(bg, "Hungarian"): total, minimum cover, size = maximum matching *)
Theorem C20_vertex_cover_hungarian :
  forall rot bg, is_rot rot ->
  exists ml cu cv, hungarian bg = Some ml /\ vertex_cover_hungarian rot bg = Some (cu, cv) /\
    minimum_cover bg cu cv /\ length cu + length cv = msize (nV_of bg) ml /\
    maximum_matching bg (nV_of bg) ml.
Proof. exact vertex_cover_hungarian_correct. Qed.
Print Assumptions C20_vertex_cover_hungarian.

(* bipartite_vertex_cover(bg, "Hopcroft-Karp"): for EVERY admissible table ml that SciPy may return
   (checked by the boolean valid_matching in the correspondence), if new_konig returns, the result
   is a minimum cover of the size of ml, and ml is maximum *)
Theorem C20_vertex_cover_hk :
  forall rot bg ml cu cv, is_rot rot ->
  valid_matching bg (nV_of bg) ml = true -> vertex_cover_hk rot bg ml = Some (cu, cv) ->
    minimum_cover bg cu cv /\ length cu + length cv = msize (nV_of bg) ml /\
    maximum_matching bg (nV_of bg) ml.
Proof. exact vertex_cover_hk_correct. Qed.
Print Assumptions C20_vertex_cover_hk.

(* ... and new_konig returns exactly when ml is a maximum matching (the asserts characterise
   non-maximality; the contract SciPy has to meet is "maximum matching", nothing more) *)
Theorem C20_hk_returns_iff_maximum :
  forall rot bg ml, is_rot rot -> valid_matching bg (nV_of bg) ml = true ->
    ((exists cu cv, vertex_cover_hk rot bg ml = Some (cu, cv)) <-> maximum_matching bg (nV_of bg) ml).
Proof. exact hk_returns_iff_maximum. Qed.
Print Assumptions C20_hk_returns_iff_maximum.

(* the witness check used by the correspondence is exactly the hypothesis of the theorems *)
Theorem C20_valid_matching_reflects :
  forall bg nV ml, valid_matching bg nV ml = true <-> is_matching bg nV ml.
Proof. exact valid_matching_iff. Qed.
Print Assumptions C20_valid_matching_reflects.

(* set.pop() order is irrelevant: two schedules that both return give the same vertex sets *)
Theorem C20_konig_schedule_independent :
  forall rot1 rot2 bg nU nV ml cu1 cv1 cu2 cv2, is_rot rot1 -> is_rot rot2 ->
  cover_from_matching rot1 bg nU nV ml = Some (cu1, cv1) ->
  cover_from_matching rot2 bg nU nV ml = Some (cu2, cv2) ->
    cu1 = cu2 /\ cv1 = cv2.
Proof. exact konig_schedule_independent. Qed.
Print Assumptions C20_konig_schedule_independent.

(* "never exceeds the number of distinct left or right partial terms" for one graph *)
Theorem C20_cover_le_sides :
  forall bg cu cv, minimum_cover bg cu cv ->
    length cu + length cv <= length bg /\ length cu + length cv <= nV_of bg.
Proof. exact minimum_cover_le_sides. Qed.
Print Assumptions C20_cover_le_sides.

(* One decomposition step of _decompose_graph: whichever side is taken as U, the selected rows and
   columns form a minimum cover of the incidence matrix; their number (= len(out_ops) = the bond
   dimension produced by this step) is at most the number of rows and the number of columns.
   PARTIAL with respect to the property text: the full statement
     "at EVERY cut the bond dimension of Mpo(model, terms, algo) equals the minimum cover of the
      incidence matrix between the distinct left and right partial terms of the ORIGINAL term list"
   additionally needs (a) that len(out_ops) is |rows|+|cols| (read off the code, not translated) and
   (b) that the table rewritten by the previous steps has the same minimum cover as the original
   term list at the next cut.  (a),(b) are checked on every run by the dense oracle of harness/c20.py
   (brute-force minimum cover per cut), not proved. *)
Theorem C20_one_step_bond_partial :
  forall cover : graph -> option (list nat * list nat),
  (forall bg cu cv, cover bg = Some (cu, cv) -> minimum_cover bg cu cv) ->
  forall inc ncol rs cs, (forall r c, In c (nbrs inc r) -> c < ncol) ->
  select_rows_cols cover inc ncol = Some (rs, cs) ->
    minimum_cover inc rs cs /\ length rs + length cs <= length inc /\ length rs + length cs <= ncol.
Proof. exact select_rows_cols_minimum. Qed.
Print Assumptions C20_one_step_bond_partial.

Theorem C20_one_step_bond_hungarian_partial :
  forall rot inc ncol, is_rot rot -> (forall r c, In c (nbrs inc r) -> c < ncol) ->
  exists rs cs, select_rows_cols (vertex_cover_hungarian rot) inc ncol = Some (rs, cs) /\
    minimum_cover inc rs cs /\ length rs + length cs <= length inc /\ length rs + length cs <= ncol.
Proof. exact select_rows_cols_hungarian. Qed.
Print Assumptions C20_one_step_bond_hungarian_partial.

(* Gen/CoverAdj.v is GENERATED on every run from the statements of _decompose_graph that build `bigraph`
   (tx/coveradj.py, fail-closed: the adjacency list of vertex i must be the plain slice
   M.indices[M.indptr[i]:M.indptr[i+1]], no dtype cast).  With labels in unbounded nat the graph handed to the
   cover routine IS the incidence matrix: *)
Theorem C20_bigraph_is_incidence_matrix :
  forall indices indptr n u v,
    In v (nbrs (bigraph_of_sparse indices indptr n) u) <-> u < n /\ In v (sparse_slice indices indptr u).
Proof. exact bigraph_is_incidence_matrix. Qed.
Print Assumptions C20_bigraph_is_incidence_matrix.

(* hence a cover of `bigraph` touches every entry of the sparse matrix, and the computed one is minimum among
   all row/column sets doing so -- for any number of distinct partial terms (no 2^16 bound) *)
Theorem C20_decompose_graph_cover_touches_every_entry :
  forall rot indices indptr n, is_rot rot ->
  exists cu cv, vertex_cover_hungarian rot (bigraph_of_sparse indices indptr n) = Some (cu, cv) /\
    (forall i j, i < n -> In j (sparse_slice indices indptr i) -> In i cu \/ In j cv) /\
    (forall cu' cv', NoDup cu' -> NoDup cv' ->
       (forall i j, i < n -> In j (sparse_slice indices indptr i) -> In i cu' \/ In j cv') ->
       length cu + length cv <= length cu' + length cv').
Proof. exact decompose_graph_cover_touches_every_entry. Qed.
Print Assumptions C20_decompose_graph_cover_touches_every_entry.

(* ------------------------------------------------------------------ non-vacuity *)
(* schedules exist, including a non-trivial one *)
Example C20_ex_rot : is_rot no_rot /\ is_rot (fun _ l => rev l).
Proof. split; [exact no_rot_is_rot|exact rev_is_rot]. Qed.

(* a 4x4 graph with an isolated U vertex where the greedy choice must be re-routed (u1 takes v0 from
   u0): the hypotheses of (1)-(4) hold and the result is a non-trivial mixed cover *)
Definition ex_bg : graph := [[0; 1]; [0]; []; [0; 2; 3]].
Example C20_ex_hungarian :
  hungarian ex_bg = Some [Some 1; Some 0; Some 3; None] /\
  vertex_cover_hungarian no_rot ex_bg = Some ([0; 1; 3], []) /\
  vertex_cover_hungarian (fun _ l => rev l) ex_bg = Some ([0; 1; 3], []) /\
  brute_min_cover ex_bg = 3.
Proof. vm_compute. repeat split; reflexivity. Qed.

Definition ex_bg2 : graph := [[0]; [0]; [0; 1; 2]; []].
(* SciPy-style witness on a graph with trailing isolated U vertex (csr shape 3 x 3): mixed cover *)
Example C20_ex_hk :
  hk_nU ex_bg2 = 3 /\ nV_of ex_bg2 = 3 /\
  valid_matching ex_bg2 3 [Some 1; Some 2; None] = true /\
  vertex_cover_hk no_rot ex_bg2 [Some 1; Some 2; None] = Some ([2], [0]).
Proof. vm_compute. repeat split; reflexivity. Qed.

(* a graph without edges: the early return (no SciPy call); U table of len(bigraph) Falses, empty V table *)
Example C20_ex_hk_edgeless :
  vertex_cover_hk no_rot [[]; []] [] = Some ([], []) /\ hk_table_lengths [[]; []] = (2, 0) /\
  valid_matching [[]; []] (nV_of [[]; []]) [] = true /\ hk_table_lengths ex_bg2 = (3, 3).
Proof. vm_compute. repeat split; reflexivity. Qed.

(* the assert fires for a valid but non-maximum table, and for a table with an unmatched reachable v *)
Example C20_ex_assert_fires :
  valid_matching ex_bg2 3 [Some 2; None; None] = true /\
  vertex_cover_hk no_rot ex_bg2 [Some 2; None; None] = None.
Proof. vm_compute. split; reflexivity. Qed.

(* an invalid table (u = 2 used twice) is rejected by the witness check *)
Example C20_ex_invalid_witness : valid_matching ex_bg2 3 [Some 2; Some 2; None] = false.
Proof. vm_compute. reflexivity. Qed.

(* orientation: 4 rows x 3 columns -> columns are taken as U; a mixed minimum cover (row 0, column 0);
   2 rows x 4 columns -> rows are taken as U *)
Example C20_ex_orientation :
  select_rows_cols (vertex_cover_hungarian no_rot) [[0; 1; 2]; [0]; [0]; [0]] 3 = Some ([0], [0]) /\
  select_rows_cols (vertex_cover_hungarian no_rot) [[0; 1; 2; 3]; [0]] 4 = Some ([0; 1], []).
Proof. vm_compute. split; reflexivity. Qed.

(* a 2 x 13 sparse matrix in CSR form (rows [0;4;12] and [12]): bigraph is its adjacency, labels unchanged
   (the theorems above are for labels of any size; unary nat keeps the executable example small) *)
Example C20_ex_sparse :
  bigraph_of_sparse [0; 4; 12; 12] [0; 3; 4] 2 = [[0; 4; 12]; [12]] /\
  vertex_cover_hungarian no_rot (bigraph_of_sparse [4; 12; 12] [0; 2; 3] 2) = Some ([0; 1], []).
Proof. vm_compute. split; reflexivity. Qed.

(* model-level TEST (not part of the proof, the theorems above are unbounded): on all 4096+512+...
   graphs with at most 3 U vertices over V = {0,1,2,3} the modelled Hungarian cover has the
   brute-force minimum size *)
Example C20_model_exhaustive_3x4_test :
  forallb (fun bg => match vertex_cover_hungarian no_rot bg with
                     | Some (cu, cv) => Nat.eqb (length cu + length cv) (brute_min_cover bg)
                     | None => false end)
          (all_graphs 1 4 ++ all_graphs 2 4 ++ all_graphs 3 4) = true.
Proof. vm_compute. reflexivity. Qed.
