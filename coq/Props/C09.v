(* C09 -- Real-time evolution converges to the exact propagator for every scheme.
   Only statements, closed by [exact], with Print Assumptions beneath, and Examples showing that the
   hypotheses are met by a concrete non-trivial instance.
   Generated inputs (rewritten on every run):  Gen/RkTableaux.v (tx/rk.py),  Gen/StepCtlConsts.v (tx/stepctl.py).
   What is NOT proved here (oracle only; see notes/C09.md): accuracy of the TDVP schemes (PS, PS2, VMF, CMF)
   as approximations of exp(-iHt), local solver accuracy, the regularised inverse, allclose termination. *)
From Coq Require Import QArith Qabs ZArith List Arith Bool Qcanon.
Import ListNotations.
From RV Require Import Base.CRing Gen.RkTableaux Gen.StepCtlConsts Gen.StepCtlGen Gen.SweepSched Model.Rk Model.Prop Model.StepCtl Model.PsSweep
                       Model.Trunc Gen.Trunc Model.Dims Proofs.PropProofs Proofs.StepCtlProofs Proofs.PsSweepProofs Proofs.DimsProofs.
Close Scope Q_scope.
Close Scope Qc_scope.

(* ================================================================== propagate-and-compress ========== *)
Section PC.
Variable K : CRing.                     (* scalars *)
Variable inj : Q -> K.                  (* rational constants of the source *)
Variable V : Type.                      (* represented vectors *)
Variable mzero : V.
Variable madd : V -> V -> V.
Variable mscale : K -> V -> V.
Variable mi : K.                        (* the constant of .scale(-1j) *)
Hypothesis IH : inj_hom K inj.
Hypothesis ML : module_laws K V mzero madd mscale.

(* compressed_sum (any batch size >= 2, any non-empty list, no truncation) is the plain sum *)
Theorem C09_compressed_sum_is_sum : forall (b : nat) (q : list V), 2 <= b -> q <> [] ->
  csum V madd b q = Some (bigsum V mzero madd q).
Proof. exact (compressed_sum_is_sum K inj V mzero madd mscale IH ML). Qed.

(* batch size 1 never terminates on two or more terms (every amount of fuel is exhausted) *)
Theorem C09_compressed_sum_batch1_diverges : forall (fuel : nat) (q : list V), 2 <= length q ->
  csum_fuel V madd fuel 1 q = None.
Proof. exact (compressed_sum_batch1_diverges V madd). Qed.

(* general explicit RK stage loop, EVERY tableau of consistent shape (any stage count), every linear
   time-independent generator:  result = sum_k d_k . X^k y,  d = row 0 of Rk.ti_coeff,  X = (mi*tau).H0 *)
Theorem C09_rk_ti_poly : forall (H : K -> V -> V) (H0 : V -> V),
  linear K V madd mscale H0 -> (forall t v, H t v = H0 v) ->
  forall t, shape_ok t = true -> forall tau t0 y,
  rk_step K inj V mzero madd mscale H mi t tau t0 y
  = pev K inj V mzero madd mscale (stepop K V mscale mi H0 tau) (nth 0 (ti_coeff t) []) y.
Proof. exact (rk_ti_poly K inj V mzero madd mscale mi IH ML). Qed.

(* the same for every row of b (row 1 = embedded solution of the adaptive pairs) *)
Theorem C09_rk_row_ti_poly : forall (H : K -> V -> V) (H0 : V -> V),
  linear K V madd mscale H0 -> (forall t v, H t v = H0 v) ->
  forall t r, shape_ok t = true -> r < length (t_b t) -> forall tau t0 y,
  rk_row K inj V mzero madd mscale H mi t r tau t0 y
  = pev K inj V mzero madd mscale (stepop K V mscale mi H0 tau) (nth r (ti_coeff t) []) y.
Proof. exact (rk_row_ti_poly K inj V mzero madd mscale mi IH ML). Qed.

(* the scheme's own error order as an exact algebraic statement: for each of the shipped methods and each
   row r with advertised order p, the result agrees with the exponential series through degree p:
   result = sum_{k<=p} X^k y / k!  +  sum_{p<k<=stage} d_k X^k y *)
Theorem C09_rk_error_order : forall (H : K -> V -> V) (H0 : V -> V),
  linear K V madd mscale H0 -> (forall t v, H t v = H0 v) ->
  forall t, In t methods -> forall r, r < length (t_b t) -> forall tau t0 y,
  rk_row K inj V mzero madd mscale H mi t r tau t0 y
  = pev K inj V mzero madd mscale (stepop K V mscale mi H0 tau)
        (tcoefs (nth r (t_order t) 0) ++ skipn (S (nth r (t_order t) 0)) (nth r (ti_coeff t) [])) y.
Proof. exact (rk_error_order K inj V mzero madd mscale mi IH ML). Qed.

(* the hard-coded four-stage scheme = the general loop run with the generated C_RK4 tableau (tab_5),
   for an arbitrary time-DEPENDENT operator H t (no linearity needed) *)
Theorem C09_tdrk4_is_C_RK4 : forall (H : K -> V -> V) dt y,
  tdrk4 K inj V mzero madd mscale H mi dt y = rk_step K inj V mzero madd mscale H mi tab_5 dt (r0 K) y.
Proof. exact (tdrk4_is_C_RK4 K inj V mzero madd mscale mi IH ML). Qed.

(* adaptive branch of the general scheme: error vector + embedded solution = propagated solution *)
Theorem C09_rk_embedded_pair : forall (H : K -> V -> V) t, In t methods -> length (t_b t) = 2 -> forall tau t0 y,
  madd (rk_error K inj V mzero madd mscale H mi t tau t0 y) (rk_row K inj V mzero madd mscale H mi t 1 tau t0 y)
  = rk_row K inj V mzero madd mscale H mi t 0 tau t0 y.
Proof. exact (rk_embedded_pair K inj V mzero madd mscale mi IH ML). Qed.

(* Taylor scheme of order N (termlist, scaling by (mi*dt)^k taylor_coeff k, compressed_sum): sum_{k<=N} X^k y / k! *)
Theorem C09_taylor_poly : forall (H0 : V -> V), linear K V madd mscale H0 -> forall dt N y,
  taylor_step K inj V mzero madd mscale mi H0 dt N y
  = pev K inj V mzero madd mscale (stepop K V mscale mi H0 dt) (tcoefs N) y.
Proof. exact (taylor_poly K inj V mzero madd mscale mi IH ML). Qed.

(* its adaptive branch: new_mps1 / new_mps2 are the Taylor polynomials of order N / N+1 *)
Theorem C09_taylor_adaptive_pair : forall (H0 : V -> V), linear K V madd mscale H0 -> forall dt N y,
  taylor_pair K inj V mzero madd mscale mi H0 dt (S N) y
  = (pev K inj V mzero madd mscale (stepop K V mscale mi H0 dt) (tcoefs N) y,
     pev K inj V mzero madd mscale (stepop K V mscale mi H0 dt) (tcoefs (S N)) y).
Proof. exact (taylor_adaptive_pair K inj V mzero madd mscale mi IH ML). Qed.
End PC.
Print Assumptions C09_compressed_sum_is_sum.
Print Assumptions C09_compressed_sum_batch1_diverges.
Print Assumptions C09_rk_ti_poly.
Print Assumptions C09_rk_row_ti_poly.
Print Assumptions C09_rk_error_order.
Print Assumptions C09_tdrk4_is_C_RK4.
Print Assumptions C09_rk_embedded_pair.
Print Assumptions C09_taylor_poly.
Print Assumptions C09_taylor_adaptive_pair.

(* all ten shipped tableaux have the shape the general theorem asks for *)
Theorem C09_methods_shape_ok : forall t, In t methods -> shape_ok t = true.
Proof. exact (proj1 (forallb_forall shape_ok methods) methods_shape_ok). Qed.
Print Assumptions C09_methods_shape_ok.

(* hypotheses are satisfiable: Gaussian rationals, pairs of them as vectors, the swap as generator; and the
   model runs: one C_RK4 step of size 1/2 from (1,0) under mi = -i gives (1 - 1/8 + 1/384, -i(1/2 - 1/48)) *)
Example C09_instance_laws :
  inj_hom GqRing gq_inj /\ module_laws GqRing v2 v2_zero v2_add v2_scale /\ linear GqRing v2 v2_add v2_scale v2_swap.
Proof. exact (conj gq_inj_hom (conj v2_module v2_swap_linear)). Qed.
Example C09_instance_runs :
  let r := rk_step GqRing gq_inj v2 v2_zero v2_add v2_scale (fun _ => v2_swap) gq_mi tab_5 (gq_inj (1 # 2)) (r0 GqRing)
                   ((Q2Qc 1, Q2Qc 0), (Q2Qc 0, Q2Qc 0)) in
  (this (fst (fst r)), this (snd (fst r)), this (fst (snd r)), this (snd (snd r)))
  = ((337 # 384)%Q, 0%Q, 0%Q, (- (23 # 48))%Q).
Proof. vm_compute. reflexivity. Qed.

(* ================================================================== step-size controllers =========== *)
(* For EVERY error-estimate function est under which the loop terminates within the fuel (result Some):
   adaptive_tdvp (TDVP-PS, PS2, CMF), the Taylor P&C branch, the general-RK branch. *)
Local Open Scope Q_scope.

Theorem C09_accepted_steps_partition : forall (est : estimate) fuel target guess tr g',
  (tdvp_run fuel est target guess = Some (tr, g') -> acc_sum tr == target)
  /\ (pc_run fuel est target guess = Some (tr, g') -> acc_sum tr == target)
  /\ (tdrk_run fuel est target guess = Some (tr, g') -> acc_sum tr == target).
Proof.
  exact (fun est fuel target guess tr g' =>
    conj (tdvp_accepted_steps_partition est fuel target guess tr g')
   (conj (pc_accepted_steps_partition est fuel target guess tr g')
         (tdrk_accepted_steps_partition est fuel target guess tr g'))).
Qed.
Print Assumptions C09_accepted_steps_partition.

(* never overshoot: every partial sum of accepted sub-steps lies between 0 and the requested time *)
Theorem C09_never_overshoots : forall (est : estimate) fuel target guess tr g', same_dir guess target ->
  (tdvp_run fuel est target guess = Some (tr, g') -> forall tr1 tr2, tr = tr1 ++ tr2 -> between0 (acc_sum tr1) target)
  /\ (pc_run fuel est target guess = Some (tr, g') -> forall tr1 tr2, tr = tr1 ++ tr2 -> between0 (acc_sum tr1) target)
  /\ (tdrk_run fuel est target guess = Some (tr, g') -> forall tr1 tr2, tr = tr1 ++ tr2 -> between0 (acc_sum tr1) target).
Proof.
  exact (fun est fuel target guess tr g' Hd =>
    conj (fun Hr => tdvp_never_overshoots est fuel target guess tr g' Hr Hd)
   (conj (fun Hr => pc_never_overshoots est fuel target guess tr g' Hr Hd)
         (fun Hr => tdrk_never_overshoots est fuel target guess tr g' Hr Hd))).
Qed.
Print Assumptions C09_never_overshoots.

(* a rejected try is followed by a try at most p_restart (< 1) times as long *)
Theorem C09_reject_shrinks : forall (est : estimate) fuel target guess tr g',
  (tdvp_run fuel est target guess = Some (tr, g') -> shrink_ok tdvp_p_restart tr /\ tdvp_p_restart < 1)
  /\ (pc_run fuel est target guess = Some (tr, g') -> shrink_ok pc_p_restart tr /\ pc_p_restart < 1)
  /\ (tdrk_run fuel est target guess = Some (tr, g') -> shrink_ok tdrk_p_restart tr /\ tdrk_p_restart < 1).
Proof.
  exact (fun est fuel target guess tr g' =>
    conj (tdvp_reject_shrinks est fuel target guess tr g')
   (conj (pc_reject_shrinks est fuel target guess tr g')
         (tdrk_reject_shrinks est fuel target guess tr g'))).
Qed.
Print Assumptions C09_reject_shrinks.

(* every tried step and the guess handed to the next call point in the direction of the request *)
Theorem C09_direction_preserved : forall (est : estimate) fuel target guess tr g', same_dir guess target ->
  (tdvp_run fuel est target guess = Some (tr, g') -> Forall (fun e => same_dir (e_dt e) target) tr /\ same_dir g' target)
  /\ (pc_run fuel est target guess = Some (tr, g') -> Forall (fun e => same_dir (e_dt e) target) tr /\ same_dir g' target)
  /\ (tdrk_run fuel est target guess = Some (tr, g') -> Forall (fun e => same_dir (e_dt e) target) tr /\ same_dir g' target).
Proof.
  exact (fun est fuel target guess tr g' Hd =>
    conj (fun Hr => tdvp_direction_preserved est fuel target guess tr g' Hr Hd)
   (conj (fun Hr => pc_direction_preserved est fuel target guess tr g' Hr Hd)
         (fun Hr => tdrk_direction_preserved est fuel target guess tr g' Hr Hd))).
Qed.
Print Assumptions C09_direction_preserved.

(* splitting t into two successive adaptive calls: the accepted sub-steps partition t1 + t2 *)
Theorem C09_split_calls_partition : forall (est1 est2 : estimate) fuel1 fuel2 t1 t2 gs tr1 g1 tr2 g2,
  tdvp_run fuel1 est1 t1 gs = Some (tr1, g1) -> tdvp_run fuel2 est2 t2 g1 = Some (tr2, g2) ->
  acc_sum (tr1 ++ tr2) == t1 + t2.
Proof. exact split_calls_partition. Qed.
Print Assumptions C09_split_calls_partition.

(* the STATE returned by the general-RK controller has been propagated by exactly the requested time,
   provided a rejected trial does not overwrite the loop-carried state.  The flag is read from the source
   by tx/stepctl.py; the check reports a violation while it is `true`, and the second theorem shows the
   defect inside the model in that case. *)
Theorem C09_tdrk_state_time : tdrk_carry_rejected = false ->
  forall (est : estimate) fuel target guess tr g',
  tdrk_run fuel est target guess = Some (tr, g') -> applied_sum tdrk_carry_rejected tr == target.
Proof. exact (fun Hc est fuel target guess tr g' => tdrk_state_time est fuel target guess tr g' Hc). Qed.
Print Assumptions C09_tdrk_state_time.

Theorem C09_tdrk_state_time_refuted : tdrk_carry_rejected = true ->
  exists est fuel target guess tr g', tdrk_run fuel est target guess = Some (tr, g')
     /\ same_dir guess target /\ ~ applied_sum tdrk_carry_rejected tr == target.
Proof. exact tdrk_state_time_refuted. Qed.
Print Assumptions C09_tdrk_state_time_refuted.

(* the time offset t0 handed to the stage Hamiltonians mpo_t(c_i*dt + t0) of a time-dependent callable is the time covered by
   the sub-steps accepted so far: the k-th trial of the general-RK controller starts at the sum of the accepted steps before it.
   (sample_times cs tr lists c_i * dt + t0 for every trial; the harness compares it with the times the callable is called with.) *)
Theorem C09_tdrk_offset_is_accepted_time : forall (est : estimate) fuel target guess tr g',
  tdrk_run fuel est target guess = Some (tr, g') ->
  forall tr1 e tr2, tr = tr1 ++ e :: tr2 -> e_pos e == acc_sum tr1.
Proof.
  exact (fun est fuel target guess tr g' Hr tr1 e tr2 E =>
    Qeq_trans _ _ _ (tdrk_pos_is_accepted_time est target fuel 0%nat guess 0 tr g' Hr tr1 e tr2 E) (Qplus_0_l (acc_sum tr1))).
Qed.
Print Assumptions C09_tdrk_offset_is_accepted_time.

(* the loops all controller theorems are about are the iteration of the step functions GENERATED from the loop bodies of the
   source (tx/stepctlgen.py -> Gen/StepCtlGen.v: every comparison, min / max / min_abs, update formula, order of tests): *)
Theorem C09_controllers_are_generated_steps : forall (est : estimate) target f it g x,
  (tdvp_loop (S f) est target it g x =
     let dt := tdvp_dt_gen g x target in
     let ev acc := {| e_dt := dt; e_acc := acc; e_pos := x; e_guess := g |} in
     match tdvp_step_gen g x target dt (est it x dt) with
     | Reject g' => consE (ev false) (tdvp_loop f est target (S it) g' x)
     | Sub g' x' => consE (ev true) (tdvp_loop f est target (S it) g' x')
     | Final gf => Some ([ev true], gf) end)
  /\ (pc_loop (S f) est it g x =
     let dt := pc_dt_gen g x x in
     let ev acc := {| e_dt := dt; e_acc := acc; e_pos := x; e_guess := g |} in
     match pc_step_gen g x x dt (est it x dt) with
     | Reject g' => consE (ev false) (pc_loop f est (S it) g' x)
     | Sub g' x' => consE (ev true) (pc_loop f est (S it) g' x')
     | Final gf => Some ([ev true], gf) end)
  /\ (tdrk_loop (S f) est target it g x =
     let dt := tdrk_dt_gen g x target in
     let ev acc := {| e_dt := dt; e_acc := acc; e_pos := x; e_guess := g |} in
     match tdrk_step_gen g x target dt (est it x dt) with
     | Reject g' => consE (ev false) (tdrk_loop f est target (S it) g' x)
     | Sub g' x' => consE (ev true) (tdrk_loop f est target (S it) g' x')
     | Final gf => Some ([ev true], gf) end).
Proof.
  exact (fun est target f it g x => conj (tdvp_loop_gen est target f it g x) (conj (pc_loop_gen est f it g x) (tdrk_loop_gen est target f it g x))).
Qed.
Print Assumptions C09_controllers_are_generated_steps.

(* the error measure of each controller (GENERATED from the source: the expression under `p = (tol / (error + 1e-30)) ** (1/order)`) is
   a relative error: multiplying the state by any c <> 0 multiplies the distance of the two solutions and the norm by |c| and leaves the
   measure -- hence the enlargement factor and every accept / reject decision -- unchanged *)
Theorem C09_error_measure_scale_invariant : forall c d n : Q, ~ c == 0 ->
  tdvp_err_gen (c * d) (c * n) == tdvp_err_gen d n /\ pc_err_gen (c * d) (c * n) == pc_err_gen d n
  /\ tdrk_err_gen (c * d) (c * n) == tdrk_err_gen d n.
Proof. exact err_gen_scale_invariant. Qed.
Print Assumptions C09_error_measure_scale_invariant.

(* non-vacuity: a run with one rejection and four accepted steps (target 1, guess 1) *)
Example C09_controller_runs :
  exists tr g', tdvp_run 10 est_reject_once 1 1 = Some (tr, g') /\ length tr = 5%nat /\ same_dir 1 1.
Proof. eexists. eexists. split; [vm_compute; reflexivity|]. split; [reflexivity|]. left. split; discriminate. Qed.
Close Scope Q_scope.

(* ================================================================== one-site projector splitting ==== *)
(* second half sweep = time reversal of the first (order reversed, Split <-> Absorb exchanged), both regular gauges *)
Theorem C09_ps_symmetric : forall (h : Q) n, 1 <= n ->
  ps1_half n false (n - 1) h = rev (map mirror (ps1_half n true 0 h))
  /\ ps1_half n true 0 h = rev (map mirror (ps1_half n false (n - 1) h)).
Proof. exact (fun h n Hn => conj (ps1_symmetric_rl h n Hn) (ps1_symmetric_lr h n Hn)). Qed.
Print Assumptions C09_ps_symmetric.

(* every site is evolved forward by dt in total, every bond backward by dt, nothing else is touched *)
Theorem C09_ps_totals : forall n (dt : Q) (to_right : bool), 1 <= n ->
  let q := if to_right then 0 else n - 1 in
  (forall i, i < n -> (fwd_total i (ps1_step n to_right q dt) == dt)%Q)
  /\ (forall b, b < n - 1 -> (bwd_total b (ps1_step n to_right q dt) == dt)%Q)
  /\ (forall i, n <= i -> (fwd_total i (ps1_step n to_right q dt) == 0)%Q)
  /\ (forall b, n - 1 <= b -> (bwd_total b (ps1_step n to_right q dt) == 0)%Q).
Proof. exact ps1_totals. Qed.
Print Assumptions C09_ps_totals.

(* every local event acts on the tensor that carries the orthogonality centre; the centre ends where it started *)
Theorem C09_ps_centre : forall n (dt : Q) (to_right : bool), 1 <= n ->
  let q := if to_right then 0 else n - 1 in
  centre_run (AtSite q) (ps1_step n to_right q dt) = Some (AtSite q).
Proof. exact ps1_centre. Qed.
Print Assumptions C09_ps_centre.

(* norm (and likewise energy): any quantity conserved by each local event of the sweep -- unitary local
   propagators, isometric QR, contraction of the bond matrix -- is conserved by the whole step.  The local
   conservation is a hypothesis (contract of expm_krylov / solve_ivp / QR; observed by the oracle). *)
Theorem C09_ps_norm_conserved : forall (S X : Type) (app : psev -> S -> S) (nrm : S -> X) n to_right q (dt : Q),
  (forall e s, In e (ps1_step n to_right q dt) -> nrm (app e s) = nrm s) ->
  forall s, nrm (run_events S app (ps1_step n to_right q dt) s) = nrm s.
Proof. exact (fun S X app nrm n to_right q dt => run_events_invariant_in app nrm (ps1_step n to_right q dt)). Qed.
Print Assumptions C09_ps_norm_conserved.

(* two-site variant: the second half sweep is the exact reversal of the first *)
Theorem C09_ps2_symmetric : forall (h : Q) n, 2 <= n -> ps2_half n false (n - 1) h = rev (ps2_half n true 0 h).
Proof. exact ps2_symmetric_rl. Qed.
Print Assumptions C09_ps2_symmetric.

(* bond dimensions under the one-site sweep never grow (QR keeps at most min(rows, cols) columns):
   any limit obeyed by the input is obeyed by the output.  (P&C and PS2 end in compress()/_update_mps, whose
   limit is C05_m_le_limit; VMF/CMF replace tensors by same-shape tensors: oracle.) *)
Theorem C09_dims_le_limit_ps1 : forall (qr_rank : nat -> nat -> nat -> nat),
  (forall i r c, qr_rank i r c <= Nat.min r c) ->
  forall (p M : nat -> nat) tr d, (forall j, d j <= M j) -> forall j, dims_run qr_rank p tr d j <= M j.
Proof. exact ps1_dims_le_limit. Qed.
Print Assumptions C09_dims_le_limit_ps1.

(* ================================================================== bond limit of the returned state ==== *)
(* Model/Dims.v: a state is abstracted to its interior bond dimensions; add -> d1+d2, apply -> d_op*d, canonicalise never
   larger, compress -> the GENERATED kept-count rule Gen/Trunc.compute_m_trunc applied to some non-empty spectrum with at
   most d_b values.  The Taylor scheme (every order), tdrk4 and the general RK scheme (EVERY tableau) end in the compress
   of compressed_sum, so for criteria fixed / both every interior bond of the returned state obeys max_dims -- whatever
   the input, the operator and the singular values were. *)
Theorem C09_dims_le_limit_pc : forall cfg din dop e d, cfg_criteria cfg <> Threshold ->
  (exists N, e = taylor_dexp N) \/ e = tdrk4_dexp \/ (exists t, e = rk_dexp t) ->
  dsem cfg din dop e d -> Forall2 Z.le d (limits cfg (length d)).
Proof. exact pc_dims_le_limit. Qed.
Print Assumptions C09_dims_le_limit_pc.

(* adaptive branches: any chain of accepted sub-steps, each starting from the previous result *)
Theorem C09_dims_le_limit_adaptive : forall cfg dop e din d, cfg_criteria cfg <> Threshold ->
  (exists N, e = taylor_dexp N) \/ (exists t, e = rk_dexp t) ->
  substeps cfg dop e din d -> Forall2 Z.le d (limits cfg (length d)).
Proof.
  exact (fun cfg dop e din d Hc He => adaptive_dims_le_limit cfg dop e din d Hc
    match He with or_introl (ex_intro _ N E) => eq_ind_r (fun e => is_compress e = true) (taylor_dexp_top N) E
                | or_intror (ex_intro _ t E) => eq_ind_r (fun e => is_compress e = true) (rk_dexp_top t) E end).
Qed.
Print Assumptions C09_dims_le_limit_adaptive.

(* the interpreter's bound (what the harness compares the implementation's bond_dims with) is sound for every expression *)
Theorem C09_dims_bound_sound : forall cfg din dop n, cfg_criteria cfg <> Threshold ->
  (forall b, (0 <= py_index (cfg_max_dims cfg) b)%Z) -> Forall (fun z => (0 <= z)%Z) dop -> length din = n -> length dop = n ->
  forall e d, dsem cfg din dop e d -> length d = n /\ Forall2 Z.le d (dbound din dop (limits cfg n) e).
Proof. exact dbound_sound. Qed.
Print Assumptions C09_dims_bound_sound.

(* two-site projector splitting: every interior bond is re-truncated by _update_mps at least once per step (kept count
   <= limit: C05_m_le_limit for the generated rule) and afterwards only touched by QR: all bonds obey the limit *)
Theorem C09_dims_le_limit_ps2 : forall (kept : nat -> Z) (qr : nat -> Z -> Z) (M : nat -> Z),
  (forall l, (kept l <= M l)%Z) -> (forall b x, (qr b x <= x)%Z) ->
  forall n (dt : Q) (to_right : bool) d b, 2 <= n -> b < n - 1 ->
  let q := if to_right then 0 else n - 1 in
  (ps2_dims_run kept qr (ps2_step n to_right q dt) d b <= M b)%Z.
Proof. exact ps2_dims_le_limit. Qed.
Print Assumptions C09_dims_le_limit_ps2.

(* which limit the two-site update reads: `_update_mps(., [l, l+1], ...)` hands mtrunc_idx_single (GENERATED from mp.py by tx/sweepsched.py,
   shared with C08) to compute_m_trunc, and _fixed_m_trunc reads max_dims[fixed_bond ...]: in BOTH sweep directions that is bond l+1 of
   bond_dims, the bond between the two sites of the pair -- so `kept l <= M l` of C09_dims_le_limit_ps2 is about the pair's own bond, also for
   non-uniform per-bond limits *)
Theorem C09_ps2_trunc_bond_is_pair_bond : forall (to_right : bool) (l : Z),
  fixed_bond to_right (mtrunc_idx_single to_right [l; (l + 1)%Z]) = (l + 1)%Z.
Proof. exact (fun to_right l => match to_right with true => eq_refl | false => eq_refl end). Qed.
Print Assumptions C09_ps2_trunc_bond_is_pair_bond.

(* non-vacuity: a spectrum of three values cut at a bond with limit 2 keeps 2; the interpreter's bound of an RK4 step *)
Example C09_dims_example :
  dsem (mk_config Fixed (1 # 1000) [1; 2; 1]%Z) [3%Z] [4%Z] (DCompress DIn) [2%Z]
  /\ dbound [2; 2]%Z [3; 3]%Z [5; 5]%Z (rk_dexp tab_5) = [5; 5]%Z
  /\ dbound [2; 2]%Z [3; 3]%Z [100; 100]%Z (taylor_dexp 1) = [8; 8]%Z.
Proof.
  split; [|split; vm_compute; reflexivity].
  apply SCompress with (da := [3%Z]); [constructor|].
  apply CutCons with (sigma := [1; 1; 1]%Q) (idx := 1%Z) (left := false); try reflexivity; try discriminate; try (cbn; apply Z.le_refl); constructor.
Qed.

Example C09_ps_example :
  ps1_step 3 true 0 1 =
  [Fwd 0 (1 / 2); Split 0 0; Bwd 0 (1 / 2); Absorb 0 1; Fwd 1 (1 / 2); Split 1 1; Bwd 1 (1 / 2); Absorb 1 2; Fwd 2 (1 / 2);
   Fwd 2 (1 / 2); Split 2 1; Bwd 1 (1 / 2); Absorb 1 1; Fwd 1 (1 / 2); Split 1 0; Bwd 0 (1 / 2); Absorb 0 0; Fwd 0 (1 / 2)]%Q.
Proof. reflexivity. Qed.
