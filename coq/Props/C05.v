(* C05 -- Truncation respects the bond limit and the discarded-weight error bound.
   Only statements, closed by [exact], with Print Assumptions beneath.  Gen/Trunc.v is regenerated from
   /repo/renormalizer/utils/configs.py on every run (tx/trunc.py); threshold_m_trunc, fixed_m_trunc,
   compute_m_trunc, criteria, config, set_bonddim below are the GENERATED definitions.
   Comparison sigma_i/||sigma|| > thr is root-free: sigma_i^2 > thr^2 * sum sigma^2 (sigma >= 0, thr > 0). *)
From Coq Require Import QArith ZArith List Bool Arith Permutation Lia Ring.
Import ListNotations.
From RV Require Import Model.Trunc Gen.Trunc Base.Inner Proofs.TruncProofs.
Close Scope Q_scope.
Local Open Scope Z_scope.

(* ------------------------------------------------------------------ A. generated kept-count rules *)
(* the limit used is that of the bond physically cut: idx+1 when sweeping to the right, idx otherwise *)
Theorem C05_fixed_le_M : forall self sigma idx left,
  fixed_m_trunc self sigma idx left <= py_index (cfg_max_dims self) (cut_bond idx left).
Proof. exact fixed_le_M. Qed.
Print Assumptions C05_fixed_le_M.

Theorem C05_both_le_min : forall self sigma idx left, cfg_criteria self = Both ->
  compute_m_trunc self sigma idx left
    <= Z.min (Z.min (py_index (cfg_max_dims self) (cut_bond idx left)) (py_len sigma)) (threshold_m_trunc self sigma).
Proof. exact both_le_min. Qed.
Print Assumptions C05_both_le_min.

Theorem C05_m_le_limit : forall self sigma idx left, cfg_criteria self <> Threshold ->
  compute_m_trunc self sigma idx left <= py_index (cfg_max_dims self) (cut_bond idx left).
Proof. exact m_trunc_le_M. Qed.
Print Assumptions C05_m_le_limit.

(* 0 <= m <= length sigma, every criterion, every non-empty spectrum, every non-negative limit *)
Theorem C05_m_range : forall self sigma idx left, sigma <> [] ->
  0 <= py_index (cfg_max_dims self) (cut_bond idx left) ->
  0 <= compute_m_trunc self sigma idx left <= py_len sigma.
Proof. exact m_trunc_range. Qed.
Print Assumptions C05_m_range.

(* at least one state is kept (holds since fix c811baf; independent of the norm of sigma) *)
Theorem C05_m_pos : forall self sigma idx left, sigma <> [] ->
  1 <= py_index (cfg_max_dims self) (cut_bond idx left) ->
  1 <= compute_m_trunc self sigma idx left.
Proof. exact m_trunc_pos. Qed.
Print Assumptions C05_m_pos.

Theorem C05_threshold_keeps_one : forall self sigma, 1 <= threshold_m_trunc self sigma.
Proof. exact threshold_ge_1. Qed.
Print Assumptions C05_threshold_keeps_one.

(* descending non-negative spectrum: the kept positions 0..m-1 are exactly a prefix whose entries (except
   the forced first one) are weakly above the threshold, every discarded entry is weakly below it *)
Theorem C05_threshold_prefix : forall self sigma, descending sigma -> nonneg sigma ->
  forall i, (i < length sigma)%nat ->
    (Z.of_nat i < threshold_m_trunc self sigma ->
       i = 0%nat \/ weakly_above sigma (cfg_threshold self) (nth i sigma 0%Q)) /\
    (threshold_m_trunc self sigma <= Z.of_nat i -> weakly_below sigma (cfg_threshold self) (nth i sigma 0%Q)).
Proof. exact threshold_prefix. Qed.
Print Assumptions C05_threshold_prefix.

(* keeping the first m of a descending spectrum keeps the largest possible weight among all choices of m *)
Theorem C05_kept_are_largest : forall sigma, descending sigma -> nonneg sigma ->
  forall l l', Permutation l l' -> subseq l' sigma -> (sumsq l <= sumsq (firstn (length l) sigma))%Q.
Proof. exact kept_are_largest. Qed.
Print Assumptions C05_kept_are_largest.

Theorem C05_kept_dominate_discarded : forall sigma, descending sigma ->
  forall m x y, In x (firstn m sigma) -> In y (skipn m sigma) -> (y <= x)%Q.
Proof. exact kept_dominate_discarded. Qed.
Print Assumptions C05_kept_dominate_discarded.

(* svd_qn's global sort: for any permutation of the sector spectra that is descending (argsort ties are
   arbitrary), the first m weigh at least as much as any m values picked from any sectors *)
Theorem C05_global_sort_keeps_largest : forall (blocks : list (list Q)) s, Permutation (concat blocks) s ->
  descending s -> nonneg s ->
  forall chosen chosen', Permutation chosen chosen' -> subseq chosen' s ->
    (sumsq chosen <= sumsq (firstn (length chosen) s))%Q /\
    (sumsq (concat blocks) == sumsq (firstn (length chosen) s) + discarded (length chosen) s)%Q.
Proof. exact global_sort_keeps_largest. Qed.
Print Assumptions C05_global_sort_keeps_largest.

(* ------------------------------------------------------------------ B. projections *)
(* nesting condition: every later iterate lies in the range of every earlier projector.  Self-adjointness
   is the only operator property needed (idempotence on the orbit is the case k = j+1 of the nesting). *)
Theorem C05_nested_projection_pythagoras :
  forall (R : OrdRing) (E : InnerSpace R) (P : nat -> E -> E) (psi : nat -> E) (n : nat),
    (forall k, (k < n)%nat -> self_adjoint E (P k)) ->
    (forall k, (k < n)%nat -> psi (S k) = P k (psi k)) ->
    (forall j k, (j < k)%nat -> (k <= n)%nat -> P j (psi k) = psi k) ->
    normsq E (vsub E (psi 0%nat) (psi n)) = ksum_upto (fun k => normsq E (vsub E (psi k) (psi (S k)))) n
    /\ normsq E (psi 0%nat) = kadd R (normsq E (psi n)) (ksum_upto (fun k => normsq E (vsub E (psi k) (psi (S k)))) n)
    /\ kle R (normsq E (psi n)) (normsq E (psi 0%nat)).
Proof. exact nested_projection_pythagoras. Qed.
Print Assumptions C05_nested_projection_pythagoras.

(* the chain sweep: range P_k inside range P_j for j < k implies the nesting condition *)
Theorem C05_decreasing_projectors_nested :
  forall (R : OrdRing) (E : InnerSpace R) (P : nat -> E -> E) (psi : nat -> E) n,
    (forall k, (k < n)%nat -> idempotent E (P k)) ->
    (forall k, (k < n)%nat -> psi (S k) = P k (psi k)) ->
    (forall j k v, (j < k)%nat -> (k < n)%nat -> P j (P k v) = P k v) ->
    forall j k, (j < k)%nat -> (k <= n)%nat -> P j (psi k) = psi k.
Proof. exact decreasing_projectors_nested. Qed.
Print Assumptions C05_decreasing_projectors_nested.

Theorem C05_commuting_projectors_nested :
  forall (R : OrdRing) (E : InnerSpace R) (P : nat -> E -> E) (psi : nat -> E) n,
    (forall k, (k < n)%nat -> idempotent E (P k)) ->
    (forall k, (k < n)%nat -> psi (S k) = P k (psi k)) ->
    (forall j k v, (j < k)%nat -> (k < n)%nat -> P j (P k v) = P k (P j v)) ->
    forall j k, (j < k)%nat -> (k <= n)%nat -> P j (psi k) = psi k.
Proof. exact commuting_projectors_nested. Qed.
Print Assumptions C05_commuting_projectors_nested.

(* squared distance = sum over the steps of the discarded squared singular values (normsq of the a-th
   Schmidt component of step k is sigma_{k,a}^2), for any kept counts m k *)
Theorem C05_error_identity :
  forall (R : OrdRing) (E : InnerSpace R) (P : nat -> E -> E) (psi : nat -> E) (n : nat)
         (comps : nat -> list E) (m : nat -> nat),
    (forall k, (k < n)%nat -> self_adjoint E (P k)) ->
    (forall k, (k < n)%nat -> psi (S k) = P k (psi k)) ->
    (forall j k, (j < k)%nat -> (k <= n)%nat -> P j (psi k) = psi k) ->
    (forall k, (k < n)%nat -> psi k = vsum E (comps k) /\ pairwise_orth E (comps k) /\
                              Forall (fun e => P k e = e) (firstn (m k) (comps k)) /\
                              Forall (fun e => P k e = v0 E) (skipn (m k) (comps k))) ->
    normsq E (vsub E (psi 0%nat) (psi n))
      = ksum_upto (fun k => ksum (map (normsq E) (skipn (m k) (comps k)))) n
    /\ kle R (normsq E (psi n)) (normsq E (psi 0%nat)).
Proof. exact error_identity. Qed.
Print Assumptions C05_error_identity.

(* any sequence of orthogonal projections (trees: the sweep is not nested) never increases the norm *)
Theorem C05_projection_sequence_norm :
  forall (R : OrdRing) (E : InnerSpace R) (P : nat -> E -> E) (psi : nat -> E) n,
    (forall k, (k < n)%nat -> orth_projector E (P k)) ->
    (forall k, (k < n)%nat -> psi (S k) = P k (psi k)) ->
    kle R (normsq E (psi n)) (normsq E (psi 0%nat)).
Proof. exact projection_sequence_norm. Qed.
Print Assumptions C05_projection_sequence_norm.

(* PARTIAL -- both inequalities of the property, derived from ONE named fact of linear algebra that is NOT
   proved here: Ky Fan's maximum principle (Base/Inner.v: ky_fan_principle; K. Fan, PNAS 35 (1949) 652;
   Bhatia, Matrix Analysis, Problem I.6.15 / Ex. II.1.13; Horn & Johnson 2nd ed. Cor. 4.3.39):
       top k v  :=  sum of the m_k largest squared Schmidt values of v at the bond cut in step k
                =  max |X v|^2 over orthogonal projectors X of rank <= m_k acting on one side of that bond,
                   attained by a right-acting one.
   discarded_weight (top k) v = |v|^2 - top k v  is the discarded weight D_k(v).  Conclusion (chains):
       forall k < n,  D_k(psi_0)  <=  |psi_0 - psi_n|^2  <=  sum_{k<n} D_k(psi_0).
   The other hypotheses carry no spectral content: the step projectors are additive orthogonal projectors, nested
   (C05_decreasing_projectors_nested), members of the class at their own bond, keep the top-m weight (SVD contract:
   truncation keeps the m largest singular values -- C05_kept_are_largest), and earlier (left-block) projectors
   commute with right-acting projectors of later bonds (disjoint tensor factors).
   What remains unproved: Ky Fan's principle itself, and that a concrete tensor-product space satisfies
   projector_class / Hcomm (standard).  Checked numerically on the real code on every run. *)
Theorem C05_bounds_partial :
  forall (R : OrdRing) (E : InnerSpace R) (P : nat -> E -> E) (psi : nat -> E) (n : nat)
         (side right : nat -> (E -> E) -> Prop) (top : nat -> E -> R),
    (forall k, (k < n)%nat -> orth_projector E (P k) /\ additive E (P k)) ->
    (forall k, (k < n)%nat -> psi (S k) = P k (psi k)) ->
    (forall j k, (j < k)%nat -> (k <= n)%nat -> P j (psi k) = psi k) ->
    (forall k, (k < n)%nat -> projector_class E (side k) (right k)) ->
    (forall k, (k < n)%nat -> ky_fan_principle E (side k) (right k) (top k)) ->      (* <-- the spectral hypothesis *)
    (forall k, (k < n)%nat -> side k (P k)) ->
    (forall k, (k < n)%nat -> normsq E (psi (S k)) = top k (psi k)) ->
    (forall j k, (j < k)%nat -> (k < n)%nat -> forall Q w, right k Q -> P j (Q w) = Q (P j w)) ->
    kle R (normsq E (vsub E (psi 0%nat) (psi n))) (ksum_upto (fun k => discarded_weight R E (top k) (psi 0%nat)) n)
    /\ (forall k, (k < n)%nat ->
          kle R (discarded_weight R E (top k) (psi 0%nat)) (normsq E (vsub E (psi 0%nat) (psi n)))).
Proof. exact bounds_from_ky_fan. Qed.
Print Assumptions C05_bounds_partial.

(* the two one-bond consequences of Ky Fan's principle used above *)
(* "interlacing" in the form needed: a projector on the other tensor factor does not increase the discarded weight *)
Theorem C05_left_projection_discard_partial :
  forall (R : OrdRing) (E : InnerSpace R) (side right : (E -> E) -> Prop) (top : E -> R),
    projector_class E side right -> ky_fan_principle E side right top ->
    forall P v, orth_projector E P -> additive E P -> (forall Q w, right Q -> P (Q w) = Q (P w)) ->
      kle R (discarded_weight R E top (P v)) (discarded_weight R E top v).
Proof. exact left_projection_discard. Qed.
Print Assumptions C05_left_projection_discard_partial.

(* Eckart-Young in the form needed: anything fixed by a rank-<=m one-sided projector is at least D(v) away from v *)
Theorem C05_eckart_young_partial :
  forall (R : OrdRing) (E : InnerSpace R) (side right : (E -> E) -> Prop) (top : E -> R),
    projector_class E side right -> ky_fan_principle E side right top ->
    forall X v w, side X -> X w = w -> kle R (discarded_weight R E top v) (normsq E (vsub E v w)).
Proof. exact eckart_young_member. Qed.
Print Assumptions C05_eckart_young_partial.

(* older, weaker form kept: upper bound given per-step interlacing as the hypothesis, lower bound with step discards *)
Theorem C05_bounds_given_step_interlacing :
  forall (R : OrdRing) (E : InnerSpace R) (P : nat -> E -> E) (psi : nat -> E) (n : nat) (D : nat -> R),
    (forall k, (k < n)%nat -> self_adjoint E (P k)) ->
    (forall k, (k < n)%nat -> psi (S k) = P k (psi k)) ->
    (forall j k, (j < k)%nat -> (k <= n)%nat -> P j (psi k) = psi k) ->
    (forall k, (k < n)%nat -> kle R (normsq E (vsub E (psi k) (psi (S k)))) (D k)) ->
    kle R (normsq E (vsub E (psi 0%nat) (psi n))) (ksum_upto D n)
    /\ (forall k, (k < n)%nat ->
          kle R (normsq E (vsub E (psi k) (psi (S k)))) (normsq E (vsub E (psi 0%nat) (psi n)))).
Proof. exact bounds_partial. Qed.
Print Assumptions C05_bounds_given_step_interlacing.

(* ------------------------------------------------------------------ C. dimensions after compress *)
(* All definitions below (compress_idx_list, update_ms_bond, compress_m_trunc, compress_step_dim, compress_dims,
   compress_max_dims, compress_node_m_trunc, compress_node_dim, tree_compress_events, tree_compress_dims) are
   GENERATED from mps/mp.py (iter_idx_list, compress, _update_ms), tn/tree.py (TTNS.compress, compress_node,
   compress_recursion) and utils/configs.py (bonddim_should_set, set_bonddim).  temp = the temp_m_trunc argument. *)

(* chains: every interior bond is cut exactly once by the generated schedule and receives min(kept count, len) *)
Theorem C05_chain_cut_once : forall cc n to_right temp spectrum dims0, length dims0 = S n ->
  forall b, (1 <= b <= n - 1)%nat ->
    exists idx, In idx (compress_idx_list (Z.of_nat n) to_right) /\ update_ms_bond idx to_right = Z.of_nat b /\
      nth b (compress_dims cc (Z.of_nat n) to_right temp spectrum dims0) 0
        = compress_step_dim cc to_right temp (spectrum idx) idx.
Proof. exact gen_chain_cut_once. Qed.
Print Assumptions C05_chain_cut_once.

(* ... and obeys ITS OWN limit, in both sweep directions, for every way of giving the limit: the config's per-bond
   list (criterion fixed/both), a temp_m_trunc list, a temp_m_trunc integer *)
Theorem C05_chain_dims_after_compress : forall cc n to_right temp spectrum dims0, length dims0 = S n ->
  forall b, (1 <= b <= n - 1)%nat ->
    let d := nth b (compress_dims cc (Z.of_nat n) to_right temp spectrum dims0) 0 in
    match temp with
    | TNone => cfg_criteria cc <> Threshold -> d <= py_index (cfg_max_dims cc) (Z.of_nat b)
    | TInt v => d <= v
    | TList l => d <= py_index l (Z.of_nat b)
    end.
Proof. exact gen_chain_dims_after_compress. Qed.
Print Assumptions C05_chain_dims_after_compress.

(* global limit M: CompressConfig(criteria, max_bonddim=M) without a per-bond list (compress() calls set_bonddim) *)
Theorem C05_chain_dims_global_M : forall crit thr M n to_right spectrum dims0, length dims0 = S n ->
  crit <> Threshold ->
  forall b, (1 <= b <= n - 1)%nat ->
    nth b (compress_dims (mk_config crit thr (compress_max_dims crit None M (Z.of_nat n))) (Z.of_nat n) to_right TNone
                         spectrum dims0) 0 <= M.
Proof. exact gen_chain_dims_global_M. Qed.
Print Assumptions C05_chain_dims_global_M.

(* trees: the generated traversal truncates the bond above every non-root node exactly once (pre-order) *)
Theorem C05_tree_visits_each_bond_once : forall t, NoDup (preorder t) ->
  truncated_children (tree_compress_events t) = tl (preorder t) /\
  NoDup (truncated_children (tree_compress_events t)).
Proof. exact gen_tree_visits. Qed.
Print Assumptions C05_tree_visits_each_bond_once.

(* ... and its final dimension is at most the kept count selected for it (idx = its node index) and obeys its own limit *)
Theorem C05_tree_dims_after_compress : forall cc temp spectrum qr_dim, (forall c d, qr_dim c d <= d) ->
  forall t dims0 c, In c (tl (preorder t)) ->
    let d := tree_compress_dims cc temp spectrum qr_dim t dims0 c in
    d <= compress_node_dim cc temp (spectrum c) (Z.of_nat c) /\
    match temp with
    | TNone => cfg_criteria cc <> Threshold -> d <= py_index (cfg_max_dims cc) (Z.of_nat c)
    | TInt v => d <= v
    | TList l => d <= py_index l (Z.of_nat c)
    end.
Proof. exact gen_tree_dims_after_compress. Qed.
Print Assumptions C05_tree_dims_after_compress.

(* ------------------------------------------------------------------ D. copies and the max_dims cache *)
(* config_copy_dict, mp_metacopy_config, ttns_metacopy_config are GENERATED from CompressConfig.copy,
   MatrixProduct.metacopy, TTNS.metacopy (Mps/Mpo.metacopy checked to go through super() and not to touch the
   configuration).  Heap model: Model/Trunc.v part 4 (a reference = an attribute namespace, python __dict__). *)

(* the configuration of x.copy() / x.metacopy() (hence of add / apply results) lives in a FRESH attribute
   namespace holding a snapshot of the source's; no aliasing with the source, nothing of the old heap moves *)
Theorem C05_copy_config_is_fresh :
  (forall h r, (r < length h)%nat ->
     let '(h', r') := mp_copy_config h r in
     r' = length h /\ r' <> r /\ length h' = S (length h) /\ h_get cfg_dflt h' r' = h_get cfg_dflt h r /\
     (forall q, (q < length h)%nat -> h_get cfg_dflt h' q = h_get cfg_dflt h q)) /\
  (forall h r, (r < length h)%nat ->
     let '(h', r') := ttns_copy_config h r in
     r' = length h /\ r' <> r /\ length h' = S (length h) /\ h_get cfg_dflt h' r' = h_get cfg_dflt h r /\
     (forall q, (q < length h)%nat -> h_get cfg_dflt h' q = h_get cfg_dflt h q)).
Proof. exact (conj mp_copy_is_fresh ttns_copy_is_fresh). Qed.
Print Assumptions C05_copy_config_is_fresh.

(* WHEN max_dims is (re)computed: compress() fills it from bond_dim_max_value iff it is None and the criterion has a
   limit; a filled max_dims is never refreshed (it is a cache: later changes of bond_dim_max_value are ignored) *)
Theorem C05_max_dims_cache :
  (forall h r n md, f_max_dims (h_get cfg_dflt h r) = Some md -> compress_ensure_max_dims h r n = h) /\
  (forall h r n, f_criteria (h_get cfg_dflt h r) = Threshold -> compress_ensure_max_dims h r n = h) /\
  (forall h r n, (r < length h)%nat -> f_criteria (h_get cfg_dflt h r) <> Threshold ->
     f_max_dims (h_get cfg_dflt (compress_ensure_max_dims h r (Z.to_nat n)) r)
     = Some (effective_max_dims (f_criteria (h_get cfg_dflt h r)) (f_max_dims (h_get cfg_dflt h r))
                                (f_bond_dim_max_value (h_get cfg_dflt h r)) n)).
Proof. exact (conj max_dims_is_a_cache (conj max_dims_threshold_untouched ensure_matches_effective)). Qed.
Print Assumptions C05_max_dims_cache.

(* c = x.copy(); c.compress_config.bond_dim_max_value = M2; c.compress_config.criteria = crit; c.compress()
   on a copy of a state whose limits were never filled: the limits used are the NEW ones (M2 on every bond),
   whatever was compressed before in the process, and the source's configuration is unchanged.  Chains and trees. *)
Theorem C05_fresh_copy_uses_new_limit :
  forall (tree_state : bool) h r M2 crit n, (r < length h)%nat -> crit <> Threshold ->
    f_max_dims (h_get cfg_dflt h r) = None ->
    let '(h1, r') := (if tree_state then ttns_copy_config else mp_copy_config) h r in
    let h4 := compress_ensure_max_dims (store_criteria cfg_dflt (store_M cfg_dflt h1 r' M2) r' crit) r' n in
    f_max_dims (h_get cfg_dflt h4 r') = Some (repeat M2 n) /\ f_criteria (h_get cfg_dflt h4 r') = crit /\
    h_get cfg_dflt h4 r = h_get cfg_dflt h r.
Proof.
  exact (fun b => match b with
                  | true => fresh_copy_uses_new_limit_gen ttns_copy_config ttns_copy_is_fresh
                  | false => fresh_copy_uses_new_limit_gen mp_copy_config mp_copy_is_fresh
                  end).
Qed.
Print Assumptions C05_fresh_copy_uses_new_limit.

(* `new.__dict__ = self.__dict__` (aliasing) is observable: a store through the copy changes the source *)
Theorem C05_config_alias_refuted :
  exists h r, (r < length h)%nat /\
    let '(h', r') := metacopy_config AttrCopyMethod DictAlias cfg_dflt h r in
    h_get cfg_dflt (store_M cfg_dflt h' r' 2) r <> h_get cfg_dflt h r.
Proof. exact alias_refuted. Qed.
Print Assumptions C05_config_alias_refuted.

(* ------------------------------------------------------------------ documented refutations *)
(* the rule WITHOUT the max(.,1) of fix c811baf keeps nothing for sigma = [1;1], thr = 9/10 *)
Theorem C05_threshold_zero_prefix_refuted :
  exists s thr, s <> [] /\ (0 < thr)%Q /\ (thr < 1)%Q /\ ~ (sumsq s == 0)%Q /\
                count_true (nv_cmp OpGt (normalised s) thr) = 0.
Proof. exact threshold_zero_prefix_refuted. Qed.
Print Assumptions C05_threshold_zero_prefix_refuted.

(* ------------------------------------------------------------------ non-vacuity *)
Example ex_rules :
  let cfg := mk_config Both (1 # 2) [1; 3; 2; 1] in
  let s := [(3 # 1); (2 # 1); (1 # 1); 0]%Q in
  compute_m_trunc cfg s 0 true = 2 /\ fixed_m_trunc cfg s 0 true = 3 /\ fixed_m_trunc cfg s 2 false = 2
  /\ threshold_m_trunc cfg s = 2 /\ threshold_m_trunc cfg [1; 1]%Q = 2
  /\ descendingb s = true.
Proof. vm_compute. repeat split; reflexivity. Qed.
Example ex_regression_input : threshold_m_trunc (mk_config Threshold (9 # 10) []) [1; 1]%Q = 1.
Proof. reflexivity. Qed.

(* an ordered ring and an inner-product space: Z and Z^3 *)
Definition ZOrd : OrdRing.
Proof.
  refine {| K := Z; k0 := 0; k1 := 1; kadd := Z.add; kmul := Z.mul; ksub := Z.sub; kopp := Z.opp; kle := Z.le |}.
  - constructor; intros; ring.
  - intros; lia.
  - intros; lia.
  - intros; lia.
  - intros; lia.
  - intros; lia.
  - intros; nia.
Defined.

Definition Z3 := (Z * Z * Z)%type.
Definition dot3 (u v : Z3) : Z := let '(a, b, c) := u in let '(x, y, z) := v in a * x + b * y + c * z.
Definition Z3Space : InnerSpace ZOrd.
Proof.
  refine (@Build_InnerSpace ZOrd Z3 (0, 0, 0)
            (fun u v => let '(a, b, c) := u in let '(x, y, z) := v in (a + x, b + y, c + z))
            (fun u v => let '(a, b, c) := u in let '(x, y, z) := v in (a - x, b - y, c - z))
            dot3 _ _ _ _ _).
  - intros [[a b] c] [[x y] z]. cbn. ring.
  - intros [[a b] c] [[x y] z] [[p q] r]. cbn. ring.
  - intros [[a b] c] [[x y] z] [[p q] r]. cbn. ring.
  - intros [[p q] r]. cbn. ring.
  - intros [[a b] c]. cbn. nia.
Defined.

Definition exP (k : nat) (u : Z3) : Z3 :=
  let '(a, b, c) := u in match k with O => (a, b, 0) | _ => (a, 0, 0) end.
Definition exPsi (k : nat) : Z3 := match k with O => (3, 4, 12) | S O => (3, 4, 0) | _ => (3, 0, 0) end.
Definition exComps (k : nat) : list Z3 :=
  match k with O => [(3, 0, 0); (0, 4, 0); (0, 0, 12)] | _ => [(3, 0, 0); (0, 4, 0)] end.
Definition exM (k : nat) : nat := match k with O => 2%nat | _ => 1%nat end.

(* the hypotheses of C05_error_identity (hence of the Pythagoras theorem) hold for a two-step sweep that
   really discards weight: 160 = 144 + 16 *)
Example ex_hypotheses :
  (forall k, (k < 2)%nat -> self_adjoint Z3Space (exP k)) /\
  (forall k, (k < 2)%nat -> exPsi (S k) = exP k (exPsi k)) /\
  (forall j k, (j < k)%nat -> (k <= 2)%nat -> exP j (exPsi k) = exPsi k) /\
  (forall k, (k < 2)%nat -> exPsi k = vsum Z3Space (exComps k) /\ pairwise_orth Z3Space (exComps k) /\
        Forall (fun e => exP k e = e) (firstn (exM k) (exComps k)) /\
        Forall (fun e => exP k e = v0 Z3Space) (skipn (exM k) (exComps k))) /\
  normsq Z3Space (vsub Z3Space (exPsi 0%nat) (exPsi 2%nat)) = 160.
Proof.
  split; [|split; [|split; [|split]]].
  - intros k Hk [[a b] c] [[x y] z]. destruct k as [|[|k]]; cbn; ring.
  - intros k Hk. destruct k as [|[|k]]; [reflexivity|reflexivity|lia].
  - intros j k H1 H2. destruct j as [|[|j]], k as [|[|[|k]]]; try lia; reflexivity.
  - intros k Hk. destruct k as [|[|k]]; [| |lia]; cbn;
      repeat split; repeat constructor.
  - reflexivity.
Qed.

(* a branching tree with depth two: 0 -> (1 -> (3, 4), 2) *)
Example ex_tree :
  let t := Node 0 [Node 1 [Node 3 []; Node 4 []]; Node 2 []] in
  tree_compress_events t = [EvTrunc 0 1 true; EvTrunc 1 3 false; EvTrunc 1 4 false; EvPush 1; EvTrunc 0 2 false]
  /\ preorder t = [0; 1; 3; 4; 2]%nat /\ compress_idx_list 4 true = [0; 1; 2] /\ compress_idx_list 4 false = [3; 2; 1]
  /\ compress_trace (mk_config Fixed (1 # 2) [1; 2; 3; 4; 1]) 4 false (TList [1; 5; 6; 7; 1]) (fun _ => [1; 1; 1; 1; 1; 1; 1; 1]%Q)
     = [3; 3; 7; 2; 2; 6; 1; 1; 5].
Proof. vm_compute. repeat split; reflexivity. Qed.

(* the hypotheses of C05_bounds_partial are satisfiable (same two-step sweep in Z^3; the classes are small but the
   sweep really discards weight: D_0 = 144, D_1 = 16 + 144, 160 lies in [160, 304]) *)
Definition exSide (k : nat) (X : Z3 -> Z3) : Prop := match k with O => X = exP 0 \/ X = exP 1 | _ => X = exP 1 end.
Definition exRight (k : nat) (X : Z3 -> Z3) : Prop := match k with O => X = exP 0 | _ => X = exP 1 end.
Definition exTop (k : nat) (v : Z3) : Z := dot3 (exP k v) (exP k v).
Example ex_ky_fan_hypotheses :
  (forall k, (k < 2)%nat -> orth_projector Z3Space (exP k) /\ additive Z3Space (exP k)) /\
  (forall k, (k < 2)%nat -> projector_class Z3Space (exSide k) (exRight k)) /\
  (forall k, (k < 2)%nat -> ky_fan_principle Z3Space (exSide k) (exRight k) (exTop k)) /\
  (forall k, (k < 2)%nat -> exSide k (exP k)) /\
  (forall k, (k < 2)%nat -> normsq Z3Space (exPsi (S k)) = exTop k (exPsi k)) /\
  (forall j k, (j < k)%nat -> (k < 2)%nat -> forall Q w, exRight k Q -> exP j (Q w) = Q (exP j w)) /\
  discarded_weight ZOrd Z3Space (exTop 0%nat) (exPsi 0%nat) = 144 /\ discarded_weight ZOrd Z3Space (exTop 1%nat) (exPsi 0%nat) = 160.
Proof.
  assert (forall k, orth_projector Z3Space (exP k) /\ additive Z3Space (exP k)) as OP.
  { intro k. split; [split|].
    - intros [[a b] c]. destruct k; reflexivity.
    - intros [[a b] c] [[x y] z]. destruct k; cbn; ring.
    - intros [[a b] c] [[x y] z]. destruct k; cbn; f_equal; try f_equal; ring. }
  split; [intros; apply OP|]. split.
  { intros k Hk. split.
    - intros X HX. destruct k as [|[|k]]; cbn in *; [left; exact HX|exact HX|lia].
    - intros X HX. destruct k as [|[|k]]; cbn in HX; [destruct HX as [->| ->]| subst X|lia]; apply OP. }
  split.
  { intros k Hk. split.
    - intros X [[a b] c] HX. destruct k as [|[|k]]; cbn in HX; [destruct HX as [->| ->]| subst X|lia]; cbn; nia.
    - intros v. exists (exP k). split; [destruct k as [|[|k]]; cbn; try reflexivity; lia|reflexivity]. }
  split; [intros k Hk; destruct k as [|[|k]]; cbn; [left; reflexivity|reflexivity|lia]|].
  split; [intros k Hk; destruct k as [|[|k]]; [reflexivity|reflexivity|lia]|].
  split; [|split; reflexivity].
  intros j k H1 H2 Q [[a b] c] HQ. destruct j as [|j], k as [|[|k]]; try lia. cbn in HQ. subst Q. reflexivity.
Qed.

(* a history: base config (Threshold default, no limits), first copy compressed with M = 6, second with M = 2 *)
Example ex_history :
  let h0 := [mk_cfields Threshold (1 # 1000)%Q 32 None] in
  let '(h1, a) := mp_copy_config h0 0 in
  let h2 := compress_ensure_max_dims (store_criteria cfg_dflt (store_M cfg_dflt h1 a 6) a Fixed) a 4 in
  let '(h3, b) := mp_copy_config h2 0 in
  let h4 := compress_ensure_max_dims (store_criteria cfg_dflt (store_M cfg_dflt h3 b 2) b Fixed) b 4 in
  f_max_dims (h_get cfg_dflt h4 a) = Some [6; 6; 6; 6] /\ f_max_dims (h_get cfg_dflt h4 b) = Some [2; 2; 2; 2] /\
  h_get cfg_dflt h4 0 = h_get cfg_dflt h0 0.
Proof. vm_compute. repeat split; reflexivity. Qed.
