(* C19 -- Integrator coefficient tables have their advertised order.
   Only statements, closed by [exact], with Print Assumptions beneath.  The tableaux in
   Gen/RkTableaux.v are regenerated from /repo/renormalizer/utils/rk.py on every run. *)
From Coq Require Import QArith ZArith List Arith.
Import ListNotations.
From RV Require Import Gen.RkTableaux Model.Rk Proofs.RkProofs.
Close Scope Q_scope.

(* every shipped method, every row of b (main and embedded) with its advertised order p, every rooted
   tree tr of order <= p (unbounded in shape; p is whatever the source advertises): the Butcher order
   condition  sum_i b_i Phi_i(tr) = 1/gamma(tr)  holds exactly over Q *)
Theorem C19_order_conditions :
  forall t, In t methods ->
  forall b p tr, In (b, p) (rows t) -> order tr <= p ->
    (dotq b (Phi (t_a t) tr) * gamma tr == 1)%Q.
Proof. exact order_conditions_all. Qed.
Print Assumptions C19_order_conditions.

Theorem C19_nodes_are_row_sums :
  forall t, In t methods -> forall i, i < t_stage t ->
    (qsum (nth i (t_a t) []) == nth i (t_c t) 0)%Q.
Proof. exact nodes_are_row_sums_all. Qed.
Print Assumptions C19_nodes_are_row_sums.

Theorem C19_explicit :
  forall t, In t methods -> forall i j, i < length (t_a t) -> i <= j ->
    (nth j (nth i (t_a t) []) 0 == 0)%Q.
Proof. exact explicit_all. Qed.
Print Assumptions C19_explicit.

(* the constant-coefficient expansion computed as runge_kutta_ti_coefficient does equals 1/k! up to
   the advertised order of each row *)
Theorem C19_ti_coeff_taylor :
  forall t, In t methods ->
  forall row p, In (row, p) (combine (ti_coeff t) (t_order t)) ->
  forall k, k <= p -> (nth k row 0 * qfact k == 1)%Q.
Proof. exact ti_coeff_taylor_all. Qed.
Print Assumptions C19_ti_coeff_taylor.

Theorem C19_taylor_coeff : forall k, (taylor_coeff k * qfact k == 1)%Q.
Proof. exact taylor_coeff_exact. Qed.
Print Assumptions C19_taylor_coeff.

Theorem C19_embedded_gap : forall t, In t methods -> embedded_gap_ok t = true.
Proof. exact embedded_gap_all. Qed.
Print Assumptions C19_embedded_gap.

(* the two halves agree beyond the advertised order too: for every power k up to the stage number the
   k-th coefficient of the table recursion is the elementary weight b . A^(k-1) . 1 of the tall tree
   with k vertices (so a recursion error in a high, non-Taylor coefficient is an error against the
   tableau itself, not only against 1/k!), and every coefficient row has stage+1 entries *)
Theorem C19_ti_coeff_is_tall_tree_weight :
  forall t, In t methods ->
  length (ti_coeff t) = length (t_b t) /\
  forall b row, In (b, row) (combine (t_b t) (ti_coeff t)) ->
    length row = S (t_stage t) /\
    forall k, 1 <= k <= t_stage t -> (nth k row 0 == dotq b (Phi (t_a t) (tall k)))%Q.
Proof. exact ti_coeff_tall_all. Qed.
Print Assumptions C19_ti_coeff_is_tall_tree_weight.

Theorem C19_tall_tree_order : forall k, 1 <= k -> order (tall k) = k.
Proof. exact tall_order. Qed.
Print Assumptions C19_tall_tree_order.

(* unbounded in k: the density of the tall tree with k vertices is k! *)
Theorem C19_tall_tree_gamma : forall k, 1 <= k -> (gamma (tall k) == qfact k)%Q.
Proof. exact tall_gamma. Qed.
Print Assumptions C19_tall_tree_gamma.

(* hence the Taylor property of the constant-coefficient expansion is a consequence of the Butcher
   conditions on tall trees (derived from C19_order_conditions and the link above, not from a second
   evaluation): the two halves of the model cannot disagree *)
Theorem C19_ti_coeff_taylor_from_conditions :
  forall t, In t methods ->
  forall b row p, In (b, row) (combine (t_b t) (ti_coeff t)) -> In (b, p) (rows t) ->
  forall k, 1 <= k <= t_stage t -> k <= p -> (nth k row 0 * qfact k == 1)%Q.
Proof. exact ti_coeff_taylor_from_conditions. Qed.
Print Assumptions C19_ti_coeff_taylor_from_conditions.

(* rooted trees are unordered: for every tableau matrix, weight row and trees u v w, grafting v then w
   onto u gives the same order and the same order-condition left-hand side as grafting w then v
   (unbounded; no reference to the shipped tables), so quantifying over Butcher-product terms [bt] is
   quantifying over rooted trees, and the 23 product terms of order <= 5 cover the 17 rooted trees *)
Theorem C19_child_order_irrelevant :
  forall a b u v w,
    order (Gr (Gr u v) w) = order (Gr (Gr u w) v) /\
    (dotq b (Phi a (Gr (Gr u v) w)) * gamma (Gr (Gr u v) w) ==
     dotq b (Phi a (Gr (Gr u w) v)) * gamma (Gr (Gr u w) v))%Q.
Proof. exact (fun a b u v w => conj (order_graft_swap u v w) (cond_graft_swap a b u v w)). Qed.
Print Assumptions C19_child_order_irrelevant.

(* quadrature conditions stated on the node list c itself (the times at which a time-dependent Hamiltonian
   is sampled): sum_i b_i c_i^(k-1) = 1/k for every k up to the advertised order of the row *)
Theorem C19_node_quadrature :
  forall t, In t methods -> forall b p, In (b, p) (rows t) -> forall k, 1 <= k <= p ->
    (dotq b (map (fun x => qpow x (k - 1)) (t_c t)) * inject_Z (Z.of_nat k) == 1)%Q.
Proof. exact quadrature_all. Qed.
Print Assumptions C19_node_quadrature.

(* unbounded, for every matrix a: the bushy tree with n leaves has n+1 vertices, density n+1 and elementary
   weight (row sum of a)^n -- so the bushy-tree members of C19_order_conditions are exactly quadrature
   conditions on the row sums, which C19_nodes_are_row_sums identifies with the nodes and
   C19_node_quadrature states on the literal node list *)
Theorem C19_bushy_tree_is_row_sum_power :
  forall a n, order (bushy n) = S n /\ (gamma (bushy n) == inject_Z (Z.of_nat (S n)))%Q /\
    Forall2 Qeq (Phi a (bushy n)) (map (fun r => qpow (dotq r (ones a)) n) a).
Proof. exact (fun a n => conj (bushy_order n) (conj (bushy_gamma n) (bushy_Phi a n))). Qed.
Print Assumptions C19_bushy_tree_is_row_sum_power.

(* non-vacuity: ten methods, 23 tree shapes up to order five *)
Example C19_nonvacuous : length methods = 10 /\ length (all_upto 5) = 23.
Proof. vm_compute. split; reflexivity. Qed.
