(* C10 -- Imaginary-time and thermal propagation yield the Gibbs state.
   Only statements, closed by [exact], with Print Assumptions beneath, and Examples.
   Generated inputs (rewritten on every run): Gen/RkTableaux.v (tx/rk.py), Gen/EvolveExact.v (tx/evolveexact.py).
   NOT proved here (oracle only; notes/C10.md): imaginary-time accuracy of the TDVP schemes, np.exp, the local
   eigh of the EX-space propagator, the purification identities (dense oracle), norms as real square roots. *)
From Coq Require Import QArith ZArith List Arith Bool Qcanon.
Import ListNotations.
From RV Require Import Base.CRing Base.BigSum Gen.RkTableaux Gen.EvolveExact Gen.ThermalSites Model.Rk Model.Chain Model.Env Model.Prop Proofs.EnvProofs Proofs.PropProofs.
Close Scope Q_scope.
Close Scope Qc_scope.

(* ================================================================== imaginary-time P&C ============== *)
Section ImagPC.
Variable K : CRing.
Variable inj : Q -> K.
Variable V : Type.
Variable mzero : V.
Variable madd : V -> V -> V.
Variable mscale : K -> V -> V.
Variable mi : K.
Hypothesis IH : inj_hom K inj.
Hypothesis ML : module_laws K V mzero madd mscale.
Hypothesis mi_sq : rmul K mi mi = ropp K (r1 K).     (* (-i)^2 = -1 *)

(* evolve_dt = mi * tau (= -i tau): the general RK stage loop returns sum_k d_k (-tau H0)^k y *)
Theorem C10_imag_rk_poly : forall (H : K -> V -> V) (H0 : V -> V),
  linear K V madd mscale H0 -> (forall t v, H t v = H0 v) ->
  forall t, shape_ok t = true -> forall tau t0 y,
  rk_step K inj V mzero madd mscale H mi t (rmul K mi tau) t0 y
  = pev K inj V mzero madd mscale (fun v => mscale (ropp K tau) (H0 v)) (nth 0 (ti_coeff t) []) y.
Proof. exact (fun H H0 L Hti => imag_rk_poly K inj V mzero madd mscale mi IH ML H H0 L Hti mi_sq). Qed.

(* the Taylor scheme returns sum_{k<=N} (-tau H0)^k y / k! *)
Theorem C10_imag_taylor_poly : forall (H0 : V -> V), linear K V madd mscale H0 -> forall tau N y,
  taylor_step K inj V mzero madd mscale mi H0 (rmul K mi tau) N y
  = pev K inj V mzero madd mscale (fun v => mscale (ropp K tau) (H0 v)) (tcoefs N) y.
Proof. exact (fun H0 L => imag_taylor_poly K inj V mzero madd mscale mi IH ML H0 L mi_sq). Qed.
End ImagPC.
Print Assumptions C10_imag_rk_poly.
Print Assumptions C10_imag_taylor_poly.

Example C10_instance_laws :
  inj_hom GqRing gq_inj /\ module_laws GqRing v2 v2_zero v2_add v2_scale /\ linear GqRing v2 v2_add v2_scale v2_swap
  /\ rmul GqRing gq_mi gq_mi = ropp GqRing (r1 GqRing).
Proof. exact (conj gq_inj_hom (conj v2_module (conj v2_swap_linear gq_mi_sq))). Qed.

(* ================================================================== closed-form propagator ========== *)
Section Exact.
Variable K : CRing.
Variable expo : K -> K.
Hypothesis expo_add : forall a b, expo (radd K a b) = rmul K (expo a) (expo b).
Hypothesis expo_0 : expo (r0 K) = r1 K.

(* dense(Mpo.exact_propagator(model, x, "GS", shift))[s, s'] = [s = s'] exp(x (shift + sum_k omega_k n_k)),
   bond dimension one, any number of sites (None = electronic site, Some omega = vibrational mode) *)
Theorem C10_exact_prop_dense : forall x shift (ws : list (option K)) su sd,
  ws <> [] -> length su = length ws -> length sd = length ws ->
  opamp (exact_prop K expo x shift ws) su sd
  = if cfg_eqb su sd then expo (rmul K x (radd K shift (vib_energy K ws su))) else r0 K.
Proof. exact (exact_prop_dense_gen K expo expo_add expo_0). Qed.

(* Mps/MpDm.evolve_exact pass x = -i dt, shift = -offset and multiply the prefactor by exp(-i offset dt):
   tensors x prefactor carry exp(-i dt sum_k omega_k n_k), the offset cancels *)
Theorem C10_phase_offset_cancels : forall (mi dt off E : K),
  rmul K (expo (rmul K (rmul K mi dt) (radd K (ropp K off) E))) (expo (rmul K (rmul K mi off) dt))
  = expo (rmul K (rmul K mi dt) E).
Proof. exact (phase_offset_cancels K expo expo_add). Qed.
End Exact.
Print Assumptions C10_exact_prop_dense.
Print Assumptions C10_phase_offset_cancels.

(* what the translator read from the source: both evolve_exact variants call
   exact_propagator(model, -1j*evolve_dt, space, -offset), apply it, and multiply the RESULT's prefactor;
   ThermalProp.evolve_exact applies the propagator TO the density operator (physical index: U rho, not rho U) and normalises *)
Definition phase_on_result (c : ee_code) : bool := match ee_target c with OnResult => true | OnInput => false end.

Theorem C10_evolve_exact_source :
  phase_on_result ee_mps = true /\ phase_on_result ee_mpdm = true
  /\ ee_x ee_mps = XMiDt /\ ee_x ee_mpdm = XMiDt /\ ee_phase ee_mps = PhaseMiOffDt /\ ee_phase ee_mpdm = PhaseMiOffDt
  /\ ee_order ee_mps = PropOnState /\ ee_order ee_mpdm = StateOnProp
  /\ ee_x ee_thermal = XImagPart /\ ee_phase ee_thermal = Normalise /\ ee_order ee_thermal = PropOnState.
Proof. repeat split; reflexivity. Qed.
Print Assumptions C10_evolve_exact_source.

(* evolve_exact as the source has it: the INPUT object is unchanged, the result's prefactor carries the phase,
   its tensors are the propagator applied to the input's tensors *)
Theorem C10_evolve_exact_total : forall (K : CRing) (V : Type) (papply : V -> V) (phase : K) (self : obj K V),
  let r := evolve_exact_model K V (phase_on_result ee_mps) papply phase self in
  let r' := evolve_exact_model K V (phase_on_result ee_mpdm) papply phase self in
  (snd r = self /\ coeff K V (fst r) = rmul K (coeff K V self) phase /\ vec K V (fst r) = papply (vec K V self))
  /\ (snd r' = self /\ coeff K V (fst r') = rmul K (coeff K V self) phase /\ vec K V (fst r') = papply (vec K V self)).
Proof.
  exact (fun K V papply phase self =>
    conj (evolve_exact_model_total K V papply phase self) (evolve_exact_model_total K V papply phase self)).
Qed.
Print Assumptions C10_evolve_exact_total.

(* the variant before fix 02a52ae (phase multiplied into the input's prefactor): input changed, result lacks the phase *)
Theorem C10_evolve_exact_on_input_refuted : forall (K : CRing) (V : Type) (papply : V -> V) (phase : K) (self : obj K V),
  rmul K (coeff K V self) phase <> coeff K V self ->
  let r := evolve_exact_model K V false papply phase self in
  snd r <> self /\ coeff K V (fst r) = coeff K V self.
Proof. exact evolve_exact_model_on_input. Qed.
Print Assumptions C10_evolve_exact_on_input_refuted.

(* ================================================================== thermal propagation ============== *)
(* E: semigroup of un-normalised imaginary-time propagators, homogeneous; N: normalisation (a positive rescaling
   that is insensitive to positive factors).  Normalising after every step with arbitrary positive re-offset
   factors f_k gives N(E(n tau) psi_0) -- psi_0 need not be normalised. *)
Theorem C10_thermal_steps_compose :
  forall (K : CRing) (V : Type) (mscale : K -> V -> V) (N : V -> V) (pos : K -> Prop)
         (T : Type) (tadd : T -> T -> T) (tzero : T) (E : T -> V -> V) (tau : T),
  (forall c v, E tau (mscale c v) = mscale c (E tau v)) ->
  (forall c v, pos c -> N (mscale c v) = N v) ->
  (forall v, exists c, pos c /\ N v = mscale c v) ->
  (forall s t v, E (tadd s t) v = E s (E t v)) -> (forall v, E tzero v = v) ->
  forall f fs psi0, Forall pos (f :: fs) ->
  thermal_loop K V mscale (E tau) N (f :: fs) psi0 = N (E (tmul T tadd tzero (S (length fs)) tau) psi0).
Proof. exact thermal_steps_compose. Qed.
Print Assumptions C10_thermal_steps_compose.

(* every place of the package that drives ThermalProp with a temperature (table generated by tx/thermalsites.py from all modules of
   renormalizer/) hands  to_beta() / 2j  as the total imaginary time: the purified state is exp(-beta H / 2)|max-entangled>, so that
   C10_purification_expectation gives averages at beta (not 2 beta) *)
Definition site_half_beta (s : tsite) : bool := match ts_form s with BetaOver2j => true | OtherForm => false end.
Theorem C10_thermal_sites_half_beta : forall s, In s thermal_sites -> ts_form s = BetaOver2j.
Proof.
  exact (fun s Hs => match ts_form s as f return (match f with BetaOver2j => true | OtherForm => false end = true -> f = BetaOver2j) with
                     | BetaOver2j => fun _ => eq_refl | OtherForm => fun E => match Bool.diff_false_true E with end end
                     (proj1 (forallb_forall site_half_beta thermal_sites) eq_refl s Hs)).
Qed.
Print Assumptions C10_thermal_sites_half_beta.
Example C10_thermal_sites_nonempty : 8 <= length thermal_sites.
Proof. vm_compute. repeat constructor. Qed.

(* ================================================================== purified density operators ========= *)
(* dense(MpDm.from_mps(psi))[s, s'] = [s = s'] psi(s), for every chain (any bond dimensions) *)
Theorem C10_from_mps_dense : forall (K : CRing) (ts : list (nat * T3 K)) su sd,
  opamp (from_mps K ts) su sd = if cfg_eqb su sd then amp ts su else r0 K.
Proof. exact from_mps_dense. Qed.
Print Assumptions C10_from_mps_dense.

(* dense(MpDm.max_entangled_gs) = [s = s'] . w(s): w is the product of the vibrational entries (1/sqrt(pdim), or 1 when not
   normalised) times [every electronic index is 0]; any number of sites and levels ... *)
Theorem C10_max_entangled_identity : forall (K : CRing) (ws : list (option K)) su sd, length su = length ws ->
  opamp (max_entangled_gs K ws) su sd = if cfg_eqb su sd then me_weight K ws su else r0 K.
Proof. exact max_entangled_identity_gen. Qed.
Print Assumptions C10_max_entangled_identity.

(* ... and w is the same for all vibrational configurations: a multiple of the identity on the vibrational sites *)
Theorem C10_max_entangled_weight_const : forall (K : CRing) (ws : list (option K)) s s',
  length s = length ws -> length s' = length ws ->
  (forall k, nth k ws None = None -> nth k s 0 = 0 /\ nth k s' 0 = 0) -> me_weight K ws s = me_weight K ws s'.
Proof. exact me_weight_const. Qed.
Print Assumptions C10_max_entangled_weight_const.

(* MpDm._expectation_path (expectation4 of Model/Env.v, the contraction order of the code) with bra = conj(ket):
   <rho|O|rho> = sum_{s',s} O[s',s] R[s,s'] = Tr(O R),  R[s,s'] = sum_t rho[s,t] conj(rho[s',t]) = rho rho^+ with the auxiliary
   index t traced out -- the expectation value of O in the physical density operator *)
Theorem C10_purification_expectation : forall (K : CRing) (ss : list (site4 K)),
  ss <> [] -> lastA K 1 ss = 1 -> lastB K 1 ss = 1 -> lastC K 1 ss = 1 -> purified K ss ->
  expectation4 ss =
  sumcfg (map (@p4 K) ss) (fun s' => sumcfg (map (@p4 K) ss) (fun s =>
    rmul K (opamp (ops4 ss) s' s)
      (sumcfg (map (@q4 K) ss) (fun t => rmul K (opamp (kets4 ss) s t) (rcj K (opamp (kets4 ss) s' t)))))).
Proof. exact purification_expectation_gen. Qed.
Print Assumptions C10_purification_expectation.

Example C10_max_entangled_example :
  opamp (max_entangled_gs ZRing [None; Some 1%Z; Some 1%Z]) [0; 1; 2] [0; 1; 2] = 1%Z
  /\ opamp (max_entangled_gs ZRing [None; Some 1%Z; Some 1%Z]) [0; 1; 2] [0; 2; 1] = 0%Z
  /\ opamp (max_entangled_gs ZRing [None; Some 1%Z; Some 1%Z]) [1; 1; 2] [1; 1; 2] = 0%Z.
Proof. vm_compute. repeat split. Qed.

(* non-vacuity: the integers with expo a = (-1)^a satisfy the two laws of the abstract exponential; two sites
   (electronic, vibrational omega = 3), x = 1, shift = 1: exponent 1*(1 + 3*2) = 7, amplitude -1 on the diagonal *)
Definition zsign (a : Z) : Z := if Z.even a then 1%Z else (-1)%Z.
Example C10_expo_instance :
  (forall a b, zsign (a + b) = (zsign a * zsign b)%Z) /\ zsign 0 = 1%Z.
Proof.
  split; [|reflexivity]. intros a b. unfold zsign. rewrite Z.even_add.
  destruct (Z.even a), (Z.even b); reflexivity.
Qed.
Example C10_exact_prop_example :
  opamp (exact_prop ZRing zsign 1%Z 1%Z [None; Some 3%Z]) [1; 2] [1; 2] = (-1)%Z
  /\ opamp (exact_prop ZRing zsign 1%Z 1%Z [None; Some 3%Z]) [1; 2] [1; 1] = 0%Z
  /\ vib_energy ZRing [None; Some 3%Z] [1; 2] = 6%Z.
Proof. vm_compute. repeat split. Qed.
