(* C18 -- Numerical kernels meet their contracts on every admissible input.
   Only statements, closed by [exact], with Print Assumptions beneath.
   Models: Model/SvdQn.v (svd_qn / eigh_qn of renormalizer/mps/svd_qn.py), Model/Krylov.v (expm_krylov of
   renormalizer/lib/krylov/krylov.py); Gen/KrylovSites.v is regenerated from the call sites on every run.
   LAPACK kernels are witnesses with explicit contracts (svd_witness_ok, qr_witness_ok, eigh_witness_ok);
   R is ANY commutative ring with an involution (Base.CRing), e.g. the reals or the complex numbers. *)
From Coq Require Import List ZArith Arith Bool Lia.
Import ListNotations.
From RV Require Import Base.CRing Base.BigSum Model.SvdQn Model.Krylov Gen.KrylovSites Gen.SvdQnShape Gen.KrylovNorm
                       Proofs.SvdQnProofs Proofs.KrylovProofs.

(* ------------------------------------------------------------------ blocked decompositions *)

(* the structural facts the model relies on, as read from renormalizer/mps/svd_qn.py by tx/svdqn.py on every run
   (loop side, skip conditions for empty / one-sided sectors in svd_qn and eigh_qn, which of nl / nr labels and which of
   lset / rset scatters the U and V columns, transposition of block_vt, qr / rq per system, the full_matrices split in
   blockappend, main-before-extra concatenation, the economic-mode descending argsort, eigenvalue clipping and sqrt),
   are the ones the model and all proofs below are written for.  The theorems below are stated about the model
   instantiated with the GENERATED constants (src_shape): an edit of the source that changes one of these facts
   makes this obligation -- and with it Proofs/SvdQnProofs.v and every theorem here -- fail to compile. *)
Theorem C18_source_shape : src_shape = ref_shape.
Proof. exact shape_ok. Qed.
Print Assumptions C18_source_shape.

(* for all label patterns (any number of components, any qntot, empty and one-sided sectors included) and
   any iteration order of the label set: a symmetry-allowed (row, col) pair lies in exactly one block,
   a forbidden pair in none *)
Theorem C18_block_partition :
  forall qnl qnr qntot order,
  wf_labels qntot qnl -> wf_labels qntot qnr -> order_ok order qnl ->
  forall i j, i < length qnl -> j < length qnr ->
  nblocks_s src_shape qnl qnr qntot order i j = if allowed qnl qnr qntot i j then 1 else 0.
Proof. exact block_partition_src. Qed.
Print Assumptions C18_block_partition.

Theorem C18_block_partition_rel :
  forall qnl qnr qntot order,
  wf_labels qntot qnl -> wf_labels qntot qnr -> order_ok order qnl ->
  forall i j, i < length qnl -> j < length qnr ->
  let keys := bkeys (svd_present qnr qntot) order in
  (allowed qnl qnr qntot i j = true ->
     exists nl, In nl keys /\ In i (lset qnl nl) /\ In j (rset qnr (svd_rkey qntot) nl) /\
                forall nl', In nl' keys -> In i (lset qnl nl') -> In j (rset qnr (svd_rkey qntot) nl') -> nl' = nl) /\
  (allowed qnl qnr qntot i j = false ->
     forall nl, In nl keys -> ~ (In i (lset qnl nl) /\ In j (rset qnr (svd_rkey qntot) nl))).
Proof. exact block_partition_rel. Qed.
Print Assumptions C18_block_partition_rel.

(* svd_qn, full_matrices=True.  The first oKmain = sum_b min(rows_b, cols_b) columns of U and V are paired;
   the remaining columns (zero singular value) of U and of V are NOT paired with each other: each carries the
   label of its own block (clauses 5, 6) and is orthogonal to every other column (clauses 2, 3). *)
Theorem C18_svd_qn_sound_full :
  forall (R : CRing) qnl qnr qntot order (A : mat R) (W : label -> bfac R) p,
  wf_labels qntot qnl -> wf_labels qntot qnr -> order_ok order qnl ->
  svd_witness_ok_s R src_shape true qnl qnr qntot order A W ->
  let o := svd_qn_s R src_shape true qnl qnr qntot order W p in
  let m := length qnl in let n := length qnr in
  (forall i j, i < m -> j < n ->
     sumn (oKmain o) (fun k => rmul R (rmul R (oU o i k) (oSu o k)) (oV o j k)) = masked R qnl qnr qntot A i j) /\
  orthonormal_cols R m (oKu o) (oU o) /\ orthonormal_cols R n (oKv o) (oV o) /\
  (forall k, k < oKmain o -> ladd (nth k (oQl o) []) (nth k (oQr o) []) = qntot) /\
  (forall i k, k < oKu o -> nth i qnl [] <> nth k (oQl o) [] -> oU o i k = r0 R) /\
  (forall j k, k < oKv o -> nth j qnr [] <> nth k (oQr o) [] -> oV o j k = r0 R) /\
  length (oQl o) = oKu o /\ length (oQr o) = oKv o /\ oKmain o <= oKu o /\ oKmain o <= oKv o /\
  (forall k, oKmain o <= k -> oSu o k = r0 R /\ oSv o k = r0 R).
Proof. exact svd_qn_full_sound_src. Qed.
Print Assumptions C18_svd_qn_sound_full.

(* svd_qn, full_matrices=False (the truncating form): all columns are paired, and the output is globally
   sorted whenever the argsort witness p is a permutation that makes adjacent singular values descend
   (le is any transitive relation: <= on an ordered field) *)
Theorem C18_svd_qn_sound_econ :
  forall (R : CRing) qnl qnr qntot order (A : mat R) (W : label -> bfac R) p,
  wf_labels qntot qnl -> wf_labels qntot qnr -> order_ok order qnl ->
  svd_witness_ok_s R src_shape false qnl qnr qntot order A W ->
  perm_okb p (oKmain (svd_qn_pre_s R src_shape qnl qnr qntot order W)) = true ->
  let o := svd_qn_s R src_shape false qnl qnr qntot order W p in
  let m := length qnl in let n := length qnr in
  oKu o = oKmain o /\ oKv o = oKmain o /\ length (oQl o) = oKu o /\ length (oQr o) = oKv o /\
  (forall i j, i < m -> j < n ->
     sumn (oKmain o) (fun k => rmul R (rmul R (oU o i k) (oSu o k)) (oV o j k)) = masked R qnl qnr qntot A i j) /\
  orthonormal_cols R m (oKu o) (oU o) /\ orthonormal_cols R n (oKv o) (oV o) /\
  (forall k, k < oKmain o -> ladd (nth k (oQl o) []) (nth k (oQr o) []) = qntot) /\
  (forall i k, k < oKu o -> nth i qnl [] <> nth k (oQl o) [] -> oU o i k = r0 R) /\
  (forall j k, k < oKv o -> nth j qnr [] <> nth k (oQr o) [] -> oV o j k = r0 R) /\
  (forall k, oSu o k = oSv o k) /\
  (forall (le : R -> R -> Prop), (forall x y z, le x y -> le y z -> le x z) ->
     desc_sorted R le (oKmain o) (oSu o) -> forall k k', k < k' -> k' < oKmain o -> le (oSu o k') (oSu o k)).
Proof. exact svd_qn_econ_sound_src. Qed.
Print Assumptions C18_svd_qn_sound_econ.

(* svd_qn with QR=True: qr for system "L" (U orthonormal), rq for system "R" (V orthonormal), both full and
   economic shapes; here EVERY column of U is paired with the same column of V *)
Theorem C18_qr_qn_sound :
  forall (R : CRing) qnl qnr qntot order (A : mat R) (W : label -> bfac R) sy,
  wf_labels qntot qnl -> wf_labels qntot qnr -> order_ok order qnl ->
  qr_witness_ok_s R src_shape sy qnl qnr qntot order A W ->
  let o := svd_qn_pre_s R src_shape qnl qnr qntot order W in
  let m := length qnl in let n := length qnr in
  oKv o = oKu o /\ length (oQl o) = oKu o /\ length (oQr o) = oKv o /\
  (forall i j, i < m -> j < n -> sumn (oKu o) (fun k => rmul R (oU o i k) (oV o j k)) = masked R qnl qnr qntot A i j) /\
  (sy = SysL -> orthonormal_cols R m (oKu o) (oU o)) /\
  (sy = SysR -> orthonormal_cols R n (oKv o) (oV o)) /\
  (forall k, k < oKu o -> ladd (nth k (oQl o) []) (nth k (oQr o) []) = qntot) /\
  (forall i k, k < oKu o -> nth i qnl [] <> nth k (oQl o) [] -> oU o i k = r0 R) /\
  (forall j k, k < oKv o -> nth j qnr [] <> nth k (oQr o) [] -> oV o j k = r0 R).
Proof. exact qr_qn_sound_src. Qed.
Print Assumptions C18_qr_qn_sound.

(* eigh_qn: U diag(lambda) U^dagger restores the diagonal blocks of the density matrix whose sector has a
   partner in the complementary labels; columns orthonormal and labelled by their block *)
Theorem C18_eigh_qn_sound :
  forall (R : CRing) qn comp qntot order (A : mat R) (W : label -> bfac R),
  order_ok order qn -> eigh_witness_ok_s R src_shape qn comp qntot order A W ->
  let o := eigh_qn_s R src_shape qn comp qntot order W in
  let m := length qn in
  length (eQ o) = eK o /\
  (forall i j, i < m -> j < m ->
     sumn (eK o) (fun k => rmul R (rmul R (eU o i k) (eL o k)) (rcj R (eU o j k)))
     = if eigh_present_s src_shape comp qntot (nth i qn []) && label_eqb (nth j qn []) (nth i qn []) then A i j else r0 R) /\
  orthonormal_cols R m (eK o) (eU o) /\
  (forall i k, k < eK o -> nth i qn [] <> nth k (eQ o) [] -> eU o i k = r0 R).
Proof. exact eigh_qn_sound_src. Qed.
Print Assumptions C18_eigh_qn_sound.

(* eigh_qn's returned "singular values"  s = sqrt(lambda with negative entries set to 0)  (neg x stands for x < 0, sqrtw for
   np.sqrt; contracts: 0 is not negative, sqrt(x)^2 = x for non-negative x).  Guaranteed: s_k^2 is the block eigenvalue clipped
   at 0; U diag(s^2) U^dagger is U diag(clip lambda) U^dagger, i.e. the masked density matrix with the negative eigenvalues of
   its blocks removed; it IS the masked density matrix whenever no block eigenvalue is negative (positive semi-definite input:
   the clipping only absorbs round-off). *)
Theorem C18_eigh_qn_values_sound :
  forall (R : CRing) (neg : R -> bool) (sqrtw : R -> R),
  neg (r0 R) = false -> (forall x, neg x = false -> rmul R (sqrtw x) (sqrtw x) = x) ->
  forall qn comp qntot order (A : mat R) (W : label -> bfac R),
  order_ok order qn -> eigh_witness_ok_s R src_shape qn comp qntot order A W ->
  let o := eigh_qn_s R src_shape qn comp qntot order W in
  let s := eS R src_shape neg sqrtw o in
  let m := length qn in
  (forall k, rmul R (s k) (s k) = clip R neg (eL o k)) /\
  (forall i j, sumn (eK o) (fun k => rmul R (rmul R (eU o i k) (rmul R (s k) (s k))) (rcj R (eU o j k)))
               = sumn (eK o) (fun k => rmul R (rmul R (eU o i k) (clip R neg (eL o k))) (rcj R (eU o j k)))) /\
  ((forall k, k < eK o -> neg (eL o k) = false) ->
   forall i j, i < m -> j < m ->
     sumn (eK o) (fun k => rmul R (rmul R (eU o i k) (rmul R (s k) (s k))) (rcj R (eU o j k)))
     = if eigh_present_s src_shape comp qntot (nth i qn []) && label_eqb (nth j qn []) (nth i qn []) then A i j else r0 R).
Proof. exact eigh_qn_values_sound_src. Qed.
Print Assumptions C18_eigh_qn_values_sound.

(* the flat-index gather  ravel().take(l * ncols + r)  addresses entry (l, r) *)
Theorem C18_gather_entry :
  forall (R : CRing) ncols (A : mat R) ls rs a b,
  nth b rs 0 < ncols -> gather R ncols A ls rs a b = A (nth a ls 0) (nth b rs 0).
Proof. exact gather_entry. Qed.
Print Assumptions C18_gather_entry.

(* ------------------------------------------------------------------ Krylov exponential *)

(* for all n >= 1, block_size >= 1 (the property needs >= 2) and ALL outcomes of the breakdown and convergence
   tests: every read/write of V, alpha, beta is in bounds, no slice is truncated, the loop returns after
   1 <= it <= n iterations (it never falls through), and len(V) = len(alpha) = len(beta) + 1 >= it *)
Theorem C18_krylov_buffers_safe :
  forall n bs brk conv, 1 <= n -> 1 <= bs ->
  let r := run n bs brk conv in
  forallb acc_ok (snd r) = true /\
  exists e it s, fst r = Some (e, it, s) /\ 1 <= it /\ it <= n /\ it = sj s + 1 /\
                 lv s = la s /\ lb s + 1 = lv s /\ it <= lv s.
Proof. exact krylov_buffers_safe. Qed.
Print Assumptions C18_krylov_buffers_safe.

Theorem C18_krylov_no_test_full_space :
  forall n bs, 1 <= n -> 1 <= bs ->
  exists s, fst (run n bs (fun _ => false) (fun _ => false)) = Some (FullSpace, n, s).
Proof. exact krylov_no_test_full_space. Qed.
Print Assumptions C18_krylov_no_test_full_space.

(* the exit taken is the first whose test fires: no breakdown test fired before, the breakdown exit means the test fired at
   it-1, the full-space exit means it = n *)
Theorem C18_krylov_exit_spec :
  forall n bs brk conv, 1 <= n -> 1 <= bs ->
  forall e it s, fst (run n bs brk conv) = Some (e, it, s) ->
    1 <= it /\ it <= n /\ (forall j, j + 1 < it -> brk j = false) /\
    (e = Breakdown -> brk (it - 1) = true) /\ (e = FullSpace -> it = n).
Proof. exact krylov_exit_spec. Qed.
Print Assumptions C18_krylov_exit_spec.

(* THE LOOP WITH ITS DATA (Model/Krylov.v Part 4: exact Lanczos vectors, alpha, beta over a ring with 1/x, norm, real
   part and the breakdown test as abstract operations with the contracts below; expT m is the kernel of _expm_krylov,
   standing for exp(dt * T_m)).  By construction, for ANY matrix A (no Hermiticity needed): once the residual of step j
   vanishes and no earlier beta was "zero", A V = V T for the first j+1 Lanczos vectors and the exact tridiagonal T. *)
Theorem C18_lanczos_relation_exact :
  forall (R : CRing) N (A : matx R) inv nrm rpart (isz : R -> bool) v0,
  (forall x, isz x = false -> rmul R x (inv x) = r1 R) ->
  forall j, (forall k, k < j -> isz (beta R N A inv nrm rpart v0 k) = false) ->
  (forall i, i < N -> resid R N A inv nrm rpart v0 j i = r0 R) ->
  lanczos_rel R N (S j) A (Vmat R N A inv nrm rpart v0) (Tmat R N A inv nrm rpart v0).
Proof. exact lanczos_relation_exact. Qed.
Print Assumptions C18_lanczos_relation_exact.

(* the value RETURNED by the loop in the BREAKDOWN exit: it is  nrmv * V[:it].T * E * e1  with E = expT it the kernel's matrix
   for the exact T of the state at the exit; A V = V T holds there; hence the returned vector is q(A) vstart whenever the
   kernel evaluates the polynomial q of T (exp being the limit of its Taylor polynomials, for which both sides converge). *)
Theorem C18_krylov_return_breakdown :
  forall (R : CRing) N (A : matx R) inv nrm rpart (isz : R -> bool) v0,
  (forall x, isz x = false -> rmul R x (inv x) = r1 R) ->
  (forall w, isz (nrm w) = true -> forall i, i < N -> w i = r0 R) ->
  forall (expT : nat -> matx R) (nrm0 : R) (v : vec R),
  (forall i, i < N -> v i = rmul R nrm0 (v0 i)) ->
  forall bs conv it r, 1 <= N -> 1 <= bs ->
  krylov_return R N A inv nrm rpart isz bs conv v0 nrm0 expT = Some (Breakdown, it, r) ->
  r = ret_vec R N A inv nrm rpart v0 nrm0 (expT it) it /\ 1 <= it /\ it <= N /\
  lanczos_rel R N it A (Vmat R N A inv nrm rpart v0) (Tmat R N A inv nrm rpart v0) /\
  forall q, (forall c, c < it -> mv R it (expT it) (e1 R) c = poly_apply R it (Tmat R N A inv nrm rpart v0) q (e1 R) c) ->
            veq R N r (poly_apply R N A q v).
Proof. exact krylov_return_breakdown. Qed.
Print Assumptions C18_krylov_return_breakdown.

(* the same for the FULL-SPACE exit (it = N); here the last residual is never computed by the code, and its vanishing needs what
   exact Lanczos on a Hermitian matrix provides: A Hermitian, the N Lanczos vectors orthonormal and complete (hypotheses;
   checked numerically on the logged V), beta real, alpha = the (real) Rayleigh quotient *)
Theorem C18_krylov_return_fullspace :
  forall (R : CRing) N (A : matx R) inv nrm rpart (isz : R -> bool) v0,
  (forall x, isz x = false -> rmul R x (inv x) = r1 R) ->
  forall (expT : nat -> matx R) (nrm0 : R) (v : vec R),
  (forall i, i < N -> v i = rmul R nrm0 (v0 i)) ->
  hermitian R N A ->
  orthonormal R N N (Vmat R N A inv nrm rpart v0) ->
  (forall i l, i < N -> l < N ->
     sumn N (fun k => rmul R (Vmat R N A inv nrm rpart v0 i k) (rcj R (Vmat R N A inv nrm rpart v0 l k)))
     = if Nat.eqb i l then r1 R else r0 R) ->
  (forall w, rcj R (nrm w) = nrm w) -> (forall x, rcj R x = x -> rpart x = x) ->
  forall bs conv it r, 1 <= N -> 1 <= bs ->
  krylov_return R N A inv nrm rpart isz bs conv v0 nrm0 expT = Some (FullSpace, it, r) ->
  r = ret_vec R N A inv nrm rpart v0 nrm0 (expT it) it /\ it = N /\
  lanczos_rel R N it A (Vmat R N A inv nrm rpart v0) (Tmat R N A inv nrm rpart v0) /\
  forall q, (forall c, c < it -> mv R it (expT it) (e1 R) c = poly_apply R it (Tmat R N A inv nrm rpart v0) q (e1 R) c) ->
            veq R N r (poly_apply R N A q v).
Proof. exact krylov_return_fullspace. Qed.
Print Assumptions C18_krylov_return_fullspace.

(* exactness of the method in the breakdown / full-space exits: from A V = V T and v = ||v|| V e1,
   q(A) v = ||v|| V q(T) e1 for every polynomial q (coefficient list).  V^dagger V = I is not needed
   for this identity ... *)
Theorem C18_krylov_poly_exact :
  forall (R : CRing) N m (A V T : matx R) (nrm : R) (v : vec R), 1 <= m ->
  lanczos_rel R N m A V T -> (forall i, i < N -> v i = rmul R nrm (V i O)) ->
  forall q, veq R N (poly_apply R N A q v) (fun i => rmul R nrm (mv R m V (poly_apply R m T q (e1 R)) i)).
Proof. exact krylov_poly_exact. Qed.
Print Assumptions C18_krylov_poly_exact.

(* ... it is what makes T the compression V^dagger A V *)
Theorem C18_lanczos_T_is_compression :
  forall (R : CRing) N m (A V T : matx R), lanczos_rel R N m A V T -> orthonormal R N m V ->
  forall c d, c < m -> d < m ->
    T c d = sumn N (fun i => rmul R (rcj R (V i c)) (sumn N (fun l => rmul R (A i l) (V l d)))).
Proof. exact T_is_compression. Qed.
Print Assumptions C18_lanczos_T_is_compression.

(* alpha[j] = vdot(w, V[j]).real : real for Hermitian A (nothing is discarded), purely imaginary for
   anti-Hermitian A (the code's alpha is then 0 and the recurrence no longer orthogonalises) *)
Theorem C18_hermitian_rayleigh_real :
  forall (R : CRing) N (A : matx R) v, hermitian R N A -> rcj R (rayleigh R N A v) = rayleigh R N A v.
Proof. exact hermitian_rayleigh_real. Qed.
Print Assumptions C18_hermitian_rayleigh_real.

Theorem C18_antihermitian_rayleigh_imag :
  forall (R : CRing) N (A : matx R) v,
  (forall i l, i < N -> l < N -> A i l = ropp R (rcj R (A l i))) ->
  rcj R (rayleigh R N A v) = ropp R (rayleigh R N A v).
Proof. exact antihermitian_rayleigh_imag. Qed.
Print Assumptions C18_antihermitian_rayleigh_imag.

(* NORMALISE, RUN, SCALE.  How expm_krylov treats the norm of vstart is read from the source by tx/krylovnorm.py on every run
   (2-norm; UNCONDITIONAL division, out of place; V[0] = the normalised vector; every exit multiplies by nrmv exactly once;
   convergence tolerance scaled by nrmv); these are the facts the model is written for ... *)
Theorem C18_krylov_norm_shape : src_norm = ref_norm.
Proof. exact norm_shape_ok. Qed.
Print Assumptions C18_krylov_norm_shape.

(* ... and with them the returned vector nrmv * core(vstart / nrmv) is homogeneous of degree 1 in the start vector: for every
   factor c by which the norm scales and which has an inverse (any c > 0; core = the Lanczos run + kernel as a function of the
   first basis vector, only assumed to depend on its entries).  Stated about the wrapper instantiated with the GENERATED
   constants: a guarded normalisation (`if not np.isclose(nrmv, 1)`) makes C18_krylov_norm_shape fail, and
   C18_ex_guarded_normalisation_refuted shows that the statement is then false. *)
Theorem C18_krylov_homogeneous :
  forall (R : CRing) (nrmf : vec R -> R) (inv : R -> R) (close1 : R -> bool) (core : vec R -> vec R),
  (forall x y, (forall i, x i = y i) -> forall i, core x i = core y i) ->
  forall (c : R) (v : vec R),
  nrmf (fun i => rmul R c (v i)) = rmul R c (nrmf v) ->
  rmul R c (inv c) = r1 R -> inv (rmul R c (nrmf v)) = rmul R (inv c) (inv (nrmf v)) ->
  forall i, expm_wrapper R nrmf inv close1 core src_norm (fun l => rmul R c (v l)) i
            = rmul R c (expm_wrapper R nrmf inv close1 core src_norm v i).
Proof. exact wrapper_homogeneous_src. Qed.
Print Assumptions C18_krylov_homogeneous.

(* the same for the exact Lanczos data model: start vectors nrm0 * v0 and (c * nrm0) * v0 with the same unit first basis vector
   take the same exit after the same number of iterations and the returned vectors differ by the factor c *)
Theorem C18_krylov_return_homogeneous :
  forall (R : CRing) N (A : matx R) inv nrm rpart (isz : R -> bool) bs conv v0 (nrm0 c : R) expT e it r,
  krylov_return R N A inv nrm rpart isz bs conv v0 nrm0 expT = Some (e, it, r) ->
  exists r', krylov_return R N A inv nrm rpart isz bs conv v0 (rmul R c nrm0) expT = Some (e, it, r') /\
             forall i, r' i = rmul R c (r i).
Proof. exact krylov_return_homogeneous. Qed.
Print Assumptions C18_krylov_return_homogeneous.

(* the Hermitian-operator precondition at EVERY call site of expm_krylov in mps/mps.py and tn/time_evolution.py
   (table regenerated on every run).  site_ok: the callable is  lambda y: h(y.reshape(shape)).ravel()  with h built by
   hop_expr*, or the factory function H_eff(.)/coef with coef real on every path, or  lambda y: f(y) * coef  where f is the
   factory function dividing by the very same name coef (a non-zero literal on every path) and dt is  name / coef.
   History: the coefficient site of _evolve_tdvp_mu_cmf used to pass H_eff/1j (anti-Hermitian) -- finding
   cmf-krylov-antihermitian, repaired in /repo commit f5f749f; this theorem fails to compile if that shape returns. *)
Theorem C18_krylov_sites_hermitian :
  forall s, In s sites -> site_ok s = true.
Proof. exact sites_hermitian. Qed.
Print Assumptions C18_krylov_sites_hermitian.

(* ------------------------------------------------------------------ non-vacuity *)
(* a 4 x 4 integer matrix with two sectors, forbidden entries, exact integer block factors *)
Example C18_ex_labels : wf_labels Ex.qntot Ex.qnl /\ wf_labels Ex.qntot Ex.qnr /\ order_ok Ex.order Ex.qnl.
Proof. exact Ex.wf. Qed.
Example C18_ex_witness_full : svd_witness_ok_s ZRing src_shape true Ex.qnl Ex.qnr Ex.qntot Ex.order Ex.A Ex.Wfull.
Proof. exact Ex.full_ok. Qed.
Example C18_ex_witness_econ : svd_witness_ok_s ZRing src_shape false Ex.qnl Ex.qnr Ex.qntot Ex.order Ex.A Ex.Wecon.
Proof. exact Ex.econ_ok. Qed.
(* full mode: 3 paired columns, one additional column on each side, both labelled 1: 1 + 1 <> qntot = 1 *)
Example C18_ex_full_extra_columns_not_paired :
  let o := svd_qn ZRing true Ex.qnl Ex.qnr Ex.qntot Ex.order Ex.Wfull [] in
  oKmain o = 3 /\ oKu o = 4 /\ oKv o = 4 /\ oQl o = [[1]; [0]; [0]; [1]]%Z /\ oQr o = [[0]; [1]; [1]; [1]]%Z /\
  ladd (nth 3 (oQl o) []) (nth 3 (oQr o) []) <> Ex.qntot.
Proof. exact Ex.full_shape. Qed.
Example C18_ex_econ_sorted :
  let o := svd_qn ZRing false Ex.qnl Ex.qnr Ex.qntot Ex.order Ex.Wecon Ex.p in
  perm_okb Ex.p (oKmain (svd_qn_pre ZRing Ex.qnl Ex.qnr Ex.qntot Ex.order Ex.Wecon)) = true /\
  map (oSu o) [0; 1; 2] = [5; 3; 2]%Z /\ desc_sorted ZRing Z.le (oKmain o) (oSu o) /\
  oQl o = [[1]; [0]; [0]]%Z /\ oQr o = [[0]; [1]; [1]]%Z.
Proof. exact Ex.econ_shape. Qed.
(* the loop skeleton on a run that grows its buffers twice and exits by convergence at j = 8 *)
Example C18_ex_krylov_run :
  run_summary 30 4 (fun _ => false) (fun j => Nat.eqb j 8) = [1; 2; 9; 12; 12; 11; 1; 4; 6; 8].
Proof. vm_compute. reflexivity. Qed.
Example C18_ex_sites : 1 <= length sites.
Proof. vm_compute. lia. Qed.
(* the data model over the field with three elements, N = 2: all contracts hold, and both exact exits are taken *)
Example C18_ex_data_contracts :
  (forall x, KEx.isz x = false -> KEx.mul x (KEx.inv x) = KEx.a1) /\
  (forall w : vec KEx.F3, KEx.isz (KEx.nrm w) = true -> forall i, i < 2 -> w i = KEx.a0).
Proof. exact (conj KEx.inv_ok KEx.nrm_zero). Qed.
Example C18_ex_breakdown_run :
  exists r, krylov_return KEx.F3 2 KEx.diagA KEx.inv KEx.nrm KEx.rpart KEx.isz 2 (fun _ => false) KEx.ve0 KEx.a1 KEx.idE
            = Some (Breakdown, 1, r).
Proof. exact KEx.breakdown_run. Qed.
Example C18_ex_fullspace_run :
  exists r, krylov_return KEx.F3 2 KEx.flipA KEx.inv KEx.nrm KEx.rpart KEx.isz 2 (fun _ => false) KEx.ve0 KEx.a1 KEx.idE
            = Some (FullSpace, 2, r).
Proof. exact KEx.fullspace_run. Qed.
Example C18_ex_fullspace_hyps :
  hermitian KEx.F3 2 KEx.flipA /\
  orthonormal KEx.F3 2 2 (Vmat KEx.F3 2 KEx.flipA KEx.inv KEx.nrm KEx.rpart KEx.ve0) /\
  (forall i l, i < 2 -> l < 2 ->
     @sumn KEx.F3 2 (fun k => rmul KEx.F3 (Vmat KEx.F3 2 KEx.flipA KEx.inv KEx.nrm KEx.rpart KEx.ve0 i k)
                                          (rcj KEx.F3 (Vmat KEx.F3 2 KEx.flipA KEx.inv KEx.nrm KEx.rpart KEx.ve0 l k)))
     = if Nat.eqb i l then r1 KEx.F3 else r0 KEx.F3) /\
  (forall w : vec KEx.F3, rcj KEx.F3 (KEx.nrm w) = KEx.nrm w) /\ (forall x : KEx.F3, rcj KEx.F3 x = x -> KEx.rpart x = x).
Proof. exact KEx.fullspace_hyps. Qed.
(* a guarded normalisation is not homogeneous (field with three elements) *)
Example C18_ex_guarded_normalisation_refuted :
  let sh := {| ns_two_norm := true; ns_unconditional := false; ns_out_of_place := true; ns_first_row := true;
               ns_scale_once := true; ns_atol_scaled := true; ns_fallback_consistent := true |} in
  let nrmf := fun w : vec KEx.F3 => w 0 in
  let close1 := fun x : KEx.f3 => match x with KEx.a2 => true | _ => false end in
  let v : vec KEx.F3 := fun i => match i with 0 => KEx.a2 | _ => KEx.a0 end in
  let c := KEx.a2 in
  nrmf (fun i => KEx.mul c (v i)) = KEx.mul c (nrmf v) /\ KEx.mul c (KEx.inv c) = KEx.a1 /\
  expm_wrapper KEx.F3 nrmf KEx.inv close1 (fun x => x) sh (fun l => KEx.mul c (v l)) 0
  <> KEx.mul c (expm_wrapper KEx.F3 nrmf KEx.inv close1 (fun x => x) sh v 0).
Proof. exact guarded_normalisation_refuted. Qed.
