(* C02 -- TTNO construction is exact and independent of the tree topology.
   Only statements closed by [exact], Print Assumptions beneath, and Examples showing that the
   hypotheses are met by concrete non-trivial states.  Gen/Partition.v is regenerated from
   /repo/renormalizer/tn/treebase.py on every run.  Scalars: every commutative ring (Base/CRing.v). *)
From Coq Require Import ZArith List Arith Permutation.
Import ListNotations.
From RV Require Import Base.CRing Gen.Partition Gen.RootCover Gen.UniqueRows Gen.ComplexGuard Model.TreeTopo Gen.TreeBuilders Model.Ttno
  Proofs.TreeTopoProofs Proofs.TreeBuildersProofs Proofs.TtnoProofs.

(* ---------------------------------------------------------------- tree constructors *)
(* the GENERATED approximate_partition: the groups concatenate to the input, for every list (the empty
   one included, where Python's floor division makes the group size 0) and every positive group count *)
Theorem C02_partition_concat : forall (A : Type) (l : list A) (n : Z),
  (0 < n)%Z -> concat (approximate_partition l n) = l.
Proof. exact partition_concat. Qed.
Print Assumptions C02_partition_concat.

(* The builders below are the GENERATED definitions of Gen/TreeBuilders.v (loop bounds, indices, slice
   bounds, tests, counter arithmetic and recursion structure taken from treebase.py on every run).
   Every builder keeps every basis set exactly once -- all list lengths, all tree orders >= 2, all three
   ways of forming the elementary MCTDH nodes incl. every contract_label vector --, purely virtual nodes
   carry nothing else, and the virtual DoF names are pairwise distinct. *)
Theorem C02_builders_exactly_once : forall (A : Type) (l : list A),
  (forall t, linear_g l = Some t -> Permutation (real_basis t) l /\ nodes_ok t = true /\ NoDup (dummy_ids t)) /\
  (forall t, binary_g l = Some t -> Permutation (real_basis t) l /\ nodes_ok t = true /\ NoDup (dummy_ids t)) /\
  (forall order mode t, 2 <= order -> general_mctdh_g l (Z.of_nat order) mode = Some t ->
       Permutation (real_basis t) l /\ nodes_ok t = true /\ NoDup (dummy_ids t)) /\
  (forall t, t3ns_g l = Some t -> Permutation (real_basis t) l /\ nodes_ok t = true /\ NoDup (dummy_ids t)).
Proof. exact builders_g_exactly_once. Qed.
Print Assumptions C02_builders_exactly_once.

(* ... and they do return a tree on every input the code accepts: the python recursions on list
   lengths terminate within the fuel the generated functions carry, no index is out of range; linear,
   general_mctdh and t3ns even keep the order of the caller's list.  [mode_ok]: a contract_label
   vector has the length of the basis list (the code's assert). *)
Theorem C02_builders_total : forall (A : Type) (l : list A),
  (l <> [] -> exists t, linear_g l = Some t /\ real_basis t = l) /\
  (l <> [] -> exists t, binary_g l = Some t) /\
  (forall order mode, 2 <= order -> 1 < length l -> mode_ok mode l ->
       exists t, general_mctdh_g l (Z.of_nat order) mode = Some t /\ real_basis t = l) /\
  (exists t, t3ns_g l = Some t /\ real_basis t = l).
Proof. exact builders_g_total. Qed.
Print Assumptions C02_builders_total.

(* what general_mctdh's asserts reject, the generated function rejects *)
Theorem C02_general_mctdh_rejects : forall (A : Type) (l : list A) order mode,
  length l <= 1 \/ ~ mode_ok mode l -> general_mctdh_g l order mode = None.
Proof. intros A. exact (@general_mctdh_g_rejects A). Qed.
Print Assumptions C02_general_mctdh_rejects.

(* the generated linear / binary / t3ns coincide with the structural models of Model/TreeTopo.v *)
Theorem C02_builders_eq_model : forall (A : Type) (l : list A),
  linear_g l = linear l /\ binary_g l = binary l /\ t3ns_g l = Some (t3ns l).
Proof. intros A l. exact (conj (linear_g_eq l) (conj (binary_g_eq l) (t3ns_g_eq l))). Qed.
Print Assumptions C02_builders_eq_model.

(* ---------------------------------------------------------------- column bookkeeping *)
(* For ALL trees, all positions of the subtree in the post-order list and all header continuations:
   running the np.roll bookkeeping over the subtree's nodes yields, node by node, exactly
   [children outputs in child order (or the zero column at a leaf)] ++ [own k physical columns]
   consumed and [rest] remaining -- where for the j-th child `rest` = the later siblings' physical
   columns in post-order, the parent's own columns, the parent's rest, then the outputs of the earlier
   siblings (definition of [expected] in Model/Ttno.v) -- and leaves [rest ++ own output]. *)
Theorem C02_stack_discipline : forall t base rest,
  hloop base (pmk t) (phys_cols base t ++ rest) = (expected base t rest, rest ++ [Out (base + size t - 1)]).
Proof. exact stack_discipline_gen. Qed.
Print Assumptions C02_stack_discipline.

Theorem C02_stack_discipline_top : forall t,
  hloop 0 (pmk t) (phys_cols 0 t) = (expected 0 t [], [Out (size t - 1)]).
Proof. exact stack_discipline. Qed.
Print Assumptions C02_stack_discipline_top.

(* ---------------------------------------------------------------- the construction *)
(* one decomposition step, any m incoming bonds and k physical columns (w = m + k), EVERY vertex cover *)
Theorem C02_one_site_sound : forall (R : CRing) (w : nat) (t : table R) (rsel csel : list key) (Drow G : key -> R),
  NoDup rsel -> NoDup csel -> covers R w t rsel csel ->
  lsum (snd (one_site w t rsel csel))
       (fun y => rmul R (rmul R (snd y) (Dout_of R Drow (fst (one_site w t rsel csel)) (hd O (fst y)))) (G (tl (fst y))))
  = lsum t (fun x => rmul R (rmul R (snd x) (Drow (rkey R w x))) (G (ckey R w x))).
Proof. exact one_site_sound. Qed.
Print Assumptions C02_one_site_sound.

(* all trees, all rectangular term tables over the tree's physical columns, all admissible cover
   witnesses: the coefficient function of the constructed TTNO is that of the term table.
   [root_cover]: at the root every row has an empty column part and the implementation's Koenig
   cover is that single column; it leaves the final table [0] with factor 1. *)
Theorem C02_ttno_sound : forall (R : CRing) tr (T : table R) ws,
  rect R (width tr) T -> valid_run (pmk tr) T ws = true -> root_cover tr ws ->
  forall s, length s = width tr -> ttno_coeff tr (fst (construct tr T ws)) s = coeff T s.
Proof. exact ttno_sound. Qed.
Print Assumptions C02_ttno_sound.

(* without the assumption on the root's cover: the final table read through the root's out-operators *)
Theorem C02_ttno_sound_table : forall (R : CRing) tr (T : table R) ws,
  rect R (width tr) T -> valid_run (pmk tr) T ws = true ->
  forall s, length s = width tr -> final_den R tr T ws s = coeff T s.
Proof. exact ttno_sound_table. Qed.
Print Assumptions C02_ttno_sound_table.

(* ---- the unique-rows step.  Everything after `np.unique(table_row, axis=0, return_inverse=True)` works on row
   INDICES.  The generated fact (Gen/UniqueRows.v) names the call found in the source; its specification is
   (term_rows, row_inverse); and the construction is sound because an index determines the row: *)
Theorem C02_row_index_call_spec :
  row_index_spec row_index_call = Some (fun keys => (term_rows keys, row_inverse keys)).
Proof. exact row_index_call_spec. Qed.
Print Assumptions C02_row_index_call_spec.

Theorem C02_row_index_reconstruct : forall (keys : list key) t, t < length keys ->
  nth (nth t (row_inverse keys) O) (term_rows keys) [] = nth t keys [].
Proof. exact row_index_reconstruct. Qed.
Print Assumptions C02_row_index_reconstruct.

Theorem C02_row_index_injective : forall (keys : list key) s t, s < length keys -> t < length keys ->
  (nth s (row_inverse keys) O = nth t (row_inverse keys) O <-> nth s keys [] = nth t keys []).
Proof. exact row_index_injective. Qed.
Print Assumptions C02_row_index_injective.

(* ---- complex local factors: the generated fact (Gen/ComplexGuard.v) says the numeric step REFUSES a complex local
   product (assert / raise) and never takes a real part; the scalars of the theorems above are then real throughout *)
Theorem C02_complex_local_products_refused :
  (complex_local_product_policy = RefuseByAssert \/ complex_local_product_policy = RefuseByRaise) /\ takes_real_part = false.
Proof. split; [left; reflexivity || right; reflexivity|reflexivity]. Qed.
Print Assumptions C02_complex_local_products_refused.

(* ---- the qr algorithm.  One step, relative to an exact factorisation witness: [qrows]/[qcols] are
   duplicate-free lists containing the row / column keys, q the out-operators (sparse columns of Q), r the
   new table (sparse R); [qr_valid] demands  sum_l Q[rk,l] R[l,ck] = Gamma[rk,ck]  for all listed keys *)
Theorem C02_one_site_qr_sound : forall (R : CRing) (w : nat) (t : table R) (qrows qcols : list key) (q : bond R)
    (r : list (rentry R)) (Drow G : key -> R),
  qr_valid R w t qrows qcols q r ->
  lsum (qr_table R r) (fun y => rmul R (rmul R (snd y) (Dout_of R Drow q (hd O (fst y)))) (G (tl (fst y))))
  = lsum t (fun x => rmul R (rmul R (snd x) (Drow (rkey R w x))) (G (ckey R w x))).
Proof. exact one_site_qr_sound. Qed.
Print Assumptions C02_one_site_qr_sound.

(* all trees, every node decomposed either by a vertex cover (WG) or by a factorisation (WQ); the
   hypothesis on the final table is what the code produces at the root (one column: q = gamma, r = [[1]]) *)
Theorem C02_ttno_sound_qr : forall (R : CRing) tr (T : table R) (sws : list (swit R)),
  rect R (width tr) T -> svalid_run R (pmk tr) T sws ->
  snd (sconstruct tr T sws) = [([O], r1 R)] ->
  forall s, length s = width tr -> ttno_coeff tr (fst (sconstruct tr T sws)) s = coeff T s.
Proof. exact ttno_sound_qr. Qed.
Print Assumptions C02_ttno_sound_qr.

(* ---- bond labels (one component pq of the quantum number; apply per component).  If all terms carry
   the same total charge q, then in every out-operator of every node all summands are equally charged
   (so `out_op[0].qn`, the label _compute_qn assigns, does not depend on scipy's ordering) and every
   row of the final table addresses a root label equal to q (TTNO.qntot).  [nonred_run]: no selected
   column is redundant (its complementary operator is not empty; otherwise the code raises). *)
Theorem C02_ttno_qn_labels : forall (R : CRing) (pq : nat -> Z) tr (T : table R) ws (q : Z),
  rect R (width tr) T -> valid_run (pmk tr) T ws = true -> nonred_run (pmk tr) T ws = true ->
  (forall x, In x T -> chg pq (fst x) = q) ->
  consistentb R pq tr (fst (construct tr T ws)) = true /\
  forall y, In y (snd (construct tr T ws)) -> lab R pq tr (fst (construct tr T ws)) (olast R y) = q.
Proof. exact ttno_qn_labels. Qed.
Print Assumptions C02_ttno_qn_labels.

(* ---- the root.  construct_symbolic_ttno drops the last `factor` without the chain's
   `assert factor[0] == 1`.  With the GENERATED orientation rule (Gen/RootCover.v): at the root (one
   unique column, >= 1 unique rows) the columns are the U side, and whenever the column is matched --
   it is in every maximum matching, having an edge -- the cover is {column}, no row ... *)
Theorem C02_root_cover_orientation : forall (rowkeys : list key) (matchV : list (option nat)),
  rowkeys <> [] -> In (Some O) matchV -> root_witness rowkeys matchV = Some ([], [[]]).
Proof. exact root_cover_orientation. Qed.
Print Assumptions C02_root_cover_orientation.

(* ... hence the discarded table is the single row [0] with factor ONE *)
Theorem C02_root_factor_one : forall (R : CRing) tr (T : table R) ws (rowkeys : list key) (matchV : list (option nat)),
  rowkeys <> [] -> In (Some O) matchV ->
  Some (nth (size tr - 1) ws ([], [])) = root_witness rowkeys matchV ->
  snd (construct tr T ws) = [([O], r1 R)].
Proof. exact root_factor_one. Qed.
Print Assumptions C02_root_factor_one.

(* The dependence is real: the other minimum cover of the one-edge graph (the row) is an admissible
   witness of the same size, but then a factor 2 stays in the discarded table and the TTNO is wrong. *)
Theorem C02_root_factor_other_cover_refuted :
  rect ZRing (width refute_tree) refute_table /\
  valid_run (pmk refute_tree) refute_table refute_ws = true /\
  length (fst (hd ([], []) refute_ws)) + length (snd (hd ([], []) refute_ws)) = 1 /\
  snd (construct refute_tree refute_table refute_ws) = [([0], 2%Z)] /\
  ttno_coeff refute_tree (fst (construct refute_tree refute_table refute_ws)) [5] <> coeff refute_table [5].
Proof. exact root_factor_other_cover_refuted. Qed.
Print Assumptions C02_root_factor_other_cover_refuted.

(* two trees whose tables are related by an injective relabelling of operator strings (another
   post-order = column permutation, identity columns of virtual nodes, another numbering of the
   primary operators) carry the same coefficient function, and nothing outside the relabelled strings *)
Theorem C02_ttno_topology_independent : forall (R : CRing) t1 t2 (T1 T2 : table R) ws1 ws2 phi,
  rect R (width t1) T1 -> rect R (width t2) T2 -> T2 = relabel R phi T1 ->
  valid_run (pmk t1) T1 ws1 = true -> valid_run (pmk t2) T2 ws2 = true ->
  root_cover t1 ws1 -> root_cover t2 ws2 ->
  forall s, length s = width t1 -> length (phi s) = width t2 ->
  (forall x, In x T1 -> phi (fst x) = phi s -> fst x = s) ->
  ttno_coeff t2 (fst (construct t2 T2 ws2)) (phi s) = ttno_coeff t1 (fst (construct t1 T1 ws1)) s.
Proof. exact ttno_topology_independent. Qed.
Print Assumptions C02_ttno_topology_independent.

Theorem C02_ttno_topology_independent_outside : forall (R : CRing) t2 (T1 T2 : table R) ws2 phi,
  rect R (width t2) T2 -> T2 = relabel R phi T1 -> valid_run (pmk t2) T2 ws2 = true -> root_cover t2 ws2 ->
  forall s', length s' = width t2 -> (forall x, In x T1 -> phi (fst x) <> s') ->
  ttno_coeff t2 (fst (construct t2 T2 ws2)) s' = r0 R.
Proof. exact ttno_topology_independent_outside. Qed.
Print Assumptions C02_ttno_topology_independent_outside.

(* column permutations are such relabellings *)
Theorem C02_permute_injective : forall p n (x s : key),
  (forall i, i < n -> In i p) -> length x = n -> length s = n -> permute p x = permute p s -> x = s.
Proof. exact permute_inj. Qed.
Print Assumptions C02_permute_injective.

(* the chain: the symbolic MPO (left-to-right sweep with sentinel columns) has the table's coefficient
   function (hypothesis on the final table = the code's own assert), hence equals the TTNO of
   BasisTree.linear, whose post-order lists the chain backwards *)
Theorem C02_mpo_sound : forall (R : CRing) n (T : table R) ws,
  rect R n T -> mvalid_run n (mpo_table T) ws = true ->
  snd (mloop n (mpo_table T) ws) = [([O; O], r1 R)] ->
  forall s, length s = n -> mpo_coeff (fst (mloop n (mpo_table T) ws)) s = coeff T s.
Proof. exact mpo_sound. Qed.
Print Assumptions C02_mpo_sound.

Theorem C02_ttno_linear_eq_mpo : forall (R : CRing) n (T : table R) wsT wsM,
  rect R (S n) T ->
  valid_run (pmk (chain_tree n)) (relabel R (@rev nat) T) wsT = true -> root_cover (chain_tree n) wsT ->
  mvalid_run (S n) (mpo_table T) wsM = true -> snd (mloop (S n) (mpo_table T) wsM) = [([O; O], r1 R)] ->
  forall s, length s = S n ->
  ttno_coeff (chain_tree n) (fst (construct (chain_tree n) (relabel R (@rev nat) T) wsT)) (rev s)
  = mpo_coeff (fst (mloop (S n) (mpo_table T) wsM)) s.
Proof. exact ttno_linear_eq_mpo. Qed.
Print Assumptions C02_ttno_linear_eq_mpo.

Theorem C02_linear_is_chain : forall (A : Type) (a : A) l, shape (linear_from a l) = chain_tree (length l).
Proof. intros A. exact (@shape_linear_from A). Qed.
Print Assumptions C02_linear_is_chain.

(* ---------------------------------------------------------------- non-vacuity *)
(* floor division gives group size 0 on the empty list; a trailing empty group on 5 elements / 4 groups *)
Example C02_ex_partition :
  approximate_partition (@nil nat) 3%Z = [[]; []; []] /\
  approximate_partition [0; 1; 2; 3; 4] 4%Z = [[0; 1]; [2; 3]; [4]; []].
Proof. vm_compute. split; reflexivity. Qed.

(* general_mctdh on 5 basis sets, order 4, primitives contracted: 10 nodes, one of them a purely
   virtual LEAF (the empty fourth group) *)
Example C02_ex_mctdh :
  option_map (fun t => pmk (shape t)) (general_mctdh_g [0; 1; 2; 3; 4] 4%Z ContractAll)
  = Some [(0, 1); (0, 1); (2, 1); (0, 1); (0, 1); (2, 1); (0, 1); (1, 1); (0, 1); (4, 1)].
Proof. vm_compute. reflexivity. Qed.

(* A 5-node tree with a purely virtual root, a node with two basis sets, a virtual leaf:
     root(dummy) -- [ A(2 basis sets) ; B(1) -- [ C(1) ; D(dummy leaf) ] ]
   columns in post-order: A0 A1 | C | D | B | root.  Four terms (factors scaled by 2), the covers
   Hopcroft-Karp produced in /repo for  3/2 X_0 Z_2 - X_0 b+_3 + 3/2 s+_1 s-_2 + 2 Z_1 b_3.          *)
Definition ex_tree : tree := Node 1 [Node 2 []; Node 1 [Node 1 []; Node 1 []]].
Definition ex_table : table ZRing :=
  [([0; 9; 2; 3; 10; 5], 3%Z); ([0; 11; 12; 3; 4; 5], 4%Z); ([6; 1; 2; 3; 7; 5], 3%Z); ([6; 1; 8; 3; 4; 5], (-2)%Z)].
Definition ex_ws : list wit :=
  [ ([[0; 6; 1]; [0; 0; 9]; [0; 0; 11]], []);
    ([[0; 2]; [0; 8]; [0; 12]], []);
    ([[0; 3]], []);
    ([], [[5; 0]; [5; 1]; [5; 2]]);
    ([], [[]]) ].

Example C02_ex_hypotheses :
  rect ZRing (width ex_tree) ex_table /\ valid_run (pmk ex_tree) ex_table ex_ws = true /\ root_cover ex_tree ex_ws /\
  map (@length _) (fst (construct ex_tree ex_table ex_ws)) = [3; 3; 1; 3; 1] /\
  snd (construct ex_tree ex_table ex_ws) = [([0], 1%Z)].
Proof.
  split; [repeat constructor|]. split; [vm_compute; reflexivity|]. split; [reflexivity|]. split; vm_compute; reflexivity.
Qed.

Example C02_ex_coeff :
  map (ttno_coeff ex_tree (fst (construct ex_tree ex_table ex_ws)))
      [[0; 9; 2; 3; 10; 5]; [0; 11; 12; 3; 4; 5]; [6; 1; 2; 3; 7; 5]; [6; 1; 8; 3; 4; 5]; [0; 1; 2; 3; 4; 5]; [6; 9; 2; 3; 10; 5]]
  = [3; 4; 3; -2; 0; 0]%Z.
Proof. vm_compute. reflexivity. Qed.

(* the column log of that tree: the root consumes the outputs of A (position 0) and B (position 3)
   in child order, then its own column; B consumes the outputs of C and D *)
Example C02_ex_stack :
  map consumed (fst (hloop 0 (pmk ex_tree) (phys_cols 0 ex_tree)))
  = [ [Zero; Phys 0 0; Phys 0 1]; [Zero; Phys 1 0]; [Zero; Phys 2 0]; [Out 1; Out 2; Phys 3 0]; [Out 0; Out 3; Phys 4 0] ] /\
  map remaining (fst (hloop 0 (pmk ex_tree) (phys_cols 0 ex_tree)))
  = [ [Phys 1 0; Phys 2 0; Phys 3 0; Phys 4 0]; [Phys 2 0; Phys 3 0; Phys 4 0; Out 0]; [Phys 3 0; Phys 4 0; Out 0; Out 1];
      [Phys 4 0; Out 0]; [] ].
Proof. vm_compute. split; reflexivity. Qed.

(* a factorisation that genuinely mixes rows: the chain of two sites with
   Gamma = [[1, 1], [1, -1]] = Q . I,  out-operators  L0 + L1  and  L0 - L1;  cover at the root *)
Definition exq_tree : tree := chain_tree 1.
Definition exq_table : table ZRing := [([1; 3], 1%Z); ([1; 4], 1%Z); ([2; 3], 1%Z); ([2; 4], (-1)%Z)].
Definition exq_ws : list (swit ZRing) :=
  [ WQ ZRing [[0; 1]; [0; 2]] [[3]; [4]]
       [ [([0; 1], 1%Z); ([0; 2], 1%Z)]; [([0; 1], 1%Z); ([0; 2], (-1)%Z)] ]
       [ (0, [3], 1%Z); (1, [4], 1%Z) ];
    WG ([], [[]]) ].
Example C02_ex_qr :
  svalid_run ZRing (pmk exq_tree) exq_table exq_ws /\
  snd (sconstruct exq_tree exq_table exq_ws) = [([0], 1%Z)] /\
  map (ttno_coeff exq_tree (fst (sconstruct exq_tree exq_table exq_ws))) [[1; 3]; [1; 4]; [2; 3]; [2; 4]; [1; 1]]
  = [1; 1; 1; -1; 0]%Z.
Proof.
  split; [|split; vm_compute; reflexivity].
  cbn [svalid_run pmk exq_tree chain_tree postorder flat_map map app mk_of arity nsets children length fst snd hd tl exq_ws svalid_step].
  split; [|split; [vm_compute; reflexivity|exact I]].
  unfold qr_valid. split; [repeat constructor; cbn; intuition discriminate|].
  split; [repeat constructor; cbn; intuition discriminate|].
  split; [intros x Hx; vm_compute in Hx; intuition (subst; vm_compute; auto)|].
  split; [intros e p He Hp; vm_compute in He; intuition (subst; vm_compute in Hp; intuition (subst; vm_compute; auto))|].
  split.
  { intros e He. destruct He as [<-|[<-|[]]].
    - split; [vm_compute; auto|]. exists ([0; 1; 3], 1%Z). vm_compute. auto.
    - split; [vm_compute; auto|]. exists ([0; 1; 4], 1%Z). vm_compute. auto. }
  intros rk ck Hr Hc. vm_compute in Hr, Hc. intuition (subst; vm_compute; reflexivity).
Qed.

(* labels: charges pq(1) = 1, pq(2) = 0, pq(3) = 0, pq(4) = 1 -- every row of the table below has charge 1;
   covers: rows at the leaf, the column at the root *)
Definition exl_table : table ZRing := [([1; 3], 2%Z); ([2; 4], 3%Z)].
Definition exl_ws : list wit := [ ([[0; 1]; [0; 2]], []); ([], [[]]) ].
Definition exl_pq (i : nat) : Z := match i with 1 => 1%Z | 4 => 1%Z | _ => 0%Z end.
Example C02_ex_labels :
  valid_run (pmk exq_tree) exl_table exl_ws = true /\ nonred_run (pmk exq_tree) exl_table exl_ws = true /\
  (forall x, In x exl_table -> chg exl_pq (fst x) = 1%Z) /\
  all_labs ZRing exl_pq exq_tree (fst (construct exq_tree exl_table exl_ws)) = [[1; 0]; [1]]%Z.
Proof.
  split; [vm_compute; reflexivity|]. split; [vm_compute; reflexivity|]. split; [|vm_compute; reflexivity].
  intros x Hx. vm_compute in Hx. intuition (subst; reflexivity).
Qed.

(* rows are compared as tuples, entry by entry (no packing into one machine integer) *)
Example C02_ex_row_index :
  term_rows [[0; 300; 7]; [0; 2; 9]; [0; 300; 7]; [0; 2; 265]] = [[0; 2; 9]; [0; 2; 265]; [0; 300; 7]] /\
  row_inverse [[0; 300; 7]; [0; 2; 9]; [0; 300; 7]; [0; 2; 265]] = [2; 0; 2; 1].
Proof. vm_compute. split; reflexivity. Qed.
