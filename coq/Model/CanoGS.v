(* C04, second part (model; no proofs here)
   1. the square-root-free formulation of "isometry": Gram matrix = a DIAGONAL weight matrix
      (dec_orth / left_iso_D / right_iso_D), and a real, executable decomposition kernel over any field with
      involution and definite Hermitian form: Gram-Schmidt without normalisation (gs_kernel);
   2. quantum-number labels on the push step: the new bond takes the labels the kernel reports for its kept
      columns (qnlset / qnrset of svd_qn, as _update_ms stores them), validity of a labelled chain (qn_valid)
      and the block contract of the kernel (block_ok).                                                    *)
From Coq Require Import List Arith ZArith Bool.
Import ListNotations.
From RV Require Import Base.CRing Base.BigSum Model.Chain Gen.CanoSched Model.Cano.

(* ---- a field with involution whose Hermitian form is definite (Q, Q[i], R, C; not Z) ---- *)
Record CField := {
  fring :> CRing;
  finv : fring -> fring;
  finv_ok : forall x : fring, x <> r0 fring -> rmul fring x (finv x) = r1 fring;
  f_dec : forall x y : fring, x = y \/ x <> y;
  f_definite : forall n (f : nat -> fring),
    sumn n (fun i => rmul fring (rcj fring (f i)) (f i)) = r0 fring -> forall i, i < n -> f i = r0 fring
}.

Section Diag.
Variable R : CRing.
(* columns of U / rows of V pairwise orthogonal, squared norms D a (no square root, no division needed to state it) *)
Definition ucols_orthD (D : nat -> R) (rows k : nat) (U : mat R) : Prop :=
  forall a b, a < k -> b < k ->
    sumn rows (fun i => rmul R (rcj R (U i a)) (U i b)) = if Nat.eqb a b then D a else r0 R.
Definition vrows_orthD (D : nat -> R) (cols k : nat) (V : mat R) : Prop :=
  forall a b, a < k -> b < k ->
    sumn cols (fun j => rmul R (rcj R (V a j)) (V b j)) = if Nat.eqb a b then D a else r0 R.
Definition dec_orth (dec : kernel R) : Prop :=
  forall gi rows cols M,
    (exists D, ucols_orthD D rows (dK (dec gi true rows cols M)) (dU (dec gi true rows cols M))) /\
    (exists D, vrows_orthD D cols (dK (dec gi false rows cols M)) (dV (dec gi false rows cols M))).
(* T^dagger T = D (diagonal) for a site read as a (l,p) x r matrix, resp. T T^dagger = D read as l x (p,r) *)
Definition left_iso_D (dl dp d : nat) (t : T3 R) : Prop :=
  exists D : nat -> R, forall a b, a < d -> b < d ->
    sumn dl (fun l => sumn dp (fun p => rmul R (rcj R (t l p a)) (t l p b))) = if Nat.eqb a b then D a else r0 R.
Definition right_iso_D (dl dp d : nat) (t : T3 R) : Prop :=
  exists D : nat -> R, forall a b, a < dl -> b < dl ->
    sumn dp (fun p => sumn d (fun r => rmul R (rcj R (t a p r)) (t b p r))) = if Nat.eqb a b then D a else r0 R.
End Diag.

(* ---- Gram-Schmidt without square roots ---- *)
Section GS.
Variable F : CField.
Notation R := (fring F).

Definition ip (n : nat) (x y : nat -> R) : R := sumn n (fun i => rmul R (rcj R (x i)) (y i)).
Definition zerov : nat -> R := fun _ => r0 R.
Definition coef (rows : nat) (q a : nat -> R) : R := rmul R (ip rows q a) (finv F (ip rows q q)).
Definition tabv (n : nat) (f : nat -> R) : nat -> R :=
  let vals := map f (seq 0 n) in fun i => nth i vals (r0 R).                 (* memoised vector *)

(* q_0 .. q_{j-1}:  q_j = a_j - sum_{b<j} (<q_b,a_j>/<q_b,q_b>) q_b   (a dependent column gives q_j = 0) *)
Fixpoint gs_vecs (rows : nat) (A : mat R) (j : nat) : list (nat -> R) :=
  match j with
  | O => []
  | S j' =>
      let qs := gs_vecs rows A j' in
      qs ++ [tabv rows (fun i => rsub R (A i j')
                 (sumn j' (fun b => rmul R (coef rows (nth b qs zerov) (fun i' => A i' j')) (nth b qs zerov i))))]
  end.

Definition gs_U (rows cols : nat) (A : mat R) : mat R := fun i a => nth a (gs_vecs rows A cols) zerov i.
Definition gs_V (rows cols : nat) (A : mat R) : mat R :=
  fun a j => if Nat.ltb a j then coef rows (nth a (gs_vecs rows A cols) zerov) (fun i => A i j)
             else if Nat.eqb a j then r1 R else r0 R.                           (* unit upper triangular *)
Definition idmat : mat R := fun i a => if Nat.eqb i a then r1 R else r0 R.

(* tall or square: Gram-Schmidt on the columns (k = cols); wide: M = I.M (k = rows) *)
Definition gs_right (rows cols : nat) (M : mat R) : nat * mat R * mat R :=
  if Nat.leb cols rows then (cols, gs_U rows cols M, gs_V rows cols M) else (rows, idmat, M).
Definition ctrans (M : mat R) : mat R := fun i j => rcj R (M j i).
(* left-moving: decompose the conjugate transpose and transpose back (an "RQ") *)
Definition gs_kernel : kernel R := fun _ dir rows cols M =>
  if dir then gs_right rows cols M
  else let x := gs_right cols rows (ctrans M) in (dK x, ctrans (dV x), ctrans (dU x)).
End GS.

(* ---- labels ---- *)
Section Labels.
Variable R : CRing.
Variable L : Type.
Variable ladd : L -> L -> L.

Definition lmap := nat -> L.
(* (right dimension, tensor, labels of the right bond) *)
Definition lchain := list (nat * T3 R * lmap).
(* kernel with labels: site, direction, rows, cols, row labels, column labels, matrix -> factors, labels of the kept columns *)
Definition lkernel := nat -> bool -> nat -> nat -> lmap -> lmap -> mat R -> (nat * mat R * mat R) * lmap.

Definition rowlab (dp : nat) (ql sg : lmap) : lmap := fun x => ladd (ql (x / dp)) (sg (x mod dp)).   (* get_big_qn, to_right *)
Definition collab (dr : nat) (sg qr : lmap) : lmap := fun y => ladd (sg (y / dr)) (qr (y mod dr)).   (* get_big_qn, to_left *)

(* a site left of the centre (both bonds carry left-system labels), right of it (right-system labels), the centre *)
Definition valid_left (dl dp dr : nat) (ql sg qr : lmap) (t : T3 R) : Prop :=
  forall l p r, l < dl -> p < dp -> r < dr -> ladd (ql l) (sg p) <> qr r -> t l p r = r0 R.
Definition valid_right (dl dp dr : nat) (ql sg qr : lmap) (t : T3 R) : Prop :=
  forall l p r, l < dl -> p < dp -> r < dr -> ladd (sg p) (qr r) <> ql l -> t l p r = r0 R.
Definition valid_centre (tot : L) (dl dp dr : nat) (ql sg qr : lmap) (t : T3 R) : Prop :=
  forall l p r, l < dl -> p < dp -> r < dr -> ladd (ladd (ql l) (sg p)) (qr r) <> tot -> t l p r = r0 R.

(* block contract of svd_qn: column a of U lives in the rows labelled lab a and row a of V in the columns whose
   label completes lab a to qntot (right-moving: lab = qnlset); mirrored for left-moving (lab = qnrset) *)
Definition block_ok (tot : L) (dir : bool) (rows cols : nat) (rl cl : lmap) (x : nat * mat R * mat R) (lab : lmap) : Prop :=
  if dir
  then (forall i a, i < rows -> a < dK x -> rl i <> lab a -> dU x i a = r0 R) /\
       (forall a j, a < dK x -> j < cols -> ladd (lab a) (cl j) <> tot -> dV x a j = r0 R)
  else (forall a j, a < dK x -> j < cols -> cl j <> lab a -> dV x a j = r0 R) /\
       (forall i a, i < rows -> a < dK x -> ladd (rl i) (lab a) <> tot -> dU x i a = r0 R).
Definition ldec_ok (tot : L) (ldec : lkernel) : Prop :=
  forall gi dir rows cols rl cl M,
    block_ok tot dir rows cols rl cl (fst (ldec gi dir rows cols rl cl M)) (snd (ldec gi dir rows cols rl cl M)).

Fixpoint all_right (dl : nat) (ql : lmap) (ds : list nat) (sgs : list lmap) (lts : lchain) : Prop :=
  match ds, sgs, lts with
  | dp :: ds', sg :: sgs', (dr, t, qr) :: lts' => valid_right dl dp dr ql sg qr t /\ all_right dr qr ds' sgs' lts'
  | [], [], [] => True
  | _, _, _ => False
  end.
(* the labels are valid for a chain whose centre is site c *)
Fixpoint qn_valid (c : nat) (tot : L) (dl : nat) (ql : lmap) (ds : list nat) (sgs : list lmap) (lts : lchain) : Prop :=
  match ds, sgs, lts with
  | dp :: ds', sg :: sgs', (dr, t, qr) :: lts' =>
      match c with
      | O => valid_centre tot dl dp dr ql sg qr t /\ all_right dr qr ds' sgs' lts'
      | S c' => valid_left dl dp dr ql sg qr t /\ qn_valid c' tot dr qr ds' sgs' lts'
      end
  | _, _, _ => False
  end.

Section LSweep.
Variable ldec : lkernel.

(* _push_cano + _update_ms with labels: self.qn[idx+1] = qnlset (to_right) / self.qn[idx] = qnrset (to_left) *)
Fixpoint lpush_r (gi dl : nat) (ql : lmap) (ds : list nat) (sgs : list lmap) (lts : lchain) (i : nat) : lchain :=
  match i, ds, sgs, lts with
  | O, dp :: _, sg :: _, (dr, t, qr) :: (dr2, t2, qr2) :: b =>
      let y := ldec gi true (dl * dp) dr (rowlab dp ql sg) qr (mat_r R dp t) in
      (dK (fst y), site_u R dp (dU (fst y)), snd y) :: (dr2, absorb_v R dr (dV (fst y)) t2, qr2) :: b
  | S i', _ :: ds', _ :: sgs', (dr, t, qr) :: lts' => (dr, t, qr) :: lpush_r gi dr qr ds' sgs' lts' i'
  | _, _, _, _ => lts
  end.

Fixpoint lpush_l (gi : nat) (ql : lmap) (ds : list nat) (sgs : list lmap) (lts : lchain) (i' : nat) : lchain :=
  match i', ds, sgs, lts with
  | O, _ :: dp :: _, _ :: sg :: _, (dm, t1, qm) :: (dr, t, qr) :: b =>
      let y := ldec gi false dm (dp * dr) qm (collab dr sg qr) (mat_l R dr t) in
      (dK (fst y), absorb_u R dm t1 (dU (fst y)), snd y) :: (dr, site_v R dr (dV (fst y)), qr) :: b
  | S j, _ :: ds', _ :: sgs', (dr, t, qr) :: lts' => (dr, t, qr) :: lpush_l gi qr ds' sgs' lts' j
  | _, _, _, _ => lts
  end.

Definition lpush (dir : bool) (ql : lmap) (ds : list nat) (sgs : list lmap) (lts : lchain) (i : nat) : lchain :=
  if dir then lpush_r i 1 ql ds sgs lts i else match i with O => lts | S i' => lpush_l i ql ds sgs lts i' end.
Definition lsweep (dir : bool) (ql : lmap) (ds : list nat) (sgs : list lmap) (tr : list Z) (lts : lchain) : lchain :=
  fold_left (fun lts idx => lpush dir ql ds sgs lts (Z.to_nat idx)) tr lts.
End LSweep.

(* compress: only the first m columns (and their labels) are kept *)
Definition ltrunc (mt : nat -> nat -> nat) (ldec : lkernel) : lkernel :=
  fun gi dir rows cols rl cl M =>
    let y := ldec gi dir rows cols rl cl M in
    ((Nat.min (mt gi (dK (fst y))) (dK (fst y)), dU (fst y), dV (fst y)), snd y).
End Labels.

(* pure label bookkeeping of a sweep, as executed by _update_ms: one label list per bond (n+1 bonds); the k-th
   push of the sweep stores the k-th reported label list (a witness logged from svd_qn) at bond idx+1 / idx *)
Fixpoint set_nth {A} (n : nat) (x : A) (l : list A) : list A :=
  match n, l with
  | O, _ :: t => x :: t
  | S n', h :: t => h :: set_nth n' x t
  | _, [] => []
  end.
Fixpoint labels_sweep {A} (dir : bool) (tr : list Z) (news : list (list A)) (qn : list (list A)) : list (list A) :=
  match tr, news with
  | idx :: tr', nl :: news' =>
      labels_sweep dir tr' news' (set_nth (if dir then S (Z.to_nat idx) else Z.to_nat idx) nl qn)
  | _, _ => qn
  end.
