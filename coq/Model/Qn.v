(* Quantum-number bookkeeping of renormalizer/mps/mp.py (qn, qnidx, qntot, to_right), generic over the label type
   (Z for one component, list Z for several), written as the code performs it.  No proofs (Proofs/QnProofs.v).

   qn : one list of labels per bond (site_num + 1 bonds).  Bonds 0..qnidx hold labels of the LEFT block, bonds
   qnidx+1..site_num hold labels of the RIGHT block (= qntot - left label).

   code                                   model
   MatrixProduct.move_qnidx               move_qnidx
   MatrixProduct.add (label part)         add_meta         (add_meta_prefix = the code before commit 8f85435)
   Mpo.apply (label part)                 apply_meta
   MpDm.apply (label part, dummy_qn)      mpdm_apply_meta
   Mpo.conj_trans (label part)            conj_trans_meta  (conj_trans_meta_prefix = before commit 6897b48)
   conj / scale / copy                    labels unchanged (metacopy)                                            *)
From Coq Require Import List Arith Bool ZArith Lia.
Import ListNotations.
From RV Require Import Base.CRing Base.BigSum Model.Chain Model.Mp.

Record LabOps := {
  lab : Type;
  lzero_like : lab -> lab;            (* np.zeros of the same width *)
  ladd : lab -> lab -> lab;
  lsub : lab -> lab -> lab;
  lneg : lab -> lab;
  leqb : lab -> lab -> bool
}.

Definition ZLab : LabOps :=
  {| lab := Z; lzero_like := fun _ => 0%Z; ladd := Z.add; lsub := Z.sub; lneg := Z.opp; leqb := Z.eqb |}.

(* component-wise operations on integer vectors; a missing component counts as 0 (never happens in the code,
   where all labels have qn_size components) *)
Fixpoint zipz (f : Z -> Z -> Z) (a b : list Z) {struct a} : list Z :=
  match a with
  | [] => map (fun y => f 0%Z y) b
  | x :: a' => match b with
               | [] => f x 0%Z :: zipz f a' []
               | y :: b' => f x y :: zipz f a' b'
               end
  end.
Fixpoint veqb (a b : list Z) {struct a} : bool :=
  match a with
  | [] => forallb (fun y => Z.eqb 0 y) b
  | x :: a' => match b with
               | [] => Z.eqb x 0 && veqb a' []
               | y :: b' => Z.eqb x y && veqb a' b'
               end
  end.
Definition VLab : LabOps :=
  {| lab := list Z; lzero_like := map (fun _ => 0%Z); ladd := zipz Z.add; lsub := zipz Z.sub;
     lneg := map Z.opp; leqb := veqb |}.

Section Meta.
Variable L : LabOps.

Record meta := { qn : list (list (lab L)); qnidx : nat; qntot : lab L; to_right : bool }.

Fixpoint mapi_from {A B} (f : nat -> A -> B) (i : nat) (l : list A) : list B :=
  match l with [] => [] | x :: l' => f i x :: mapi_from f (S i) l' end.

(* for idx in range(lo + 1, n + 1): qn[idx] = qntot - qn[idx] *)
Definition flip_above (n lo : nat) (tot : lab L) (q : list (list (lab L))) : list (list (lab L)) :=
  mapi_from (fun idx x => if (lo <? idx) && (idx <=? n) then map (fun v => lsub L tot v) x else x) 0 q.

(*  for idx in range(self.qnidx + 1, self.site_num + 1): self.qn[idx] = self.qntot - self.qn[idx]
    for idx in range(self.site_num, dstidx, -1):        self.qn[idx] = self.qntot - self.qn[idx]
    self.qnidx = dstidx                                                                        (n = site_num) *)
Definition move_qnidx (n : nat) (m : meta) (dst : nat) : meta :=
  {| qn := flip_above n dst (qntot m) (flip_above n (qnidx m) (qntot m) (qn m));
     qnidx := dst; qntot := qntot m; to_right := to_right m |}.

Fixpoint zipw {A B C} (f : A -> B -> C) (a : list A) (b : list B) : list C :=
  match a, b with x :: a', y :: b' => f x y :: zipw f a' b' | _, _ => [] end.
Definition set_first {A} (q : list A) (z : A) : list A := match q with [] => [] | _ :: t => z :: t end.
Fixpoint set_last {A} (q : list A) (z : A) : list A :=
  match q with [] => [] | [_] => [z] | x :: t => x :: set_last t z end.

(*  new_mps.move_qnidx(other.qnidx); new_mps.to_right = other.to_right
    new_mps.qn = [np.concatenate([qn1, qn2]) for qn1, qn2 in zip(new_mps.qn, other.qn)]
    new_mps.qn[0] = zeros((1, qn_size)); new_mps.qn[-1] = zeros((1, qn_size))              (a = self, b = other) *)
Definition add_meta (n : nat) (a b : meta) : meta :=
  let a' := move_qnidx n a (qnidx b) in
  let z := [lzero_like L (qntot a)] in
  {| qn := set_last (set_first (zipw (@app _) (qn a') (qn b)) z) z;
     qnidx := qnidx b; qntot := qntot a; to_right := to_right b |}.
(* the code before commit 8f85435: zip(self.qn, other.qn) *)
Definition add_meta_prefix (n : nat) (a b : meta) : meta :=
  let z := [lzero_like L (qntot a)] in
  {| qn := set_last (set_first (zipw (@app _) (qn a) (qn b)) z) z;
     qnidx := qnidx b; qntot := qntot a; to_right := to_right b |}.

(* add_outer(qn_o, qn_m).reshape(-1, qn_size): index  i_o * len(qn_m) + i_m *)
Definition outer (qo qm : list (lab L)) : list (lab L) := flat_map (fun x => map (fun y => ladd L x y) qm) qo.

(*  orig_idx = new_mps.qnidx; new_mps.move_qnidx(self.qnidx)
    new_mps.qn = [add_outer(qn_o, qn_m).reshape(-1, ..) for qn_o, qn_m in zip(self.qn, new_mps.qn)]
    new_mps.qntot += self.qntot; new_mps.move_qnidx(orig_idx)                      (o = self (operator), a = mp) *)
Definition apply_meta (n : nat) (o a : meta) : meta :=
  let a1 := move_qnidx n a (qnidx o) in
  let a2 := {| qn := zipw outer (qn o) (qn a1); qnidx := qnidx a1;
               qntot := ladd L (qntot a) (qntot o); to_right := to_right a1 |} in
  move_qnidx n a2 (qnidx a).

(*  MpDm.apply: qn = mp.dummy_qn (zeros with mp's bond dimensions); new.qn = outer(self.qn, qn); nothing else changes *)
Definition mpdm_apply_meta (rho : meta) (odims : list nat) : meta :=
  {| qn := zipw outer (qn rho) (map (fun d => repeat (lzero_like L (qntot rho)) d) odims);
     qnidx := qnidx rho; qntot := qntot rho; to_right := to_right rho |}.

(*  new_mpo.qn = [np.array([-i for i in mt_qn]) for mt_qn in new_mpo.qn]; new_mpo.qntot = -new_mpo.qntot *)
Definition conj_trans_meta (m : meta) : meta :=
  {| qn := map (map (lneg L)) (qn m); qnidx := qnidx m; qntot := lneg L (qntot m); to_right := to_right m |}.
(* before commit 6897b48 *)
Definition conj_trans_meta_prefix (m : meta) : meta :=
  {| qn := map (map (lneg L)) (qn m); qnidx := qnidx m; qntot := qntot m; to_right := to_right m |}.

(* stored label of bond i, index a;  left-block label of the same *)
Definition qn_at (m : meta) (i a : nat) : lab L := nth a (nth i (qn m) []) (lzero_like L (qntot m)).
Definition Llab (m : meta) (i a : nat) : lab L :=
  if i <=? qnidx m then qn_at m i a else lsub L (qntot m) (qn_at m i a).

Definition meta_eqb (x y : meta) : bool :=
  let leq := leqb L in
  let fix l1 (a b : list (lab L)) := match a, b with [], [] => true | u :: a', v :: b' => leq u v && l1 a' b' | _, _ => false end in
  let fix l2 (a b : list (list (lab L))) := match a, b with [], [] => true | u :: a', v :: b' => l1 u v && l2 a' b' | _, _ => false end in
  l2 (qn x) (qn y) && Nat.eqb (qnidx x) (qnidx y) && leq (qntot x) (qntot y) && Bool.eqb (to_right x) (to_right y).

End Meta.

Arguments qn {L} m.
Arguments qnidx {L} m.
Arguments qntot {L} m.
Arguments to_right {L} m.
Arguments Build_meta {L} qn qnidx qntot to_right.
Arguments move_qnidx {L} n m dst.
Arguments flip_above {L} n lo tot q.
Arguments add_meta {L} n a b.
Arguments add_meta_prefix {L} n a b.
Arguments apply_meta {L} n o a.
Arguments mpdm_apply_meta {L} rho odims.
Arguments conj_trans_meta {L} m.
Arguments conj_trans_meta_prefix {L} m.
Arguments outer {L} qo qm.
Arguments qn_at {L} m i a.
Arguments Llab {L} m i a.
Arguments meta_eqb {L} x y.

(* ------------------------------------------------------------------ validity (one component; several components = each) *)
Definition metaZ := meta ZLab.

(* component k of a vector-labelled meta *)
Definition comp (k : nat) (v : list Z) : Z := nth k v 0%Z.
Definition proj_meta (k : nat) (m : meta VLab) : metaZ :=
  @Build_meta ZLab (map (map (comp k)) (qn m)) (qnidx m) (comp k (qntot m)) (to_right m).

(* bond dimensions of a chain whose left dimension is dl *)
Definition bdims {A} (dl : nat) (ts : list (nat * A)) : list nat := dl :: map fst ts.

Section Valid.
Variable R : CRing.

(* sig i p = charge of physical state p of site i;  Lf i a = left-block label of index a of bond i.
   "Every entry whose labels do not match is zero" (constructively slightly stronger than, and for decidable
   equality of scalars equivalent to, "every non-zero entry satisfies Llab i l + sigma_i p = Llab (i+1) r") *)
Fixpoint valid_from3 (sig : nat -> nat -> Z) (Lf : nat -> nat -> Z) (i dl : nat) (ts : list (nat * T3 R)) : Prop :=
  match ts with
  | [] => True
  | (d, t) :: ts' =>
      (forall l p r, (l < dl)%nat -> (r < d)%nat -> (Lf i l + sig i p)%Z <> Lf (S i) r -> t l p r = r0 R)
      /\ valid_from3 sig Lf (S i) d ts'
  end.
Fixpoint valid_from4 (sig : nat -> nat -> nat -> Z) (Lf : nat -> nat -> Z) (i dl : nat) (ts : list (nat * T4 R)) : Prop :=
  match ts with
  | [] => True
  | (d, t) :: ts' =>
      (forall l pu pd r, (l < dl)%nat -> (r < d)%nat -> (Lf i l + sig i pu pd)%Z <> Lf (S i) r -> t l pu pd r = r0 R)
      /\ valid_from4 sig Lf (S i) d ts'
  end.

(* the labels describe the chain: one label per bond index, boundary bonds of dimension 1 labelled 0 / qntot *)
Definition shape_ok {A} (m : metaZ) (ts : list (nat * A)) : Prop :=
  map (@length Z) (qn m) = bdims 1 ts /\ lastdim 1 ts = 1%nat /\ (qnidx m < length ts)%nat.

Definition qn_valid3 (sig : nat -> nat -> Z) (m : metaZ) (ts : list (nat * T3 R)) : Prop :=
  shape_ok m ts /\ Llab m 0 0 = 0%Z /\ Llab m (length ts) 0 = qntot m /\ valid_from3 sig (Llab m) 0 1 ts.
Definition qn_valid4 (sig : nat -> nat -> nat -> Z) (m : metaZ) (ts : list (nat * T4 R)) : Prop :=
  shape_ok m ts /\ Llab m 0 0 = 0%Z /\ Llab m (length ts) 0 = qntot m /\ valid_from4 sig (Llab m) 0 1 ts.

(* several components (labels are integer vectors of width ncomp): every component is valid *)
Definition qn_valid3V (ncomp : nat) (sigV : nat -> nat -> list Z) (m : meta VLab) (ts : list (nat * T3 R)) : Prop :=
  forall k, (k < ncomp)%nat -> qn_valid3 (fun i p => comp k (sigV i p)) (proj_meta k m) ts.
Definition qn_valid4V (ncomp : nat) (sigV : nat -> nat -> nat -> list Z) (m : meta VLab) (ts : list (nat * T4 R)) : Prop :=
  forall k, (k < ncomp)%nat -> qn_valid4 (fun i pu pd => comp k (sigV i pu pd)) (proj_meta k m) ts.

(* total charge of a configuration, sites numbered from i *)
Fixpoint charge (sig : nat -> nat -> Z) (i : nat) (s : list nat) : Z :=
  match s with [] => 0%Z | p :: s' => (sig i p + charge sig (S i) s')%Z end.

(* a tensor "has support pat": outside the pattern (and outside its extent) it vanishes *)
Definition pat3 := list (list (list bool)).
Definition pat_at (pat : pat3) (l p r : nat) : bool := nth r (nth p (nth l pat []) []) false.
Fixpoint has_support (pats : list pat3) (ts : list (nat * T3 R)) : Prop :=
  match pats, ts with
  | [], [] => True
  | pat :: pats', (d, t) :: ts' => (forall l p r, pat_at pat l p r = false -> t l p r = r0 R) /\ has_support pats' ts'
  | _, _ => False
  end.

End Valid.

Arguments valid_from3 {R} sig Lf i dl ts.
Arguments valid_from4 {R} sig Lf i dl ts.
Arguments qn_valid3 {R} sig m ts.
Arguments qn_valid4 {R} sig m ts.
Arguments qn_valid3V {R} ncomp sigV m ts.
Arguments qn_valid4V {R} ncomp sigV m ts.
Arguments has_support {R} pats ts.

(* ------------------------------------------------------------------ boolean checker over a support pattern *)
(* left-block labels of bond i as a list *)
Definition Llist (m : metaZ) (i : nat) : list Z := map (fun a => Llab m i a) (seq 0 (length (nth i (qn m) []))).

Definition site_okb (sg : list Z) (LL LR : list Z) (pat : pat3) : bool :=
  forallb (fun l => forallb (fun p => forallb (fun r =>
      implb (pat_at pat l p r) (Z.eqb (nth l LL 0 + nth p sg 0) (nth r LR 0))%Z)
    (seq 0 (length LR))) (seq 0 (length (nth l pat [])))) (seq 0 (length LL)).

(* sigs: per site the charges of the physical states; pats: per site the support pattern [l][p][r] *)
Definition qn_validb (sigs : list (list Z)) (m : metaZ) (pats : list pat3) : bool :=
  let n := length pats in
  Nat.eqb (length (qn m)) (S n) && Nat.eqb (length sigs) n && (qnidx m <? n)
  && Nat.eqb (length (nth 0 (qn m) [])) 1 && Nat.eqb (length (nth n (qn m) [])) 1
  && Z.eqb (Llab m 0 0) 0 && Z.eqb (Llab m n 0) (qntot m)
  && forallb (fun i => site_okb (nth i sigs []) (Llist m i) (Llist m (S i)) (nth i pats [])) (seq 0 n).

Definition sig_of (sigs : list (list Z)) : nat -> nat -> Z := fun i p => nth p (nth i sigs []) 0%Z.

(* all components of a vector-labelled result *)
Definition qn_validbV (ncomp : nat) (sigsV : list (list (list Z))) (m : meta VLab) (pats : list pat3) : bool :=
  forallb (fun k => qn_validb (map (map (comp k)) sigsV) (proj_meta k m) pats) (seq 0 ncomp).
