(* C16 -- model builders: types used by the generated term-generation functions (Gen/Builders.v) and the
   DOCUMENTED Hamiltonians written as term lists (no proofs in this file).

   A term is (symbol string, list of degrees of freedom -- one per word of the symbol --, coefficient).
   Integers of the python source are Z; `range(n)` is [zrange0 n]; `x % n` is Z.modulo (same sign convention as
   python for every sign of the operands).                                                                   *)
From Coq Require Import QArith ZArith List String Bool Arith Ascii.
Import ListNotations.
Local Open Scope Q_scope.

Definition zrange0 (n : Z) : list Z := map Z.of_nat (seq 0 (Z.to_nat n)).
Definition qsumz (n : Z) (f : Z -> Q) : Q := fold_right (fun i acc => f i + acc) 0 (zrange0 n).

(* ------------------------------------------------------------------ degrees of freedom, terms, sites *)
Inductive dof :=
| DE (imol : Z)              (* electronic dof of molecule imol            (python: imol)        *)
| DV (imol iph : Z)          (* vibration iph of molecule imol             (python: (imol, iph)) *)
| DSpin                      (* the spin of the spin-boson model           (python: "spin")      *)
| DIdx (i : Z).              (* a bare integer name (bath mode / spin site)                      *)

Record term := mk_term { t_sym : string; t_dofs : list dof; t_coef : Q }.

Fixpoint count_sp (s : string) : nat :=
  match s with
  | EmptyString => O
  | String c r => (if Ascii.eqb c " "%char then 1 else 0) + count_sp r
  end%nat.
Definition nwords (s : string) : nat := S (count_sp s).

(* Op(sym, d, c) with a single dof name: every word of the symbol acts on d *)
Definition op_single (sym : string) (d : dof) (c : Q) : term := mk_term sym (repeat d (nwords sym)) c.
(* Op(sym, [d1; d2; ...], c) *)
Definition op_list (sym : string) (ds : list dof) (c : Q) : term := mk_term sym ds c.
(* Op * Op, Op * scalar *)
Definition tmul (a b : term) : term :=
  mk_term (t_sym a ++ " " ++ t_sym b) (t_dofs a ++ t_dofs b) (t_coef a * t_coef b).
Definition tscale (a : term) (c : Q) : term := mk_term (t_sym a) (t_dofs a) (t_coef a * c).

Inductive site :=
| SElec (imol : Z)                              (* BasisSimpleElectron(imol) *)
| SVib (imol iph : Z) (omega : Q) (nlev : Z)    (* BasisSHO((imol, iph), omega, nlev) *)
| SVibI (i : Z) (omega : Q) (nlev : Z)          (* BasisSHO(i, omega, nlev) *)
| SMultiVac (dofs : list Z)                     (* BasisMultiElectronVac([...]) *)
| SSpin.                                        (* BasisHalfSpin("spin") *)

Definition insert_at {A} (n : Z) (x : A) (l : list A) : list A :=
  firstn (Z.to_nat n) l ++ x :: skipn (Z.to_nat n) l.

(* equality of terms up to == on the coefficient *)
Definition term_eqv (a b : term) : Prop := t_sym a = t_sym b /\ t_dofs a = t_dofs b /\ t_coef a == t_coef b.

(* ------------------------------------------------------------------ parameters *)
(* Holstein: mol_list[imol] = Mol(elocalex, ph_list), ph = Phonon([omega_g, omega_e], [dis_g, dis_e], nlev) *)
Record hpar := mk_hpar {
  nmol : Z;
  nmodes : Z -> Z;
  elocalex : Z -> Q;
  omega_g : Z -> Z -> Q;  omega_e : Z -> Z -> Q;
  dis_g : Z -> Z -> Q;    dis_e : Z -> Z -> Q;
  nlev : Z -> Z -> Z;
  same_freq : Z -> Z -> bool;        (* outcome of np.allclose(omega[0], omega[1]) *)
  jmat : Z -> Z -> Q }.

(* spin-boson: ph_list[iph] *)
Record spar := mk_spar {
  nph : Z; sb_eps : Q; sb_delta : Q;
  sb_omega_g : Z -> Q; sb_omega_e : Z -> Q; sb_dis_e : Z -> Q; sb_nlev : Z -> Z }.

(* ------------------------------------------------------------------ documented Hamiltonians *)
(* Holstein model in the displaced-oscillator form
     H = sum_i E_i a+_i a_i + sum_{i<>j} J_ij a+_i a_j
         + sum_{i,l} [ 1/2 p^2 + 1/2 wg^2 x^2 ]
         + sum_{i,l} a+_i a_i [ 1/2 we^2 (x - d)^2 - 1/2 wg^2 x^2 ]
   with the excited-state potential expanded:
     1/2 we^2 (x - d)^2 - 1/2 wg^2 x^2 = 1/2 (we^2 - wg^2) x^2 - we^2 d x + 1/2 we^2 d^2
   the constant 1/2 we^2 d^2 (reorganisation energy, EXCITED-state frequency) joins the site energy;
   the x^2 term is left out when we = wg. *)
Definition reorg (P : hpar) (i l : Z) : Q := (1 # 2) * (omega_e P i l * omega_e P i l) * (dis_e P i l * dis_e P i l).

Definition holstein_spec (P : hpar) : list term :=
  flat_map (fun i => flat_map (fun j =>
      [ mk_term "a^\dagger a" [DE i; DE j]
                (if (i =? j)%Z then elocalex P i + qsumz (nmodes P i) (reorg P i) else jmat P i j) ])
      (zrange0 (nmol P))) (zrange0 (nmol P))
  ++ flat_map (fun i => flat_map (fun l =>
      [ mk_term "p^2" [DV i l] (1 # 2);
        mk_term "x^2" [DV i l] ((1 # 2) * (omega_g P i l * omega_g P i l)) ])
      (zrange0 (nmodes P i))) (zrange0 (nmol P))
  ++ flat_map (fun i => flat_map (fun l =>
      (if same_freq P i l then []
       else [ mk_term "a^\dagger a x^2" [DE i; DE i; DV i l]
                      ((1 # 2) * (omega_e P i l * omega_e P i l - omega_g P i l * omega_g P i l)) ])
      ++ [ mk_term "a^\dagger a x" [DE i; DE i; DV i l] (- (omega_e P i l * omega_e P i l * dis_e P i l)) ])
      (zrange0 (nmodes P i))) (zrange0 (nmol P)).

(* documented site orders: schemes 1-3  [e_0, ph_00, ph_01, ..., e_1, ph_10, ...];
   scheme 4  [ph of the first nmol/2 molecules ..., (all electronic dofs in one site), ph of the others ...] *)
Definition vib_sites (P : hpar) (i : Z) : list site :=
  map (fun l => SVib i l (omega_g P i l) (nlev P i l)) (zrange0 (nmodes P i)).
Definition holstein_sites_spec (scheme : Z) (P : hpar) : list site :=
  if (scheme <? 4)%Z then flat_map (fun i => SElec i :: vib_sites P i) (zrange0 (nmol P))
  else if (scheme =? 4)%Z then
    flat_map (vib_sites P) (filter (fun i => (i <? nmol P / 2)%Z) (zrange0 (nmol P)))
    ++ SMultiVac (zrange0 (nmol P))
    :: flat_map (vib_sites P) (filter (fun i => negb (i <? nmol P / 2)%Z) (zrange0 (nmol P)))
  else [].

(* spin-boson:  H = eps sz + delta sx + 1/2 sum_i (p_i^2 + w_i^2 q_i^2) + sz sum_i c_i q_i,   c_i = - w_i^2 d_i
   (spin-dependent displacement: 1/2 w^2 (q - sz d)^2 = 1/2 w^2 q^2 - w^2 d sz q + const) *)
Definition spinboson_spec (S : spar) : list term :=
  [ mk_term "sigma_z" [DSpin] (sb_eps S); mk_term "sigma_x" [DSpin] (sb_delta S) ]
  ++ flat_map (fun i =>
      [ mk_term "p^2" [DIdx i] (1 # 2);
        mk_term "x^2" [DIdx i] ((1 # 2) * (sb_omega_g S i * sb_omega_g S i));
        mk_term "sigma_z x" [DSpin; DIdx i] (- (sb_omega_e S i * sb_omega_e S i * sb_dis_e S i)) ])
      (zrange0 (nph S)).
Definition spinboson_sites_spec (S : spar) : list site :=
  SSpin :: map (fun i => SVibI i (sb_omega_g S i) (sb_nlev S i)) (zrange0 (nph S)).

(* Heisenberg chain:  sum_i S_i . S_{i+1} = sum_i [ 1/4 sz sz + 1/2 (s+ s- + s- s+) ] *)
Definition heisenberg_spec (nspin : Z) : list term :=
  flat_map (fun i =>
      [ mk_term "sigma_z sigma_z" [DIdx i; DIdx (i + 1)] (1 # 4);
        mk_term "sigma_+ sigma_-" [DIdx i; DIdx (i + 1)] (1 # 2);
        mk_term "sigma_- sigma_+" [DIdx i; DIdx (i + 1)] (1 # 2) ])
      (zrange0 (nspin - 1)).

(* nearest-neighbour coupling matrix  J_ij = J delta_{i,j+1} + J delta_{i,j-1}  (+ the two corner elements when periodic) *)
Definition j_matrix_spec_fn (n : Z) (periodic : bool) (J : Q) (i j : Z) : Q :=
  if ((i + 1 =? j) || (j + 1 =? i))%Z then J
  else if periodic && (((i =? n - 1) && (j =? 0)) || ((i =? 0) && (j =? n - 1)))%Z then J
  else 0.

(* ------------------------------------------------------------------ numpy helpers used by construct_j_matrix *)
Definition np_vec (len : Z) (c : Q) : Z -> Q := fun idx => if ((0 <=? idx) && (idx <? len))%Z then c else 0.   (* np.ones(len) * c *)
Definition vec_scale (v : Z -> Q) (c : Q) : Z -> Q := fun idx => v idx * c.
Definition mat_add (A B : Z -> Z -> Q) : Z -> Z -> Q := fun i j => A i j + B i j.
(* np.diag(v, k) for a vector v of length len given as a function: size len + |k| *)
Definition np_diag (v : Z -> Q) (k : Z) (i j : Z) : Q := if (j =? i + k)%Z then v (Z.min i j) else 0.
(* M[a, b] = c with python index normalisation of negative indices for an n x n matrix *)
Definition py_idx (n a : Z) : Z := if (a <? 0)%Z then (n + a)%Z else a.
Definition mat_set (n : Z) (M : Z -> Z -> Q) (a b : Z) (c : Q) : Z -> Z -> Q :=
  fun i j => if ((i =? py_idx n a) && (j =? py_idx n b))%Z then c else M i j.

(* ------------------------------------------------------------------ translationally invariant model *)
(* unit-cell operators: (payload, dofs);  payload = position of the operator in the input list, standing for
   (symbol, factor, qn) which the source passes through unchanged;  dof names of the unit cell are nat ids *)
Definition lop := (nat * list nat)%type.                 (* local term: dofs of the unit cell *)
Definition nop := (nat * list (Z * nat))%type.           (* non-local term: (cell offset, dof) *)
Definition gop := (nat * list (Z * nat))%type.           (* generated term: (cell index, dof) *)

(* documented instantiation: cell i carries every local term once (dofs in cell i) and every non-local term once,
   each of its dofs in cell (i + offset) mod ncell *)
Definition ti1d_cell (ncell i : Z) (local : list lop) (nonlocal : list nop) : list gop :=
  map (fun o => (fst o, map (fun d => (i, d)) (snd o))) local
  ++ map (fun o => (fst o, map (fun od => (((i + fst od) mod ncell)%Z, snd od)) (snd o))) nonlocal.
Definition ti1d_spec (ncell : Z) (local : list lop) (nonlocal : list nop) : list gop :=
  flat_map (fun i => ti1d_cell ncell i local nonlocal) (zrange0 ncell).

(* ------------------------------------------------------------------ dumps for the correspondence *)
Definition flatq (q : Q) : list Z := let r := Qred q in [Qnum r; Zpos (Qden r)].
Definition dof_code (d : dof) : list Z :=
  match d with DE i => [0; i; 0] | DV i l => [1; i; l] | DSpin => [2; 0; 0] | DIdx i => [3; i; 0] end%Z.
Definition site_code (s : site) : list Z :=
  match s with
  | SElec i => [0; i; 0] | SVib i l w n => [1; i; l] ++ flatq w ++ [n] | SVibI i w n => [2; i; 0] ++ flatq w ++ [n]
  | SMultiVac ds => [3; Z.of_nat (List.length ds); 0] ++ ds | SSpin => [4; 0; 0]
  end%Z.

(* parameter tables for the correspondence cases *)
Definition zq_nth (l : list Q) (i : Z) : Q := nth (Z.to_nat i) l 0.
Definition zz_nth (l : list Z) (i : Z) : Z := nth (Z.to_nat i) l 0%Z.
Definition zb_nth (l : list bool) (i : Z) : bool := nth (Z.to_nat i) l false.
Definition zq_nth2 (l : list (list Q)) (i j : Z) : Q := zq_nth (nth (Z.to_nat i) l []) j.
Definition zz_nth2 (l : list (list Z)) (i j : Z) : Z := zz_nth (nth (Z.to_nat i) l []) j.
Definition zb_nth2 (l : list (list bool)) (i j : Z) : bool := zb_nth (nth (Z.to_nat i) l []) j.

Definition sym_table : list string :=
  [ "a^\dagger a"; "p^2"; "x^2"; "a^\dagger a x^2"; "a^\dagger a x"; "sigma_z"; "sigma_x"; "sigma_z x";
    "sigma_z sigma_z"; "sigma_+ sigma_-"; "sigma_- sigma_+" ]%string.
Fixpoint sym_index (s : string) (t : list string) (k : Z) : Z :=
  match t with [] => (-1)%Z | x :: r => if String.eqb s x then k else sym_index s r (k + 1)%Z end.
Definition term_code (t : term) : list Z :=
  sym_index (t_sym t) sym_table 0 :: Z.of_nat (List.length (t_dofs t)) :: flat_map dof_code (t_dofs t) ++ flatq (t_coef t).
Definition gop_code (t : gop) : list Z :=
  Z.of_nat (fst t) :: Z.of_nat (List.length (snd t)) :: flat_map (fun cd => [fst cd; Z.of_nat (snd cd)]) (snd t).
