(* Model of renormalizer/mps/svd_qn.py : svd_qn, eigh_qn, blockrecover, get_qn_mask, add_outer
   (no proofs in this file).

   Matrices are functions nat -> nat -> R over a commutative ring with conjugation (Base.CRing);
   their dimensions are carried separately.  A symmetry label ("quantum number") is a list of
   integers (several components).  The LAPACK kernels (svd / qr / rq / eigh on one block) are NOT
   modelled: each block's factors are a WITNESS [bfac] (argument W : label -> bfac), its contract
   is [svd_witness_ok] / [qr_witness_ok] / [eigh_witness_ok] below.  The iteration order of the
   python [set] of left labels is a witness too ([order], validity [order_ok]), and so is the
   permutation produced by np.argsort in economic mode ([p], validity [perm_ok] + [desc_sorted]). *)
From Coq Require Import List ZArith Arith Bool Lia.
From RV Require Import Base.CRing Base.BigSum.
Import ListNotations.

(* ------------------------------------------------------------------ labels *)
Definition label := list Z.

Fixpoint label_eqb (a b : label) : bool :=
  match a, b with
  | [], [] => true
  | x :: a', y :: b' => Z.eqb x y && label_eqb a' b'
  | _, _ => false
  end.

Fixpoint lzip (f : Z -> Z -> Z) (a b : label) : label :=
  match a, b with
  | x :: a', y :: b' => f x y :: lzip f a' b'
  | _, _ => []
  end.
Definition ladd := lzip Z.add.          (* componentwise sum, as add_outer does per component *)
Definition lsub := lzip Z.sub.          (* nr = qntot - nl *)

(* localqn = qnbig.reshape(-1, qn_size): every label has qn_size components *)
Definition wf_labels (qntot : label) (qn : list label) : Prop :=
  Forall (fun l => length l = length qntot) qn.
Definition wf_labelsb (qntot : label) (qn : list label) : bool :=
  forallb (fun l => Nat.eqb (length l) (length qntot)) qn.

(* np.where(get_qn_mask(qn, l))[0] : ascending positions carrying label l *)
Definition idxs (qn : list label) (l : label) : list nat :=
  filter (fun i => label_eqb (nth i qn []) l) (seq 0 (length qn)).

(* add_outer + get_qn_mask(.., qntot) : the symmetry-allowed (row, col) pairs *)
Definition allowed (qnl qnr : list label) (qntot : label) (i j : nat) : bool :=
  label_eqb (ladd (nth i qnl []) (nth j qnr [])) qntot.

(* position of i in a list of indices *)
Fixpoint pos (i : nat) (l : list nat) : option nat :=
  match l with
  | [] => None
  | x :: t => if Nat.eqb x i then Some 0 else option_map S (pos i t)
  end.
Definition memn (i : nat) (l : list nat) : bool := match pos i l with Some _ => true | None => false end.

Fixpoint mem_label (l : label) (ls : list label) : bool :=
  match ls with [] => false | x :: t => label_eqb x l || mem_label l t end.
Fixpoint nodup_labels (ls : list label) : bool :=
  match ls with [] => true | x :: t => negb (mem_label x t) && nodup_labels t end.

(* validity of the witness for the iteration order of  set([tuple(t) for t in localqnl]) *)
Definition order_ok (order qnl : list label) : Prop :=
  NoDup order /\ forall l, In l order <-> In l qnl.
Definition order_okb (order qnl : list label) : bool :=
  nodup_labels order && forallb (fun l => mem_label l qnl) order && forallb (fun l => mem_label l order) qnl.

(* validity of the argsort witness: a permutation of 0..K-1 *)
Definition perm_okb (p : list nat) (K : nat) : bool :=
  Nat.eqb (length p) K && forallb (fun k => memn k p) (seq 0 K).

(* ------------------------------------------------------------------ modes *)
Inductive deco := DSvd | DQr.
Inductive side := SysL | SysR.
Record mode := { m_deco : deco; m_sys : side; m_full : bool; m_opt : bool }.

(* number of columns of block_u and of block_vt.T for an (mb x nb) block:
   optimized_svd (the empirical 1/3 < m/n < 3 window), scipy qr / rq shapes *)
Definition block_cols (md : mode) (mb nb : nat) : nat * nat :=
  let d := Nat.min mb nb in
  if negb (m_full md) then (d, d) else
  match m_deco md with
  | DSvd =>
      let opt := m_opt md && negb (Nat.ltb nb (3 * mb) && Nat.ltb mb (3 * nb)) in
      if opt then (if Nat.ltb mb nb then (mb, 2 * mb) else (2 * nb, nb)) else (mb, nb)
  | DQr => match m_sys md with SysL => (mb, mb) | SysR => (nb, nb) end
  end.

(* ------------------------------------------------------------------ block structure *)
Definition coldesc := (label * nat)%type.          (* (block key, column inside the block) *)
Definition d0 : coldesc := ([], 0).

Section Structure.
  Variables (qnl qnr : list label).
  Variable rkey : label -> label.                 (* right label belonging to left label nl *)
  Variable present : label -> bool.               (* the block is not skipped by `continue` *)
  Variable order : list label.                    (* iteration order of the label set (witness) *)

  Definition lset (nl : label) : list nat := idxs qnl nl.
  Definition rset (nl : label) : list nat := idxs qnr (rkey nl).
  Definition bkeys : list label := filter present order.

  Definition cols_of (f : label -> list nat) : list coldesc :=
    flat_map (fun nl => map (pair nl) (f nl)) bkeys.
  (* blockappend: columns [:dim] go to the first list, columns [dim:] to the list "0" *)
  Definition cols_main (dimf : label -> nat) : list coldesc := cols_of (fun nl => seq 0 (dimf nl)).
  Definition cols_extra (dimf kf : label -> nat) : list coldesc :=
    cols_of (fun nl => seq (dimf nl) (kf nl - dimf nl)).
End Structure.

(* svd_qn instance *)
Definition svd_rkey (qntot : label) : label -> label := lsub qntot.
Definition svd_present (qnr : list label) (qntot : label) (nl : label) : bool :=
  match idxs qnr (lsub qntot nl) with [] => false | _ => true end.     (* if len(rset) == 0: continue *)
Definition svd_dim (qnl qnr : list label) (qntot : label) (nl : label) : nat :=
  Nat.min (length (lset qnl nl)) (length (rset qnr (svd_rkey qntot) nl)).

(* ------------------------------------------------------------------ structural facts of the source
   tx/svdqn.py reads renormalizer/mps/svd_qn.py statement by statement and emits these facts as
   Gen.SvdQnShape.src_shape.  [ref_shape] is the shape this model (and every proof) is written for; the obligation
   src_shape = ref_shape (Proofs.SvdQnProofs.shape_ok) ties them.  The "_s" definitions below are the model
   instantiated with a shape: the skip conditions, the label selectors and the eigenvalue post-processing really
   depend on it (so the correspondence can still be evaluated on a changed source), the remaining fields are
   check-list facts whose only accepted value is the one of ref_shape. *)
Inductive labsel := LabNl | LabNr.       (* the appended columns are labelled nl / nr = qntot - nl *)
Inductive idxsel := IdxL | IdxR.         (* ... and scattered to the rows lset / rset *)
Record shape := {
  sh_loop_left : bool;            (* svd_qn loops over the set of LEFT labels; rows of coef_matrix are the left index *)
  sh_svd_skip_empty : bool;       (* if len(rset) == 0: continue *)
  sh_gather_rowmajor : bool;      (* ravel().take(lset * shape[1] + rset) *)
  sh_dim_min : bool;              (* dim = min(block.shape) *)
  sh_u_label : labsel; sh_u_index : idxsel;                               (* blockappend(.., block_u, nl, dim, lset, shape[0]) *)
  sh_v_label : labsel; sh_v_index : idxsel; sh_v_transposed : bool;       (* blockappend(.., block_vt.T, nr, dim, rset, shape[1]) *)
  sh_qr_L_is_qr : bool; sh_qr_R_is_rq : bool;                             (* system "L" -> qr, "R" -> rq *)
  sh_append_split_at_dim : bool;  (* blockappend: v[:, :dim] to the list, v[:, dim:] to the list "0" iff full_matrices *)
  sh_scatter_by_index : bool;     (* blockrecover: resortU[indices, :] = U *)
  sh_mask_all_components : bool;  (* get_qn_mask: np.all(qnmat == qntot, axis=-1) *)
  sh_main_before_extra : bool;    (* concatenate(list + list0) for u, v, su, sv and both label lists *)
  sh_sort_econ_only : bool;       (* the sort runs iff not full_matrices (and after the QR return) *)
  sh_sort_desc : bool;            (* s_order = argsort(su)[::-1], applied to u, v, su, sv and both label lists *)
  sh_eigh_skip_no_partner : bool; (* eigh_qn: if np.sum(get_qn_mask(comp_qnbig, qntot - nl)) == 0: continue *)
  sh_eigh_system_L_is_left : bool;
  sh_eigh_clip_negative : bool;   (* block_s2[block_s2 < 0] = 0 *)
  sh_eigh_sqrt : bool             (* block_s = np.sqrt(block_s2) *)
}.
Definition ref_shape : shape := {|
  sh_loop_left := true; sh_svd_skip_empty := true; sh_gather_rowmajor := true; sh_dim_min := true;
  sh_u_label := LabNl; sh_u_index := IdxL; sh_v_label := LabNr; sh_v_index := IdxR; sh_v_transposed := true;
  sh_qr_L_is_qr := true; sh_qr_R_is_rq := true; sh_append_split_at_dim := true; sh_scatter_by_index := true;
  sh_mask_all_components := true; sh_main_before_extra := true; sh_sort_econ_only := true; sh_sort_desc := true;
  sh_eigh_skip_no_partner := true; sh_eigh_system_L_is_left := true; sh_eigh_clip_negative := true; sh_eigh_sqrt := true |}.

Definition lab (sel : labsel) (qntot nl : label) : label := match sel with LabNl => nl | LabNr => lsub qntot nl end.
Definition svd_present_s (sh : shape) (qnr : list label) (qntot : label) (nl : label) : bool :=
  if sh_svd_skip_empty sh then svd_present qnr qntot nl else true.
Definition eigh_present (comp : list label) (qntot : label) (nl : label) : bool :=
  match idxs comp (lsub qntot nl) with [] => false | _ => true end.   (* np.sum(mask) == 0: continue *)
Definition eigh_present_s (sh : shape) (comp : list label) (qntot : label) (nl : label) : bool :=
  if sh_eigh_skip_no_partner sh then eigh_present comp qntot nl else true.

(* ------------------------------------------------------------------ numerical part *)
Section Numeric.
  Variable R : CRing.
  Notation "0" := (r0 R).
  Infix "*" := (rmul R).

  Definition mat := nat -> nat -> R.

  (* coef_matrix.ravel().take((lset * ncols).reshape(-1,1) + rset) *)
  Definition ravel (ncols : nat) (A : mat) : nat -> R := fun k => A (k / ncols) (k mod ncols).
  Definition gather (ncols : nat) (A : mat) (ls rs : list nat) : mat :=
    fun a b => ravel ncols A (nth a ls O * ncols + nth b rs O)%nat.

  (* blockrecover:  resortU = zeros([dim, k]); resortU[indices, :] = U *)
  Definition scatter (ls : list nat) (M : mat) : mat :=
    fun i c => match pos i ls with Some a => M a c | None => 0 end.

  (* per-block factors as returned by LAPACK: bu = block_u, bs = block_s, bv = block_vt.T *)
  Record bfac := { bu : mat; bs : nat -> R; bv : mat; ku : nat; kv : nat }.

  Section Assemble.
    Variables (qnl qnr : list label) (rkey : label -> label).
    Variable W : label -> bfac.
    Definition Ud (d : coldesc) : nat -> R := fun i => scatter (lset qnl (fst d)) (bu (W (fst d))) i (snd d).
    Definition Vd (d : coldesc) : nat -> R := fun j => scatter (rset qnr rkey (fst d)) (bv (W (fst d))) j (snd d).
    Definition Sd (d : coldesc) : R := bs (W (fst d)) (snd d).
    (* np.concatenate(list, axis=1) : column k is the k-th descriptor *)
    Definition asm (cols : list coldesc) (F : coldesc -> nat -> R) : mat := fun i k => F (nth k cols d0) i.
  End Assemble.

  Record svdout := {
    oU : mat; oSu : nat -> R; oQl : list label; oKu : nat;
    oV : mat; oSv : nat -> R; oQr : list label; oKv : nat;
    oKmain : nat      (* the first oKmain columns of U and V are paired block by block *)
  }.

  (* svd_qn before the economic-mode sort (this IS the result when full_matrices=True, and for QR) *)
  Definition svd_qn_pre (qnl qnr : list label) (qntot : label) (order : list label) (W : label -> bfac) : svdout :=
    let rk := svd_rkey qntot in
    let pr := svd_present qnr qntot in
    let dimf := svd_dim qnl qnr qntot in
    let main := cols_main pr order dimf in
    let cu := main ++ cols_extra pr order dimf (fun nl => ku (W nl)) in
    let cv := main ++ cols_extra pr order dimf (fun nl => kv (W nl)) in
    let K := length main in
    {| oU := asm cu (Ud qnl W);
       oSu := fun k => if Nat.ltb k K then Sd W (nth k main d0) else 0;
       oQl := map fst cu; oKu := length cu;
       oV := asm cv (Vd qnr rk W);
       oSv := fun k => if Nat.ltb k K then Sd W (nth k main d0) else 0;
       oQr := map (fun d => rk (fst d)) cv; oKv := length cv;
       oKmain := K |}.

  (* the economic-mode epilogue:  u[:, s_order], su[s_order], np.array(new_qn)[s_order] *)
  Definition permute (p : list nat) (o : svdout) : svdout :=
    {| oU := fun i k => oU o i (nth k p O);
       oSu := fun k => oSu o (nth k p O);
       oQl := map (fun k => nth k (oQl o) []) p; oKu := length p;
       oV := fun j k => oV o j (nth k p O);
       oSv := fun k => oSv o (nth k p O);
       oQr := map (fun k => nth k (oQr o) []) p; oKv := length p;
       oKmain := length p |}.

  Definition svd_qn (full : bool) (qnl qnr : list label) (qntot : label) (order : list label)
             (W : label -> bfac) (p : list nat) : svdout :=
    let o := svd_qn_pre qnl qnr qntot order W in
    if full then o else permute p o.

  (* the same with the structural facts read from the source ([svd_qn_s ref_shape] is [svd_qn] by computation) *)
  Definition svd_qn_pre_s (sh : shape) (qnl qnr : list label) (qntot : label) (order : list label) (W : label -> bfac) : svdout :=
    let rk := svd_rkey qntot in
    let pr := svd_present_s sh qnr qntot in
    let dimf := svd_dim qnl qnr qntot in
    let main := cols_main pr order dimf in
    let cu := main ++ cols_extra pr order dimf (fun nl => ku (W nl)) in
    let cv := main ++ cols_extra pr order dimf (fun nl => kv (W nl)) in
    let K := length main in
    {| oU := asm cu (Ud qnl W);
       oSu := fun k => if Nat.ltb k K then Sd W (nth k main d0) else 0;
       oQl := map (fun d => lab (sh_u_label sh) qntot (fst d)) cu; oKu := length cu;
       oV := asm cv (Vd qnr rk W);
       oSv := fun k => if Nat.ltb k K then Sd W (nth k main d0) else 0;
       oQr := map (fun d => lab (sh_v_label sh) qntot (fst d)) cv; oKv := length cv;
       oKmain := K |}.
  Definition svd_qn_s (sh : shape) (full : bool) (qnl qnr : list label) (qntot : label) (order : list label)
             (W : label -> bfac) (p : list nat) : svdout :=
    let o := svd_qn_pre_s sh qnl qnr qntot order W in
    if full then o else permute p o.

  (* ---- contracts of the witnesses (hypotheses of the soundness theorems) ---- *)
  Definition delta (c c' : nat) : R := if Nat.eqb c c' then r1 R else 0.
  Definition orthonormal_cols (rows k : nat) (M : mat) : Prop :=
    forall c c', c < k -> c' < k -> sumn rows (fun a => rcj R (M a c) * M a c') = delta c c'.

  (* SVD of one block:  U[:, :dim] diag(s) Vt[:dim, :] = block, U and V have orthonormal columns *)
  Definition svd_block_ok (full : bool) (blk : mat) (mb nb : nat) (w : bfac) : Prop :=
    let d := Nat.min mb nb in
    d <= ku w /\ d <= kv w /\ (full = false -> ku w = d /\ kv w = d) /\
    (forall a b, a < mb -> b < nb -> sumn d (fun c => bu w a c * bs w c * bv w b c) = blk a b) /\
    orthonormal_cols mb (ku w) (bu w) /\ orthonormal_cols nb (kv w) (bv w).

  Definition svd_witness_ok (full : bool) (qnl qnr : list label) (qntot : label) (order : list label)
             (A : mat) (W : label -> bfac) : Prop :=
    forall nl, In nl (bkeys (svd_present qnr qntot) order) ->
      let ls := lset qnl nl in let rs := rset qnr (svd_rkey qntot) nl in
      svd_block_ok full (gather (length qnr) A ls rs) (length ls) (length rs) (W nl).

  (* QR (system L) / RQ (system R) of one block: Q.R = block over all k columns, the system side orthonormal *)
  Definition qr_block_ok (sy : side) (blk : mat) (mb nb : nat) (w : bfac) : Prop :=
    let d := Nat.min mb nb in
    d <= ku w /\ kv w = ku w /\
    (forall a b, a < mb -> b < nb -> sumn (ku w) (fun c => bu w a c * bv w b c) = blk a b) /\
    match sy with SysL => orthonormal_cols mb (ku w) (bu w) | SysR => orthonormal_cols nb (kv w) (bv w) end.

  Definition qr_witness_ok (sy : side) (qnl qnr : list label) (qntot : label) (order : list label)
             (A : mat) (W : label -> bfac) : Prop :=
    forall nl, In nl (bkeys (svd_present qnr qntot) order) ->
      let ls := lset qnl nl in let rs := rset qnr (svd_rkey qntot) nl in
      qr_block_ok sy (gather (length qnr) A ls rs) (length ls) (length rs) (W nl).

  (* ---- eigh_qn : blocks of the reduced density matrix on one side ---- *)
  Record eighout := { eU : mat; eL : nat -> R; eQ : list label; eK : nat }.

  (* bu = eigenvectors, bs = eigenvalues of the block *)
  Definition eigh_qn (qn comp : list label) (qntot : label) (order : list label) (W : label -> bfac) : eighout :=
    let main := cols_main (eigh_present comp qntot) order (fun nl => length (lset qn nl)) in
    {| eU := asm main (Ud qn W); eL := fun k => Sd W (nth k main d0); eQ := map fst main; eK := length main |}.

  Definition eigh_qn_s (sh : shape) (qn comp : list label) (qntot : label) (order : list label) (W : label -> bfac) : eighout :=
    let main := cols_main (eigh_present_s sh comp qntot) order (fun nl => length (lset qn nl)) in
    {| eU := asm main (Ud qn W); eL := fun k => Sd W (nth k main d0); eQ := map fst main; eK := length main |}.

  (* the returned "singular values":  block_s2[block_s2 < 0] = 0 ; block_s = np.sqrt(block_s2).
     neg x stands for x < 0, sqrtw for np.sqrt (abstract, contracts in the theorem) *)
  Definition eigh_post (sh : shape) (neg : R -> bool) (sqrtw : R -> R) (x : R) : R :=
    let c := if sh_eigh_clip_negative sh then (if neg x then 0 else x) else x in
    if sh_eigh_sqrt sh then sqrtw c else c.
  Definition eS (sh : shape) (neg : R -> bool) (sqrtw : R -> R) (o : eighout) : nat -> R :=
    fun k => eigh_post sh neg sqrtw (eL o k).

  Definition eigh_block_ok (blk : mat) (mb : nat) (w : bfac) : Prop :=
    ku w = mb /\
    (forall a b, a < mb -> b < mb -> sumn mb (fun c => bu w a c * bs w c * rcj R (bu w b c)) = blk a b) /\
    orthonormal_cols mb mb (bu w).

  Definition eigh_witness_ok (qn comp : list label) (qntot : label) (order : list label)
             (A : mat) (W : label -> bfac) : Prop :=
    forall nl, In nl (bkeys (eigh_present comp qntot) order) ->
      let ls := lset qn nl in eigh_block_ok (gather (length qn) A ls ls) (length ls) (W nl).

  (* the witness contracts for the blocks the shaped model processes *)
  Definition svd_witness_ok_s (sh : shape) (full : bool) (qnl qnr : list label) (qntot : label) (order : list label)
             (A : mat) (W : label -> bfac) : Prop :=
    forall nl, In nl (bkeys (svd_present_s sh qnr qntot) order) ->
      let ls := lset qnl nl in let rs := rset qnr (svd_rkey qntot) nl in
      svd_block_ok full (gather (length qnr) A ls rs) (length ls) (length rs) (W nl).
  Definition qr_witness_ok_s (sh : shape) (sy : side) (qnl qnr : list label) (qntot : label) (order : list label)
             (A : mat) (W : label -> bfac) : Prop :=
    forall nl, In nl (bkeys (svd_present_s sh qnr qntot) order) ->
      let ls := lset qnl nl in let rs := rset qnr (svd_rkey qntot) nl in
      qr_block_ok sy (gather (length qnr) A ls rs) (length ls) (length rs) (W nl).
  Definition eigh_witness_ok_s (sh : shape) (qn comp : list label) (qntot : label) (order : list label)
             (A : mat) (W : label -> bfac) : Prop :=
    forall nl, In nl (bkeys (eigh_present_s sh comp qntot) order) ->
      let ls := lset qn nl in eigh_block_ok (gather (length qn) A ls ls) (length ls) (W nl).

  (* descending order of the first K entries of s, with respect to an arbitrary relation *)
  Definition desc_sorted (le : R -> R -> Prop) (K : nat) (s : nat -> R) : Prop :=
    forall k, S k < K -> le (s (S k)) (s k).
End Numeric.

Arguments bu {R} _ _ _. Arguments bs {R} _ _. Arguments bv {R} _ _ _. Arguments ku {R} _. Arguments kv {R} _.
Arguments oU {R} _ _ _. Arguments oSu {R} _ _. Arguments oQl {R} _. Arguments oKu {R} _.
Arguments oV {R} _ _ _. Arguments oSv {R} _ _. Arguments oQr {R} _. Arguments oKv {R} _. Arguments oKmain {R} _.
Arguments eU {R} _ _ _. Arguments eL {R} _ _. Arguments eQ {R} _. Arguments eK {R} _.

(* ------------------------------------------------------------------ structure-only view (the tie)
   Everything svd_qn decides from the labels alone: per block (in witness order) the gather index
   sets, dim and the column counts of the LAPACK factors; the output labels before the sort; the
   permuted labels.  Encoded as one flat list of integers for comparison with the implementation. *)
Definition zl (l : list nat) : list Z := Z.of_nat (length l) :: map Z.of_nat l.

Definition struct_blocks (sh : shape) (md : mode) (qnl qnr : list label) (qntot : label) (order : list label) : list Z :=
  let keys := bkeys (svd_present_s sh qnr qntot) order in
  Z.of_nat (length keys) ::
  flat_map (fun nl =>
      let ls := lset qnl nl in let rs := rset qnr (svd_rkey qntot) nl in
      let kk := block_cols md (length ls) (length rs) in
      nl ++ zl ls ++ zl rs ++ [Z.of_nat (Nat.min (length ls) (length rs)); Z.of_nat (fst kk); Z.of_nat (snd kk)]) keys.

Definition struct_labels (sh : shape) (md : mode) (qnl qnr : list label) (qntot : label) (order : list label) (p : list nat)
  : list Z :=
  let pr := svd_present_s sh qnr qntot in
  let dimf := svd_dim qnl qnr qntot in
  let kf (sel : nat * nat -> nat) := fun nl => sel (block_cols md (length (lset qnl nl)) (length (rset qnr (svd_rkey qntot) nl))) in
  let main := cols_main pr order dimf in
  let cu := main ++ cols_extra pr order dimf (kf fst) in
  let cv := main ++ cols_extra pr order dimf (kf snd) in
  let ql := map (fun d => lab (sh_u_label sh) qntot (fst d)) cu in
  let qr := map (fun d => lab (sh_v_label sh) qntot (fst d)) cv in
  let perm (q : list label) := if m_full md then q else
        match m_deco md with DSvd => map (fun k => nth k q []) p | DQr => q end in
  [Z.of_nat (length main); Z.of_nat (length cu); Z.of_nat (length cv)]
    ++ concat (perm ql) ++ concat (perm qr).

Definition struct_eigh (sh : shape) (qn comp : list label) (qntot : label) (order : list label) : list Z :=
  let keys := bkeys (eigh_present_s sh comp qntot) order in
  let main := cols_main (eigh_present_s sh comp qntot) order (fun nl => length (lset qn nl)) in
  Z.of_nat (length keys) :: flat_map (fun nl => nl ++ zl (lset qn nl)) keys
    ++ [Z.of_nat (length main)] ++ concat (map fst main).

(* witness validity + model output, -1 flags an invalid witness, -2 "Invalid quantum number" *)
Definition svd_case (sh : shape) (md : mode) (qnl qnr : list label) (qntot : label) (order : list label) (p : list nat) : list Z :=
  if negb (wf_labelsb qntot qnl && wf_labelsb qntot qnr && order_okb order qnl) then [(-1)%Z] else
  match bkeys (svd_present_s sh qnr qntot) order with
  | [] => [(-2)%Z]
  | _ =>
    let K := length (cols_main (svd_present_s sh qnr qntot) order (svd_dim qnl qnr qntot)) in
    if negb (m_full md) && (match m_deco md with DSvd => negb (perm_okb p K) | DQr => false end) then [(-1)%Z] else
    struct_blocks sh md qnl qnr qntot order ++ struct_labels sh md qnl qnr qntot order p
  end.

Definition eigh_case (sh : shape) (qn comp : list label) (qntot : label) (order : list label) : list Z :=
  if negb (wf_labelsb qntot qn && wf_labelsb qntot comp && order_okb order qn) then [(-1)%Z] else
  match bkeys (eigh_present_s sh comp qntot) order with
  | [] => [(-2)%Z]
  | _ => struct_eigh sh qn comp qntot order
  end.
