(* Model of renormalizer/lib/krylov/krylov.py : expm_krylov (no proofs in this file).

   Part 1: the control skeleton of the Lanczos loop as a state machine over the loop index j and the
   lengths of the three growable buffers V (rows), alpha, beta.  Vector arithmetic is abstract: the two
   data-dependent decisions are oracles
       brk j  = (beta[j] < 100*n*eps)                      "breakdown"
       conv j = allclose(res, new_res) at iteration j      "converged"
   Every buffer access of the source is emitted as an event, in source order, so that
   "no access is out of bounds" is a statement about the event log.

   Part 2: the algebra behind the method (matrices as functions over a commutative ring):
   polynomials of a matrix applied to a vector, used for krylov_poly_exact. *)
From Coq Require Import List Arith Bool Lia String.
From RV Require Import Base.CRing Base.BigSum.
Import ListNotations.

(* ------------------------------------------------------------------ Part 1: control skeleton *)
Inductive buf := BV | BA | BB.                      (* V, alpha, beta *)
Inductive access :=
| Rd (b : buf) (i len : nat)                       (* read  b[i]   while len(b) = len *)
| Wr (b : buf) (i len : nat)                       (* write b[i] *)
| Sl (b : buf) (hi len : nat).                     (* slice b[:hi]  (must not be silently truncated) *)

Definition acc_ok (a : access) : bool :=
  match a with
  | Rd _ i len => Nat.ltb i len
  | Wr _ i len => Nat.ltb i len
  | Sl _ hi len => Nat.leb hi len
  end.

Inductive exit := FullSpace | Breakdown | Converged.

Record st := { sj : nat; lv : nat; la : nat; lb : nat; hasres : bool }.

(* alpha = zeros(bs); beta = zeros(bs - 1); V = empty((bs, n)); V[0] = vstart *)
Definition init (bs : nat) : st * list access :=
  ({| sj := 0; lv := bs; la := bs; lb := bs - 1; hasres := false |}, [Wr BV 0 bs]).

(* the three slices handed to _expm_krylov: alpha[:j+1], beta[:j], V[:j+1] *)
Definition slices (s : st) : list access :=
  [Sl BA (sj s + 1) (la s); Sl BB (sj s) (lb s); Sl BV (sj s + 1) (lv s)].

(* one pass through the loop body; inl = return (exit, returned iteration count, buffer state at the return), inr = next state *)
Definition step (n bs : nat) (brk conv : nat -> bool) (s : st) : (exit * nat * st + st) * list access :=
  let j := sj s in
  (* w = Afunc(V[j]); alpha[j] = vdot(w, V[j]).real *)
  let e1 := [Rd BV j (lv s); Wr BA j (la s); Rd BV j (lv s)] in
  if Nat.eqb j (n - 1) then
    (inl (FullSpace, j + 1, s), e1 ++ slices s)
  else
    (* if len(V) == j+1: grow V by bs rows, alpha and beta by bs entries *)
    let s1 := if Nat.eqb (lv s) (j + 1)
              then {| sj := j; lv := lv s + bs; la := la s + bs; lb := lb s + bs; hasres := hasres s |}
              else s in
    (* w -= alpha[j]*V[j] + (beta[j-1]*V[j-1] if j > 0 else 0); beta[j] = norm(w); test beta[j] *)
    let e2 := [Rd BA j (la s1); Rd BV j (lv s1)]
              ++ (if Nat.ltb 0 j then [Rd BB (j - 1) (lb s1); Rd BV (j - 1) (lv s1)] else [])
              ++ [Wr BB j (lb s1); Rd BB j (lb s1)] in
    if brk j then
      (inl (Breakdown, j + 1, s1), e1 ++ e2 ++ slices s1)
    else
      let check := Nat.ltb 3 j && Nat.even j in
      let e3 := if check then slices s1 else [] in
      if check && hasres s1 && conv j then
        (inl (Converged, j + 1, s1), e1 ++ e2 ++ e3)
      else
        (* V[j + 1] = w / beta[j] *)
        let e4 := [Rd BB j (lb s1); Wr BV (j + 1) (lv s1)] in
        (inr {| sj := j + 1; lv := lv s1; la := la s1; lb := lb s1; hasres := hasres s1 || check |},
         e1 ++ e2 ++ e3 ++ e4)
  .

(* for j in range(n): ... ; falling out of the loop returns None *)
Fixpoint loop (fuel n bs : nat) (brk conv : nat -> bool) (s : st) : option (exit * nat * st) * list access :=
  match fuel with
  | O => (None, [])
  | S f =>
      match step n bs brk conv s with
      | (inl r, ev) => (Some r, ev)
      | (inr s', ev) => let r := loop f n bs brk conv s' in (fst r, ev ++ snd r)
      end
  end.

Definition run (n bs : nat) (brk conv : nat -> bool) : option (exit * nat * st) * list access :=
  let i := init bs in
  let r := loop n n bs brk conv (fst i) in (fst r, snd i ++ snd r).

(* iterations at which _expm_krylov is called: every even j > 3 before the exit, and the exit itself *)
Definition is_call (a : access) : option nat :=
  match a with Sl BV hi _ => Some (hi - 1) | _ => None end.
Fixpoint calls (l : list access) : list nat :=
  match l with [] => [] | a :: t => match is_call a with Some j => j :: calls t | None => calls t end end.

Definition exit_code (e : exit) : nat := match e with FullSpace => 0 | Breakdown => 1 | Converged => 2 end.

(* everything observable about one run, as numbers, for the comparison with the logged run:
   [ok; exit; iterations; final len V; len alpha; len beta; all accesses in bounds; calls...] *)
Definition run_summary (n bs : nat) (brk conv : nat -> bool) : list nat :=
  let r := run n bs brk conv in
  match fst r with
  | None => [0]
  | Some (e, it, s) =>
      [1; exit_code e; it; lv s; la s; lb s; if forallb acc_ok (snd r) then 1 else 0] ++ calls (snd r)
  end.

(* ------------------------------------------------------------------ Part 2: algebra *)
Section Algebra.
  Variable R : CRing.
  Infix "+" := (radd R).
  Infix "*" := (rmul R).

  Definition vec := nat -> R.
  Definition matx := nat -> nat -> R.
  (* (M x)_i for an (r x c) matrix *)
  Definition mv (c : nat) (M : matx) (x : vec) : vec := fun i => sumn c (fun l => M i l * x l).
  Definition veq (r : nat) (x y : vec) : Prop := forall i, i < r -> x i = y i.

  (* q(M) x for a polynomial given by its coefficient list [q0; q1; ...] (Horner) *)
  Fixpoint poly_apply (d : nat) (M : matx) (q : list R) (x : vec) : vec :=
    match q with
    | [] => fun _ => r0 R
    | c :: q' => fun i => c * x i + mv d M (poly_apply d M q' x) i
    end.

  Definition e1 : vec := fun i => if Nat.eqb i 0 then r1 R else r0 R.

  (* Lanczos relation on an invariant subspace:  A V = V T  (A is N x N, V is N x m, T is m x m) *)
  Definition lanczos_rel (N m : nat) (A V T : matx) : Prop :=
    forall i c, i < N -> c < m -> sumn N (fun l => A i l * V l c) = sumn m (fun d => V i d * T d c).
  (* V^dagger V = I *)
  Definition orthonormal (N m : nat) (V : matx) : Prop :=
    forall c c', c < m -> c' < m ->
      sumn N (fun i => rcj R (V i c) * V i c') = if Nat.eqb c c' then r1 R else r0 R.
  Definition hermitian (N : nat) (A : matx) : Prop := forall i l, i < N -> l < N -> A i l = rcj R (A l i).
End Algebra.

(* ------------------------------------------------------------------ Part 3: call sites (table in Gen/KrylovSites.v)
   expm_krylov assumes a Hermitian operator A (alpha is taken real, T real symmetric tridiagonal).
   The translator tx/krylovsites.py classifies, for every call, the operator expression and the dt
   expression. *)
Inductive opclass :=
| OpHop          (* lambda y: hop(y.reshape(shape)).ravel(), hop built by hop_expr*: the Hermitian effective Hamiltonian *)
| OpRealScaled   (* effective Hamiltonian divided by a coefficient that is real on every path: still Hermitian *)
| OpCoefCancelled (* lambda y: f(y) * c with f = the factory function dividing by the SAME name c (non-zero literal on every path):
                     (H_eff y / c) * c = H_eff y, Hermitian *)
| OpDivImag      (* effective Hamiltonian divided by a coefficient that is imaginary on some path: anti-Hermitian there *)
| OpUnknown.
Inductive dtclass :=
| DtOverCoef     (* name / c with the coefficient c whose cancellation was verified for the operator *)
| DtImagConst    (* (+-1j) * name / 2 : the imaginary unit is carried by dt *)
| DtCoeffTau     (* coeff * tau : the caller's coefficient (-1j or -1) is carried by dt *)
| DtName         (* a bare variable *)
| DtUnknown.
Record site := { s_file : string; s_line : nat; s_func : string; s_op : opclass; s_dt : dtclass }.

(* the precondition of expm_krylov concerns the operator only: with a Hermitian operator every real, imaginary or
   complex dt is admissible (T is real symmetric, exp(dt*w) is evaluated on its eigenvalues).  The dt class is kept in
   the table because it says where the imaginary unit / the caller's coefficient went (used by C09). *)
Definition site_ok (s : site) : bool :=
  match s_op s with
  | OpHop => true
  | OpRealScaled => true
  | OpCoefCancelled => match s_dt s with DtOverCoef => true | _ => false end   (* the removed 1/c must reappear in dt *)
  | OpDivImag => false
  | OpUnknown => false
  end.
Definition dt_known (s : site) : bool := match s_dt s with DtUnknown => false | _ => true end.
Definition is_cmf (s : site) : bool := String.eqb (s_func s) "_evolve_tdvp_mu_cmf".

(* ------------------------------------------------------------------ Part 4: the loop with its data
   The Lanczos vectors, alpha and beta as exact values over a commutative ring with involution plus the three
   operations the ring does not have, each an abstract function with a contract stated where it is used:
     inv   : 1/x                 (V[j+1] = w / beta[j])
     nrm   : the 2-norm          (beta[j] = norm(w))
     rpart : the real part       (alpha[j] = vdot(w, V[j]).real)
     isz   : the breakdown test  (beta[j] < 100*n*eps; in exact arithmetic: beta[j] = 0)
   and the kernel of _expm_krylov as a witness  expT m : the m x m matrix  exp(dt * T_m)  computed from
   alpha[:m], beta[:m-1] by eigh_tridiagonal.  The data do not depend on the control decisions; the control
   skeleton of Part 1 decides where the sequence is cut. *)
Section Data.
  Variable R : CRing.
  Notation "0" := (r0 R).
  Infix "+" := (radd R).
  Infix "*" := (rmul R).
  Infix "-" := (rsub R).

  Variable N : nat.                      (* len(vstart) *)
  Variable A : matx R.                   (* Afunc *)
  Variable inv : R -> R.
  Variable nrm : vec R -> R.
  Variable rpart : R -> R.
  Variable isz : R -> bool.

  (* xp.vdot(x, y) = sum conj(x_i) y_i *)
  Definition vdot (x y : vec R) : R := sumn N (fun i => rcj R (x i) * y i).
  (* alpha[j] = vdot(w, V[j]).real with w = A V[j] *)
  Definition lz_alpha (v : vec R) : R := rpart (vdot (mv R N A v) v).
  (* w -= alpha[j]*V[j] + (beta[j-1]*V[j-1] if j > 0 else 0)      (j = 0: bprev = 0) *)
  Definition lz_resid (vprev : vec R) (bprev : R) (v : vec R) : vec R :=
    fun i => mv R N A v i - (lz_alpha v * v i + bprev * vprev i).

  (* (V[k-1], beta[k-1], V[k]) *)
  Fixpoint lz (v0 : vec R) (k : nat) : vec R * R * vec R :=
    match k with
    | O => (fun _ => 0, 0, v0)
    | S k' => let '(vp, bp, v) := lz v0 k' in
              let w := lz_resid vp bp v in
              let b := nrm w in
              (v, b, fun i => w i * inv b)
    end.
  Definition Vk (v0 : vec R) (k : nat) : vec R := snd (lz v0 k).
  Definition alpha (v0 : vec R) (k : nat) : R := lz_alpha (Vk v0 k).
  Definition resid (v0 : vec R) (k : nat) : vec R := let '(vp, bp, v) := lz v0 k in lz_resid vp bp v.
  Definition beta (v0 : vec R) (k : nat) : R := nrm (resid v0 k).

  (* V[:m].T as an N x m matrix, and the m x m tridiagonal matrix of _expm_krylov *)
  Definition Vmat (v0 : vec R) : matx R := fun i c => Vk v0 c i.
  Definition Tmat (v0 : vec R) : matx R := fun d c =>
    if Nat.eqb d c then alpha v0 c else if Nat.eqb (S d) c then beta v0 d else if Nat.eqb d (S c) then beta v0 c else 0.

  (* _expm_krylov:  V @ (u_hess @ (v_norm * exp(dt*w_hess) * u_hess[0]))  =  v_norm * V * E * e1  with E = expT m *)
  Definition ret_vec (v0 : vec R) (nrm0 : R) (E : matx R) (m : nat) : vec R :=
    fun i => nrm0 * mv R m (Vmat v0) (mv R m E (e1 R)) i.

  (* expm_krylov: the control skeleton driven by the exact breakdown test; returns (exit, j+1, vector) *)
  Definition krylov_return (bs : nat) (conv : nat -> bool) (v0 : vec R) (nrm0 : R) (expT : nat -> matx R)
    : option (exit * nat * vec R) :=
    match fst (run N bs (fun j => isz (beta v0 j)) conv) with
    | Some (e, it, _) => Some (e, it, ret_vec v0 nrm0 (expT it) it)
    | None => None
    end.
End Data.

(* ------------------------------------------------------------------ Part 5: normalise, run, scale
   expm_krylov divides vstart by its norm (unconditionally), starts the recursion from that unit vector (V[0]) and the
   kernel multiplies the result by the norm once.  The facts are read from the source by tx/krylovnorm.py
   (Gen.KrylovNorm.src_norm); [ref_norm] is what this model and the proofs are written for. *)
Record normshape := {
  ns_two_norm : bool;        (* nrmv = float(xp.linalg.norm(vstart)); assert nrmv > 0 *)
  ns_unconditional : bool;   (* the division is not guarded by a test on nrmv *)
  ns_out_of_place : bool;    (* vstart = vstart / nrmv (a new array), not vstart /= nrmv *)
  ns_first_row : bool;       (* V[0] = vstart; vstart and nrmv are bound nowhere else *)
  ns_scale_once : bool;      (* every exit returns _expm_krylov(.., nrmv, dt) = V @ (u @ (nrmv * exp(dt w) * u[0])) *)
  ns_atol_scaled : bool;     (* convergence test allclose(res, new_res, atol=1e-8 * nrmv) *)
  ns_fallback_consistent : bool   (* except LinAlgError: the dense tridiagonal matrix handed to np.linalg.eigh has both off-diagonals
                                     (or exactly the triangle eigh reads): the fallback diagonalises the same T *)
}.
Definition ref_norm : normshape :=
  {| ns_two_norm := true; ns_unconditional := true; ns_out_of_place := true; ns_first_row := true;
     ns_scale_once := true; ns_atol_scaled := true; ns_fallback_consistent := true |}.

Section Wrapper.
  Variable R : CRing.
  Infix "*" := (rmul R).
  Variable nrmf : vec R -> R.            (* the 2-norm *)
  Variable inv : R -> R.
  Variable close1 : R -> bool.           (* a guard such as np.isclose(nrmv, 1) (only used by the non-reference shape) *)
  Variable core : vec R -> vec R.        (* first basis vector |-> V * E * e1  (the Lanczos run and the kernel without the norm factor) *)

  (* the vector stored in V[0] *)
  Definition start_of (sh : normshape) (v : vec R) : vec R :=
    let n := nrmf v in
    if ns_unconditional sh || negb (close1 n) then (fun i => v i * inv n) else v.
  (* the value returned: nrmv * (V E e1) *)
  Definition expm_wrapper (sh : normshape) (v : vec R) : vec R := fun i => nrmf v * core (start_of sh v) i.
End Wrapper.
