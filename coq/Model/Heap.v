(* C13 -- abstract heap model of "operations return new objects and never disturb their inputs".

   An OBJECT (state, operator, density operator; chain or tree) is a LAYOUT: the list of its slots, each a
   (field, location) pair -- site buffers, label buffers, the qntot buffer, the prefactor cell, the scalar
   metadata (qnidx, to_right, dtype).  A LOCATION is a buffer; two objects alias iff a location occurs in
   both layouts.  The DENOTATION (tensors x prefactor) of an object is [interp] applied to the contents of
   its slots, hence by construction a function of the contents of its locations only.

   Every public operation has an EFFECT SIGNATURE [sig]: its category (produces a result / mutates its first
   operand in place / only measures), the fields of its other operands it may REWRITE without changing what
   they denote (gauge change by ensure_*_canonical, prefactor folding by Mps.add/distance, scaling by 1),
   the fields of the in-place target it may WRITE, the fields in which the result may SHARE a buffer with an
   operand.  [sig_of] is the table; the observation harness checks every executed operation of the real code
   against it ([within_sig]) and the generated entry table Gen/EvolveEntry.v is checked against it ([sig_ok]).

   A PROGRAM is a list of instructions on named objects.  [step] is the small-step semantics: ANY successor
   state that respects the signature of the instruction (nondeterministic; numerical content is abstract).
   No proofs here (see Proofs/HeapProofs.v). *)
From Coq Require Import List Arith Bool String.
Import ListNotations.
From RV Require Import Base.CRing Base.BigSum Model.Chain.
From RV Require Export Gen.EvolveEntry Gen.OpEntries.      (* generated: entry table, operation rows, [field] *)

(* ------------------------------------------------------------------ fields, layouts *)
Definition loc := nat.
Definition oid := nat.
(* [field] = FSite | FLabel | FQntot | FCoeff | FMeta comes from Gen/OpEntries.v *)
Definition field_eqb (a b : field) : bool :=
  match a, b with
  | FSite, FSite | FLabel, FLabel | FQntot, FQntot | FCoeff, FCoeff | FMeta, FMeta => true
  | _, _ => false
  end.
Definition fmem (f : field) (l : list field) : bool := existsb (field_eqb f) l.
Definition fsubset (a b : list field) : bool := forallb (fun f => fmem f b) a.

Definition layout := list (field * loc).
Definition locs (o : layout) : list loc := map snd o.
(* locations of the slots of [o] whose field is in [fs] *)
Definition flocs (fs : list field) (o : layout) : list loc :=
  map snd (filter (fun fl => fmem (fst fl) fs) o).

(* ------------------------------------------------------------------ operations and signatures *)
Inductive world := Chain | Tree.
Inductive scheme := PC | PCrk4 | PCrk | TdvpMuVmf | TdvpVmf | TdvpMuCmf | TdvpPs | TdvpPs2.
Inductive opname :=
  | New | Copy | MetacopyFill | ToComplex | Conj | ConjTrans | Scale | Add | Distance | Apply | Contract
  | CompressCopy | CanoCopy | Expectation | Expectations | Rdm | Entropy | Norm | Dense
  | Evolve (s : scheme) | EvolveDispatch | EvolveExact | FromMps | CompressedSum | Expand | Reload
  | ScaleIn | ToComplexIn | CanonicaliseIn | CompressIn | NormalizeIn | SetItem | SetCoeff | PokeSites
  | Optimize.

Inductive cat := Derive | Mutate | Observe.
Record sig := mkSig { s_cat : cat; s_rewrite : list field; s_write : list field; s_share : list field }.

Definition gauge_fields : list field := [FSite; FLabel; FMeta].      (* ensure_left/right_canonical *)
Definition fold_fields : list field := [FSite; FCoeff; FMeta].       (* Mps.add / Mps.distance prefactor folding *)

(* `new.coeff = self.coeff` (metacopy, from_mps) hands the prefactor OBJECT on: harmless for a python scalar, a shared
   mutable container when the prefactor is a 0-d ndarray (TTNBase.load).  Declared sharing, like qntot / real conj. *)
Definition cshare : list field := [FCoeff].

Definition chain_sig (o : opname) : sig :=
  match o with
  | New | EvolveExact | EvolveDispatch | Reload => mkSig Derive [] [] []
  | Copy | MetacopyFill | ToComplex | Scale | Apply | Contract | CompressCopy | CanoCopy => mkSig Derive [] [] cshare
  | Conj => mkSig Derive [] [] [FSite; FCoeff]    (* ndarray.conj() of a real buffer is the buffer itself *)
  | ConjTrans => mkSig Derive [] [] [FSite; FCoeff] (* moveaxis(...).conj(): a transposed view for real operators *)
  | Add => mkSig Derive fold_fields [] cshare
  | CompressedSum | Expand => mkSig Derive fold_fields [] []   (* expand_bond_dimension: mps + expander folds *)
  | Distance => mkSig Observe fold_fields [] []
  | Expectation | Expectations | Rdm | Entropy | Norm | Dense => mkSig Observe [] [] []
  | Evolve PC | Evolve PCrk4 | Evolve PCrk => mkSig Derive fold_fields [] []
  (* all TDVP entries may re-gauge their input first (ensure_left/right_canonical, since cb3add5 also the pair of
     QR sweeps of _trim_overcomplete_bonds; since c491f36 also the projector-splitting schemes): tensors, labels
     and qnidx/to_right of the input are rewritten, tensors x prefactor is not *)
  | Evolve TdvpMuVmf | Evolve TdvpVmf | Evolve TdvpMuCmf | Evolve TdvpPs | Evolve TdvpPs2 =>
      mkSig Derive gauge_fields [] []
  | FromMps => mkSig Derive [] [] [FQntot; FCoeff]  (* MpDm.from_mps: mpo.qntot = mps.qntot; mpo.coeff = mps.coeff *)
  | ScaleIn | ToComplexIn => mkSig Mutate [] [FSite; FCoeff; FMeta] []
  | CanonicaliseIn | CompressIn => mkSig Mutate [] [FSite; FLabel; FMeta] []
  | NormalizeIn => mkSig Mutate [] [FSite; FCoeff; FMeta] []
  | SetItem | PokeSites => mkSig Mutate [] [FSite] []
  | SetCoeff => mkSig Mutate [] [FCoeff] []
  | Optimize => mkSig Mutate [] [FSite; FLabel; FCoeff; FMeta] []   (* documented: overwrites its guess *)
  end.

Definition tree_sig (o : opname) : sig :=
  match o with
  | New | Reload | Expand => mkSig Derive [] [] []
  | CompressedSum | Copy | MetacopyFill | ToComplex | Scale | Add | Apply | Contract | CompressCopy | CanoCopy
  | Evolve _ | EvolveDispatch => mkSig Derive [] [] cshare
  | Distance | Expectation | Expectations | Rdm | Entropy | Norm | Dense => mkSig Observe [] [] []
  | ScaleIn | ToComplexIn => mkSig Mutate [] [FSite; FLabel] []
  | CanonicaliseIn | CompressIn => mkSig Mutate [] [FSite; FLabel] []
  | NormalizeIn => mkSig Mutate [] [FSite; FLabel; FCoeff] []
  | SetItem | PokeSites => mkSig Mutate [] [FSite] []
  | SetCoeff => mkSig Mutate [] [FCoeff] []
  | Optimize => mkSig Mutate [] [FSite; FLabel; FCoeff] []
  | Conj | ConjTrans | EvolveExact | FromMps => mkSig Observe [] [] []   (* not defined for trees: nothing allowed *)
  end.

Definition sig_of (w : world) (o : opname) : sig := match w with Chain => chain_sig o | Tree => tree_sig o end.

(* ------------------------------------------------------------------ programs *)
Record instr := mkI { i_world : world; i_op : opname; i_args : list oid; i_res : option oid }.
Definition i_sig (i : instr) : sig := sig_of (i_world i) (i_op i).
(* the declared in-place target: the first operand of a Mutate instruction *)
Definition i_target (i : instr) : option oid :=
  match s_cat (i_sig i), i_args i with Mutate, t :: _ => Some t | _, _ => None end.
Definition targets (p : list instr) : list oid :=
  flat_map (fun i => match i_target i with Some t => [t] | None => [] end) p.
Definition is_target (i : instr) (n : oid) : bool :=
  match i_target i with Some t => Nat.eqb t n | None => false end.
Definition is_arg (i : instr) (n : oid) : bool := existsb (Nat.eqb n) (i_args i).

Section Semantics.
Variables V D : Type.
Variable interp : list (field * V) -> D.
Variable Deq : D -> D -> Prop.               (* equality of denotations (pointwise / up to rounding) *)

Record state := mkSt {
  st_heap : loc -> V;                        (* contents of every location *)
  st_obj : oid -> option layout;             (* named objects *)
  st_next : loc;                             (* every location < st_next is allocated *)
  st_shared : list loc                       (* locations that were declared shared when a result was made *)
}.

Definition den (o : layout) (h : loc -> V) : D := interp (map (fun fl => (fst fl, h (snd fl))) o).

(* slots of the new layout are old slots, or freshly allocated buffers in one of the fields F *)
Definition slots_ok (F : list field) (lo hi : loc) (lay lay' : layout) : Prop :=
  forall f l, In (f, l) lay' -> In (f, l) lay \/ (fmem f F = true /\ lo <= l /\ l < hi).

(* One step: ANY successor that obeys the signature of the instruction. *)
Record step (i : instr) (s s' : state) : Prop := mkStep {
  (* operands exist; the result name is new; a result is produced exactly by Derive operations *)
  sp_args : forall a, In a (i_args i) -> st_obj s a <> None;
  sp_res : match i_res i with
           | Some r => s_cat (i_sig i) = Derive /\ st_obj s r = None /\ st_obj s' r <> None
           | None => s_cat (i_sig i) <> Derive
           end;
  sp_next : st_next s <= st_next s';
  (* objects other than the result: the target may get new buffers in its writable fields; other operands may
     be rewritten in the rewritable fields provided they denote the same; nothing else is touched *)
  sp_objs : forall n, i_res i <> Some n ->
            match st_obj s n with
            | None => st_obj s' n = None
            | Some lay => exists lay', st_obj s' n = Some lay' /\
                (if is_target i n then slots_ok (s_write (i_sig i)) (st_next s) (st_next s') lay lay'
                 else if is_arg i n then
                        slots_ok (s_rewrite (i_sig i)) (st_next s) (st_next s') lay lay' /\
                        Deq (den lay' (st_heap s')) (den lay (st_heap s))
                 else lay' = lay)
            end;
  (* contents of already allocated buffers change only inside the writable fields of the target or the
     rewritable fields of the other operands *)
  sp_heap : forall l, l < st_next s ->
            (exists t lay, i_target i = Some t /\ st_obj s t = Some lay /\ In l (flocs (s_write (i_sig i)) lay)) \/
            (exists a lay, In a (i_args i) /\ is_target i a = false /\ st_obj s a = Some lay /\
                           In l (flocs (s_rewrite (i_sig i)) lay)) \/
            st_heap s' l = st_heap s l;
  (* declared-shared buffers are never written *)
  sp_shared_kept : forall l, In l (st_shared s) -> st_heap s' l = st_heap s l;
  sp_shared_mono : incl (st_shared s) (st_shared s');
  (* the result: fresh buffers, or (only in the declared fields) the operand's own buffer, then recorded as shared *)
  sp_result : forall r layr, i_res i = Some r -> st_obj s' r = Some layr ->
              forall f l, In (f, l) layr ->
                (st_next s <= l /\ l < st_next s') \/
                (fmem f (s_share (i_sig i)) = true /\ In l (st_shared s') /\
                 exists a lay, In a (i_args i) /\ st_obj s a = Some lay /\ In (f, l) lay);
  (* a freshly allocated buffer belongs to one object only *)
  sp_fresh_sep : forall n1 n2 lay1 lay2 l, n1 <> n2 -> st_obj s' n1 = Some lay1 -> st_obj s' n2 = Some lay2 ->
                 st_next s <= l -> In l (locs lay1) -> In l (locs lay2) -> False
}.

Inductive exec : list instr -> state -> state -> Prop :=
  | exec_nil : forall s, exec [] s s
  | exec_cons : forall i p s s1 s2, step i s s1 -> exec p s1 s2 -> exec (i :: p) s s2.

(* well-formed states: allocated buffers are below st_next; distinct objects overlap only in declared-shared buffers *)
Record wf (s : state) : Prop := mkWf {
  wf_alloc : forall n lay l, st_obj s n = Some lay -> In l (locs lay) -> l < st_next s;
  wf_sep : forall n1 n2 lay1 lay2 l, n1 <> n2 -> st_obj s n1 = Some lay1 -> st_obj s n2 = Some lay2 ->
           In l (locs lay1) -> In l (locs lay2) -> In l (st_shared s)
}.

Definition empty_state (h : loc -> V) : state := mkSt h (fun _ => None) 0 [].

End Semantics.

Arguments mkSt {V}.
Arguments st_heap {V}.
Arguments st_obj {V}.
Arguments st_next {V}.
Arguments st_shared {V}.
Arguments den {V D}.
Arguments step {V D}.
Arguments exec {V D}.
Arguments wf {V}.
Arguments empty_state {V}.

(* ------------------------------------------------------------------ prefactor folding (Mps.add / Mps.distance)
   `self.scale(self.coeff, inplace=True); self.coeff = 1`: the tensor at the qn centre k is multiplied by the
   prefactor and the prefactor is reset.  Denotation of a state: prefactor x chain amplitude (Model/Chain). *)
Section Fold.
Variable R : CRing.
Definition scale3 (c : R) (t : T3 R) : T3 R := fun l p r => rmul R c (t l p r).
Definition scale4 (c : R) (t : T4 R) : T4 R := fun l pu pd r => rmul R c (t l pu pd r).
Fixpoint scale_at {A} (sc : A -> A) (k : nat) (ts : list (nat * A)) : list (nat * A) :=
  match ts, k with
  | [], _ => []
  | (d, t) :: ts', O => (d, sc t) :: ts'
  | dt :: ts', S k' => dt :: scale_at sc k' ts'
  end.
Definition den_state (coeff : R) (ts : list (nat * T3 R)) (s : list nat) : R := rmul R coeff (amp ts s).
Definition den_oper (coeff : R) (ts : list (nat * T4 R)) (su sd : list nat) : R := rmul R coeff (opamp ts su sd).
Definition fold_state (k : nat) (coeff : R) (ts : list (nat * T3 R)) := (r1 R, scale_at (scale3 coeff) k ts).
Definition fold_oper (k : nat) (coeff : R) (ts : list (nat * T4 R)) := (r1 R, scale_at (scale4 coeff) k ts).
End Fold.
Arguments scale_at {A} sc k ts.
Arguments den_state {R}.
Arguments den_oper {R}.
Arguments fold_state {R}.
Arguments fold_oper {R}.

(* ------------------------------------------------------------------ compressed_sum: the queue loop
   queue of flags (true = an element of the argument list, false = a sum made by _sum); one round pops
   min(batch, len) elements, sums them, appends the sum.  Returns the final queue and the sizes of the _sum calls. *)
Fixpoint csum_loop (fuel batch : nat) (q : list bool) : option (list bool * list nat) :=
  match q with
  | [_] => Some (q, [])
  | _ => match fuel with
         | O => None
         | S f => let k := Nat.min batch (List.length q) in
                  match csum_loop f batch (skipn k q ++ [false]) with
                  | Some (q', ks) => Some (q', k :: ks)
                  | None => None
                  end
         end
  end.

(* ------------------------------------------------------------------ generated entry table vs signatures *)
Local Open Scope string_scope.
Definition op_of_fn (fn : string) : option (world * opname) :=
  if fn =? "Mps._evolve_prop_and_compress" then Some (Chain, Evolve PC)
  else if fn =? "Mps._evolve_prop_and_compress_tdrk4" then Some (Chain, Evolve PCrk4)
  else if fn =? "Mps._evolve_prop_and_compress_tdrk" then Some (Chain, Evolve PCrk)
  else if fn =? "Mps._evolve_tdvp_mu_vmf" then Some (Chain, Evolve TdvpMuVmf)     (* also serves tdvp_vmf *)
  else if fn =? "Mps._evolve_tdvp_mu_cmf" then Some (Chain, Evolve TdvpMuCmf)
  else if fn =? "Mps._evolve_tdvp_ps" then Some (Chain, Evolve TdvpPs)
  else if fn =? "Mps._evolve_tdvp_ps2" then Some (Chain, Evolve TdvpPs2)
  else if fn =? "Mps.evolve_exact" then Some (Chain, EvolveExact)
  else if fn =? "MpDm.evolve_exact" then Some (Chain, EvolveExact)
  else if fn =? "Mps.evolve" then Some (Chain, EvolveDispatch)
  else if fn =? "adaptive_tdvp.adaptive_fun" then Some (Chain, EvolveDispatch)
  else if fn =? "TTNS.evolve" then Some (Tree, EvolveDispatch)
  else if fn =? "compressed_sum" then Some (Chain, CompressedSum)
  else None.

Definition helper_known (fn : string) : bool :=
  (fn =? "tn.evolve_tdvp_vmf") || (fn =? "tn.evolve_prop_and_compress_tdrk4") ||
  (fn =? "tn.evolve_tdvp_ps") || (fn =? "tn.evolve_tdvp_ps2").

Definition origin_fresh (o : origin) : bool := match o with OIn => false | _ => true end.
Definition is_nil {A} (l : list A) : bool := match l with [] => true | _ => false end.

(* a recorded write to the input is admissible iff it is a denotation-preserving rewrite that the signature of
   the operation declares, or touches configuration objects only (DESIGN 12: reported, not a violation) *)
Definition write_allowed (sg : sig) (w : write) : bool :=
  match w_kind w with
  | WConfig => true
  | WGauge => fsubset gauge_fields (s_rewrite sg)
  | WFold => fsubset fold_fields (s_rewrite sg)
  | WScaleIdentity => fmem FSite (s_rewrite sg)      (* scale by (x ** 0) * c_0 = 1 of list element 0 *)
  | WValue | WDestructive | WHelperInplace | WEscape => false
  end.

Definition is_derive (c : cat) : bool := match c with Derive => true | _ => false end.

Definition sig_ok (e : entry) : bool :=
  match e_role e with
  | Helper => helper_known (e_fn e)        (* documented to work on its argument: the obligation is on the caller *)
  | SumHelper => csum_queue_template_ok && forallb (fun b => Nat.leb 2 b) csum_batches && negb (is_nil csum_batches)
  | Public =>
      match op_of_fn (e_fn e) with
      | None => false
      | Some (w, o) =>
          let sg := sig_of w o in
          is_derive (s_cat sg) && fsubset (s_share sg) cshare &&   (* at most the prefactor object is handed on *)
          negb (is_nil (e_first e)) && negb (is_nil (e_ret e)) &&
          forallb origin_fresh (e_ret e) &&            (* the returned state is never the input itself *)
          forallb (write_allowed sg) (e_writes e)      (* no store to the input, only declared rewrites *)
      end
  end.

(* every evolution scheme of the model has a row in the generated table *)
Definition all_schemes : list scheme := [PC; PCrk4; PCrk; TdvpMuVmf; TdvpMuCmf; TdvpPs; TdvpPs2].
Definition scheme_eqb (a b : scheme) : bool :=
  match a, b with
  | PC, PC | PCrk4, PCrk4 | PCrk, PCrk | TdvpMuVmf, TdvpMuVmf | TdvpVmf, TdvpVmf | TdvpMuCmf, TdvpMuCmf
  | TdvpPs, TdvpPs | TdvpPs2, TdvpPs2 => true
  | _, _ => false
  end.
Definition row_is_scheme (s : scheme) (e : entry) : bool :=
  match op_of_fn (e_fn e) with Some (Chain, Evolve s') => scheme_eqb s s' | _ => false end.
Definition fn_present (fn : string) : bool := existsb (fun e => e_fn e =? fn) entries.
Definition table_complete : bool :=
  forallb (fun s => existsb (row_is_scheme s) entries) all_schemes &&
  fn_present "Mps.evolve_exact" && fn_present "MpDm.evolve_exact" && fn_present "Mps.evolve" &&
  fn_present "adaptive_tdvp.adaptive_fun" && fn_present "TTNS.evolve" && fn_present "compressed_sum" &&
  fn_present "_sum" && fn_present "tn.evolve_tdvp_vmf" && fn_present "tn.evolve_prop_and_compress_tdrk4" &&
  fn_present "tn.evolve_tdvp_ps" && fn_present "tn.evolve_tdvp_ps2".

(* ------------------------------------------------------------------ signatures GENERATED from the source
   Gen/OpEntries.v has one row per (method, variant, tracked parameter).  [op_rows] says which rows make up an
   operation of the model and whether the tracked parameter is an operand or the declared in-place target.
   [gen_sig] is the signature computed from the rows; the hand table [sig_of] above must agree with it
   ([sig_tables_agree]) and only supplies the category (the API shape) and the operations without rows. *)
Inductive prole := Operand | Target.
Definition rowkey := (string * string * string * prole)%type.
Definition op_rows (w : world) (o : opname) : list rowkey :=
  match w, o with
  | Chain, Copy | Chain, CanoCopy | Chain, CompressCopy => [("MatrixProduct.copy", "", "self", Operand)]
  | Chain, MetacopyFill => [("MatrixProduct.metacopy", "", "self", Operand); ("Mps.metacopy", "", "self", Operand);
                            ("Mpo.metacopy", "", "self", Operand)]
  | Chain, ToComplex => [("MatrixProduct.to_complex", "inplace=False", "self", Operand); ("Mps.to_complex", "inplace=False", "self", Operand)]
  | Chain, ToComplexIn => [("MatrixProduct.to_complex", "inplace=True", "self", Target); ("Mps.to_complex", "inplace=True", "self", Target)]
  | Chain, Conj => [("MatrixProduct.conj", "", "self", Operand); ("Mps.conj", "", "self", Operand)]
  | Chain, ConjTrans => [("Mpo.conj_trans", "", "self", Operand)]
  | Chain, Scale => [("MatrixProduct.scale", "inplace=False", "self", Operand)]
  | Chain, ScaleIn => [("MatrixProduct.scale", "inplace=True", "self", Target)]
  | Chain, Add => [("MatrixProduct.add", "", "self", Operand); ("MatrixProduct.add", "", "other", Operand);
                   ("Mps.add", "", "self", Operand); ("Mps.add", "", "other", Operand)]
  | Chain, Distance => [("MatrixProduct.distance", "", "self", Operand); ("MatrixProduct.distance", "", "other", Operand);
                        ("Mps.distance", "", "self", Operand); ("Mps.distance", "", "other", Operand)]
  | Chain, CanonicaliseIn => [("MatrixProduct.canonicalise", "", "self", Target); ("MatrixProduct.ensure_left_canonical", "", "self", Target);
                              ("MatrixProduct.ensure_right_canonical", "", "self", Target)]
  | Chain, CompressIn => [("MatrixProduct.ensure_right_canonical", "", "self", Target); ("MatrixProduct.compress", "", "self", Target)]
  | Chain, NormalizeIn => [("Mps.normalize", "", "self", Target)]
  | Chain, Expectation => [("Mps.expectation", "", "self", Operand); ("Mps.expectation", "", "mpo", Operand)]
  | Chain, Expectations => [("Mps.expectations", "", "self", Operand)]
  | Chain, Rdm => [("Mps.calc_1site_rdm", "", "self", Operand); ("Mps.calc_2site_rdm", "", "self", Operand);
                   ("Mps.calc_edof_rdm", "", "self", Operand)]
  | Chain, Entropy => [("Mps.calc_entropy", "", "self", Operand); ("Mps.calc_bond_entropy", "", "self", Operand);
                       ("Mps.calc_bond_singular_values", "", "self", Operand); ("Mps.calc_2site_mutual_entropy", "", "self", Operand)]
  | Chain, Apply => [("Mpo.apply", "", "self", Operand); ("Mpo.apply", "", "mp", Operand);
                     ("MpDm.apply", "", "self", Operand); ("MpDm.apply", "", "mp", Operand)]
  | Chain, Contract => [("Mpo.contract", "", "self", Operand); ("Mpo.contract", "", "mps", Operand)]
  | Chain, FromMps => [("MpDm.from_mps", "", "mps", Operand)]
  | Chain, Expand => [("Mps.expand_bond_dimension", "", "self", Operand); ("Mps.expand_bond_dimension", "", "hint_mpo", Operand);
                      ("@expand_bond_dimension", "", "mps", Operand); ("@expand_bond_dimension", "", "hint_mpo", Operand);
                      ("@expand_bond_dimension_general", "", "mps", Operand); ("@expand_bond_dimension_general", "", "hint_mpo", Operand);
                      ("@expand_bond_dimension_general", "", "ex_mps", Operand)]
  | Tree, Expand => [("tree@expand_bond_dimension_general", "", "mps", Operand); ("tree@expand_bond_dimension_general", "", "hint_mpo", Operand)]
  | Tree, Copy | Tree, CanoCopy | Tree, CompressCopy => [("TTNS.copy", "", "self", Operand)]
  | Tree, MetacopyFill => [("TTNS.metacopy", "", "self", Operand)]
  | Tree, ToComplex => [("TTNS.to_complex", "inplace=False", "self", Operand)]
  | Tree, ToComplexIn => [("TTNS.to_complex", "inplace=True", "self", Target)]
  | Tree, Scale => [("TTNS.scale", "inplace=False", "self", Operand)]
  | Tree, ScaleIn => [("TTNS.scale", "inplace=True", "self", Target)]
  | Tree, Add => [("TTNS.add", "", "self", Operand); ("TTNS.add", "", "other", Operand)]
  | Tree, Apply => [("TTNO.apply", "", "self", Operand); ("TTNO.apply", "", "ttns", Operand)]
  | Tree, Contract => [("TTNO.contract", "", "self", Operand); ("TTNO.contract", "", "ttns", Operand)]
  | Tree, CanonicaliseIn => [("TTNS.canonicalise", "", "self", Target)]
  | Tree, CompressIn => [("TTNS.canonicalise", "", "self", Target); ("TTNS.compress", "", "self", Target)]
  | Tree, NormalizeIn => [("TTNS.normalize", "", "self", Target)]
  | Tree, Expectation => [("TTNS.expectation", "", "self", Operand); ("TTNS.expectation", "", "ttno", Operand)]
  | Tree, Rdm => [("TTNS.calc_1site_rdm", "", "self", Operand); ("TTNS.calc_2site_rdm", "", "self", Operand);
                  ("TTNS.calc_1dof_rdm", "", "self", Operand)]
  | Tree, Entropy => [("TTNS.calc_bond_entropy", "", "self", Operand); ("TTNS.calc_bond_singular_values", "", "self", Operand);
                      ("TTNS.calc_1site_entropy", "", "self", Operand)]
  | _, _ => []
  end.

Definition covered_ops : list (world * opname) :=
  [(Chain, Copy); (Chain, CanoCopy); (Chain, CompressCopy); (Chain, MetacopyFill); (Chain, ToComplex); (Chain, ToComplexIn);
   (Chain, Conj); (Chain, ConjTrans); (Chain, Scale); (Chain, ScaleIn); (Chain, Add); (Chain, Distance);
   (Chain, CanonicaliseIn); (Chain, CompressIn); (Chain, NormalizeIn); (Chain, Expectation); (Chain, Expectations);
   (Chain, Rdm); (Chain, Entropy); (Chain, Apply); (Chain, Contract); (Chain, FromMps); (Chain, Expand); (Tree, Expand);
   (Tree, Copy); (Tree, CanoCopy); (Tree, CompressCopy); (Tree, MetacopyFill); (Tree, ToComplex); (Tree, ToComplexIn);
   (Tree, Scale); (Tree, ScaleIn); (Tree, Add); (Tree, Apply); (Tree, Contract); (Tree, CanonicaliseIn); (Tree, CompressIn);
   (Tree, NormalizeIn); (Tree, Expectation); (Tree, Rdm); (Tree, Entropy)].

Definition find_row (k : rowkey) : option oprow :=
  let '(fn, v, p, _) := k in
  find (fun r => (o_fn r =? fn) && (o_variant r =? v) && (o_param r =? p)) oprows.
Definition is_operand (k : rowkey) : bool := match k with (_, _, _, Operand) => true | _ => false end.
Definition benign_kind (k : wkind) : bool :=
  match k with WConfig | WGauge | WFold | WScaleIdentity => true | _ => false end.
Definition is_config_kind (k : wkind) : bool := match k with WConfig => true | _ => false end.
Definition is_escape_kind (k : wkind) : bool := match k with WEscape | WHelperInplace => true | _ => false end.
Definition row_fields (r : oprow) : list field :=
  flat_map (fun w => if is_config_kind (pw_kind w) then [] else pw_fields w) (o_writes r).
Fixpoint fdedup (l : list field) : list field :=
  match l with [] => [] | f :: l' => if fmem f l' then fdedup l' else f :: fdedup l' end.
Definition rows_of (ks : list rowkey) (operand : bool) : list oprow :=
  flat_map (fun k => if Bool.eqb (is_operand k) operand then match find_row k with Some r => [r] | None => [] end else []) ks.

(* the signature computed from the generated rows (category taken from the hand table) *)
Definition gen_sig (w : world) (o : opname) : option sig :=
  match op_rows w o with
  | [] => None
  | ks => if forallb (fun k => match find_row k with Some _ => true | None => false end) ks
          then Some (mkSig (s_cat (sig_of w o))
                           (fdedup (flat_map row_fields (rows_of ks true)))
                           (fdedup (flat_map row_fields (rows_of ks false)))
                           (fdedup (flat_map o_share (rows_of ks true))))
          else None
  end.

(* the rows of an operation are admissible: every row exists; an operand is written only by configuration stores
   and declared denotation-preserving rewrites (gauge, fold); a result-producing operation never returns its
   operand; nothing the scanner did not understand *)
Definition gen_ok (w : world) (o : opname) : bool :=
  let ks := op_rows w o in
  negb (is_nil ks) &&
  forallb (fun k => match find_row k with
                    | None => false
                    | Some r => if is_operand k
                                then forallb (fun x => benign_kind (pw_kind x)) (o_writes r) &&
                                     (negb (is_derive (s_cat (sig_of w o))) || negb (o_ret_is_param r))
                                else forallb (fun x => negb (is_escape_kind (pw_kind x))) (o_writes r)
                    end) ks.

Definition fset_eqb (a b : list field) : bool := fsubset a b && fsubset b a.
Definition sig_agree (g h : sig) : bool :=
  fset_eqb (s_rewrite g) (s_rewrite h) && fset_eqb (s_write g) (s_write h) && fset_eqb (s_share g) (s_share h).
Definition tables_agree (w : world) (o : opname) : bool :=
  match gen_sig w o with Some g => sig_agree g (sig_of w o) | None => false end.

(* the signature the observations are checked against and that "obeys its signature" refers to: the GENERATED one
   where rows exist, intersected field-wise with the hand table.  By [sig_tables_agree] the two coincide on the
   unchanged tree, so this IS the generated signature there; when a source edit makes the generated rows declare
   more (e.g. a new sharing), the cross-check fails as an obligation and the observation stays as sharp as before. *)
Definition finter (a b : list field) : list field := filter (fun f => fmem f b) a.
Definition gsig_of (w : world) (o : opname) : sig :=
  match gen_sig w o with
  | Some g => let h := sig_of w o in
              mkSig (s_cat h) (finter (s_rewrite g) (s_rewrite h)) (finter (s_write g) (s_write h)) (finter (s_share g) (s_share h))
  | None => sig_of w o
  end.

(* ------------------------------------------------------------------ in-place updates never hit a shareable field
   The frame theorem needs "declared-shared buffers are never written" ([sp_shared_kept]).  At the level of the
   generated rows: a field whose EXISTING container some in-place method updates (`x.f op= e`, in-place ufunc;
   [o_inplace] of its Target rows) must not be a field that any operation of the same world hands on to its result
   (declared sharing).  E.g. trees share the prefactor object (0-d ndarray after load): `tn.coeff /= ...` in
   normalize would write through it; rebinding `tn.coeff = new_coeff` does not. *)
Definition all_opnames : list opname :=
  [New; Copy; MetacopyFill; ToComplex; Conj; ConjTrans; Scale; Add; Distance; Apply; Contract; CompressCopy; CanoCopy;
   Expectation; Expectations; Rdm; Entropy; Norm; Dense; Evolve PC; Evolve PCrk4; Evolve PCrk; Evolve TdvpMuVmf;
   Evolve TdvpVmf; Evolve TdvpMuCmf; Evolve TdvpPs; Evolve TdvpPs2; EvolveDispatch; EvolveExact; FromMps; CompressedSum;
   Expand; Reload; ScaleIn; ToComplexIn; CanonicaliseIn; CompressIn; NormalizeIn; SetItem; SetCoeff; PokeSites; Optimize].
Definition shared_fields (w : world) : list field := fdedup (flat_map (fun o => s_share (gsig_of w o)) all_opnames).
Definition inplace_fields (w : world) : list field :=
  fdedup (flat_map (fun o => flat_map o_inplace (rows_of (op_rows w o) false)) all_opnames).
Definition inplace_ok (w : world) : bool := forallb (fun f => negb (fmem f (shared_fields w))) (inplace_fields w).

(* ------------------------------------------------------------------ observed effects vs signatures *)
Record obs := mkObs {
  ob_world : world; ob_op : opname;
  ob_arg_rw : list field;        (* fields of non-target operands whose slots were rebound or buffers modified *)
  ob_tgt_w : list field;         (* fields of the in-place target that were written *)
  ob_share : list field;         (* fields in which a result buffer shares memory with the same field of an operand *)
  ob_cross : bool;               (* a result buffer shares memory with another field / a non-operand, or the result is an input *)
  ob_bystander : bool;           (* a live object that is not an operand was written *)
  ob_value_changed : bool        (* tensors x prefactor of an object other than the in-place target changed *)
}.
Definition is_mutate (c : cat) : bool := match c with Mutate => true | _ => false end.
Definition within_sig (o : obs) : bool :=
  let sg := gsig_of (ob_world o) (ob_op o) in
  fsubset (ob_arg_rw o) (s_rewrite sg) &&
  fsubset (ob_tgt_w o) (if is_mutate (s_cat sg) then s_write sg else []) &&
  fsubset (ob_share o) (s_share sg) &&
  negb (ob_cross o) && negb (ob_bystander o) && negb (ob_value_changed o).
