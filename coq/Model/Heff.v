(* C08 -- the local (effective) eigenproblem of the chain DMRG sweep.   No proofs here (Proofs/HeffProofs.v).

   Sources: renormalizer/mps/gs.py  get_ham_direct ("abc,bdef,lfk->adlcek", then [mask][:,mask]),
            renormalizer/mps/hop_expr.py  hop_expr, one site, no ancilla ("abc, bdef, lfk, cek -> adl"),
            renormalizer/mps/lib.py  cvec2cmat (np.place of the coefficient vector into the masked entries).
   Environments are those of Model/Env.v (C07): L = envL3 of the sandwich conj(state)|operator|state of the
   sites before the centre, R = envR3 of the sites after it; index order (bra bond, operator bond, ket bond).
   An einsum is the sum over all repeated indices; the nesting order chosen below is an evaluation order.

   A block of sites is a ket chain in the format of C07 (physical dim, right bond dim, tensor) together with
   an operator chain (right bond dim, tensor) of the same length.                                            *)
From Coq Require Import List Arith Bool.
Import ListNotations.
From RV Require Import Base.CRing Base.BigSum Model.Chain Model.Env.

Section Heff.
Variable R : CRing.
Notation "0" := (r0 R).
Infix "+" := (radd R).
Infix "*" := (rmul R).
Notation cj := (rcj R).

Notation ksite := (nat * nat * T3 R)%type.
Notation osite := (nat * T4 R)%type.

(* sandwich  conj(state) | operator | state  of a block *)
Definition hsite (x : ksite * osite) : site3 R :=
  let '((p, d, t), (b, o)) := x in mk3 p d b d (cj3 t) o t.
Definition hsand (ks : list ksite) (os : list osite) : list (site3 R) := map hsite (combine ks os).

(* the centre: physical dimension p, right bond dr, operator tensor W with right bond bo; in the sandwich the
   bra tensor is conj(X) and the ket tensor Y *)
Definition csite (p dr bo : nat) (W : T4 R) (X Y : T3 R) : site3 R := mk3 p dr bo dr (cj3 X) W Y.

(* inner product of centre tensors of shape (da, p, dr) *)
Definition ipW3 (da p dr : nat) (X Y : T3 R) : R :=
  sumn dr (fun f => sumn da (fun a => sumn p (fun d => cj (X a d f) * Y a d f))).

(* hop_expr, one site:  (H_eff C)[a,d,f] = sum_{b,c,e,g,h} L[a,b,c] W[b,d,e,g] R[f,g,h] C[c,e,h] *)
Definition heff1_apply (da db p dr bo : nat) (L Rt : E3 R) (W : T4 R) (C : T3 R) : T3 R :=
  fun a d f => sumn bo (fun g => sumn dr (fun h => sumn da (fun c => sumn db (fun b => sumn p (fun e =>
    L a b c * W b d e g * C c e h * Rt f g h))))).

(* get_ham_direct, one site: the matrix  ham[(a,d,f),(c,e,h)]  and its action on a tensor *)
Definition heff1_mat (db bo : nat) (L Rt : E3 R) (W : T4 R) (a d f c e h : nat) : R :=
  sumn db (fun b => sumn bo (fun g => L a b c * W b d e g * Rt f g h)).
Definition matvec1 (da p dr : nat) (M : nat -> nat -> nat -> nat -> nat -> nat -> R) (C : T3 R) : T3 R :=
  fun a d f => sumn da (fun c => sumn p (fun e => sumn dr (fun h => M a d f c e h * C c e h))).

(* the quantum-number mask is a coordinate projection of the centre space: ham[mask][:,mask] acting on the
   coefficient vector c is  M H_eff M  acting on cvec2cmat(c) *)
Definition maskT (m : nat -> nat -> nat -> bool) (C : T3 R) : T3 R :=
  fun a d f => if m a d f then C a d f else 0.
Definition heff1_masked (m : nat -> nat -> nat -> bool) (da db p dr bo : nat) (L Rt : E3 R) (W : T4 R) (C : T3 R) : T3 R :=
  maskT m (heff1_apply da db p dr bo L Rt W (maskT m C)).

(* two sites: "abc,bdef,fghj,ljk->adglcehk" is the one-site operator of the chain in which the two centre
   sites are merged: physical index q = d1 * p2 + d2 (NumPy reshape), operator tensor  sum_f W1 W2 *)
Definition merge_op (p2 b1 : nat) (W1 W2 : T4 R) : T4 R :=
  fun b q q' j => sumn b1 (fun f => W1 b (q / p2) (q' / p2) f * W2 f (q mod p2) (q' mod p2) j).
Definition merge_ket (p2 d1 : nat) (t1 t2 : T3 R) : T3 R :=
  fun l q r => sumn d1 (fun m => t1 l (q / p2) m * t2 m (q mod p2) r).
(* a two-site centre tensor C2[a,d1,d2,r] as a one-site tensor over the merged index *)
Definition merge_c2 (p2 : nat) (C2 : nat -> nat -> nat -> nat -> R) : T3 R :=
  fun a q r => C2 a (q / p2) (q mod p2) r.
(* hop_expr, two sites: "abc, bdef, fghj, ljk, cehk -> adgl" *)
Definition heff2_apply (da db p1 p2 dr b1 bo : nat) (L Rt : E3 R) (W1 W2 : T4 R)
           (C2 : nat -> nat -> nat -> nat -> R) : nat -> nat -> nat -> nat -> R :=
  fun a d g l => sumn bo (fun j => sumn dr (fun k => sumn da (fun c => sumn db (fun b =>
    sumn p1 (fun e => sumn p2 (fun h => sumn b1 (fun f =>
      L a b c * W1 b d e f * W2 f g h j * C2 c e h k * Rt l j k))))))).
Definition merge_cfg (p2 : nat) (s : list nat) (k : nat) : list nat :=
  firstn k s ++ match skipn k s with d1 :: d2 :: r => Nat.add (Nat.mul d1 p2) d2 :: r | r => r end.

(* omega targeting: optimize_mps(mps, mpo, omega) builds Environ(mps, [mpo', mpo']) with mpo' = H - omega and contracts
   two operator layers ("abcd, befg, cfhi, jgik -> aejdhk", "abcd, befg, cfhi, jgik, aej -> dhk" in hop_expr).  That is the
   one-layer contraction with the operator tensor of (H - omega)^2, whose bond is the pair (first layer, second layer):
   index bc = b * db + c.  L4/R4: two-layer environments (bra bond, layer 1, layer 2, ket bond). *)
Definition sq_op (db bo p : nat) (W : T4 R) : T4 R :=
  fun bc e h gi => sumn p (fun f => W (Nat.div bc db) e f (Nat.div gi bo) * W (Nat.modulo bc db) f h (Nat.modulo gi bo)).
Definition merge_env (d : nat) (E4 : T4 R) : E3 R := fun a bc k => E4 a (Nat.div bc d) (Nat.modulo bc d) k.
Definition heff_omega1 (da db p dr bo : nat) (L4 Rt4 : T4 R) (W : T4 R) (C : T3 R) : T3 R :=
  heff1_apply da (Nat.mul db db) p dr (Nat.mul bo bo) (merge_env db L4) (merge_env bo Rt4) (sq_op db bo p W) C.
Definition heff_omega2 (da db p1 p2 dr b1 bo : nat) (L4 Rt4 : T4 R) (W1 W2 : T4 R)
           (C2 : nat -> nat -> nat -> nat -> R) : nat -> nat -> nat -> nat -> R :=
  heff2_apply da (Nat.mul db db) p1 p2 dr (Nat.mul b1 b1) (Nat.mul bo bo) (merge_env db L4) (merge_env bo Rt4)
              (sq_op db b1 p1 W1) (sq_op b1 bo p2 W2) C2.

(* ---------------------------------------------------------------- the dense side *)
Definition vec := list nat -> R.
Definition ipV (ds : list nat) (x y : vec) : R := sumcfg ds (fun s => cj (x s) * y s).
Definition Hdense (ops : list osite) (ds : list nat) (y : vec) : vec :=
  fun s' => sumcfg ds (fun s => opamp ops s' s * y s).
(* ket chain (right bond dimension, tensor) and physical dimensions of a block *)
Definition kchain_of (ks : list ksite) : list (nat * T3 R) := map (fun x => (snd (fst x), snd x)) ks.
Definition kdims_of (ks : list ksite) : list nat := map (fun x => fst (fst x)) ks.
(* P : centre tensor -> dense vector of the chain  left ++ [centre] ++ right *)
Definition Pvec (left : list ksite) (dr : nat) (right : list ksite) (C : T3 R) : vec :=
  fun s => amp (kchain_of left ++ (dr, C) :: kchain_of right) s.
End Heff.

Arguments hsite {R}. Arguments hsand {R}. Arguments csite {R}. Arguments ipW3 {R}. Arguments heff1_apply {R}.
Arguments heff1_mat {R}. Arguments matvec1 {R}. Arguments maskT {R}. Arguments heff1_masked {R}.
Arguments sq_op {R}. Arguments merge_env {R}. Arguments heff_omega1 {R}. Arguments heff_omega2 {R}.
Arguments merge_op {R}. Arguments merge_ket {R}. Arguments merge_c2 {R}. Arguments heff2_apply {R}.
Arguments ipV {R}. Arguments Hdense {R}. Arguments kchain_of {R}. Arguments kdims_of {R}. Arguments Pvec {R}.
