(* C07 -- the cached-environment fast path of Mps.expectations, over ABSTRACT hash sequences.
   Source: renormalizer/mps/mps.py  _construct_freq_environ, _get_freq_environ, Mps.expectations.
   A site tensor of an operator is represented by its hash (a Z, what Matrix.__hash__ returns); an
   operator is the list of its site hashes.  Nothing here knows what an environment is: the type E of
   environments, the one-site contraction [step], the start value and the final dot product are
   parameters (instantiated with Model/Env.v in Props/C07.v).  No proofs here.                          *)
From Coq Require Import List Arith ZArith Bool.
Import ListNotations.

Definition key := list Z.

Fixpoint key_eqb (a b : key) : bool :=
  match a, b with
  | [], [] => true
  | x :: a', y :: b' => Z.eqb x y && key_eqb a' b'
  | _, _ => false
  end.

Inductive domain := DL | DR.

(* the hash list read in the direction of the domain:  L: as is;  R: reversed *)
Definition dir {A} (d : domain) (m : list A) : list A := match d with DL => m | DR => rev m end.

(* for i in range(1, len+1):  L: mpo_hash[:i]   R: reversed(mpo_hash[-i:])  ( = first i of the reversed list) *)
Definition seqs (d : domain) (m : key) : list key :=
  map (fun i => firstn i (dir d m)) (seq 1 (length m)).

(* collections.Counter is an insertion-ordered dict: update([k]) increments in place or appends *)
Fixpoint bump (k : key) (c : list (key * nat)) : list (key * nat) :=
  match c with
  | [] => [(k, 1)]
  | (k', n) :: r => if key_eqb k k' then (k', S n) :: r else (k', n) :: bump k r
  end.

Definition counter (d : domain) (ms : list key) : list (key * nat) :=
  fold_left (fun c k => bump k c) (flat_map (seqs d) ms) [].

(* most_common.sort(key=lambda x: (-x[1], len(x[0]))) : x <= y in that key order *)
Definition kle (x y : key * nat) : bool :=
  (snd y <? snd x) || ((snd x =? snd y) && (length (fst x) <=? length (fst y))).

(* list.sort is stable: an element stays in front of the later elements it compares equal to *)
Fixpoint insert (x : key * nat) (l : list (key * nat)) : list (key * nat) :=
  match l with
  | [] => [x]
  | y :: t => if kle x y then x :: y :: t else y :: insert x t
  end.
Definition sort (l : list (key * nat)) : list (key * nat) := fold_right insert [] l.

(* the selection loop with its two `break`s, in the order of the code:
     if n == 1: break
     if len(mps) < len(matrices_list): break
     hash_list.append(hashes)                                                          *)
Fixpoint plan_loop (nmps : nat) (srt : list (key * nat)) (have : nat) : list key :=
  match srt with
  | [] => []
  | (k, n) :: r =>
      if n =? 1 then []
      else if nmps <? have then []
      else k :: plan_loop nmps r (S have)
  end.

Definition plan (d : domain) (ms : list key) (nmps : nat) : list key :=
  plan_loop nmps (sort (counter d ms)) 0.

(* ---------------------------------------------------------------- the dictionary of environments *)
Section Dict.
Variable E : Type.

Fixpoint lookup (k : key) (res : list (key * E)) : option E :=
  match res with
  | [] => None
  | (k', v) :: r => if key_eqb k k' then Some v else lookup k r
  end.

(* site index of the LAST matrix of a key of length len:  L: len-1 ;  R: -len, i.e. nmps - len *)
Definition site_of (d : domain) (nmps len : nat) : nat :=
  match d with DL => len - 1 | DR => nmps - len end.

(* [stepc d i h env] : contract_one_site(env, mps[i], hash_to_obj[h], d, mps_conj[i]) *)
Variable stepc : domain -> nat -> Z -> E -> E.
Variable init : E.                                   (* ones((1,1,1)) *)

(* for m_hashes in hash_list:  environ = result[m_hashes[:-1]]  -- None models the KeyError *)
Fixpoint build (d : domain) (nmps : nat) (pl : list key) (res : list (key * E)) : option (list (key * E)) :=
  match pl with
  | [] => Some res
  | k :: r =>
      match lookup (removelast k) res with
      | None => None
      | Some env => build d nmps r (res ++ [(k, stepc d (site_of d nmps (length k)) (last k 0%Z) env)])
      end
  end.

Definition construct (d : domain) (ms : list key) (nmps : nat) : option (list (key * E)) :=
  build d nmps (plan d ms nmps) [([], init)].

(* _get_freq_environ: the longest cached prefix (in the direction of the domain) not longer than max_length.
   max_length = None is numpy.inf.  Returns the key found.
       for mo in it:
           hashes.append(hash(mo))
           if (not tuple(hashes) in environ_dict) or (max_length < len(hashes)):
               hashes.pop(); break                                                       *)
Fixpoint walk (res : list (key * E)) (maxlen : option nat) (it : key) (hashes : key) : key :=
  match it with
  | [] => hashes
  | h :: t =>
      let hs := hashes ++ [h] in
      let absent := match lookup hs res with None => true | Some _ => false end in
      let toolong := match maxlen with None => false | Some m => m <? length hs end in
      if absent || toolong then hashes else walk res maxlen t hs
  end.

Definition get_key (res : list (key * E)) (d : domain) (m : key) (maxlen : option nat) : key :=
  walk res maxlen (dir d m) [].

(* the returned index:  L: len(hashes) - 1  (may be -1) ;  R: len(mpo) - len(hashes) *)
Definition get_idx (d : domain) (n : nat) (k : key) : Z :=
  match d with DL => Z.of_nat (length k) - 1 | DR => Z.of_nat n - Z.of_nat (length k) end%Z.

End Dict.

(* ------------------------------------------------------------------- Mps.expectations (opt=True) *)
Section Fast.
Variables E Ob V : Type.
(* an operator is a list of (hash of the site matrix, the site matrix) *)
Definition hop := list (Z * Ob).
Definition hashes_of (m : hop) : key := map fst m.

(* hash_to_obj: the first object seen with each hash, in the order the operators are scanned *)
Fixpoint first_obj (h : Z) (tbl : list (Z * Ob)) : option Ob :=
  match tbl with
  | [] => None
  | (h', o) :: r => if Z.eqb h h' then Some o else first_obj h r
  end.
Definition hash_to_obj (ms : list hop) : list (Z * Ob) := concat ms.   (* lookups take the first hit *)

(* [stepo d i o env] : contract_one_site(env, mps[i], o, d, mps_conj[i]) *)
Variable stepo : domain -> nat -> Ob -> E -> E.
Variable init : E.
Variable dflt : Ob.                          (* what a failed dictionary lookup would give; never used *)
Variable dot : E -> E -> V.                 (* l_environ.flatten() @ r_environ.flatten() *)

Definition stepc_of (ms : list hop) (d : domain) (i : nat) (h : Z) (env : E) : E :=
  stepo d i (match first_obj h (hash_to_obj ms) with Some o => o | None => dflt end) env.

Definition env_or_init (res : list (key * E)) (k : key) : E :=
  match lookup E k res with Some e => e | None => init end.

(* for i in range(l_idx+1, r_idx): l_environ = contract_one_site(l_environ, self[i], mpo[i], "L", self_conj[i]) *)
Fixpoint middle (i cnt : nat) (m : list Ob) (env : E) : E :=
  match cnt with
  | 0 => env
  | S c => middle (S i) c m (stepo DL i (nth i m dflt) env)
  end.

Definition fast_one (lres rres : list (key * E)) (m : hop) : V :=
  let n := length m in
  let hs := hashes_of m in
  let lk := get_key E lres DL hs None in
  let l_idx := get_idx DL n lk in
  let rk := get_key E rres DR hs (Some (Z.to_nat (Z.of_nat n - l_idx - 1))) in
  let r_idx := get_idx DR n rk in
  let lo := Z.to_nat (l_idx + 1) in
  let cnt := Z.to_nat (r_idx - (l_idx + 1)) in
  dot (middle lo cnt (map snd m) (env_or_init lres lk)) (env_or_init rres rk).

Definition expectations_fast (nmps : nat) (ms : list hop) : option (list V) :=
  match construct E (stepc_of ms) init DL (map hashes_of ms) nmps,
        construct E (stepc_of ms) init DR (map hashes_of ms) nmps with
  | Some lres, Some rres => Some (map (fast_one lres rres) ms)
  | _, _ => None
  end.

(* reference: all sites contracted from the left up to a cut k, the rest from the right *)
Fixpoint foldL (i : nat) (m : list Ob) (env : E) : E :=
  match m with [] => env | o :: r => foldL (S i) r (stepo DL i o env) end.
(* sites i .. i+len-1 contracted from the right end *)
Fixpoint foldR (i : nat) (m : list Ob) (env : E) : E :=
  match m with [] => env | o :: r => stepo DR i o (foldR (S i) r env) end.

Definition split_value (k : nat) (m : list Ob) : V :=
  dot (foldL 0 (firstn k m) init) (foldR k (skipn k m) init).

End Fast.

(* ------------------------------------------------------------------- symbolic observables and the caller's list *)
(* Mps.expectations first converts every Op / OpSum entry with Mpo(self.model, op) into a FRESH list (`new_mpos`);
   ready Mpo entries are taken as they are.  The caller's list is an input only.  To make "is not written" statable
   the call returns the caller's list as a second component (what the caller holds after the call). *)
Section SymList.
Variables E Ob V Sym Mdl St : Type.
Variable build : Mdl -> Sym -> hop Ob.                       (* Mpo(self.model, op) *)
Variable stepo : St -> domain -> nat -> Ob -> E -> E.         (* contract_one_site with the tensors of the state *)
Variable init : E.
Variable dflt : Ob.
Variable dot : E -> E -> V.

Definition entry := (Sym + hop Ob)%type.
Definition convert (mdl : Mdl) (x : entry) : hop Ob := match x with inl s => build mdl s | inr m => m end.

Definition expectations_call (mdl : Mdl) (st : St) (nmps : nat) (lst : list entry) : option (list V) * list entry :=
  (expectations_fast E Ob V (stepo st) init dflt dot nmps (map (convert mdl) lst), lst).

(* the same list object used for a state of model A and then for a state of model B *)
Definition two_calls (mA : Mdl) (sA : St) (nA : nat) (mB : Mdl) (sB : St) (nB : nat) (lst : list entry)
  : option (list V) * option (list V) * list entry :=
  let '(vA, l1) := expectations_call mA sA nA lst in
  let '(vB, l2) := expectations_call mB sB nB l1 in
  (vA, vB, l2).
End SymList.
