(* Bond-dimension abstract interpreter for the propagate-and-compress schemes and the two-site sweep (C09, clause
   "no scheme lets bond dimensions exceed the configured limit").  No proofs here.

   A state is abstracted to the list of its INTERIOR bond dimensions (position k = bond k+1 of `bond_dims`, the bond
   between sites k and k+1).  Operations of renormalizer/mps:
     add            d1 + d2                 (MatrixProduct.add: block-diagonal tensors)
     apply          d_op * d_state          (Mpo.apply)
     scale          unchanged
     canonicalise   never larger            (QR with full_matrices=False keeps <= min(rows, cols) columns)
     compress       bond b is cut once; the kept count is  CompressConfig.compute_m_trunc(sigma, idx, left)  -- the GENERATED
                    rule of Gen/Trunc.v (tx/trunc.py) -- for a spectrum sigma with at most d_b entries
   Schemes as expressions over these operations (hand models of mps.py / lib.py, tied by comparing bond_dims):
     contract = compress . canonicalise . apply          (Mpo.contract, algo="svd")
     compressed_sum: the deque regrouping of Model/Prop.csum_fuel with  _sum = compress . canonicalise . add ... add
     Taylor, tdrk4, general RK as in Model/Prop.v.                                                                      *)
From Coq Require Import QArith ZArith List Arith Bool.
Import ListNotations.
From RV Require Import Gen.RkTableaux Model.Trunc Gen.Trunc Model.PsSweep.
Close Scope Q_scope.
Local Open Scope Z_scope.

Inductive dexp := DIn | DAdd (a b : dexp) | DApply (a : dexp) | DScale (a : dexp) | DCano (a : dexp) | DCompress (a : dexp).

Fixpoint zipw (f : Z -> Z -> Z) (a b : list Z) : list Z :=
  match a, b with x :: a', y :: b' => f x y :: zipw f a' b' | _, _ => [] end.

(* upper bound of every interior bond of the value of an expression: din = bonds of the input state, dop = bonds of the
   operator, M = configured limits (max_dims[1..n-1]) *)
Fixpoint dbound (din dop M : list Z) (e : dexp) : list Z :=
  match e with
  | DIn => din
  | DAdd a b => zipw Z.add (dbound din dop M a) (dbound din dop M b)
  | DApply a => zipw Z.mul dop (dbound din dop M a)
  | DScale a => dbound din dop M a
  | DCano a => dbound din dop M a
  | DCompress a => zipw Z.min (dbound din dop M a) M
  end.

(* compress: position k (bond k+1) is cut with some non-empty spectrum of at most da_k values; the rule decides the kept count *)
Inductive cut_ok (cfg : config) : nat -> list Z -> list Z -> Prop :=
| CutNil k : cut_ok cfg k [] []
| CutCons k x da y d sigma idx left :
    cut_bond idx left = Z.of_nat (S k) -> sigma <> [] -> py_len sigma <= x ->
    y = compute_m_trunc cfg sigma idx left -> cut_ok cfg (S k) da d -> cut_ok cfg k (x :: da) (y :: d).

(* what the implementation may actually produce *)
Inductive dsem (cfg : config) (din dop : list Z) : dexp -> list Z -> Prop :=
| SIn : dsem cfg din dop DIn din
| SAdd a b da db d : dsem cfg din dop a da -> dsem cfg din dop b db -> Forall2 Z.le d (zipw Z.add da db) ->
    dsem cfg din dop (DAdd a b) d
| SApply a da d : dsem cfg din dop a da -> Forall2 Z.le d (zipw Z.mul dop da) -> dsem cfg din dop (DApply a) d
| SScale a da : dsem cfg din dop a da -> dsem cfg din dop (DScale a) da
| SCano a da d : dsem cfg din dop a da -> Forall2 Z.le d da -> dsem cfg din dop (DCano a) d
| SCompress a da d : dsem cfg din dop a da -> cut_ok cfg 0 da d -> dsem cfg din dop (DCompress a) d.

(* the limits of the interior bonds *)
Definition limits (cfg : config) (n : nat) : list Z := map (fun k => py_index (cfg_max_dims cfg) (Z.of_nat (S k))) (seq 0 n).

Definition is_compress (e : dexp) : bool := match e with DCompress _ => true | _ => false end.

(* ---- the schemes ---- *)
Definition contract (e : dexp) : dexp := DCompress (DCano (DApply e)).
Definition dsum1 (h : dexp) (t : list dexp) : dexp := DCompress (DCano (fold_left DAdd t h)).     (* lib._sum *)

Fixpoint dcsum_fuel (fuel b : nat) (q : list dexp) : option dexp :=
  match fuel with
  | O => None
  | S f =>
    match q with
    | [] => None
    | [x] => Some x
    | _ => let n := Nat.min b (length q) in
           match firstn n q with
           | [] => None
           | h :: t => dcsum_fuel f b (skipn n q ++ [dsum1 h t])
           end
    end
  end.
(* compressed_sum: a single element is copied, canonicalised and compressed *)
Definition dcsum (b : nat) (q : list dexp) : option dexp :=
  match q with [x] => Some (DCompress (DCano x)) | _ => dcsum_fuel (length q) b q end.
Definition dcsumT (b : nat) (q : list dexp) : dexp := match dcsum b q with Some e => e | None => DIn end.

Fixpoint dtermlist (n : nat) (last : dexp) : list dexp :=
  match n with O => [] | S m => let nx := contract last in nx :: dtermlist m nx end.
Definition taylor_dexp (N : nat) : dexp := dcsumT 5 (map DScale (DIn :: dtermlist N DIn)).

Definition tdrk4_dexp : dexp :=
  let k1 := DScale (contract DIn) in
  let tmp1 := DCompress (DCano (DAdd DIn (DScale k1))) in
  let k2 := DScale (contract tmp1) in
  let tmp2 := DCompress (DCano (DAdd DIn (DScale k2))) in
  let k3 := DScale (contract tmp2) in
  let tmp3 := DCompress (DCano (DAdd DIn (DScale k3))) in
  let k4 := DScale (contract tmp3) in
  dcsumT 5 [DIn; DScale k1; DScale k2; DScale k3; DScale k4].

Definition rk_dterms (coef : list Q) (ks : list dexp) : list dexp :=
  flat_map (fun p => if Qeq_bool (fst p) 0 then [] else [DScale (snd p)]) (combine coef ks).
Fixpoint rk_dstages (arows : list (list Q)) (ks : list dexp) : list dexp :=
  match arows with
  | [] => ks
  | ai :: rest => rk_dstages rest (ks ++ [DScale (contract (dcsumT 6 (DIn :: rk_dterms ai ks)))])
  end.
Definition rk_dexp (t : tableau) : dexp := dcsumT 6 (DIn :: rk_dterms (nth 0 (t_b t) []) (rk_dstages (t_a t) [])).

(* ---- two-site sweep: dimension of bond b (between sites b and b+1) as a function; Fwd2 l re-truncates bond l with the
   rule (kept count given by an arbitrary function [kept] that obeys the limit, see the proofs), Bwd1 is followed by
   _push_cano (QR: the bond towards the next pair does not grow; [qr] <= its argument) *)
Definition ps2_dims_step (kept : nat -> Z) (qr : nat -> Z -> Z) (d : nat -> Z) (e : psev) : nat -> Z :=
  match e with
  | Fwd2 l _ => fun b => if Nat.eqb b l then kept l else d b
  | Bwd1 j _ => fun b => qr b (d b)
  | _ => d
  end.
Definition ps2_dims_run (kept : nat -> Z) (qr : nat -> Z -> Z) (tr : list psev) (d : nat -> Z) : nat -> Z :=
  fold_left (ps2_dims_step kept qr) tr d.
