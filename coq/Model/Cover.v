(* Model of renormalizer/lib/bipartite_matching/bipartite_matching.py (no proofs in this file).

   A bipartite graph is the adjacency list the code receives:  [bg : list (list nat)],
   index = vertex of U, value = neighbours in V.   [matchV] is the table the code calls
   matchV / match:  index = vertex of V, value = [Some u] (matched to u) or [None].

     augment / hungarian     = augment / max_bipartite_matching2   (the "Hungarian" path)
     scan / konig            = the body of new_konig (worklist closure from the unmatched U vertices)
     cover_from_matching     = what bipartite_vertex_cover returns, as two sorted vertex lists,
                               [None] exactly when one of new_konig's two [assert]s would fire
                               (or, never for admissible inputs -- see CoverProofs -- the fuel ends)
     hk_nU / nV_of           = the shape of the csr_matrix built on the "Hopcroft-Karp" path
     has_edge                = the early return of that path for a graph without edges
     select_rows_cols        = the orientation choice of symbolic_mpo._decompose_graph

   [set.pop()] in new_konig returns an arbitrary element.  The model takes the schedule as a
   parameter [rot : nat -> list nat -> list nat] (step number, current wait set |-> the same set
   with the element to pop first); all theorems hold for every [rot] that returns a permutation. *)
From Coq Require Import List Arith Bool Permutation.
Import ListNotations.

Definition memn (a : nat) (l : list nat) : bool := existsb (Nat.eqb a) l.

Definition graph := list (list nat).
Definition nbrs (bg : graph) (u : nat) : list nat := nth u bg [].

Definition mtab := list (option nat).
Definition mget (m : mtab) (v : nat) : option nat := nth v m None.
Fixpoint upd (m : mtab) (v : nat) (x : option nat) : mtab :=
  match m, v with
  | [], _ => []
  | _ :: t, O => x :: t
  | h :: t, S v' => h :: upd t v' x
  end.
Definition is_some (o : option nat) : bool := match o with Some _ => true | None => false end.

(* nV = max(max(adjlist, default=-1) for adjlist in bigraph) + 1 *)
Definition adj_bound (adj : list nat) : nat := fold_right (fun v a => Nat.max (S v) a) 0 adj.
Definition nV_of (bg : graph) : nat := fold_right (fun adj a => Nat.max (adj_bound adj) a) 0 bg.
(* number of rows of csr_matrix((data, (rows, cols))) = 1 + largest u that has an edge *)
Fixpoint hk_nU (bg : graph) : nat :=
  match bg with
  | [] => 0
  | adj :: t => match hk_nU t with
                | 0 => match adj with [] => 0 | _ => 1 end
                | S k => S (S k)
                end
  end.

(* ------------------------------------------------------------------ augmenting paths *)
Section Augment.
Variable g : nat -> list nat.

(*  for v in bigraph[u]:
        if not visit[v]:
            visit[v] = True
            if match[v] is None or augment(match[v], bigraph, visit, match):
                match[v] = u ; return True
    return False                                                                    *)
Fixpoint aug_loop (rec : nat -> list nat -> mtab -> option (bool * list nat * mtab))
                  (u : nat) (vs : list nat) (vis : list nat) (m : mtab)
  : option (bool * list nat * mtab) :=
  match vs with
  | [] => Some (false, vis, m)
  | v :: vs' =>
      if memn v vis then aug_loop rec u vs' vis m
      else match mget m v with
           | None => Some (true, v :: vis, upd m v (Some u))
           | Some u2 =>
               match rec u2 (v :: vis) m with
               | None => None
               | Some (b, vis2, m2) =>
                   if b then Some (true, vis2, upd m2 v (Some u))
                   else aug_loop rec u vs' vis2 m2
               end
           end
  end.

(* [fuel] bounds the recursion depth; [None] = fuel exhausted (never with fuel > nV, proved) *)
Fixpoint augment (fuel : nat) (u : nat) (vis : list nat) (m : mtab)
  : option (bool * list nat * mtab) :=
  match fuel with
  | O => None
  | S f => aug_loop (augment f) u (g u) vis m
  end.

(* for u in range(nU): augment(u, bigraph, [False] * nV, match) *)
Fixpoint hung_loop (nV : nat) (us : list nat) (m : mtab) : option mtab :=
  match us with
  | [] => Some m
  | u :: us' => match augment (S nV) u [] m with
                | None => None
                | Some (_, _, m') => hung_loop nV us' m'
                end
  end.
End Augment.

Definition hungarian (bg : graph) : option mtab :=
  hung_loop (nbrs bg) (nV_of bg) (seq 0 (length bg)) (repeat None (nV_of bg)).

(* ------------------------------------------------------------------ new_konig *)
Section Konig.
Variable g : nat -> list nat.
Variable m : nat -> option nat.
Variable rot : nat -> list nat -> list nat.

(*  for v in bigraph[u]:
        if not visitV[v]:
            visitV[v] = True
            assert matchV[v] is not None
            assert matchV[v] not in wait_u
            wait_u.add(matchV[v])                                                    *)
Fixpoint scan (vs : list nat) (visV wait : list nat) : option (list nat * list nat) :=
  match vs with
  | [] => Some (visV, wait)
  | v :: vs' =>
      if memn v visV then scan vs' visV wait
      else match m v with
           | None => None
           | Some u' => if memn u' wait then None else scan vs' (v :: visV) (u' :: wait)
           end
  end.

(*  while len(wait_u) > 0:  u = wait_u.pop(); visitU[u] = True; <scan>              *)
Fixpoint konig (fuel : nat) (visU visV wait : list nat) : option (list nat * list nat) :=
  match fuel with
  | O => None
  | S f => match rot f wait with
           | [] => Some (visU, visV)
           | u :: w => match scan (g u) visV w with
                       | None => None
                       | Some (visV', w') => konig f (u :: visU) visV' w'
                       end
           end
  end.
End Konig.

(* wait_u = set(range(nU)) - set(matchV) *)
Definition is_free (nV : nat) (m : nat -> option nat) (u : nat) : bool :=
  negb (existsb (fun v => match m v with Some u' => Nat.eqb u' u | None => false end) (seq 0 nV)).
Definition free_list (nU nV : nat) (m : nat -> option nat) : list nat :=
  filter (is_free nV m) (seq 0 nU).

(* vertex SETS described by the two boolean tables ([not b for b in visitU], visitV) *)
Definition cover_u (nU : nat) (visU : list nat) : list nat :=
  filter (fun u => negb (memn u visU)) (seq 0 nU).
Definition cover_v (nV : nat) (visV : list nat) : list nat :=
  filter (fun v => memn v visV) (seq 0 nV).

Definition cover_from_matching (rot : nat -> list nat -> list nat) (bg : graph) (nU nV : nat) (ml : mtab)
  : option (list nat * list nat) :=
  match konig (nbrs bg) (mget ml) rot (S (nU + nV)) [] [] (free_list nU nV (mget ml)) with
  | None => None
  | Some (rU, rV) => Some (cover_u nU rU, cover_v nV rV)
  end.

Definition no_rot : nat -> list nat -> list nat := fun _ l => l.

(* bipartite_vertex_cover(bigraph, "Hungarian") *)
Definition vertex_cover_hungarian (rot : nat -> list nat -> list nat) (bg : graph) : option (list nat * list nat) :=
  match hungarian bg with
  | None => None
  | Some ml => cover_from_matching rot bg (length bg) (nV_of bg) ml
  end.
(* bipartite_vertex_cover(bigraph, "Hopcroft-Karp") with SciPy's matching [ml] as a witness.
     coord = [(irow,icol) for irow,cols in enumerate(bigraph) for icol in cols]
     if len(coord) == 0: return [False] * len(bigraph), []          (no SciPy call, no Koenig run)   *)
Definition has_edge (bg : graph) : bool :=
  existsb (fun adj => match adj with [] => false | _ :: _ => true end) bg.
Definition vertex_cover_hk (rot : nat -> list nat -> list nat) (bg : graph) (ml : mtab) : option (list nat * list nat) :=
  if has_edge bg then cover_from_matching rot bg (hk_nU bg) (nV_of bg) ml else Some ([], []).
(* lengths of the two boolean tables returned on that path *)
Definition hk_table_lengths (bg : graph) : nat * nat :=
  if has_edge bg then (hk_nU bg, nV_of bg) else (length bg, 0).

(* size of a matching table; validity of a witness (boolean, reflected in CoverProofs) *)
Definition matched_v (nV : nat) (m : nat -> option nat) : list nat :=
  filter (fun v => is_some (m v)) (seq 0 nV).
Definition msize (nV : nat) (ml : mtab) : nat := length (matched_v nV (mget ml)).

Definition valid_matching (bg : graph) (nV : nat) (ml : mtab) : bool :=
  Nat.eqb (length ml) nV &&
  forallb (fun v => match mget ml v with
                    | None => true
                    | Some u => memn v (nbrs bg u) &&
                                forallb (fun v' => match mget ml v' with
                                                   | Some u' => negb (Nat.eqb u u') || Nat.eqb v v'
                                                   | None => true end) (seq 0 nV)
                    end) (seq 0 nV).

(* propositional notions used in the statements *)
Definition is_cover (bg : graph) (cu cv : list nat) : Prop :=
  forall u v, In v (nbrs bg u) -> In u cu \/ In v cv.
Definition is_matching (bg : graph) (nV : nat) (ml : mtab) : Prop :=
  length ml = nV /\
  (forall v u, mget ml v = Some u -> In v (nbrs bg u)) /\
  (forall v v' u, mget ml v = Some u -> mget ml v' = Some u -> v = v').
Definition is_rot (rot : nat -> list nat -> list nat) : Prop :=
  forall k l, Permutation (rot k l) l.

Definition minimum_cover (bg : graph) (cu cv : list nat) : Prop :=
  is_cover bg cu cv /\ NoDup cu /\ NoDup cv /\
  forall cu' cv', NoDup cu' -> NoDup cv' -> is_cover bg cu' cv' -> length cu + length cv <= length cu' + length cv'.
Definition maximum_matching (bg : graph) (nV : nat) (ml : mtab) : Prop :=
  is_matching bg nV ml /\ forall nV' ml', is_matching bg nV' ml' -> msize nV' ml' <= msize nV ml.

(* brute-force minimum cover size (used only in Examples / exhaustive model-level statements):
   choose a subset of U, all V neighbours of the unchosen U vertices are forced *)
Fixpoint subsets (l : list nat) : list (list nat) :=
  match l with [] => [[]] | a :: t => let s := subsets t in s ++ map (cons a) s end.
Definition forced_v (bg : graph) (nV : nat) (cu : list nat) : list nat :=
  filter (fun v => existsb (fun u => negb (memn u cu) && memn v (nbrs bg u)) (seq 0 (length bg))) (seq 0 nV).
Definition brute_min_cover (bg : graph) : nat :=
  fold_right Nat.min (length bg)
    (map (fun cu => length cu + length (forced_v bg (nV_of bg) cu)) (subsets (seq 0 (length bg)))).

(* all graphs with nU rows over V = {0..nV-1}  (each row any subset of V) *)
Fixpoint all_graphs (nU nV : nat) : list graph :=
  match nU with
  | O => [[]]
  | S k => flat_map (fun row => map (cons row) (all_graphs k nV)) (subsets (seq 0 nV))
  end.

(* a scipy CSR/CSC matrix: the python slice  indices[indptr[i]:indptr[i + 1]]  = the column (row) labels of the
   entries of row (column) i.  Gen/CoverAdj.v (generated from _decompose_graph) builds `bigraph` from it. *)
Definition sparse_slice (indices indptr : list nat) (i : nat) : list nat :=
  firstn (nth (S i) indptr 0 - nth i indptr 0) (skipn (nth i indptr 0) indices).

(* ------------------------------------------------------------------ _decompose_graph orientation
   [inc] = adjacency of the incidence matrix non_red by rows; nrow = len(inc), ncol its column count.
     if nrow < ncol:  rowbool, colbool = cover(rows as U)
     else:            colbool, rowbool = cover(columns as U)                                        *)
Definition transpose (inc : graph) (ncol : nat) : graph :=
  map (fun c => filter (fun r => memn c (nbrs inc r)) (seq 0 (length inc))) (seq 0 ncol).
Definition select_rows_cols (cover : graph -> option (list nat * list nat)) (inc : graph) (ncol : nat)
  : option (list nat * list nat) :=
  if Nat.ltb (length inc) ncol then cover inc
  else match cover (transpose inc ncol) with
       | None => None
       | Some (cs, rs) => Some (rs, cs)
       end.
