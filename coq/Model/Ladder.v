(* C16 -- truncated harmonic oscillator in the RATIONAL SIMILARITY PICTURE (no proofs in this file).

   With D = diag(sqrt(n!)) the conjugated ladder operators  b~ = D^-1 b D,  b~+ = D^-1 b+ D  are rational:
        b~ [n-1, n] = n          b~+ [n+1, n] = 1
   Conjugation by a fixed invertible diagonal matrix commutes with truncation to the first N levels and
   preserves sums, scalar multiples and products, hence every identity between polynomial expressions in
   b, b+ can be stated and proved exactly over Q.  The physical entry is recovered as
        M[m,n] = M~[m,n] * sqrt(m!/n!).
   Matrices are functions nat -> nat -> Q ("infinite matrices"); [trunc N] restricts to N levels; the matrix
   product is the finite sum [mmul K] over the first K levels.  For banded matrices of bandwidth <= 1 the sum
   over K >= N+1 levels is the product of the UNTRUNCATED operators restricted to N levels, the sum over
   K = N levels is the product of the truncated ones.

   Irrational scalars are kept apart:  scal = q * sqrt(omega)^sw * sqrt(2)^s2 * i^si.                       *)
From Coq Require Import QArith ZArith List String Bool Arith.
Import ListNotations.
Local Open Scope Q_scope.

Definition mat := nat -> nat -> Q.

Inductive mono := Mb | Mbd | Mbb | Mbdbd | Mbdb | Mbbd | MI.
Definition monos := [Mb; Mbd; Mbb; Mbdbd; Mbdb; Mbbd; MI].

Definition mono_eqb (a b : mono) : bool :=
  match a, b with
  | Mb, Mb | Mbd, Mbd | Mbb, Mbb | Mbdbd, Mbdbd | Mbdb, Mbdb | Mbbd, Mbbd | MI, MI => true
  | _, _ => false
  end.

Definition qn (n : nat) : Q := inject_Z (Z.of_nat n).

(* the seven monomials, untruncated, in the rational picture.
   Mbb = b b, Mbdbd = b+ b+, Mbdb = b+ b (number operator), Mbbd = b b+ *)
Definition mono_inf (mo : mono) : mat := fun m n =>
  match mo with
  | Mb    => if (m + 1 =? n)%nat then qn n else 0
  | Mbd   => if (m =? n + 1)%nat then 1 else 0
  | Mbb   => if (m + 2 =? n)%nat then qn n * qn (n - 1) else 0
  | Mbdbd => if (m =? n + 2)%nat then 1 else 0
  | Mbdb  => if (m =? n)%nat then qn n else 0
  | Mbbd  => if (m =? n)%nat then qn (n + 1) else 0
  | MI    => if (m =? n)%nat then 1 else 0
  end.

Definition trunc (N : nat) (A : mat) : mat := fun m n => if (m <? N)%nat && (n <? N)%nat then A m n else 0.

Fixpoint qsum (K : nat) (f : nat -> Q) : Q :=
  match K with O => 0 | S k => qsum k f + f k end.

(* sum over the first K levels *)
Definition mmul (K : nat) (A B : mat) : mat := fun m n => qsum K (fun k => A m k * B k n).

Definition madd (A B : mat) : mat := fun m n => A m n + B m n.
Definition msub (A B : mat) : mat := fun m n => A m n - B m n.
Definition mscale (c : Q) (A : mat) : mat := fun m n => c * A m n.
Definition mid : mat := mono_inf MI.

Fixpoint mpow (K : nat) (A : mat) (k : nat) : mat :=
  match k with O => mid | S j => mmul K (mpow K A j) A end.

(* a linear combination of monomials *)
Definition comb := list (Q * mono).
Fixpoint comb_inf (c : comb) : mat := fun m n =>
  match c with
  | [] => 0
  | (q, mo) :: r => q * mono_inf mo m n + comb_inf r m n
  end.

Fixpoint coef (c : comb) (mo : mono) : Q :=
  match c with
  | [] => 0
  | (q, mo') :: r => (if mono_eqb mo' mo then q else 0) + coef r mo
  end.

(* ---------------------------------------------------------------- scalars *)
Record scal := mk_scal { sq : Q; sw : Z; s2 : Z; si : Z }.
   (* sq * sqrt(omega)^sw * sqrt(2)^s2 * i^si *)

Definition sc_mul (a b : scal) : scal :=
  mk_scal (sq a * sq b) (sw a + sw b) (s2 a + s2 b) (si a + si b).

(* normal form:  sqrt(2)^s2 = 2^(s2 div 2) * sqrt(2)^(s2 mod 2),   i^si = (-1)^((si mod 4) div 2) * i^(si mod 2) *)
Definition sc_rat (s : scal) : Q :=
  sq s * Qpower 2 (s2 s / 2) * (if (2 <=? (si s) mod 4)%Z then -1 else 1).
Definition sc_key (s : scal) : Z * Z * Z := (sw s, (s2 s) mod 2, (si s) mod 2)%Z.

Definition key_eqb (a b : Z * Z * Z) : bool :=
  let '(a1, a2, a3) := a in let '(b1, b2, b3) := b in
  (a1 =? b1)%Z && (a2 =? b2)%Z && (a3 =? b3)%Z.

(* a concrete field containing sqrt 2 and i, used only to validate the normal form:  a + b sqrt2 + c i + d i sqrt2 *)
Definition k4 := (Q * Q * Q * Q)%type.
Definition k4_mul (x y : k4) : k4 :=
  let '(a, b, c, d) := x in let '(a', b', c', d') := y in
  (Qred (a * a' + 2 * b * b' - c * c' - 2 * d * d'),
   Qred (a * b' + b * a' - c * d' - d * c'),
   Qred (a * c' + c * a' + 2 * b * d' + 2 * d * b'),
   Qred (a * d' + d * a' + b * c' + c * b')).
Definition k4_of (q : Q) : k4 := (q, 0, 0, 0).
Definition k4_t : k4 := (0, 1, 0, 0).            (* sqrt 2 *)
Definition k4_tinv : k4 := (0, 1 # 2, 0, 0).     (* 1 / sqrt 2 *)
Definition k4_i : k4 := (0, 0, 1, 0).
Definition k4_iinv : k4 := (0, 0, - (1), 0).
Definition k4_eqb (x y : k4) : bool :=
  let '(a, b, c, d) := x in let '(a', b', c', d') := y in
  Qeq_bool a a' && Qeq_bool b b' && Qeq_bool c c' && Qeq_bool d d'.
Fixpoint k4_npow (x : k4) (n : nat) : k4 := match n with O => k4_of 1 | S k => k4_mul x (k4_npow x k) end.
Definition k4_zpow (x xinv : k4) (z : Z) : k4 :=
  match z with Z0 => k4_of 1 | Zpos p => k4_npow x (Pos.to_nat p) | Zneg p => k4_npow xinv (Pos.to_nat p) end.
(* value of a prefactor at sqrt(omega) = s (rational, non-zero), by the literal definition ... *)
Definition sc_eval (s : Q) (x : scal) : k4 :=
  k4_mul (k4_of (sq x * Qpower s (sw x))) (k4_mul (k4_zpow k4_t k4_tinv (s2 x)) (k4_zpow k4_i k4_iinv (si x))).
(* ... and through the normal form *)
Definition sc_eval_nf (s : Q) (x : scal) : k4 :=
  let '(w, t, i) := sc_key x in
  k4_mul (k4_of (sc_rat x * Qpower s w)) (k4_mul (k4_zpow k4_t k4_tinv t) (k4_zpow k4_i k4_iinv i)).
Definition zrange (lo : Z) (n : nat) : list Z := map (fun k => (lo + Z.of_nat k)%Z) (seq 0 n).
Definition scal_nf_ok (s : Q) : bool :=
  forallb (fun w => forallb (fun t => forallb (fun i =>
     let x := mk_scal (3 # 7) w t i in
     let y := mk_scal (- (5 # 2)) (t - w) (i + 1) (w - t) in
     k4_eqb (sc_eval s x) (sc_eval_nf s x)
     && k4_eqb (sc_eval s (sc_mul x y)) (k4_mul (sc_eval s x) (sc_eval s y))
     && k4_eqb (sc_eval_nf s (sc_mul x y)) (k4_mul (sc_eval_nf s x) (sc_eval_nf s y)))
   (zrange (-6) 13)) (zrange (-5) 11)) (zrange (-4) 9).

Definition sc_i : scal := mk_scal 1 0 0 1.
Definition sc_one : scal := mk_scal 1 0 0 0.

(* ---------------------------------------------------------------- symbol tables *)
Inductive dvr_kind := DvrNone | DvrRotate | DvrDiagPow (k : nat) | DvrMixed.

Definition entry : Type := scal * comb.
Definition table := list (string * entry).

Fixpoint lookup {A} (s : string) (t : list (string * A)) : option A :=
  match t with
  | [] => None
  | (s', a) :: r => if String.eqb s s' then Some a else lookup s r
  end.

(* rational part of the value of a table entry in the similarity picture *)
Definition rmat (e : entry) : mat := fun m n => sc_rat (fst e) * comb_inf (snd e) m n.
(* the same for a product of two entries, taken over the first K levels *)
Definition rprod (K : nat) (a b : entry) : mat := fun m n =>
  sc_rat (sc_mul (fst a) (fst b)) * mmul K (comb_inf (snd a)) (comb_inf (snd b)) m n.

(* product symbols:  (symbol written as a product, left factor, right factor) *)
Definition product_symbols : list (string * string * string) :=
  [ ("b b", "b", "b"); ("b^\dagger b^\dagger", "b^\dagger", "b^\dagger");
    ("b^\dagger b", "b^\dagger", "b"); ("b b^\dagger", "b", "b^\dagger");
    ("n", "b^\dagger", "b");
    ("x^2", "x", "x"); ("p^2", "p", "p"); ("x p", "x", "p"); ("p x", "p", "x");
    ("x dx", "x", "dx"); ("dx x", "dx", "x"); ("dx^2", "dx", "dx"); ("dx dx", "dx", "dx") ]%string.

(* sum symbols: (symbol, sign, left, right):  symbol = left + sign * right *)
Definition sum_symbols : list (string * Q * string * string) :=
  [ ("b^\dagger+b", 1, "b^\dagger", "b"); ("b^\dagger-b", -1, "b^\dagger", "b") ]%string.

(* scalar relations (symbol, c, other):  symbol = c * other;   p = -i d/dx *)
Definition scalar_symbols : list (string * scal * string) :=
  [ ("p", mk_scal 1 0 0 (-1), "dx"); ("p^2", mk_scal (-1) 0 0 0, "dx^2"); ("dx dx", sc_one, "dx^2");
    ("x p", mk_scal 1 0 0 (-1), "x dx"); ("p x", mk_scal 1 0 0 (-1), "dx x");
    ("n", sc_one, "b^\dagger b");
    ("x", mk_scal 1 (-1) (-1) 0, "b^\dagger+b");            (* x = (b+ + b)/sqrt(2 omega) *)
    ("p", mk_scal 1 1 (-1) 1, "b^\dagger-b") ]%string.      (* p = i sqrt(omega/2) (b+ - b) *)

(* ---------------------------------------------------------------- normal-form vectors (used by the reflective checkers) *)
Definition vec := mono -> Q.
Definition vec_of (c : comb) : vec := coef c.
Definition vsem (v : vec) : mat := fun m n =>
  v Mb * mono_inf Mb m n + v Mbd * mono_inf Mbd m n + v Mbb * mono_inf Mbb m n + v Mbdbd * mono_inf Mbdbd m n
  + v Mbdb * mono_inf Mbdb m n + v Mbbd * mono_inf Mbbd m n + v MI * mono_inf MI m n.
Definition vscale (c : Q) (v : vec) : vec := fun mo => c * v mo.
Definition vadd (u v : vec) : vec := fun mo => u mo + v mo.
Definition vsub (u v : vec) : vec := fun mo => u mo - v mo.
(* b b+ = b+ b + 1 holds for the untruncated operators, so the seven monomials are not independent as matrices:
   canonical form eliminates Mbbd; the remaining six are linearly independent *)
Definition vcanon (v : vec) : vec := fun mo =>
  match mo with
  | Mbbd => 0
  | Mbdb => v Mbdb + v Mbbd
  | MI => v MI + v Mbbd
  | _ => v mo
  end.
Definition veqb (u v : vec) : bool := forallb (fun mo => Qeq_bool (vcanon u mo) (vcanon v mo)) monos.
Definition deg1b (v : vec) : bool :=
  Qeq_bool (v Mbb) 0 && Qeq_bool (v Mbdbd) 0 && Qeq_bool (v Mbdb) 0 && Qeq_bool (v Mbbd) 0.
(* product of two combinations of degree <= 1 *)
Definition vmul1 (a b : vec) : vec := fun mo =>
  match mo with
  | Mbb => a Mb * b Mb
  | Mbdbd => a Mbd * b Mbd
  | Mbdb => a Mbd * b Mb
  | Mbbd => a Mb * b Mbd
  | Mb => a Mb * b MI + a MI * b Mb
  | Mbd => a Mbd * b MI + a MI * b Mbd
  | MI => a MI * b MI
  end.
Definition vunit : vec := fun mo => match mo with MI => 1 | _ => 0 end.

Definition product_check (t : table) (p : string * string * string) : bool :=
  let '(sab, sa, sb) := p in
  match lookup sab t, lookup sa t, lookup sb t with
  | Some eab, Some ea, Some eb =>
      key_eqb (sc_key (fst eab)) (sc_key (sc_mul (fst ea) (fst eb)))
      && deg1b (vec_of (snd ea)) && deg1b (vec_of (snd eb))
      && veqb (vscale (sc_rat (fst eab)) (vec_of (snd eab)))
              (vscale (sc_rat (sc_mul (fst ea) (fst eb))) (vmul1 (vec_of (snd ea)) (vec_of (snd eb))))
  | _, _, _ => false
  end.

Definition sum_check (t : table) (p : string * Q * string * string) : bool :=
  let '(ss, sg, sa, sb) := p in
  match lookup ss t, lookup sa t, lookup sb t with
  | Some es, Some ea, Some eb =>
      key_eqb (sc_key (fst es)) (sc_key (fst ea)) && key_eqb (sc_key (fst es)) (sc_key (fst eb))
      && veqb (vscale (sc_rat (fst es)) (vec_of (snd es)))
              (vadd (vscale (sc_rat (fst ea)) (vec_of (snd ea))) (vscale (sg * sc_rat (fst eb)) (vec_of (snd eb))))
  | _, _, _ => false
  end.

Definition scalar_check (t : table) (p : string * scal * string) : bool :=
  let '(sa, c, sb) := p in
  match lookup sa t, lookup sb t with
  | Some ea, Some eb =>
      key_eqb (sc_key (fst ea)) (sc_key (sc_mul c (fst eb)))
      && veqb (vscale (sc_rat (fst ea)) (vec_of (snd ea))) (vscale (sc_rat (sc_mul c (fst eb))) (vec_of (snd eb)))
  | _, _ => false
  end.

(* [x,p]: symbols "x p" - "p x", and truncated factors *)
Definition commutator_check (t : table) : bool :=
  match lookup "x p"%string t, lookup "p x"%string t, lookup "x"%string t, lookup "p"%string t with
  | Some exp, Some epx, Some ex, Some ep =>
      key_eqb (sc_key (fst exp)) (sc_key sc_i) && key_eqb (sc_key (fst epx)) (sc_key sc_i)
      && veqb (vsub (vscale (sc_rat (fst exp)) (vec_of (snd exp))) (vscale (sc_rat (fst epx)) (vec_of (snd epx)))) vunit
      && key_eqb (sc_key (sc_mul (fst ex) (fst ep))) (sc_key sc_i)
      && deg1b (vec_of (snd ex)) && deg1b (vec_of (snd ep))
      && veqb (vscale (sc_rat (sc_mul (fst ex) (fst ep)))
                      (vsub (vmul1 (vec_of (snd ex)) (vec_of (snd ep))) (vmul1 (vec_of (snd ep)) (vec_of (snd ex))))) vunit
      && Qeq_bool (sc_rat (sc_mul (fst ex) (fst ep))
                   * (coef (snd ex) Mb * coef (snd ep) Mbd - coef (snd ep) Mb * coef (snd ex) Mbd)) 1
  | _, _, _, _ => false
  end.

(* ---------------------------------------------------------------- shifted origin (x -> x + x0) *)
(* documented relation: the basis functions are centred at x0, so  x(x0) = x(0) + x0,  p(x0) = p(0);
   a polynomial symbol is the same polynomial in x(0) + x0.  shift_spec sym = [(power of x0, coefficient, plain symbol)] *)
Definition shift_spec : list (string * list (nat * Q * string)) :=
  [ ("x", [(0%nat, 1, "x"); (1%nat, 1, "I")]);
    ("x^2", [(0%nat, 1, "x^2"); (1%nat, 2, "x"); (2%nat, 1, "I")]);
    ("p", [(0%nat, 1, "p")]); ("p^2", [(0%nat, 1, "p^2")]);
    ("dx", [(0%nat, 1, "dx")]); ("dx^2", [(0%nat, 1, "dx^2")]); ("dx dx", [(0%nat, 1, "dx dx")]);
    ("I", [(0%nat, 1, "I")]);
    ("x p", [(0%nat, 1, "x p"); (1%nat, 1, "p")]); ("p x", [(0%nat, 1, "p x"); (1%nat, 1, "p")]);
    ("x dx", [(0%nat, 1, "x dx"); (1%nat, 1, "dx")]); ("dx x", [(0%nat, 1, "dx x"); (1%nat, 1, "dx")]) ]%string.

(* the terms of the generated x0-table for one symbol vs the specification *)
Definition term_matches (t : table) (tm : nat * scal * comb) (sp : nat * Q * string) : bool :=
  let '(e, s, c) := tm in let '(e', q, sym) := sp in
  match lookup sym t with
  | Some en => (e =? e')%nat && key_eqb (sc_key s) (sc_key (fst en))
               && veqb (vscale (sc_rat s) (vec_of c)) (vscale (q * sc_rat (fst en)) (vec_of (snd en)))
  | None => false
  end.
Fixpoint terms_match (t : table) (tms : list (nat * scal * comb)) (sps : list (nat * Q * string)) : bool :=
  match tms, sps with
  | [], [] => true
  | tm :: r, sp :: r' => term_matches t tm sp && terms_match t r r'
  | _, _ => false
  end.
Definition shift_check (t : table) (tx : list (string * list (nat * scal * comb))) (sym : string) : bool :=
  match lookup sym tx, lookup sym shift_spec with
  | Some tms, Some sps => terms_match t tms sps
  | _, _ => false
  end.
(* symbols whose shifted form is claimed as a theorem (Props/C16.v) *)
Definition shift_symbols : list string :=
  ["x"; "x^2"; "p"; "p^2"; "dx"; "dx^2"; "dx dx"; "I"; "x p"; "p x"; "x dx"; "dx x"]%string.

(* ---------------------------------------------------------------- DVR variant: which branches are returned in the DVR frame *)
(* DvrRotate: the branch ends in  dvr_v^T . mat . dvr_v ;  DvrDiagPow k: the branch returns diag(dvr_x^k), i.e. the
   k-th power of the truncated x in its eigenbasis.  The second-quantised symbols (b, b^dagger, n, ...) stay in the
   plain frame (documented as unsupported together with a shifted origin) and are not listed. *)
Definition dvr_frame_symbols : list string :=
  ["x"; "x^2"; "p"; "p^2"; "dx"; "dx^2"; "dx dx"; "x p"; "p x"; "x dx"; "dx x"]%string.
Definition dvr_in_frame (k : dvr_kind) : bool :=
  match k with DvrRotate | DvrDiagPow _ => true | _ => false end.
Definition dvr_check (t : list (string * dvr_kind)) (s : string) : bool :=
  match lookup s t with Some k => dvr_in_frame k | None => false end.

(* ---------------------------------------------------------------- general power formula (x_power_k / p_power_k) *)
Fixpoint fact (n : nat) : Z := match n with O => 1%Z | S k => (Z.of_nat (S k) * fact k)%Z end.
Fixpoint dfact_fuel (fuel n : nat) : Z :=
  match fuel with
  | O => 1%Z
  | S f => match n with O => 1%Z | 1%nat => 1%Z | S (S j) => (Z.of_nat n * dfact_fuel f j)%Z end
  end.
Definition dfact (n : nat) : Z := dfact_fuel n n.           (* double factorial, 0!! = 1!! = 1 *)
Definition qnat (z : Z) : Q := inject_Z z.

(* n! * sum_{s = max(0,(m+n-k)/2)}^{min(m,n)}  k! / ((m-s)! s! (n-s)! (k-m-n+2s)!!)    (0 when m+n-k is odd):
   <m|X^k|n> of the source, X = (b + b+)/sqrt 2, multiplied by 2^(k/2) and moved to the rational picture *)
Definition xpow_rat (k m n : nat) : Q :=
  if Nat.odd (m + n + k) then 0 else
  let s0 := ((m + n - k) / 2)%nat in
  let term (s : nat) : Q :=
      if (m + n <=? k + 2 * s)%nat then
        qnat (fact k) / (qnat (fact (m - s)) * qnat (fact s) * qnat (fact (n - s)) * qnat (dfact (k + 2 * s - m - n)))
      else 0 in
  Qred (qnat (fact n) * fold_right (fun s acc => Qred (term s + acc)) 0 (seq s0 (S (Nat.min m n) - s0))).

(* memoised power (same values as mpow on the first K levels, see LadderProofs.mpow_memo_ok) *)
Definition tabulate (K : nat) (A : mat) : list (list Q) :=
  map (fun m => map (fun n => Qred (A m n)) (seq 0 K)) (seq 0 K).
Definition of_tab (T : list (list Q)) : mat := fun m n => nth n (nth m T []) 0.
Definition memo (K : nat) (A : mat) : mat := of_tab (tabulate K A).
Fixpoint mpow_memo (K : nat) (A : mat) (k : nat) : mat :=
  match k with O => mid | S j => memo K (mmul K (mpow_memo K A j) A) end.

Definition Xr : mat := fun m n => mono_inf Mb m n + mono_inf Mbd m n.       (* b~ + b~+ *)
Definition Dr : mat := fun m n => mono_inf Mbd m n - mono_inf Mb m n.       (* b~+ - b~ *)
Definition sign_pow (d : nat) : Q := if Nat.even d then 1 else -1.

Definition xpow_ok (P : mat) (k m n : nat) : bool := Qeq_bool (xpow_rat k m n) (P m n).
Definition ppow_ok (P : mat) (k m n : nat) : bool :=
  Qeq_bool (P m n) (sign_pow ((k + n - m) / 2) * xpow_rat k m n).
(* f is given the k-th power (computed once per k) *)
Definition range_ok (f : mat -> nat -> nat -> nat -> bool) (K : nat) (A : mat) (kmax mmax : nat) : bool :=
  forallb (fun k => let P := mpow_memo K A k in
                    forallb (fun m => forallb (fun n => f P k m n) (seq 0 (S mmax))) (seq 0 (S mmax))) (seq 0 (S kmax)).

(* ---------------------------------------------------------------- HOPS boson (BasisHopsBoson) *)
Definition hops_bd : mat := fun m n => if (m =? n + 1)%nat then qn m else 0.     (* b~+ |n> = (n+1) |n+1> *)
Definition hops_b : mat := fun m n => if (m + 1 =? n)%nat then 1 else 0.         (* b~ |n> = |n-1> *)

(* ---------------------------------------------------------------- evaluation helpers for the correspondence *)
Definition flatQ (q : Q) : list Z := let r := Qred q in [Qnum r; Zpos (Qden r)].
Definition dump (N : nat) (A : mat) : list Z :=
  flat_map (fun m => flat_map (fun n => flatQ (A m n)) (seq 0 N)) (seq 0 N).
Definition key_list (s : scal) : list Z := let '(a, b, c) := sc_key s in [a; b; c].
