(* C17 -- Jordan-Wigner model: integer 2x2 matrices, pure tensors, JW strings, the term generation of
   qc_model (through the generated ladder words / simplify_op tables of Gen/SimplifyOp.v), the operator-side
   swap rule of Gen/JwSwapRule.v and the state-side sign of _update_mps.   No proofs in this file. *)
From Coq Require Import ZArith List Bool String Arith.
Import ListNotations.
From RV Require Import Gen.SimplifyOp Gen.JwSwapRule Gen.QcLoops.
Local Open Scope Z_scope.

(* ------------------------------------------------------------------ 2x2 integer matrices *)
Record M2 := mk2 { m00 : Z; m01 : Z; m10 : Z; m11 : Z }.

Definition I2 : M2 := mk2 1 0 0 1.
Definition Z2 : M2 := mk2 1 0 0 (-1).
Definition Sp : M2 := mk2 0 1 0 0.      (* sigma_+ = |0><1| : removes the particle (level 1 = occupied) *)
Definition Sm : M2 := mk2 0 0 1 0.      (* sigma_- = |1><0| *)
Definition O2 : M2 := mk2 0 0 0 0.

Definition mul2 (a b : M2) : M2 :=
  mk2 (m00 a * m00 b + m01 a * m10 b) (m00 a * m01 b + m01 a * m11 b)
      (m10 a * m00 b + m11 a * m10 b) (m10 a * m01 b + m11 a * m11 b).
Definition add2 (a b : M2) : M2 := mk2 (m00 a + m00 b) (m01 a + m01 b) (m10 a + m10 b) (m11 a + m11 b).
Definition scale2 (c : Z) (a : M2) : M2 := mk2 (c * m00 a) (c * m01 a) (c * m10 a) (c * m11 a).
Definition tr2 (a : M2) : M2 := mk2 (m00 a) (m10 a) (m01 a) (m11 a).
Definition get2 (a : M2) (i j : bool) : Z :=
  match i, j with false, false => m00 a | false, true => m01 a | true, false => m10 a | true, true => m11 a end.
Definition eqb2 (a b : M2) : bool :=
  Z.eqb (m00 a) (m00 b) && Z.eqb (m01 a) (m01 b) && Z.eqb (m10 a) (m10 b) && Z.eqb (m11 a) (m11 b).
Definition sgn (minus : bool) : Z := if minus then -1 else 1.

(* ------------------------------------------------------------------ symbols -> matrices (generated table) *)
Fixpoint lookup {A} (s : string) (tab : list (string * A)) : option A :=
  match tab with [] => None | (k, v) :: t => if String.eqb s k then Some v else lookup s t end.

Definition of_tuple (x : Z * Z * Z * Z) : M2 := let '(a, b, c, d) := x in mk2 a b c d.

(* unknown symbols (BasisHalfSpin.op_mat raises) denote the zero matrix *)
Definition sym_mat (s : string) : M2 := match lookup s halfspin_table with Some x => of_tuple x | None => O2 end.
Definition sym_known (s : string) : bool := match lookup s halfspin_table with Some _ => true | None => false end.

(* a word is the ordered product of its symbols *)
Fixpoint den_word (w : list string) : M2 := match w with [] => I2 | s :: t => mul2 (sym_mat s) (den_word t) end.
(* ... which is how op_mat accumulates it: mat = I; for o in symbols: mat = mat @ op_mat(o) *)
Definition den_word_foldl (w : list string) : M2 := fold_left (fun acc s => mul2 acc (sym_mat s)) w I2.

(* ------------------------------------------------------------------ pure tensors *)
Record PT := mkPT { pt_coef : Z; pt_facs : list M2 }.

Fixpoint zipmul (a b : list M2) : list M2 :=
  match a, b with x :: a', y :: b' => mul2 x y :: zipmul a' b' | _, _ => [] end.
Definition pt_mul (p q : PT) : PT := mkPT (pt_coef p * pt_coef q) (zipmul (pt_facs p) (pt_facs q)).
Definition pt_adj (p : PT) : PT := mkPT (pt_coef p) (map tr2 (pt_facs p)).

(* matrix element <r| f1 (x) f2 (x) ... |c> of a Kronecker product; 0 on a length mismatch *)
Fixpoint entry (fs : list M2) (r c : list bool) : Z :=
  match fs, r, c with
  | [], [], [] => 1
  | f :: fs', a :: r', b :: c' => get2 f a b * entry fs' r' c'
  | _, _, _ => 0
  end.
Definition pt_entry (p : PT) (r c : list bool) : Z := pt_coef p * entry (pt_facs p) r c.

Fixpoint delta (r c : list bool) : Z :=
  match r, c with
  | [], [] => 1
  | a :: r', b :: c' => if Bool.eqb a b then delta r' c' else 0
  | _, _ => 0
  end.

Fixpoint all_bits (n : nat) : list (list bool) :=
  match n with O => [[]] | S n' => map (cons false) (all_bits n') ++ map (cons true) (all_bits n') end.
Definition sumZ (l : list Z) : Z := fold_right Z.add 0 l.

(* ------------------------------------------------------------------ Jordan-Wigner strings *)
(* a_i = Z (x) ... (x) Z (x) core (x) I (x) ... (x) I   with the core on site i of n *)
Fixpoint jw_string (core : M2) (n i : nat) : list M2 :=
  match n with
  | O => []
  | S n' => match i with O => core :: repeat I2 n' | S i' => Z2 :: jw_string core n' i' end
  end.
Definition jw_string_flat (core : M2) (n i : nat) : list M2 := repeat Z2 i ++ [core] ++ repeat I2 (n - i - 1).

Definition a_op (n i : nat) : PT := mkPT 1 (jw_string Sp n i).
Definition a_dag (n i : nat) : PT := mkPT 1 (jw_string Sm n i).

(* ------------------------------------------------------------------ qc_model term generation *)
Definition lop := (bool * nat)%type.           (* (is a_dag ?, spin-orbital index) *)

(* the symbols that Op.product / split_elementary collect on site l, in operator order *)
Definition lop_site (l : nat) (o : lop) : list string :=
  map snd (filter (fun ls => Nat.eqb (fst ls) l) (ladder_word (fst o) (snd o))).
Definition site_word (ops : list lop) (l : nat) : list string := flat_map (lop_site l) ops.

(* simplify_op on one site: None = no operator emitted for the site (absent or reduced to identity) *)
Definition site_emit (ops : list lop) (l : nat) : option (bool * list string) :=
  let w := site_word ops l in
  match w with
  | [] => None
  | _ => match simp_new_symbol w with [] => None | nw => Some (simp_sign_minus w, nw) end
  end.

Definition term_sign_minus (n : nat) (ops : list lop) : bool :=
  fold_right xorb false (map (fun l => match site_emit ops l with Some (sg, _) => sg | None => false end) (seq 0 n)).
Definition term_facs (n : nat) (ops : list lop) : list M2 :=
  map (fun l => match site_emit ops l with Some (_, nw) => den_word nw | None => I2 end) (seq 0 n).
Definition term_pt (n : nat) (ops : list lop) : PT := mkPT (sgn (term_sign_minus n ops)) (term_facs n ops).

Definition lop_pt (n : nat) (o : lop) : PT := if fst o then a_dag n (snd o) else a_op n (snd o).
Definition ops_product (n : nat) (ops : list lop) : PT :=
  fold_right (fun o acc => pt_mul (lop_pt n o) acc) (mkPT 1 (repeat I2 n)) ops.

(* quantum numbers (conserve_qn = True) *)
Definition zz_add (a b : Z * Z) : Z * Z := (fst a + fst b, snd a + snd b).
Definition qn_of (l : nat) (s : string) : Z * Z :=
  match lookup s (if qn_uses_dict1 l then qn_dict1 else qn_dict0) with Some q => q | None => (0, 0) end.
Definition site_qn (ops : list lop) (l : nat) : Z * Z :=
  match site_emit ops l with
  | Some (_, nw) => fold_right zz_add (0, 0) (map (qn_of l) nw)
  | None => (0, 0)
  end.
Definition term_qn (n : nat) (ops : list lop) : Z * Z := fold_right zz_add (0, 0) (map (site_qn ops) (seq 0 n)).

(* index classes of int_to_h *)
Definition perm_get (perm v : list nat) (k : nat) : nat := nth (nth k perm 0%nat) v 0%nat.
Definition seri_pred_perm (perm : list nat) (p q r s : nat) : bool :=
  let v := [p; q; r; s] in seri_pred (perm_get perm v 0) (perm_get perm v 1) (perm_get perm v 2) (perm_get perm v 3).
Definition one_body_support (p q : nat) : bool := sh_pred p q.
Definition two_body_support (p q r s : nat) : bool :=
  aseri_in_range p q r s && (seri_pred_perm aseri_plus p q r s || seri_pred_perm aseri_minus p q r s).
Definition one_body_ops (p q : nat) : list lop := combine one_body_pattern [p; q].
Definition two_body_ops (p q r s : nat) : list lop := combine two_body_pattern [p; q; r; s].

(* charge of a ladder operator in (alpha, beta) numbers, from the basis labels of qc_model *)
Definition occ_qn (j : nat) : Z * Z :=
  if Nat.even j then zz_add basis_qn_occ_even (- fst basis_qn_empty_even, - snd basis_qn_empty_even)
  else zz_add basis_qn_occ_odd (- fst basis_qn_empty_odd, - snd basis_qn_empty_odd).

(* enumeration used by the correspondence check: all index tuples < n in the support *)
Definition range2 (n : nat) : list (nat * nat) := list_prod (seq 0 n) (seq 0 n).
Definition all_one_body (n : nat) : list (nat * nat) := filter (fun x => one_body_support (fst x) (snd x)) (range2 n).
Definition all_two_body (n : nat) : list ((nat * nat) * (nat * nat)) :=
  filter (fun x => two_body_support (fst (fst x)) (snd (fst x)) (fst (snd x)) (snd (snd x))) (list_prod (range2 n) (range2 n)).

(* ------------------------------------------------------------------ two-site algebra for the swap *)
(* 4x4 matrices as row-major lists of 16 integers; two-site basis index = 2*s1 + s2 *)
Definition M4 := list Z.
Definition get4 (x : M4) (i j : nat) : Z := nth (4 * i + j) x 0.
Definition mk4 (f : nat -> nat -> Z) : M4 := map (fun k => f (Nat.div k 4) (Nat.modulo k 4)) (seq 0 16).
Definition mmul4 (x y : M4) : M4 := mk4 (fun i j => get4 x i 0 * get4 y 0 j + get4 x i 1 * get4 y 1 j + get4 x i 2 * get4 y 2 j + get4 x i 3 * get4 y 3 j).
Definition tr4 (x : M4) : M4 := mk4 (fun i j => get4 x j i).
Definition scale4 (c : Z) (x : M4) : M4 := map (Z.mul c) x.
Definition kron (a b : M2) : M4 :=
  [m00 a * m00 b; m00 a * m01 b; m01 a * m00 b; m01 a * m01 b;
   m00 a * m10 b; m00 a * m11 b; m01 a * m10 b; m01 a * m11 b;
   m10 a * m00 b; m10 a * m01 b; m11 a * m00 b; m11 a * m01 b;
   m10 a * m10 b; m10 a * m11 b; m11 a * m10 b; m11 a * m11 b].
Definition id4 : M4 := [1;0;0;0; 0;1;0;0; 0;0;1;0; 0;0;0;1].

(* fermionic swap  F |s1 s2> = (-1)^(s1 s2) |s2 s1>  =  SWAP . diag(1,1,1,-1) *)
Definition SWAP4 : M4 := [1;0;0;0; 0;0;1;0; 0;1;0;0; 0;0;0;1].
Definition CZ4 : M4 := [1;0;0;0; 0;1;0;0; 0;0;1;0; 0;0;0;-1].
Definition F4 : M4 := mmul4 SWAP4 CZ4.
Definition conjF (x : M4) : M4 := mmul4 (mmul4 F4 x) (tr4 F4).
Definition conjSWAP (x : M4) : M4 := mmul4 (mmul4 SWAP4 x) (tr4 SWAP4).
Definition apply4 (x : M4) (v : list Z) : list Z :=
  map (fun i => get4 x i 0 * nth 0 v 0 + get4 x i 1 * nth 1 v 0 + get4 x i 2 * nth 2 v 0 + get4 x i 3 * nth 3 v 0) (seq 0 4).

(* operator side: the generated rule read as a map on two-site product operators.
   w1 = word of the operator that sat on the old SECOND site (row column 1), w2 = the one of the old FIRST site.
   old operator = den w2 (x) den w1 ; new operator = +-  den n1 (x) den n2 *)
Definition rule_layout_ok : bool :=
  Nat.eqb row_col1_old_site 2 && Nat.eqb row_col2_old_site 1 && Nat.eqb op1_row_col 1 && Nat.eqb op2_row_col 2.
Definition rule_old_op (w1 w2 : list string) : M4 := kron (den_word w2) (den_word w1).
Definition rule_new_op (w1 w2 : list string) : option M4 :=
  match jw_rule w1 w2 with
  | Some (n1, n2, minus) => Some (scale4 (sgn minus) (kron (den_word n1) (den_word n2)))
  | None => None
  end.
Definition eqb4 (x y : M4) : bool := Nat.eqb (List.length x) (List.length y) && forallb (fun p => Z.eqb (fst p) (snd p)) (combine x y).

(* words the rule is meant for: the identity alone, or a non-empty word over the non-identity head names *)
Definition rule_letters : list string := filter (fun s => negb (String.eqb s "I")) rule_head_names.
Fixpoint words_upto (alphabet : list string) (k : nat) : list (list string) :=
  match k with
  | O => [[]]
  | S k' => [] :: flat_map (fun w => map (fun s => s :: w) alphabet) (words_upto alphabet k')
  end.
Definition rule_words (k : nat) : list (list string) :=
  ["I"%string] :: filter (fun w => match w with [] => false | _ => true end) (words_upto rule_letters k).

(* state side: the generated transposition / sign of _update_mps on a two-site amplitude v[2*s1+s2] *)
Definition state_axes_ok : bool :=
  Nat.eqb (nth 0 state_transpose 9%nat) 0 && Nat.eqb (nth 3 state_transpose 9%nat) 3 &&
  ((Nat.eqb (nth 1 state_transpose 9%nat) 2 && Nat.eqb (nth 2 state_transpose 9%nat) 1)
   || (Nat.eqb (nth 1 state_transpose 9%nat) 1 && Nat.eqb (nth 2 state_transpose 9%nat) 2)).
Definition state_swaps : bool := Nat.eqb (nth 1 state_transpose 9%nat) 2.
Definition state_neg (a b : nat) : bool :=
  match state_neg_index with
  | [None; Some i; Some j; None] => Nat.eqb a i && Nat.eqb b j
  | _ => false
  end.
(* new amplitude at (a, b) = new first / second physical index *)
Definition state_rule (v : list Z) : list Z :=
  map (fun k => let a := Nat.div k 2 in let b := Nat.modulo k 2 in
                sgn (state_neg a b) * (if state_swaps then nth (2 * b + a) v 0 else nth (2 * a + b) v 0)) (seq 0 4).

(* ------------------------------------------------------------------ do the qc symbols fall under the rule ? *)
Definition rule_classifies (s : string) : bool :=
  existsb (String.eqb s) rule_counted_names || existsb (String.eqb s) rule_head_names.
Definition qc_covered : bool := forallb rule_classifies qc_alphabet.

(* a single-symbol pair over the qc alphabet on which the rule does not produce the F-conjugate *)
Definition pair_ok (w1 w2 : list string) : bool :=
  match rule_new_op w1 w2 with Some x => eqb4 x (conjF (rule_old_op w1 w2)) | None => false end.
Definition qc_single_pairs : list (list string * list string) :=
  list_prod (map (fun s => [s]) qc_alphabet) (map (fun s => [s]) qc_alphabet).
Definition qc_counterexample : option (list string * list string) :=
  find (fun p => negb (pair_ok (fst p) (snd p))) qc_single_pairs.

(* ------------------------------------------------------------------ term lists of qc_model: flat and stacked *)
Inductive tidx := T1 (p q : nat) | T2 (p q r s : nat).
Definition tfirst (t : tidx) : nat := match t with T1 p _ => p | T2 p _ _ _ => p end.
Definition t_ops (t : tidx) : list lop := match t with T1 p q => one_body_ops p q | T2 p q r s => two_body_ops p q r s end.
Definition quad := (nat * nat * nat * nat)%type.
Definition qfirst (x : quad) : nat := let '(p, _, _, _) := x in p.
Definition mkT1 (x : nat * nat) : tidx := T1 (fst x) (snd x).
Definition mkT2 (x : quad) : tidx := let '(p, q, r, s) := x in T2 p q r s.
(* S1 = np.argwhere(h1e != 0), S2 = np.argwhere(h2e != 0): arbitrary support patterns *)
Definition flat_terms (S1 : list (nat * nat)) (S2 : list quad) : list tidx := map mkT1 S1 ++ map mkT2 S2.
Definition rows1 (S1 : list (nat * nat)) (p : nat) := filter (fun x => Nat.eqb (fst x) p) S1.       (* pairs1[pairs1[:,0] == p] *)
Definition rows2 (S2 : list quad) (p : nat) := filter (fun x => Nat.eqb (qfirst x) p) S2.
(* the sub-list the stacked branch builds for p; None = skipped by a `continue` *)
Definition stacked_group (S1 : list (nat * nat)) (S2 : list quad) (p : nat) : option (list tidx) :=
  let nq := List.length (rows1 S1 p) in let nqrs := List.length (rows2 S2 p) in
  if stacked_group_emitted nq nqrs then
    Some ((if stacked_one_guard nq nqrs then map mkT1 (rows1 S1 p) else []) ++
          (if stacked_two_guard nq nqrs then map mkT2 (rows2 S2 p) else []))
  else None.
Definition stacked_terms_over (ps : list nat) (S1 : list (nat * nat)) (S2 : list quad) : list tidx :=
  flat_map (fun p => match stacked_group S1 S2 p with Some g => g | None => [] end) ps.
Definition stacked_visits (norbs : nat) (S1 : list (nat * nat)) (S2 : list quad) : list nat :=
  stacked_domain norbs (map fst S1) (map qfirst S2).

(* ------------------------------------------------------------------ int_to_h on abstract integrals *)
Definition h_t := nat -> nat -> Z.
Definition eri_t := nat -> nat -> nat -> nat -> Z.
Definition sh_val (h : h_t) (q s : nat) : Z :=
  if sh_pred q s then match sh_src q s with [a; b] => h a b | _ => 0 end else 0.
Definition seri_val (eri : eri_t) (p q r s : nat) : Z :=
  if seri_pred p q r s then match seri_src p q r s with [a; b; c; d] => eri a b c d | _ => 0 end else 0.
Definition perm4 (perm : list nat) (f : eri_t) (p q r s : nat) : Z :=
  let v := [p; q; r; s] in f (perm_get perm v 0) (perm_get perm v 1) (perm_get perm v 2) (perm_get perm v 3).
Definition aseri_val (eri : eri_t) (p q r s : nat) : Z :=
  if aseri_in_range p q r s then perm4 aseri_plus (seri_val eri) p q r s - perm4 aseri_minus (seri_val eri) p q r s else 0.
Definition h_symmetric (h : h_t) : Prop := forall a b, h a b = h b a.
(* (ab|cd) = (ba|cd) = (ab|dc) = (cd|ab) *)
Definition eri_symmetric (eri : eri_t) : Prop :=
  (forall a b c d, eri a b c d = eri b a c d) /\ (forall a b c d, eri a b c d = eri a b d c) /\ (forall a b c d, eri a b c d = eri c d a b).
(* adjoint on index classes and on operator lists *)
Definition tadj (t : tidx) : tidx := match t with T1 p q => T1 q p | T2 p q r s => T2 r s p q end.
Definition tcoef (h : h_t) (eri : eri_t) (t : tidx) : Z := match t with T1 p q => sh_val h p q | T2 p q r s => aseri_val eri p q r s end.
Definition lop_dag (o : lop) : lop := (negb (fst o), snd o).
Definition ops_adj (ops : list lop) : list lop := rev (map lop_dag ops).
