(* C16 -- spin-1/2 matrices as 2x2 Gaussian-integer matrices, and the unit matrices of the electron bases
   (no proofs in this file).  Basis order of BasisHalfSpin: (up, down), sigma_z = diag(1,-1), sigma_+ = |up><down|. *)
From Coq Require Import QArith ZArith List String Bool Arith.
Import ListNotations.
From RV Require Import Model.Ladder.
Close Scope Q_scope.
Local Open Scope Z_scope.

(* Gaussian integers re + i im *)
Definition gi := (Z * Z)%type.
Definition gi_add (a b : gi) : gi := (fst a + fst b, snd a + snd b).
Definition gi_mul (a b : gi) : gi := (fst a * fst b - snd a * snd b, fst a * snd b + snd a * fst b).
Definition gi_conj (a : gi) : gi := (fst a, - snd a).
Definition gi_of (z : Z) : gi := (z, 0).
Definition gi_i : gi := (0, 1).

(* 2x2 matrices, row-major (a00, a01, a10, a11) *)
Definition m2 := (gi * gi * gi * gi)%type.
Definition mk2 (a b c d : gi) : m2 := (a, b, c, d).
Definition m2_add (x y : m2) : m2 :=
  let '(a, b, c, d) := x in let '(a', b', c', d') := y in (gi_add a a', gi_add b b', gi_add c c', gi_add d d').
Definition m2_mul (x y : m2) : m2 :=
  let '(a, b, c, d) := x in let '(a', b', c', d') := y in
  (gi_add (gi_mul a a') (gi_mul b c'), gi_add (gi_mul a b') (gi_mul b d'),
   gi_add (gi_mul c a') (gi_mul d c'), gi_add (gi_mul c b') (gi_mul d d')).
Definition m2_scale (s : gi) (x : m2) : m2 :=
  let '(a, b, c, d) := x in (gi_mul s a, gi_mul s b, gi_mul s c, gi_mul s d).
Definition m2_dagger (x : m2) : m2 :=
  let '(a, b, c, d) := x in (gi_conj a, gi_conj c, gi_conj b, gi_conj d).
Definition m2_trace (x : m2) : gi := let '(a, b, c, d) := x in gi_add a d.
Definition m2_zero : m2 := mk2 (0,0) (0,0) (0,0) (0,0).
Definition m2_id : m2 := mk2 (1,0) (0,0) (0,0) (1,0).
Definition m2_sub (x y : m2) : m2 := m2_add x (m2_scale (gi_of (-1)) y).

Definition sX : m2 := mk2 (0,0) (1,0) (1,0) (0,0).
Definition sY : m2 := mk2 (0,0) (0,-1) (0,1) (0,0).
Definition sZ : m2 := mk2 (1,0) (0,0) (0,0) (-1,0).
Definition siY : m2 := mk2 (0,0) (1,0) (-1,0) (0,0).      (* i sigma_y, real *)
Definition sP : m2 := mk2 (0,0) (1,0) (0,0) (0,0).        (* sigma_+ *)
Definition sM : m2 := mk2 (0,0) (0,0) (1,0) (0,0).        (* sigma_- *)

Inductive ax := AX | AY | AZ.
Definition axes := [AX; AY; AZ].
Definition sigma (a : ax) : m2 := match a with AX => sX | AY => sY | AZ => sZ end.
Definition ax_eqb (a b : ax) : bool :=
  match a, b with AX, AX | AY, AY | AZ, AZ => true | _, _ => false end.
(* Levi-Civita symbol *)
Definition eps (a b c : ax) : Z :=
  match a, b, c with
  | AX, AY, AZ | AY, AZ, AX | AZ, AX, AY => 1
  | AY, AX, AZ | AZ, AY, AX | AX, AZ, AY => -1
  | _, _, _ => 0
  end.
Definition eps_sigma (a b : ax) : m2 :=
  fold_right (fun c acc => m2_add (m2_scale (gi_of (eps a b c)) (sigma c)) acc) m2_zero axes.

(* the symbols accepted by BasisHalfSpin.op_mat (one-factor symbols) *)
Definition spin_symbols : list (string * m2) :=
  [ ("I", m2_id);
    ("sigma_x", sX); ("X", sX); ("x", sX);
    ("sigma_y", sY); ("Y", sY); ("y", sY);
    ("isigma_y", siY); ("iY", siY); ("iy", siY);
    ("sigma_z", sZ); ("Z", sZ); ("z", sZ);
    ("sigma_-", sM); ("-", sM);
    ("sigma_+", sP); ("+", sP) ]%string.

(* a multi-factor symbol "s1 s2 ..." denotes the product in the written order *)
Fixpoint spin_word (w : list string) : option m2 :=
  match w with
  | [] => Some m2_id
  | s :: r => match lookup s spin_symbols, spin_word r with
              | Some a, Some b => Some (m2_mul a b)
              | _, _ => None
              end
  end.

(* Kronecker product of two 2x2 matrices as the row-major list of the 16 entries (row (r1,r2), column (c1,c2)) *)
Definition m2_get (x : m2) (r c : bool) : gi :=
  let '(a, b, c', d) := x in if r then (if c then d else c') else (if c then b else a).
Definition kron2 (x y : m2) : list gi :=
  flat_map (fun r1 => flat_map (fun r2 => flat_map (fun c1 => map (fun c2 => gi_mul (m2_get x r1 c1) (m2_get y r2 c2))
     [false; true]) [false; true]) [false; true]) [false; true].
Definition gl_add (u v : list gi) : list gi := map (fun p => gi_add (fst p) (snd p)) (combine u v).
Definition gl_scale (s : gi) (u : list gi) : list gi := map (gi_mul s) u.

Definition flat_m2 (x : m2) : list Z :=
  let '(a, b, c, d) := x in [fst a; snd a; fst b; snd b; fst c; snd c; fst d; snd d].

(* ------------------------------------------------------------------ unit matrices of the electron bases *)
Local Open Scope Q_scope.
Definition unit_mat (r c : nat) : mat := fun i j => if (i =? r)%nat && (j =? c)%nat then 1 else 0.

(* BasisMultiElectron(dofs): state k = electron on dofs[k];  a+_i a_j  ->  E[i,j];   "a a+" on (i, j)  ->  E[j,i] *)
Definition me_hop (i j : nat) : mat := unit_mat i j.
(* BasisMultiElectronVac(dofs): state 0 = vacuum, state k+1 = electron on dofs[k] *)
Definition mev_create (i : nat) : mat := unit_mat (i + 1) 0.
Definition mev_annih (i : nat) : mat := unit_mat 0 (i + 1).
Definition mev_hop (i j : nat) : mat := unit_mat (i + 1) (j + 1).
(* BasisSimpleElectron: 0 = unoccupied, 1 = occupied *)
Definition se_create : mat := unit_mat 1 0.
Definition se_annih : mat := unit_mat 0 1.
Definition se_number : mat := unit_mat 1 1.
