(* C15 -- executable model of renormalizer/model/op.py (classes Op and OpSum).  No proofs in this file.

   An [op] is a word of letters (symbol id, dof id, quantum-number vector) with a factor in a scalar
   structure [ralg]; an operator sum is a [list op].  Python values that can take part in an
   expression are modelled by [val]; every public arithmetic entry point of op.py is a total function
   returning [option val] ([None] = the implementation raises, i.e. the expression is rejected).

   Symbol ids: 0 = "I", 1 = "a", 2 = "a^\dagger" (the three symbols op.py treats specially); every
   other id is an opaque symbol.  Dofs are opaque ids compared by equality (hashable Python objects). *)
From Coq Require Import ZArith List Bool.
Import ListNotations.
Local Open Scope Z_scope.

Definition sym := Z.
Definition dof := Z.
Definition qvec := list Z.
Definition letter := (sym * dof * qvec)%type.
Definition l_sym (l : letter) : sym := fst (fst l).
Definition l_dof (l : letter) : dof := snd (fst l).
Definition l_qn (l : letter) : qvec := snd l.

Definition SYM_I : sym := 0.
Definition SYM_A : sym := 1.
Definition SYM_ADAG : sym := 2.

(* scalar structure: the factors.  [rinv c = None] models ZeroDivisionError of [1/c];
   [keep t c] models [np.abs(c) > t] for a tolerance t. *)
Record ralg : Type := mkRalg {
  R : Type;
  r0 : R; r1 : R;
  radd : R -> R -> R; rmul : R -> R -> R; ropp : R -> R;
  rinv : R -> option R;
  reqb : R -> R -> bool;
  tol : Type;
  keep : tol -> R -> bool
}.

(* interpretation of scalars and letters in an algebra M of "matrices" *)
Record malg (ra : ralg) : Type := mkMalg {
  M : Type;
  m0 : M; m1 : M;
  madd : M -> M -> M; mmul : M -> M -> M; mopp : M -> M;
  emb : R ra -> M;                 (* c |-> c * Identity *)
  interp : sym -> dof -> M         (* the full-space matrix of one symbol acting on one dof *)
}.
Arguments M {ra}. Arguments m0 {ra}. Arguments m1 {ra}. Arguments madd {ra}. Arguments mmul {ra}.
Arguments mopp {ra}. Arguments emb {ra}. Arguments interp {ra}.

(* The contract of an interpretation (true of tensor-product matrices): M is a unital ring, emb is a
   unital ring homomorphism into its centre, the symbol "I" is the unit.  Nothing is assumed about R. *)
Record malg_ok (ra : ralg) (ma : malg ra) : Prop := mkMalgOk {
  ok_add_comm : forall x y, madd ma x y = madd ma y x;
  ok_add_assoc : forall x y z, madd ma x (madd ma y z) = madd ma (madd ma x y) z;
  ok_add_0_l : forall x, madd ma (m0 ma) x = x;
  ok_add_opp : forall x, madd ma x (mopp ma x) = m0 ma;
  ok_mul_assoc : forall x y z, mmul ma x (mmul ma y z) = mmul ma (mmul ma x y) z;
  ok_mul_1_l : forall x, mmul ma (m1 ma) x = x;
  ok_mul_1_r : forall x, mmul ma x (m1 ma) = x;
  ok_distr_l : forall x y z, mmul ma x (madd ma y z) = madd ma (mmul ma x y) (mmul ma x z);
  ok_distr_r : forall x y z, mmul ma (madd ma x y) z = madd ma (mmul ma x z) (mmul ma y z);
  ok_emb_0 : emb ma (r0 ra) = m0 ma;
  ok_emb_1 : emb ma (r1 ra) = m1 ma;
  ok_emb_add : forall a b, emb ma (radd ra a b) = madd ma (emb ma a) (emb ma b);
  ok_emb_mul : forall a b, emb ma (rmul ra a b) = mmul ma (emb ma a) (emb ma b);
  ok_emb_opp : forall a, emb ma (ropp ra a) = mopp ma (emb ma a);
  ok_emb_central : forall a x, mmul ma (emb ma a) x = mmul ma x (emb ma a);
  ok_interp_I : forall d, interp ma SYM_I d = m1 ma
}.

(* contract of the scalar helpers *)
Record ralg_ok (ra : ralg) : Prop := mkRalgOk {
  ok_reqb : forall a b, reqb ra a b = true <-> a = b;
  ok_rinv : forall c d, rinv ra c = Some d -> rmul ra c d = r1 ra
}.

(* letters whose dofs live on different sites commute (true of kron-embedded local matrices) *)
Definition sites_commute (ra : ralg) (ma : malg ra) (site : dof -> Z) : Prop :=
  forall s1 d1 s2 d2, site d1 <> site d2 ->
    mmul ma (interp ma s1 d1) (interp ma s2 d2) = mmul ma (interp ma s2 d2) (interp ma s1 d1).

Section Model.
Variable ra : ralg.
Notation Rt := (R ra).

Record op : Type := mkOp { word : list letter; factor : Rt }.

(* ---- construction ---- *)
Definition default_qn (s : sym) : qvec :=
  if s =? SYM_ADAG then [1] else if s =? SYM_A then [-1] else [0].
(* Op(symbol, dofs, factor) with qn=None *)
Definition mk_op_default (sd : list (sym * dof)) (f : Rt) : op :=
  mkOp (map (fun p => (fst p, snd p, default_qn (fst p))) sd) f.
(* Op.identity(dofs, qn_size, factor) *)
Definition op_identity (ds : list dof) (qn_size : nat) (f : Rt) : op :=
  mkOp (map (fun d => (SYM_I, d, repeat 0 qn_size)) ds) f.

(* ---- Op arithmetic ---- *)
Definition op_mul (a b : op) : op := mkOp (word a ++ word b) (rmul ra (factor a) (factor b)).
(* Op.product: symbols, dofs, qn chained; factor np.prod (left to right); [] is rejected by Op.__init__ *)
Definition op_product (l : list op) : option op :=
  match l with
  | [] => None
  | a :: t => Some (mkOp (concat (map word l)) (fold_left (rmul ra) (map factor t) (factor a)))
  end.
Definition op_scal (a : op) (c : Rt) : op := mkOp (word a) (rmul ra (factor a) c).
Definition op_neg (a : op) : op := mkOp (word a) (ropp ra (factor a)).

(* ---- OpSum arithmetic (lists of op) ---- *)
Definition sum_neg (s : list op) : list op := map op_neg s.
Definition op_mul_sum (a : op) (s : list op) : list op := map (op_mul a) s.
Definition sum_mul_op (s : list op) (b : op) : list op := map (fun a => op_mul a b) s.
Definition sum_mul_sum (s t : list op) : list op := flat_map (fun a => op_mul_sum a t) s.
Definition sum_scal (s : list op) (c : Rt) : list op := map (fun a => op_scal a c) s.

(* ---- squeeze_identity ---- *)
Definition is_I (l : letter) : bool := l_sym l =? SYM_I.
Definition qn_zero (q : qvec) : bool := forallb (Z.eqb 0) q.
(* len(sum(qn_list)) with NumPy broadcasting of length-1 vectors *)
Definition qn_size (w : list letter) : nat := fold_right (fun l n => Nat.max (length (l_qn l)) n) O w.
Definition squeeze (o : op) : option op :=
  match word o with
  | [] => None
  | l0 :: _ =>
    if forallb is_I (word o)
    then Some (mkOp [(SYM_I, l_dof l0, repeat 0 (qn_size (word o)))] (factor o))
    else if existsb (fun l => is_I l && negb (qn_zero (l_qn l))) (word o) then None   (* the assert *)
    else Some (mkOp (filter (fun l => negb (is_I l)) (word o)) (factor o))
  end.

(* ---- same_term, simplify ---- *)
Definition key (w : list letter) : list (sym * dof) := map (fun l => (l_sym l, l_dof l)) w.
Fixpoint key_eqb (u v : list (sym * dof)) : bool :=
  match u, v with
  | [], [] => true
  | (s1, d1) :: u', (s2, d2) :: v' => (s1 =? s2) && (d1 =? d2) && key_eqb u' v'
  | _, _ => false
  end.
Definition same_term (a b : op) : bool := key_eqb (key (word a)) (key (word b)).

(* the while loop of simplify: take the first remaining term, add the factors of all later terms with
   the same symbol and dofs (python: op.factor + sum([...]) over the reversed list, i.e. last first),
   keep the first term's quantum numbers, continue with the other terms in their order *)
Fixpoint merge (fuel : nat) (s : list op) : list op :=
  match fuel with
  | O => []
  | S n =>
    match s with
    | [] => []
    | o :: rest =>
      let same := filter (same_term o) rest in
      let others := filter (fun x => negb (same_term o x)) rest in
      mkOp (word o) (radd ra (factor o) (fold_left (radd ra) (map factor (rev same)) (r0 ra)))
        :: merge n others
    end
  end.
Fixpoint squeeze_all (s : list op) : option (list op) :=
  match s with
  | [] => Some []
  | o :: t => match squeeze o, squeeze_all t with
              | Some o', Some t' => Some (o' :: t')
              | _, _ => None
              end
  end.
Definition merged (s : list op) : option (list op) :=
  option_map (fun q => merge (length q) q) (squeeze_all s).
Definition simplify (t : tol ra) (s : list op) : option (list op) :=
  option_map (filter (fun o => keep ra t (factor o))) (merged s).
Definition dropped (t : tol ra) (s : list op) : option (list op) :=
  option_map (filter (fun o => negb (keep ra t (factor o)))) (merged s).

(* ---- to_tuple / __eq__ / __hash__ ---- *)
Definition tuple_t := (list sym * list dof * Rt * list qvec)%type.
Definition to_tuple (o : op) : tuple_t :=
  (map l_sym (word o), map l_dof (word o), factor o, map l_qn (word o)).
Fixpoint zlist_eqb (u v : list Z) : bool :=
  match u, v with
  | [], [] => true
  | x :: u', y :: v' => (x =? y) && zlist_eqb u' v'
  | _, _ => false
  end.
Fixpoint qlist_eqb (u v : list qvec) : bool :=
  match u, v with
  | [], [] => true
  | x :: u', y :: v' => zlist_eqb x y && qlist_eqb u' v'
  | _, _ => false
  end.
Definition op_eqb (a b : op) : bool :=
  zlist_eqb (map l_sym (word a)) (map l_sym (word b))
  && zlist_eqb (map l_dof (word a)) (map l_dof (word b))
  && reqb ra (factor a) (factor b)
  && qlist_eqb (map l_qn (word a)) (map l_qn (word b)).
(* __hash__ = hash(to_tuple()) for whatever hash function [h] of tuples Python uses *)
Definition op_hash {H : Type} (h : tuple_t -> H) (o : op) : H := h (to_tuple o).

(* ---- Model.check_operator_terms: zero-factor terms are discarded ---- *)
Definition zero_filter (s : list op) : list op := filter (fun o => negb (reqb ra (factor o) (r0 ra))) s.

(* ---- split_elementary ---- *)
Fixpoint insert_uniq (x : Z) (l : list Z) : list Z :=
  match l with
  | [] => [x]
  | y :: t => if x <? y then x :: l else if x =? y then l else y :: insert_uniq x t
  end.
Definition sorted_sites (site : dof -> Z) (w : list letter) : list Z :=
  fold_right (fun l acc => insert_uniq (site (l_dof l)) acc) [] w.
Definition on_site (site : dof -> Z) (s : Z) (l : letter) : bool := site (l_dof l) =? s.
Definition split_elementary (site : dof -> Z) (o : op) : list op * Rt :=
  (map (fun s => mkOp (filter (on_site site s) (word o)) (r1 ra)) (sorted_sites site (word o)), factor o).

(* ---- Python values and operator dispatch ---- *)
Inductive skind := KInt | KFloat | KCplx | KNpI | KNpF | KNpC | KArrI | KArrF.
Inductive val :=
| VS (k : skind) (c : Rt)       (* a scalar (python int/float/complex, NumPy scalar, 0-d array) *)
| VO (o : op)                   (* an Op *)
| VL (l : list op)              (* a plain python list of Op *)
| VSum (s : list op).           (* an OpSum *)

Definition is_zero (c : Rt) : bool := reqb ra c (r0 ra).
(* Op + s : isinstance(s, (int, float)) and s == 0, or a 0-d array equal to 0 *)
Definition add0_right (k : skind) : bool :=
  match k with KInt | KFloat | KNpF | KArrI | KArrF => true | _ => false end.
(* s + Op : as above after NumPy has converted its own scalars to python ones *)
Definition add0_left (k : skind) : bool :=
  match k with KInt | KFloat | KNpF | KNpI | KArrI | KArrF => true | _ => false end.
(* Op * s, s * Op, OpSum * s, s * OpSum, OpSum / s accept python and NumPy scalars (not arrays) *)
Definition mul_kind (k : skind) : bool :=
  match k with KArrI | KArrF => false | _ => true end.
(* type of -s *)
Definition neg_kind (k : skind) : skind :=
  match k with KArrI => KNpI | KArrF => KNpF | k => k end.

Definition v_add (a b : val) : option val :=
  match a, b with
  | VO x, VS k c => if add0_right k && is_zero c then Some (VSum [x]) else None
  | VS k c, VO x => if add0_left k && is_zero c then Some (VSum [x]) else None
  | VO x, VO y => Some (VSum [x; y])
  | VO x, VL l => Some (VSum (x :: l))
  | VO x, VSum l => Some (VSum (x :: l))
  | VSum s, VO x => Some (VSum (s ++ [x]))
  | VSum s, VL l => Some (VSum (s ++ l))
  | VSum s, VSum l => Some (VSum (s ++ l))
  | VL l, VL m => Some (VL (l ++ m))
  | VL l, VSum m => Some (VL (l ++ m))
  | _, _ => None
  end.

Definition v_neg (a : val) : option val :=
  match a with
  | VS k c => Some (VS (neg_kind k) (ropp ra c))
  | VO x => Some (VO (op_neg x))
  | VSum s => Some (VSum (sum_neg s))
  | VL _ => None
  end.

(* Op.__sub__ / OpSum.__sub__ : self + (-other) *)
Definition v_sub (a b : val) : option val :=
  match a with
  | VO _ | VSum _ => match v_neg b with Some nb => v_add a nb | None => None end
  | _ => None
  end.

Definition v_mul (a b : val) : option val :=
  match a, b with
  | VO x, VO y => Some (VO (op_mul x y))
  | VO x, VS k c => if mul_kind k then Some (VO (op_scal x c)) else None
  | VS k c, VO x => if mul_kind k then Some (VO (op_scal x c)) else None
  | VO x, VL l => Some (VSum (op_mul_sum x l))
  | VO x, VSum l => Some (VSum (op_mul_sum x l))
  | VL l, VO x => Some (VSum (sum_mul_op l x))
  | VSum s, VO x => Some (VSum (sum_mul_op s x))
  | VSum s, VL t => Some (VSum (sum_mul_sum s t))
  | VSum s, VSum t => Some (VSum (sum_mul_sum s t))
  | VSum s, VS k c => if mul_kind k then Some (VSum (sum_scal s c)) else None
  | VS k c, VSum s => if mul_kind k then Some (VSum (sum_scal s c)) else None
  | _, _ => None
  end.

(* OpSum.__truediv__ : self * (1/other); Op has no division *)
Definition v_div (a b : val) : option val :=
  match a, b with
  | VSum s, VS k c => if mul_kind k then option_map (fun d => VSum (sum_scal s d)) (rinv ra c) else None
  | _, _ => None
  end.

(* a += b *)
Definition v_iadd (a b : val) : option val :=
  match a, b with
  | VSum s, VO x => Some (VSum (s ++ [x]))
  | VSum s, VL l => Some (VSum (s ++ l))
  | VSum s, VSum l => Some (VSum (s ++ l))
  | VSum _, VS _ _ => None
  | VL l, VL m => Some (VL (l ++ m))
  | VL l, VSum m => Some (VL (l ++ m))
  | VL _, _ => None
  | _, _ => v_add a b
  end.

Definition v_simplify (t : tol ra) (a : val) : option val :=
  match a with VSum s => option_map VSum (simplify t s) | _ => None end.
Definition v_squeeze (a : val) : option val :=
  match a with VO x => option_map VO (squeeze x) | _ => None end.
(* OpSum(x) *)
Definition v_mksum (a : val) : option val :=
  match a with VL l => Some (VSum l) | VSum l => Some (VSum l) | _ => None end.
(* list(x) *)
Definition v_mklist (a : val) : option val :=
  match a with VL l => Some (VL l) | VSum l => Some (VL l) | _ => None end.
(* x.copy() : OpSum.copy gives an OpSum, list.copy a list *)
Definition v_copy (a : val) : option val :=
  match a with VSum l => Some (VSum l) | VL l => Some (VL l) | _ => None end.

(* OpSum.product(list): left fold of [*]; the empty list gives the empty OpSum *)
Definition obind {A B} (x : option A) (f : A -> option B) : option B :=
  match x with Some a => f a | None => None end.
(* evaluation of a python list display: any element raising makes the whole expression raise *)
Fixpoint oseq {A} (l : list (option A)) : option (list A) :=
  match l with
  | [] => Some []
  | x :: t => match x, oseq t with Some a, Some r => Some (a :: r) | _, _ => None end
  end.
Definition v_sum_product (l : list val) : option val :=
  match l with
  | [] => Some (VSum [])
  | a :: t => fold_left (fun acc b => obind acc (fun x => v_mul x b)) t (Some a)
  end.
Fixpoint all_ops (l : list val) : option (list op) :=
  match l with
  | [] => Some []
  | VO x :: t => option_map (cons x) (all_ops t)
  | _ :: _ => None
  end.
Definition v_op_product (l : list val) : option val :=
  obind (all_ops l) (fun os => option_map VO (op_product os)).

(* ---- expression programs ---- *)
Inductive expr :=
| EVal (v : val)
| EAdd (a b : expr) | ESub (a b : expr) | EMul (a b : expr) | EDiv (a b : expr) | EIAdd (a b : expr)
| ENeg (a : expr)
| ESimp (t : tol ra) (a : expr) | ESqz (a : expr)
| EMkSum (a : expr) | EMkList (a : expr) | ECopy (a : expr).

Definition bind2 (x y : option val) (f : val -> val -> option val) : option val :=
  match x, y with Some a, Some b => f a b | _, _ => None end.
Fixpoint eval (e : expr) : option val :=
  match e with
  | EVal v => Some v
  | EAdd a b => bind2 (eval a) (eval b) v_add
  | ESub a b => bind2 (eval a) (eval b) v_sub
  | EMul a b => bind2 (eval a) (eval b) v_mul
  | EDiv a b => bind2 (eval a) (eval b) v_div
  | EIAdd a b => bind2 (eval a) (eval b) v_iadd
  | ENeg a => obind (eval a) v_neg
  | ESimp t a => obind (eval a) (v_simplify t)
  | ESqz a => obind (eval a) v_squeeze
  | EMkSum a => obind (eval a) v_mksum
  | EMkList a => obind (eval a) v_mklist
  | ECopy a => obind (eval a) v_copy
  end.

(* ---- denotation ---- *)
Variable ma : malg ra.
Fixpoint denw (w : list letter) : M ma :=
  match w with
  | [] => m1 ma
  | l :: t => mmul ma (interp ma (l_sym l) (l_dof l)) (denw t)
  end.
Definition den (o : op) : M ma := mmul ma (emb ma (factor o)) (denw (word o)).
Fixpoint dens (s : list op) : M ma :=
  match s with
  | [] => m0 ma
  | o :: t => madd ma (den o) (dens t)
  end.
Definition denv (v : val) : M ma :=
  match v with
  | VS _ c => emb ma c
  | VO o => den o
  | VL l => dens l
  | VSum l => dens l
  end.
Fixpoint mprod (l : list (M ma)) : M ma :=
  match l with [] => m1 ma | x :: t => mmul ma x (mprod t) end.

(* the matrix expression a program stands for *)
Definition sem_inv (b : option val) : M ma :=
  match b with
  | Some (VS _ c) => match rinv ra c with Some d => emb ma d | None => m0 ma end
  | _ => m0 ma
  end.
Fixpoint sem (e : expr) : M ma :=
  match e with
  | EVal v => denv v
  | EAdd a b => madd ma (sem a) (sem b)
  | ESub a b => madd ma (sem a) (mopp ma (sem b))
  | EMul a b => mmul ma (sem a) (sem b)
  | EDiv a b => mmul ma (sem a) (sem_inv (eval b))
  | EIAdd a b => madd ma (sem a) (sem b)
  | ENeg a => mopp ma (sem a)
  | ESimp _ a => sem a
  | ESqz a => sem a
  | EMkSum a => sem a
  | EMkList a => sem a
  | ECopy a => sem a
  end.
(* every tolerance used by the program is exact: only a zero factor is dropped *)
Definition tol_exact (t : tol ra) : Prop := forall c, keep ra t c = false -> c = r0 ra.
Fixpoint tols_exact (e : expr) : Prop :=
  match e with
  | EVal _ => True
  | EAdd a b | ESub a b | EMul a b | EDiv a b | EIAdd a b => tols_exact a /\ tols_exact b
  | ESimp t a => tol_exact t /\ tols_exact a
  | ENeg a | ESqz a | EMkSum a | EMkList a | ECopy a => tols_exact a
  end.
End Model.

Arguments mkOp {ra}. Arguments word {ra}. Arguments factor {ra}.
Arguments VS {ra}. Arguments VO {ra}. Arguments VL {ra}. Arguments VSum {ra}.

(* ====================== executable scalar instances ====================== *)

(* (1) the integers, tolerance t : Z, keep = |c| > t *)
Definition ZR : ralg :=
  mkRalg Z 0 1 Z.add Z.mul Z.opp
         (fun c => if (c =? 1) || (c =? -1) then Some c else None)
         Z.eqb Z (fun t c => Z.abs c >? t).

(* (2) dyadic Gaussian numbers (re + i im) * 2^ex, unnormalised; exactly the values binary64 /
   complex128 arithmetic produces from small dyadic inputs.  Used only to *run* the model. *)
Definition dg := (Z * Z * Z)%type.
Definition dg_re (x : dg) := fst (fst x).
Definition dg_im (x : dg) := snd (fst x).
Definition dg_ex (x : dg) := snd x.
Definition shl (x n : Z) : Z := x * 2 ^ n.
Definition dg_align (x : dg) (e : Z) : Z * Z := (shl (dg_re x) (dg_ex x - e), shl (dg_im x) (dg_ex x - e)).
Definition dg_add (x y : dg) : dg :=
  let e := Z.min (dg_ex x) (dg_ex y) in
  let a := dg_align x e in let b := dg_align y e in
  (fst a + fst b, snd a + snd b, e).
Definition dg_mul (x y : dg) : dg :=
  (dg_re x * dg_re y - dg_im x * dg_im y, dg_re x * dg_im y + dg_im x * dg_re y, dg_ex x + dg_ex y).
Definition dg_opp (x : dg) : dg := (- dg_re x, - dg_im x, dg_ex x).
Definition dg_eqb (x y : dg) : bool :=
  let e := Z.min (dg_ex x) (dg_ex y) in
  let a := dg_align x e in let b := dg_align y e in
  (fst a =? fst b) && (snd a =? snd b).
(* 1/c exists among the dyadic Gaussians iff |c|^2 is a power of two *)
Definition dg_inv (x : dg) : option dg :=
  let n := dg_re x * dg_re x + dg_im x * dg_im x in
  if n =? 0 then None else
  let k := Z.log2 n in
  if 2 ^ k =? n then Some (dg_re x, - dg_im x, - dg_ex x - k) else None.
(* |c| > t for a real dyadic tolerance t = tn * 2^te  (squares compared exactly) *)
Definition dg_keep (t : Z * Z) (x : dg) : bool :=
  let (tn, te) := t in
  if tn <? 0 then true else
  let n := dg_re x * dg_re x + dg_im x * dg_im x in
  let d := 2 * (dg_ex x - te) in
  if 0 <=? d then shl n d >? tn * tn else n >? shl (tn * tn) (- d).
Definition DG : ralg :=
  mkRalg dg (0, 0, 0) (1, 0, 0) dg_add dg_mul dg_opp dg_inv dg_eqb (Z * Z)%type dg_keep.

(* ---- encoding of results as list Z for the correspondence harness ---- *)
Definition enc_list {A} (f : A -> list Z) (l : list A) : list Z :=
  Z.of_nat (length l) :: flat_map f l.
Definition enc_letter (l : letter) : list Z := l_sym l :: l_dof l :: enc_list (fun q => [q]) (l_qn l).
Definition enc_dg (x : dg) : list Z := [dg_re x; dg_im x; dg_ex x].
Definition enc_op (o : op DG) : list Z := enc_list enc_letter (word o) ++ enc_dg (factor o).
Definition kind_code (k : skind) : Z :=
  match k with KInt => 0 | KFloat => 1 | KCplx => 2 | KNpI => 3 | KNpF => 4 | KNpC => 5 | KArrI => 6 | KArrF => 7 end.
(* tag 0 = raises, 1 = scalar, 2 = Op, 3 = list, 4 = OpSum *)
Definition enc_val (v : option (val DG)) : list Z :=
  match v with
  | None => [0]
  | Some (VS k c) => 1 :: kind_code k :: enc_dg c
  | Some (VO o) => 2 :: enc_op o
  | Some (VL l) => 3 :: enc_list enc_op l
  | Some (VSum l) => 4 :: enc_list enc_op l
  end.
Definition enc_split (r : list (op DG) * dg) : list Z := enc_list enc_op (fst r) ++ enc_dg (snd r).
Definition b2z (b : bool) : Z := if b then 1 else 0.
