(* C08 -- the sweep state machine of renormalizer/mps/gs.py:single_sweep over a version-stamped store.

   The index bookkeeping (loop range, the 2-site `break`, lidx/cidx/ridx, lmethod/rmethod, what GetLR
   reads/contracts/writes for "System" and "Enviro", what Environ._construct writes, which site tensors
   _update_mps stores and where qnidx goes, _switch_direction) is NOT written here: it is imported from
   Gen/SweepSched.v, which tx/sweepsched.py regenerates from the source on every run.  This file only
   gives those definitions a meaning:

   * every site tensor i has a version  sver i : nat, bumped by each store  mps[i] = ...
   * every cached environment (domain, i) holds a STAMP: the list of (site, version) pairs of the site
     tensors that were contracted into it, in contraction order.  L[i] should depend on exactly the
     sites 0..i, R[i] on exactly i..n-1  ([deps]); the sentinels L[-1], R[n] depend on nothing.
   * every disk read and every tensor handed to the local eigenproblem is recorded as an observation
     (found stamp, stamp expected from the current versions); freshness = found = expected.

   Hand-modelled (tied by the event-trace correspondence of harness/c08.py, not by the translator):
   the gauge after ensure_right_canonical / ensure_left_canonical  (to_right, qnidx) = (true, 0) /
   (false, n-1), which the harness reads off the implementation when Environ is constructed.
   No proofs here (Proofs/SweepProofs.v).                                                              *)
From Coq Require Import ZArith List Bool.
Import ListNotations.
From RV Require Import Gen.SweepSched.
Local Open Scope Z_scope.

(* python range(start, stop, step) *)
Definition py_range (start stop step : Z) : list Z :=
  let cnt := if 0 <? step then (stop - start + step - 1) / step
             else if step <? 0 then (start - stop - step - 1) / (- step) else 0 in
  map (fun k => start + step * Z.of_nat k) (seq 0 (Z.to_nat cnt)).

(* [a, b) *)
Definition zrange (a b : Z) : list Z := map (fun k => a + Z.of_nat k) (seq 0 (Z.to_nat (b - a))).

(* ---------------------------------------------------------------- the stamped store *)
Definition stamp := list (Z * nat).

Record store := mkStore { sver : Z -> nat; envL : Z -> option stamp; envR : Z -> option stamp }.

Definition env_get (s : store) (d : bool) (i : Z) : option stamp := if d then envL s i else envR s i.
Definition env_set (s : store) (d : bool) (i : Z) (v : stamp) : store :=
  if d then mkStore (sver s) (fun j => if j =? i then Some v else envL s j) (envR s)
  else mkStore (sver s) (envL s) (fun j => if j =? i then Some v else envR s j).
Definition bump (s : store) (i : Z) : store :=
  mkStore (fun j => if j =? i then S (sver s j) else sver s j) (envL s) (envR s).

(* the sites environment (d, i) must have been built from, and the stamp it must carry now *)
Definition deps (n : Z) (d : bool) (i : Z) : list Z := if d then zrange 0 (i + 1) else zrange i n.
Definition current (n : Z) (s : store) (d : bool) (i : Z) : stamp := map (fun j => (j, sver s j)) (deps n d i).
(* contract_one_site(environ, mps[site], mpo[site], domain): the L environment grows to the right *)
Definition extend (s : store) (d : bool) (site : Z) (t : stamp) : stamp :=
  if d then t ++ [(site, sver s site)] else (site, sver s site) :: t.

(* ---------------------------------------------------------------- events and observations *)
Inductive event :=
| EvConstruct (isL : bool)
| EvGet (isL : bool) (i : Z) (system : bool)      (* Environ.GetLR(domain, i, method=...) entered *)
| EvRead (isL : bool) (i : Z)                      (* Environ.read *)
| EvWrite (isL : bool) (i : Z)                     (* Environ.write *)
| EvSolve (c : list Z)                             (* eigh_direct / eigh_iterative at centre c *)
| EvSet (i : Z)                                    (* MatrixProduct.__setitem__ on the sweep state *)
| EvSwitch.                                        (* _switch_direction *)

Inductive okind := KRead | KUse.                   (* a disk read / a tensor returned by GetLR *)
Record obs := mkObs { o_kind : okind; o_dom : bool; o_idx : Z; o_found : option stamp; o_expect : stamp }.
Definition obs_ok (o : obs) : Prop := o_found o = Some (o_expect o).

Record mstate := mkM {
  to_right : bool; qnidx : Z; sto : store;
  hand : stamp;                  (* stamp of the tensor in hand inside Environ *)
  log : list event;              (* newest first *)
  obsl : list obs }.             (* newest first *)

Definition set_hand (m : mstate) (h : stamp) := mkM (to_right m) (qnidx m) (sto m) h (log m) (obsl m).
Definition set_sto (m : mstate) (s : store) := mkM (to_right m) (qnidx m) s (hand m) (log m) (obsl m).
Definition add_ev (m : mstate) (e : event) := mkM (to_right m) (qnidx m) (sto m) (hand m) (e :: log m) (obsl m).
Definition add_obs (m : mstate) (o : obs) := mkM (to_right m) (qnidx m) (sto m) (hand m) (log m) (o :: obsl m).
Definition set_gauge (m : mstate) (tr : bool) (q : Z) := mkM tr q (sto m) (hand m) (log m) (obsl m).

Definition run_op (n : Z) (m : mstate) (op : eop) : mstate :=
  match op with
  | OpSentinel => set_hand m []
  | OpRead d i =>
      let f := env_get (sto m) d i in
      let m1 := add_obs (add_ev m (EvRead d i)) (mkObs KRead d i f (current n (sto m) d i)) in
      set_hand m1 (match f with Some t => t | None => [] end)
  | OpExtend d site => set_hand m (extend (sto m) d site (hand m))
  | OpWrite d i => add_ev (set_sto m (env_set (sto m) d i (hand m))) (EvWrite d i)
  end.
Definition run_ops (n : Z) (m : mstate) (ops : list eop) : mstate := fold_left (run_op n) ops m.

(* Environ.GetLR(domain, i, mps, mpo, itensor=None, method): the returned tensor is observed *)
Definition getlr (n : Z) (d : bool) (i : Z) (system : bool) (m : mstate) : mstate :=
  let m0 := add_ev m (EvGet d i system) in
  let m1 := if getlr_inrange n i then run_ops n m0 (getlr_ops d system n i) else set_hand m0 [] in
  add_obs m1 (mkObs KUse d i (Some (hand m1)) (current n (sto m1) d i)).

Definition set_site (m : mstate) (i : Z) : mstate := add_ev (set_sto m (bump (sto m) i)) (EvSet i).

(* one pass of the loop body of single_sweep at loop variable imps (the `break` is in sweep_loop) *)
Definition step (two : bool) (n imps : Z) (m : mstate) : mstate :=
  let tr := to_right m in
  let lidx := sweep_lidx two tr n imps in
  let ridx := sweep_ridx two tr n imps in
  let cidx := sweep_cidx two tr n imps in
  let m1 := fold_left (fun m d => getlr n d (if d then lidx else ridx)
                                      (if d then sweep_lsystem two tr else sweep_rsystem two tr) m)
                      sweep_getlr_order m in
  let m2 := add_ev m1 (EvSolve cidx) in
  let m3 := fold_left set_site (upd_writes tr n cidx) m2 in
  set_gauge m3 tr (upd_qnidx tr n (qnidx m3) cidx).

Fixpoint sweep_loop (two : bool) (n : Z) (l : list Z) (m : mstate) : mstate :=
  match l with
  | [] => m
  | imps :: l' => if sweep_break two (to_right m) n imps then m else sweep_loop two n l' (step two n imps m)
  end.

Definition switch (n : Z) (m : mstate) : mstate :=
  add_ev (set_gauge m (switch_to_right (to_right m)) (switch_qnidx (to_right m) n (qnidx m))) EvSwitch.

Definition sweep (two : bool) (n : Z) (m : mstate) : mstate :=
  let tr := to_right m in
  switch n (sweep_loop two n (py_range (iter_start tr n (qnidx m)) (iter_stop tr n (qnidx m)) (iter_step tr n (qnidx m))) m).

Fixpoint run (two : bool) (n : Z) (k : nat) (m : mstate) : mstate :=
  match k with O => m | S k' => run two n k' (sweep two n m) end.

(* Environ(mps, mpo, domain) *)
Definition construct (n : Z) (isL : bool) (m : mstate) : mstate :=
  let m0 := run_ops n (add_ev m (EvConstruct isL)) (cons_pre isL n) in
  fold_left (fun m idx => run_ops n m (cons_body isL n idx))
            (py_range (cons_start isL n) (cons_stop isL n) (cons_step isL n)) m0.

Definition empty_store (sv : Z -> nat) : store := mkStore sv (fun _ => None) (fun _ => None).

(* state when optimize_mps enters its sweep loop: gauge prepared (hand-modelled), environments built *)
Definition init (n : Z) (isL : bool) (sv : Z -> nat) : mstate :=
  construct n isL (mkM (negb isL) (if isL then n - 1 else 0) (empty_store sv) [] [] []).

Definition optimize (two : bool) (n : Z) (input_left_canonical : bool) (sweeps : nat) (sv : Z -> nat) : mstate :=
  run two n sweeps (init n (init_env_isL input_left_canonical) sv).

(* ---------------------------------------------------------------- projections *)
Definition centres (m : mstate) : list (list Z) :=
  flat_map (fun e => match e with EvSolve c => [c] | _ => [] end) (rev (log m)).

(* centres of one sweep in the order a to_right sweep visits them *)
Definition sweep_centres_right (two : bool) (n : Z) : list (list Z) :=
  map (fun i => if two then [i; i + 1] else [i]) (zrange 0 (if two then n - 1 else n)).
Definition sweep_centres (two : bool) (n : Z) (tr : bool) : list (list Z) :=
  if tr then sweep_centres_right two n else rev (sweep_centres_right two n).
(* direction of sweep number j (0-based) when the first sweep runs in direction tr0 *)
Definition dir_of (tr0 : bool) (j : nat) : bool := if Nat.even j then tr0 else negb tr0.

(* exchange format with the harness: four integers per event *)
Definition b2z (b : bool) : Z := if b then 1 else 0.
Definition event_Z (e : event) : list Z :=
  match e with
  | EvConstruct d => [0; b2z d; 0; 0]
  | EvGet d i s => [1; b2z d; i; b2z s]
  | EvRead d i => [2; b2z d; i; 0]
  | EvWrite d i => [3; b2z d; i; 0]
  | EvSolve c => [4; Z.of_nat (length c); nth 0 c (-9); nth 1 c (-9)]
  | EvSet i => [5; 0; i; 0]
  | EvSwitch => [6; 0; 0; 0]
  end.
Definition trace_Z (m : mstate) : list Z := flat_map event_Z (rev (log m)).
(* number of stale observations (0 expected), computed: used by the harness as a run-time cross-check *)
Definition stamp_eqb (a b : stamp) : bool :=
  (length a =? length b)%nat && forallb (fun p => (fst (fst p) =? fst (snd p)) && (snd (fst p) =? snd (snd p))%nat) (combine a b).
Definition obs_okb (o : obs) : bool := match o_found o with Some t => stamp_eqb t (o_expect o) | None => false end.
Definition stale_count (m : mstate) : Z := Z.of_nat (length (filter (fun o => negb (obs_okb o)) (obsl m))).
