(* C04 -- canonicalisation / lossless compression of a matrix-product chain (model; no proofs here).

   A chain is [list (nat * T3 R)] as in Model/Chain.v (right bond dimension, tensor); the physical
   dimensions [ds] are kept beside it (model.pbond_list; squared for operators / density operators,
   whose two physical indices are fused row-major exactly as NumPy's reshape does -- see [fuse4]).

   One push step (mp.py:_push_cano + _update_ms, resp. the loop body of compress):
     right-moving, centre i : the site tensor t (dl,dp,dr) is read as the matrix  M[(l,p), r]  (row-major),
        (k,U,V) := dec i true (dl*dp) dr M;   site i := U reshaped (dl,dp,k);  site i+1 := V . t_{i+1}
     left-moving,  centre i : M[l, (p,r)],  (k,U,V) := dec i false dl (dp*dr) M;
        site i := V reshaped (k,dp,dr);  site i-1 := t_{i-1} . U
   [dec] is the external kernel (svd_qn with QR=True: blockwise scipy qr / rq; in compress: blockwise SVD
   with the singular values absorbed into one factor).  Its contract [dec_ok] is stated below; theorems
   in Proofs/CanoProofs.v hold for every [dec] satisfying the part of the contract they name.
   The sweep is a fold of push steps over the schedule produced by the GENERATED bookkeeping code
   (Gen/CanoSched.v: canonicalise, compress, ensure_left/right_canonical).                                            *)
From Coq Require Import List Arith ZArith Bool.
Import ListNotations.
From RV Require Import Base.CRing Base.BigSum Model.Chain Gen.CanoSched.

Section Cano.
Variable R : CRing.

Definition mat := nat -> nat -> R.
Definition chain := list (nat * T3 R).
Definition kernel := nat -> bool -> nat -> nat -> mat -> nat * mat * mat.

Definition dK (x : nat * mat * mat) : nat := fst (fst x).
Definition dU (x : nat * mat * mat) : mat := snd (fst x).
Definition dV (x : nat * mat * mat) : mat := snd x.

Definition delta (a b : nat) : R := if Nat.eqb a b then r1 R else r0 R.

(* ---- the contract of the decomposition kernel ---- *)
Definition dec_factor (dec : kernel) : Prop :=
  forall gi dir rows cols M i j, i < rows -> j < cols ->
    M i j = sumn (dK (dec gi dir rows cols M))
                 (fun a => rmul R (dU (dec gi dir rows cols M) i a) (dV (dec gi dir rows cols M) a j)).
Definition dec_bound (dec : kernel) : Prop :=
  forall gi dir rows cols M, dK (dec gi dir rows cols M) <= Nat.min rows cols.
(* orthonormal columns of U scaled by the weight w (w = 1 for states and density operators) *)
Definition ucols_orth (w : R) (rows k : nat) (U : mat) : Prop :=
  forall a b, a < k -> b < k ->
    sumn rows (fun i => rmul R (rcj R (U i a)) (U i b)) = rmul R w (delta a b).
Definition vrows_orth (w : R) (cols k : nat) (V : mat) : Prop :=
  forall a b, a < k -> b < k ->
    sumn cols (fun j => rmul R (rcj R (V a j)) (V b j)) = rmul R w (delta a b).
Definition dec_iso (dec : kernel) : Prop :=
  forall gi rows cols M,
    ucols_orth (r1 R) rows (dK (dec gi true rows cols M)) (dU (dec gi true rows cols M)) /\
    vrows_orth (r1 R) cols (dK (dec gi false rows cols M)) (dV (dec gi false rows cols M)).
(* operators: the kept factor is an isometry only up to a per-call weight (norm shuffling of _update_ms) *)
Definition dec_iso_scaled (dec : kernel) : Prop :=
  forall gi rows cols M,
    (exists w, ucols_orth w rows (dK (dec gi true rows cols M)) (dU (dec gi true rows cols M))) /\
    (exists w, vrows_orth w cols (dK (dec gi false rows cols M)) (dV (dec gi false rows cols M))).
Definition dec_ok (dec : kernel) : Prop := dec_factor dec /\ dec_bound dec /\ dec_iso dec.

(* _update_ms for Mpo: u *= norm, vt /= norm (to_right) / u /= norm, vt *= norm (to_left):
   the two factors are rescaled by cu, cv with cu * cv = 1 *)
Definition rescale (sc : nat -> bool -> nat -> nat -> mat -> R * R) (dec : kernel) : kernel :=
  fun gi dir rows cols M =>
    let x := dec gi dir rows cols M in
    let c := sc gi dir rows cols M in
    (dK x, fun i a => rmul R (fst c) (dU x i a), fun a j => rmul R (snd c) (dV x a j)).
Definition scale_ok (sc : nat -> bool -> nat -> nat -> mat -> R * R) : Prop :=
  forall gi dir rows cols M, rmul R (fst (sc gi dir rows cols M)) (snd (sc gi dir rows cols M)) = r1 R.

(* compress: keep the first m_trunc columns *)
Definition trunc (mt : nat -> nat -> nat) (dec : kernel) : kernel :=
  fun gi dir rows cols M =>
    let x := dec gi dir rows cols M in (Nat.min (mt gi (dK x)) (dK x), dU x, dV x).
(* "nothing non-zero is cut": every dropped column of U or the matching row of V vanishes *)
Definition lossless (mt : nat -> nat -> nat) (dec : kernel) : Prop :=
  forall gi dir rows cols M a, mt gi (dK (dec gi dir rows cols M)) <= a -> a < dK (dec gi dir rows cols M) ->
    (forall i, i < rows -> dU (dec gi dir rows cols M) i a = r0 R) \/
    (forall j, j < cols -> dV (dec gi dir rows cols M) a j = r0 R).

(* ---- reshapes (row-major) ---- *)
Definition mat_r (dp : nat) (t : T3 R) : mat := fun x j => t (x / dp) (x mod dp) j.     (* rows (l,p) *)
Definition mat_l (dr : nat) (t : T3 R) : mat := fun l y => t l (y / dr) (y mod dr).     (* columns (p,r) *)
Definition site_u (dp : nat) (U : mat) : T3 R := fun l p a => U (l * dp + p) a.
Definition site_v (dr : nat) (V : mat) : T3 R := fun a p r => V a (p * dr + r).
Definition absorb_v (dr : nat) (V : mat) (t2 : T3 R) : T3 R :=
  fun a p r => sumn dr (fun j => rmul R (V a j) (t2 j p r)).
Definition absorb_u (dm : nat) (t1 : T3 R) (U : mat) : T3 R :=
  fun l p a => sumn dm (fun j => rmul R (t1 l p j) (U j a)).

Section Sweep.
Variable dec : kernel.

(* push the centre from site i to i+1; dl = left dimension of the head of ts; gi = global site index *)
Fixpoint push_r (gi dl : nat) (ds : list nat) (ts : chain) (i : nat) : chain :=
  match i, ds, ts with
  | O, dp :: _, (dr, t) :: (dr2, t2) :: b =>
      let x := dec gi true (dl * dp) dr (mat_r dp t) in
      (dK x, site_u dp (dU x)) :: (dr2, absorb_v dr (dV x) t2) :: b
  | S i', _ :: ds', (dr, t) :: ts' => (dr, t) :: push_r gi dr ds' ts' i'
  | _, _, _ => ts
  end.

(* push the centre from site i'+1 to i' *)
Fixpoint push_l (gi : nat) (ds : list nat) (ts : chain) (i' : nat) : chain :=
  match i', ds, ts with
  | O, _ :: dp :: _, (dm, t1) :: (dr, t) :: b =>
      let x := dec gi false dm (dp * dr) (mat_l dr t) in
      (dK x, absorb_u dm t1 (dU x)) :: (dr, site_v dr (dV x)) :: b
  | S j, _ :: ds', x :: ts' => x :: push_l gi ds' ts' j
  | _, _, _ => ts
  end.

Definition push (dir : bool) (ds : list nat) (ts : chain) (i : nat) : chain :=
  if dir then push_r i 1 ds ts i else match i with O => ts | S i' => push_l i ds ts i' end.

(* the sweep: fold of push steps over a schedule (list of python site indices) *)
Definition sweep (dir : bool) (ds : list nat) (tr : list Z) (ts : chain) : chain :=
  fold_left (fun ts idx => push dir ds ts (Z.to_nat idx)) tr ts.
End Sweep.

(* ---- a matrix product with prefactor and schedule state ---- *)
Record mp := { m_chain : chain; m_coeff : R; m_st : sst }.

Definition run (dec : kernel) (ds : list nat) (dir : bool) (m : mp) (r : res) : option mp :=
  match r with
  | None => None
  | Some (tr, s') => Some {| m_chain := sweep dec dir ds tr (m_chain m); m_coeff := m_coeff m; m_st := s' |}
  end.

Definition canonicalise_mp (dec : kernel) (ds : list nat) (m : mp) (stop : option Z) : option mp :=
  run dec ds (to_right (m_st m)) m (canonicalise (m_st m) stop).
Definition compress_mp (dec : kernel) (mt : nat -> nat -> nat) (ds : list nat) (m : mp) : option mp :=
  run (trunc mt dec) ds (to_right (m_st m)) m (compress (m_st m)).
Definition ensure_left_mp (dec : kernel) (ds : list nat) (m : mp) (chk : bool) : option mp :=
  run dec ds true m (ensure_left_canonical (m_st m) chk).
Definition ensure_right_mp (dec : kernel) (ds : list nat) (m : mp) (chk : bool) : option mp :=
  run dec ds false m (ensure_right_canonical (m_st m) chk).

(* ---- observables of a chain ---- *)
Definition dims (ts : chain) : list nat := map fst ts.                 (* right bond dimension of every site *)
Definition cfg_ok (ds s : list nat) : Prop := Forall2 lt s ds.         (* a basis configuration *)
Definition prod (l : list nat) : nat := fold_right Nat.mul 1 l.

(* site j (left dimension dl, physical dp, right d) is a left / right isometry with weight w *)
Definition left_iso (w : R) (dl dp d : nat) (t : T3 R) : Prop :=
  forall a b, a < d -> b < d ->
    sumn dl (fun l => sumn dp (fun p => rmul R (rcj R (t l p a)) (t l p b))) = rmul R w (delta a b).
Definition right_iso (w : R) (dl dp d : nat) (t : T3 R) : Prop :=
  forall a b, a < dl -> b < dl ->
    sumn dp (fun p => sumn d (fun r => rmul R (rcj R (t a p r)) (t b p r))) = rmul R w (delta a b).

(* P holds at each of the first c sites / at every site *)
Fixpoint prefixP (P : nat -> nat -> nat -> T3 R -> Prop) (c dl : nat) (ds : list nat) (ts : chain) : Prop :=
  match c with
  | O => True
  | S c' => match ds, ts with
            | dp :: ds', (d, t) :: ts' => P dl dp d t /\ prefixP P c' d ds' ts'
            | _, _ => False
            end
  end.
Fixpoint allP (P : nat -> nat -> nat -> T3 R -> Prop) (dl : nat) (ds : list nat) (ts : chain) : Prop :=
  match ds, ts with
  | dp :: ds', (d, t) :: ts' => P dl dp d t /\ allP P d ds' ts'
  | [], [] => True
  | _, _ => False
  end.
(* P holds at every site with index > c *)
Fixpoint afterP (P : nat -> nat -> nat -> T3 R -> Prop) (c dl : nat) (ds : list nat) (ts : chain) : Prop :=
  match ds, ts with
  | _ :: ds', (d, _) :: ts' => match c with O => allP P d ds' ts' | S c' => afterP P c' d ds' ts' end
  | _, _ => False
  end.

(* operators / density operators: fuse the two physical indices (pu,pd) -> pu*dd+pd *)
Definition fuse4 (dd : nat) (t : T4 R) : T3 R := fun l p r => t l (p / dd) (p mod dd) r.

End Cano.

Arguments dK {R} x.
Arguments dU {R} x.
Arguments dV {R} x.
Arguments delta {R} a b.
Arguments m_chain {R} m.
Arguments m_coeff {R} m.
Arguments m_st {R} m.
