(* Quantum-number labels on tree tensor networks (renormalizer/tn/tree.py), on top of Model/Ttns.v (C11).

   Every TreeNodeTensor stores `qn`: one label per index of its PARENT bond = total charge of the sub-tree hanging
   on that bond ("the quantum number from the tensor to its parent").  There is no movable centre: the root's
   parent bond has dimension 1 and carries qntot (TTNBase.qntot = root.qn[0]).
     TTNS.add    : non-root nodes  qn = concatenate(node1.qn, node2.qn);  root  qn = node1.qn
     TTNO.apply  : qn = add_outer(snode.qn, onode.qn).reshape(ds * do)      (index k_s * d_o + k_o)
     TTNS.scale  : labels unchanged (root tensor *= val); the prefactors of TTNS.add are folded into the root tensor
   No proofs here (Proofs/TtnsQnProofs.v). *)
From Coq Require Import List Arith Bool ZArith.
Import ListNotations.
From RV Require Import Base.CRing Base.BigSum Model.Chain Model.Ttns Model.Qn.

(* label tree, same topology as the state: labels of the parent bond of each node *)
Inductive qtree (A : Type) : Type := QNode (q : list A) (gs : list (qtree A)).
Arguments QNode {A} q gs.
Definition qlab {A} (g : qtree A) : list A := match g with QNode q _ => q end.
Definition qch {A} (g : qtree A) : list (qtree A) := match g with QNode _ gs => gs end.
Fixpoint qmap {A B} (f : A -> B) (g : qtree A) : qtree B :=
  match g with QNode q gs => QNode (map f q) (map (qmap f) gs) end.

(* charges of the physical states: per node, per basis set of the node, per basis state *)
Inductive stree (A : Type) : Type := SNode (sg : list (list A)) (cs : list (stree A)).
Arguments SNode {A} sg cs.
Fixpoint smap {A B} (f : A -> B) (s : stree A) : stree B :=
  match s with SNode sg cs => SNode (map (map f) sg) (map (smap f) cs) end.

Section Ops.
Variable L : LabOps.
Fixpoint qadd_gen (root : bool) (a b : qtree (lab L)) {struct a} : qtree (lab L) :=
  match a, b with
  | QNode qa ga, QNode qb gb =>
    QNode (if root then qa else qa ++ qb)
      ((fix go (ga gb : list (qtree (lab L))) {struct ga} : list (qtree (lab L)) :=
          match ga, gb with x :: ga', y :: gb' => qadd_gen false x y :: go ga' gb' | _, _ => [] end) ga gb)
  end.
Definition qadd := qadd_gen true.
Fixpoint qapply (s o : qtree (lab L)) {struct s} : qtree (lab L) :=
  match s, o with
  | QNode qs gs, QNode qo go =>
    QNode (@outer L qs qo)
      ((fix go' (gs go : list (qtree (lab L))) {struct gs} : list (qtree (lab L)) :=
          match gs, go with x :: gs', y :: go'' => qapply x y :: go' gs' go'' | _, _ => [] end) gs go)
  end.
Fixpoint qtree_eqb (a b : qtree (lab L)) {struct a} : bool :=
  match a, b with
  | QNode qa ga, QNode qb gb =>
    (fix l1 (x y : list (lab L)) := match x, y with [], [] => true | u :: x', v :: y' => leqb L u v && l1 x' y' | _, _ => false end) qa qb
    && (fix go (ga gb : list (qtree (lab L))) {struct ga} : bool :=
          match ga, gb with [], [] => true | x :: ga', y :: gb' => qtree_eqb x y && go ga' gb' | _, _ => false end) ga gb
  end.
End Ops.
Arguments qadd_gen {L} root a b.
Arguments qadd {L} a b.
Arguments qapply {L} s o.
Arguments qtree_eqb {L} a b.

(* ------------------------------------------------------------------ validity (one component) *)
Fixpoint sigsum (sg : list (list Z)) (ph : list nat) : Z :=
  match sg, ph with
  | s :: sg', p :: ph' => (nth p s 0 + sigsum sg' ph')%Z
  | _, _ => 0%Z
  end.
(* sum of the children's labels at the child bond indices ks *)
Fixpoint sumlab (gs : list (qtree Z)) (ks : list nat) : Z :=
  match gs, ks with
  | g :: gs', k :: ks' => (nth k (qlab g) 0 + sumlab gs' ks')%Z
  | _, _ => 0%Z
  end.

Section Valid.
Variable R : CRing.

Fixpoint tvalid (st : stree Z) (t : ttree R) (g : qtree Z) {struct t} : Prop :=
  match t, g, st with
  | TNode _ _ d T cs, QNode q gs, SNode sg ss =>
    length q = d /\
    (forall ks ph p, all_lt (map (tdim R) cs) ks = true -> (p < d)%nat ->
       (sumlab gs ks + sigsum sg ph)%Z <> nth p q 0%Z -> T ks ph p = r0 R) /\
    (fix go (cs : list (ttree R)) (gs : list (qtree Z)) (ss : list (stree Z)) {struct cs} : Prop :=
       match cs, gs, ss with
       | [], [], [] => True
       | c :: cs', g1 :: gs', s1 :: ss' => tvalid s1 c g1 /\ go cs' gs' ss'
       | _, _, _ => False
       end) cs gs ss
  end.
Fixpoint tvalids (cs : list (ttree R)) (gs : list (qtree Z)) (ss : list (stree Z)) {struct cs} : Prop :=
  match cs, gs, ss with
  | [], [], [] => True
  | c :: cs', g1 :: gs', s1 :: ss' => tvalid s1 c g1 /\ tvalids cs' gs' ss'
  | _, _, _ => False
  end.

(* operator: charge of an entry = charge(up) - charge(down) *)
Fixpoint ovalid (st : stree Z) (o : otree R) (g : qtree Z) {struct o} : Prop :=
  match o, g, st with
  | ONode _ d Ot cs, QNode q gs, SNode sg ss =>
    length q = d /\
    (forall ks pu pdn p, all_lt (map (odim R) cs) ks = true -> (p < d)%nat ->
       (sumlab gs ks + sigsum sg pu - sigsum sg pdn)%Z <> nth p q 0%Z -> Ot ks pu pdn p = r0 R) /\
    (fix go (cs : list (otree R)) (gs : list (qtree Z)) (ss : list (stree Z)) {struct cs} : Prop :=
       match cs, gs, ss with
       | [], [], [] => True
       | c :: cs', g1 :: gs', s1 :: ss' => ovalid s1 c g1 /\ go cs' gs' ss'
       | _, _, _ => False
       end) cs gs ss
  end.
Fixpoint ovalids (cs : list (otree R)) (gs : list (qtree Z)) (ss : list (stree Z)) {struct cs} : Prop :=
  match cs, gs, ss with
  | [], [], [] => True
  | c :: cs', g1 :: gs', s1 :: ss' => ovalid s1 c g1 /\ ovalids cs' gs' ss'
  | _, _, _ => False
  end.

(* whole state: the root's parent bond has dimension 1 and carries qntot *)
Definition ttns_qn_valid (st : stree Z) (t : ttree R) (g : qtree Z) (qtot : Z) : Prop :=
  tvalid st t g /\ tdim R t = 1%nat /\ qlab g = [qtot].

(* total charge of a configuration (one list of physical indices per node, pre-order, as tamp reads it) *)
Fixpoint tcharge (st : stree Z) (t : ttree R) (s : list (list nat)) {struct t} : Z :=
  match t, st, s with
  | TNode _ _ _ _ cs, SNode sg ss, ph :: rest =>
    (sigsum sg ph +
     (fix go (cs : list (ttree R)) (ss : list (stree Z)) (rest : list (list nat)) {struct cs} : Z :=
        match cs, ss with
        | c :: cs', s1 :: ss' => tcharge s1 c (firstn (tsize R c) rest) + go cs' ss' (skipn (tsize R c) rest)
        | _, _ => 0
        end) cs ss rest)%Z
  | _, _, _ => 0%Z
  end.
Fixpoint tcharges (cs : list (ttree R)) (ss : list (stree Z)) (rest : list (list nat)) {struct cs} : Z :=
  match cs, ss with
  | c :: cs', s1 :: ss' => (tcharge s1 c (firstn (tsize R c) rest) + tcharges cs' ss' (skipn (tsize R c) rest))%Z
  | _, _ => 0%Z
  end.

(* support of a node tensor: the list of index tuples  children ++ physical ++ [parent]  that may be non-zero *)
Inductive ptree : Type := PNode (supp : list (list nat)) (cs : list ptree).
Fixpoint has_tsupport (pt : ptree) (t : ttree R) {struct t} : Prop :=
  match t, pt with
  | TNode _ _ _ T cs, PNode supp ps =>
    (forall ks ph p, ~ In (ks ++ ph ++ [p]) supp -> T ks ph p = r0 R) /\
    (fix go (cs : list (ttree R)) (ps : list ptree) {struct cs} : Prop :=
       match cs, ps with
       | [], [] => True
       | c :: cs', p1 :: ps' => has_tsupport p1 c /\ go cs' ps'
       | _, _ => False
       end) cs ps
  end.
Fixpoint has_tsupports (cs : list (ttree R)) (ps : list ptree) {struct cs} : Prop :=
  match cs, ps with
  | [], [] => True
  | c :: cs', p1 :: ps' => has_tsupport p1 c /\ has_tsupports cs' ps'
  | _, _ => False
  end.
(* dimensions of the tree agree with the label lists *)
Fixpoint dims_agree (t : ttree R) (g : qtree Z) {struct t} : Prop :=
  match t, g with
  | TNode _ _ d _ cs, QNode q gs =>
    length q = d /\
    (fix go (cs : list (ttree R)) (gs : list (qtree Z)) {struct cs} : Prop :=
       match cs, gs with [], [] => True | c :: cs', g1 :: gs' => dims_agree c g1 /\ go cs' gs' | _, _ => False end) cs gs
  end.
Fixpoint dims_agrees (cs : list (ttree R)) (gs : list (qtree Z)) {struct cs} : Prop :=
  match cs, gs with [], [] => True | c :: cs', g1 :: gs' => dims_agree c g1 /\ dims_agrees cs' gs' | _, _ => False end.
End Valid.

Arguments tvalid {R} st t g.
Arguments tvalids {R} cs gs ss.
Arguments ovalid {R} st o g.
Arguments ovalids {R} cs gs ss.
Arguments ttns_qn_valid {R} st t g qtot.
Arguments tcharge {R} st t s.
Arguments tcharges {R} cs ss rest.
Arguments has_tsupport {R} pt t.
Arguments has_tsupports {R} cs ps.
Arguments dims_agree {R} t g.
Arguments dims_agrees {R} cs gs.

(* ------------------------------------------------------------------ boolean checker over exported supports *)
(* one node: nc children, np physical indices; every supported tuple has nc + np + 1 entries and satisfies the equation *)
Definition node_okb (sg : list (list Z)) (q : list Z) (gs : list (qtree Z)) (supp : list (list nat)) : bool :=
  let nc := length gs in let np := length sg in
  forallb (fun idx =>
     Nat.eqb (length idx) (nc + np + 1) &&
     Z.eqb (sumlab gs (firstn nc idx) + sigsum sg (firstn np (skipn nc idx)))%Z (nth (nth (nc + np) idx O) q 0%Z)) supp.

Fixpoint tvalidb (st : stree Z) (g : qtree Z) (pt : ptree) {struct pt} : bool :=
  match pt, g, st with
  | PNode supp ps, QNode q gs, SNode sg ss =>
    node_okb sg q gs supp && Nat.eqb (length gs) (length ps) && Nat.eqb (length ss) (length ps) &&
    (fix go (ps : list ptree) (gs : list (qtree Z)) (ss : list (stree Z)) {struct ps} : bool :=
       match ps, gs, ss with
       | [], _, _ => true
       | p1 :: ps', g1 :: gs', s1 :: ss' => tvalidb s1 g1 p1 && go ps' gs' ss'
       | _, _, _ => false
       end) ps gs ss
  end.
Definition ttns_validb (st : stree Z) (g : qtree Z) (pt : ptree) (qtot : Z) : bool :=
  tvalidb st g pt && (match qlab g with [x] => Z.eqb x qtot | _ => false end).

(* vector labels: every component *)
Definition ttns_validbV (ncomp : nat) (st : stree (list Z)) (g : qtree (list Z)) (pt : ptree) (qtot : list Z) : bool :=
  forallb (fun k => ttns_validb (smap (comp k) st) (qmap (comp k) g) pt (comp k qtot)) (seq 0 ncomp).

(* ================================================================== third wave: gauge moves, 2-site update, masks *)
(* the label tree after a move that re-labels the bond between a node and its child i:
   decompose_to_parent: node.qn = qnlnew;  decompose_to_child / compress_node: child.qn = qnr;
   update_2site: node.qn = msqn (cano_parent) or qntot - msqn *)
Definition qset_child {A} (i : nat) (qnew : list A) (g : qtree A) : qtree A :=
  match g with
  | QNode q gs =>
    match nth_error gs i with
    | Some (QNode _ gcs) => QNode q (replace_nth i (QNode qnew gcs) gs)
    | None => g
    end
  end.
Fixpoint qat_path {A} (path : list nat) (f : qtree A -> qtree A) (g : qtree A) : qtree A :=
  match path with
  | [] => f g
  | i :: path' => match g with QNode q gs => QNode q (map_nth i (qat_path path' f) gs) end
  end.
Fixpoint qsubtree {A} (path : list nat) (g : qtree A) : option (qtree A) :=
  match path with
  | [] => Some g
  | i :: path' => match nth_error (qch g) i with Some c => qsubtree path' c | None => None end
  end.
Definition sch {A} (s : stree A) : list (stree A) := match s with SNode _ cs => cs end.
Fixpoint ssubtree {A} (path : list nat) (s : stree A) : option (stree A) :=
  match path with
  | [] => Some s
  | i :: path' => match nth_error (sch s) i with Some c => ssubtree path' c | None => None end
  end.

(* update_2site (fixed version a4feae3: row dimension = prod(qnbigl.shape[:-1])):
     node.tensor   <- m_node   (children of node, physical of node, new bond)
     parent.tensor <- moveaxis(m_parent.reshape([-1] + parent shape without the child axis), 0, ichild)
   i.e. BOTH tensors are replaced and the bond between them is re-labelled. *)
Definition update_2site {R : CRing} (i m : nat) (Nn Pn : tens R) (t : ttree R) : ttree R :=
  match t with
  | TNode l pd d _ cs =>
    match nth_error cs i with
    | Some (TNode lc pdc _ _ ccs) => TNode l pd d Pn (replace_nth i (TNode lc pdc m Nn ccs) cs)
    | None => t
    end
  end.
(* replacing the tensor of the root node of a sub-tree (1-site update) *)
Definition set_tensor {R : CRing} (T' : tens R) (t : ttree R) : ttree R :=
  match t with TNode l pd d _ cs => TNode l pd d T' cs end.

Section TreeMask.
Variable L : LabOps.
Fixpoint sigsumL (z : lab L) (sg : list (list (lab L))) (ph : list nat) : lab L :=
  match sg, ph with
  | s :: sg', p :: ph' => ladd L (nth p s z) (sigsumL z sg' ph')
  | _, _ => z
  end.
Fixpoint sumlabL (z : lab L) (gs : list (qtree (lab L))) (ks : list nat) : lab L :=
  match gs, ks with
  | g :: gs', k :: ks' => ladd L (nth k (qlab g) z) (sumlabL z gs' ks')
  | _, _ => z
  end.
(* get_qnmat(node, include_parent=False): qnbigl = children + physical, qnbigr = qntot - node.qn;
   get_qnmask = all(qnbigl + qnbigr == qntot) *)
Definition tmask1 (qtot : lab L) (sg : list (list (lab L))) (q : list (lab L)) (gs : list (qtree (lab L)))
    (ks ph : list nat) (p : nat) : bool :=
  let z := lzero_like L qtot in
  leqb L (ladd L (ladd L (sumlabL z gs ks) (sigsumL z sg ph)) (lsub L qtot (nth p q z))) qtot.
(* get_qnmat(node, include_parent=True): qnbigl = node's children + physical;
   qnbigr = parent's other children + parent's physical + (qntot - parent.qn) *)
Definition tmask2 (qtot : lab L) (sgn : list (list (lab L))) (gsn : list (qtree (lab L)))
    (sgp : list (list (lab L))) (qp : list (lab L)) (gso : list (qtree (lab L)))
    (ksn phn kso php : list nat) (pp : nat) : bool :=
  let z := lzero_like L qtot in
  leqb L (ladd L (ladd L (sumlabL z gsn ksn) (sigsumL z sgn phn))
                 (ladd L (ladd L (sumlabL z gso kso) (sigsumL z sgp php)) (lsub L qtot (nth pp qp z)))) qtot.
End TreeMask.
Arguments tmask1 {L} qtot sg q gs ks ph p.
Arguments tmask2 {L} qtot sgn gsn sgp qp gso ksn phn kso php pp.

(* all index tuples of an array with the given dimensions, row-major (ndarray.ravel() order) *)
Fixpoint all_tuples (dims : list nat) : list (list nat) :=
  match dims with
  | [] => [[]]
  | d :: ds => flat_map (fun i => map (fun t => i :: t) (all_tuples ds)) (seq 0 d)
  end.
Definition tmask1_flat {L} (qtot : lab L) (sg : list (list (lab L))) (q : list (lab L)) (gs : list (qtree (lab L))) : list bool :=
  let nc := length gs in let np := length sg in
  map (fun idx => tmask1 qtot sg q gs (firstn nc idx) (firstn np (skipn nc idx)) (nth (nc + np) idx O))
      (all_tuples (map (fun g => length (qlab g)) gs ++ map (@length _) sg ++ [length q])).
Definition tmask2_flat {L} (qtot : lab L) (sgn : list (list (lab L))) (gsn : list (qtree (lab L)))
    (sgp : list (list (lab L))) (qp : list (lab L)) (gso : list (qtree (lab L))) : list bool :=
  let a := length gsn in let b := length sgn in let c := length gso in let d := length sgp in
  map (fun idx => tmask2 qtot sgn gsn sgp qp gso (firstn a idx) (firstn b (skipn a idx)) (firstn c (skipn (a + b) idx))
                         (firstn d (skipn (a + b + c) idx)) (nth (a + b + c + d) idx O))
      (all_tuples (map (fun g => length (qlab g)) gsn ++ map (@length _) sgn ++ map (fun g => length (qlab g)) gso
                   ++ map (@length _) sgp ++ [length qp])).

(* vector labels on trees: every component *)
Definition ttns_qn_validV {R : CRing} (nc : nat) (st : stree (list Z)) (t : ttree R) (g : qtree (list Z)) (qtot : list Z) : Prop :=
  forall k, (k < nc)%nat -> ttns_qn_valid (smap (comp k) st) t (qmap (comp k) g) (comp k qtot).
Definition ovalidV {R : CRing} (nc : nat) (st : stree (list Z)) (o : otree R) (g : qtree (list Z)) : Prop :=
  forall k, (k < nc)%nat -> ovalid (smap (comp k) st) o (qmap (comp k) g).
