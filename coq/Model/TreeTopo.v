(* C02 -- tree topologies of renormalizer/tn/treebase.py (no proofs here; see Proofs/TreeTopoProofs.v).

   [tree]      the shape of a BasisTree: a node carries k basis sets (k physical columns of the term
               table) and an ordered list of children.  A purely virtual node is a node whose only
               basis set is a BasisDummy, i.e. k = 1 and the column always holds that site's identity.
   [btree A]   the same tree with the basis sets named: [Real a] is an entry of the caller's basis list,
               [Dummy i] the BasisDummy((label, i)) created by a builder.
   Node orders: [preorder] = Tree.preorder_list (= node_list), [postorder] = Tree.postorder_list.
   Builders: BasisTree.linear / binary / general_mctdh (three ways of forming the elementary nodes) /
   t3ns.  The recursive builders recurse on list *lengths* in Python; here they are structurally
   recursive on a fuel argument, the top-level definitions supply enough fuel, and the out-of-fuel
   branches are shown unreachable (fuel-irrelevance lemmas).  approximate_partition is the generated
   Gen/Partition.v function, never a hand copy.                                                     *)
From Coq Require Import ZArith List Arith Bool.
Import ListNotations.
From RV Require Import Gen.Partition.

(* ------------------------------------------------------------------ shapes *)
Inductive tree := Node (k : nat) (ch : list tree).

Definition nsets (t : tree) : nat := match t with Node k _ => k end.
Definition children (t : tree) : list tree := match t with Node _ ch => ch end.
Definition arity (t : tree) : nat := length (children t).

Fixpoint size (t : tree) : nat := match t with Node _ ch => S (list_sum (map size ch)) end.
(* number of physical columns (basis sets) in the subtree *)
Fixpoint width (t : tree) : nat := match t with Node k ch => list_sum (map width ch) + k end.

(* Tree.preorder_list / Tree.postorder_list: the nodes (as subtrees) *)
Fixpoint preorder (t : tree) : list tree := match t with Node _ ch => t :: flat_map preorder ch end.
Fixpoint postorder (t : tree) : list tree := match t with Node _ ch => flat_map postorder ch ++ [t] end.

(* what the construction loop reads off a node: (number of children, n_sets) *)
Definition mk_of (t : tree) : nat * nat := (arity t, nsets t).
Definition pmk (t : tree) : list (nat * nat) := map mk_of (postorder t).

(* ------------------------------------------------------------------ named basis sets *)
Inductive basis (A : Type) := Real (a : A) | Dummy (i : nat).
Arguments Real {A} a.
Arguments Dummy {A} i.

Inductive btree (A : Type) := BNode (bs : list (basis A)) (ch : list (btree A)).
Arguments BNode {A} bs ch.

(* a counter threaded left to right through a list of calls (the `nonlocal dummy_i` of the builders) *)
Fixpoint thread {X Y : Type} (f : X -> nat -> Y * nat) (xs : list X) (c : nat) : list Y * nat :=
  match xs with
  | [] => ([], c)
  | x :: xs' => let (y, c1) := f x c in let (ys, c2) := thread f xs' c1 in (y :: ys, c2)
  end.
Fixpoint thread_cat {X Y : Type} (f : X -> nat -> list Y * nat) (xs : list X) (c : nat) : list Y * nat :=
  match xs with
  | [] => ([], c)
  | x :: xs' => let (y, c1) := f x c in let (ys, c2) := thread_cat f xs' c1 in (y ++ ys, c2)
  end.

Section Named.
Context {A : Type}.

Fixpoint shape (t : btree A) : tree := match t with BNode bs ch => Node (length bs) (map shape ch) end.

Fixpoint bpre (t : btree A) : list (list (basis A)) := match t with BNode bs ch => bs :: flat_map bpre ch end.
Fixpoint bpost (t : btree A) : list (list (basis A)) := match t with BNode bs ch => flat_map bpost ch ++ [bs] end.

(* BasisTree.basis_list (pre-order) and basis_list_postorder (the column order of the term table) *)
Definition basis_list (t : btree A) : list (basis A) := concat (bpre t).
Definition basis_list_postorder (t : btree A) : list (basis A) := concat (bpost t).

Fixpoint reals (l : list (basis A)) : list A :=
  match l with [] => [] | Real a :: r => a :: reals r | Dummy _ :: r => reals r end.
Fixpoint dummies (l : list (basis A)) : list nat :=
  match l with [] => [] | Real _ :: r => dummies r | Dummy i :: r => i :: dummies r end.

Definition real_basis (t : btree A) : list A := reals (basis_list t).
Definition real_basis_postorder (t : btree A) : list A := reals (basis_list_postorder t).
Definition dummy_ids (t : btree A) : list nat := dummies (basis_list t).

Definition is_real (b : basis A) : bool := match b with Real _ => true | Dummy _ => false end.
(* a node is either made of caller-supplied basis sets only (at least one), or is exactly one dummy *)
Definition node_okb (bs : list (basis A)) : bool :=
  match bs with
  | [Dummy _] => true
  | [] => false
  | _ => forallb is_real bs
  end.
Definition nodes_ok (t : btree A) : bool := forallb node_okb (bpre t).

Definition leaf (l : list A) : btree A := BNode (map Real l) [].

(* ---------------------------------------------------------------- BasisTree.linear *)
Fixpoint linear_from (a : A) (l : list A) : btree A :=
  match l with
  | [] => BNode [Real a] []
  | b :: l' => BNode [Real a] [linear_from b l']
  end.
(* node_list[0] raises IndexError on an empty list *)
Definition linear (l : list A) : option (btree A) :=
  match l with [] => None | a :: l' => Some (linear_from a l') end.

(* ---------------------------------------------------------------- BasisTree.binary *)
(* binary_recursion(node, offspring): the subtree hanging below [a] once it received [offs] *)
Fixpoint bin (fuel : nat) (a : A) (offs : list A) : btree A :=
  match fuel with
  | O => BNode [Real a] (map (fun o => leaf [o]) offs)            (* unreachable, see bin_fuel *)
  | S f =>
    match offs with
    | [] => BNode [Real a] []
    | [o] => BNode [Real a] [bin f o []]
    | o0 :: o1 :: rest =>
        let mid := Nat.div (length rest) 2 in
        BNode [Real a] [bin f o0 (firstn mid rest); bin f o1 (skipn mid rest)]
    end
  end.
Definition binary (l : list A) : option (btree A) :=
  match l with [] => None | a :: l' => Some (bin (length l') a l') end.

(* ---------------------------------------------------------------- BasisTree.general_mctdh *)
(* elementary nodes, contract_primitive = False:
     while tree_order < len(basis_list): node(basis_list[:tree_order]); basis_list = basis_list[tree_order:]
     node(basis_list)                                                                                  *)
Fixpoint chunks (fuel order : nat) (l : list A) : list (list A) :=
  match fuel with
  | O => [l]                                                        (* unreachable for order >= 1 *)
  | S f => if Nat.ltb order (length l) then firstn order l :: chunks f order (skipn order l) else [l]
  end.

(* elementary nodes, contract_primitive = True with a contract_label vector.  At an un-contracted
   position i the for/break loop yields j = 1 + (number of further consecutive un-contracted entries,
   at most tree_order - 1)                                                                          *)
Fixpoint extra (n : nat) (l : list (A * bool)) : nat :=
  match n, l with
  | S n', (_, false) :: l' => S (extra n' l')
  | _, _ => 0
  end.
Fixpoint label_groups (fuel order : nat) (l : list (A * bool)) : list (list A) :=
  match fuel with
  | O => map (fun x => [fst x]) l                                   (* unreachable *)
  | S f =>
    match l with
    | [] => []
    | (a, true) :: l' => [a] :: label_groups f order l'
    | (a, false) :: l' =>
        let e := extra (order - 1) l' in
        (a :: map fst (firstn e l')) :: label_groups f order (skipn e l')
    end
  end.

Inductive mctdh_mode := NoContract | ContractAll | ContractLabel (lab : list bool).

Definition elementary (order : nat) (mode : mctdh_mode) (l : list A) : list (list A) :=
  match mode with
  | NoContract => chunks (length l) order l
  | ContractAll => map (fun a => [a]) l
  | ContractLabel lab => label_groups (length l) order (combine l lab)
  end.

(* recursion(elementary_nodes_): a dummy node numbered in creation (= pre-) order; returns the next
   free dummy number *)
Fixpoint mctdh_rec (fuel : nat) (order : nat) (els : list (btree A)) (ctr : nat) : btree A * nat :=
  match fuel with
  | O => (BNode [Dummy ctr] els, S ctr)                             (* unreachable for order >= 2 *)
  | S f =>
    if Nat.leb (length els) order then (BNode [Dummy ctr] els, S ctr)
    else
      let (ts, c') := thread (mctdh_rec f order) (approximate_partition els (Z.of_nat order)) (S ctr) in
      (BNode [Dummy ctr] ts, c')
  end.

(* `assert len(basis_list) > 1`; with a label vector `assert len(contract_label) == len(basis_list)` *)
Definition general_mctdh (l : list A) (order : nat) (mode : mctdh_mode) : option (btree A) :=
  if Nat.leb (length l) 1 then None
  else if (match mode with ContractLabel lab => negb (Nat.eqb (length lab) (length l)) | _ => false end) then None
  else Some (fst (mctdh_rec (length l) order (map leaf (elementary order mode l)) 0)).

(* ---------------------------------------------------------------- BasisTree.t3ns *)
(* recursion(parent, basis_list_): returns the children it adds to [parent] (none or one) *)
Fixpoint t3_rec (fuel : nat) (bl : list A) (ctr : nat) : list (btree A) * nat :=
  match bl with
  | [] => ([], ctr)
  | [a] => ([leaf [a]], ctr)
  | [a; b] => ([BNode [Real a] [leaf [b]]], ctr)
  | a :: rest =>
    match fuel with
    | O => ([BNode [Real a] [leaf rest]], ctr)                     (* unreachable *)
    | S f =>
      let (ts, c') := thread_cat (t3_rec f) (approximate_partition rest 2%Z) (S ctr) in
      ([BNode [Real a] [BNode [Dummy ctr] ts]], c')
    end
  end.

Definition t3ns (l : list A) : btree A :=
  BNode [Dummy 0] (fst (thread_cat (t3_rec (length l)) (approximate_partition l 3%Z) 1)).

End Named.


(* ------------------------------------------------------------------ trees from add_child calls *)
(* A builder that only attaches existing nodes (BasisTree.linear): node i has the i-th basis list,
   `edges` are the (parent, child) positions in the order of the add_child calls.  add_child raises
   when the child already has a parent, Tree.__init__ asserts that the root has none. *)
Fixpoint tree_of_edges_f {A : Type} (fuel : nat) (nodes : list (list (basis A))) (edges : list (nat * nat)) (root : nat)
  : btree A :=
  match fuel with
  | O => BNode (nth root nodes []) []
  | S f => BNode (nth root nodes [])
                 (map (fun e => tree_of_edges_f f nodes edges (snd e)) (filter (fun e => Nat.eqb (fst e) root) edges))
  end.
Fixpoint nodup_natb (l : list nat) : bool :=
  match l with [] => true | x :: l' => negb (existsb (Nat.eqb x) l') && nodup_natb l' end.
Definition tree_of_edges {A : Type} (n : nat) (nodes : list (list (basis A))) (edges : list (nat * nat)) (root : nat)
  : option (btree A) :=
  if nodup_natb (map snd edges) && negb (existsb (Nat.eqb root) (map snd edges))
  then Some (tree_of_edges_f n nodes edges root) else None.

(* flat export used by the correspondence: pre-order list of (number of children, basis sets) with
   Real a -> a+1 (a : nat), Dummy i -> -(i+1) is done on the harness side; here only the structure *)
Fixpoint bflat {A : Type} (t : btree A) : list (nat * list (basis A)) :=
  match t with BNode bs ch => (length ch, bs) :: flat_map bflat ch end.

(* flat integer encoding of a named tree over nat labels (exchange format with the harness):
   pre-order, per node [number of children; n_sets; codes...], Real a -> a+1, Dummy i -> -(i+1);
   None (the builder raises) -> [-999] *)
Definition enc_basis (b : basis nat) : Z := match b with Real a => Z.of_nat (S a) | Dummy i => (- Z.of_nat (S i))%Z end.
Definition enc_btree (t : btree nat) : list Z :=
  flat_map (fun p => Z.of_nat (fst p) :: Z.of_nat (length (snd p)) :: map enc_basis (snd p)) (bflat t).
Definition enc_obtree (o : option (btree nat)) : list Z := match o with None => [(-999)%Z] | Some t => enc_btree t end.
Fixpoint bools_of (n len : nat) : list bool :=     (* little-endian bits of n, len of them *)
  match len with O => [] | S l => Nat.odd n :: bools_of (Nat.div2 n) l end.
