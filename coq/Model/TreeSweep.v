(* C12 -- schedules of the tree time-evolution schemes of renormalizer/tn/time_evolution.py.

   * [fwd_step] / [bwd_step] : one iteration of the `while stack:` loops of _tdvp_ps_forward /
     _tdvp_ps_backward (explicit stack of (node, ichild) frames, ichild starting at -1, the same
     tests in the same order); [run] iterates with fuel, [None] = fuel exhausted.
   * [fwd] / [bwd] : the structurally recursive description of the same sweeps (proved equal to the
     machines in Proofs/TreeSweepProofs.v).
   * [fwd2] / [bwd2] : _tdvp_ps2_recursion_forward / _backward (recursive in the source as well).
   * [cstep] / [replay] : an independent checker that replays an event list on a tree: position of the
     orthogonality centre, and validity of every environment that an event reads (an environment is
     valid iff none of the node tensors in its dependency cone changed since it was built from valid
     inputs -- the version-stamp discipline expressed with the cone membership of the tree).
   * [chain_ps] : the sweep order of Mps._evolve_tdvp_ps (mps/mps.py) from iter_idx_list/_switch_direction.
   * Section TDRK4 : the stage combination of evolve_prop_and_compress_tdrk4 over an abstract module.

   Events (what the harness logs from the wrapped implementation, same constructors):
     Evolve1 n t         evolve_1site(node n, .., tau = t)           t is the signed step in units of
     Evolve0 c t         evolve_0site on the bond (c, parent c)      the sweep argument (= step/2)
     Evolve2 c p t       evolve_2site(node c) : c merged with its parent p
     QRUp c p            decompose_to_parent(c)       AbsorbUp c p      merge_to_parent(c, .)
     QRDown p i c        decompose_to_child(p, i)     AbsorbDown p i c  merge_to_child(p, i, .)
       (push_cano_to_child = QRDown;AbsorbDown      push_cano_to_parent = QRUp;AbsorbUp)
     EnvChild c          build_children_environ_node(c)   (environment of the bond (c,parent c) seen from the parent)
     EnvParent p i c     build_parent_environ_node(p, i)  (environment of the bond (c,p) seen from c)
     Split2 c p b        update_2site(c, ., cano_parent = b)
   No proofs in this file. *)
From Coq Require Import List ZArith Arith Bool.
Import ListNotations.
Local Open Scope Z_scope.

Inductive tree := Node (id : nat) (ch : list tree).

Definition tid (t : tree) : nat := match t with Node n _ => n end.
Definition tch (t : tree) : list tree := match t with Node _ c => c end.

Fixpoint size (t : tree) : nat := match t with Node _ ch => S (list_sum (map size ch)) end.
Definition edges (t : tree) : nat := (size t - 1)%nat.
Fixpoint ids (t : tree) : list nat := match t with Node n ch => n :: flat_map ids ch end.
(* ids of all non-root nodes = the edges, each named by its child end *)
Definition edge_ids (t : tree) : list nat := flat_map ids (tch t).
Fixpoint postorder (t : tree) : list nat := match t with Node n ch => flat_map postorder ch ++ [n] end.
Fixpoint rev_children (t : tree) : tree := match t with Node n ch => Node n (rev (map rev_children ch)) end.
Fixpoint is_linear (t : tree) : bool :=
  match t with Node _ ch => (length ch <=? 1)%nat && forallb is_linear ch end.
Fixpoint lin (k m : nat) : tree := match m with O => Node k [] | S m' => Node k [lin (S k) m'] end.
(* BasisTree.linear on n sites, ids in pre-order *)
Definition linear (n : nat) : tree := lin 0 (n - 1).

Inductive event :=
| Evolve1 (n : nat) (t : Z)
| Evolve0 (c : nat) (t : Z)
| Evolve2 (c p : nat) (t : Z)
| QRUp (c p : nat)
| AbsorbUp (c p : nat)
| QRDown (p i c : nat)
| AbsorbDown (p i c : nat)
| EnvChild (c : nat)
| EnvParent (p i c : nat)
| Split2 (c p : nat) (cano_parent : bool).

Definition PushToChild (p i c : nat) : list event := [QRDown p i c; AbsorbDown p i c].
Definition PushToParent (c p : nat) : list event := [QRUp c p; AbsorbUp c p].

(* ------------------------------------------------------------------ the explicit-stack machines *)
Record frame := mkF { f_par : option nat; f_node : tree; f_i : Z }.
Record mstate := mkS { stk : list frame; out : list event; err : bool }.

Definition is_nil {A} (l : list A) : bool := match l with [] => true | _ => false end.

(* `snode.children[ichild]` ; a negative index is never produced by the loops (flagged as an error) *)
Definition child_at (ch : list tree) (i : Z) : option tree :=
  if i <? 0 then None else nth_error ch (Z.to_nat i).

(* one iteration of the loop of _tdvp_ps_forward (tau is the sweep argument, i.e. step/2) *)
Definition fwd_step (tau : Z) (s : mstate) : mstate :=
  match stk s with
  | [] => s
  | f :: rest =>
    let n := tid (f_node f) in
    let ch := tch (f_node f) in
    if is_nil ch || (f_i f =? Z.of_nat (length ch) - 1) then
      match f_par f with
      | None =>          (* assert len(stack) == 1 ; stack.pop() *)
        mkS rest (out s ++ [Evolve1 n tau]) (err s || negb (is_nil rest))
      | Some p =>
        mkS rest (out s ++ [Evolve1 n tau; QRUp n p; EnvChild n; Evolve0 n (- tau); AbsorbUp n p]) (err s)
      end
    else
      let i := f_i f + 1 in
      match child_at ch i with
      | None => mkS [] (out s) true
      | Some c =>
        mkS (mkF (Some n) c (-1) :: mkF (f_par f) (f_node f) i :: rest)
            (out s ++ PushToChild n (Z.to_nat i) (tid c) ++ [EnvParent n (Z.to_nat i) (tid c)]) (err s)
      end
  end.

(* one iteration of the loop of _tdvp_ps_backward *)
Definition bwd_step (tau : Z) (s : mstate) : mstate :=
  match stk s with
  | [] => s
  | f :: rest =>
    let n := tid (f_node f) in
    let ch := tch (f_node f) in
    let o1 := if f_i f =? -1 then [Evolve1 n tau] else [] in
    if f_i f =? Z.of_nat (length ch) - 1 then
      mkS rest (out s ++ o1 ++ match f_par f with
                               | Some p => PushToParent n p ++ [EnvChild n]
                               | None => [] end) (err s)
    else
      let i := f_i f + 1 in
      (* rchild = len(children) - 1 - ichild : the children are visited in DEcreasing index (fix 036c1e3) *)
      let r := Z.of_nat (length ch) - 1 - i in
      match child_at ch r with
      | None => mkS [] (out s ++ o1) true
      | Some c =>
        mkS (mkF (Some n) c (-1) :: mkF (f_par f) (f_node f) i :: rest)
            (out s ++ o1 ++ [QRDown n (Z.to_nat r) (tid c); EnvParent n (Z.to_nat r) (tid c);
                             Evolve0 (tid c) (- tau); AbsorbDown n (Z.to_nat r) (tid c)]) (err s)
      end
  end.

(* `while stack:` with fuel; None = the fuel did not suffice *)
Fixpoint run (step : mstate -> mstate) (fuel : nat) (s : mstate) : option mstate :=
  match stk s with
  | [] => Some s
  | _ :: _ => match fuel with O => None | S f => run step f (step s) end
  end.

Definition init (t : tree) : mstate := mkS [mkF None t (-1)] [] false.
Definition ps_forward (fuel : nat) (tau : Z) (t : tree) : option mstate := run (fwd_step tau) fuel (init t).
Definition ps_backward (fuel : nat) (tau : Z) (t : tree) : option mstate := run (bwd_step tau) fuel (init t).
(* number of loop iterations the sweeps need, and the bound of DESIGN §6 *)
Definition iters (t : tree) : nat := (size t + edges t)%nat.
Definition fuel_bound (t : tree) : nat := (2 * size t + edges t)%nat.

(* evolve_tdvp_ps : forward then backward, both with tau/2 (here h) ; events of the whole step *)
Definition ps_step_machine (fuel : nat) (h : Z) (t : tree) : option (list event * bool) :=
  match ps_forward fuel h t, ps_backward fuel h t with
  | Some a, Some b => Some (out a ++ out b, err a || err b)
  | _, _ => None
  end.

(* ------------------------------------------------------------------ recursive descriptions *)
Definition up_fwd (tau : Z) (n : nat) (par : option nat) : list event :=
  match par with
  | None => []
  | Some p => [QRUp n p; EnvChild n; Evolve0 n (- tau); AbsorbUp n p]
  end.
Definition up_bwd (n : nat) (par : option nat) : list event :=
  match par with None => [] | Some p => PushToParent n p ++ [EnvChild n] end.

Fixpoint fwd (tau : Z) (par : option nat) (t : tree) : list event :=
  match t with
  | Node n ch =>
    (fix go (i : nat) (l : list tree) : list event :=
       match l with
       | [] => []
       | c :: l' => PushToChild n i (tid c) ++ [EnvParent n i (tid c)] ++ fwd tau (Some n) c ++ go (S i) l'
       end) O ch
    ++ [Evolve1 n tau] ++ up_fwd tau n par
  end.

Fixpoint bwd (tau : Z) (par : option nat) (t : tree) : list event :=
  match t with
  | Node n ch =>
    [Evolve1 n tau] ++
    (fix go (i : nat) (l : list tree) : list event :=
       match l with
       | [] => []
       | c :: l' => go (S i) l' ++
                    [QRDown n i (tid c); EnvParent n i (tid c); Evolve0 (tid c) (- tau); AbsorbDown n i (tid c)]
                    ++ bwd tau (Some n) c
       end) O ch
    ++ up_bwd n par
  end.

(* the backward sweep as it was before fix 036c1e3 (children in INcreasing index, like the forward sweep);
   kept only to document why the step was not time-symmetric on branching trees *)
Fixpoint bwd_inc (tau : Z) (par : option nat) (t : tree) : list event :=
  match t with
  | Node n ch =>
    [Evolve1 n tau] ++
    (fix go (i : nat) (l : list tree) : list event :=
       match l with
       | [] => []
       | c :: l' => [QRDown n i (tid c); EnvParent n i (tid c); Evolve0 (tid c) (- tau); AbsorbDown n i (tid c)]
                    ++ bwd_inc tau (Some n) c ++ go (S i) l'
       end) O ch
    ++ up_bwd n par
  end.

Definition ps_step (h : Z) (t : tree) : list event := fwd h None t ++ bwd h None t.

(* ------------------------------------------------------------------ two-site scheme *)
Fixpoint envparents (p : nat) (i : nat) (kids : list nat) : list event :=
  match kids with [] => [] | c :: l => EnvParent p i c :: envparents p (S i) l end.
Definition upd_1bond (c p i : nat) : list event := [EnvChild c; EnvParent p i c].
Definition upd_1site (n : nat) (kids : list nat) : list event := EnvChild n :: envparents n 0 kids.
Definition upd_2site (c : nat) (kc : list nat) (p : nat) (kp : list nat) : list event :=
  [EnvChild c; EnvChild p] ++ envparents p 0 kp ++ envparents c 0 kc.

Fixpoint fwd2 (tau : Z) (isroot : bool) (t : tree) : list event :=
  match t with
  | Node n ch =>
    let kn := map tid ch in
    (fix go (i : nat) (l : list tree) : list event :=
       match l with
       | [] => []
       | c :: l' =>
         (match tch c with
          | [] => []
          | _ :: _ => PushToChild n i (tid c) ++ upd_1bond (tid c) n i ++ fwd2 tau false c
          end)
         ++ [Evolve2 (tid c) n tau; Split2 (tid c) n true] ++ upd_2site (tid c) (map tid (tch c)) n kn
         ++ (if isroot && (S i =? length ch)%nat then [] else Evolve1 n (- tau) :: upd_1site n kn)
         ++ go (S i) l'
       end) O ch
  end.

Fixpoint bwd2 (tau : Z) (isroot : bool) (t : tree) : list event :=
  match t with
  | Node n ch =>
    let kn := map tid ch in
    (fix go (i : nat) (l : list tree) : list event :=
       match l with
       | [] => []
       | c :: l' =>
         go (S i) l' ++
         (if isroot && (S i =? length ch)%nat then [] else Evolve1 n (- tau) :: upd_1site n kn)
         ++ [Evolve2 (tid c) n tau; Split2 (tid c) n (is_nil (tch c))] ++ upd_2site (tid c) (map tid (tch c)) n kn
         ++ (match tch c with
             | [] => []
             | _ :: _ => bwd2 tau false c ++ PushToParent (tid c) n ++ upd_1bond (tid c) n i
             end)
       end) O ch
  end.

(* evolve_tdvp_ps2 (its `assert snode.children` holds iff the root has a child) *)
Definition ps2_step (h : Z) (t : tree) : list event := fwd2 h true t ++ bwd2 h true t.

(* ------------------------------------------------------------------ projections, mirror *)
Definition is_evolve (e : event) : bool :=
  match e with Evolve1 _ _ | Evolve0 _ _ | Evolve2 _ _ _ => true | _ => false end.
Definition evolves (l : list event) : list event := filter is_evolve l.
Definition is_env (e : event) : bool :=
  match e with EnvChild _ | EnvParent _ _ _ => true | _ => false end.

(* physical part of a trace: local propagations and moves of the centre, child positions erased *)
Inductive pevent :=
| PE1 (n : nat) (t : Z) | PE0 (c : nat) (t : Z)
| PSplitUp (c p : nat)      (* centre tensor c  ->  bond (c,p)  *)
| PJoinUp (c p : nat)       (* bond (c,p)      ->  tensor p     *)
| PSplitDown (p c : nat)    (* centre tensor p  ->  bond (c,p)  *)
| PJoinDown (p c : nat).    (* bond (c,p)      ->  tensor c     *)
Definition phys1 (e : event) : list pevent :=
  match e with
  | Evolve1 n t => [PE1 n t] | Evolve0 c t => [PE0 c t]
  | QRUp c p => [PSplitUp c p] | AbsorbUp c p => [PJoinUp c p]
  | QRDown p _ c => [PSplitDown p c] | AbsorbDown p _ c => [PJoinDown p c]
  | _ => []
  end.
Definition phys (l : list event) : list pevent := flat_map phys1 l.
(* time reversal of a move of the centre (a propagation keeps its duration) *)
Definition mirror (e : pevent) : pevent :=
  match e with
  | PE1 n t => PE1 n t | PE0 c t => PE0 c t
  | PSplitUp c p => PJoinDown p c | PJoinUp c p => PSplitDown p c
  | PSplitDown p c => PJoinUp c p | PJoinDown p c => PSplitUp c p
  end.

Definition ev1_of (l : list event) : list (nat * Z) :=
  flat_map (fun e => match e with Evolve1 n t => [(n, t)] | _ => [] end) l.
Definition ev0_of (l : list event) : list (nat * Z) :=
  flat_map (fun e => match e with Evolve0 n t => [(n, t)] | _ => [] end) l.
Definition ev2_of (l : list event) : list (nat * Z) :=
  flat_map (fun e => match e with Evolve2 n _ t => [(n, t)] | _ => [] end) l.
Definition time_at (n : nat) (l : list (nat * Z)) : Z :=
  fold_right (fun x a => if (fst x =? n)%nat then snd x + a else a) 0 l.

(* ------------------------------------------------------------------ replay checker *)
Inductive loc := AtNode (n : nat) | OnBond (c : nat).
Definition loc_eqb (a b : loc) : bool :=
  match a, b with
  | AtNode x, AtNode y => (x =? y)%nat
  | OnBond x, OnBond y => (x =? y)%nat
  | _, _ => false
  end.

Fixpoint find_sub (n : nat) (t : tree) : option tree :=
  match t with
  | Node m ch =>
    if (n =? m)%nat then Some t else
      (fix go (l : list tree) : option tree :=
         match l with
         | [] => None
         | c :: l' => match find_sub n c with Some r => Some r | None => go l' end
         end) ch
  end.
Definition memn (x : nat) (l : list nat) : bool := existsb (Nat.eqb x) l.
(* ids of the subtree below (and including) node n of T ; children of n in T *)
Definition cone (T : tree) (n : nat) : list nat := match find_sub n T with Some s => ids s | None => [] end.
Definition kids (T : tree) (n : nat) : list nat := match find_sub n T with Some s => map tid (tch s) | None => [] end.

(* c_ec c : the environment of bond (c, parent c) built from the subtree of c (stored at the parent) is valid;
   c_ep c : the environment of the same bond built from everything outside the subtree of c is valid *)
Record cst := mkC { c_loc : loc; c_ec : nat -> bool; c_ep : nat -> bool }.

(* the tensor of node x changes: every environment whose cone contains x becomes stale *)
Definition touch (T : tree) (x : nat) (s : cst) : cst :=
  mkC (c_loc s)
      (fun a => c_ec s a && negb (memn x (cone T a)))
      (fun y => c_ep s y && memn x (cone T y)).
Definition set_loc (l : loc) (s : cst) : cst := mkC l (c_ec s) (c_ep s).
Definition upd (f : nat -> bool) (k : nat) (v : bool) : nat -> bool := fun x => if (x =? k)%nat then v else f x.
Definition ep_ok (T : tree) (s : cst) (n : nat) : bool := (n =? tid T)%nat || c_ep s n.
Definition others (c : nat) (l : list nat) : list nat := filter (fun x => negb (x =? c)%nat) l.

Definition cstep (T : tree) (s : cst) (e : event) : option cst :=
  match e with
  | Evolve1 n _ =>
    if loc_eqb (c_loc s) (AtNode n) && ep_ok T s n && forallb (c_ec s) (kids T n)
    then Some (touch T n s) else None
  | Evolve0 c _ =>
    if loc_eqb (c_loc s) (OnBond c) && c_ec s c && c_ep s c then Some s else None
  | Evolve2 c p _ =>
    if (loc_eqb (c_loc s) (AtNode c) || loc_eqb (c_loc s) (AtNode p)) && memn c (kids T p)
       && forallb (c_ec s) (kids T c) && forallb (c_ec s) (others c (kids T p)) && ep_ok T s p
    then Some s else None
  | Split2 c p b =>
    if (loc_eqb (c_loc s) (AtNode c) || loc_eqb (c_loc s) (AtNode p)) && memn c (kids T p)
    then Some (set_loc (AtNode (if b then p else c)) (touch T p (touch T c s))) else None
  | QRUp c p =>
    if loc_eqb (c_loc s) (AtNode c) && memn c (kids T p)
    then Some (set_loc (OnBond c) (touch T c s)) else None
  | AbsorbUp c p =>
    if loc_eqb (c_loc s) (OnBond c) && memn c (kids T p)
    then Some (set_loc (AtNode p) (touch T p s)) else None
  | QRDown p i c =>
    if loc_eqb (c_loc s) (AtNode p) && (nth i (kids T p) (S c) =? c)%nat && (i <? length (kids T p))%nat
    then Some (set_loc (OnBond c) (touch T p s)) else None
  | AbsorbDown p i c =>
    if loc_eqb (c_loc s) (OnBond c) && (nth i (kids T p) (S c) =? c)%nat && (i <? length (kids T p))%nat
    then Some (set_loc (AtNode c) (touch T c s)) else None
  | EnvChild c =>
    if (c =? tid T)%nat then Some s       (* `if snode.parent is None: return` *)
    else Some (mkC (c_loc s) (upd (c_ec s) c (forallb (c_ec s) (kids T c))) (c_ep s))
  | EnvParent p i c =>
    if (nth i (kids T p) (S c) =? c)%nat && (i <? length (kids T p))%nat
    then Some (mkC (c_loc s) (c_ec s)
                   (upd (c_ep s) c (ep_ok T s p && forallb (c_ec s) (others c (kids T p)))))
    else None
  end.

Fixpoint replay (T : tree) (s : cst) (l : list event) : option cst :=
  match l with
  | [] => Some s
  | e :: l' => match cstep T s e with Some s' => replay T s' l' | None => None end
  end.

(* after TTNEnviron(ttns, ttno): every environment freshly built, centre at the root *)
Definition cinit (T : tree) : cst := mkC (AtNode (tid T)) (fun _ => true) (fun _ => true).
(* the whole trace replays without a violated precondition and the centre is back at the root *)
Definition replay_ok (T : tree) (l : list event) : bool :=
  match replay T (cinit T) l with
  | Some s => loc_eqb (c_loc s) (AtNode (tid T))
  | None => false
  end.
(* index (from 0) of the first event whose precondition fails, for diagnostics *)
Fixpoint first_bad (T : tree) (s : cst) (l : list event) (k : Z) : Z :=
  match l with
  | [] => -1
  | e :: l' => match cstep T s e with Some s' => first_bad T s' l' (k + 1) | None => k end
  end.

(* centre only (no environments): the position after a trace, None if some event is applied off-centre *)
Definition cstep_loc (l : loc) (e : event) : option loc :=
  match e with
  | Evolve1 n _ => if loc_eqb l (AtNode n) then Some l else None
  | Evolve0 c _ => if loc_eqb l (OnBond c) then Some l else None
  | QRUp c p => if loc_eqb l (AtNode c) then Some (OnBond c) else None
  | AbsorbUp c p => if loc_eqb l (OnBond c) then Some (AtNode p) else None
  | QRDown p i c => if loc_eqb l (AtNode p) then Some (OnBond c) else None
  | AbsorbDown p i c => if loc_eqb l (OnBond c) then Some (AtNode c) else None
  | Evolve2 c p _ => if loc_eqb l (AtNode c) || loc_eqb l (AtNode p) then Some l else None
  | Split2 c p b => Some (AtNode (if b then p else c))
  | EnvChild _ | EnvParent _ _ _ => Some l
  end.
Fixpoint centre_run (l : loc) (es : list event) : option loc :=
  match es with
  | [] => Some l
  | e :: es' => match cstep_loc l e with Some l' => centre_run l' es' | None => None end
  end.

(* ------------------------------------------------------------------ all ordered rooted trees of a given size *)
(* all ordered forests with n nodes in total (ids 0); fuel >= n *)
Fixpoint forests (fuel n : nat) : list (list tree) :=
  match fuel with
  | O => match n with O => [[]] | _ => [] end
  | S f =>
    match n with
    | O => [[]]
    | _ => flat_map (fun k => flat_map (fun first => map (fun rest => Node 0 first :: rest) (forests f (n - k)))
                                       (forests f (k - 1))) (seq 1 n)
    end
  end.
(* pre-order numbering from k (the numbering of ttns.node_list) *)
Fixpoint relabel (k : nat) (t : tree) : nat * tree :=
  match t with
  | Node _ ch =>
    let r := (fix go (k : nat) (l : list tree) : nat * list tree :=
                match l with
                | [] => (k, [])
                | c :: l' => let a := relabel k c in let b := go (fst a) l' in (fst b, snd a :: snd b)
                end) (S k) ch in
    (fst r, Node k (snd r))
  end.
Definition trees_of_size (n : nat) : list tree :=
  map (fun f => snd (relabel 0 (Node 0 f))) (forests n (n - 1)).

(* ------------------------------------------------------------------ chain (Mps._evolve_tdvp_ps) *)
Inductive cevent := CE1 (site : nat) (t : Z) | CE0 (bond : nat) (t : Z).   (* bond b joins sites b, b+1 *)

(* one `for imps in mps.iter_idx_list(full=True)` loop *)
Definition chain_sweep (n qnidx : nat) (to_right : bool) (h : Z) : list cevent :=
  let sites := if to_right then seq qnidx (n - qnidx) else rev (seq 0 (S qnidx)) in
  flat_map (fun imps =>
              CE1 imps h ::
              (if negb to_right && negb (imps =? 0)%nat then [CE0 (imps - 1) (- h)]
               else if to_right && negb (imps =? n - 1)%nat then [CE0 imps (- h)]
               else [])) sites.
(* `for i in range(2): <sweep>; mps._switch_direction()` *)
Definition chain_ps (n qnidx : nat) (to_right : bool) (h : Z) : list cevent :=
  chain_sweep n qnidx to_right h
  ++ chain_sweep n (if to_right then n - 1 else 0)%nat (negb to_right) h.

(* tree.from_mps : tree node k holds chain site n-1-k ; the bond (c, parent c) is chain bond n-1-c *)
Definition to_chain (n : nat) (e : event) : list cevent :=
  match e with
  | Evolve1 k t => [CE1 (n - 1 - k) t]
  | Evolve0 c t => [CE0 (n - 1 - c) t]
  | _ => []
  end.

(* ------------------------------------------------------------------ propagate-and-compress, 4 stages *)
Section TDRK4.
  Variables (K V : Type).
  Variables (kmul : K -> K -> K) (k1 : K).
  Variables (vadd : V -> V -> V) (v0 : V) (smul : K -> V -> V).
  Variable H : V -> V.          (* ttno.contract *)
  Variable w : nat -> K.        (* 1 / i!  *)

  Fixpoint kpow (a : K) (i : nat) : K := match i with O => k1 | S j => kmul a (kpow a j) end.
  Fixpoint iterV (f : V -> V) (i : nat) (y : V) : V := match i with O => y | S j => f (iterV f j y) end.

  (* termlist = [y, H y, H H y, ...] built by `termlist.append(ttno.contract(termlist[-1]))` *)
  Fixpoint termlist (k : nat) (y : V) : list V :=
    match k with O => [y] | S j => termlist j y ++ [H (last (termlist j y) y)] end.
  (* term.scale((coeff * tau) ** i / factorial(i)) ; compressed_sum (exact at sufficient bond dimension) *)
  Fixpoint scaled (c tau : K) (i : nat) (l : list V) : list V :=
    match l with [] => [] | x :: l' => smul (kmul (kpow (kmul c tau) i) (w i)) x :: scaled c tau (S i) l' end.
  Definition vsum (l : list V) : V := fold_right vadd v0 l.
  Definition tdrk4 (c tau : K) (y : V) : V := vsum (scaled c tau 0 (termlist 4 y)).

  (* sum_{k<=4} w_k (tau c H)^k y *)
  Definition taylor4 (c tau : K) (y : V) : V :=
    vsum (map (fun k => smul (w k) (iterV (fun v => smul tau (smul c (H v))) k y)) (seq 0 5)).
End TDRK4.
