(* C16 -- closed forms of the particle-in-a-box (sine-DVR) matrix elements of BasisSineDVR, transcribed from
   _du, _u, _uu, _udu, _uudu as rational coefficient functions of the 1-based indices (j, k); the irrational
   units (powers of L and of 1/pi^2) are kept apart (no proofs in this file):

      _du  [j,k] = (1/L)   * du_c j k
      _u   [j,k] =  L      * (u_a j k  + u_b j k  / pi^2)
      _uu  [j,k] =  L^2    * (uu_a j k + uu_b j k / pi^2)
      _udu [j,k] =           udu_c j k
      _uudu[j,k] =  L      * (uudu_a j k + uudu_b j k / pi^2)
      p^2  [j,k] = (pi/L)^2 * p2_c j k                                                             *)
From Coq Require Import QArith ZArith List Bool Arith.
Import ListNotations.
From RV Require Import Model.Ladder.
Local Open Scope Q_scope.

Definition du_c (j k : nat) : Q :=
  if Nat.odd (j + k) then 4 * qn k * qn j / (qn j * qn j - qn k * qn k) else 0.

Definition u_a (j k : nat) : Q := if (j =? k)%nat then 1 # 2 else 0.
Definition u_b (j k : nat) : Q :=
  if Nat.odd (j + k) then 2 / ((qn j + qn k) * (qn j + qn k)) - 2 / ((qn j - qn k) * (qn j - qn k)) else 0.

Definition uu_a (j k : nat) : Q := if (j =? k)%nat then 1 # 3 else 0.
Definition uu_b (j k : nat) : Q :=
  if Nat.odd (j + k) then 2 * (1 / ((qn j + qn k) * (qn j + qn k)) - 1 / ((qn j - qn k) * (qn j - qn k)))
  else if (j =? k)%nat then - (1 / (2 * qn j * qn j))
  else - (2) * (1 / ((qn j + qn k) * (qn j + qn k)) - 1 / ((qn j - qn k) * (qn j - qn k))).

Definition udu_c (j k : nat) : Q :=
  if Nat.odd (j + k) then qn k * (1 / (qn j + qn k) + 1 / (qn j - qn k))
  else if (j =? k)%nat then - (1 # 2)
  else - (qn k * (1 / (qn j + qn k) + 1 / (qn j - qn k))).

Definition uudu_a (j k : nat) : Q :=
  if Nat.odd (j + k) then qn k * (1 / (qn j + qn k) + 1 / (qn j - qn k))
  else if (j =? k)%nat then - (1 # 2)
  else - (qn k * (1 / (qn j + qn k) + 1 / (qn j - qn k))).
Definition cube (x : Q) : Q := x * x * x.
Definition uudu_b (j k : nat) : Q :=
  if Nat.odd (j + k) then qn k * (- (4) / cube (qn j + qn k) - 4 / cube (qn j - qn k)) else 0.

Definition p2_c (j k : nat) : Q := if (j =? k)%nat then qn j * qn j else 0.

Definition dump1 (N : nat) (f : nat -> nat -> Q) : list Z :=
  flat_map (fun j => flat_map (fun k => flatQ (f j k)) (seq 1 N)) (seq 1 N).
