(* The projector-splitting sweeps of Mps._evolve_tdvp_ps (one-site, mps.py:1268) and
   Mps._evolve_tdvp_ps2 (two-site, mps.py:1407) as lists of local events.  No proofs here.

   One-site, per visited site imps (for i in range(2): for imps in mps.iter_idx_list(full=True): ...; mps._switch_direction()):
     Fwd imps h      the site tensor is evolved forward by h = evolve_dt/2 with the effective one-site operator
                     (expm_krylov(hop, -1j*h, .) or solve_ivp with /coef)
     Split imps b    svd_qn(QR=True): site imps keeps the isometry, the centre moves onto bond b
                     (b = imps when sweeping right, b = imps-1 when sweeping left; bond b joins sites b, b+1)
     Bwd b h         the bond matrix is evolved BACKWARD by h with the zero-site operator (+1j*h or / -coef)
     Absorb b j      the bond matrix is contracted into the next site j (tensordot); the centre is on site j
   The end site of a half sweep (imps = n-1 going right, imps = 0 going left) is only evolved forward.
   iter_idx_list(full=True) is range(qnidx, n) resp. range(qnidx, -1, -1); _switch_direction sets
   qnidx to n-1 resp. 0 and flips to_right.

   Two-site, per visited pair (iter_idx_list(full=False): range(qnidx, n-1) resp. range(qnidx, 0, -1)):
     Fwd2 l h        the two-site tensor on sites (l, l+1) is evolved forward by h and split again
                     (_update_mps: SVD, truncation to the configured limit; centre on l+1 going right, on l going left)
     Bwd1 j h        unless the pair is the last one of the half sweep, the new centre site j is evolved backward by h
*)
From Coq Require Import QArith List Arith Bool.
Import ListNotations.

Inductive psev :=
| Fwd (site : nat) (h : Q)
| Split (site bond : nat)
| Bwd (bond : nat) (h : Q)
| Absorb (bond site : nat)
| Fwd2 (left : nat) (h : Q)
| Bwd1 (site : nat) (h : Q).

(* range(q, n) and range(q, -1, -1) *)
Definition range_up (q n : nat) : list nat := seq q (n - q).
Definition range_down (q : nat) : list nat := rev (seq 0 (S q)).

Definition ps1_site (n : nat) (to_right : bool) (h : Q) (imps : nat) : list psev :=
  if to_right then
    if Nat.eqb imps (n - 1) then [Fwd imps h]
    else [Fwd imps h; Split imps imps; Bwd imps h; Absorb imps (S imps)]
  else
    if Nat.eqb imps 0 then [Fwd imps h]
    else [Fwd imps h; Split imps (imps - 1); Bwd (imps - 1) h; Absorb (imps - 1) (imps - 1)].

Definition ps1_half (n : nat) (to_right : bool) (q : nat) (h : Q) : list psev :=
  flat_map (ps1_site n to_right h) (if to_right then range_up q n else range_down q).

(* MatrixProduct._switch_direction *)
Definition switch_q (n : nat) (to_right : bool) : nat := if to_right then n - 1 else 0.

(* the whole step: two half sweeps of evolve_dt / 2 each *)
Definition ps1_step (n : nat) (to_right : bool) (q : nat) (dt : Q) : list psev :=
  ps1_half n to_right q (dt / 2) ++ ps1_half n (negb to_right) (switch_q n to_right) (dt / 2).

(* two-site *)
Definition ps2_pair (n : nat) (to_right : bool) (h : Q) (imps : nat) : list psev :=
  if to_right then
    (* lidx, cidx0, cidx1, ridx = imps-1 .. imps+2; cidx2 = cidx1; last_idx = n-2 *)
    if Nat.eqb imps (n - 2) then [Fwd2 imps h] else [Fwd2 imps h; Bwd1 (S imps) h]
  else
    (* lidx, cidx0, cidx1, ridx = imps-2 .. imps+1; cidx2 = cidx0; last_idx = 1 *)
    if Nat.eqb imps 1 then [Fwd2 (imps - 1) h] else [Fwd2 (imps - 1) h; Bwd1 (imps - 1) h].

Definition ps2_half (n : nat) (to_right : bool) (q : nat) (h : Q) : list psev :=
  flat_map (ps2_pair n to_right h)
           (if to_right then seq q (n - 1 - q) else rev (seq 1 q)).   (* range(q, n-1) / range(q, 0, -1) *)

Definition ps2_step (n : nat) (to_right : bool) (q : nat) (dt : Q) : list psev :=
  ps2_half n to_right q (dt / 2) ++ ps2_half n (negb to_right) (switch_q n to_right) (dt / 2).

(* time reversal of a sweep: reverse the order and exchange the roles of Split and Absorb *)
Definition mirror (e : psev) : psev :=
  match e with
  | Split s b => Absorb b s
  | Absorb b s => Split s b
  | e => e
  end.

(* totals *)
Definition fwd_total (i : nat) (tr : list psev) : Q :=
  fold_right (fun e s => match e with Fwd j h => if Nat.eqb i j then h + s else s | _ => s end) 0 tr.
Definition bwd_total (b : nat) (tr : list psev) : Q :=
  fold_right (fun e s => match e with Bwd j h => if Nat.eqb b j then h + s else s | _ => s end) 0 tr.
Definition fwd2_total (l : nat) (tr : list psev) : Q :=
  fold_right (fun e s => match e with Fwd2 j h => if Nat.eqb l j then h + s else s | _ => s end) 0 tr.
Definition bwd1_total (i : nat) (tr : list psev) : Q :=
  fold_right (fun e s => match e with Bwd1 j h => if Nat.eqb i j then h + s else s | _ => s end) 0 tr.

(* where the orthogonality centre is *)
Inductive centre := AtSite (i : nat) | AtBond (b : nat).

(* one event is legal at a centre position and moves it *)
Definition centre_step (c : centre) (e : psev) : option centre :=
  match e, c with
  | Fwd i _, AtSite j => if Nat.eqb i j then Some c else None
  | Split i b, AtSite j => if Nat.eqb i j && (Nat.eqb b i || Nat.eqb (S b) i) then Some (AtBond b) else None
  | Bwd b _, AtBond b' => if Nat.eqb b b' then Some c else None
  | Absorb b j, AtBond b' => if Nat.eqb b b' && (Nat.eqb j b || Nat.eqb j (S b)) then Some (AtSite j) else None
  | _, _ => None
  end.
Fixpoint centre_run (c : centre) (tr : list psev) : option centre :=
  match tr with
  | [] => Some c
  | e :: r => match centre_step c e with Some c' => centre_run c' r | None => None end
  end.

(* abstract semantics: a state space with local maps, for the conservation statement *)
Section Abstract.
Variable S : Type.
Variable app : psev -> S -> S.
Definition run_events (tr : list psev) (s : S) : S := fold_left (fun st e => app e st) tr s.
End Abstract.

(* bond dimensions under the one-site sweep: only Split (QR with full_matrices=False, possibly block-wise
   with fewer columns) changes a dimension.  d j = dimension of the bond left of site j; p j = physical
   dimension of site j; qr_rank site rows cols = number of columns the factorisation keeps. *)
Section Dims.
Variable qr_rank : nat -> nat -> nat -> nat.
Definition upd (f : nat -> nat) (i x : nat) : nat -> nat := fun j => if Nat.eqb j i then x else f j.
Definition dims_step (p : nat -> nat) (d : nat -> nat) (e : psev) : nat -> nat :=
  match e with
  | Split i b => if Nat.eqb b i then upd d (S i) (qr_rank i (d i * p i) (d (S i)))
                 else upd d i (qr_rank i (p i * d (S i)) (d i))
  | _ => d
  end.
Definition dims_run (p : nat -> nat) (tr : list psev) (d : nat -> nat) : nat -> nat :=
  fold_left (dims_step p) tr d.
End Dims.
